import BlockCiphers.Gen.Cipher_Serpent
import BlockCiphers.Gen.Keys_Serpent
import BlockCiphers.Proofs.GenCipherSerpent
import BlockCiphers.Proofs.GenKeysSerpent
import BlockCiphers.Proofs.Serpent
import BlockCiphers.Proofs.SerpentSpec
/-
Code-level theorems for the `serpent` crate, key lengths 16, 17, 19, 24, 31, 32 bytes (the lengths for which the constructor
`Serpent::new_from_slice` has been regenerated and tied, `Proofs/GenKeysSerpent`), default build (unrolled rounds) and the
`--cfg serpent_no_unroll` build (`serpent_loop_*`).
`enc_<n>` / `dec_<n>` / `loop_enc_<n>` / `loop_dec_<n>` are built ONLY from regenerated definitions (`Gen/Keys_Serpent.lean`:
`serpent_new_from_slice_<n>`; `Gen/Cipher_Serpent.lean`: `serpent_[loop_]{en,de}crypt_block`).  For every key and every block:
round trips and equality with the Serpent specification (`Spec/Serpent.lean`; the key is passed as its `n` bytes
`unpackBE n key`, byte 0 = most significant byte of the `BitVec`, as in the key tie).
They compose: key ties `GenKeysSerpent.new_from_slice_<n>_eq`, cipher ties `GenCipherSerpent.[loop_]{en,de}crypt_block_eq`,
model theorems `Proofs/Serpent` (round trip), `Proofs/SerpentSpec` (conformance, Thm/C08).
Produced by gen_serpent.py (only the 132-component patterns are mechanical).
-/
namespace BC.Code.Serpent
open BC.Gen.Fn
set_option maxRecDepth 100000

/-- the flattened field `round_keys: [[u32; 4]; 33]` -/
abbrev Fields := BitVec 32 × BitVec 32 × BitVec 32 × BitVec 32 × BitVec 32 × BitVec 32 × BitVec 32 × BitVec 32 × BitVec 32 × BitVec 32 × BitVec 32 × BitVec 32 × BitVec 32 × BitVec 32 × BitVec 32 × BitVec 32 × BitVec 32 × BitVec 32 × BitVec 32 × BitVec 32 × BitVec 32 × BitVec 32 × BitVec 32 × BitVec 32 × BitVec 32 × BitVec 32 × BitVec 32 × BitVec 32 × BitVec 32 × BitVec 32 × BitVec 32 × BitVec 32 × BitVec 32 × BitVec 32 × BitVec 32 × BitVec 32 × BitVec 32 × BitVec 32 × BitVec 32 × BitVec 32 × BitVec 32 × BitVec 32 × BitVec 32 × BitVec 32 × BitVec 32 × BitVec 32 × BitVec 32 × BitVec 32 × BitVec 32 × BitVec 32 × BitVec 32 × BitVec 32 × BitVec 32 × BitVec 32 × BitVec 32 × BitVec 32 × BitVec 32 × BitVec 32 × BitVec 32 × BitVec 32 × BitVec 32 × BitVec 32 × BitVec 32 × BitVec 32 × BitVec 32 × BitVec 32 × BitVec 32 × BitVec 32 × BitVec 32 × BitVec 32 × BitVec 32 × BitVec 32 × BitVec 32 × BitVec 32 × BitVec 32 × BitVec 32 × BitVec 32 × BitVec 32 × BitVec 32 × BitVec 32 × BitVec 32 × BitVec 32 × BitVec 32 × BitVec 32 × BitVec 32 × BitVec 32 × BitVec 32 × BitVec 32 × BitVec 32 × BitVec 32 × BitVec 32 × BitVec 32 × BitVec 32 × BitVec 32 × BitVec 32 × BitVec 32 × BitVec 32 × BitVec 32 × BitVec 32 × BitVec 32 × BitVec 32 × BitVec 32 × BitVec 32 × BitVec 32 × BitVec 32 × BitVec 32 × BitVec 32 × BitVec 32 × BitVec 32 × BitVec 32 × BitVec 32 × BitVec 32 × BitVec 32 × BitVec 32 × BitVec 32 × BitVec 32 × BitVec 32 × BitVec 32 × BitVec 32 × BitVec 32 × BitVec 32 × BitVec 32 × BitVec 32 × BitVec 32 × BitVec 32 × BitVec 32 × BitVec 32 × BitVec 32 × BitVec 32 × BitVec 32 × BitVec 32 × BitVec 32

/-! ### the four regenerated block functions applied to a flattened field tuple (regenerated code only) -/

def encT (t : Fields) (b : BitVec 128) : BitVec 128 :=
  match t with
  | (k0_0, k0_1, k0_2, k0_3, k1_0, k1_1, k1_2, k1_3, k2_0, k2_1, k2_2, k2_3, k3_0, k3_1, k3_2, k3_3, k4_0, k4_1, k4_2, k4_3, k5_0, k5_1, k5_2, k5_3, k6_0, k6_1, k6_2, k6_3, k7_0, k7_1, k7_2, k7_3, k8_0, k8_1, k8_2, k8_3, k9_0, k9_1, k9_2, k9_3, k10_0, k10_1, k10_2, k10_3, k11_0, k11_1, k11_2, k11_3, k12_0, k12_1, k12_2, k12_3, k13_0, k13_1, k13_2, k13_3, k14_0, k14_1, k14_2, k14_3, k15_0, k15_1, k15_2, k15_3, k16_0, k16_1, k16_2, k16_3, k17_0, k17_1, k17_2, k17_3, k18_0, k18_1, k18_2, k18_3, k19_0, k19_1, k19_2, k19_3, k20_0, k20_1, k20_2, k20_3, k21_0, k21_1, k21_2, k21_3, k22_0, k22_1, k22_2, k22_3, k23_0, k23_1, k23_2, k23_3, k24_0, k24_1, k24_2, k24_3, k25_0, k25_1, k25_2, k25_3, k26_0, k26_1, k26_2, k26_3, k27_0, k27_1, k27_2, k27_3, k28_0, k28_1, k28_2, k28_3, k29_0, k29_1, k29_2, k29_3, k30_0, k30_1, k30_2, k30_3, k31_0, k31_1, k31_2, k31_3, k32_0, k32_1, k32_2, k32_3) => serpent_encrypt_block k0_0 k0_1 k0_2 k0_3 k1_0 k1_1 k1_2 k1_3 k2_0 k2_1 k2_2 k2_3 k3_0 k3_1 k3_2 k3_3 k4_0 k4_1 k4_2 k4_3 k5_0 k5_1 k5_2 k5_3 k6_0 k6_1 k6_2 k6_3 k7_0 k7_1 k7_2 k7_3 k8_0 k8_1 k8_2 k8_3 k9_0 k9_1 k9_2 k9_3 k10_0 k10_1 k10_2 k10_3 k11_0 k11_1 k11_2 k11_3 k12_0 k12_1 k12_2 k12_3 k13_0 k13_1 k13_2 k13_3 k14_0 k14_1 k14_2 k14_3 k15_0 k15_1 k15_2 k15_3 k16_0 k16_1 k16_2 k16_3 k17_0 k17_1 k17_2 k17_3 k18_0 k18_1 k18_2 k18_3 k19_0 k19_1 k19_2 k19_3 k20_0 k20_1 k20_2 k20_3 k21_0 k21_1 k21_2 k21_3 k22_0 k22_1 k22_2 k22_3 k23_0 k23_1 k23_2 k23_3 k24_0 k24_1 k24_2 k24_3 k25_0 k25_1 k25_2 k25_3 k26_0 k26_1 k26_2 k26_3 k27_0 k27_1 k27_2 k27_3 k28_0 k28_1 k28_2 k28_3 k29_0 k29_1 k29_2 k29_3 k30_0 k30_1 k30_2 k30_3 k31_0 k31_1 k31_2 k31_3 k32_0 k32_1 k32_2 k32_3 b

def decT (t : Fields) (b : BitVec 128) : BitVec 128 :=
  match t with
  | (k0_0, k0_1, k0_2, k0_3, k1_0, k1_1, k1_2, k1_3, k2_0, k2_1, k2_2, k2_3, k3_0, k3_1, k3_2, k3_3, k4_0, k4_1, k4_2, k4_3, k5_0, k5_1, k5_2, k5_3, k6_0, k6_1, k6_2, k6_3, k7_0, k7_1, k7_2, k7_3, k8_0, k8_1, k8_2, k8_3, k9_0, k9_1, k9_2, k9_3, k10_0, k10_1, k10_2, k10_3, k11_0, k11_1, k11_2, k11_3, k12_0, k12_1, k12_2, k12_3, k13_0, k13_1, k13_2, k13_3, k14_0, k14_1, k14_2, k14_3, k15_0, k15_1, k15_2, k15_3, k16_0, k16_1, k16_2, k16_3, k17_0, k17_1, k17_2, k17_3, k18_0, k18_1, k18_2, k18_3, k19_0, k19_1, k19_2, k19_3, k20_0, k20_1, k20_2, k20_3, k21_0, k21_1, k21_2, k21_3, k22_0, k22_1, k22_2, k22_3, k23_0, k23_1, k23_2, k23_3, k24_0, k24_1, k24_2, k24_3, k25_0, k25_1, k25_2, k25_3, k26_0, k26_1, k26_2, k26_3, k27_0, k27_1, k27_2, k27_3, k28_0, k28_1, k28_2, k28_3, k29_0, k29_1, k29_2, k29_3, k30_0, k30_1, k30_2, k30_3, k31_0, k31_1, k31_2, k31_3, k32_0, k32_1, k32_2, k32_3) => serpent_decrypt_block k0_0 k0_1 k0_2 k0_3 k1_0 k1_1 k1_2 k1_3 k2_0 k2_1 k2_2 k2_3 k3_0 k3_1 k3_2 k3_3 k4_0 k4_1 k4_2 k4_3 k5_0 k5_1 k5_2 k5_3 k6_0 k6_1 k6_2 k6_3 k7_0 k7_1 k7_2 k7_3 k8_0 k8_1 k8_2 k8_3 k9_0 k9_1 k9_2 k9_3 k10_0 k10_1 k10_2 k10_3 k11_0 k11_1 k11_2 k11_3 k12_0 k12_1 k12_2 k12_3 k13_0 k13_1 k13_2 k13_3 k14_0 k14_1 k14_2 k14_3 k15_0 k15_1 k15_2 k15_3 k16_0 k16_1 k16_2 k16_3 k17_0 k17_1 k17_2 k17_3 k18_0 k18_1 k18_2 k18_3 k19_0 k19_1 k19_2 k19_3 k20_0 k20_1 k20_2 k20_3 k21_0 k21_1 k21_2 k21_3 k22_0 k22_1 k22_2 k22_3 k23_0 k23_1 k23_2 k23_3 k24_0 k24_1 k24_2 k24_3 k25_0 k25_1 k25_2 k25_3 k26_0 k26_1 k26_2 k26_3 k27_0 k27_1 k27_2 k27_3 k28_0 k28_1 k28_2 k28_3 k29_0 k29_1 k29_2 k29_3 k30_0 k30_1 k30_2 k30_3 k31_0 k31_1 k31_2 k31_3 k32_0 k32_1 k32_2 k32_3 b

def loopEncT (t : Fields) (b : BitVec 128) : BitVec 128 :=
  match t with
  | (k0_0, k0_1, k0_2, k0_3, k1_0, k1_1, k1_2, k1_3, k2_0, k2_1, k2_2, k2_3, k3_0, k3_1, k3_2, k3_3, k4_0, k4_1, k4_2, k4_3, k5_0, k5_1, k5_2, k5_3, k6_0, k6_1, k6_2, k6_3, k7_0, k7_1, k7_2, k7_3, k8_0, k8_1, k8_2, k8_3, k9_0, k9_1, k9_2, k9_3, k10_0, k10_1, k10_2, k10_3, k11_0, k11_1, k11_2, k11_3, k12_0, k12_1, k12_2, k12_3, k13_0, k13_1, k13_2, k13_3, k14_0, k14_1, k14_2, k14_3, k15_0, k15_1, k15_2, k15_3, k16_0, k16_1, k16_2, k16_3, k17_0, k17_1, k17_2, k17_3, k18_0, k18_1, k18_2, k18_3, k19_0, k19_1, k19_2, k19_3, k20_0, k20_1, k20_2, k20_3, k21_0, k21_1, k21_2, k21_3, k22_0, k22_1, k22_2, k22_3, k23_0, k23_1, k23_2, k23_3, k24_0, k24_1, k24_2, k24_3, k25_0, k25_1, k25_2, k25_3, k26_0, k26_1, k26_2, k26_3, k27_0, k27_1, k27_2, k27_3, k28_0, k28_1, k28_2, k28_3, k29_0, k29_1, k29_2, k29_3, k30_0, k30_1, k30_2, k30_3, k31_0, k31_1, k31_2, k31_3, k32_0, k32_1, k32_2, k32_3) => serpent_loop_encrypt_block k0_0 k0_1 k0_2 k0_3 k1_0 k1_1 k1_2 k1_3 k2_0 k2_1 k2_2 k2_3 k3_0 k3_1 k3_2 k3_3 k4_0 k4_1 k4_2 k4_3 k5_0 k5_1 k5_2 k5_3 k6_0 k6_1 k6_2 k6_3 k7_0 k7_1 k7_2 k7_3 k8_0 k8_1 k8_2 k8_3 k9_0 k9_1 k9_2 k9_3 k10_0 k10_1 k10_2 k10_3 k11_0 k11_1 k11_2 k11_3 k12_0 k12_1 k12_2 k12_3 k13_0 k13_1 k13_2 k13_3 k14_0 k14_1 k14_2 k14_3 k15_0 k15_1 k15_2 k15_3 k16_0 k16_1 k16_2 k16_3 k17_0 k17_1 k17_2 k17_3 k18_0 k18_1 k18_2 k18_3 k19_0 k19_1 k19_2 k19_3 k20_0 k20_1 k20_2 k20_3 k21_0 k21_1 k21_2 k21_3 k22_0 k22_1 k22_2 k22_3 k23_0 k23_1 k23_2 k23_3 k24_0 k24_1 k24_2 k24_3 k25_0 k25_1 k25_2 k25_3 k26_0 k26_1 k26_2 k26_3 k27_0 k27_1 k27_2 k27_3 k28_0 k28_1 k28_2 k28_3 k29_0 k29_1 k29_2 k29_3 k30_0 k30_1 k30_2 k30_3 k31_0 k31_1 k31_2 k31_3 k32_0 k32_1 k32_2 k32_3 b

def loopDecT (t : Fields) (b : BitVec 128) : BitVec 128 :=
  match t with
  | (k0_0, k0_1, k0_2, k0_3, k1_0, k1_1, k1_2, k1_3, k2_0, k2_1, k2_2, k2_3, k3_0, k3_1, k3_2, k3_3, k4_0, k4_1, k4_2, k4_3, k5_0, k5_1, k5_2, k5_3, k6_0, k6_1, k6_2, k6_3, k7_0, k7_1, k7_2, k7_3, k8_0, k8_1, k8_2, k8_3, k9_0, k9_1, k9_2, k9_3, k10_0, k10_1, k10_2, k10_3, k11_0, k11_1, k11_2, k11_3, k12_0, k12_1, k12_2, k12_3, k13_0, k13_1, k13_2, k13_3, k14_0, k14_1, k14_2, k14_3, k15_0, k15_1, k15_2, k15_3, k16_0, k16_1, k16_2, k16_3, k17_0, k17_1, k17_2, k17_3, k18_0, k18_1, k18_2, k18_3, k19_0, k19_1, k19_2, k19_3, k20_0, k20_1, k20_2, k20_3, k21_0, k21_1, k21_2, k21_3, k22_0, k22_1, k22_2, k22_3, k23_0, k23_1, k23_2, k23_3, k24_0, k24_1, k24_2, k24_3, k25_0, k25_1, k25_2, k25_3, k26_0, k26_1, k26_2, k26_3, k27_0, k27_1, k27_2, k27_3, k28_0, k28_1, k28_2, k28_3, k29_0, k29_1, k29_2, k29_3, k30_0, k30_1, k30_2, k30_3, k31_0, k31_1, k31_2, k31_3, k32_0, k32_1, k32_2, k32_3) => serpent_loop_decrypt_block k0_0 k0_1 k0_2 k0_3 k1_0 k1_1 k1_2 k1_3 k2_0 k2_1 k2_2 k2_3 k3_0 k3_1 k3_2 k3_3 k4_0 k4_1 k4_2 k4_3 k5_0 k5_1 k5_2 k5_3 k6_0 k6_1 k6_2 k6_3 k7_0 k7_1 k7_2 k7_3 k8_0 k8_1 k8_2 k8_3 k9_0 k9_1 k9_2 k9_3 k10_0 k10_1 k10_2 k10_3 k11_0 k11_1 k11_2 k11_3 k12_0 k12_1 k12_2 k12_3 k13_0 k13_1 k13_2 k13_3 k14_0 k14_1 k14_2 k14_3 k15_0 k15_1 k15_2 k15_3 k16_0 k16_1 k16_2 k16_3 k17_0 k17_1 k17_2 k17_3 k18_0 k18_1 k18_2 k18_3 k19_0 k19_1 k19_2 k19_3 k20_0 k20_1 k20_2 k20_3 k21_0 k21_1 k21_2 k21_3 k22_0 k22_1 k22_2 k22_3 k23_0 k23_1 k23_2 k23_3 k24_0 k24_1 k24_2 k24_3 k25_0 k25_1 k25_2 k25_3 k26_0 k26_1 k26_2 k26_3 k27_0 k27_1 k27_2 k27_3 k28_0 k28_1 k28_2 k28_3 k29_0 k29_1 k29_2 k29_3 k30_0 k30_1 k30_2 k30_3 k31_0 k31_1 k31_2 k31_3 k32_0 k32_1 k32_2 k32_3 b

/-! ### glue: a 33-entry round-key array is the literal array of its entries -/

theorem rk_eta (rk : BC.Serpent.RoundKeys) (h : rk.size = 33) : #[rk.get 0, rk.get 1, rk.get 2, rk.get 3, rk.get 4, rk.get 5, rk.get 6, rk.get 7, rk.get 8, rk.get 9, rk.get 10, rk.get 11, rk.get 12, rk.get 13, rk.get 14, rk.get 15, rk.get 16, rk.get 17, rk.get 18, rk.get 19, rk.get 20, rk.get 21, rk.get 22, rk.get 23, rk.get 24, rk.get 25, rk.get 26, rk.get 27, rk.get 28, rk.get 29, rk.get 30, rk.get 31, rk.get 32] = rk := by
  obtain ⟨l⟩ := rk
  match l, h with
  | _ :: _ :: _ :: _ :: _ :: _ :: _ :: _ :: _ :: _ :: _ :: _ :: _ :: _ :: _ :: _ :: _ :: _ :: _ :: _ :: _ :: _ :: _ :: _ :: _ :: _ :: _ :: _ :: _ :: _ :: _ :: _ :: _ :: [], _ => rfl

theorem unpackBE_length (n : Nat) {w : Nat} (x : BitVec w) : (BC.unpackBE n x).length = n := by
  simp [BC.unpackBE]

theorem encT_eq (rk : BC.Serpent.RoundKeys) (h : rk.size = 33) (b : BitVec 128) :
    encT (BC.GenKeys.Serpent.rkTuple rk) b = BC.Serpent.encrypt rk b := by
  have e := rk_eta rk h
  conv => rhs; rw [← e]
  exact BC.GenCipher.Serpent.encrypt_block_eq (rk.get 0) (rk.get 1) (rk.get 2) (rk.get 3) (rk.get 4) (rk.get 5) (rk.get 6) (rk.get 7) (rk.get 8) (rk.get 9) (rk.get 10) (rk.get 11) (rk.get 12) (rk.get 13) (rk.get 14) (rk.get 15) (rk.get 16) (rk.get 17) (rk.get 18) (rk.get 19) (rk.get 20) (rk.get 21) (rk.get 22) (rk.get 23) (rk.get 24) (rk.get 25) (rk.get 26) (rk.get 27) (rk.get 28) (rk.get 29) (rk.get 30) (rk.get 31) (rk.get 32) b

theorem decT_eq (rk : BC.Serpent.RoundKeys) (h : rk.size = 33) (b : BitVec 128) :
    decT (BC.GenKeys.Serpent.rkTuple rk) b = BC.Serpent.decrypt rk b := by
  have e := rk_eta rk h
  conv => rhs; rw [← e]
  exact BC.GenCipher.Serpent.decrypt_block_eq (rk.get 0) (rk.get 1) (rk.get 2) (rk.get 3) (rk.get 4) (rk.get 5) (rk.get 6) (rk.get 7) (rk.get 8) (rk.get 9) (rk.get 10) (rk.get 11) (rk.get 12) (rk.get 13) (rk.get 14) (rk.get 15) (rk.get 16) (rk.get 17) (rk.get 18) (rk.get 19) (rk.get 20) (rk.get 21) (rk.get 22) (rk.get 23) (rk.get 24) (rk.get 25) (rk.get 26) (rk.get 27) (rk.get 28) (rk.get 29) (rk.get 30) (rk.get 31) (rk.get 32) b

theorem loopEncT_eq (rk : BC.Serpent.RoundKeys) (h : rk.size = 33) (b : BitVec 128) :
    loopEncT (BC.GenKeys.Serpent.rkTuple rk) b = BC.Serpent.encryptLoop rk b := by
  have e := rk_eta rk h
  conv => rhs; rw [← e]
  exact BC.GenCipher.Serpent.loop_encrypt_block_eq (rk.get 0) (rk.get 1) (rk.get 2) (rk.get 3) (rk.get 4) (rk.get 5) (rk.get 6) (rk.get 7) (rk.get 8) (rk.get 9) (rk.get 10) (rk.get 11) (rk.get 12) (rk.get 13) (rk.get 14) (rk.get 15) (rk.get 16) (rk.get 17) (rk.get 18) (rk.get 19) (rk.get 20) (rk.get 21) (rk.get 22) (rk.get 23) (rk.get 24) (rk.get 25) (rk.get 26) (rk.get 27) (rk.get 28) (rk.get 29) (rk.get 30) (rk.get 31) (rk.get 32) b

theorem loopDecT_eq (rk : BC.Serpent.RoundKeys) (h : rk.size = 33) (b : BitVec 128) :
    loopDecT (BC.GenKeys.Serpent.rkTuple rk) b = BC.Serpent.decryptLoop rk b := by
  have e := rk_eta rk h
  conv => rhs; rw [← e]
  exact BC.GenCipher.Serpent.loop_decrypt_block_eq (rk.get 0) (rk.get 1) (rk.get 2) (rk.get 3) (rk.get 4) (rk.get 5) (rk.get 6) (rk.get 7) (rk.get 8) (rk.get 9) (rk.get 10) (rk.get 11) (rk.get 12) (rk.get 13) (rk.get 14) (rk.get 15) (rk.get 16) (rk.get 17) (rk.get 18) (rk.get 19) (rk.get 20) (rk.get 21) (rk.get 22) (rk.get 23) (rk.get 24) (rk.get 25) (rk.get 26) (rk.get 27) (rk.get 28) (rk.get 29) (rk.get 30) (rk.get 31) (rk.get 32) b

/-! ## key length 16 bytes -/

/-- `Serpent::new_from_slice(key).encrypt_block(b)`, 16-byte key, default build (rounds unrolled) — regenerated code only -/
def enc_16 (key : BitVec 128) (b : BitVec 128) : BitVec 128 :=
  match serpent_new_from_slice_16 key with
  | (k0_0, k0_1, k0_2, k0_3, k1_0, k1_1, k1_2, k1_3, k2_0, k2_1, k2_2, k2_3, k3_0, k3_1, k3_2, k3_3, k4_0, k4_1, k4_2, k4_3, k5_0, k5_1, k5_2, k5_3, k6_0, k6_1, k6_2, k6_3, k7_0, k7_1, k7_2, k7_3, k8_0, k8_1, k8_2, k8_3, k9_0, k9_1, k9_2, k9_3, k10_0, k10_1, k10_2, k10_3, k11_0, k11_1, k11_2, k11_3, k12_0, k12_1, k12_2, k12_3, k13_0, k13_1, k13_2, k13_3, k14_0, k14_1, k14_2, k14_3, k15_0, k15_1, k15_2, k15_3, k16_0, k16_1, k16_2, k16_3, k17_0, k17_1, k17_2, k17_3, k18_0, k18_1, k18_2, k18_3, k19_0, k19_1, k19_2, k19_3, k20_0, k20_1, k20_2, k20_3, k21_0, k21_1, k21_2, k21_3, k22_0, k22_1, k22_2, k22_3, k23_0, k23_1, k23_2, k23_3, k24_0, k24_1, k24_2, k24_3, k25_0, k25_1, k25_2, k25_3, k26_0, k26_1, k26_2, k26_3, k27_0, k27_1, k27_2, k27_3, k28_0, k28_1, k28_2, k28_3, k29_0, k29_1, k29_2, k29_3, k30_0, k30_1, k30_2, k30_3, k31_0, k31_1, k31_2, k31_3, k32_0, k32_1, k32_2, k32_3) => serpent_encrypt_block k0_0 k0_1 k0_2 k0_3 k1_0 k1_1 k1_2 k1_3 k2_0 k2_1 k2_2 k2_3 k3_0 k3_1 k3_2 k3_3 k4_0 k4_1 k4_2 k4_3 k5_0 k5_1 k5_2 k5_3 k6_0 k6_1 k6_2 k6_3 k7_0 k7_1 k7_2 k7_3 k8_0 k8_1 k8_2 k8_3 k9_0 k9_1 k9_2 k9_3 k10_0 k10_1 k10_2 k10_3 k11_0 k11_1 k11_2 k11_3 k12_0 k12_1 k12_2 k12_3 k13_0 k13_1 k13_2 k13_3 k14_0 k14_1 k14_2 k14_3 k15_0 k15_1 k15_2 k15_3 k16_0 k16_1 k16_2 k16_3 k17_0 k17_1 k17_2 k17_3 k18_0 k18_1 k18_2 k18_3 k19_0 k19_1 k19_2 k19_3 k20_0 k20_1 k20_2 k20_3 k21_0 k21_1 k21_2 k21_3 k22_0 k22_1 k22_2 k22_3 k23_0 k23_1 k23_2 k23_3 k24_0 k24_1 k24_2 k24_3 k25_0 k25_1 k25_2 k25_3 k26_0 k26_1 k26_2 k26_3 k27_0 k27_1 k27_2 k27_3 k28_0 k28_1 k28_2 k28_3 k29_0 k29_1 k29_2 k29_3 k30_0 k30_1 k30_2 k30_3 k31_0 k31_1 k31_2 k31_3 k32_0 k32_1 k32_2 k32_3 b

/-- `Serpent::new_from_slice(key).decrypt_block(b)`, 16-byte key, default build (rounds unrolled) — regenerated code only -/
def dec_16 (key : BitVec 128) (b : BitVec 128) : BitVec 128 :=
  match serpent_new_from_slice_16 key with
  | (k0_0, k0_1, k0_2, k0_3, k1_0, k1_1, k1_2, k1_3, k2_0, k2_1, k2_2, k2_3, k3_0, k3_1, k3_2, k3_3, k4_0, k4_1, k4_2, k4_3, k5_0, k5_1, k5_2, k5_3, k6_0, k6_1, k6_2, k6_3, k7_0, k7_1, k7_2, k7_3, k8_0, k8_1, k8_2, k8_3, k9_0, k9_1, k9_2, k9_3, k10_0, k10_1, k10_2, k10_3, k11_0, k11_1, k11_2, k11_3, k12_0, k12_1, k12_2, k12_3, k13_0, k13_1, k13_2, k13_3, k14_0, k14_1, k14_2, k14_3, k15_0, k15_1, k15_2, k15_3, k16_0, k16_1, k16_2, k16_3, k17_0, k17_1, k17_2, k17_3, k18_0, k18_1, k18_2, k18_3, k19_0, k19_1, k19_2, k19_3, k20_0, k20_1, k20_2, k20_3, k21_0, k21_1, k21_2, k21_3, k22_0, k22_1, k22_2, k22_3, k23_0, k23_1, k23_2, k23_3, k24_0, k24_1, k24_2, k24_3, k25_0, k25_1, k25_2, k25_3, k26_0, k26_1, k26_2, k26_3, k27_0, k27_1, k27_2, k27_3, k28_0, k28_1, k28_2, k28_3, k29_0, k29_1, k29_2, k29_3, k30_0, k30_1, k30_2, k30_3, k31_0, k31_1, k31_2, k31_3, k32_0, k32_1, k32_2, k32_3) => serpent_decrypt_block k0_0 k0_1 k0_2 k0_3 k1_0 k1_1 k1_2 k1_3 k2_0 k2_1 k2_2 k2_3 k3_0 k3_1 k3_2 k3_3 k4_0 k4_1 k4_2 k4_3 k5_0 k5_1 k5_2 k5_3 k6_0 k6_1 k6_2 k6_3 k7_0 k7_1 k7_2 k7_3 k8_0 k8_1 k8_2 k8_3 k9_0 k9_1 k9_2 k9_3 k10_0 k10_1 k10_2 k10_3 k11_0 k11_1 k11_2 k11_3 k12_0 k12_1 k12_2 k12_3 k13_0 k13_1 k13_2 k13_3 k14_0 k14_1 k14_2 k14_3 k15_0 k15_1 k15_2 k15_3 k16_0 k16_1 k16_2 k16_3 k17_0 k17_1 k17_2 k17_3 k18_0 k18_1 k18_2 k18_3 k19_0 k19_1 k19_2 k19_3 k20_0 k20_1 k20_2 k20_3 k21_0 k21_1 k21_2 k21_3 k22_0 k22_1 k22_2 k22_3 k23_0 k23_1 k23_2 k23_3 k24_0 k24_1 k24_2 k24_3 k25_0 k25_1 k25_2 k25_3 k26_0 k26_1 k26_2 k26_3 k27_0 k27_1 k27_2 k27_3 k28_0 k28_1 k28_2 k28_3 k29_0 k29_1 k29_2 k29_3 k30_0 k30_1 k30_2 k30_3 k31_0 k31_1 k31_2 k31_3 k32_0 k32_1 k32_2 k32_3 b

theorem enc_16_eq_impl (key : BitVec 128) (b : BitVec 128) :
    enc_16 key b = BC.Serpent.encrypt (BC.Serpent.keySchedule (BC.unpackBE 16 key)) b := by
  have h : enc_16 key b = encT (serpent_new_from_slice_16 key) b := rfl
  rw [h, BC.GenKeys.Serpent.new_from_slice_16_eq, encT_eq _ (BC.Serpent.keySchedule_size _)]

theorem dec_16_eq_impl (key : BitVec 128) (b : BitVec 128) :
    dec_16 key b = BC.Serpent.decrypt (BC.Serpent.keySchedule (BC.unpackBE 16 key)) b := by
  have h : dec_16 key b = decT (serpent_new_from_slice_16 key) b := rfl
  rw [h, BC.GenKeys.Serpent.new_from_slice_16_eq, decT_eq _ (BC.Serpent.keySchedule_size _)]

/-- decryption inverts encryption, every 16-byte key, every block -/
theorem dec_16_enc_16 (key : BitVec 128) (b : BitVec 128) : dec_16 key (enc_16 key b) = b := by
  rw [enc_16_eq_impl, dec_16_eq_impl]; exact BC.Serpent.decrypt_encrypt _ b
theorem enc_16_dec_16 (key : BitVec 128) (b : BitVec 128) : enc_16 key (dec_16 key b) = b := by
  rw [dec_16_eq_impl, enc_16_eq_impl]; exact BC.Serpent.encrypt_decrypt _ b
/-- the regenerated code computes Serpent of the specification -/
theorem enc_16_eq_spec (key : BitVec 128) (b : BitVec 128) : enc_16 key b = BC.Spec.Serpent.encrypt (BC.unpackBE 16 key) b := by
  rw [enc_16_eq_impl]
  exact BC.Serpent.encrypt_eq_spec _ (by rw [unpackBE_length]; decide) (by rw [unpackBE_length]; decide) b
theorem dec_16_eq_spec (key : BitVec 128) (b : BitVec 128) : dec_16 key b = BC.Spec.Serpent.decrypt (BC.unpackBE 16 key) b := by
  rw [dec_16_eq_impl]
  exact BC.Serpent.decrypt_eq_spec _ (by rw [unpackBE_length]; decide) (by rw [unpackBE_length]; decide) b

/-- `Serpent::new_from_slice(key).encrypt_block(b)`, 16-byte key, `--cfg serpent_no_unroll` build — regenerated code only -/
def loop_enc_16 (key : BitVec 128) (b : BitVec 128) : BitVec 128 :=
  match serpent_new_from_slice_16 key with
  | (k0_0, k0_1, k0_2, k0_3, k1_0, k1_1, k1_2, k1_3, k2_0, k2_1, k2_2, k2_3, k3_0, k3_1, k3_2, k3_3, k4_0, k4_1, k4_2, k4_3, k5_0, k5_1, k5_2, k5_3, k6_0, k6_1, k6_2, k6_3, k7_0, k7_1, k7_2, k7_3, k8_0, k8_1, k8_2, k8_3, k9_0, k9_1, k9_2, k9_3, k10_0, k10_1, k10_2, k10_3, k11_0, k11_1, k11_2, k11_3, k12_0, k12_1, k12_2, k12_3, k13_0, k13_1, k13_2, k13_3, k14_0, k14_1, k14_2, k14_3, k15_0, k15_1, k15_2, k15_3, k16_0, k16_1, k16_2, k16_3, k17_0, k17_1, k17_2, k17_3, k18_0, k18_1, k18_2, k18_3, k19_0, k19_1, k19_2, k19_3, k20_0, k20_1, k20_2, k20_3, k21_0, k21_1, k21_2, k21_3, k22_0, k22_1, k22_2, k22_3, k23_0, k23_1, k23_2, k23_3, k24_0, k24_1, k24_2, k24_3, k25_0, k25_1, k25_2, k25_3, k26_0, k26_1, k26_2, k26_3, k27_0, k27_1, k27_2, k27_3, k28_0, k28_1, k28_2, k28_3, k29_0, k29_1, k29_2, k29_3, k30_0, k30_1, k30_2, k30_3, k31_0, k31_1, k31_2, k31_3, k32_0, k32_1, k32_2, k32_3) => serpent_loop_encrypt_block k0_0 k0_1 k0_2 k0_3 k1_0 k1_1 k1_2 k1_3 k2_0 k2_1 k2_2 k2_3 k3_0 k3_1 k3_2 k3_3 k4_0 k4_1 k4_2 k4_3 k5_0 k5_1 k5_2 k5_3 k6_0 k6_1 k6_2 k6_3 k7_0 k7_1 k7_2 k7_3 k8_0 k8_1 k8_2 k8_3 k9_0 k9_1 k9_2 k9_3 k10_0 k10_1 k10_2 k10_3 k11_0 k11_1 k11_2 k11_3 k12_0 k12_1 k12_2 k12_3 k13_0 k13_1 k13_2 k13_3 k14_0 k14_1 k14_2 k14_3 k15_0 k15_1 k15_2 k15_3 k16_0 k16_1 k16_2 k16_3 k17_0 k17_1 k17_2 k17_3 k18_0 k18_1 k18_2 k18_3 k19_0 k19_1 k19_2 k19_3 k20_0 k20_1 k20_2 k20_3 k21_0 k21_1 k21_2 k21_3 k22_0 k22_1 k22_2 k22_3 k23_0 k23_1 k23_2 k23_3 k24_0 k24_1 k24_2 k24_3 k25_0 k25_1 k25_2 k25_3 k26_0 k26_1 k26_2 k26_3 k27_0 k27_1 k27_2 k27_3 k28_0 k28_1 k28_2 k28_3 k29_0 k29_1 k29_2 k29_3 k30_0 k30_1 k30_2 k30_3 k31_0 k31_1 k31_2 k31_3 k32_0 k32_1 k32_2 k32_3 b

/-- `Serpent::new_from_slice(key).decrypt_block(b)`, 16-byte key, `--cfg serpent_no_unroll` build — regenerated code only -/
def loop_dec_16 (key : BitVec 128) (b : BitVec 128) : BitVec 128 :=
  match serpent_new_from_slice_16 key with
  | (k0_0, k0_1, k0_2, k0_3, k1_0, k1_1, k1_2, k1_3, k2_0, k2_1, k2_2, k2_3, k3_0, k3_1, k3_2, k3_3, k4_0, k4_1, k4_2, k4_3, k5_0, k5_1, k5_2, k5_3, k6_0, k6_1, k6_2, k6_3, k7_0, k7_1, k7_2, k7_3, k8_0, k8_1, k8_2, k8_3, k9_0, k9_1, k9_2, k9_3, k10_0, k10_1, k10_2, k10_3, k11_0, k11_1, k11_2, k11_3, k12_0, k12_1, k12_2, k12_3, k13_0, k13_1, k13_2, k13_3, k14_0, k14_1, k14_2, k14_3, k15_0, k15_1, k15_2, k15_3, k16_0, k16_1, k16_2, k16_3, k17_0, k17_1, k17_2, k17_3, k18_0, k18_1, k18_2, k18_3, k19_0, k19_1, k19_2, k19_3, k20_0, k20_1, k20_2, k20_3, k21_0, k21_1, k21_2, k21_3, k22_0, k22_1, k22_2, k22_3, k23_0, k23_1, k23_2, k23_3, k24_0, k24_1, k24_2, k24_3, k25_0, k25_1, k25_2, k25_3, k26_0, k26_1, k26_2, k26_3, k27_0, k27_1, k27_2, k27_3, k28_0, k28_1, k28_2, k28_3, k29_0, k29_1, k29_2, k29_3, k30_0, k30_1, k30_2, k30_3, k31_0, k31_1, k31_2, k31_3, k32_0, k32_1, k32_2, k32_3) => serpent_loop_decrypt_block k0_0 k0_1 k0_2 k0_3 k1_0 k1_1 k1_2 k1_3 k2_0 k2_1 k2_2 k2_3 k3_0 k3_1 k3_2 k3_3 k4_0 k4_1 k4_2 k4_3 k5_0 k5_1 k5_2 k5_3 k6_0 k6_1 k6_2 k6_3 k7_0 k7_1 k7_2 k7_3 k8_0 k8_1 k8_2 k8_3 k9_0 k9_1 k9_2 k9_3 k10_0 k10_1 k10_2 k10_3 k11_0 k11_1 k11_2 k11_3 k12_0 k12_1 k12_2 k12_3 k13_0 k13_1 k13_2 k13_3 k14_0 k14_1 k14_2 k14_3 k15_0 k15_1 k15_2 k15_3 k16_0 k16_1 k16_2 k16_3 k17_0 k17_1 k17_2 k17_3 k18_0 k18_1 k18_2 k18_3 k19_0 k19_1 k19_2 k19_3 k20_0 k20_1 k20_2 k20_3 k21_0 k21_1 k21_2 k21_3 k22_0 k22_1 k22_2 k22_3 k23_0 k23_1 k23_2 k23_3 k24_0 k24_1 k24_2 k24_3 k25_0 k25_1 k25_2 k25_3 k26_0 k26_1 k26_2 k26_3 k27_0 k27_1 k27_2 k27_3 k28_0 k28_1 k28_2 k28_3 k29_0 k29_1 k29_2 k29_3 k30_0 k30_1 k30_2 k30_3 k31_0 k31_1 k31_2 k31_3 k32_0 k32_1 k32_2 k32_3 b

theorem loop_enc_16_eq_impl (key : BitVec 128) (b : BitVec 128) :
    loop_enc_16 key b = BC.Serpent.encryptLoop (BC.Serpent.keySchedule (BC.unpackBE 16 key)) b := by
  have h : loop_enc_16 key b = loopEncT (serpent_new_from_slice_16 key) b := rfl
  rw [h, BC.GenKeys.Serpent.new_from_slice_16_eq, loopEncT_eq _ (BC.Serpent.keySchedule_size _)]

theorem loop_dec_16_eq_impl (key : BitVec 128) (b : BitVec 128) :
    loop_dec_16 key b = BC.Serpent.decryptLoop (BC.Serpent.keySchedule (BC.unpackBE 16 key)) b := by
  have h : loop_dec_16 key b = loopDecT (serpent_new_from_slice_16 key) b := rfl
  rw [h, BC.GenKeys.Serpent.new_from_slice_16_eq, loopDecT_eq _ (BC.Serpent.keySchedule_size _)]

/-- decryption inverts encryption, every 16-byte key, every block -/
theorem loop_dec_16_loop_enc_16 (key : BitVec 128) (b : BitVec 128) : loop_dec_16 key (loop_enc_16 key b) = b := by
  rw [loop_enc_16_eq_impl, loop_dec_16_eq_impl]; exact BC.Serpent.decryptLoop_encryptLoop _ b
theorem loop_enc_16_loop_dec_16 (key : BitVec 128) (b : BitVec 128) : loop_enc_16 key (loop_dec_16 key b) = b := by
  rw [loop_dec_16_eq_impl, loop_enc_16_eq_impl]; exact BC.Serpent.encryptLoop_decryptLoop _ b
/-- the regenerated code computes Serpent of the specification -/
theorem loop_enc_16_eq_spec (key : BitVec 128) (b : BitVec 128) : loop_enc_16 key b = BC.Spec.Serpent.encrypt (BC.unpackBE 16 key) b := by
  rw [loop_enc_16_eq_impl]
  exact BC.Serpent.encrypt_eq_spec _ (by rw [unpackBE_length]; decide) (by rw [unpackBE_length]; decide) b
theorem loop_dec_16_eq_spec (key : BitVec 128) (b : BitVec 128) : loop_dec_16 key b = BC.Spec.Serpent.decrypt (BC.unpackBE 16 key) b := by
  rw [loop_dec_16_eq_impl]
  exact BC.Serpent.decrypt_eq_spec _ (by rw [unpackBE_length]; decide) (by rw [unpackBE_length]; decide) b

/-! ## key length 17 bytes -/

/-- `Serpent::new_from_slice(key).encrypt_block(b)`, 17-byte key, default build (rounds unrolled) — regenerated code only -/
def enc_17 (key : BitVec 136) (b : BitVec 128) : BitVec 128 :=
  match serpent_new_from_slice_17 key with
  | (k0_0, k0_1, k0_2, k0_3, k1_0, k1_1, k1_2, k1_3, k2_0, k2_1, k2_2, k2_3, k3_0, k3_1, k3_2, k3_3, k4_0, k4_1, k4_2, k4_3, k5_0, k5_1, k5_2, k5_3, k6_0, k6_1, k6_2, k6_3, k7_0, k7_1, k7_2, k7_3, k8_0, k8_1, k8_2, k8_3, k9_0, k9_1, k9_2, k9_3, k10_0, k10_1, k10_2, k10_3, k11_0, k11_1, k11_2, k11_3, k12_0, k12_1, k12_2, k12_3, k13_0, k13_1, k13_2, k13_3, k14_0, k14_1, k14_2, k14_3, k15_0, k15_1, k15_2, k15_3, k16_0, k16_1, k16_2, k16_3, k17_0, k17_1, k17_2, k17_3, k18_0, k18_1, k18_2, k18_3, k19_0, k19_1, k19_2, k19_3, k20_0, k20_1, k20_2, k20_3, k21_0, k21_1, k21_2, k21_3, k22_0, k22_1, k22_2, k22_3, k23_0, k23_1, k23_2, k23_3, k24_0, k24_1, k24_2, k24_3, k25_0, k25_1, k25_2, k25_3, k26_0, k26_1, k26_2, k26_3, k27_0, k27_1, k27_2, k27_3, k28_0, k28_1, k28_2, k28_3, k29_0, k29_1, k29_2, k29_3, k30_0, k30_1, k30_2, k30_3, k31_0, k31_1, k31_2, k31_3, k32_0, k32_1, k32_2, k32_3) => serpent_encrypt_block k0_0 k0_1 k0_2 k0_3 k1_0 k1_1 k1_2 k1_3 k2_0 k2_1 k2_2 k2_3 k3_0 k3_1 k3_2 k3_3 k4_0 k4_1 k4_2 k4_3 k5_0 k5_1 k5_2 k5_3 k6_0 k6_1 k6_2 k6_3 k7_0 k7_1 k7_2 k7_3 k8_0 k8_1 k8_2 k8_3 k9_0 k9_1 k9_2 k9_3 k10_0 k10_1 k10_2 k10_3 k11_0 k11_1 k11_2 k11_3 k12_0 k12_1 k12_2 k12_3 k13_0 k13_1 k13_2 k13_3 k14_0 k14_1 k14_2 k14_3 k15_0 k15_1 k15_2 k15_3 k16_0 k16_1 k16_2 k16_3 k17_0 k17_1 k17_2 k17_3 k18_0 k18_1 k18_2 k18_3 k19_0 k19_1 k19_2 k19_3 k20_0 k20_1 k20_2 k20_3 k21_0 k21_1 k21_2 k21_3 k22_0 k22_1 k22_2 k22_3 k23_0 k23_1 k23_2 k23_3 k24_0 k24_1 k24_2 k24_3 k25_0 k25_1 k25_2 k25_3 k26_0 k26_1 k26_2 k26_3 k27_0 k27_1 k27_2 k27_3 k28_0 k28_1 k28_2 k28_3 k29_0 k29_1 k29_2 k29_3 k30_0 k30_1 k30_2 k30_3 k31_0 k31_1 k31_2 k31_3 k32_0 k32_1 k32_2 k32_3 b

/-- `Serpent::new_from_slice(key).decrypt_block(b)`, 17-byte key, default build (rounds unrolled) — regenerated code only -/
def dec_17 (key : BitVec 136) (b : BitVec 128) : BitVec 128 :=
  match serpent_new_from_slice_17 key with
  | (k0_0, k0_1, k0_2, k0_3, k1_0, k1_1, k1_2, k1_3, k2_0, k2_1, k2_2, k2_3, k3_0, k3_1, k3_2, k3_3, k4_0, k4_1, k4_2, k4_3, k5_0, k5_1, k5_2, k5_3, k6_0, k6_1, k6_2, k6_3, k7_0, k7_1, k7_2, k7_3, k8_0, k8_1, k8_2, k8_3, k9_0, k9_1, k9_2, k9_3, k10_0, k10_1, k10_2, k10_3, k11_0, k11_1, k11_2, k11_3, k12_0, k12_1, k12_2, k12_3, k13_0, k13_1, k13_2, k13_3, k14_0, k14_1, k14_2, k14_3, k15_0, k15_1, k15_2, k15_3, k16_0, k16_1, k16_2, k16_3, k17_0, k17_1, k17_2, k17_3, k18_0, k18_1, k18_2, k18_3, k19_0, k19_1, k19_2, k19_3, k20_0, k20_1, k20_2, k20_3, k21_0, k21_1, k21_2, k21_3, k22_0, k22_1, k22_2, k22_3, k23_0, k23_1, k23_2, k23_3, k24_0, k24_1, k24_2, k24_3, k25_0, k25_1, k25_2, k25_3, k26_0, k26_1, k26_2, k26_3, k27_0, k27_1, k27_2, k27_3, k28_0, k28_1, k28_2, k28_3, k29_0, k29_1, k29_2, k29_3, k30_0, k30_1, k30_2, k30_3, k31_0, k31_1, k31_2, k31_3, k32_0, k32_1, k32_2, k32_3) => serpent_decrypt_block k0_0 k0_1 k0_2 k0_3 k1_0 k1_1 k1_2 k1_3 k2_0 k2_1 k2_2 k2_3 k3_0 k3_1 k3_2 k3_3 k4_0 k4_1 k4_2 k4_3 k5_0 k5_1 k5_2 k5_3 k6_0 k6_1 k6_2 k6_3 k7_0 k7_1 k7_2 k7_3 k8_0 k8_1 k8_2 k8_3 k9_0 k9_1 k9_2 k9_3 k10_0 k10_1 k10_2 k10_3 k11_0 k11_1 k11_2 k11_3 k12_0 k12_1 k12_2 k12_3 k13_0 k13_1 k13_2 k13_3 k14_0 k14_1 k14_2 k14_3 k15_0 k15_1 k15_2 k15_3 k16_0 k16_1 k16_2 k16_3 k17_0 k17_1 k17_2 k17_3 k18_0 k18_1 k18_2 k18_3 k19_0 k19_1 k19_2 k19_3 k20_0 k20_1 k20_2 k20_3 k21_0 k21_1 k21_2 k21_3 k22_0 k22_1 k22_2 k22_3 k23_0 k23_1 k23_2 k23_3 k24_0 k24_1 k24_2 k24_3 k25_0 k25_1 k25_2 k25_3 k26_0 k26_1 k26_2 k26_3 k27_0 k27_1 k27_2 k27_3 k28_0 k28_1 k28_2 k28_3 k29_0 k29_1 k29_2 k29_3 k30_0 k30_1 k30_2 k30_3 k31_0 k31_1 k31_2 k31_3 k32_0 k32_1 k32_2 k32_3 b

theorem enc_17_eq_impl (key : BitVec 136) (b : BitVec 128) :
    enc_17 key b = BC.Serpent.encrypt (BC.Serpent.keySchedule (BC.unpackBE 17 key)) b := by
  have h : enc_17 key b = encT (serpent_new_from_slice_17 key) b := rfl
  rw [h, BC.GenKeys.Serpent.new_from_slice_17_eq, encT_eq _ (BC.Serpent.keySchedule_size _)]

theorem dec_17_eq_impl (key : BitVec 136) (b : BitVec 128) :
    dec_17 key b = BC.Serpent.decrypt (BC.Serpent.keySchedule (BC.unpackBE 17 key)) b := by
  have h : dec_17 key b = decT (serpent_new_from_slice_17 key) b := rfl
  rw [h, BC.GenKeys.Serpent.new_from_slice_17_eq, decT_eq _ (BC.Serpent.keySchedule_size _)]

/-- decryption inverts encryption, every 17-byte key, every block -/
theorem dec_17_enc_17 (key : BitVec 136) (b : BitVec 128) : dec_17 key (enc_17 key b) = b := by
  rw [enc_17_eq_impl, dec_17_eq_impl]; exact BC.Serpent.decrypt_encrypt _ b
theorem enc_17_dec_17 (key : BitVec 136) (b : BitVec 128) : enc_17 key (dec_17 key b) = b := by
  rw [dec_17_eq_impl, enc_17_eq_impl]; exact BC.Serpent.encrypt_decrypt _ b
/-- the regenerated code computes Serpent of the specification -/
theorem enc_17_eq_spec (key : BitVec 136) (b : BitVec 128) : enc_17 key b = BC.Spec.Serpent.encrypt (BC.unpackBE 17 key) b := by
  rw [enc_17_eq_impl]
  exact BC.Serpent.encrypt_eq_spec _ (by rw [unpackBE_length]; decide) (by rw [unpackBE_length]; decide) b
theorem dec_17_eq_spec (key : BitVec 136) (b : BitVec 128) : dec_17 key b = BC.Spec.Serpent.decrypt (BC.unpackBE 17 key) b := by
  rw [dec_17_eq_impl]
  exact BC.Serpent.decrypt_eq_spec _ (by rw [unpackBE_length]; decide) (by rw [unpackBE_length]; decide) b

/-- `Serpent::new_from_slice(key).encrypt_block(b)`, 17-byte key, `--cfg serpent_no_unroll` build — regenerated code only -/
def loop_enc_17 (key : BitVec 136) (b : BitVec 128) : BitVec 128 :=
  match serpent_new_from_slice_17 key with
  | (k0_0, k0_1, k0_2, k0_3, k1_0, k1_1, k1_2, k1_3, k2_0, k2_1, k2_2, k2_3, k3_0, k3_1, k3_2, k3_3, k4_0, k4_1, k4_2, k4_3, k5_0, k5_1, k5_2, k5_3, k6_0, k6_1, k6_2, k6_3, k7_0, k7_1, k7_2, k7_3, k8_0, k8_1, k8_2, k8_3, k9_0, k9_1, k9_2, k9_3, k10_0, k10_1, k10_2, k10_3, k11_0, k11_1, k11_2, k11_3, k12_0, k12_1, k12_2, k12_3, k13_0, k13_1, k13_2, k13_3, k14_0, k14_1, k14_2, k14_3, k15_0, k15_1, k15_2, k15_3, k16_0, k16_1, k16_2, k16_3, k17_0, k17_1, k17_2, k17_3, k18_0, k18_1, k18_2, k18_3, k19_0, k19_1, k19_2, k19_3, k20_0, k20_1, k20_2, k20_3, k21_0, k21_1, k21_2, k21_3, k22_0, k22_1, k22_2, k22_3, k23_0, k23_1, k23_2, k23_3, k24_0, k24_1, k24_2, k24_3, k25_0, k25_1, k25_2, k25_3, k26_0, k26_1, k26_2, k26_3, k27_0, k27_1, k27_2, k27_3, k28_0, k28_1, k28_2, k28_3, k29_0, k29_1, k29_2, k29_3, k30_0, k30_1, k30_2, k30_3, k31_0, k31_1, k31_2, k31_3, k32_0, k32_1, k32_2, k32_3) => serpent_loop_encrypt_block k0_0 k0_1 k0_2 k0_3 k1_0 k1_1 k1_2 k1_3 k2_0 k2_1 k2_2 k2_3 k3_0 k3_1 k3_2 k3_3 k4_0 k4_1 k4_2 k4_3 k5_0 k5_1 k5_2 k5_3 k6_0 k6_1 k6_2 k6_3 k7_0 k7_1 k7_2 k7_3 k8_0 k8_1 k8_2 k8_3 k9_0 k9_1 k9_2 k9_3 k10_0 k10_1 k10_2 k10_3 k11_0 k11_1 k11_2 k11_3 k12_0 k12_1 k12_2 k12_3 k13_0 k13_1 k13_2 k13_3 k14_0 k14_1 k14_2 k14_3 k15_0 k15_1 k15_2 k15_3 k16_0 k16_1 k16_2 k16_3 k17_0 k17_1 k17_2 k17_3 k18_0 k18_1 k18_2 k18_3 k19_0 k19_1 k19_2 k19_3 k20_0 k20_1 k20_2 k20_3 k21_0 k21_1 k21_2 k21_3 k22_0 k22_1 k22_2 k22_3 k23_0 k23_1 k23_2 k23_3 k24_0 k24_1 k24_2 k24_3 k25_0 k25_1 k25_2 k25_3 k26_0 k26_1 k26_2 k26_3 k27_0 k27_1 k27_2 k27_3 k28_0 k28_1 k28_2 k28_3 k29_0 k29_1 k29_2 k29_3 k30_0 k30_1 k30_2 k30_3 k31_0 k31_1 k31_2 k31_3 k32_0 k32_1 k32_2 k32_3 b

/-- `Serpent::new_from_slice(key).decrypt_block(b)`, 17-byte key, `--cfg serpent_no_unroll` build — regenerated code only -/
def loop_dec_17 (key : BitVec 136) (b : BitVec 128) : BitVec 128 :=
  match serpent_new_from_slice_17 key with
  | (k0_0, k0_1, k0_2, k0_3, k1_0, k1_1, k1_2, k1_3, k2_0, k2_1, k2_2, k2_3, k3_0, k3_1, k3_2, k3_3, k4_0, k4_1, k4_2, k4_3, k5_0, k5_1, k5_2, k5_3, k6_0, k6_1, k6_2, k6_3, k7_0, k7_1, k7_2, k7_3, k8_0, k8_1, k8_2, k8_3, k9_0, k9_1, k9_2, k9_3, k10_0, k10_1, k10_2, k10_3, k11_0, k11_1, k11_2, k11_3, k12_0, k12_1, k12_2, k12_3, k13_0, k13_1, k13_2, k13_3, k14_0, k14_1, k14_2, k14_3, k15_0, k15_1, k15_2, k15_3, k16_0, k16_1, k16_2, k16_3, k17_0, k17_1, k17_2, k17_3, k18_0, k18_1, k18_2, k18_3, k19_0, k19_1, k19_2, k19_3, k20_0, k20_1, k20_2, k20_3, k21_0, k21_1, k21_2, k21_3, k22_0, k22_1, k22_2, k22_3, k23_0, k23_1, k23_2, k23_3, k24_0, k24_1, k24_2, k24_3, k25_0, k25_1, k25_2, k25_3, k26_0, k26_1, k26_2, k26_3, k27_0, k27_1, k27_2, k27_3, k28_0, k28_1, k28_2, k28_3, k29_0, k29_1, k29_2, k29_3, k30_0, k30_1, k30_2, k30_3, k31_0, k31_1, k31_2, k31_3, k32_0, k32_1, k32_2, k32_3) => serpent_loop_decrypt_block k0_0 k0_1 k0_2 k0_3 k1_0 k1_1 k1_2 k1_3 k2_0 k2_1 k2_2 k2_3 k3_0 k3_1 k3_2 k3_3 k4_0 k4_1 k4_2 k4_3 k5_0 k5_1 k5_2 k5_3 k6_0 k6_1 k6_2 k6_3 k7_0 k7_1 k7_2 k7_3 k8_0 k8_1 k8_2 k8_3 k9_0 k9_1 k9_2 k9_3 k10_0 k10_1 k10_2 k10_3 k11_0 k11_1 k11_2 k11_3 k12_0 k12_1 k12_2 k12_3 k13_0 k13_1 k13_2 k13_3 k14_0 k14_1 k14_2 k14_3 k15_0 k15_1 k15_2 k15_3 k16_0 k16_1 k16_2 k16_3 k17_0 k17_1 k17_2 k17_3 k18_0 k18_1 k18_2 k18_3 k19_0 k19_1 k19_2 k19_3 k20_0 k20_1 k20_2 k20_3 k21_0 k21_1 k21_2 k21_3 k22_0 k22_1 k22_2 k22_3 k23_0 k23_1 k23_2 k23_3 k24_0 k24_1 k24_2 k24_3 k25_0 k25_1 k25_2 k25_3 k26_0 k26_1 k26_2 k26_3 k27_0 k27_1 k27_2 k27_3 k28_0 k28_1 k28_2 k28_3 k29_0 k29_1 k29_2 k29_3 k30_0 k30_1 k30_2 k30_3 k31_0 k31_1 k31_2 k31_3 k32_0 k32_1 k32_2 k32_3 b

theorem loop_enc_17_eq_impl (key : BitVec 136) (b : BitVec 128) :
    loop_enc_17 key b = BC.Serpent.encryptLoop (BC.Serpent.keySchedule (BC.unpackBE 17 key)) b := by
  have h : loop_enc_17 key b = loopEncT (serpent_new_from_slice_17 key) b := rfl
  rw [h, BC.GenKeys.Serpent.new_from_slice_17_eq, loopEncT_eq _ (BC.Serpent.keySchedule_size _)]

theorem loop_dec_17_eq_impl (key : BitVec 136) (b : BitVec 128) :
    loop_dec_17 key b = BC.Serpent.decryptLoop (BC.Serpent.keySchedule (BC.unpackBE 17 key)) b := by
  have h : loop_dec_17 key b = loopDecT (serpent_new_from_slice_17 key) b := rfl
  rw [h, BC.GenKeys.Serpent.new_from_slice_17_eq, loopDecT_eq _ (BC.Serpent.keySchedule_size _)]

/-- decryption inverts encryption, every 17-byte key, every block -/
theorem loop_dec_17_loop_enc_17 (key : BitVec 136) (b : BitVec 128) : loop_dec_17 key (loop_enc_17 key b) = b := by
  rw [loop_enc_17_eq_impl, loop_dec_17_eq_impl]; exact BC.Serpent.decryptLoop_encryptLoop _ b
theorem loop_enc_17_loop_dec_17 (key : BitVec 136) (b : BitVec 128) : loop_enc_17 key (loop_dec_17 key b) = b := by
  rw [loop_dec_17_eq_impl, loop_enc_17_eq_impl]; exact BC.Serpent.encryptLoop_decryptLoop _ b
/-- the regenerated code computes Serpent of the specification -/
theorem loop_enc_17_eq_spec (key : BitVec 136) (b : BitVec 128) : loop_enc_17 key b = BC.Spec.Serpent.encrypt (BC.unpackBE 17 key) b := by
  rw [loop_enc_17_eq_impl]
  exact BC.Serpent.encrypt_eq_spec _ (by rw [unpackBE_length]; decide) (by rw [unpackBE_length]; decide) b
theorem loop_dec_17_eq_spec (key : BitVec 136) (b : BitVec 128) : loop_dec_17 key b = BC.Spec.Serpent.decrypt (BC.unpackBE 17 key) b := by
  rw [loop_dec_17_eq_impl]
  exact BC.Serpent.decrypt_eq_spec _ (by rw [unpackBE_length]; decide) (by rw [unpackBE_length]; decide) b

/-! ## key length 19 bytes -/

/-- `Serpent::new_from_slice(key).encrypt_block(b)`, 19-byte key, default build (rounds unrolled) — regenerated code only -/
def enc_19 (key : BitVec 152) (b : BitVec 128) : BitVec 128 :=
  match serpent_new_from_slice_19 key with
  | (k0_0, k0_1, k0_2, k0_3, k1_0, k1_1, k1_2, k1_3, k2_0, k2_1, k2_2, k2_3, k3_0, k3_1, k3_2, k3_3, k4_0, k4_1, k4_2, k4_3, k5_0, k5_1, k5_2, k5_3, k6_0, k6_1, k6_2, k6_3, k7_0, k7_1, k7_2, k7_3, k8_0, k8_1, k8_2, k8_3, k9_0, k9_1, k9_2, k9_3, k10_0, k10_1, k10_2, k10_3, k11_0, k11_1, k11_2, k11_3, k12_0, k12_1, k12_2, k12_3, k13_0, k13_1, k13_2, k13_3, k14_0, k14_1, k14_2, k14_3, k15_0, k15_1, k15_2, k15_3, k16_0, k16_1, k16_2, k16_3, k17_0, k17_1, k17_2, k17_3, k18_0, k18_1, k18_2, k18_3, k19_0, k19_1, k19_2, k19_3, k20_0, k20_1, k20_2, k20_3, k21_0, k21_1, k21_2, k21_3, k22_0, k22_1, k22_2, k22_3, k23_0, k23_1, k23_2, k23_3, k24_0, k24_1, k24_2, k24_3, k25_0, k25_1, k25_2, k25_3, k26_0, k26_1, k26_2, k26_3, k27_0, k27_1, k27_2, k27_3, k28_0, k28_1, k28_2, k28_3, k29_0, k29_1, k29_2, k29_3, k30_0, k30_1, k30_2, k30_3, k31_0, k31_1, k31_2, k31_3, k32_0, k32_1, k32_2, k32_3) => serpent_encrypt_block k0_0 k0_1 k0_2 k0_3 k1_0 k1_1 k1_2 k1_3 k2_0 k2_1 k2_2 k2_3 k3_0 k3_1 k3_2 k3_3 k4_0 k4_1 k4_2 k4_3 k5_0 k5_1 k5_2 k5_3 k6_0 k6_1 k6_2 k6_3 k7_0 k7_1 k7_2 k7_3 k8_0 k8_1 k8_2 k8_3 k9_0 k9_1 k9_2 k9_3 k10_0 k10_1 k10_2 k10_3 k11_0 k11_1 k11_2 k11_3 k12_0 k12_1 k12_2 k12_3 k13_0 k13_1 k13_2 k13_3 k14_0 k14_1 k14_2 k14_3 k15_0 k15_1 k15_2 k15_3 k16_0 k16_1 k16_2 k16_3 k17_0 k17_1 k17_2 k17_3 k18_0 k18_1 k18_2 k18_3 k19_0 k19_1 k19_2 k19_3 k20_0 k20_1 k20_2 k20_3 k21_0 k21_1 k21_2 k21_3 k22_0 k22_1 k22_2 k22_3 k23_0 k23_1 k23_2 k23_3 k24_0 k24_1 k24_2 k24_3 k25_0 k25_1 k25_2 k25_3 k26_0 k26_1 k26_2 k26_3 k27_0 k27_1 k27_2 k27_3 k28_0 k28_1 k28_2 k28_3 k29_0 k29_1 k29_2 k29_3 k30_0 k30_1 k30_2 k30_3 k31_0 k31_1 k31_2 k31_3 k32_0 k32_1 k32_2 k32_3 b

/-- `Serpent::new_from_slice(key).decrypt_block(b)`, 19-byte key, default build (rounds unrolled) — regenerated code only -/
def dec_19 (key : BitVec 152) (b : BitVec 128) : BitVec 128 :=
  match serpent_new_from_slice_19 key with
  | (k0_0, k0_1, k0_2, k0_3, k1_0, k1_1, k1_2, k1_3, k2_0, k2_1, k2_2, k2_3, k3_0, k3_1, k3_2, k3_3, k4_0, k4_1, k4_2, k4_3, k5_0, k5_1, k5_2, k5_3, k6_0, k6_1, k6_2, k6_3, k7_0, k7_1, k7_2, k7_3, k8_0, k8_1, k8_2, k8_3, k9_0, k9_1, k9_2, k9_3, k10_0, k10_1, k10_2, k10_3, k11_0, k11_1, k11_2, k11_3, k12_0, k12_1, k12_2, k12_3, k13_0, k13_1, k13_2, k13_3, k14_0, k14_1, k14_2, k14_3, k15_0, k15_1, k15_2, k15_3, k16_0, k16_1, k16_2, k16_3, k17_0, k17_1, k17_2, k17_3, k18_0, k18_1, k18_2, k18_3, k19_0, k19_1, k19_2, k19_3, k20_0, k20_1, k20_2, k20_3, k21_0, k21_1, k21_2, k21_3, k22_0, k22_1, k22_2, k22_3, k23_0, k23_1, k23_2, k23_3, k24_0, k24_1, k24_2, k24_3, k25_0, k25_1, k25_2, k25_3, k26_0, k26_1, k26_2, k26_3, k27_0, k27_1, k27_2, k27_3, k28_0, k28_1, k28_2, k28_3, k29_0, k29_1, k29_2, k29_3, k30_0, k30_1, k30_2, k30_3, k31_0, k31_1, k31_2, k31_3, k32_0, k32_1, k32_2, k32_3) => serpent_decrypt_block k0_0 k0_1 k0_2 k0_3 k1_0 k1_1 k1_2 k1_3 k2_0 k2_1 k2_2 k2_3 k3_0 k3_1 k3_2 k3_3 k4_0 k4_1 k4_2 k4_3 k5_0 k5_1 k5_2 k5_3 k6_0 k6_1 k6_2 k6_3 k7_0 k7_1 k7_2 k7_3 k8_0 k8_1 k8_2 k8_3 k9_0 k9_1 k9_2 k9_3 k10_0 k10_1 k10_2 k10_3 k11_0 k11_1 k11_2 k11_3 k12_0 k12_1 k12_2 k12_3 k13_0 k13_1 k13_2 k13_3 k14_0 k14_1 k14_2 k14_3 k15_0 k15_1 k15_2 k15_3 k16_0 k16_1 k16_2 k16_3 k17_0 k17_1 k17_2 k17_3 k18_0 k18_1 k18_2 k18_3 k19_0 k19_1 k19_2 k19_3 k20_0 k20_1 k20_2 k20_3 k21_0 k21_1 k21_2 k21_3 k22_0 k22_1 k22_2 k22_3 k23_0 k23_1 k23_2 k23_3 k24_0 k24_1 k24_2 k24_3 k25_0 k25_1 k25_2 k25_3 k26_0 k26_1 k26_2 k26_3 k27_0 k27_1 k27_2 k27_3 k28_0 k28_1 k28_2 k28_3 k29_0 k29_1 k29_2 k29_3 k30_0 k30_1 k30_2 k30_3 k31_0 k31_1 k31_2 k31_3 k32_0 k32_1 k32_2 k32_3 b

theorem enc_19_eq_impl (key : BitVec 152) (b : BitVec 128) :
    enc_19 key b = BC.Serpent.encrypt (BC.Serpent.keySchedule (BC.unpackBE 19 key)) b := by
  have h : enc_19 key b = encT (serpent_new_from_slice_19 key) b := rfl
  rw [h, BC.GenKeys.Serpent.new_from_slice_19_eq, encT_eq _ (BC.Serpent.keySchedule_size _)]

theorem dec_19_eq_impl (key : BitVec 152) (b : BitVec 128) :
    dec_19 key b = BC.Serpent.decrypt (BC.Serpent.keySchedule (BC.unpackBE 19 key)) b := by
  have h : dec_19 key b = decT (serpent_new_from_slice_19 key) b := rfl
  rw [h, BC.GenKeys.Serpent.new_from_slice_19_eq, decT_eq _ (BC.Serpent.keySchedule_size _)]

/-- decryption inverts encryption, every 19-byte key, every block -/
theorem dec_19_enc_19 (key : BitVec 152) (b : BitVec 128) : dec_19 key (enc_19 key b) = b := by
  rw [enc_19_eq_impl, dec_19_eq_impl]; exact BC.Serpent.decrypt_encrypt _ b
theorem enc_19_dec_19 (key : BitVec 152) (b : BitVec 128) : enc_19 key (dec_19 key b) = b := by
  rw [dec_19_eq_impl, enc_19_eq_impl]; exact BC.Serpent.encrypt_decrypt _ b
/-- the regenerated code computes Serpent of the specification -/
theorem enc_19_eq_spec (key : BitVec 152) (b : BitVec 128) : enc_19 key b = BC.Spec.Serpent.encrypt (BC.unpackBE 19 key) b := by
  rw [enc_19_eq_impl]
  exact BC.Serpent.encrypt_eq_spec _ (by rw [unpackBE_length]; decide) (by rw [unpackBE_length]; decide) b
theorem dec_19_eq_spec (key : BitVec 152) (b : BitVec 128) : dec_19 key b = BC.Spec.Serpent.decrypt (BC.unpackBE 19 key) b := by
  rw [dec_19_eq_impl]
  exact BC.Serpent.decrypt_eq_spec _ (by rw [unpackBE_length]; decide) (by rw [unpackBE_length]; decide) b

/-- `Serpent::new_from_slice(key).encrypt_block(b)`, 19-byte key, `--cfg serpent_no_unroll` build — regenerated code only -/
def loop_enc_19 (key : BitVec 152) (b : BitVec 128) : BitVec 128 :=
  match serpent_new_from_slice_19 key with
  | (k0_0, k0_1, k0_2, k0_3, k1_0, k1_1, k1_2, k1_3, k2_0, k2_1, k2_2, k2_3, k3_0, k3_1, k3_2, k3_3, k4_0, k4_1, k4_2, k4_3, k5_0, k5_1, k5_2, k5_3, k6_0, k6_1, k6_2, k6_3, k7_0, k7_1, k7_2, k7_3, k8_0, k8_1, k8_2, k8_3, k9_0, k9_1, k9_2, k9_3, k10_0, k10_1, k10_2, k10_3, k11_0, k11_1, k11_2, k11_3, k12_0, k12_1, k12_2, k12_3, k13_0, k13_1, k13_2, k13_3, k14_0, k14_1, k14_2, k14_3, k15_0, k15_1, k15_2, k15_3, k16_0, k16_1, k16_2, k16_3, k17_0, k17_1, k17_2, k17_3, k18_0, k18_1, k18_2, k18_3, k19_0, k19_1, k19_2, k19_3, k20_0, k20_1, k20_2, k20_3, k21_0, k21_1, k21_2, k21_3, k22_0, k22_1, k22_2, k22_3, k23_0, k23_1, k23_2, k23_3, k24_0, k24_1, k24_2, k24_3, k25_0, k25_1, k25_2, k25_3, k26_0, k26_1, k26_2, k26_3, k27_0, k27_1, k27_2, k27_3, k28_0, k28_1, k28_2, k28_3, k29_0, k29_1, k29_2, k29_3, k30_0, k30_1, k30_2, k30_3, k31_0, k31_1, k31_2, k31_3, k32_0, k32_1, k32_2, k32_3) => serpent_loop_encrypt_block k0_0 k0_1 k0_2 k0_3 k1_0 k1_1 k1_2 k1_3 k2_0 k2_1 k2_2 k2_3 k3_0 k3_1 k3_2 k3_3 k4_0 k4_1 k4_2 k4_3 k5_0 k5_1 k5_2 k5_3 k6_0 k6_1 k6_2 k6_3 k7_0 k7_1 k7_2 k7_3 k8_0 k8_1 k8_2 k8_3 k9_0 k9_1 k9_2 k9_3 k10_0 k10_1 k10_2 k10_3 k11_0 k11_1 k11_2 k11_3 k12_0 k12_1 k12_2 k12_3 k13_0 k13_1 k13_2 k13_3 k14_0 k14_1 k14_2 k14_3 k15_0 k15_1 k15_2 k15_3 k16_0 k16_1 k16_2 k16_3 k17_0 k17_1 k17_2 k17_3 k18_0 k18_1 k18_2 k18_3 k19_0 k19_1 k19_2 k19_3 k20_0 k20_1 k20_2 k20_3 k21_0 k21_1 k21_2 k21_3 k22_0 k22_1 k22_2 k22_3 k23_0 k23_1 k23_2 k23_3 k24_0 k24_1 k24_2 k24_3 k25_0 k25_1 k25_2 k25_3 k26_0 k26_1 k26_2 k26_3 k27_0 k27_1 k27_2 k27_3 k28_0 k28_1 k28_2 k28_3 k29_0 k29_1 k29_2 k29_3 k30_0 k30_1 k30_2 k30_3 k31_0 k31_1 k31_2 k31_3 k32_0 k32_1 k32_2 k32_3 b

/-- `Serpent::new_from_slice(key).decrypt_block(b)`, 19-byte key, `--cfg serpent_no_unroll` build — regenerated code only -/
def loop_dec_19 (key : BitVec 152) (b : BitVec 128) : BitVec 128 :=
  match serpent_new_from_slice_19 key with
  | (k0_0, k0_1, k0_2, k0_3, k1_0, k1_1, k1_2, k1_3, k2_0, k2_1, k2_2, k2_3, k3_0, k3_1, k3_2, k3_3, k4_0, k4_1, k4_2, k4_3, k5_0, k5_1, k5_2, k5_3, k6_0, k6_1, k6_2, k6_3, k7_0, k7_1, k7_2, k7_3, k8_0, k8_1, k8_2, k8_3, k9_0, k9_1, k9_2, k9_3, k10_0, k10_1, k10_2, k10_3, k11_0, k11_1, k11_2, k11_3, k12_0, k12_1, k12_2, k12_3, k13_0, k13_1, k13_2, k13_3, k14_0, k14_1, k14_2, k14_3, k15_0, k15_1, k15_2, k15_3, k16_0, k16_1, k16_2, k16_3, k17_0, k17_1, k17_2, k17_3, k18_0, k18_1, k18_2, k18_3, k19_0, k19_1, k19_2, k19_3, k20_0, k20_1, k20_2, k20_3, k21_0, k21_1, k21_2, k21_3, k22_0, k22_1, k22_2, k22_3, k23_0, k23_1, k23_2, k23_3, k24_0, k24_1, k24_2, k24_3, k25_0, k25_1, k25_2, k25_3, k26_0, k26_1, k26_2, k26_3, k27_0, k27_1, k27_2, k27_3, k28_0, k28_1, k28_2, k28_3, k29_0, k29_1, k29_2, k29_3, k30_0, k30_1, k30_2, k30_3, k31_0, k31_1, k31_2, k31_3, k32_0, k32_1, k32_2, k32_3) => serpent_loop_decrypt_block k0_0 k0_1 k0_2 k0_3 k1_0 k1_1 k1_2 k1_3 k2_0 k2_1 k2_2 k2_3 k3_0 k3_1 k3_2 k3_3 k4_0 k4_1 k4_2 k4_3 k5_0 k5_1 k5_2 k5_3 k6_0 k6_1 k6_2 k6_3 k7_0 k7_1 k7_2 k7_3 k8_0 k8_1 k8_2 k8_3 k9_0 k9_1 k9_2 k9_3 k10_0 k10_1 k10_2 k10_3 k11_0 k11_1 k11_2 k11_3 k12_0 k12_1 k12_2 k12_3 k13_0 k13_1 k13_2 k13_3 k14_0 k14_1 k14_2 k14_3 k15_0 k15_1 k15_2 k15_3 k16_0 k16_1 k16_2 k16_3 k17_0 k17_1 k17_2 k17_3 k18_0 k18_1 k18_2 k18_3 k19_0 k19_1 k19_2 k19_3 k20_0 k20_1 k20_2 k20_3 k21_0 k21_1 k21_2 k21_3 k22_0 k22_1 k22_2 k22_3 k23_0 k23_1 k23_2 k23_3 k24_0 k24_1 k24_2 k24_3 k25_0 k25_1 k25_2 k25_3 k26_0 k26_1 k26_2 k26_3 k27_0 k27_1 k27_2 k27_3 k28_0 k28_1 k28_2 k28_3 k29_0 k29_1 k29_2 k29_3 k30_0 k30_1 k30_2 k30_3 k31_0 k31_1 k31_2 k31_3 k32_0 k32_1 k32_2 k32_3 b

theorem loop_enc_19_eq_impl (key : BitVec 152) (b : BitVec 128) :
    loop_enc_19 key b = BC.Serpent.encryptLoop (BC.Serpent.keySchedule (BC.unpackBE 19 key)) b := by
  have h : loop_enc_19 key b = loopEncT (serpent_new_from_slice_19 key) b := rfl
  rw [h, BC.GenKeys.Serpent.new_from_slice_19_eq, loopEncT_eq _ (BC.Serpent.keySchedule_size _)]

theorem loop_dec_19_eq_impl (key : BitVec 152) (b : BitVec 128) :
    loop_dec_19 key b = BC.Serpent.decryptLoop (BC.Serpent.keySchedule (BC.unpackBE 19 key)) b := by
  have h : loop_dec_19 key b = loopDecT (serpent_new_from_slice_19 key) b := rfl
  rw [h, BC.GenKeys.Serpent.new_from_slice_19_eq, loopDecT_eq _ (BC.Serpent.keySchedule_size _)]

/-- decryption inverts encryption, every 19-byte key, every block -/
theorem loop_dec_19_loop_enc_19 (key : BitVec 152) (b : BitVec 128) : loop_dec_19 key (loop_enc_19 key b) = b := by
  rw [loop_enc_19_eq_impl, loop_dec_19_eq_impl]; exact BC.Serpent.decryptLoop_encryptLoop _ b
theorem loop_enc_19_loop_dec_19 (key : BitVec 152) (b : BitVec 128) : loop_enc_19 key (loop_dec_19 key b) = b := by
  rw [loop_dec_19_eq_impl, loop_enc_19_eq_impl]; exact BC.Serpent.encryptLoop_decryptLoop _ b
/-- the regenerated code computes Serpent of the specification -/
theorem loop_enc_19_eq_spec (key : BitVec 152) (b : BitVec 128) : loop_enc_19 key b = BC.Spec.Serpent.encrypt (BC.unpackBE 19 key) b := by
  rw [loop_enc_19_eq_impl]
  exact BC.Serpent.encrypt_eq_spec _ (by rw [unpackBE_length]; decide) (by rw [unpackBE_length]; decide) b
theorem loop_dec_19_eq_spec (key : BitVec 152) (b : BitVec 128) : loop_dec_19 key b = BC.Spec.Serpent.decrypt (BC.unpackBE 19 key) b := by
  rw [loop_dec_19_eq_impl]
  exact BC.Serpent.decrypt_eq_spec _ (by rw [unpackBE_length]; decide) (by rw [unpackBE_length]; decide) b

/-! ## key length 24 bytes -/

/-- `Serpent::new_from_slice(key).encrypt_block(b)`, 24-byte key, default build (rounds unrolled) — regenerated code only -/
def enc_24 (key : BitVec 192) (b : BitVec 128) : BitVec 128 :=
  match serpent_new_from_slice_24 key with
  | (k0_0, k0_1, k0_2, k0_3, k1_0, k1_1, k1_2, k1_3, k2_0, k2_1, k2_2, k2_3, k3_0, k3_1, k3_2, k3_3, k4_0, k4_1, k4_2, k4_3, k5_0, k5_1, k5_2, k5_3, k6_0, k6_1, k6_2, k6_3, k7_0, k7_1, k7_2, k7_3, k8_0, k8_1, k8_2, k8_3, k9_0, k9_1, k9_2, k9_3, k10_0, k10_1, k10_2, k10_3, k11_0, k11_1, k11_2, k11_3, k12_0, k12_1, k12_2, k12_3, k13_0, k13_1, k13_2, k13_3, k14_0, k14_1, k14_2, k14_3, k15_0, k15_1, k15_2, k15_3, k16_0, k16_1, k16_2, k16_3, k17_0, k17_1, k17_2, k17_3, k18_0, k18_1, k18_2, k18_3, k19_0, k19_1, k19_2, k19_3, k20_0, k20_1, k20_2, k20_3, k21_0, k21_1, k21_2, k21_3, k22_0, k22_1, k22_2, k22_3, k23_0, k23_1, k23_2, k23_3, k24_0, k24_1, k24_2, k24_3, k25_0, k25_1, k25_2, k25_3, k26_0, k26_1, k26_2, k26_3, k27_0, k27_1, k27_2, k27_3, k28_0, k28_1, k28_2, k28_3, k29_0, k29_1, k29_2, k29_3, k30_0, k30_1, k30_2, k30_3, k31_0, k31_1, k31_2, k31_3, k32_0, k32_1, k32_2, k32_3) => serpent_encrypt_block k0_0 k0_1 k0_2 k0_3 k1_0 k1_1 k1_2 k1_3 k2_0 k2_1 k2_2 k2_3 k3_0 k3_1 k3_2 k3_3 k4_0 k4_1 k4_2 k4_3 k5_0 k5_1 k5_2 k5_3 k6_0 k6_1 k6_2 k6_3 k7_0 k7_1 k7_2 k7_3 k8_0 k8_1 k8_2 k8_3 k9_0 k9_1 k9_2 k9_3 k10_0 k10_1 k10_2 k10_3 k11_0 k11_1 k11_2 k11_3 k12_0 k12_1 k12_2 k12_3 k13_0 k13_1 k13_2 k13_3 k14_0 k14_1 k14_2 k14_3 k15_0 k15_1 k15_2 k15_3 k16_0 k16_1 k16_2 k16_3 k17_0 k17_1 k17_2 k17_3 k18_0 k18_1 k18_2 k18_3 k19_0 k19_1 k19_2 k19_3 k20_0 k20_1 k20_2 k20_3 k21_0 k21_1 k21_2 k21_3 k22_0 k22_1 k22_2 k22_3 k23_0 k23_1 k23_2 k23_3 k24_0 k24_1 k24_2 k24_3 k25_0 k25_1 k25_2 k25_3 k26_0 k26_1 k26_2 k26_3 k27_0 k27_1 k27_2 k27_3 k28_0 k28_1 k28_2 k28_3 k29_0 k29_1 k29_2 k29_3 k30_0 k30_1 k30_2 k30_3 k31_0 k31_1 k31_2 k31_3 k32_0 k32_1 k32_2 k32_3 b

/-- `Serpent::new_from_slice(key).decrypt_block(b)`, 24-byte key, default build (rounds unrolled) — regenerated code only -/
def dec_24 (key : BitVec 192) (b : BitVec 128) : BitVec 128 :=
  match serpent_new_from_slice_24 key with
  | (k0_0, k0_1, k0_2, k0_3, k1_0, k1_1, k1_2, k1_3, k2_0, k2_1, k2_2, k2_3, k3_0, k3_1, k3_2, k3_3, k4_0, k4_1, k4_2, k4_3, k5_0, k5_1, k5_2, k5_3, k6_0, k6_1, k6_2, k6_3, k7_0, k7_1, k7_2, k7_3, k8_0, k8_1, k8_2, k8_3, k9_0, k9_1, k9_2, k9_3, k10_0, k10_1, k10_2, k10_3, k11_0, k11_1, k11_2, k11_3, k12_0, k12_1, k12_2, k12_3, k13_0, k13_1, k13_2, k13_3, k14_0, k14_1, k14_2, k14_3, k15_0, k15_1, k15_2, k15_3, k16_0, k16_1, k16_2, k16_3, k17_0, k17_1, k17_2, k17_3, k18_0, k18_1, k18_2, k18_3, k19_0, k19_1, k19_2, k19_3, k20_0, k20_1, k20_2, k20_3, k21_0, k21_1, k21_2, k21_3, k22_0, k22_1, k22_2, k22_3, k23_0, k23_1, k23_2, k23_3, k24_0, k24_1, k24_2, k24_3, k25_0, k25_1, k25_2, k25_3, k26_0, k26_1, k26_2, k26_3, k27_0, k27_1, k27_2, k27_3, k28_0, k28_1, k28_2, k28_3, k29_0, k29_1, k29_2, k29_3, k30_0, k30_1, k30_2, k30_3, k31_0, k31_1, k31_2, k31_3, k32_0, k32_1, k32_2, k32_3) => serpent_decrypt_block k0_0 k0_1 k0_2 k0_3 k1_0 k1_1 k1_2 k1_3 k2_0 k2_1 k2_2 k2_3 k3_0 k3_1 k3_2 k3_3 k4_0 k4_1 k4_2 k4_3 k5_0 k5_1 k5_2 k5_3 k6_0 k6_1 k6_2 k6_3 k7_0 k7_1 k7_2 k7_3 k8_0 k8_1 k8_2 k8_3 k9_0 k9_1 k9_2 k9_3 k10_0 k10_1 k10_2 k10_3 k11_0 k11_1 k11_2 k11_3 k12_0 k12_1 k12_2 k12_3 k13_0 k13_1 k13_2 k13_3 k14_0 k14_1 k14_2 k14_3 k15_0 k15_1 k15_2 k15_3 k16_0 k16_1 k16_2 k16_3 k17_0 k17_1 k17_2 k17_3 k18_0 k18_1 k18_2 k18_3 k19_0 k19_1 k19_2 k19_3 k20_0 k20_1 k20_2 k20_3 k21_0 k21_1 k21_2 k21_3 k22_0 k22_1 k22_2 k22_3 k23_0 k23_1 k23_2 k23_3 k24_0 k24_1 k24_2 k24_3 k25_0 k25_1 k25_2 k25_3 k26_0 k26_1 k26_2 k26_3 k27_0 k27_1 k27_2 k27_3 k28_0 k28_1 k28_2 k28_3 k29_0 k29_1 k29_2 k29_3 k30_0 k30_1 k30_2 k30_3 k31_0 k31_1 k31_2 k31_3 k32_0 k32_1 k32_2 k32_3 b

theorem enc_24_eq_impl (key : BitVec 192) (b : BitVec 128) :
    enc_24 key b = BC.Serpent.encrypt (BC.Serpent.keySchedule (BC.unpackBE 24 key)) b := by
  have h : enc_24 key b = encT (serpent_new_from_slice_24 key) b := rfl
  rw [h, BC.GenKeys.Serpent.new_from_slice_24_eq, encT_eq _ (BC.Serpent.keySchedule_size _)]

theorem dec_24_eq_impl (key : BitVec 192) (b : BitVec 128) :
    dec_24 key b = BC.Serpent.decrypt (BC.Serpent.keySchedule (BC.unpackBE 24 key)) b := by
  have h : dec_24 key b = decT (serpent_new_from_slice_24 key) b := rfl
  rw [h, BC.GenKeys.Serpent.new_from_slice_24_eq, decT_eq _ (BC.Serpent.keySchedule_size _)]

/-- decryption inverts encryption, every 24-byte key, every block -/
theorem dec_24_enc_24 (key : BitVec 192) (b : BitVec 128) : dec_24 key (enc_24 key b) = b := by
  rw [enc_24_eq_impl, dec_24_eq_impl]; exact BC.Serpent.decrypt_encrypt _ b
theorem enc_24_dec_24 (key : BitVec 192) (b : BitVec 128) : enc_24 key (dec_24 key b) = b := by
  rw [dec_24_eq_impl, enc_24_eq_impl]; exact BC.Serpent.encrypt_decrypt _ b
/-- the regenerated code computes Serpent of the specification -/
theorem enc_24_eq_spec (key : BitVec 192) (b : BitVec 128) : enc_24 key b = BC.Spec.Serpent.encrypt (BC.unpackBE 24 key) b := by
  rw [enc_24_eq_impl]
  exact BC.Serpent.encrypt_eq_spec _ (by rw [unpackBE_length]; decide) (by rw [unpackBE_length]; decide) b
theorem dec_24_eq_spec (key : BitVec 192) (b : BitVec 128) : dec_24 key b = BC.Spec.Serpent.decrypt (BC.unpackBE 24 key) b := by
  rw [dec_24_eq_impl]
  exact BC.Serpent.decrypt_eq_spec _ (by rw [unpackBE_length]; decide) (by rw [unpackBE_length]; decide) b

/-- `Serpent::new_from_slice(key).encrypt_block(b)`, 24-byte key, `--cfg serpent_no_unroll` build — regenerated code only -/
def loop_enc_24 (key : BitVec 192) (b : BitVec 128) : BitVec 128 :=
  match serpent_new_from_slice_24 key with
  | (k0_0, k0_1, k0_2, k0_3, k1_0, k1_1, k1_2, k1_3, k2_0, k2_1, k2_2, k2_3, k3_0, k3_1, k3_2, k3_3, k4_0, k4_1, k4_2, k4_3, k5_0, k5_1, k5_2, k5_3, k6_0, k6_1, k6_2, k6_3, k7_0, k7_1, k7_2, k7_3, k8_0, k8_1, k8_2, k8_3, k9_0, k9_1, k9_2, k9_3, k10_0, k10_1, k10_2, k10_3, k11_0, k11_1, k11_2, k11_3, k12_0, k12_1, k12_2, k12_3, k13_0, k13_1, k13_2, k13_3, k14_0, k14_1, k14_2, k14_3, k15_0, k15_1, k15_2, k15_3, k16_0, k16_1, k16_2, k16_3, k17_0, k17_1, k17_2, k17_3, k18_0, k18_1, k18_2, k18_3, k19_0, k19_1, k19_2, k19_3, k20_0, k20_1, k20_2, k20_3, k21_0, k21_1, k21_2, k21_3, k22_0, k22_1, k22_2, k22_3, k23_0, k23_1, k23_2, k23_3, k24_0, k24_1, k24_2, k24_3, k25_0, k25_1, k25_2, k25_3, k26_0, k26_1, k26_2, k26_3, k27_0, k27_1, k27_2, k27_3, k28_0, k28_1, k28_2, k28_3, k29_0, k29_1, k29_2, k29_3, k30_0, k30_1, k30_2, k30_3, k31_0, k31_1, k31_2, k31_3, k32_0, k32_1, k32_2, k32_3) => serpent_loop_encrypt_block k0_0 k0_1 k0_2 k0_3 k1_0 k1_1 k1_2 k1_3 k2_0 k2_1 k2_2 k2_3 k3_0 k3_1 k3_2 k3_3 k4_0 k4_1 k4_2 k4_3 k5_0 k5_1 k5_2 k5_3 k6_0 k6_1 k6_2 k6_3 k7_0 k7_1 k7_2 k7_3 k8_0 k8_1 k8_2 k8_3 k9_0 k9_1 k9_2 k9_3 k10_0 k10_1 k10_2 k10_3 k11_0 k11_1 k11_2 k11_3 k12_0 k12_1 k12_2 k12_3 k13_0 k13_1 k13_2 k13_3 k14_0 k14_1 k14_2 k14_3 k15_0 k15_1 k15_2 k15_3 k16_0 k16_1 k16_2 k16_3 k17_0 k17_1 k17_2 k17_3 k18_0 k18_1 k18_2 k18_3 k19_0 k19_1 k19_2 k19_3 k20_0 k20_1 k20_2 k20_3 k21_0 k21_1 k21_2 k21_3 k22_0 k22_1 k22_2 k22_3 k23_0 k23_1 k23_2 k23_3 k24_0 k24_1 k24_2 k24_3 k25_0 k25_1 k25_2 k25_3 k26_0 k26_1 k26_2 k26_3 k27_0 k27_1 k27_2 k27_3 k28_0 k28_1 k28_2 k28_3 k29_0 k29_1 k29_2 k29_3 k30_0 k30_1 k30_2 k30_3 k31_0 k31_1 k31_2 k31_3 k32_0 k32_1 k32_2 k32_3 b

/-- `Serpent::new_from_slice(key).decrypt_block(b)`, 24-byte key, `--cfg serpent_no_unroll` build — regenerated code only -/
def loop_dec_24 (key : BitVec 192) (b : BitVec 128) : BitVec 128 :=
  match serpent_new_from_slice_24 key with
  | (k0_0, k0_1, k0_2, k0_3, k1_0, k1_1, k1_2, k1_3, k2_0, k2_1, k2_2, k2_3, k3_0, k3_1, k3_2, k3_3, k4_0, k4_1, k4_2, k4_3, k5_0, k5_1, k5_2, k5_3, k6_0, k6_1, k6_2, k6_3, k7_0, k7_1, k7_2, k7_3, k8_0, k8_1, k8_2, k8_3, k9_0, k9_1, k9_2, k9_3, k10_0, k10_1, k10_2, k10_3, k11_0, k11_1, k11_2, k11_3, k12_0, k12_1, k12_2, k12_3, k13_0, k13_1, k13_2, k13_3, k14_0, k14_1, k14_2, k14_3, k15_0, k15_1, k15_2, k15_3, k16_0, k16_1, k16_2, k16_3, k17_0, k17_1, k17_2, k17_3, k18_0, k18_1, k18_2, k18_3, k19_0, k19_1, k19_2, k19_3, k20_0, k20_1, k20_2, k20_3, k21_0, k21_1, k21_2, k21_3, k22_0, k22_1, k22_2, k22_3, k23_0, k23_1, k23_2, k23_3, k24_0, k24_1, k24_2, k24_3, k25_0, k25_1, k25_2, k25_3, k26_0, k26_1, k26_2, k26_3, k27_0, k27_1, k27_2, k27_3, k28_0, k28_1, k28_2, k28_3, k29_0, k29_1, k29_2, k29_3, k30_0, k30_1, k30_2, k30_3, k31_0, k31_1, k31_2, k31_3, k32_0, k32_1, k32_2, k32_3) => serpent_loop_decrypt_block k0_0 k0_1 k0_2 k0_3 k1_0 k1_1 k1_2 k1_3 k2_0 k2_1 k2_2 k2_3 k3_0 k3_1 k3_2 k3_3 k4_0 k4_1 k4_2 k4_3 k5_0 k5_1 k5_2 k5_3 k6_0 k6_1 k6_2 k6_3 k7_0 k7_1 k7_2 k7_3 k8_0 k8_1 k8_2 k8_3 k9_0 k9_1 k9_2 k9_3 k10_0 k10_1 k10_2 k10_3 k11_0 k11_1 k11_2 k11_3 k12_0 k12_1 k12_2 k12_3 k13_0 k13_1 k13_2 k13_3 k14_0 k14_1 k14_2 k14_3 k15_0 k15_1 k15_2 k15_3 k16_0 k16_1 k16_2 k16_3 k17_0 k17_1 k17_2 k17_3 k18_0 k18_1 k18_2 k18_3 k19_0 k19_1 k19_2 k19_3 k20_0 k20_1 k20_2 k20_3 k21_0 k21_1 k21_2 k21_3 k22_0 k22_1 k22_2 k22_3 k23_0 k23_1 k23_2 k23_3 k24_0 k24_1 k24_2 k24_3 k25_0 k25_1 k25_2 k25_3 k26_0 k26_1 k26_2 k26_3 k27_0 k27_1 k27_2 k27_3 k28_0 k28_1 k28_2 k28_3 k29_0 k29_1 k29_2 k29_3 k30_0 k30_1 k30_2 k30_3 k31_0 k31_1 k31_2 k31_3 k32_0 k32_1 k32_2 k32_3 b

theorem loop_enc_24_eq_impl (key : BitVec 192) (b : BitVec 128) :
    loop_enc_24 key b = BC.Serpent.encryptLoop (BC.Serpent.keySchedule (BC.unpackBE 24 key)) b := by
  have h : loop_enc_24 key b = loopEncT (serpent_new_from_slice_24 key) b := rfl
  rw [h, BC.GenKeys.Serpent.new_from_slice_24_eq, loopEncT_eq _ (BC.Serpent.keySchedule_size _)]

theorem loop_dec_24_eq_impl (key : BitVec 192) (b : BitVec 128) :
    loop_dec_24 key b = BC.Serpent.decryptLoop (BC.Serpent.keySchedule (BC.unpackBE 24 key)) b := by
  have h : loop_dec_24 key b = loopDecT (serpent_new_from_slice_24 key) b := rfl
  rw [h, BC.GenKeys.Serpent.new_from_slice_24_eq, loopDecT_eq _ (BC.Serpent.keySchedule_size _)]

/-- decryption inverts encryption, every 24-byte key, every block -/
theorem loop_dec_24_loop_enc_24 (key : BitVec 192) (b : BitVec 128) : loop_dec_24 key (loop_enc_24 key b) = b := by
  rw [loop_enc_24_eq_impl, loop_dec_24_eq_impl]; exact BC.Serpent.decryptLoop_encryptLoop _ b
theorem loop_enc_24_loop_dec_24 (key : BitVec 192) (b : BitVec 128) : loop_enc_24 key (loop_dec_24 key b) = b := by
  rw [loop_dec_24_eq_impl, loop_enc_24_eq_impl]; exact BC.Serpent.encryptLoop_decryptLoop _ b
/-- the regenerated code computes Serpent of the specification -/
theorem loop_enc_24_eq_spec (key : BitVec 192) (b : BitVec 128) : loop_enc_24 key b = BC.Spec.Serpent.encrypt (BC.unpackBE 24 key) b := by
  rw [loop_enc_24_eq_impl]
  exact BC.Serpent.encrypt_eq_spec _ (by rw [unpackBE_length]; decide) (by rw [unpackBE_length]; decide) b
theorem loop_dec_24_eq_spec (key : BitVec 192) (b : BitVec 128) : loop_dec_24 key b = BC.Spec.Serpent.decrypt (BC.unpackBE 24 key) b := by
  rw [loop_dec_24_eq_impl]
  exact BC.Serpent.decrypt_eq_spec _ (by rw [unpackBE_length]; decide) (by rw [unpackBE_length]; decide) b

/-! ## key length 31 bytes -/

/-- `Serpent::new_from_slice(key).encrypt_block(b)`, 31-byte key, default build (rounds unrolled) — regenerated code only -/
def enc_31 (key : BitVec 248) (b : BitVec 128) : BitVec 128 :=
  match serpent_new_from_slice_31 key with
  | (k0_0, k0_1, k0_2, k0_3, k1_0, k1_1, k1_2, k1_3, k2_0, k2_1, k2_2, k2_3, k3_0, k3_1, k3_2, k3_3, k4_0, k4_1, k4_2, k4_3, k5_0, k5_1, k5_2, k5_3, k6_0, k6_1, k6_2, k6_3, k7_0, k7_1, k7_2, k7_3, k8_0, k8_1, k8_2, k8_3, k9_0, k9_1, k9_2, k9_3, k10_0, k10_1, k10_2, k10_3, k11_0, k11_1, k11_2, k11_3, k12_0, k12_1, k12_2, k12_3, k13_0, k13_1, k13_2, k13_3, k14_0, k14_1, k14_2, k14_3, k15_0, k15_1, k15_2, k15_3, k16_0, k16_1, k16_2, k16_3, k17_0, k17_1, k17_2, k17_3, k18_0, k18_1, k18_2, k18_3, k19_0, k19_1, k19_2, k19_3, k20_0, k20_1, k20_2, k20_3, k21_0, k21_1, k21_2, k21_3, k22_0, k22_1, k22_2, k22_3, k23_0, k23_1, k23_2, k23_3, k24_0, k24_1, k24_2, k24_3, k25_0, k25_1, k25_2, k25_3, k26_0, k26_1, k26_2, k26_3, k27_0, k27_1, k27_2, k27_3, k28_0, k28_1, k28_2, k28_3, k29_0, k29_1, k29_2, k29_3, k30_0, k30_1, k30_2, k30_3, k31_0, k31_1, k31_2, k31_3, k32_0, k32_1, k32_2, k32_3) => serpent_encrypt_block k0_0 k0_1 k0_2 k0_3 k1_0 k1_1 k1_2 k1_3 k2_0 k2_1 k2_2 k2_3 k3_0 k3_1 k3_2 k3_3 k4_0 k4_1 k4_2 k4_3 k5_0 k5_1 k5_2 k5_3 k6_0 k6_1 k6_2 k6_3 k7_0 k7_1 k7_2 k7_3 k8_0 k8_1 k8_2 k8_3 k9_0 k9_1 k9_2 k9_3 k10_0 k10_1 k10_2 k10_3 k11_0 k11_1 k11_2 k11_3 k12_0 k12_1 k12_2 k12_3 k13_0 k13_1 k13_2 k13_3 k14_0 k14_1 k14_2 k14_3 k15_0 k15_1 k15_2 k15_3 k16_0 k16_1 k16_2 k16_3 k17_0 k17_1 k17_2 k17_3 k18_0 k18_1 k18_2 k18_3 k19_0 k19_1 k19_2 k19_3 k20_0 k20_1 k20_2 k20_3 k21_0 k21_1 k21_2 k21_3 k22_0 k22_1 k22_2 k22_3 k23_0 k23_1 k23_2 k23_3 k24_0 k24_1 k24_2 k24_3 k25_0 k25_1 k25_2 k25_3 k26_0 k26_1 k26_2 k26_3 k27_0 k27_1 k27_2 k27_3 k28_0 k28_1 k28_2 k28_3 k29_0 k29_1 k29_2 k29_3 k30_0 k30_1 k30_2 k30_3 k31_0 k31_1 k31_2 k31_3 k32_0 k32_1 k32_2 k32_3 b

/-- `Serpent::new_from_slice(key).decrypt_block(b)`, 31-byte key, default build (rounds unrolled) — regenerated code only -/
def dec_31 (key : BitVec 248) (b : BitVec 128) : BitVec 128 :=
  match serpent_new_from_slice_31 key with
  | (k0_0, k0_1, k0_2, k0_3, k1_0, k1_1, k1_2, k1_3, k2_0, k2_1, k2_2, k2_3, k3_0, k3_1, k3_2, k3_3, k4_0, k4_1, k4_2, k4_3, k5_0, k5_1, k5_2, k5_3, k6_0, k6_1, k6_2, k6_3, k7_0, k7_1, k7_2, k7_3, k8_0, k8_1, k8_2, k8_3, k9_0, k9_1, k9_2, k9_3, k10_0, k10_1, k10_2, k10_3, k11_0, k11_1, k11_2, k11_3, k12_0, k12_1, k12_2, k12_3, k13_0, k13_1, k13_2, k13_3, k14_0, k14_1, k14_2, k14_3, k15_0, k15_1, k15_2, k15_3, k16_0, k16_1, k16_2, k16_3, k17_0, k17_1, k17_2, k17_3, k18_0, k18_1, k18_2, k18_3, k19_0, k19_1, k19_2, k19_3, k20_0, k20_1, k20_2, k20_3, k21_0, k21_1, k21_2, k21_3, k22_0, k22_1, k22_2, k22_3, k23_0, k23_1, k23_2, k23_3, k24_0, k24_1, k24_2, k24_3, k25_0, k25_1, k25_2, k25_3, k26_0, k26_1, k26_2, k26_3, k27_0, k27_1, k27_2, k27_3, k28_0, k28_1, k28_2, k28_3, k29_0, k29_1, k29_2, k29_3, k30_0, k30_1, k30_2, k30_3, k31_0, k31_1, k31_2, k31_3, k32_0, k32_1, k32_2, k32_3) => serpent_decrypt_block k0_0 k0_1 k0_2 k0_3 k1_0 k1_1 k1_2 k1_3 k2_0 k2_1 k2_2 k2_3 k3_0 k3_1 k3_2 k3_3 k4_0 k4_1 k4_2 k4_3 k5_0 k5_1 k5_2 k5_3 k6_0 k6_1 k6_2 k6_3 k7_0 k7_1 k7_2 k7_3 k8_0 k8_1 k8_2 k8_3 k9_0 k9_1 k9_2 k9_3 k10_0 k10_1 k10_2 k10_3 k11_0 k11_1 k11_2 k11_3 k12_0 k12_1 k12_2 k12_3 k13_0 k13_1 k13_2 k13_3 k14_0 k14_1 k14_2 k14_3 k15_0 k15_1 k15_2 k15_3 k16_0 k16_1 k16_2 k16_3 k17_0 k17_1 k17_2 k17_3 k18_0 k18_1 k18_2 k18_3 k19_0 k19_1 k19_2 k19_3 k20_0 k20_1 k20_2 k20_3 k21_0 k21_1 k21_2 k21_3 k22_0 k22_1 k22_2 k22_3 k23_0 k23_1 k23_2 k23_3 k24_0 k24_1 k24_2 k24_3 k25_0 k25_1 k25_2 k25_3 k26_0 k26_1 k26_2 k26_3 k27_0 k27_1 k27_2 k27_3 k28_0 k28_1 k28_2 k28_3 k29_0 k29_1 k29_2 k29_3 k30_0 k30_1 k30_2 k30_3 k31_0 k31_1 k31_2 k31_3 k32_0 k32_1 k32_2 k32_3 b

theorem enc_31_eq_impl (key : BitVec 248) (b : BitVec 128) :
    enc_31 key b = BC.Serpent.encrypt (BC.Serpent.keySchedule (BC.unpackBE 31 key)) b := by
  have h : enc_31 key b = encT (serpent_new_from_slice_31 key) b := rfl
  rw [h, BC.GenKeys.Serpent.new_from_slice_31_eq, encT_eq _ (BC.Serpent.keySchedule_size _)]

theorem dec_31_eq_impl (key : BitVec 248) (b : BitVec 128) :
    dec_31 key b = BC.Serpent.decrypt (BC.Serpent.keySchedule (BC.unpackBE 31 key)) b := by
  have h : dec_31 key b = decT (serpent_new_from_slice_31 key) b := rfl
  rw [h, BC.GenKeys.Serpent.new_from_slice_31_eq, decT_eq _ (BC.Serpent.keySchedule_size _)]

/-- decryption inverts encryption, every 31-byte key, every block -/
theorem dec_31_enc_31 (key : BitVec 248) (b : BitVec 128) : dec_31 key (enc_31 key b) = b := by
  rw [enc_31_eq_impl, dec_31_eq_impl]; exact BC.Serpent.decrypt_encrypt _ b
theorem enc_31_dec_31 (key : BitVec 248) (b : BitVec 128) : enc_31 key (dec_31 key b) = b := by
  rw [dec_31_eq_impl, enc_31_eq_impl]; exact BC.Serpent.encrypt_decrypt _ b
/-- the regenerated code computes Serpent of the specification -/
theorem enc_31_eq_spec (key : BitVec 248) (b : BitVec 128) : enc_31 key b = BC.Spec.Serpent.encrypt (BC.unpackBE 31 key) b := by
  rw [enc_31_eq_impl]
  exact BC.Serpent.encrypt_eq_spec _ (by rw [unpackBE_length]; decide) (by rw [unpackBE_length]; decide) b
theorem dec_31_eq_spec (key : BitVec 248) (b : BitVec 128) : dec_31 key b = BC.Spec.Serpent.decrypt (BC.unpackBE 31 key) b := by
  rw [dec_31_eq_impl]
  exact BC.Serpent.decrypt_eq_spec _ (by rw [unpackBE_length]; decide) (by rw [unpackBE_length]; decide) b

/-- `Serpent::new_from_slice(key).encrypt_block(b)`, 31-byte key, `--cfg serpent_no_unroll` build — regenerated code only -/
def loop_enc_31 (key : BitVec 248) (b : BitVec 128) : BitVec 128 :=
  match serpent_new_from_slice_31 key with
  | (k0_0, k0_1, k0_2, k0_3, k1_0, k1_1, k1_2, k1_3, k2_0, k2_1, k2_2, k2_3, k3_0, k3_1, k3_2, k3_3, k4_0, k4_1, k4_2, k4_3, k5_0, k5_1, k5_2, k5_3, k6_0, k6_1, k6_2, k6_3, k7_0, k7_1, k7_2, k7_3, k8_0, k8_1, k8_2, k8_3, k9_0, k9_1, k9_2, k9_3, k10_0, k10_1, k10_2, k10_3, k11_0, k11_1, k11_2, k11_3, k12_0, k12_1, k12_2, k12_3, k13_0, k13_1, k13_2, k13_3, k14_0, k14_1, k14_2, k14_3, k15_0, k15_1, k15_2, k15_3, k16_0, k16_1, k16_2, k16_3, k17_0, k17_1, k17_2, k17_3, k18_0, k18_1, k18_2, k18_3, k19_0, k19_1, k19_2, k19_3, k20_0, k20_1, k20_2, k20_3, k21_0, k21_1, k21_2, k21_3, k22_0, k22_1, k22_2, k22_3, k23_0, k23_1, k23_2, k23_3, k24_0, k24_1, k24_2, k24_3, k25_0, k25_1, k25_2, k25_3, k26_0, k26_1, k26_2, k26_3, k27_0, k27_1, k27_2, k27_3, k28_0, k28_1, k28_2, k28_3, k29_0, k29_1, k29_2, k29_3, k30_0, k30_1, k30_2, k30_3, k31_0, k31_1, k31_2, k31_3, k32_0, k32_1, k32_2, k32_3) => serpent_loop_encrypt_block k0_0 k0_1 k0_2 k0_3 k1_0 k1_1 k1_2 k1_3 k2_0 k2_1 k2_2 k2_3 k3_0 k3_1 k3_2 k3_3 k4_0 k4_1 k4_2 k4_3 k5_0 k5_1 k5_2 k5_3 k6_0 k6_1 k6_2 k6_3 k7_0 k7_1 k7_2 k7_3 k8_0 k8_1 k8_2 k8_3 k9_0 k9_1 k9_2 k9_3 k10_0 k10_1 k10_2 k10_3 k11_0 k11_1 k11_2 k11_3 k12_0 k12_1 k12_2 k12_3 k13_0 k13_1 k13_2 k13_3 k14_0 k14_1 k14_2 k14_3 k15_0 k15_1 k15_2 k15_3 k16_0 k16_1 k16_2 k16_3 k17_0 k17_1 k17_2 k17_3 k18_0 k18_1 k18_2 k18_3 k19_0 k19_1 k19_2 k19_3 k20_0 k20_1 k20_2 k20_3 k21_0 k21_1 k21_2 k21_3 k22_0 k22_1 k22_2 k22_3 k23_0 k23_1 k23_2 k23_3 k24_0 k24_1 k24_2 k24_3 k25_0 k25_1 k25_2 k25_3 k26_0 k26_1 k26_2 k26_3 k27_0 k27_1 k27_2 k27_3 k28_0 k28_1 k28_2 k28_3 k29_0 k29_1 k29_2 k29_3 k30_0 k30_1 k30_2 k30_3 k31_0 k31_1 k31_2 k31_3 k32_0 k32_1 k32_2 k32_3 b

/-- `Serpent::new_from_slice(key).decrypt_block(b)`, 31-byte key, `--cfg serpent_no_unroll` build — regenerated code only -/
def loop_dec_31 (key : BitVec 248) (b : BitVec 128) : BitVec 128 :=
  match serpent_new_from_slice_31 key with
  | (k0_0, k0_1, k0_2, k0_3, k1_0, k1_1, k1_2, k1_3, k2_0, k2_1, k2_2, k2_3, k3_0, k3_1, k3_2, k3_3, k4_0, k4_1, k4_2, k4_3, k5_0, k5_1, k5_2, k5_3, k6_0, k6_1, k6_2, k6_3, k7_0, k7_1, k7_2, k7_3, k8_0, k8_1, k8_2, k8_3, k9_0, k9_1, k9_2, k9_3, k10_0, k10_1, k10_2, k10_3, k11_0, k11_1, k11_2, k11_3, k12_0, k12_1, k12_2, k12_3, k13_0, k13_1, k13_2, k13_3, k14_0, k14_1, k14_2, k14_3, k15_0, k15_1, k15_2, k15_3, k16_0, k16_1, k16_2, k16_3, k17_0, k17_1, k17_2, k17_3, k18_0, k18_1, k18_2, k18_3, k19_0, k19_1, k19_2, k19_3, k20_0, k20_1, k20_2, k20_3, k21_0, k21_1, k21_2, k21_3, k22_0, k22_1, k22_2, k22_3, k23_0, k23_1, k23_2, k23_3, k24_0, k24_1, k24_2, k24_3, k25_0, k25_1, k25_2, k25_3, k26_0, k26_1, k26_2, k26_3, k27_0, k27_1, k27_2, k27_3, k28_0, k28_1, k28_2, k28_3, k29_0, k29_1, k29_2, k29_3, k30_0, k30_1, k30_2, k30_3, k31_0, k31_1, k31_2, k31_3, k32_0, k32_1, k32_2, k32_3) => serpent_loop_decrypt_block k0_0 k0_1 k0_2 k0_3 k1_0 k1_1 k1_2 k1_3 k2_0 k2_1 k2_2 k2_3 k3_0 k3_1 k3_2 k3_3 k4_0 k4_1 k4_2 k4_3 k5_0 k5_1 k5_2 k5_3 k6_0 k6_1 k6_2 k6_3 k7_0 k7_1 k7_2 k7_3 k8_0 k8_1 k8_2 k8_3 k9_0 k9_1 k9_2 k9_3 k10_0 k10_1 k10_2 k10_3 k11_0 k11_1 k11_2 k11_3 k12_0 k12_1 k12_2 k12_3 k13_0 k13_1 k13_2 k13_3 k14_0 k14_1 k14_2 k14_3 k15_0 k15_1 k15_2 k15_3 k16_0 k16_1 k16_2 k16_3 k17_0 k17_1 k17_2 k17_3 k18_0 k18_1 k18_2 k18_3 k19_0 k19_1 k19_2 k19_3 k20_0 k20_1 k20_2 k20_3 k21_0 k21_1 k21_2 k21_3 k22_0 k22_1 k22_2 k22_3 k23_0 k23_1 k23_2 k23_3 k24_0 k24_1 k24_2 k24_3 k25_0 k25_1 k25_2 k25_3 k26_0 k26_1 k26_2 k26_3 k27_0 k27_1 k27_2 k27_3 k28_0 k28_1 k28_2 k28_3 k29_0 k29_1 k29_2 k29_3 k30_0 k30_1 k30_2 k30_3 k31_0 k31_1 k31_2 k31_3 k32_0 k32_1 k32_2 k32_3 b

theorem loop_enc_31_eq_impl (key : BitVec 248) (b : BitVec 128) :
    loop_enc_31 key b = BC.Serpent.encryptLoop (BC.Serpent.keySchedule (BC.unpackBE 31 key)) b := by
  have h : loop_enc_31 key b = loopEncT (serpent_new_from_slice_31 key) b := rfl
  rw [h, BC.GenKeys.Serpent.new_from_slice_31_eq, loopEncT_eq _ (BC.Serpent.keySchedule_size _)]

theorem loop_dec_31_eq_impl (key : BitVec 248) (b : BitVec 128) :
    loop_dec_31 key b = BC.Serpent.decryptLoop (BC.Serpent.keySchedule (BC.unpackBE 31 key)) b := by
  have h : loop_dec_31 key b = loopDecT (serpent_new_from_slice_31 key) b := rfl
  rw [h, BC.GenKeys.Serpent.new_from_slice_31_eq, loopDecT_eq _ (BC.Serpent.keySchedule_size _)]

/-- decryption inverts encryption, every 31-byte key, every block -/
theorem loop_dec_31_loop_enc_31 (key : BitVec 248) (b : BitVec 128) : loop_dec_31 key (loop_enc_31 key b) = b := by
  rw [loop_enc_31_eq_impl, loop_dec_31_eq_impl]; exact BC.Serpent.decryptLoop_encryptLoop _ b
theorem loop_enc_31_loop_dec_31 (key : BitVec 248) (b : BitVec 128) : loop_enc_31 key (loop_dec_31 key b) = b := by
  rw [loop_dec_31_eq_impl, loop_enc_31_eq_impl]; exact BC.Serpent.encryptLoop_decryptLoop _ b
/-- the regenerated code computes Serpent of the specification -/
theorem loop_enc_31_eq_spec (key : BitVec 248) (b : BitVec 128) : loop_enc_31 key b = BC.Spec.Serpent.encrypt (BC.unpackBE 31 key) b := by
  rw [loop_enc_31_eq_impl]
  exact BC.Serpent.encrypt_eq_spec _ (by rw [unpackBE_length]; decide) (by rw [unpackBE_length]; decide) b
theorem loop_dec_31_eq_spec (key : BitVec 248) (b : BitVec 128) : loop_dec_31 key b = BC.Spec.Serpent.decrypt (BC.unpackBE 31 key) b := by
  rw [loop_dec_31_eq_impl]
  exact BC.Serpent.decrypt_eq_spec _ (by rw [unpackBE_length]; decide) (by rw [unpackBE_length]; decide) b

/-! ## key length 32 bytes -/

/-- `Serpent::new_from_slice(key).encrypt_block(b)`, 32-byte key, default build (rounds unrolled) — regenerated code only -/
def enc_32 (key : BitVec 256) (b : BitVec 128) : BitVec 128 :=
  match serpent_new_from_slice_32 key with
  | (k0_0, k0_1, k0_2, k0_3, k1_0, k1_1, k1_2, k1_3, k2_0, k2_1, k2_2, k2_3, k3_0, k3_1, k3_2, k3_3, k4_0, k4_1, k4_2, k4_3, k5_0, k5_1, k5_2, k5_3, k6_0, k6_1, k6_2, k6_3, k7_0, k7_1, k7_2, k7_3, k8_0, k8_1, k8_2, k8_3, k9_0, k9_1, k9_2, k9_3, k10_0, k10_1, k10_2, k10_3, k11_0, k11_1, k11_2, k11_3, k12_0, k12_1, k12_2, k12_3, k13_0, k13_1, k13_2, k13_3, k14_0, k14_1, k14_2, k14_3, k15_0, k15_1, k15_2, k15_3, k16_0, k16_1, k16_2, k16_3, k17_0, k17_1, k17_2, k17_3, k18_0, k18_1, k18_2, k18_3, k19_0, k19_1, k19_2, k19_3, k20_0, k20_1, k20_2, k20_3, k21_0, k21_1, k21_2, k21_3, k22_0, k22_1, k22_2, k22_3, k23_0, k23_1, k23_2, k23_3, k24_0, k24_1, k24_2, k24_3, k25_0, k25_1, k25_2, k25_3, k26_0, k26_1, k26_2, k26_3, k27_0, k27_1, k27_2, k27_3, k28_0, k28_1, k28_2, k28_3, k29_0, k29_1, k29_2, k29_3, k30_0, k30_1, k30_2, k30_3, k31_0, k31_1, k31_2, k31_3, k32_0, k32_1, k32_2, k32_3) => serpent_encrypt_block k0_0 k0_1 k0_2 k0_3 k1_0 k1_1 k1_2 k1_3 k2_0 k2_1 k2_2 k2_3 k3_0 k3_1 k3_2 k3_3 k4_0 k4_1 k4_2 k4_3 k5_0 k5_1 k5_2 k5_3 k6_0 k6_1 k6_2 k6_3 k7_0 k7_1 k7_2 k7_3 k8_0 k8_1 k8_2 k8_3 k9_0 k9_1 k9_2 k9_3 k10_0 k10_1 k10_2 k10_3 k11_0 k11_1 k11_2 k11_3 k12_0 k12_1 k12_2 k12_3 k13_0 k13_1 k13_2 k13_3 k14_0 k14_1 k14_2 k14_3 k15_0 k15_1 k15_2 k15_3 k16_0 k16_1 k16_2 k16_3 k17_0 k17_1 k17_2 k17_3 k18_0 k18_1 k18_2 k18_3 k19_0 k19_1 k19_2 k19_3 k20_0 k20_1 k20_2 k20_3 k21_0 k21_1 k21_2 k21_3 k22_0 k22_1 k22_2 k22_3 k23_0 k23_1 k23_2 k23_3 k24_0 k24_1 k24_2 k24_3 k25_0 k25_1 k25_2 k25_3 k26_0 k26_1 k26_2 k26_3 k27_0 k27_1 k27_2 k27_3 k28_0 k28_1 k28_2 k28_3 k29_0 k29_1 k29_2 k29_3 k30_0 k30_1 k30_2 k30_3 k31_0 k31_1 k31_2 k31_3 k32_0 k32_1 k32_2 k32_3 b

/-- `Serpent::new_from_slice(key).decrypt_block(b)`, 32-byte key, default build (rounds unrolled) — regenerated code only -/
def dec_32 (key : BitVec 256) (b : BitVec 128) : BitVec 128 :=
  match serpent_new_from_slice_32 key with
  | (k0_0, k0_1, k0_2, k0_3, k1_0, k1_1, k1_2, k1_3, k2_0, k2_1, k2_2, k2_3, k3_0, k3_1, k3_2, k3_3, k4_0, k4_1, k4_2, k4_3, k5_0, k5_1, k5_2, k5_3, k6_0, k6_1, k6_2, k6_3, k7_0, k7_1, k7_2, k7_3, k8_0, k8_1, k8_2, k8_3, k9_0, k9_1, k9_2, k9_3, k10_0, k10_1, k10_2, k10_3, k11_0, k11_1, k11_2, k11_3, k12_0, k12_1, k12_2, k12_3, k13_0, k13_1, k13_2, k13_3, k14_0, k14_1, k14_2, k14_3, k15_0, k15_1, k15_2, k15_3, k16_0, k16_1, k16_2, k16_3, k17_0, k17_1, k17_2, k17_3, k18_0, k18_1, k18_2, k18_3, k19_0, k19_1, k19_2, k19_3, k20_0, k20_1, k20_2, k20_3, k21_0, k21_1, k21_2, k21_3, k22_0, k22_1, k22_2, k22_3, k23_0, k23_1, k23_2, k23_3, k24_0, k24_1, k24_2, k24_3, k25_0, k25_1, k25_2, k25_3, k26_0, k26_1, k26_2, k26_3, k27_0, k27_1, k27_2, k27_3, k28_0, k28_1, k28_2, k28_3, k29_0, k29_1, k29_2, k29_3, k30_0, k30_1, k30_2, k30_3, k31_0, k31_1, k31_2, k31_3, k32_0, k32_1, k32_2, k32_3) => serpent_decrypt_block k0_0 k0_1 k0_2 k0_3 k1_0 k1_1 k1_2 k1_3 k2_0 k2_1 k2_2 k2_3 k3_0 k3_1 k3_2 k3_3 k4_0 k4_1 k4_2 k4_3 k5_0 k5_1 k5_2 k5_3 k6_0 k6_1 k6_2 k6_3 k7_0 k7_1 k7_2 k7_3 k8_0 k8_1 k8_2 k8_3 k9_0 k9_1 k9_2 k9_3 k10_0 k10_1 k10_2 k10_3 k11_0 k11_1 k11_2 k11_3 k12_0 k12_1 k12_2 k12_3 k13_0 k13_1 k13_2 k13_3 k14_0 k14_1 k14_2 k14_3 k15_0 k15_1 k15_2 k15_3 k16_0 k16_1 k16_2 k16_3 k17_0 k17_1 k17_2 k17_3 k18_0 k18_1 k18_2 k18_3 k19_0 k19_1 k19_2 k19_3 k20_0 k20_1 k20_2 k20_3 k21_0 k21_1 k21_2 k21_3 k22_0 k22_1 k22_2 k22_3 k23_0 k23_1 k23_2 k23_3 k24_0 k24_1 k24_2 k24_3 k25_0 k25_1 k25_2 k25_3 k26_0 k26_1 k26_2 k26_3 k27_0 k27_1 k27_2 k27_3 k28_0 k28_1 k28_2 k28_3 k29_0 k29_1 k29_2 k29_3 k30_0 k30_1 k30_2 k30_3 k31_0 k31_1 k31_2 k31_3 k32_0 k32_1 k32_2 k32_3 b

theorem enc_32_eq_impl (key : BitVec 256) (b : BitVec 128) :
    enc_32 key b = BC.Serpent.encrypt (BC.Serpent.keySchedule (BC.unpackBE 32 key)) b := by
  have h : enc_32 key b = encT (serpent_new_from_slice_32 key) b := rfl
  rw [h, BC.GenKeys.Serpent.new_from_slice_32_eq, encT_eq _ (BC.Serpent.keySchedule_size _)]

theorem dec_32_eq_impl (key : BitVec 256) (b : BitVec 128) :
    dec_32 key b = BC.Serpent.decrypt (BC.Serpent.keySchedule (BC.unpackBE 32 key)) b := by
  have h : dec_32 key b = decT (serpent_new_from_slice_32 key) b := rfl
  rw [h, BC.GenKeys.Serpent.new_from_slice_32_eq, decT_eq _ (BC.Serpent.keySchedule_size _)]

/-- decryption inverts encryption, every 32-byte key, every block -/
theorem dec_32_enc_32 (key : BitVec 256) (b : BitVec 128) : dec_32 key (enc_32 key b) = b := by
  rw [enc_32_eq_impl, dec_32_eq_impl]; exact BC.Serpent.decrypt_encrypt _ b
theorem enc_32_dec_32 (key : BitVec 256) (b : BitVec 128) : enc_32 key (dec_32 key b) = b := by
  rw [dec_32_eq_impl, enc_32_eq_impl]; exact BC.Serpent.encrypt_decrypt _ b
/-- the regenerated code computes Serpent of the specification -/
theorem enc_32_eq_spec (key : BitVec 256) (b : BitVec 128) : enc_32 key b = BC.Spec.Serpent.encrypt (BC.unpackBE 32 key) b := by
  rw [enc_32_eq_impl]
  exact BC.Serpent.encrypt_eq_spec _ (by rw [unpackBE_length]; decide) (by rw [unpackBE_length]; decide) b
theorem dec_32_eq_spec (key : BitVec 256) (b : BitVec 128) : dec_32 key b = BC.Spec.Serpent.decrypt (BC.unpackBE 32 key) b := by
  rw [dec_32_eq_impl]
  exact BC.Serpent.decrypt_eq_spec _ (by rw [unpackBE_length]; decide) (by rw [unpackBE_length]; decide) b

/-- `Serpent::new_from_slice(key).encrypt_block(b)`, 32-byte key, `--cfg serpent_no_unroll` build — regenerated code only -/
def loop_enc_32 (key : BitVec 256) (b : BitVec 128) : BitVec 128 :=
  match serpent_new_from_slice_32 key with
  | (k0_0, k0_1, k0_2, k0_3, k1_0, k1_1, k1_2, k1_3, k2_0, k2_1, k2_2, k2_3, k3_0, k3_1, k3_2, k3_3, k4_0, k4_1, k4_2, k4_3, k5_0, k5_1, k5_2, k5_3, k6_0, k6_1, k6_2, k6_3, k7_0, k7_1, k7_2, k7_3, k8_0, k8_1, k8_2, k8_3, k9_0, k9_1, k9_2, k9_3, k10_0, k10_1, k10_2, k10_3, k11_0, k11_1, k11_2, k11_3, k12_0, k12_1, k12_2, k12_3, k13_0, k13_1, k13_2, k13_3, k14_0, k14_1, k14_2, k14_3, k15_0, k15_1, k15_2, k15_3, k16_0, k16_1, k16_2, k16_3, k17_0, k17_1, k17_2, k17_3, k18_0, k18_1, k18_2, k18_3, k19_0, k19_1, k19_2, k19_3, k20_0, k20_1, k20_2, k20_3, k21_0, k21_1, k21_2, k21_3, k22_0, k22_1, k22_2, k22_3, k23_0, k23_1, k23_2, k23_3, k24_0, k24_1, k24_2, k24_3, k25_0, k25_1, k25_2, k25_3, k26_0, k26_1, k26_2, k26_3, k27_0, k27_1, k27_2, k27_3, k28_0, k28_1, k28_2, k28_3, k29_0, k29_1, k29_2, k29_3, k30_0, k30_1, k30_2, k30_3, k31_0, k31_1, k31_2, k31_3, k32_0, k32_1, k32_2, k32_3) => serpent_loop_encrypt_block k0_0 k0_1 k0_2 k0_3 k1_0 k1_1 k1_2 k1_3 k2_0 k2_1 k2_2 k2_3 k3_0 k3_1 k3_2 k3_3 k4_0 k4_1 k4_2 k4_3 k5_0 k5_1 k5_2 k5_3 k6_0 k6_1 k6_2 k6_3 k7_0 k7_1 k7_2 k7_3 k8_0 k8_1 k8_2 k8_3 k9_0 k9_1 k9_2 k9_3 k10_0 k10_1 k10_2 k10_3 k11_0 k11_1 k11_2 k11_3 k12_0 k12_1 k12_2 k12_3 k13_0 k13_1 k13_2 k13_3 k14_0 k14_1 k14_2 k14_3 k15_0 k15_1 k15_2 k15_3 k16_0 k16_1 k16_2 k16_3 k17_0 k17_1 k17_2 k17_3 k18_0 k18_1 k18_2 k18_3 k19_0 k19_1 k19_2 k19_3 k20_0 k20_1 k20_2 k20_3 k21_0 k21_1 k21_2 k21_3 k22_0 k22_1 k22_2 k22_3 k23_0 k23_1 k23_2 k23_3 k24_0 k24_1 k24_2 k24_3 k25_0 k25_1 k25_2 k25_3 k26_0 k26_1 k26_2 k26_3 k27_0 k27_1 k27_2 k27_3 k28_0 k28_1 k28_2 k28_3 k29_0 k29_1 k29_2 k29_3 k30_0 k30_1 k30_2 k30_3 k31_0 k31_1 k31_2 k31_3 k32_0 k32_1 k32_2 k32_3 b

/-- `Serpent::new_from_slice(key).decrypt_block(b)`, 32-byte key, `--cfg serpent_no_unroll` build — regenerated code only -/
def loop_dec_32 (key : BitVec 256) (b : BitVec 128) : BitVec 128 :=
  match serpent_new_from_slice_32 key with
  | (k0_0, k0_1, k0_2, k0_3, k1_0, k1_1, k1_2, k1_3, k2_0, k2_1, k2_2, k2_3, k3_0, k3_1, k3_2, k3_3, k4_0, k4_1, k4_2, k4_3, k5_0, k5_1, k5_2, k5_3, k6_0, k6_1, k6_2, k6_3, k7_0, k7_1, k7_2, k7_3, k8_0, k8_1, k8_2, k8_3, k9_0, k9_1, k9_2, k9_3, k10_0, k10_1, k10_2, k10_3, k11_0, k11_1, k11_2, k11_3, k12_0, k12_1, k12_2, k12_3, k13_0, k13_1, k13_2, k13_3, k14_0, k14_1, k14_2, k14_3, k15_0, k15_1, k15_2, k15_3, k16_0, k16_1, k16_2, k16_3, k17_0, k17_1, k17_2, k17_3, k18_0, k18_1, k18_2, k18_3, k19_0, k19_1, k19_2, k19_3, k20_0, k20_1, k20_2, k20_3, k21_0, k21_1, k21_2, k21_3, k22_0, k22_1, k22_2, k22_3, k23_0, k23_1, k23_2, k23_3, k24_0, k24_1, k24_2, k24_3, k25_0, k25_1, k25_2, k25_3, k26_0, k26_1, k26_2, k26_3, k27_0, k27_1, k27_2, k27_3, k28_0, k28_1, k28_2, k28_3, k29_0, k29_1, k29_2, k29_3, k30_0, k30_1, k30_2, k30_3, k31_0, k31_1, k31_2, k31_3, k32_0, k32_1, k32_2, k32_3) => serpent_loop_decrypt_block k0_0 k0_1 k0_2 k0_3 k1_0 k1_1 k1_2 k1_3 k2_0 k2_1 k2_2 k2_3 k3_0 k3_1 k3_2 k3_3 k4_0 k4_1 k4_2 k4_3 k5_0 k5_1 k5_2 k5_3 k6_0 k6_1 k6_2 k6_3 k7_0 k7_1 k7_2 k7_3 k8_0 k8_1 k8_2 k8_3 k9_0 k9_1 k9_2 k9_3 k10_0 k10_1 k10_2 k10_3 k11_0 k11_1 k11_2 k11_3 k12_0 k12_1 k12_2 k12_3 k13_0 k13_1 k13_2 k13_3 k14_0 k14_1 k14_2 k14_3 k15_0 k15_1 k15_2 k15_3 k16_0 k16_1 k16_2 k16_3 k17_0 k17_1 k17_2 k17_3 k18_0 k18_1 k18_2 k18_3 k19_0 k19_1 k19_2 k19_3 k20_0 k20_1 k20_2 k20_3 k21_0 k21_1 k21_2 k21_3 k22_0 k22_1 k22_2 k22_3 k23_0 k23_1 k23_2 k23_3 k24_0 k24_1 k24_2 k24_3 k25_0 k25_1 k25_2 k25_3 k26_0 k26_1 k26_2 k26_3 k27_0 k27_1 k27_2 k27_3 k28_0 k28_1 k28_2 k28_3 k29_0 k29_1 k29_2 k29_3 k30_0 k30_1 k30_2 k30_3 k31_0 k31_1 k31_2 k31_3 k32_0 k32_1 k32_2 k32_3 b

theorem loop_enc_32_eq_impl (key : BitVec 256) (b : BitVec 128) :
    loop_enc_32 key b = BC.Serpent.encryptLoop (BC.Serpent.keySchedule (BC.unpackBE 32 key)) b := by
  have h : loop_enc_32 key b = loopEncT (serpent_new_from_slice_32 key) b := rfl
  rw [h, BC.GenKeys.Serpent.new_from_slice_32_eq, loopEncT_eq _ (BC.Serpent.keySchedule_size _)]

theorem loop_dec_32_eq_impl (key : BitVec 256) (b : BitVec 128) :
    loop_dec_32 key b = BC.Serpent.decryptLoop (BC.Serpent.keySchedule (BC.unpackBE 32 key)) b := by
  have h : loop_dec_32 key b = loopDecT (serpent_new_from_slice_32 key) b := rfl
  rw [h, BC.GenKeys.Serpent.new_from_slice_32_eq, loopDecT_eq _ (BC.Serpent.keySchedule_size _)]

/-- decryption inverts encryption, every 32-byte key, every block -/
theorem loop_dec_32_loop_enc_32 (key : BitVec 256) (b : BitVec 128) : loop_dec_32 key (loop_enc_32 key b) = b := by
  rw [loop_enc_32_eq_impl, loop_dec_32_eq_impl]; exact BC.Serpent.decryptLoop_encryptLoop _ b
theorem loop_enc_32_loop_dec_32 (key : BitVec 256) (b : BitVec 128) : loop_enc_32 key (loop_dec_32 key b) = b := by
  rw [loop_dec_32_eq_impl, loop_enc_32_eq_impl]; exact BC.Serpent.encryptLoop_decryptLoop _ b
/-- the regenerated code computes Serpent of the specification -/
theorem loop_enc_32_eq_spec (key : BitVec 256) (b : BitVec 128) : loop_enc_32 key b = BC.Spec.Serpent.encrypt (BC.unpackBE 32 key) b := by
  rw [loop_enc_32_eq_impl]
  exact BC.Serpent.encrypt_eq_spec _ (by rw [unpackBE_length]; decide) (by rw [unpackBE_length]; decide) b
theorem loop_dec_32_eq_spec (key : BitVec 256) (b : BitVec 128) : loop_dec_32 key b = BC.Spec.Serpent.decrypt (BC.unpackBE 32 key) b := by
  rw [loop_dec_32_eq_impl]
  exact BC.Serpent.decrypt_eq_spec _ (by rw [unpackBE_length]; decide) (by rw [unpackBE_length]; decide) b

end BC.Code.Serpent
