import BlockCiphers.Gen.Cipher_Belt_block
import BlockCiphers.Gen.Keys_Belt_block
import BlockCiphers.Proofs.GenCipherBelt
import BlockCiphers.Proofs.GenKeysBelt
import BlockCiphers.Proofs.Belt
import BlockCiphers.Proofs.BeltSpec
/-!
Code-level theorems for the BelT block cipher (`belt-block`, STB 34.101.31): statements mention ONLY the regenerated code
(`BC.Gen.Fn.beltblock_new`, `beltblock_encrypt_block`, `beltblock_decrypt_block`) and the specification `BC.Spec.Belt`.
Composition of
  (1) `BC.Belt.decrypt_encrypt_key`, `encrypt_decrypt_key` (Proofs/Belt.lean; Thm C01), `encrypt_eq_spec`, `decrypt_eq_spec`
      (Proofs/BeltSpec.lean; Thm C07),
  (2) `BC.GenCipher.Belt.encrypt_block_eq` / `decrypt_block_eq`,
  (3) `BC.GenKeys.Belt.new_eq`.
-/
set_option maxRecDepth 100000
namespace BC.Code.Belt
open BC BC.Gen.Fn

/-- `BeltBlock::new(key).encrypt_block(b)` on the regenerated code -/
def enc (key : BitVec 256) (b : BitVec 128) : BitVec 128 :=
  match beltblock_new key with
  | (k0, k1, k2, k3, k4, k5, k6, k7) => beltblock_encrypt_block k0 k1 k2 k3 k4 k5 k6 k7 b

/-- `BeltBlock::new(key).decrypt_block(b)` on the regenerated code -/
def dec (key : BitVec 256) (b : BitVec 128) : BitVec 128 :=
  match beltblock_new key with
  | (k0, k1, k2, k3, k4, k5, k6, k7) => beltblock_decrypt_block k0 k1 k2 k3 k4 k5 k6 k7 b

/-! ### bridges to the model -/

theorem enc_eq_impl (key : BitVec 256) (b : BitVec 128) : enc key b = BC.Belt.encrypt (BC.Belt.new key) b := by
  rw [BC.GenKeys.Belt.new_eq key]
  unfold enc
  generalize beltblock_new key = t
  obtain ⟨k0, k1, k2, k3, k4, k5, k6, k7⟩ := t
  exact BC.GenCipher.Belt.encrypt_block_eq k0 k1 k2 k3 k4 k5 k6 k7 b

theorem dec_eq_impl (key : BitVec 256) (b : BitVec 128) : dec key b = BC.Belt.decrypt (BC.Belt.new key) b := by
  rw [BC.GenKeys.Belt.new_eq key]
  unfold dec
  generalize beltblock_new key = t
  obtain ⟨k0, k1, k2, k3, k4, k5, k6, k7⟩ := t
  exact BC.GenCipher.Belt.decrypt_block_eq k0 k1 k2 k3 k4 k5 k6 k7 b

/-! ### round trips on the regenerated code -/

theorem dec_enc (key : BitVec 256) (b : BitVec 128) : dec key (enc key b) = b := by
  rw [enc_eq_impl, dec_eq_impl, BC.Belt.decrypt_encrypt_key]

theorem enc_dec (key : BitVec 256) (b : BitVec 128) : enc key (dec key b) = b := by
  rw [enc_eq_impl, dec_eq_impl, BC.Belt.encrypt_decrypt_key]

/-! ### conformance of the regenerated code to STB 34.101.31 -/

/-- the regenerated `BeltBlock::encrypt_block` is belt-block encryption (§6.1.3), for every key and block -/
theorem enc_eq_spec (key : BitVec 256) (b : BitVec 128) : enc key b = BC.Spec.Belt.blockEnc key b := by
  rw [enc_eq_impl, BC.Belt.encrypt_eq_spec]

/-- the regenerated `BeltBlock::decrypt_block` is belt-block decryption (§6.1.4) -/
theorem dec_eq_spec (key : BitVec 256) (b : BitVec 128) : dec key b = BC.Spec.Belt.blockDec key b := by
  rw [dec_eq_impl, BC.Belt.decrypt_eq_spec]

end BC.Code.Belt
