import BlockCiphers.Proofs.AesSpecMix
import BlockCiphers.Proofs.AesNi
import BlockCiphers.Proofs.AesArmv8Round
import BlockCiphers.Proofs.AesArmv8Keys
import BlockCiphers.Proofs.AesArmv8Par
/-
ARMv8 Cryptography-Extensions backend of the `aes` crate (`/repo/aes/src/armv8.rs`, `armv8/*.rs`) — main theorems,
stated like those of the AES-NI backend (`Proofs/AesNi.lean`) so that they slot into `Thm/C01,C02,C04,C12,C17`.

C02  `encryptN key b = Spec.Aes.encrypt (bytes of key) b`, `decryptN key b = Spec.Aes.decrypt …`
     for N = 128, 192, 256, every key, every block (`Proofs/AesArmv8Keys`: the generic word loop is FIPS-197
     KeyExpansion; `Proofs/AesArmv8Round`: AESE/AESMC rounds and the equivalent-inverse-cipher argument for
     `inv_expanded_keys`).
C01  `decryptN key (encryptN key b) = b` and the other order.
C04  `encrypt_par` / `decrypt_par` = map of the single-block function (`Proofs/AesArmv8Par`), instantiated for the
     keyed types.
C12  every conversion / clone route reaches the same instance as the direct constructor.
C17  the four hazmat functions are the FIPS-197 layer compositions; `_par` forms are 8 independent calls.

Hardware semantics are ASSUMED: `Prelude/ArmIntrinsics.lean` transcribes the Arm ARM pseudo-code.
-/
namespace BC.AesArmv8
open BC BC.X86 BC.Arm BC.Spec.Aes BC.AesNi

/-! ### C02 -/

theorem decrypt128_def (key b : BitVec 128) :
    decrypt128 key b = decrypt (inv_expanded_keys (expand_key (unpackBE 16 key) 11)) b := by
  simp only [decrypt128, Combined.decrypt_block, Combined.new128, Combined.new, Dec.decrypt_block, Dec.fromEnc, Enc.clone, Enc.new]
theorem decrypt192_def (key : BitVec 192) (b : BitVec 128) :
    decrypt192 key b = decrypt (inv_expanded_keys (expand_key (unpackBE 24 key) 13)) b := by
  simp only [decrypt192, Combined.decrypt_block, Combined.new192, Combined.new, Dec.decrypt_block, Dec.fromEnc, Enc.clone, Enc.new]
theorem decrypt256_def (key : BitVec 256) (b : BitVec 128) :
    decrypt256 key b = decrypt (inv_expanded_keys (expand_key (unpackBE 32 key) 15)) b := by
  simp only [decrypt256, Combined.decrypt_block, Combined.new256, Combined.new, Dec.decrypt_block, Dec.fromEnc, Enc.clone, Enc.new]
theorem encrypt128_def (key b : BitVec 128) : encrypt128 key b = encrypt (expand_key (unpackBE 16 key) 11) b := by
  simp only [encrypt128, Combined.encrypt_block, Combined.new128, Combined.new, Enc.encrypt_block, Enc.new]
theorem encrypt192_def (key : BitVec 192) (b : BitVec 128) :
    encrypt192 key b = encrypt (expand_key (unpackBE 24 key) 13) b := by
  simp only [encrypt192, Combined.encrypt_block, Combined.new192, Combined.new, Enc.encrypt_block, Enc.new]
theorem encrypt256_def (key : BitVec 256) (b : BitVec 128) :
    encrypt256 key b = encrypt (expand_key (unpackBE 32 key) 15) b := by
  simp only [encrypt256, Combined.encrypt_block, Combined.new256, Combined.new, Enc.encrypt_block, Enc.new]

/-- `expand_key` = FIPS-197 KeyExpansion: register `r` of the result, read back from memory, is round key `r` -/
theorem expand_key128_eq_keyExpansion (key : BitVec 128) (r : Nat) (hr : r ≤ 10) :
    vst1q_u8 ((expand_key (unpackBE 16 key) 11).getD r 0#128) =
      roundKey (keyExpansion 4 10 (keyWords (unpackBE 16 key))) r :=
  (aes128_keys_match key).2 r hr
theorem expand_key192_eq_keyExpansion (key : BitVec 192) (r : Nat) (hr : r ≤ 12) :
    vst1q_u8 ((expand_key (unpackBE 24 key) 13).getD r 0#128) =
      roundKey (keyExpansion 6 12 (keyWords (unpackBE 24 key))) r :=
  (aes192_keys_match key).2 r hr
theorem expand_key256_eq_keyExpansion (key : BitVec 256) (r : Nat) (hr : r ≤ 14) :
    vst1q_u8 ((expand_key (unpackBE 32 key) 15).getD r 0#128) =
      roundKey (keyExpansion 8 14 (keyWords (unpackBE 32 key))) r :=
  (aes256_keys_match key).2 r hr

theorem encrypt128_eq_spec (key : BitVec 128) (b : BitVec 128) :
    encrypt128 key b = Spec.Aes.encrypt (unpackBE 16 key) b := by
  rw [encrypt128_def]
  simp only [Spec.Aes.encrypt, length_unpackBE', Nat.reduceDiv, nrOf, Nat.reduceAdd]
  exact encrypt_eq_cipher _ 10 _ (aes128_keys_match key) (by omega) b

theorem decrypt128_eq_spec (key : BitVec 128) (b : BitVec 128) :
    decrypt128 key b = Spec.Aes.decrypt (unpackBE 16 key) b := by
  rw [decrypt128_def]
  simp only [Spec.Aes.decrypt, length_unpackBE', Nat.reduceDiv, nrOf, Nat.reduceAdd]
  exact decrypt_inv_keys_eq_invCipher _ 10 _ (aes128_keys_match key) (by omega) b

theorem encrypt192_eq_spec (key : BitVec 192) (b : BitVec 128) :
    encrypt192 key b = Spec.Aes.encrypt (unpackBE 24 key) b := by
  rw [encrypt192_def]
  simp only [Spec.Aes.encrypt, length_unpackBE', Nat.reduceDiv, nrOf, Nat.reduceAdd]
  exact encrypt_eq_cipher _ 12 _ (aes192_keys_match key) (by omega) b

theorem decrypt192_eq_spec (key : BitVec 192) (b : BitVec 128) :
    decrypt192 key b = Spec.Aes.decrypt (unpackBE 24 key) b := by
  rw [decrypt192_def]
  simp only [Spec.Aes.decrypt, length_unpackBE', Nat.reduceDiv, nrOf, Nat.reduceAdd]
  exact decrypt_inv_keys_eq_invCipher _ 12 _ (aes192_keys_match key) (by omega) b

theorem encrypt256_eq_spec (key : BitVec 256) (b : BitVec 128) :
    encrypt256 key b = Spec.Aes.encrypt (unpackBE 32 key) b := by
  rw [encrypt256_def]
  simp only [Spec.Aes.encrypt, length_unpackBE', Nat.reduceDiv, nrOf, Nat.reduceAdd]
  exact encrypt_eq_cipher _ 14 _ (aes256_keys_match key) (by omega) b

theorem decrypt256_eq_spec (key : BitVec 256) (b : BitVec 128) :
    decrypt256 key b = Spec.Aes.decrypt (unpackBE 32 key) b := by
  rw [decrypt256_def]
  simp only [Spec.Aes.decrypt, length_unpackBE', Nat.reduceDiv, nrOf, Nat.reduceAdd]
  exact decrypt_inv_keys_eq_invCipher _ 14 _ (aes256_keys_match key) (by omega) b

/-- C03 corollary: the ARMv8 backend and the AES-NI backend compute the same function -/
theorem encrypt128_eq_ni (key b : BitVec 128) : encrypt128 key b = AesNi.encrypt128 key b := by
  rw [encrypt128_eq_spec, AesNi.encrypt128_eq_spec]
theorem decrypt128_eq_ni (key b : BitVec 128) : decrypt128 key b = AesNi.decrypt128 key b := by
  rw [decrypt128_eq_spec, AesNi.decrypt128_eq_spec]
theorem encrypt192_eq_ni (key : BitVec 192) (b : BitVec 128) : encrypt192 key b = AesNi.encrypt192 key b := by
  rw [encrypt192_eq_spec, AesNi.encrypt192_eq_spec]
theorem decrypt192_eq_ni (key : BitVec 192) (b : BitVec 128) : decrypt192 key b = AesNi.decrypt192 key b := by
  rw [decrypt192_eq_spec, AesNi.decrypt192_eq_spec]
theorem encrypt256_eq_ni (key : BitVec 256) (b : BitVec 128) : encrypt256 key b = AesNi.encrypt256 key b := by
  rw [encrypt256_eq_spec, AesNi.encrypt256_eq_spec]
theorem decrypt256_eq_ni (key : BitVec 256) (b : BitVec 128) : decrypt256 key b = AesNi.decrypt256 key b := by
  rw [decrypt256_eq_spec, AesNi.decrypt256_eq_spec]

/-! ### C01 -/

theorem decrypt128_encrypt128 (key b : BitVec 128) : decrypt128 key (encrypt128 key b) = b := by
  rw [encrypt128_eq_spec, decrypt128_eq_spec, Spec.Aes.decrypt_encrypt]
theorem encrypt128_decrypt128 (key b : BitVec 128) : encrypt128 key (decrypt128 key b) = b := by
  rw [encrypt128_eq_spec, decrypt128_eq_spec, Spec.Aes.encrypt_decrypt]
theorem decrypt192_encrypt192 (key : BitVec 192) (b : BitVec 128) : decrypt192 key (encrypt192 key b) = b := by
  rw [encrypt192_eq_spec, decrypt192_eq_spec, Spec.Aes.decrypt_encrypt]
theorem encrypt192_decrypt192 (key : BitVec 192) (b : BitVec 128) : encrypt192 key (decrypt192 key b) = b := by
  rw [encrypt192_eq_spec, decrypt192_eq_spec, Spec.Aes.encrypt_decrypt]
theorem decrypt256_encrypt256 (key : BitVec 256) (b : BitVec 128) : decrypt256 key (encrypt256 key b) = b := by
  rw [encrypt256_eq_spec, decrypt256_eq_spec, Spec.Aes.decrypt_encrypt]
theorem encrypt256_decrypt256 (key : BitVec 256) (b : BitVec 128) : encrypt256 key (decrypt256 key b) = b := by
  rw [encrypt256_eq_spec, decrypt256_eq_spec, Spec.Aes.encrypt_decrypt]

/-! ### C04: the multi-block backend calls of the keyed types (ParBlocks = 21 / 19 / 17 or any other count) -/

theorem encrypt_par128 (key : BitVec 128) (bs : List (BitVec 128)) :
    encrypt_par (Enc.new128 key).keys bs = bs.map (encrypt128 key) :=
  encrypt_par_eq_map _ bs (Or.inl (expand_key_length _ _))
theorem decrypt_par128 (key : BitVec 128) (bs : List (BitVec 128)) :
    decrypt_par (Dec.new128 key).keys bs = bs.map (decrypt128 key) :=
  decrypt_par_eq_map _ bs (Or.inl (by
    simp only [Dec.new128, Dec.new, Dec.fromEnc, Enc.clone, Enc.new, inv_expanded_keys_length, expand_key_length]))
theorem encrypt_par192 (key : BitVec 192) (bs : List (BitVec 128)) :
    encrypt_par (Enc.new192 key).keys bs = bs.map (encrypt192 key) :=
  encrypt_par_eq_map _ bs (Or.inr (Or.inl (expand_key_length _ _)))
theorem decrypt_par192 (key : BitVec 192) (bs : List (BitVec 128)) :
    decrypt_par (Dec.new192 key).keys bs = bs.map (decrypt192 key) :=
  decrypt_par_eq_map _ bs (Or.inr (Or.inl (by
    simp only [Dec.new192, Dec.new, Dec.fromEnc, Enc.clone, Enc.new, inv_expanded_keys_length, expand_key_length])))
theorem encrypt_par256 (key : BitVec 256) (bs : List (BitVec 128)) :
    encrypt_par (Enc.new256 key).keys bs = bs.map (encrypt256 key) :=
  encrypt_par_eq_map _ bs (Or.inr (Or.inr (expand_key_length _ _)))
theorem decrypt_par256 (key : BitVec 256) (bs : List (BitVec 128)) :
    decrypt_par (Dec.new256 key).keys bs = bs.map (decrypt256 key) :=
  decrypt_par_eq_map _ bs (Or.inr (Or.inr (by
    simp only [Dec.new256, Dec.new, Dec.fromEnc, Enc.clone, Enc.new, inv_expanded_keys_length, expand_key_length])))

/-! ### C12: Enc / Dec / combined, conversions and clones -/

theorem Enc.clone_eq (e : Enc) : e.clone = e := rfl
theorem Dec.clone_eq (d : Dec) : d.clone = d := rfl
theorem Combined.clone_eq (c : Combined) : c.clone = c := rfl

/-- the encrypt-only type encrypts like the combined type, the decrypt-only type decrypts like it -/
theorem enc_only_eq128 (key b : BitVec 128) : (Enc.new128 key).encrypt_block b = encrypt128 key b := rfl
theorem dec_only_eq128 (key b : BitVec 128) : (Dec.new128 key).decrypt_block b = decrypt128 key b := rfl
theorem enc_only_eq192 (key : BitVec 192) (b : BitVec 128) : (Enc.new192 key).encrypt_block b = encrypt192 key b := rfl
theorem dec_only_eq192 (key : BitVec 192) (b : BitVec 128) : (Dec.new192 key).decrypt_block b = decrypt192 key b := rfl
theorem enc_only_eq256 (key : BitVec 256) (b : BitVec 128) : (Enc.new256 key).encrypt_block b = encrypt256 key b := rfl
theorem dec_only_eq256 (key : BitVec 256) (b : BitVec 128) : (Dec.new256 key).decrypt_block b = decrypt256 key b := rfl

/-- the direct constructors are the conversions of the encrypt-only instance (any key length `L`, any `N`) -/
theorem combined_new_eq_fromEnc (key : Bytes) (n : Nat) : Combined.new key n = Combined.fromEnc (Enc.new key n) := rfl
theorem dec_new_eq_fromEnc (key : Bytes) (n : Nat) : Dec.new key n = Dec.fromEnc (Enc.new key n) := rfl

theorem combined_from_enc_clone (e : Enc) : (Combined.fromEnc e).clone = Combined.fromEnc e.clone := rfl
theorem dec_from_enc_clone (e : Enc) : (Dec.fromEnc e).clone = Dec.fromEnc e.clone := rfl
theorem combined_dec_eq (e : Enc) : (Combined.fromEnc e).decrypt = Dec.fromEnc e := rfl
theorem combined_enc_eq (e : Enc) : (Combined.fromEnc e).encrypt = e := rfl

/-! ### C17: hazmat -/

theorem cipher_round_eq (b k : BitVec 128) :
    cipher_round b k = mixColumns (shiftRows (subBytes b)) ^^^ k := by
  simp only [cipher_round, vld1q_u8, vst1q_u8, veorq_u8, rev128_xor, vaesmc_spec, vaese_spec, vdupq_n_u8_zero,
    rev128_zero, rev128_rev128, BitVec.xor_zero]

theorem equiv_inv_cipher_round_eq (b k : BitVec 128) :
    equiv_inv_cipher_round b k = invMixColumns (invShiftRows (invSubBytes b)) ^^^ k := by
  simp only [equiv_inv_cipher_round, vld1q_u8, vst1q_u8, veorq_u8, rev128_xor, vaesimc_spec, vaesd_spec,
    vdupq_n_u8_zero, rev128_zero, rev128_rev128, BitVec.xor_zero, invSubBytes_invShiftRows]

theorem mix_columns_eq (b : BitVec 128) : mix_columns b = mixColumns b := by
  simp only [mix_columns, vld1q_u8, vst1q_u8, vaesmc_spec, rev128_rev128]

theorem inv_mix_columns_eq (b : BitVec 128) : inv_mix_columns b = invMixColumns b := by
  simp only [inv_mix_columns, vld1q_u8, vst1q_u8, vaesimc_spec, rev128_rev128]

theorem inv_mix_columns_mix_columns (b : BitVec 128) : inv_mix_columns (mix_columns b) = b := by
  rw [inv_mix_columns_eq, mix_columns_eq, invMixColumns_mixColumns]
theorem mix_columns_inv_mix_columns (b : BitVec 128) : mix_columns (inv_mix_columns b) = b := by
  rw [inv_mix_columns_eq, mix_columns_eq, mixColumns_invMixColumns]

/-- `cipher_round_par` on 8 blocks and 8 round keys = 8 independent `cipher_round` calls -/
theorem cipher_round_par_eq (b0 b1 b2 b3 b4 b5 b6 b7 k0 k1 k2 k3 k4 k5 k6 k7 : BitVec 128) :
    cipher_round_par [b0, b1, b2, b3, b4, b5, b6, b7] [k0, k1, k2, k3, k4, k5, k6, k7] =
      [cipher_round b0 k0, cipher_round b1 k1, cipher_round b2 k2, cipher_round b3 k3,
       cipher_round b4 k4, cipher_round b5 k5, cipher_round b6 k6, cipher_round b7 k7] := rfl

theorem equiv_inv_cipher_round_par_eq (b0 b1 b2 b3 b4 b5 b6 b7 k0 k1 k2 k3 k4 k5 k6 k7 : BitVec 128) :
    equiv_inv_cipher_round_par [b0, b1, b2, b3, b4, b5, b6, b7] [k0, k1, k2, k3, k4, k5, k6, k7] =
      [equiv_inv_cipher_round b0 k0, equiv_inv_cipher_round b1 k1, equiv_inv_cipher_round b2 k2,
       equiv_inv_cipher_round b3 k3, equiv_inv_cipher_round b4 k4, equiv_inv_cipher_round b5 k5,
       equiv_inv_cipher_round b6 k6, equiv_inv_cipher_round b7 k7] := rfl

/-- the ARMv8 and AES-NI hazmat functions agree (C03 for `aes::hazmat`) -/
theorem cipher_round_eq_ni (b k : BitVec 128) : cipher_round b k = AesNi.cipher_round b k := by
  rw [cipher_round_eq, AesNi.cipher_round_eq]
theorem equiv_inv_cipher_round_eq_ni (b k : BitVec 128) :
    equiv_inv_cipher_round b k = AesNi.equiv_inv_cipher_round b k := by
  rw [equiv_inv_cipher_round_eq, AesNi.equiv_inv_cipher_round_eq]
theorem mix_columns_eq_ni (b : BitVec 128) : mix_columns b = AesNi.mix_columns b := by
  rw [mix_columns_eq, AesNi.mix_columns_eq]
theorem inv_mix_columns_eq_ni (b : BitVec 128) : inv_mix_columns b = AesNi.inv_mix_columns b := by
  rw [inv_mix_columns_eq, AesNi.inv_mix_columns_eq]

end BC.AesArmv8
