import Lean
import BlockCiphers.Gen.Cipher_Rc5
import BlockCiphers.Impl.Rc5
import BlockCiphers.Proofs.GenCipherSpeck
import Std.Tactic.BVDecide
/-
Tie of the regenerated `RC5<W, R, B>::encrypt_block` / `decrypt_block` (`Gen/Cipher_Rc5.lean`; the translator instantiates
`RC5<u32, U12, U16>`, `RC5<u16, U16, U8>`, `RC5<u64, U24, U24>`, `RC5<u8, U12, U4>` and resolves the `Word` trait methods to
the `impl Word for uN` of `primitives.rs`) to the model `BC.Rc5.encryptBlock` / `decryptBlock` of `Impl/Rc5.lean` (generic in
the word width and the number of rounds), for ALL expanded key tables (the 2(R+1) words of `self.key_table` as explicit
arguments) and ALL blocks.  RC5 is ARX with data-dependent rotations: nothing is bit-blasted except the byte loads/stores.

 * `rl<w>` / `rr<w>`: the text of the inlined `Word::rotate_left` / `rotate_right` of `impl Word for u<w>` (u8/u16: the amount
   cast to `u32`; u32: passed as is; u64: reduced modulo 64, then cast); `rotlW_<w>` / `rotrW_<w>`: they are the model's
   `rotlW` / `rotrW` at that width;
 * `encG` / `decG`: one round in the shape of the generated text; `*_encRound_i`: the model's round for the literal `i`;
 * `*_gen_enc` / `*_gen_dec`: the generated definitions ARE the nested `encG` / `decG` (`extract_lets`, one `rfl` per round);
 * `*_load` / `*_store`: `words_from_block` / `block_from_words` on `unpackBE` byte lists (bridging lemmas about the model).
Produced by `tools/gen_rc5_tie.py` from the generated text (it refers to the `let` names of `Gen/Cipher_Rc5.lean`).
-/
namespace BC.GenCipher.Rc5
open BC BC.Rc5 BC.Gen.Fn
set_option maxRecDepth 100000

open Lean Elab Tactic Meta in
/-- make the (hygienic) names of the local `let` variables introduced by `extract_lets` accessible -/
elab "name_lets" : tactic => do
  liftMetaTactic fun g => g.withContext do
    let mut lctx ← getLCtx
    for d in lctx do
      if d.isLet then lctx := lctx.setUserName d.fvarId d.userName.eraseMacroScopes
    let g' ← mkFreshExprMVarAt lctx (← getLocalInstances) (← g.getType) .syntheticOpaque (← g.getTag)
    g.assign g'
    return [g'.mvarId!]

/-! ### bytes ↔ words -/

theorem ofNat_foldr (w : Nat) (bs : Bytes) :
    BitVec.ofNat w (bs.foldr (fun b acc => acc * 256 + b.toNat) 0) =
      bs.foldr (fun b acc => acc * 256#w + b.setWidth w) 0#w := by
  induction bs with
  | nil => rfl
  | cons b bs ih =>
    simp only [List.foldr_cons, ← ih]
    rw [BitVec.ofNat_add, BitVec.ofNat_mul, BitVec.ofNat_toNat]

/-- `from_le_bytes` as a Horner fold in the word type -/
theorem fromLE_fold (w : Nat) (bs : Bytes) :
    fromLE w bs = bs.foldr (fun b acc => acc * 256#w + b.setWidth w) 0#w := by
  rw [fromLE, bytesToNatLE, ofNat_foldr]

/-- `to_le_bytes` is the reversed `unpackBE` -/
theorem toLE_eq {w : Nat} (x : BitVec w) : toLE x = (unpackBE (w / 8) x).reverse := by
  rw [← BC.GenCipher.Speck.toBEn_toNat, toBEn, List.reverse_reverse]; rfl

/-! ### `Word::rotate_left` / `rotate_right` of the four instantiated `impl Word` -/

def rl8 (x n : BitVec 8) : BitVec 8 := x.rotateLeft (n.setWidth 32).toNat
def rr8 (x n : BitVec 8) : BitVec 8 := x.rotateRight (n.setWidth 32).toNat
def rl16 (x n : BitVec 16) : BitVec 16 := x.rotateLeft (n.setWidth 32).toNat
def rr16 (x n : BitVec 16) : BitVec 16 := x.rotateRight (n.setWidth 32).toNat
def rl32 (x n : BitVec 32) : BitVec 32 := x.rotateLeft n.toNat
def rr32 (x n : BitVec 32) : BitVec 32 := x.rotateRight n.toNat
def rl64 (x n : BitVec 64) : BitVec 64 := x.rotateLeft ((n % 0x40#64).setWidth 32).toNat
def rr64 (x n : BitVec 64) : BitVec 64 := x.rotateRight ((n % 0x40#64).setWidth 32).toNat

theorem rotlW_8 (x n : BitVec 8) : rotlW x n = rl8 x n := by unfold rotlW rl8; rw [if_pos (by decide)]
theorem rotrW_8 (x n : BitVec 8) : rotrW x n = rr8 x n := by unfold rotrW rr8; rw [if_pos (by decide)]
theorem rotlW_16 (x n : BitVec 16) : rotlW x n = rl16 x n := by unfold rotlW rl16; rw [if_pos (by decide)]
theorem rotrW_16 (x n : BitVec 16) : rotrW x n = rr16 x n := by unfold rotrW rr16; rw [if_pos (by decide)]
theorem rotlW_32 (x n : BitVec 32) : rotlW x n = rl32 x n := by unfold rotlW rl32; rw [if_pos (by decide), BitVec.setWidth_eq]
theorem rotrW_32 (x n : BitVec 32) : rotrW x n = rr32 x n := by unfold rotrW rr32; rw [if_pos (by decide), BitVec.setWidth_eq]
theorem rotlW_64 (x n : BitVec 64) : rotlW x n = rl64 x n := by unfold rotlW rl64; rw [if_neg (by decide)]
theorem rotrW_64 (x n : BitVec 64) : rotrW x n = rr64 x n := by unfold rotrW rr64; rw [if_neg (by decide)]

/-- one round of `encrypt_block`, in the shape of the generated text -/
def encG {w : Nat} (rl : BitVec w → BitVec w → BitVec w) (ka kb : BitVec w) (s : St w) : St w :=
  let a := rl (s.a ^^^ s.b) s.b + ka
  let b := rl (s.b ^^^ a) a + kb
  { a := a, b := b }

/-- one round of `decrypt_block`, in the shape of the generated text -/
def decG {w : Nat} (rr : BitVec w → BitVec w → BitVec w) (ka kb : BitVec w) (s : St w) : St w :=
  let b := rr (s.b - kb) s.a ^^^ s.a
  let a := rr (s.a - ka) b ^^^ b
  { a := a, b := b }

/-! ### rc5_32_12_16: `RC5<u32, U12, U16>`, 8-byte block, 12 rounds, 26 key-table words -/

def rc5_32_12_16_key (k0 k1 k2 k3 k4 k5 k6 k7 k8 k9 k10 k11 k12 k13 k14 k15 k16 k17 k18 k19 k20 k21 k22 k23 k24 k25 : BitVec 32) : Array (BitVec 32) := #[k0, k1, k2, k3, k4, k5, k6, k7, k8, k9, k10, k11, k12, k13, k14, k15, k16, k17, k18, k19, k20, k21, k22, k23, k24, k25]
/-- the generated `a`, `b` (block bytes → words, little-endian) and output expression -/
def rc5_32_12_16_a (block : BitVec 64) : BitVec 32 := ((block.extractLsb' 32 8) ++ (block.extractLsb' 40 8) ++ (block.extractLsb' 48 8) ++ (block.extractLsb' 56 8))
def rc5_32_12_16_b (block : BitVec 64) : BitVec 32 := ((block.extractLsb' 0 8) ++ (block.extractLsb' 8 8) ++ (block.extractLsb' 16 8) ++ (block.extractLsb' 24 8))
def rc5_32_12_16_out (a b : BitVec 32) : BitVec 64 := (a.extractLsb' 0 8) ++ (a.extractLsb' 8 8) ++ (a.extractLsb' 16 8) ++ (a.extractLsb' 24 8) ++ (b.extractLsb' 0 8) ++ (b.extractLsb' 8 8) ++ (b.extractLsb' 16 8) ++ (b.extractLsb' 24 8)

theorem rc5_32_12_16_load (block : BitVec 64) :
    wordsFromBlock 32 (unpackBE 8 block) = ⟨rc5_32_12_16_a block, rc5_32_12_16_b block⟩ := by
  have h : wordsFromBlock 32 (unpackBE 8 block) = ⟨fromLE 32 [(block >>> 56).setWidth 8, (block >>> 48).setWidth 8, (block >>> 40).setWidth 8, (block >>> 32).setWidth 8], fromLE 32 [(block >>> 24).setWidth 8, (block >>> 16).setWidth 8, (block >>> 8).setWidth 8, (block >>> 0).setWidth 8]⟩ := rfl
  rw [h]
  simp only [fromLE_fold, List.foldr_cons, List.foldr_nil, rc5_32_12_16_a, rc5_32_12_16_b, St.mk.injEq]
  constructor <;> bv_decide (config := { timeout := 300 })

theorem rc5_32_12_16_store (s : St 32) : blockFromWords s = unpackBE 8 (rc5_32_12_16_out s.a s.b) := by
  have h2 : blockFromWords s = [(s.a >>> 0).setWidth 8, (s.a >>> 8).setWidth 8, (s.a >>> 16).setWidth 8, (s.a >>> 24).setWidth 8, (s.b >>> 0).setWidth 8, (s.b >>> 8).setWidth 8, (s.b >>> 16).setWidth 8, (s.b >>> 24).setWidth 8] := by
    rw [blockFromWords, toLE_eq, toLE_eq]; rfl
  have h3 : ∀ o : BitVec 64, unpackBE 8 o = [(o >>> 56).setWidth 8, (o >>> 48).setWidth 8, (o >>> 40).setWidth 8, (o >>> 32).setWidth 8, (o >>> 24).setWidth 8, (o >>> 16).setWidth 8, (o >>> 8).setWidth 8, (o >>> 0).setWidth 8] := fun _ => rfl
  rw [h2, h3]
  simp only [rc5_32_12_16_out, List.cons.injEq, and_true]
  bv_decide (config := { timeout := 300 })

theorem rc5_32_12_16_encRound_1 (k0 k1 k2 k3 k4 k5 k6 k7 k8 k9 k10 k11 k12 k13 k14 k15 k16 k17 k18 k19 k20 k21 k22 k23 k24 k25 : BitVec 32) (s : St 32) : encRound (rc5_32_12_16_key k0 k1 k2 k3 k4 k5 k6 k7 k8 k9 k10 k11 k12 k13 k14 k15 k16 k17 k18 k19 k20 k21 k22 k23 k24 k25) 1 s = encG rl32 k2 k3 s := by
  simp only [encRound, encG, rotlW_32]; rfl
theorem rc5_32_12_16_decRound_1 (k0 k1 k2 k3 k4 k5 k6 k7 k8 k9 k10 k11 k12 k13 k14 k15 k16 k17 k18 k19 k20 k21 k22 k23 k24 k25 : BitVec 32) (s : St 32) : decRound (rc5_32_12_16_key k0 k1 k2 k3 k4 k5 k6 k7 k8 k9 k10 k11 k12 k13 k14 k15 k16 k17 k18 k19 k20 k21 k22 k23 k24 k25) 1 s = decG rr32 k2 k3 s := by
  simp only [decRound, decG, rotrW_32]; rfl
theorem rc5_32_12_16_encRound_2 (k0 k1 k2 k3 k4 k5 k6 k7 k8 k9 k10 k11 k12 k13 k14 k15 k16 k17 k18 k19 k20 k21 k22 k23 k24 k25 : BitVec 32) (s : St 32) : encRound (rc5_32_12_16_key k0 k1 k2 k3 k4 k5 k6 k7 k8 k9 k10 k11 k12 k13 k14 k15 k16 k17 k18 k19 k20 k21 k22 k23 k24 k25) 2 s = encG rl32 k4 k5 s := by
  simp only [encRound, encG, rotlW_32]; rfl
theorem rc5_32_12_16_decRound_2 (k0 k1 k2 k3 k4 k5 k6 k7 k8 k9 k10 k11 k12 k13 k14 k15 k16 k17 k18 k19 k20 k21 k22 k23 k24 k25 : BitVec 32) (s : St 32) : decRound (rc5_32_12_16_key k0 k1 k2 k3 k4 k5 k6 k7 k8 k9 k10 k11 k12 k13 k14 k15 k16 k17 k18 k19 k20 k21 k22 k23 k24 k25) 2 s = decG rr32 k4 k5 s := by
  simp only [decRound, decG, rotrW_32]; rfl
theorem rc5_32_12_16_encRound_3 (k0 k1 k2 k3 k4 k5 k6 k7 k8 k9 k10 k11 k12 k13 k14 k15 k16 k17 k18 k19 k20 k21 k22 k23 k24 k25 : BitVec 32) (s : St 32) : encRound (rc5_32_12_16_key k0 k1 k2 k3 k4 k5 k6 k7 k8 k9 k10 k11 k12 k13 k14 k15 k16 k17 k18 k19 k20 k21 k22 k23 k24 k25) 3 s = encG rl32 k6 k7 s := by
  simp only [encRound, encG, rotlW_32]; rfl
theorem rc5_32_12_16_decRound_3 (k0 k1 k2 k3 k4 k5 k6 k7 k8 k9 k10 k11 k12 k13 k14 k15 k16 k17 k18 k19 k20 k21 k22 k23 k24 k25 : BitVec 32) (s : St 32) : decRound (rc5_32_12_16_key k0 k1 k2 k3 k4 k5 k6 k7 k8 k9 k10 k11 k12 k13 k14 k15 k16 k17 k18 k19 k20 k21 k22 k23 k24 k25) 3 s = decG rr32 k6 k7 s := by
  simp only [decRound, decG, rotrW_32]; rfl
theorem rc5_32_12_16_encRound_4 (k0 k1 k2 k3 k4 k5 k6 k7 k8 k9 k10 k11 k12 k13 k14 k15 k16 k17 k18 k19 k20 k21 k22 k23 k24 k25 : BitVec 32) (s : St 32) : encRound (rc5_32_12_16_key k0 k1 k2 k3 k4 k5 k6 k7 k8 k9 k10 k11 k12 k13 k14 k15 k16 k17 k18 k19 k20 k21 k22 k23 k24 k25) 4 s = encG rl32 k8 k9 s := by
  simp only [encRound, encG, rotlW_32]; rfl
theorem rc5_32_12_16_decRound_4 (k0 k1 k2 k3 k4 k5 k6 k7 k8 k9 k10 k11 k12 k13 k14 k15 k16 k17 k18 k19 k20 k21 k22 k23 k24 k25 : BitVec 32) (s : St 32) : decRound (rc5_32_12_16_key k0 k1 k2 k3 k4 k5 k6 k7 k8 k9 k10 k11 k12 k13 k14 k15 k16 k17 k18 k19 k20 k21 k22 k23 k24 k25) 4 s = decG rr32 k8 k9 s := by
  simp only [decRound, decG, rotrW_32]; rfl
theorem rc5_32_12_16_encRound_5 (k0 k1 k2 k3 k4 k5 k6 k7 k8 k9 k10 k11 k12 k13 k14 k15 k16 k17 k18 k19 k20 k21 k22 k23 k24 k25 : BitVec 32) (s : St 32) : encRound (rc5_32_12_16_key k0 k1 k2 k3 k4 k5 k6 k7 k8 k9 k10 k11 k12 k13 k14 k15 k16 k17 k18 k19 k20 k21 k22 k23 k24 k25) 5 s = encG rl32 k10 k11 s := by
  simp only [encRound, encG, rotlW_32]; rfl
theorem rc5_32_12_16_decRound_5 (k0 k1 k2 k3 k4 k5 k6 k7 k8 k9 k10 k11 k12 k13 k14 k15 k16 k17 k18 k19 k20 k21 k22 k23 k24 k25 : BitVec 32) (s : St 32) : decRound (rc5_32_12_16_key k0 k1 k2 k3 k4 k5 k6 k7 k8 k9 k10 k11 k12 k13 k14 k15 k16 k17 k18 k19 k20 k21 k22 k23 k24 k25) 5 s = decG rr32 k10 k11 s := by
  simp only [decRound, decG, rotrW_32]; rfl
theorem rc5_32_12_16_encRound_6 (k0 k1 k2 k3 k4 k5 k6 k7 k8 k9 k10 k11 k12 k13 k14 k15 k16 k17 k18 k19 k20 k21 k22 k23 k24 k25 : BitVec 32) (s : St 32) : encRound (rc5_32_12_16_key k0 k1 k2 k3 k4 k5 k6 k7 k8 k9 k10 k11 k12 k13 k14 k15 k16 k17 k18 k19 k20 k21 k22 k23 k24 k25) 6 s = encG rl32 k12 k13 s := by
  simp only [encRound, encG, rotlW_32]; rfl
theorem rc5_32_12_16_decRound_6 (k0 k1 k2 k3 k4 k5 k6 k7 k8 k9 k10 k11 k12 k13 k14 k15 k16 k17 k18 k19 k20 k21 k22 k23 k24 k25 : BitVec 32) (s : St 32) : decRound (rc5_32_12_16_key k0 k1 k2 k3 k4 k5 k6 k7 k8 k9 k10 k11 k12 k13 k14 k15 k16 k17 k18 k19 k20 k21 k22 k23 k24 k25) 6 s = decG rr32 k12 k13 s := by
  simp only [decRound, decG, rotrW_32]; rfl
theorem rc5_32_12_16_encRound_7 (k0 k1 k2 k3 k4 k5 k6 k7 k8 k9 k10 k11 k12 k13 k14 k15 k16 k17 k18 k19 k20 k21 k22 k23 k24 k25 : BitVec 32) (s : St 32) : encRound (rc5_32_12_16_key k0 k1 k2 k3 k4 k5 k6 k7 k8 k9 k10 k11 k12 k13 k14 k15 k16 k17 k18 k19 k20 k21 k22 k23 k24 k25) 7 s = encG rl32 k14 k15 s := by
  simp only [encRound, encG, rotlW_32]; rfl
theorem rc5_32_12_16_decRound_7 (k0 k1 k2 k3 k4 k5 k6 k7 k8 k9 k10 k11 k12 k13 k14 k15 k16 k17 k18 k19 k20 k21 k22 k23 k24 k25 : BitVec 32) (s : St 32) : decRound (rc5_32_12_16_key k0 k1 k2 k3 k4 k5 k6 k7 k8 k9 k10 k11 k12 k13 k14 k15 k16 k17 k18 k19 k20 k21 k22 k23 k24 k25) 7 s = decG rr32 k14 k15 s := by
  simp only [decRound, decG, rotrW_32]; rfl
theorem rc5_32_12_16_encRound_8 (k0 k1 k2 k3 k4 k5 k6 k7 k8 k9 k10 k11 k12 k13 k14 k15 k16 k17 k18 k19 k20 k21 k22 k23 k24 k25 : BitVec 32) (s : St 32) : encRound (rc5_32_12_16_key k0 k1 k2 k3 k4 k5 k6 k7 k8 k9 k10 k11 k12 k13 k14 k15 k16 k17 k18 k19 k20 k21 k22 k23 k24 k25) 8 s = encG rl32 k16 k17 s := by
  simp only [encRound, encG, rotlW_32]; rfl
theorem rc5_32_12_16_decRound_8 (k0 k1 k2 k3 k4 k5 k6 k7 k8 k9 k10 k11 k12 k13 k14 k15 k16 k17 k18 k19 k20 k21 k22 k23 k24 k25 : BitVec 32) (s : St 32) : decRound (rc5_32_12_16_key k0 k1 k2 k3 k4 k5 k6 k7 k8 k9 k10 k11 k12 k13 k14 k15 k16 k17 k18 k19 k20 k21 k22 k23 k24 k25) 8 s = decG rr32 k16 k17 s := by
  simp only [decRound, decG, rotrW_32]; rfl
theorem rc5_32_12_16_encRound_9 (k0 k1 k2 k3 k4 k5 k6 k7 k8 k9 k10 k11 k12 k13 k14 k15 k16 k17 k18 k19 k20 k21 k22 k23 k24 k25 : BitVec 32) (s : St 32) : encRound (rc5_32_12_16_key k0 k1 k2 k3 k4 k5 k6 k7 k8 k9 k10 k11 k12 k13 k14 k15 k16 k17 k18 k19 k20 k21 k22 k23 k24 k25) 9 s = encG rl32 k18 k19 s := by
  simp only [encRound, encG, rotlW_32]; rfl
theorem rc5_32_12_16_decRound_9 (k0 k1 k2 k3 k4 k5 k6 k7 k8 k9 k10 k11 k12 k13 k14 k15 k16 k17 k18 k19 k20 k21 k22 k23 k24 k25 : BitVec 32) (s : St 32) : decRound (rc5_32_12_16_key k0 k1 k2 k3 k4 k5 k6 k7 k8 k9 k10 k11 k12 k13 k14 k15 k16 k17 k18 k19 k20 k21 k22 k23 k24 k25) 9 s = decG rr32 k18 k19 s := by
  simp only [decRound, decG, rotrW_32]; rfl
theorem rc5_32_12_16_encRound_10 (k0 k1 k2 k3 k4 k5 k6 k7 k8 k9 k10 k11 k12 k13 k14 k15 k16 k17 k18 k19 k20 k21 k22 k23 k24 k25 : BitVec 32) (s : St 32) : encRound (rc5_32_12_16_key k0 k1 k2 k3 k4 k5 k6 k7 k8 k9 k10 k11 k12 k13 k14 k15 k16 k17 k18 k19 k20 k21 k22 k23 k24 k25) 10 s = encG rl32 k20 k21 s := by
  simp only [encRound, encG, rotlW_32]; rfl
theorem rc5_32_12_16_decRound_10 (k0 k1 k2 k3 k4 k5 k6 k7 k8 k9 k10 k11 k12 k13 k14 k15 k16 k17 k18 k19 k20 k21 k22 k23 k24 k25 : BitVec 32) (s : St 32) : decRound (rc5_32_12_16_key k0 k1 k2 k3 k4 k5 k6 k7 k8 k9 k10 k11 k12 k13 k14 k15 k16 k17 k18 k19 k20 k21 k22 k23 k24 k25) 10 s = decG rr32 k20 k21 s := by
  simp only [decRound, decG, rotrW_32]; rfl
theorem rc5_32_12_16_encRound_11 (k0 k1 k2 k3 k4 k5 k6 k7 k8 k9 k10 k11 k12 k13 k14 k15 k16 k17 k18 k19 k20 k21 k22 k23 k24 k25 : BitVec 32) (s : St 32) : encRound (rc5_32_12_16_key k0 k1 k2 k3 k4 k5 k6 k7 k8 k9 k10 k11 k12 k13 k14 k15 k16 k17 k18 k19 k20 k21 k22 k23 k24 k25) 11 s = encG rl32 k22 k23 s := by
  simp only [encRound, encG, rotlW_32]; rfl
theorem rc5_32_12_16_decRound_11 (k0 k1 k2 k3 k4 k5 k6 k7 k8 k9 k10 k11 k12 k13 k14 k15 k16 k17 k18 k19 k20 k21 k22 k23 k24 k25 : BitVec 32) (s : St 32) : decRound (rc5_32_12_16_key k0 k1 k2 k3 k4 k5 k6 k7 k8 k9 k10 k11 k12 k13 k14 k15 k16 k17 k18 k19 k20 k21 k22 k23 k24 k25) 11 s = decG rr32 k22 k23 s := by
  simp only [decRound, decG, rotrW_32]; rfl
theorem rc5_32_12_16_encRound_12 (k0 k1 k2 k3 k4 k5 k6 k7 k8 k9 k10 k11 k12 k13 k14 k15 k16 k17 k18 k19 k20 k21 k22 k23 k24 k25 : BitVec 32) (s : St 32) : encRound (rc5_32_12_16_key k0 k1 k2 k3 k4 k5 k6 k7 k8 k9 k10 k11 k12 k13 k14 k15 k16 k17 k18 k19 k20 k21 k22 k23 k24 k25) 12 s = encG rl32 k24 k25 s := by
  simp only [encRound, encG, rotlW_32]; rfl
theorem rc5_32_12_16_decRound_12 (k0 k1 k2 k3 k4 k5 k6 k7 k8 k9 k10 k11 k12 k13 k14 k15 k16 k17 k18 k19 k20 k21 k22 k23 k24 k25 : BitVec 32) (s : St 32) : decRound (rc5_32_12_16_key k0 k1 k2 k3 k4 k5 k6 k7 k8 k9 k10 k11 k12 k13 k14 k15 k16 k17 k18 k19 k20 k21 k22 k23 k24 k25) 12 s = decG rr32 k24 k25 s := by
  simp only [decRound, decG, rotrW_32]; rfl

theorem rc5_32_12_16_encLoop (key : Array (BitVec 32)) (s : St 32) : encLoop key 12 s = encRound key 12 (encRound key 11 (encRound key 10 (encRound key 9 (encRound key 8 (encRound key 7 (encRound key 6 (encRound key 5 (encRound key 4 (encRound key 3 (encRound key 2 (encRound key 1 (s)))))))))))) := rfl
theorem rc5_32_12_16_decLoop (key : Array (BitVec 32)) (s : St 32) : decLoop key 12 s = decRound key 1 (decRound key 2 (decRound key 3 (decRound key 4 (decRound key 5 (decRound key 6 (decRound key 7 (decRound key 8 (decRound key 9 (decRound key 10 (decRound key 11 (decRound key 12 (s)))))))))))) := rfl

theorem rc5_32_12_16_encryptWords (k0 k1 k2 k3 k4 k5 k6 k7 k8 k9 k10 k11 k12 k13 k14 k15 k16 k17 k18 k19 k20 k21 k22 k23 k24 k25 : BitVec 32) (a b : BitVec 32) : encryptWords (rc5_32_12_16_key k0 k1 k2 k3 k4 k5 k6 k7 k8 k9 k10 k11 k12 k13 k14 k15 k16 k17 k18 k19 k20 k21 k22 k23 k24 k25) 12 ⟨a, b⟩ =
    encG rl32 k24 k25 (encG rl32 k22 k23 (encG rl32 k20 k21 (encG rl32 k18 k19 (encG rl32 k16 k17 (encG rl32 k14 k15 (encG rl32 k12 k13 (encG rl32 k10 k11 (encG rl32 k8 k9 (encG rl32 k6 k7 (encG rl32 k4 k5 (encG rl32 k2 k3 (⟨a + k0, b + k1⟩)))))))))))) := by
  simp only [encryptWords, rc5_32_12_16_encLoop, rc5_32_12_16_encRound_1, rc5_32_12_16_encRound_2, rc5_32_12_16_encRound_3, rc5_32_12_16_encRound_4, rc5_32_12_16_encRound_5, rc5_32_12_16_encRound_6, rc5_32_12_16_encRound_7, rc5_32_12_16_encRound_8, rc5_32_12_16_encRound_9, rc5_32_12_16_encRound_10, rc5_32_12_16_encRound_11, rc5_32_12_16_encRound_12]
  rfl

theorem rc5_32_12_16_decryptWords (k0 k1 k2 k3 k4 k5 k6 k7 k8 k9 k10 k11 k12 k13 k14 k15 k16 k17 k18 k19 k20 k21 k22 k23 k24 k25 : BitVec 32) (a b : BitVec 32) : decryptWords (rc5_32_12_16_key k0 k1 k2 k3 k4 k5 k6 k7 k8 k9 k10 k11 k12 k13 k14 k15 k16 k17 k18 k19 k20 k21 k22 k23 k24 k25) 12 ⟨a, b⟩ =
    (fun t : St 32 => ({ a := t.a - k0, b := t.b - k1 } : St 32)) (decG rr32 k2 k3 (decG rr32 k4 k5 (decG rr32 k6 k7 (decG rr32 k8 k9 (decG rr32 k10 k11 (decG rr32 k12 k13 (decG rr32 k14 k15 (decG rr32 k16 k17 (decG rr32 k18 k19 (decG rr32 k20 k21 (decG rr32 k22 k23 (decG rr32 k24 k25 (⟨a, b⟩))))))))))))) := by
  simp only [decryptWords, rc5_32_12_16_decLoop, rc5_32_12_16_decRound_1, rc5_32_12_16_decRound_2, rc5_32_12_16_decRound_3, rc5_32_12_16_decRound_4, rc5_32_12_16_decRound_5, rc5_32_12_16_decRound_6, rc5_32_12_16_decRound_7, rc5_32_12_16_decRound_8, rc5_32_12_16_decRound_9, rc5_32_12_16_decRound_10, rc5_32_12_16_decRound_11, rc5_32_12_16_decRound_12]
  rfl

theorem rc5_32_12_16_gen_enc (k0 k1 k2 k3 k4 k5 k6 k7 k8 k9 k10 k11 k12 k13 k14 k15 k16 k17 k18 k19 k20 k21 k22 k23 k24 k25 : BitVec 32) (block : BitVec 64) : rc5_32_12_16_encrypt_block k0 k1 k2 k3 k4 k5 k6 k7 k8 k9 k10 k11 k12 k13 k14 k15 k16 k17 k18 k19 k20 k21 k22 k23 k24 k25 block =
    (fun y : St 32 => rc5_32_12_16_out y.a y.b) (encG rl32 k24 k25 (encG rl32 k22 k23 (encG rl32 k20 k21 (encG rl32 k18 k19 (encG rl32 k16 k17 (encG rl32 k14 k15 (encG rl32 k12 k13 (encG rl32 k10 k11 (encG rl32 k8 k9 (encG rl32 k6 k7 (encG rl32 k4 k5 (encG rl32 k2 k3 (⟨rc5_32_12_16_a block + k0, rc5_32_12_16_b block + k1⟩))))))))))))) := by
  unfold rc5_32_12_16_encrypt_block
  extract_lets -merge
  name_lets
  have h0 : ({ a := rc5_32_12_16_a block + k0, b := rc5_32_12_16_b block + k1 } : St 32) = ⟨wrapping_add_r, wrapping_add_r_1⟩ := rfl
  have h1 : encG rl32 k2 k3 ⟨wrapping_add_r, wrapping_add_r_1⟩ = ⟨wrapping_add_r_2, wrapping_add_r_3⟩ := rfl
  have h2 : encG rl32 k4 k5 ⟨wrapping_add_r_2, wrapping_add_r_3⟩ = ⟨wrapping_add_r_4, wrapping_add_r_5⟩ := rfl
  have h3 : encG rl32 k6 k7 ⟨wrapping_add_r_4, wrapping_add_r_5⟩ = ⟨wrapping_add_r_6, wrapping_add_r_7⟩ := rfl
  have h4 : encG rl32 k8 k9 ⟨wrapping_add_r_6, wrapping_add_r_7⟩ = ⟨wrapping_add_r_8, wrapping_add_r_9⟩ := rfl
  have h5 : encG rl32 k10 k11 ⟨wrapping_add_r_8, wrapping_add_r_9⟩ = ⟨wrapping_add_r_10, wrapping_add_r_11⟩ := rfl
  have h6 : encG rl32 k12 k13 ⟨wrapping_add_r_10, wrapping_add_r_11⟩ = ⟨wrapping_add_r_12, wrapping_add_r_13⟩ := rfl
  have h7 : encG rl32 k14 k15 ⟨wrapping_add_r_12, wrapping_add_r_13⟩ = ⟨wrapping_add_r_14, wrapping_add_r_15⟩ := rfl
  have h8 : encG rl32 k16 k17 ⟨wrapping_add_r_14, wrapping_add_r_15⟩ = ⟨wrapping_add_r_16, wrapping_add_r_17⟩ := rfl
  have h9 : encG rl32 k18 k19 ⟨wrapping_add_r_16, wrapping_add_r_17⟩ = ⟨wrapping_add_r_18, wrapping_add_r_19⟩ := rfl
  have h10 : encG rl32 k20 k21 ⟨wrapping_add_r_18, wrapping_add_r_19⟩ = ⟨wrapping_add_r_20, wrapping_add_r_21⟩ := rfl
  have h11 : encG rl32 k22 k23 ⟨wrapping_add_r_20, wrapping_add_r_21⟩ = ⟨wrapping_add_r_22, wrapping_add_r_23⟩ := rfl
  have h12 : encG rl32 k24 k25 ⟨wrapping_add_r_22, wrapping_add_r_23⟩ = ⟨wrapping_add_r_24, wrapping_add_r_25⟩ := rfl
  rw [h0, h1, h2, h3, h4, h5, h6, h7, h8, h9, h10, h11, h12]
  all_goals rfl

theorem rc5_32_12_16_gen_dec (k0 k1 k2 k3 k4 k5 k6 k7 k8 k9 k10 k11 k12 k13 k14 k15 k16 k17 k18 k19 k20 k21 k22 k23 k24 k25 : BitVec 32) (block : BitVec 64) : rc5_32_12_16_decrypt_block k0 k1 k2 k3 k4 k5 k6 k7 k8 k9 k10 k11 k12 k13 k14 k15 k16 k17 k18 k19 k20 k21 k22 k23 k24 k25 block =
    (fun y : St 32 => rc5_32_12_16_out y.a y.b) ((fun t : St 32 => ({ a := t.a - k0, b := t.b - k1 } : St 32)) (decG rr32 k2 k3 (decG rr32 k4 k5 (decG rr32 k6 k7 (decG rr32 k8 k9 (decG rr32 k10 k11 (decG rr32 k12 k13 (decG rr32 k14 k15 (decG rr32 k16 k17 (decG rr32 k18 k19 (decG rr32 k20 k21 (decG rr32 k22 k23 (decG rr32 k24 k25 (⟨rc5_32_12_16_a block, rc5_32_12_16_b block⟩)))))))))))))) := by
  unfold rc5_32_12_16_decrypt_block
  extract_lets -merge
  name_lets
  have h0 : decG rr32 k24 k25 ⟨rc5_32_12_16_a block, rc5_32_12_16_b block⟩ = ⟨bitxor_r_1, bitxor_r⟩ := rfl
  have h1 : decG rr32 k22 k23 ⟨bitxor_r_1, bitxor_r⟩ = ⟨bitxor_r_3, bitxor_r_2⟩ := rfl
  have h2 : decG rr32 k20 k21 ⟨bitxor_r_3, bitxor_r_2⟩ = ⟨bitxor_r_5, bitxor_r_4⟩ := rfl
  have h3 : decG rr32 k18 k19 ⟨bitxor_r_5, bitxor_r_4⟩ = ⟨bitxor_r_7, bitxor_r_6⟩ := rfl
  have h4 : decG rr32 k16 k17 ⟨bitxor_r_7, bitxor_r_6⟩ = ⟨bitxor_r_9, bitxor_r_8⟩ := rfl
  have h5 : decG rr32 k14 k15 ⟨bitxor_r_9, bitxor_r_8⟩ = ⟨bitxor_r_11, bitxor_r_10⟩ := rfl
  have h6 : decG rr32 k12 k13 ⟨bitxor_r_11, bitxor_r_10⟩ = ⟨bitxor_r_13, bitxor_r_12⟩ := rfl
  have h7 : decG rr32 k10 k11 ⟨bitxor_r_13, bitxor_r_12⟩ = ⟨bitxor_r_15, bitxor_r_14⟩ := rfl
  have h8 : decG rr32 k8 k9 ⟨bitxor_r_15, bitxor_r_14⟩ = ⟨bitxor_r_17, bitxor_r_16⟩ := rfl
  have h9 : decG rr32 k6 k7 ⟨bitxor_r_17, bitxor_r_16⟩ = ⟨bitxor_r_19, bitxor_r_18⟩ := rfl
  have h10 : decG rr32 k4 k5 ⟨bitxor_r_19, bitxor_r_18⟩ = ⟨bitxor_r_21, bitxor_r_20⟩ := rfl
  have h11 : decG rr32 k2 k3 ⟨bitxor_r_21, bitxor_r_20⟩ = ⟨bitxor_r_23, bitxor_r_22⟩ := rfl
  rw [h0, h1, h2, h3, h4, h5, h6, h7, h8, h9, h10, h11]
  all_goals rfl

/-- `RC5<u32, U12, U16>::encrypt_block` as regenerated from the Rust source IS the model's `encryptBlock`, for all key tables and blocks -/
theorem rc5_32_12_16_encrypt_block_eq (k0 k1 k2 k3 k4 k5 k6 k7 k8 k9 k10 k11 k12 k13 k14 k15 k16 k17 k18 k19 k20 k21 k22 k23 k24 k25 : BitVec 32) (block : BitVec 64) :
    unpackBE 8 (rc5_32_12_16_encrypt_block k0 k1 k2 k3 k4 k5 k6 k7 k8 k9 k10 k11 k12 k13 k14 k15 k16 k17 k18 k19 k20 k21 k22 k23 k24 k25 block) = encryptBlock (rc5_32_12_16_key k0 k1 k2 k3 k4 k5 k6 k7 k8 k9 k10 k11 k12 k13 k14 k15 k16 k17 k18 k19 k20 k21 k22 k23 k24 k25) 12 (unpackBE 8 block) := by
  rw [encryptBlock, rc5_32_12_16_load, rc5_32_12_16_encryptWords, rc5_32_12_16_store, rc5_32_12_16_gen_enc]

/-- `RC5<u32, U12, U16>::decrypt_block` as regenerated from the Rust source IS the model's `decryptBlock` -/
theorem rc5_32_12_16_decrypt_block_eq (k0 k1 k2 k3 k4 k5 k6 k7 k8 k9 k10 k11 k12 k13 k14 k15 k16 k17 k18 k19 k20 k21 k22 k23 k24 k25 : BitVec 32) (block : BitVec 64) :
    unpackBE 8 (rc5_32_12_16_decrypt_block k0 k1 k2 k3 k4 k5 k6 k7 k8 k9 k10 k11 k12 k13 k14 k15 k16 k17 k18 k19 k20 k21 k22 k23 k24 k25 block) = decryptBlock (rc5_32_12_16_key k0 k1 k2 k3 k4 k5 k6 k7 k8 k9 k10 k11 k12 k13 k14 k15 k16 k17 k18 k19 k20 k21 k22 k23 k24 k25) 12 (unpackBE 8 block) := by
  rw [decryptBlock, rc5_32_12_16_load, rc5_32_12_16_decryptWords, rc5_32_12_16_store, rc5_32_12_16_gen_dec]

/-- the same for an arbitrary 8-byte block given as a byte list -/
theorem rc5_32_12_16_encryptBlock_bytes (k0 k1 k2 k3 k4 k5 k6 k7 k8 k9 k10 k11 k12 k13 k14 k15 k16 k17 k18 k19 k20 k21 k22 k23 k24 k25 : BitVec 32) (bs : Bytes) (h : bs.length = 8) :
    encryptBlock (rc5_32_12_16_key k0 k1 k2 k3 k4 k5 k6 k7 k8 k9 k10 k11 k12 k13 k14 k15 k16 k17 k18 k19 k20 k21 k22 k23 k24 k25) 12 bs = unpackBE 8 (rc5_32_12_16_encrypt_block k0 k1 k2 k3 k4 k5 k6 k7 k8 k9 k10 k11 k12 k13 k14 k15 k16 k17 k18 k19 k20 k21 k22 k23 k24 k25 (packBE 8 bs)) := by
  rw [rc5_32_12_16_encrypt_block_eq, BC.GenCipher.Speck.unpackBE_packBE _ _ h]
theorem rc5_32_12_16_decryptBlock_bytes (k0 k1 k2 k3 k4 k5 k6 k7 k8 k9 k10 k11 k12 k13 k14 k15 k16 k17 k18 k19 k20 k21 k22 k23 k24 k25 : BitVec 32) (bs : Bytes) (h : bs.length = 8) :
    decryptBlock (rc5_32_12_16_key k0 k1 k2 k3 k4 k5 k6 k7 k8 k9 k10 k11 k12 k13 k14 k15 k16 k17 k18 k19 k20 k21 k22 k23 k24 k25) 12 bs = unpackBE 8 (rc5_32_12_16_decrypt_block k0 k1 k2 k3 k4 k5 k6 k7 k8 k9 k10 k11 k12 k13 k14 k15 k16 k17 k18 k19 k20 k21 k22 k23 k24 k25 (packBE 8 bs)) := by
  rw [rc5_32_12_16_decrypt_block_eq, BC.GenCipher.Speck.unpackBE_packBE _ _ h]

/-! ### rc5_16_16_8: `RC5<u16, U16, U8>`, 4-byte block, 16 rounds, 34 key-table words -/

def rc5_16_16_8_key (k0 k1 k2 k3 k4 k5 k6 k7 k8 k9 k10 k11 k12 k13 k14 k15 k16 k17 k18 k19 k20 k21 k22 k23 k24 k25 k26 k27 k28 k29 k30 k31 k32 k33 : BitVec 16) : Array (BitVec 16) := #[k0, k1, k2, k3, k4, k5, k6, k7, k8, k9, k10, k11, k12, k13, k14, k15, k16, k17, k18, k19, k20, k21, k22, k23, k24, k25, k26, k27, k28, k29, k30, k31, k32, k33]
/-- the generated `a`, `b` (block bytes → words, little-endian) and output expression -/
def rc5_16_16_8_a (block : BitVec 32) : BitVec 16 := ((block.extractLsb' 16 8) ++ (block.extractLsb' 24 8))
def rc5_16_16_8_b (block : BitVec 32) : BitVec 16 := ((block.extractLsb' 0 8) ++ (block.extractLsb' 8 8))
def rc5_16_16_8_out (a b : BitVec 16) : BitVec 32 := (a.extractLsb' 0 8) ++ (a.extractLsb' 8 8) ++ (b.extractLsb' 0 8) ++ (b.extractLsb' 8 8)

theorem rc5_16_16_8_load (block : BitVec 32) :
    wordsFromBlock 16 (unpackBE 4 block) = ⟨rc5_16_16_8_a block, rc5_16_16_8_b block⟩ := by
  have h : wordsFromBlock 16 (unpackBE 4 block) = ⟨fromLE 16 [(block >>> 24).setWidth 8, (block >>> 16).setWidth 8], fromLE 16 [(block >>> 8).setWidth 8, (block >>> 0).setWidth 8]⟩ := rfl
  rw [h]
  simp only [fromLE_fold, List.foldr_cons, List.foldr_nil, rc5_16_16_8_a, rc5_16_16_8_b, St.mk.injEq]
  constructor <;> bv_decide (config := { timeout := 300 })

theorem rc5_16_16_8_store (s : St 16) : blockFromWords s = unpackBE 4 (rc5_16_16_8_out s.a s.b) := by
  have h2 : blockFromWords s = [(s.a >>> 0).setWidth 8, (s.a >>> 8).setWidth 8, (s.b >>> 0).setWidth 8, (s.b >>> 8).setWidth 8] := by
    rw [blockFromWords, toLE_eq, toLE_eq]; rfl
  have h3 : ∀ o : BitVec 32, unpackBE 4 o = [(o >>> 24).setWidth 8, (o >>> 16).setWidth 8, (o >>> 8).setWidth 8, (o >>> 0).setWidth 8] := fun _ => rfl
  rw [h2, h3]
  simp only [rc5_16_16_8_out, List.cons.injEq, and_true]
  bv_decide (config := { timeout := 300 })

theorem rc5_16_16_8_encRound_1 (k0 k1 k2 k3 k4 k5 k6 k7 k8 k9 k10 k11 k12 k13 k14 k15 k16 k17 k18 k19 k20 k21 k22 k23 k24 k25 k26 k27 k28 k29 k30 k31 k32 k33 : BitVec 16) (s : St 16) : encRound (rc5_16_16_8_key k0 k1 k2 k3 k4 k5 k6 k7 k8 k9 k10 k11 k12 k13 k14 k15 k16 k17 k18 k19 k20 k21 k22 k23 k24 k25 k26 k27 k28 k29 k30 k31 k32 k33) 1 s = encG rl16 k2 k3 s := by
  simp only [encRound, encG, rotlW_16]; rfl
theorem rc5_16_16_8_decRound_1 (k0 k1 k2 k3 k4 k5 k6 k7 k8 k9 k10 k11 k12 k13 k14 k15 k16 k17 k18 k19 k20 k21 k22 k23 k24 k25 k26 k27 k28 k29 k30 k31 k32 k33 : BitVec 16) (s : St 16) : decRound (rc5_16_16_8_key k0 k1 k2 k3 k4 k5 k6 k7 k8 k9 k10 k11 k12 k13 k14 k15 k16 k17 k18 k19 k20 k21 k22 k23 k24 k25 k26 k27 k28 k29 k30 k31 k32 k33) 1 s = decG rr16 k2 k3 s := by
  simp only [decRound, decG, rotrW_16]; rfl
theorem rc5_16_16_8_encRound_2 (k0 k1 k2 k3 k4 k5 k6 k7 k8 k9 k10 k11 k12 k13 k14 k15 k16 k17 k18 k19 k20 k21 k22 k23 k24 k25 k26 k27 k28 k29 k30 k31 k32 k33 : BitVec 16) (s : St 16) : encRound (rc5_16_16_8_key k0 k1 k2 k3 k4 k5 k6 k7 k8 k9 k10 k11 k12 k13 k14 k15 k16 k17 k18 k19 k20 k21 k22 k23 k24 k25 k26 k27 k28 k29 k30 k31 k32 k33) 2 s = encG rl16 k4 k5 s := by
  simp only [encRound, encG, rotlW_16]; rfl
theorem rc5_16_16_8_decRound_2 (k0 k1 k2 k3 k4 k5 k6 k7 k8 k9 k10 k11 k12 k13 k14 k15 k16 k17 k18 k19 k20 k21 k22 k23 k24 k25 k26 k27 k28 k29 k30 k31 k32 k33 : BitVec 16) (s : St 16) : decRound (rc5_16_16_8_key k0 k1 k2 k3 k4 k5 k6 k7 k8 k9 k10 k11 k12 k13 k14 k15 k16 k17 k18 k19 k20 k21 k22 k23 k24 k25 k26 k27 k28 k29 k30 k31 k32 k33) 2 s = decG rr16 k4 k5 s := by
  simp only [decRound, decG, rotrW_16]; rfl
theorem rc5_16_16_8_encRound_3 (k0 k1 k2 k3 k4 k5 k6 k7 k8 k9 k10 k11 k12 k13 k14 k15 k16 k17 k18 k19 k20 k21 k22 k23 k24 k25 k26 k27 k28 k29 k30 k31 k32 k33 : BitVec 16) (s : St 16) : encRound (rc5_16_16_8_key k0 k1 k2 k3 k4 k5 k6 k7 k8 k9 k10 k11 k12 k13 k14 k15 k16 k17 k18 k19 k20 k21 k22 k23 k24 k25 k26 k27 k28 k29 k30 k31 k32 k33) 3 s = encG rl16 k6 k7 s := by
  simp only [encRound, encG, rotlW_16]; rfl
theorem rc5_16_16_8_decRound_3 (k0 k1 k2 k3 k4 k5 k6 k7 k8 k9 k10 k11 k12 k13 k14 k15 k16 k17 k18 k19 k20 k21 k22 k23 k24 k25 k26 k27 k28 k29 k30 k31 k32 k33 : BitVec 16) (s : St 16) : decRound (rc5_16_16_8_key k0 k1 k2 k3 k4 k5 k6 k7 k8 k9 k10 k11 k12 k13 k14 k15 k16 k17 k18 k19 k20 k21 k22 k23 k24 k25 k26 k27 k28 k29 k30 k31 k32 k33) 3 s = decG rr16 k6 k7 s := by
  simp only [decRound, decG, rotrW_16]; rfl
theorem rc5_16_16_8_encRound_4 (k0 k1 k2 k3 k4 k5 k6 k7 k8 k9 k10 k11 k12 k13 k14 k15 k16 k17 k18 k19 k20 k21 k22 k23 k24 k25 k26 k27 k28 k29 k30 k31 k32 k33 : BitVec 16) (s : St 16) : encRound (rc5_16_16_8_key k0 k1 k2 k3 k4 k5 k6 k7 k8 k9 k10 k11 k12 k13 k14 k15 k16 k17 k18 k19 k20 k21 k22 k23 k24 k25 k26 k27 k28 k29 k30 k31 k32 k33) 4 s = encG rl16 k8 k9 s := by
  simp only [encRound, encG, rotlW_16]; rfl
theorem rc5_16_16_8_decRound_4 (k0 k1 k2 k3 k4 k5 k6 k7 k8 k9 k10 k11 k12 k13 k14 k15 k16 k17 k18 k19 k20 k21 k22 k23 k24 k25 k26 k27 k28 k29 k30 k31 k32 k33 : BitVec 16) (s : St 16) : decRound (rc5_16_16_8_key k0 k1 k2 k3 k4 k5 k6 k7 k8 k9 k10 k11 k12 k13 k14 k15 k16 k17 k18 k19 k20 k21 k22 k23 k24 k25 k26 k27 k28 k29 k30 k31 k32 k33) 4 s = decG rr16 k8 k9 s := by
  simp only [decRound, decG, rotrW_16]; rfl
theorem rc5_16_16_8_encRound_5 (k0 k1 k2 k3 k4 k5 k6 k7 k8 k9 k10 k11 k12 k13 k14 k15 k16 k17 k18 k19 k20 k21 k22 k23 k24 k25 k26 k27 k28 k29 k30 k31 k32 k33 : BitVec 16) (s : St 16) : encRound (rc5_16_16_8_key k0 k1 k2 k3 k4 k5 k6 k7 k8 k9 k10 k11 k12 k13 k14 k15 k16 k17 k18 k19 k20 k21 k22 k23 k24 k25 k26 k27 k28 k29 k30 k31 k32 k33) 5 s = encG rl16 k10 k11 s := by
  simp only [encRound, encG, rotlW_16]; rfl
theorem rc5_16_16_8_decRound_5 (k0 k1 k2 k3 k4 k5 k6 k7 k8 k9 k10 k11 k12 k13 k14 k15 k16 k17 k18 k19 k20 k21 k22 k23 k24 k25 k26 k27 k28 k29 k30 k31 k32 k33 : BitVec 16) (s : St 16) : decRound (rc5_16_16_8_key k0 k1 k2 k3 k4 k5 k6 k7 k8 k9 k10 k11 k12 k13 k14 k15 k16 k17 k18 k19 k20 k21 k22 k23 k24 k25 k26 k27 k28 k29 k30 k31 k32 k33) 5 s = decG rr16 k10 k11 s := by
  simp only [decRound, decG, rotrW_16]; rfl
theorem rc5_16_16_8_encRound_6 (k0 k1 k2 k3 k4 k5 k6 k7 k8 k9 k10 k11 k12 k13 k14 k15 k16 k17 k18 k19 k20 k21 k22 k23 k24 k25 k26 k27 k28 k29 k30 k31 k32 k33 : BitVec 16) (s : St 16) : encRound (rc5_16_16_8_key k0 k1 k2 k3 k4 k5 k6 k7 k8 k9 k10 k11 k12 k13 k14 k15 k16 k17 k18 k19 k20 k21 k22 k23 k24 k25 k26 k27 k28 k29 k30 k31 k32 k33) 6 s = encG rl16 k12 k13 s := by
  simp only [encRound, encG, rotlW_16]; rfl
theorem rc5_16_16_8_decRound_6 (k0 k1 k2 k3 k4 k5 k6 k7 k8 k9 k10 k11 k12 k13 k14 k15 k16 k17 k18 k19 k20 k21 k22 k23 k24 k25 k26 k27 k28 k29 k30 k31 k32 k33 : BitVec 16) (s : St 16) : decRound (rc5_16_16_8_key k0 k1 k2 k3 k4 k5 k6 k7 k8 k9 k10 k11 k12 k13 k14 k15 k16 k17 k18 k19 k20 k21 k22 k23 k24 k25 k26 k27 k28 k29 k30 k31 k32 k33) 6 s = decG rr16 k12 k13 s := by
  simp only [decRound, decG, rotrW_16]; rfl
theorem rc5_16_16_8_encRound_7 (k0 k1 k2 k3 k4 k5 k6 k7 k8 k9 k10 k11 k12 k13 k14 k15 k16 k17 k18 k19 k20 k21 k22 k23 k24 k25 k26 k27 k28 k29 k30 k31 k32 k33 : BitVec 16) (s : St 16) : encRound (rc5_16_16_8_key k0 k1 k2 k3 k4 k5 k6 k7 k8 k9 k10 k11 k12 k13 k14 k15 k16 k17 k18 k19 k20 k21 k22 k23 k24 k25 k26 k27 k28 k29 k30 k31 k32 k33) 7 s = encG rl16 k14 k15 s := by
  simp only [encRound, encG, rotlW_16]; rfl
theorem rc5_16_16_8_decRound_7 (k0 k1 k2 k3 k4 k5 k6 k7 k8 k9 k10 k11 k12 k13 k14 k15 k16 k17 k18 k19 k20 k21 k22 k23 k24 k25 k26 k27 k28 k29 k30 k31 k32 k33 : BitVec 16) (s : St 16) : decRound (rc5_16_16_8_key k0 k1 k2 k3 k4 k5 k6 k7 k8 k9 k10 k11 k12 k13 k14 k15 k16 k17 k18 k19 k20 k21 k22 k23 k24 k25 k26 k27 k28 k29 k30 k31 k32 k33) 7 s = decG rr16 k14 k15 s := by
  simp only [decRound, decG, rotrW_16]; rfl
theorem rc5_16_16_8_encRound_8 (k0 k1 k2 k3 k4 k5 k6 k7 k8 k9 k10 k11 k12 k13 k14 k15 k16 k17 k18 k19 k20 k21 k22 k23 k24 k25 k26 k27 k28 k29 k30 k31 k32 k33 : BitVec 16) (s : St 16) : encRound (rc5_16_16_8_key k0 k1 k2 k3 k4 k5 k6 k7 k8 k9 k10 k11 k12 k13 k14 k15 k16 k17 k18 k19 k20 k21 k22 k23 k24 k25 k26 k27 k28 k29 k30 k31 k32 k33) 8 s = encG rl16 k16 k17 s := by
  simp only [encRound, encG, rotlW_16]; rfl
theorem rc5_16_16_8_decRound_8 (k0 k1 k2 k3 k4 k5 k6 k7 k8 k9 k10 k11 k12 k13 k14 k15 k16 k17 k18 k19 k20 k21 k22 k23 k24 k25 k26 k27 k28 k29 k30 k31 k32 k33 : BitVec 16) (s : St 16) : decRound (rc5_16_16_8_key k0 k1 k2 k3 k4 k5 k6 k7 k8 k9 k10 k11 k12 k13 k14 k15 k16 k17 k18 k19 k20 k21 k22 k23 k24 k25 k26 k27 k28 k29 k30 k31 k32 k33) 8 s = decG rr16 k16 k17 s := by
  simp only [decRound, decG, rotrW_16]; rfl
theorem rc5_16_16_8_encRound_9 (k0 k1 k2 k3 k4 k5 k6 k7 k8 k9 k10 k11 k12 k13 k14 k15 k16 k17 k18 k19 k20 k21 k22 k23 k24 k25 k26 k27 k28 k29 k30 k31 k32 k33 : BitVec 16) (s : St 16) : encRound (rc5_16_16_8_key k0 k1 k2 k3 k4 k5 k6 k7 k8 k9 k10 k11 k12 k13 k14 k15 k16 k17 k18 k19 k20 k21 k22 k23 k24 k25 k26 k27 k28 k29 k30 k31 k32 k33) 9 s = encG rl16 k18 k19 s := by
  simp only [encRound, encG, rotlW_16]; rfl
theorem rc5_16_16_8_decRound_9 (k0 k1 k2 k3 k4 k5 k6 k7 k8 k9 k10 k11 k12 k13 k14 k15 k16 k17 k18 k19 k20 k21 k22 k23 k24 k25 k26 k27 k28 k29 k30 k31 k32 k33 : BitVec 16) (s : St 16) : decRound (rc5_16_16_8_key k0 k1 k2 k3 k4 k5 k6 k7 k8 k9 k10 k11 k12 k13 k14 k15 k16 k17 k18 k19 k20 k21 k22 k23 k24 k25 k26 k27 k28 k29 k30 k31 k32 k33) 9 s = decG rr16 k18 k19 s := by
  simp only [decRound, decG, rotrW_16]; rfl
theorem rc5_16_16_8_encRound_10 (k0 k1 k2 k3 k4 k5 k6 k7 k8 k9 k10 k11 k12 k13 k14 k15 k16 k17 k18 k19 k20 k21 k22 k23 k24 k25 k26 k27 k28 k29 k30 k31 k32 k33 : BitVec 16) (s : St 16) : encRound (rc5_16_16_8_key k0 k1 k2 k3 k4 k5 k6 k7 k8 k9 k10 k11 k12 k13 k14 k15 k16 k17 k18 k19 k20 k21 k22 k23 k24 k25 k26 k27 k28 k29 k30 k31 k32 k33) 10 s = encG rl16 k20 k21 s := by
  simp only [encRound, encG, rotlW_16]; rfl
theorem rc5_16_16_8_decRound_10 (k0 k1 k2 k3 k4 k5 k6 k7 k8 k9 k10 k11 k12 k13 k14 k15 k16 k17 k18 k19 k20 k21 k22 k23 k24 k25 k26 k27 k28 k29 k30 k31 k32 k33 : BitVec 16) (s : St 16) : decRound (rc5_16_16_8_key k0 k1 k2 k3 k4 k5 k6 k7 k8 k9 k10 k11 k12 k13 k14 k15 k16 k17 k18 k19 k20 k21 k22 k23 k24 k25 k26 k27 k28 k29 k30 k31 k32 k33) 10 s = decG rr16 k20 k21 s := by
  simp only [decRound, decG, rotrW_16]; rfl
theorem rc5_16_16_8_encRound_11 (k0 k1 k2 k3 k4 k5 k6 k7 k8 k9 k10 k11 k12 k13 k14 k15 k16 k17 k18 k19 k20 k21 k22 k23 k24 k25 k26 k27 k28 k29 k30 k31 k32 k33 : BitVec 16) (s : St 16) : encRound (rc5_16_16_8_key k0 k1 k2 k3 k4 k5 k6 k7 k8 k9 k10 k11 k12 k13 k14 k15 k16 k17 k18 k19 k20 k21 k22 k23 k24 k25 k26 k27 k28 k29 k30 k31 k32 k33) 11 s = encG rl16 k22 k23 s := by
  simp only [encRound, encG, rotlW_16]; rfl
theorem rc5_16_16_8_decRound_11 (k0 k1 k2 k3 k4 k5 k6 k7 k8 k9 k10 k11 k12 k13 k14 k15 k16 k17 k18 k19 k20 k21 k22 k23 k24 k25 k26 k27 k28 k29 k30 k31 k32 k33 : BitVec 16) (s : St 16) : decRound (rc5_16_16_8_key k0 k1 k2 k3 k4 k5 k6 k7 k8 k9 k10 k11 k12 k13 k14 k15 k16 k17 k18 k19 k20 k21 k22 k23 k24 k25 k26 k27 k28 k29 k30 k31 k32 k33) 11 s = decG rr16 k22 k23 s := by
  simp only [decRound, decG, rotrW_16]; rfl
theorem rc5_16_16_8_encRound_12 (k0 k1 k2 k3 k4 k5 k6 k7 k8 k9 k10 k11 k12 k13 k14 k15 k16 k17 k18 k19 k20 k21 k22 k23 k24 k25 k26 k27 k28 k29 k30 k31 k32 k33 : BitVec 16) (s : St 16) : encRound (rc5_16_16_8_key k0 k1 k2 k3 k4 k5 k6 k7 k8 k9 k10 k11 k12 k13 k14 k15 k16 k17 k18 k19 k20 k21 k22 k23 k24 k25 k26 k27 k28 k29 k30 k31 k32 k33) 12 s = encG rl16 k24 k25 s := by
  simp only [encRound, encG, rotlW_16]; rfl
theorem rc5_16_16_8_decRound_12 (k0 k1 k2 k3 k4 k5 k6 k7 k8 k9 k10 k11 k12 k13 k14 k15 k16 k17 k18 k19 k20 k21 k22 k23 k24 k25 k26 k27 k28 k29 k30 k31 k32 k33 : BitVec 16) (s : St 16) : decRound (rc5_16_16_8_key k0 k1 k2 k3 k4 k5 k6 k7 k8 k9 k10 k11 k12 k13 k14 k15 k16 k17 k18 k19 k20 k21 k22 k23 k24 k25 k26 k27 k28 k29 k30 k31 k32 k33) 12 s = decG rr16 k24 k25 s := by
  simp only [decRound, decG, rotrW_16]; rfl
theorem rc5_16_16_8_encRound_13 (k0 k1 k2 k3 k4 k5 k6 k7 k8 k9 k10 k11 k12 k13 k14 k15 k16 k17 k18 k19 k20 k21 k22 k23 k24 k25 k26 k27 k28 k29 k30 k31 k32 k33 : BitVec 16) (s : St 16) : encRound (rc5_16_16_8_key k0 k1 k2 k3 k4 k5 k6 k7 k8 k9 k10 k11 k12 k13 k14 k15 k16 k17 k18 k19 k20 k21 k22 k23 k24 k25 k26 k27 k28 k29 k30 k31 k32 k33) 13 s = encG rl16 k26 k27 s := by
  simp only [encRound, encG, rotlW_16]; rfl
theorem rc5_16_16_8_decRound_13 (k0 k1 k2 k3 k4 k5 k6 k7 k8 k9 k10 k11 k12 k13 k14 k15 k16 k17 k18 k19 k20 k21 k22 k23 k24 k25 k26 k27 k28 k29 k30 k31 k32 k33 : BitVec 16) (s : St 16) : decRound (rc5_16_16_8_key k0 k1 k2 k3 k4 k5 k6 k7 k8 k9 k10 k11 k12 k13 k14 k15 k16 k17 k18 k19 k20 k21 k22 k23 k24 k25 k26 k27 k28 k29 k30 k31 k32 k33) 13 s = decG rr16 k26 k27 s := by
  simp only [decRound, decG, rotrW_16]; rfl
theorem rc5_16_16_8_encRound_14 (k0 k1 k2 k3 k4 k5 k6 k7 k8 k9 k10 k11 k12 k13 k14 k15 k16 k17 k18 k19 k20 k21 k22 k23 k24 k25 k26 k27 k28 k29 k30 k31 k32 k33 : BitVec 16) (s : St 16) : encRound (rc5_16_16_8_key k0 k1 k2 k3 k4 k5 k6 k7 k8 k9 k10 k11 k12 k13 k14 k15 k16 k17 k18 k19 k20 k21 k22 k23 k24 k25 k26 k27 k28 k29 k30 k31 k32 k33) 14 s = encG rl16 k28 k29 s := by
  simp only [encRound, encG, rotlW_16]; rfl
theorem rc5_16_16_8_decRound_14 (k0 k1 k2 k3 k4 k5 k6 k7 k8 k9 k10 k11 k12 k13 k14 k15 k16 k17 k18 k19 k20 k21 k22 k23 k24 k25 k26 k27 k28 k29 k30 k31 k32 k33 : BitVec 16) (s : St 16) : decRound (rc5_16_16_8_key k0 k1 k2 k3 k4 k5 k6 k7 k8 k9 k10 k11 k12 k13 k14 k15 k16 k17 k18 k19 k20 k21 k22 k23 k24 k25 k26 k27 k28 k29 k30 k31 k32 k33) 14 s = decG rr16 k28 k29 s := by
  simp only [decRound, decG, rotrW_16]; rfl
theorem rc5_16_16_8_encRound_15 (k0 k1 k2 k3 k4 k5 k6 k7 k8 k9 k10 k11 k12 k13 k14 k15 k16 k17 k18 k19 k20 k21 k22 k23 k24 k25 k26 k27 k28 k29 k30 k31 k32 k33 : BitVec 16) (s : St 16) : encRound (rc5_16_16_8_key k0 k1 k2 k3 k4 k5 k6 k7 k8 k9 k10 k11 k12 k13 k14 k15 k16 k17 k18 k19 k20 k21 k22 k23 k24 k25 k26 k27 k28 k29 k30 k31 k32 k33) 15 s = encG rl16 k30 k31 s := by
  simp only [encRound, encG, rotlW_16]; rfl
theorem rc5_16_16_8_decRound_15 (k0 k1 k2 k3 k4 k5 k6 k7 k8 k9 k10 k11 k12 k13 k14 k15 k16 k17 k18 k19 k20 k21 k22 k23 k24 k25 k26 k27 k28 k29 k30 k31 k32 k33 : BitVec 16) (s : St 16) : decRound (rc5_16_16_8_key k0 k1 k2 k3 k4 k5 k6 k7 k8 k9 k10 k11 k12 k13 k14 k15 k16 k17 k18 k19 k20 k21 k22 k23 k24 k25 k26 k27 k28 k29 k30 k31 k32 k33) 15 s = decG rr16 k30 k31 s := by
  simp only [decRound, decG, rotrW_16]; rfl
theorem rc5_16_16_8_encRound_16 (k0 k1 k2 k3 k4 k5 k6 k7 k8 k9 k10 k11 k12 k13 k14 k15 k16 k17 k18 k19 k20 k21 k22 k23 k24 k25 k26 k27 k28 k29 k30 k31 k32 k33 : BitVec 16) (s : St 16) : encRound (rc5_16_16_8_key k0 k1 k2 k3 k4 k5 k6 k7 k8 k9 k10 k11 k12 k13 k14 k15 k16 k17 k18 k19 k20 k21 k22 k23 k24 k25 k26 k27 k28 k29 k30 k31 k32 k33) 16 s = encG rl16 k32 k33 s := by
  simp only [encRound, encG, rotlW_16]; rfl
theorem rc5_16_16_8_decRound_16 (k0 k1 k2 k3 k4 k5 k6 k7 k8 k9 k10 k11 k12 k13 k14 k15 k16 k17 k18 k19 k20 k21 k22 k23 k24 k25 k26 k27 k28 k29 k30 k31 k32 k33 : BitVec 16) (s : St 16) : decRound (rc5_16_16_8_key k0 k1 k2 k3 k4 k5 k6 k7 k8 k9 k10 k11 k12 k13 k14 k15 k16 k17 k18 k19 k20 k21 k22 k23 k24 k25 k26 k27 k28 k29 k30 k31 k32 k33) 16 s = decG rr16 k32 k33 s := by
  simp only [decRound, decG, rotrW_16]; rfl

theorem rc5_16_16_8_encLoop (key : Array (BitVec 16)) (s : St 16) : encLoop key 16 s = encRound key 16 (encRound key 15 (encRound key 14 (encRound key 13 (encRound key 12 (encRound key 11 (encRound key 10 (encRound key 9 (encRound key 8 (encRound key 7 (encRound key 6 (encRound key 5 (encRound key 4 (encRound key 3 (encRound key 2 (encRound key 1 (s)))))))))))))))) := rfl
theorem rc5_16_16_8_decLoop (key : Array (BitVec 16)) (s : St 16) : decLoop key 16 s = decRound key 1 (decRound key 2 (decRound key 3 (decRound key 4 (decRound key 5 (decRound key 6 (decRound key 7 (decRound key 8 (decRound key 9 (decRound key 10 (decRound key 11 (decRound key 12 (decRound key 13 (decRound key 14 (decRound key 15 (decRound key 16 (s)))))))))))))))) := rfl

theorem rc5_16_16_8_encryptWords (k0 k1 k2 k3 k4 k5 k6 k7 k8 k9 k10 k11 k12 k13 k14 k15 k16 k17 k18 k19 k20 k21 k22 k23 k24 k25 k26 k27 k28 k29 k30 k31 k32 k33 : BitVec 16) (a b : BitVec 16) : encryptWords (rc5_16_16_8_key k0 k1 k2 k3 k4 k5 k6 k7 k8 k9 k10 k11 k12 k13 k14 k15 k16 k17 k18 k19 k20 k21 k22 k23 k24 k25 k26 k27 k28 k29 k30 k31 k32 k33) 16 ⟨a, b⟩ =
    encG rl16 k32 k33 (encG rl16 k30 k31 (encG rl16 k28 k29 (encG rl16 k26 k27 (encG rl16 k24 k25 (encG rl16 k22 k23 (encG rl16 k20 k21 (encG rl16 k18 k19 (encG rl16 k16 k17 (encG rl16 k14 k15 (encG rl16 k12 k13 (encG rl16 k10 k11 (encG rl16 k8 k9 (encG rl16 k6 k7 (encG rl16 k4 k5 (encG rl16 k2 k3 (⟨a + k0, b + k1⟩)))))))))))))))) := by
  simp only [encryptWords, rc5_16_16_8_encLoop, rc5_16_16_8_encRound_1, rc5_16_16_8_encRound_2, rc5_16_16_8_encRound_3, rc5_16_16_8_encRound_4, rc5_16_16_8_encRound_5, rc5_16_16_8_encRound_6, rc5_16_16_8_encRound_7, rc5_16_16_8_encRound_8, rc5_16_16_8_encRound_9, rc5_16_16_8_encRound_10, rc5_16_16_8_encRound_11, rc5_16_16_8_encRound_12, rc5_16_16_8_encRound_13, rc5_16_16_8_encRound_14, rc5_16_16_8_encRound_15, rc5_16_16_8_encRound_16]
  rfl

theorem rc5_16_16_8_decryptWords (k0 k1 k2 k3 k4 k5 k6 k7 k8 k9 k10 k11 k12 k13 k14 k15 k16 k17 k18 k19 k20 k21 k22 k23 k24 k25 k26 k27 k28 k29 k30 k31 k32 k33 : BitVec 16) (a b : BitVec 16) : decryptWords (rc5_16_16_8_key k0 k1 k2 k3 k4 k5 k6 k7 k8 k9 k10 k11 k12 k13 k14 k15 k16 k17 k18 k19 k20 k21 k22 k23 k24 k25 k26 k27 k28 k29 k30 k31 k32 k33) 16 ⟨a, b⟩ =
    (fun t : St 16 => ({ a := t.a - k0, b := t.b - k1 } : St 16)) (decG rr16 k2 k3 (decG rr16 k4 k5 (decG rr16 k6 k7 (decG rr16 k8 k9 (decG rr16 k10 k11 (decG rr16 k12 k13 (decG rr16 k14 k15 (decG rr16 k16 k17 (decG rr16 k18 k19 (decG rr16 k20 k21 (decG rr16 k22 k23 (decG rr16 k24 k25 (decG rr16 k26 k27 (decG rr16 k28 k29 (decG rr16 k30 k31 (decG rr16 k32 k33 (⟨a, b⟩))))))))))))))))) := by
  simp only [decryptWords, rc5_16_16_8_decLoop, rc5_16_16_8_decRound_1, rc5_16_16_8_decRound_2, rc5_16_16_8_decRound_3, rc5_16_16_8_decRound_4, rc5_16_16_8_decRound_5, rc5_16_16_8_decRound_6, rc5_16_16_8_decRound_7, rc5_16_16_8_decRound_8, rc5_16_16_8_decRound_9, rc5_16_16_8_decRound_10, rc5_16_16_8_decRound_11, rc5_16_16_8_decRound_12, rc5_16_16_8_decRound_13, rc5_16_16_8_decRound_14, rc5_16_16_8_decRound_15, rc5_16_16_8_decRound_16]
  rfl

theorem rc5_16_16_8_gen_enc (k0 k1 k2 k3 k4 k5 k6 k7 k8 k9 k10 k11 k12 k13 k14 k15 k16 k17 k18 k19 k20 k21 k22 k23 k24 k25 k26 k27 k28 k29 k30 k31 k32 k33 : BitVec 16) (block : BitVec 32) : rc5_16_16_8_encrypt_block k0 k1 k2 k3 k4 k5 k6 k7 k8 k9 k10 k11 k12 k13 k14 k15 k16 k17 k18 k19 k20 k21 k22 k23 k24 k25 k26 k27 k28 k29 k30 k31 k32 k33 block =
    (fun y : St 16 => rc5_16_16_8_out y.a y.b) (encG rl16 k32 k33 (encG rl16 k30 k31 (encG rl16 k28 k29 (encG rl16 k26 k27 (encG rl16 k24 k25 (encG rl16 k22 k23 (encG rl16 k20 k21 (encG rl16 k18 k19 (encG rl16 k16 k17 (encG rl16 k14 k15 (encG rl16 k12 k13 (encG rl16 k10 k11 (encG rl16 k8 k9 (encG rl16 k6 k7 (encG rl16 k4 k5 (encG rl16 k2 k3 (⟨rc5_16_16_8_a block + k0, rc5_16_16_8_b block + k1⟩))))))))))))))))) := by
  unfold rc5_16_16_8_encrypt_block
  extract_lets -merge
  name_lets
  have h0 : ({ a := rc5_16_16_8_a block + k0, b := rc5_16_16_8_b block + k1 } : St 16) = ⟨wrapping_add_r, wrapping_add_r_1⟩ := rfl
  have h1 : encG rl16 k2 k3 ⟨wrapping_add_r, wrapping_add_r_1⟩ = ⟨wrapping_add_r_2, wrapping_add_r_3⟩ := rfl
  have h2 : encG rl16 k4 k5 ⟨wrapping_add_r_2, wrapping_add_r_3⟩ = ⟨wrapping_add_r_4, wrapping_add_r_5⟩ := rfl
  have h3 : encG rl16 k6 k7 ⟨wrapping_add_r_4, wrapping_add_r_5⟩ = ⟨wrapping_add_r_6, wrapping_add_r_7⟩ := rfl
  have h4 : encG rl16 k8 k9 ⟨wrapping_add_r_6, wrapping_add_r_7⟩ = ⟨wrapping_add_r_8, wrapping_add_r_9⟩ := rfl
  have h5 : encG rl16 k10 k11 ⟨wrapping_add_r_8, wrapping_add_r_9⟩ = ⟨wrapping_add_r_10, wrapping_add_r_11⟩ := rfl
  have h6 : encG rl16 k12 k13 ⟨wrapping_add_r_10, wrapping_add_r_11⟩ = ⟨wrapping_add_r_12, wrapping_add_r_13⟩ := rfl
  have h7 : encG rl16 k14 k15 ⟨wrapping_add_r_12, wrapping_add_r_13⟩ = ⟨wrapping_add_r_14, wrapping_add_r_15⟩ := rfl
  have h8 : encG rl16 k16 k17 ⟨wrapping_add_r_14, wrapping_add_r_15⟩ = ⟨wrapping_add_r_16, wrapping_add_r_17⟩ := rfl
  have h9 : encG rl16 k18 k19 ⟨wrapping_add_r_16, wrapping_add_r_17⟩ = ⟨wrapping_add_r_18, wrapping_add_r_19⟩ := rfl
  have h10 : encG rl16 k20 k21 ⟨wrapping_add_r_18, wrapping_add_r_19⟩ = ⟨wrapping_add_r_20, wrapping_add_r_21⟩ := rfl
  have h11 : encG rl16 k22 k23 ⟨wrapping_add_r_20, wrapping_add_r_21⟩ = ⟨wrapping_add_r_22, wrapping_add_r_23⟩ := rfl
  have h12 : encG rl16 k24 k25 ⟨wrapping_add_r_22, wrapping_add_r_23⟩ = ⟨wrapping_add_r_24, wrapping_add_r_25⟩ := rfl
  have h13 : encG rl16 k26 k27 ⟨wrapping_add_r_24, wrapping_add_r_25⟩ = ⟨wrapping_add_r_26, wrapping_add_r_27⟩ := rfl
  have h14 : encG rl16 k28 k29 ⟨wrapping_add_r_26, wrapping_add_r_27⟩ = ⟨wrapping_add_r_28, wrapping_add_r_29⟩ := rfl
  have h15 : encG rl16 k30 k31 ⟨wrapping_add_r_28, wrapping_add_r_29⟩ = ⟨wrapping_add_r_30, wrapping_add_r_31⟩ := rfl
  have h16 : encG rl16 k32 k33 ⟨wrapping_add_r_30, wrapping_add_r_31⟩ = ⟨wrapping_add_r_32, wrapping_add_r_33⟩ := rfl
  rw [h0, h1, h2, h3, h4, h5, h6, h7, h8, h9, h10, h11, h12, h13, h14, h15, h16]
  all_goals rfl

theorem rc5_16_16_8_gen_dec (k0 k1 k2 k3 k4 k5 k6 k7 k8 k9 k10 k11 k12 k13 k14 k15 k16 k17 k18 k19 k20 k21 k22 k23 k24 k25 k26 k27 k28 k29 k30 k31 k32 k33 : BitVec 16) (block : BitVec 32) : rc5_16_16_8_decrypt_block k0 k1 k2 k3 k4 k5 k6 k7 k8 k9 k10 k11 k12 k13 k14 k15 k16 k17 k18 k19 k20 k21 k22 k23 k24 k25 k26 k27 k28 k29 k30 k31 k32 k33 block =
    (fun y : St 16 => rc5_16_16_8_out y.a y.b) ((fun t : St 16 => ({ a := t.a - k0, b := t.b - k1 } : St 16)) (decG rr16 k2 k3 (decG rr16 k4 k5 (decG rr16 k6 k7 (decG rr16 k8 k9 (decG rr16 k10 k11 (decG rr16 k12 k13 (decG rr16 k14 k15 (decG rr16 k16 k17 (decG rr16 k18 k19 (decG rr16 k20 k21 (decG rr16 k22 k23 (decG rr16 k24 k25 (decG rr16 k26 k27 (decG rr16 k28 k29 (decG rr16 k30 k31 (decG rr16 k32 k33 (⟨rc5_16_16_8_a block, rc5_16_16_8_b block⟩)))))))))))))))))) := by
  unfold rc5_16_16_8_decrypt_block
  extract_lets -merge
  name_lets
  have h0 : decG rr16 k32 k33 ⟨rc5_16_16_8_a block, rc5_16_16_8_b block⟩ = ⟨bitxor_r_1, bitxor_r⟩ := rfl
  have h1 : decG rr16 k30 k31 ⟨bitxor_r_1, bitxor_r⟩ = ⟨bitxor_r_3, bitxor_r_2⟩ := rfl
  have h2 : decG rr16 k28 k29 ⟨bitxor_r_3, bitxor_r_2⟩ = ⟨bitxor_r_5, bitxor_r_4⟩ := rfl
  have h3 : decG rr16 k26 k27 ⟨bitxor_r_5, bitxor_r_4⟩ = ⟨bitxor_r_7, bitxor_r_6⟩ := rfl
  have h4 : decG rr16 k24 k25 ⟨bitxor_r_7, bitxor_r_6⟩ = ⟨bitxor_r_9, bitxor_r_8⟩ := rfl
  have h5 : decG rr16 k22 k23 ⟨bitxor_r_9, bitxor_r_8⟩ = ⟨bitxor_r_11, bitxor_r_10⟩ := rfl
  have h6 : decG rr16 k20 k21 ⟨bitxor_r_11, bitxor_r_10⟩ = ⟨bitxor_r_13, bitxor_r_12⟩ := rfl
  have h7 : decG rr16 k18 k19 ⟨bitxor_r_13, bitxor_r_12⟩ = ⟨bitxor_r_15, bitxor_r_14⟩ := rfl
  have h8 : decG rr16 k16 k17 ⟨bitxor_r_15, bitxor_r_14⟩ = ⟨bitxor_r_17, bitxor_r_16⟩ := rfl
  have h9 : decG rr16 k14 k15 ⟨bitxor_r_17, bitxor_r_16⟩ = ⟨bitxor_r_19, bitxor_r_18⟩ := rfl
  have h10 : decG rr16 k12 k13 ⟨bitxor_r_19, bitxor_r_18⟩ = ⟨bitxor_r_21, bitxor_r_20⟩ := rfl
  have h11 : decG rr16 k10 k11 ⟨bitxor_r_21, bitxor_r_20⟩ = ⟨bitxor_r_23, bitxor_r_22⟩ := rfl
  have h12 : decG rr16 k8 k9 ⟨bitxor_r_23, bitxor_r_22⟩ = ⟨bitxor_r_25, bitxor_r_24⟩ := rfl
  have h13 : decG rr16 k6 k7 ⟨bitxor_r_25, bitxor_r_24⟩ = ⟨bitxor_r_27, bitxor_r_26⟩ := rfl
  have h14 : decG rr16 k4 k5 ⟨bitxor_r_27, bitxor_r_26⟩ = ⟨bitxor_r_29, bitxor_r_28⟩ := rfl
  have h15 : decG rr16 k2 k3 ⟨bitxor_r_29, bitxor_r_28⟩ = ⟨bitxor_r_31, bitxor_r_30⟩ := rfl
  rw [h0, h1, h2, h3, h4, h5, h6, h7, h8, h9, h10, h11, h12, h13, h14, h15]
  all_goals rfl

/-- `RC5<u16, U16, U8>::encrypt_block` as regenerated from the Rust source IS the model's `encryptBlock`, for all key tables and blocks -/
theorem rc5_16_16_8_encrypt_block_eq (k0 k1 k2 k3 k4 k5 k6 k7 k8 k9 k10 k11 k12 k13 k14 k15 k16 k17 k18 k19 k20 k21 k22 k23 k24 k25 k26 k27 k28 k29 k30 k31 k32 k33 : BitVec 16) (block : BitVec 32) :
    unpackBE 4 (rc5_16_16_8_encrypt_block k0 k1 k2 k3 k4 k5 k6 k7 k8 k9 k10 k11 k12 k13 k14 k15 k16 k17 k18 k19 k20 k21 k22 k23 k24 k25 k26 k27 k28 k29 k30 k31 k32 k33 block) = encryptBlock (rc5_16_16_8_key k0 k1 k2 k3 k4 k5 k6 k7 k8 k9 k10 k11 k12 k13 k14 k15 k16 k17 k18 k19 k20 k21 k22 k23 k24 k25 k26 k27 k28 k29 k30 k31 k32 k33) 16 (unpackBE 4 block) := by
  rw [encryptBlock, rc5_16_16_8_load, rc5_16_16_8_encryptWords, rc5_16_16_8_store, rc5_16_16_8_gen_enc]

/-- `RC5<u16, U16, U8>::decrypt_block` as regenerated from the Rust source IS the model's `decryptBlock` -/
theorem rc5_16_16_8_decrypt_block_eq (k0 k1 k2 k3 k4 k5 k6 k7 k8 k9 k10 k11 k12 k13 k14 k15 k16 k17 k18 k19 k20 k21 k22 k23 k24 k25 k26 k27 k28 k29 k30 k31 k32 k33 : BitVec 16) (block : BitVec 32) :
    unpackBE 4 (rc5_16_16_8_decrypt_block k0 k1 k2 k3 k4 k5 k6 k7 k8 k9 k10 k11 k12 k13 k14 k15 k16 k17 k18 k19 k20 k21 k22 k23 k24 k25 k26 k27 k28 k29 k30 k31 k32 k33 block) = decryptBlock (rc5_16_16_8_key k0 k1 k2 k3 k4 k5 k6 k7 k8 k9 k10 k11 k12 k13 k14 k15 k16 k17 k18 k19 k20 k21 k22 k23 k24 k25 k26 k27 k28 k29 k30 k31 k32 k33) 16 (unpackBE 4 block) := by
  rw [decryptBlock, rc5_16_16_8_load, rc5_16_16_8_decryptWords, rc5_16_16_8_store, rc5_16_16_8_gen_dec]

/-- the same for an arbitrary 4-byte block given as a byte list -/
theorem rc5_16_16_8_encryptBlock_bytes (k0 k1 k2 k3 k4 k5 k6 k7 k8 k9 k10 k11 k12 k13 k14 k15 k16 k17 k18 k19 k20 k21 k22 k23 k24 k25 k26 k27 k28 k29 k30 k31 k32 k33 : BitVec 16) (bs : Bytes) (h : bs.length = 4) :
    encryptBlock (rc5_16_16_8_key k0 k1 k2 k3 k4 k5 k6 k7 k8 k9 k10 k11 k12 k13 k14 k15 k16 k17 k18 k19 k20 k21 k22 k23 k24 k25 k26 k27 k28 k29 k30 k31 k32 k33) 16 bs = unpackBE 4 (rc5_16_16_8_encrypt_block k0 k1 k2 k3 k4 k5 k6 k7 k8 k9 k10 k11 k12 k13 k14 k15 k16 k17 k18 k19 k20 k21 k22 k23 k24 k25 k26 k27 k28 k29 k30 k31 k32 k33 (packBE 4 bs)) := by
  rw [rc5_16_16_8_encrypt_block_eq, BC.GenCipher.Speck.unpackBE_packBE _ _ h]
theorem rc5_16_16_8_decryptBlock_bytes (k0 k1 k2 k3 k4 k5 k6 k7 k8 k9 k10 k11 k12 k13 k14 k15 k16 k17 k18 k19 k20 k21 k22 k23 k24 k25 k26 k27 k28 k29 k30 k31 k32 k33 : BitVec 16) (bs : Bytes) (h : bs.length = 4) :
    decryptBlock (rc5_16_16_8_key k0 k1 k2 k3 k4 k5 k6 k7 k8 k9 k10 k11 k12 k13 k14 k15 k16 k17 k18 k19 k20 k21 k22 k23 k24 k25 k26 k27 k28 k29 k30 k31 k32 k33) 16 bs = unpackBE 4 (rc5_16_16_8_decrypt_block k0 k1 k2 k3 k4 k5 k6 k7 k8 k9 k10 k11 k12 k13 k14 k15 k16 k17 k18 k19 k20 k21 k22 k23 k24 k25 k26 k27 k28 k29 k30 k31 k32 k33 (packBE 4 bs)) := by
  rw [rc5_16_16_8_decrypt_block_eq, BC.GenCipher.Speck.unpackBE_packBE _ _ h]

/-! ### rc5_64_24_24: `RC5<u64, U24, U24>`, 16-byte block, 24 rounds, 50 key-table words -/

def rc5_64_24_24_key (k0 k1 k2 k3 k4 k5 k6 k7 k8 k9 k10 k11 k12 k13 k14 k15 k16 k17 k18 k19 k20 k21 k22 k23 k24 k25 k26 k27 k28 k29 k30 k31 k32 k33 k34 k35 k36 k37 k38 k39 k40 k41 k42 k43 k44 k45 k46 k47 k48 k49 : BitVec 64) : Array (BitVec 64) := #[k0, k1, k2, k3, k4, k5, k6, k7, k8, k9, k10, k11, k12, k13, k14, k15, k16, k17, k18, k19, k20, k21, k22, k23, k24, k25, k26, k27, k28, k29, k30, k31, k32, k33, k34, k35, k36, k37, k38, k39, k40, k41, k42, k43, k44, k45, k46, k47, k48, k49]
/-- the generated `a`, `b` (block bytes → words, little-endian) and output expression -/
def rc5_64_24_24_a (block : BitVec 128) : BitVec 64 := ((block.extractLsb' 64 8) ++ (block.extractLsb' 72 8) ++ (block.extractLsb' 80 8) ++ (block.extractLsb' 88 8) ++ (block.extractLsb' 96 8) ++ (block.extractLsb' 104 8) ++ (block.extractLsb' 112 8) ++ (block.extractLsb' 120 8))
def rc5_64_24_24_b (block : BitVec 128) : BitVec 64 := ((block.extractLsb' 0 8) ++ (block.extractLsb' 8 8) ++ (block.extractLsb' 16 8) ++ (block.extractLsb' 24 8) ++ (block.extractLsb' 32 8) ++ (block.extractLsb' 40 8) ++ (block.extractLsb' 48 8) ++ (block.extractLsb' 56 8))
def rc5_64_24_24_out (a b : BitVec 64) : BitVec 128 := (a.extractLsb' 0 8) ++ (a.extractLsb' 8 8) ++ (a.extractLsb' 16 8) ++ (a.extractLsb' 24 8) ++ (a.extractLsb' 32 8) ++ (a.extractLsb' 40 8) ++ (a.extractLsb' 48 8) ++ (a.extractLsb' 56 8) ++ (b.extractLsb' 0 8) ++ (b.extractLsb' 8 8) ++ (b.extractLsb' 16 8) ++ (b.extractLsb' 24 8) ++ (b.extractLsb' 32 8) ++ (b.extractLsb' 40 8) ++ (b.extractLsb' 48 8) ++ (b.extractLsb' 56 8)

theorem rc5_64_24_24_load (block : BitVec 128) :
    wordsFromBlock 64 (unpackBE 16 block) = ⟨rc5_64_24_24_a block, rc5_64_24_24_b block⟩ := by
  have h : wordsFromBlock 64 (unpackBE 16 block) = ⟨fromLE 64 [(block >>> 120).setWidth 8, (block >>> 112).setWidth 8, (block >>> 104).setWidth 8, (block >>> 96).setWidth 8, (block >>> 88).setWidth 8, (block >>> 80).setWidth 8, (block >>> 72).setWidth 8, (block >>> 64).setWidth 8], fromLE 64 [(block >>> 56).setWidth 8, (block >>> 48).setWidth 8, (block >>> 40).setWidth 8, (block >>> 32).setWidth 8, (block >>> 24).setWidth 8, (block >>> 16).setWidth 8, (block >>> 8).setWidth 8, (block >>> 0).setWidth 8]⟩ := rfl
  rw [h]
  simp only [fromLE_fold, List.foldr_cons, List.foldr_nil, rc5_64_24_24_a, rc5_64_24_24_b, St.mk.injEq]
  constructor <;> bv_decide (config := { timeout := 300 })

theorem rc5_64_24_24_store (s : St 64) : blockFromWords s = unpackBE 16 (rc5_64_24_24_out s.a s.b) := by
  have h2 : blockFromWords s = [(s.a >>> 0).setWidth 8, (s.a >>> 8).setWidth 8, (s.a >>> 16).setWidth 8, (s.a >>> 24).setWidth 8, (s.a >>> 32).setWidth 8, (s.a >>> 40).setWidth 8, (s.a >>> 48).setWidth 8, (s.a >>> 56).setWidth 8, (s.b >>> 0).setWidth 8, (s.b >>> 8).setWidth 8, (s.b >>> 16).setWidth 8, (s.b >>> 24).setWidth 8, (s.b >>> 32).setWidth 8, (s.b >>> 40).setWidth 8, (s.b >>> 48).setWidth 8, (s.b >>> 56).setWidth 8] := by
    rw [blockFromWords, toLE_eq, toLE_eq]; rfl
  have h3 : ∀ o : BitVec 128, unpackBE 16 o = [(o >>> 120).setWidth 8, (o >>> 112).setWidth 8, (o >>> 104).setWidth 8, (o >>> 96).setWidth 8, (o >>> 88).setWidth 8, (o >>> 80).setWidth 8, (o >>> 72).setWidth 8, (o >>> 64).setWidth 8, (o >>> 56).setWidth 8, (o >>> 48).setWidth 8, (o >>> 40).setWidth 8, (o >>> 32).setWidth 8, (o >>> 24).setWidth 8, (o >>> 16).setWidth 8, (o >>> 8).setWidth 8, (o >>> 0).setWidth 8] := fun _ => rfl
  rw [h2, h3]
  simp only [rc5_64_24_24_out, List.cons.injEq, and_true]
  bv_decide (config := { timeout := 300 })

theorem rc5_64_24_24_encRound_1 (k0 k1 k2 k3 k4 k5 k6 k7 k8 k9 k10 k11 k12 k13 k14 k15 k16 k17 k18 k19 k20 k21 k22 k23 k24 k25 k26 k27 k28 k29 k30 k31 k32 k33 k34 k35 k36 k37 k38 k39 k40 k41 k42 k43 k44 k45 k46 k47 k48 k49 : BitVec 64) (s : St 64) : encRound (rc5_64_24_24_key k0 k1 k2 k3 k4 k5 k6 k7 k8 k9 k10 k11 k12 k13 k14 k15 k16 k17 k18 k19 k20 k21 k22 k23 k24 k25 k26 k27 k28 k29 k30 k31 k32 k33 k34 k35 k36 k37 k38 k39 k40 k41 k42 k43 k44 k45 k46 k47 k48 k49) 1 s = encG rl64 k2 k3 s := by
  simp only [encRound, encG, rotlW_64]; rfl
theorem rc5_64_24_24_decRound_1 (k0 k1 k2 k3 k4 k5 k6 k7 k8 k9 k10 k11 k12 k13 k14 k15 k16 k17 k18 k19 k20 k21 k22 k23 k24 k25 k26 k27 k28 k29 k30 k31 k32 k33 k34 k35 k36 k37 k38 k39 k40 k41 k42 k43 k44 k45 k46 k47 k48 k49 : BitVec 64) (s : St 64) : decRound (rc5_64_24_24_key k0 k1 k2 k3 k4 k5 k6 k7 k8 k9 k10 k11 k12 k13 k14 k15 k16 k17 k18 k19 k20 k21 k22 k23 k24 k25 k26 k27 k28 k29 k30 k31 k32 k33 k34 k35 k36 k37 k38 k39 k40 k41 k42 k43 k44 k45 k46 k47 k48 k49) 1 s = decG rr64 k2 k3 s := by
  simp only [decRound, decG, rotrW_64]; rfl
theorem rc5_64_24_24_encRound_2 (k0 k1 k2 k3 k4 k5 k6 k7 k8 k9 k10 k11 k12 k13 k14 k15 k16 k17 k18 k19 k20 k21 k22 k23 k24 k25 k26 k27 k28 k29 k30 k31 k32 k33 k34 k35 k36 k37 k38 k39 k40 k41 k42 k43 k44 k45 k46 k47 k48 k49 : BitVec 64) (s : St 64) : encRound (rc5_64_24_24_key k0 k1 k2 k3 k4 k5 k6 k7 k8 k9 k10 k11 k12 k13 k14 k15 k16 k17 k18 k19 k20 k21 k22 k23 k24 k25 k26 k27 k28 k29 k30 k31 k32 k33 k34 k35 k36 k37 k38 k39 k40 k41 k42 k43 k44 k45 k46 k47 k48 k49) 2 s = encG rl64 k4 k5 s := by
  simp only [encRound, encG, rotlW_64]; rfl
theorem rc5_64_24_24_decRound_2 (k0 k1 k2 k3 k4 k5 k6 k7 k8 k9 k10 k11 k12 k13 k14 k15 k16 k17 k18 k19 k20 k21 k22 k23 k24 k25 k26 k27 k28 k29 k30 k31 k32 k33 k34 k35 k36 k37 k38 k39 k40 k41 k42 k43 k44 k45 k46 k47 k48 k49 : BitVec 64) (s : St 64) : decRound (rc5_64_24_24_key k0 k1 k2 k3 k4 k5 k6 k7 k8 k9 k10 k11 k12 k13 k14 k15 k16 k17 k18 k19 k20 k21 k22 k23 k24 k25 k26 k27 k28 k29 k30 k31 k32 k33 k34 k35 k36 k37 k38 k39 k40 k41 k42 k43 k44 k45 k46 k47 k48 k49) 2 s = decG rr64 k4 k5 s := by
  simp only [decRound, decG, rotrW_64]; rfl
theorem rc5_64_24_24_encRound_3 (k0 k1 k2 k3 k4 k5 k6 k7 k8 k9 k10 k11 k12 k13 k14 k15 k16 k17 k18 k19 k20 k21 k22 k23 k24 k25 k26 k27 k28 k29 k30 k31 k32 k33 k34 k35 k36 k37 k38 k39 k40 k41 k42 k43 k44 k45 k46 k47 k48 k49 : BitVec 64) (s : St 64) : encRound (rc5_64_24_24_key k0 k1 k2 k3 k4 k5 k6 k7 k8 k9 k10 k11 k12 k13 k14 k15 k16 k17 k18 k19 k20 k21 k22 k23 k24 k25 k26 k27 k28 k29 k30 k31 k32 k33 k34 k35 k36 k37 k38 k39 k40 k41 k42 k43 k44 k45 k46 k47 k48 k49) 3 s = encG rl64 k6 k7 s := by
  simp only [encRound, encG, rotlW_64]; rfl
theorem rc5_64_24_24_decRound_3 (k0 k1 k2 k3 k4 k5 k6 k7 k8 k9 k10 k11 k12 k13 k14 k15 k16 k17 k18 k19 k20 k21 k22 k23 k24 k25 k26 k27 k28 k29 k30 k31 k32 k33 k34 k35 k36 k37 k38 k39 k40 k41 k42 k43 k44 k45 k46 k47 k48 k49 : BitVec 64) (s : St 64) : decRound (rc5_64_24_24_key k0 k1 k2 k3 k4 k5 k6 k7 k8 k9 k10 k11 k12 k13 k14 k15 k16 k17 k18 k19 k20 k21 k22 k23 k24 k25 k26 k27 k28 k29 k30 k31 k32 k33 k34 k35 k36 k37 k38 k39 k40 k41 k42 k43 k44 k45 k46 k47 k48 k49) 3 s = decG rr64 k6 k7 s := by
  simp only [decRound, decG, rotrW_64]; rfl
theorem rc5_64_24_24_encRound_4 (k0 k1 k2 k3 k4 k5 k6 k7 k8 k9 k10 k11 k12 k13 k14 k15 k16 k17 k18 k19 k20 k21 k22 k23 k24 k25 k26 k27 k28 k29 k30 k31 k32 k33 k34 k35 k36 k37 k38 k39 k40 k41 k42 k43 k44 k45 k46 k47 k48 k49 : BitVec 64) (s : St 64) : encRound (rc5_64_24_24_key k0 k1 k2 k3 k4 k5 k6 k7 k8 k9 k10 k11 k12 k13 k14 k15 k16 k17 k18 k19 k20 k21 k22 k23 k24 k25 k26 k27 k28 k29 k30 k31 k32 k33 k34 k35 k36 k37 k38 k39 k40 k41 k42 k43 k44 k45 k46 k47 k48 k49) 4 s = encG rl64 k8 k9 s := by
  simp only [encRound, encG, rotlW_64]; rfl
theorem rc5_64_24_24_decRound_4 (k0 k1 k2 k3 k4 k5 k6 k7 k8 k9 k10 k11 k12 k13 k14 k15 k16 k17 k18 k19 k20 k21 k22 k23 k24 k25 k26 k27 k28 k29 k30 k31 k32 k33 k34 k35 k36 k37 k38 k39 k40 k41 k42 k43 k44 k45 k46 k47 k48 k49 : BitVec 64) (s : St 64) : decRound (rc5_64_24_24_key k0 k1 k2 k3 k4 k5 k6 k7 k8 k9 k10 k11 k12 k13 k14 k15 k16 k17 k18 k19 k20 k21 k22 k23 k24 k25 k26 k27 k28 k29 k30 k31 k32 k33 k34 k35 k36 k37 k38 k39 k40 k41 k42 k43 k44 k45 k46 k47 k48 k49) 4 s = decG rr64 k8 k9 s := by
  simp only [decRound, decG, rotrW_64]; rfl
theorem rc5_64_24_24_encRound_5 (k0 k1 k2 k3 k4 k5 k6 k7 k8 k9 k10 k11 k12 k13 k14 k15 k16 k17 k18 k19 k20 k21 k22 k23 k24 k25 k26 k27 k28 k29 k30 k31 k32 k33 k34 k35 k36 k37 k38 k39 k40 k41 k42 k43 k44 k45 k46 k47 k48 k49 : BitVec 64) (s : St 64) : encRound (rc5_64_24_24_key k0 k1 k2 k3 k4 k5 k6 k7 k8 k9 k10 k11 k12 k13 k14 k15 k16 k17 k18 k19 k20 k21 k22 k23 k24 k25 k26 k27 k28 k29 k30 k31 k32 k33 k34 k35 k36 k37 k38 k39 k40 k41 k42 k43 k44 k45 k46 k47 k48 k49) 5 s = encG rl64 k10 k11 s := by
  simp only [encRound, encG, rotlW_64]; rfl
theorem rc5_64_24_24_decRound_5 (k0 k1 k2 k3 k4 k5 k6 k7 k8 k9 k10 k11 k12 k13 k14 k15 k16 k17 k18 k19 k20 k21 k22 k23 k24 k25 k26 k27 k28 k29 k30 k31 k32 k33 k34 k35 k36 k37 k38 k39 k40 k41 k42 k43 k44 k45 k46 k47 k48 k49 : BitVec 64) (s : St 64) : decRound (rc5_64_24_24_key k0 k1 k2 k3 k4 k5 k6 k7 k8 k9 k10 k11 k12 k13 k14 k15 k16 k17 k18 k19 k20 k21 k22 k23 k24 k25 k26 k27 k28 k29 k30 k31 k32 k33 k34 k35 k36 k37 k38 k39 k40 k41 k42 k43 k44 k45 k46 k47 k48 k49) 5 s = decG rr64 k10 k11 s := by
  simp only [decRound, decG, rotrW_64]; rfl
theorem rc5_64_24_24_encRound_6 (k0 k1 k2 k3 k4 k5 k6 k7 k8 k9 k10 k11 k12 k13 k14 k15 k16 k17 k18 k19 k20 k21 k22 k23 k24 k25 k26 k27 k28 k29 k30 k31 k32 k33 k34 k35 k36 k37 k38 k39 k40 k41 k42 k43 k44 k45 k46 k47 k48 k49 : BitVec 64) (s : St 64) : encRound (rc5_64_24_24_key k0 k1 k2 k3 k4 k5 k6 k7 k8 k9 k10 k11 k12 k13 k14 k15 k16 k17 k18 k19 k20 k21 k22 k23 k24 k25 k26 k27 k28 k29 k30 k31 k32 k33 k34 k35 k36 k37 k38 k39 k40 k41 k42 k43 k44 k45 k46 k47 k48 k49) 6 s = encG rl64 k12 k13 s := by
  simp only [encRound, encG, rotlW_64]; rfl
theorem rc5_64_24_24_decRound_6 (k0 k1 k2 k3 k4 k5 k6 k7 k8 k9 k10 k11 k12 k13 k14 k15 k16 k17 k18 k19 k20 k21 k22 k23 k24 k25 k26 k27 k28 k29 k30 k31 k32 k33 k34 k35 k36 k37 k38 k39 k40 k41 k42 k43 k44 k45 k46 k47 k48 k49 : BitVec 64) (s : St 64) : decRound (rc5_64_24_24_key k0 k1 k2 k3 k4 k5 k6 k7 k8 k9 k10 k11 k12 k13 k14 k15 k16 k17 k18 k19 k20 k21 k22 k23 k24 k25 k26 k27 k28 k29 k30 k31 k32 k33 k34 k35 k36 k37 k38 k39 k40 k41 k42 k43 k44 k45 k46 k47 k48 k49) 6 s = decG rr64 k12 k13 s := by
  simp only [decRound, decG, rotrW_64]; rfl
theorem rc5_64_24_24_encRound_7 (k0 k1 k2 k3 k4 k5 k6 k7 k8 k9 k10 k11 k12 k13 k14 k15 k16 k17 k18 k19 k20 k21 k22 k23 k24 k25 k26 k27 k28 k29 k30 k31 k32 k33 k34 k35 k36 k37 k38 k39 k40 k41 k42 k43 k44 k45 k46 k47 k48 k49 : BitVec 64) (s : St 64) : encRound (rc5_64_24_24_key k0 k1 k2 k3 k4 k5 k6 k7 k8 k9 k10 k11 k12 k13 k14 k15 k16 k17 k18 k19 k20 k21 k22 k23 k24 k25 k26 k27 k28 k29 k30 k31 k32 k33 k34 k35 k36 k37 k38 k39 k40 k41 k42 k43 k44 k45 k46 k47 k48 k49) 7 s = encG rl64 k14 k15 s := by
  simp only [encRound, encG, rotlW_64]; rfl
theorem rc5_64_24_24_decRound_7 (k0 k1 k2 k3 k4 k5 k6 k7 k8 k9 k10 k11 k12 k13 k14 k15 k16 k17 k18 k19 k20 k21 k22 k23 k24 k25 k26 k27 k28 k29 k30 k31 k32 k33 k34 k35 k36 k37 k38 k39 k40 k41 k42 k43 k44 k45 k46 k47 k48 k49 : BitVec 64) (s : St 64) : decRound (rc5_64_24_24_key k0 k1 k2 k3 k4 k5 k6 k7 k8 k9 k10 k11 k12 k13 k14 k15 k16 k17 k18 k19 k20 k21 k22 k23 k24 k25 k26 k27 k28 k29 k30 k31 k32 k33 k34 k35 k36 k37 k38 k39 k40 k41 k42 k43 k44 k45 k46 k47 k48 k49) 7 s = decG rr64 k14 k15 s := by
  simp only [decRound, decG, rotrW_64]; rfl
theorem rc5_64_24_24_encRound_8 (k0 k1 k2 k3 k4 k5 k6 k7 k8 k9 k10 k11 k12 k13 k14 k15 k16 k17 k18 k19 k20 k21 k22 k23 k24 k25 k26 k27 k28 k29 k30 k31 k32 k33 k34 k35 k36 k37 k38 k39 k40 k41 k42 k43 k44 k45 k46 k47 k48 k49 : BitVec 64) (s : St 64) : encRound (rc5_64_24_24_key k0 k1 k2 k3 k4 k5 k6 k7 k8 k9 k10 k11 k12 k13 k14 k15 k16 k17 k18 k19 k20 k21 k22 k23 k24 k25 k26 k27 k28 k29 k30 k31 k32 k33 k34 k35 k36 k37 k38 k39 k40 k41 k42 k43 k44 k45 k46 k47 k48 k49) 8 s = encG rl64 k16 k17 s := by
  simp only [encRound, encG, rotlW_64]; rfl
theorem rc5_64_24_24_decRound_8 (k0 k1 k2 k3 k4 k5 k6 k7 k8 k9 k10 k11 k12 k13 k14 k15 k16 k17 k18 k19 k20 k21 k22 k23 k24 k25 k26 k27 k28 k29 k30 k31 k32 k33 k34 k35 k36 k37 k38 k39 k40 k41 k42 k43 k44 k45 k46 k47 k48 k49 : BitVec 64) (s : St 64) : decRound (rc5_64_24_24_key k0 k1 k2 k3 k4 k5 k6 k7 k8 k9 k10 k11 k12 k13 k14 k15 k16 k17 k18 k19 k20 k21 k22 k23 k24 k25 k26 k27 k28 k29 k30 k31 k32 k33 k34 k35 k36 k37 k38 k39 k40 k41 k42 k43 k44 k45 k46 k47 k48 k49) 8 s = decG rr64 k16 k17 s := by
  simp only [decRound, decG, rotrW_64]; rfl
theorem rc5_64_24_24_encRound_9 (k0 k1 k2 k3 k4 k5 k6 k7 k8 k9 k10 k11 k12 k13 k14 k15 k16 k17 k18 k19 k20 k21 k22 k23 k24 k25 k26 k27 k28 k29 k30 k31 k32 k33 k34 k35 k36 k37 k38 k39 k40 k41 k42 k43 k44 k45 k46 k47 k48 k49 : BitVec 64) (s : St 64) : encRound (rc5_64_24_24_key k0 k1 k2 k3 k4 k5 k6 k7 k8 k9 k10 k11 k12 k13 k14 k15 k16 k17 k18 k19 k20 k21 k22 k23 k24 k25 k26 k27 k28 k29 k30 k31 k32 k33 k34 k35 k36 k37 k38 k39 k40 k41 k42 k43 k44 k45 k46 k47 k48 k49) 9 s = encG rl64 k18 k19 s := by
  simp only [encRound, encG, rotlW_64]; rfl
theorem rc5_64_24_24_decRound_9 (k0 k1 k2 k3 k4 k5 k6 k7 k8 k9 k10 k11 k12 k13 k14 k15 k16 k17 k18 k19 k20 k21 k22 k23 k24 k25 k26 k27 k28 k29 k30 k31 k32 k33 k34 k35 k36 k37 k38 k39 k40 k41 k42 k43 k44 k45 k46 k47 k48 k49 : BitVec 64) (s : St 64) : decRound (rc5_64_24_24_key k0 k1 k2 k3 k4 k5 k6 k7 k8 k9 k10 k11 k12 k13 k14 k15 k16 k17 k18 k19 k20 k21 k22 k23 k24 k25 k26 k27 k28 k29 k30 k31 k32 k33 k34 k35 k36 k37 k38 k39 k40 k41 k42 k43 k44 k45 k46 k47 k48 k49) 9 s = decG rr64 k18 k19 s := by
  simp only [decRound, decG, rotrW_64]; rfl
theorem rc5_64_24_24_encRound_10 (k0 k1 k2 k3 k4 k5 k6 k7 k8 k9 k10 k11 k12 k13 k14 k15 k16 k17 k18 k19 k20 k21 k22 k23 k24 k25 k26 k27 k28 k29 k30 k31 k32 k33 k34 k35 k36 k37 k38 k39 k40 k41 k42 k43 k44 k45 k46 k47 k48 k49 : BitVec 64) (s : St 64) : encRound (rc5_64_24_24_key k0 k1 k2 k3 k4 k5 k6 k7 k8 k9 k10 k11 k12 k13 k14 k15 k16 k17 k18 k19 k20 k21 k22 k23 k24 k25 k26 k27 k28 k29 k30 k31 k32 k33 k34 k35 k36 k37 k38 k39 k40 k41 k42 k43 k44 k45 k46 k47 k48 k49) 10 s = encG rl64 k20 k21 s := by
  simp only [encRound, encG, rotlW_64]; rfl
theorem rc5_64_24_24_decRound_10 (k0 k1 k2 k3 k4 k5 k6 k7 k8 k9 k10 k11 k12 k13 k14 k15 k16 k17 k18 k19 k20 k21 k22 k23 k24 k25 k26 k27 k28 k29 k30 k31 k32 k33 k34 k35 k36 k37 k38 k39 k40 k41 k42 k43 k44 k45 k46 k47 k48 k49 : BitVec 64) (s : St 64) : decRound (rc5_64_24_24_key k0 k1 k2 k3 k4 k5 k6 k7 k8 k9 k10 k11 k12 k13 k14 k15 k16 k17 k18 k19 k20 k21 k22 k23 k24 k25 k26 k27 k28 k29 k30 k31 k32 k33 k34 k35 k36 k37 k38 k39 k40 k41 k42 k43 k44 k45 k46 k47 k48 k49) 10 s = decG rr64 k20 k21 s := by
  simp only [decRound, decG, rotrW_64]; rfl
theorem rc5_64_24_24_encRound_11 (k0 k1 k2 k3 k4 k5 k6 k7 k8 k9 k10 k11 k12 k13 k14 k15 k16 k17 k18 k19 k20 k21 k22 k23 k24 k25 k26 k27 k28 k29 k30 k31 k32 k33 k34 k35 k36 k37 k38 k39 k40 k41 k42 k43 k44 k45 k46 k47 k48 k49 : BitVec 64) (s : St 64) : encRound (rc5_64_24_24_key k0 k1 k2 k3 k4 k5 k6 k7 k8 k9 k10 k11 k12 k13 k14 k15 k16 k17 k18 k19 k20 k21 k22 k23 k24 k25 k26 k27 k28 k29 k30 k31 k32 k33 k34 k35 k36 k37 k38 k39 k40 k41 k42 k43 k44 k45 k46 k47 k48 k49) 11 s = encG rl64 k22 k23 s := by
  simp only [encRound, encG, rotlW_64]; rfl
theorem rc5_64_24_24_decRound_11 (k0 k1 k2 k3 k4 k5 k6 k7 k8 k9 k10 k11 k12 k13 k14 k15 k16 k17 k18 k19 k20 k21 k22 k23 k24 k25 k26 k27 k28 k29 k30 k31 k32 k33 k34 k35 k36 k37 k38 k39 k40 k41 k42 k43 k44 k45 k46 k47 k48 k49 : BitVec 64) (s : St 64) : decRound (rc5_64_24_24_key k0 k1 k2 k3 k4 k5 k6 k7 k8 k9 k10 k11 k12 k13 k14 k15 k16 k17 k18 k19 k20 k21 k22 k23 k24 k25 k26 k27 k28 k29 k30 k31 k32 k33 k34 k35 k36 k37 k38 k39 k40 k41 k42 k43 k44 k45 k46 k47 k48 k49) 11 s = decG rr64 k22 k23 s := by
  simp only [decRound, decG, rotrW_64]; rfl
theorem rc5_64_24_24_encRound_12 (k0 k1 k2 k3 k4 k5 k6 k7 k8 k9 k10 k11 k12 k13 k14 k15 k16 k17 k18 k19 k20 k21 k22 k23 k24 k25 k26 k27 k28 k29 k30 k31 k32 k33 k34 k35 k36 k37 k38 k39 k40 k41 k42 k43 k44 k45 k46 k47 k48 k49 : BitVec 64) (s : St 64) : encRound (rc5_64_24_24_key k0 k1 k2 k3 k4 k5 k6 k7 k8 k9 k10 k11 k12 k13 k14 k15 k16 k17 k18 k19 k20 k21 k22 k23 k24 k25 k26 k27 k28 k29 k30 k31 k32 k33 k34 k35 k36 k37 k38 k39 k40 k41 k42 k43 k44 k45 k46 k47 k48 k49) 12 s = encG rl64 k24 k25 s := by
  simp only [encRound, encG, rotlW_64]; rfl
theorem rc5_64_24_24_decRound_12 (k0 k1 k2 k3 k4 k5 k6 k7 k8 k9 k10 k11 k12 k13 k14 k15 k16 k17 k18 k19 k20 k21 k22 k23 k24 k25 k26 k27 k28 k29 k30 k31 k32 k33 k34 k35 k36 k37 k38 k39 k40 k41 k42 k43 k44 k45 k46 k47 k48 k49 : BitVec 64) (s : St 64) : decRound (rc5_64_24_24_key k0 k1 k2 k3 k4 k5 k6 k7 k8 k9 k10 k11 k12 k13 k14 k15 k16 k17 k18 k19 k20 k21 k22 k23 k24 k25 k26 k27 k28 k29 k30 k31 k32 k33 k34 k35 k36 k37 k38 k39 k40 k41 k42 k43 k44 k45 k46 k47 k48 k49) 12 s = decG rr64 k24 k25 s := by
  simp only [decRound, decG, rotrW_64]; rfl
theorem rc5_64_24_24_encRound_13 (k0 k1 k2 k3 k4 k5 k6 k7 k8 k9 k10 k11 k12 k13 k14 k15 k16 k17 k18 k19 k20 k21 k22 k23 k24 k25 k26 k27 k28 k29 k30 k31 k32 k33 k34 k35 k36 k37 k38 k39 k40 k41 k42 k43 k44 k45 k46 k47 k48 k49 : BitVec 64) (s : St 64) : encRound (rc5_64_24_24_key k0 k1 k2 k3 k4 k5 k6 k7 k8 k9 k10 k11 k12 k13 k14 k15 k16 k17 k18 k19 k20 k21 k22 k23 k24 k25 k26 k27 k28 k29 k30 k31 k32 k33 k34 k35 k36 k37 k38 k39 k40 k41 k42 k43 k44 k45 k46 k47 k48 k49) 13 s = encG rl64 k26 k27 s := by
  simp only [encRound, encG, rotlW_64]; rfl
theorem rc5_64_24_24_decRound_13 (k0 k1 k2 k3 k4 k5 k6 k7 k8 k9 k10 k11 k12 k13 k14 k15 k16 k17 k18 k19 k20 k21 k22 k23 k24 k25 k26 k27 k28 k29 k30 k31 k32 k33 k34 k35 k36 k37 k38 k39 k40 k41 k42 k43 k44 k45 k46 k47 k48 k49 : BitVec 64) (s : St 64) : decRound (rc5_64_24_24_key k0 k1 k2 k3 k4 k5 k6 k7 k8 k9 k10 k11 k12 k13 k14 k15 k16 k17 k18 k19 k20 k21 k22 k23 k24 k25 k26 k27 k28 k29 k30 k31 k32 k33 k34 k35 k36 k37 k38 k39 k40 k41 k42 k43 k44 k45 k46 k47 k48 k49) 13 s = decG rr64 k26 k27 s := by
  simp only [decRound, decG, rotrW_64]; rfl
theorem rc5_64_24_24_encRound_14 (k0 k1 k2 k3 k4 k5 k6 k7 k8 k9 k10 k11 k12 k13 k14 k15 k16 k17 k18 k19 k20 k21 k22 k23 k24 k25 k26 k27 k28 k29 k30 k31 k32 k33 k34 k35 k36 k37 k38 k39 k40 k41 k42 k43 k44 k45 k46 k47 k48 k49 : BitVec 64) (s : St 64) : encRound (rc5_64_24_24_key k0 k1 k2 k3 k4 k5 k6 k7 k8 k9 k10 k11 k12 k13 k14 k15 k16 k17 k18 k19 k20 k21 k22 k23 k24 k25 k26 k27 k28 k29 k30 k31 k32 k33 k34 k35 k36 k37 k38 k39 k40 k41 k42 k43 k44 k45 k46 k47 k48 k49) 14 s = encG rl64 k28 k29 s := by
  simp only [encRound, encG, rotlW_64]; rfl
theorem rc5_64_24_24_decRound_14 (k0 k1 k2 k3 k4 k5 k6 k7 k8 k9 k10 k11 k12 k13 k14 k15 k16 k17 k18 k19 k20 k21 k22 k23 k24 k25 k26 k27 k28 k29 k30 k31 k32 k33 k34 k35 k36 k37 k38 k39 k40 k41 k42 k43 k44 k45 k46 k47 k48 k49 : BitVec 64) (s : St 64) : decRound (rc5_64_24_24_key k0 k1 k2 k3 k4 k5 k6 k7 k8 k9 k10 k11 k12 k13 k14 k15 k16 k17 k18 k19 k20 k21 k22 k23 k24 k25 k26 k27 k28 k29 k30 k31 k32 k33 k34 k35 k36 k37 k38 k39 k40 k41 k42 k43 k44 k45 k46 k47 k48 k49) 14 s = decG rr64 k28 k29 s := by
  simp only [decRound, decG, rotrW_64]; rfl
theorem rc5_64_24_24_encRound_15 (k0 k1 k2 k3 k4 k5 k6 k7 k8 k9 k10 k11 k12 k13 k14 k15 k16 k17 k18 k19 k20 k21 k22 k23 k24 k25 k26 k27 k28 k29 k30 k31 k32 k33 k34 k35 k36 k37 k38 k39 k40 k41 k42 k43 k44 k45 k46 k47 k48 k49 : BitVec 64) (s : St 64) : encRound (rc5_64_24_24_key k0 k1 k2 k3 k4 k5 k6 k7 k8 k9 k10 k11 k12 k13 k14 k15 k16 k17 k18 k19 k20 k21 k22 k23 k24 k25 k26 k27 k28 k29 k30 k31 k32 k33 k34 k35 k36 k37 k38 k39 k40 k41 k42 k43 k44 k45 k46 k47 k48 k49) 15 s = encG rl64 k30 k31 s := by
  simp only [encRound, encG, rotlW_64]; rfl
theorem rc5_64_24_24_decRound_15 (k0 k1 k2 k3 k4 k5 k6 k7 k8 k9 k10 k11 k12 k13 k14 k15 k16 k17 k18 k19 k20 k21 k22 k23 k24 k25 k26 k27 k28 k29 k30 k31 k32 k33 k34 k35 k36 k37 k38 k39 k40 k41 k42 k43 k44 k45 k46 k47 k48 k49 : BitVec 64) (s : St 64) : decRound (rc5_64_24_24_key k0 k1 k2 k3 k4 k5 k6 k7 k8 k9 k10 k11 k12 k13 k14 k15 k16 k17 k18 k19 k20 k21 k22 k23 k24 k25 k26 k27 k28 k29 k30 k31 k32 k33 k34 k35 k36 k37 k38 k39 k40 k41 k42 k43 k44 k45 k46 k47 k48 k49) 15 s = decG rr64 k30 k31 s := by
  simp only [decRound, decG, rotrW_64]; rfl
theorem rc5_64_24_24_encRound_16 (k0 k1 k2 k3 k4 k5 k6 k7 k8 k9 k10 k11 k12 k13 k14 k15 k16 k17 k18 k19 k20 k21 k22 k23 k24 k25 k26 k27 k28 k29 k30 k31 k32 k33 k34 k35 k36 k37 k38 k39 k40 k41 k42 k43 k44 k45 k46 k47 k48 k49 : BitVec 64) (s : St 64) : encRound (rc5_64_24_24_key k0 k1 k2 k3 k4 k5 k6 k7 k8 k9 k10 k11 k12 k13 k14 k15 k16 k17 k18 k19 k20 k21 k22 k23 k24 k25 k26 k27 k28 k29 k30 k31 k32 k33 k34 k35 k36 k37 k38 k39 k40 k41 k42 k43 k44 k45 k46 k47 k48 k49) 16 s = encG rl64 k32 k33 s := by
  simp only [encRound, encG, rotlW_64]; rfl
theorem rc5_64_24_24_decRound_16 (k0 k1 k2 k3 k4 k5 k6 k7 k8 k9 k10 k11 k12 k13 k14 k15 k16 k17 k18 k19 k20 k21 k22 k23 k24 k25 k26 k27 k28 k29 k30 k31 k32 k33 k34 k35 k36 k37 k38 k39 k40 k41 k42 k43 k44 k45 k46 k47 k48 k49 : BitVec 64) (s : St 64) : decRound (rc5_64_24_24_key k0 k1 k2 k3 k4 k5 k6 k7 k8 k9 k10 k11 k12 k13 k14 k15 k16 k17 k18 k19 k20 k21 k22 k23 k24 k25 k26 k27 k28 k29 k30 k31 k32 k33 k34 k35 k36 k37 k38 k39 k40 k41 k42 k43 k44 k45 k46 k47 k48 k49) 16 s = decG rr64 k32 k33 s := by
  simp only [decRound, decG, rotrW_64]; rfl
theorem rc5_64_24_24_encRound_17 (k0 k1 k2 k3 k4 k5 k6 k7 k8 k9 k10 k11 k12 k13 k14 k15 k16 k17 k18 k19 k20 k21 k22 k23 k24 k25 k26 k27 k28 k29 k30 k31 k32 k33 k34 k35 k36 k37 k38 k39 k40 k41 k42 k43 k44 k45 k46 k47 k48 k49 : BitVec 64) (s : St 64) : encRound (rc5_64_24_24_key k0 k1 k2 k3 k4 k5 k6 k7 k8 k9 k10 k11 k12 k13 k14 k15 k16 k17 k18 k19 k20 k21 k22 k23 k24 k25 k26 k27 k28 k29 k30 k31 k32 k33 k34 k35 k36 k37 k38 k39 k40 k41 k42 k43 k44 k45 k46 k47 k48 k49) 17 s = encG rl64 k34 k35 s := by
  simp only [encRound, encG, rotlW_64]; rfl
theorem rc5_64_24_24_decRound_17 (k0 k1 k2 k3 k4 k5 k6 k7 k8 k9 k10 k11 k12 k13 k14 k15 k16 k17 k18 k19 k20 k21 k22 k23 k24 k25 k26 k27 k28 k29 k30 k31 k32 k33 k34 k35 k36 k37 k38 k39 k40 k41 k42 k43 k44 k45 k46 k47 k48 k49 : BitVec 64) (s : St 64) : decRound (rc5_64_24_24_key k0 k1 k2 k3 k4 k5 k6 k7 k8 k9 k10 k11 k12 k13 k14 k15 k16 k17 k18 k19 k20 k21 k22 k23 k24 k25 k26 k27 k28 k29 k30 k31 k32 k33 k34 k35 k36 k37 k38 k39 k40 k41 k42 k43 k44 k45 k46 k47 k48 k49) 17 s = decG rr64 k34 k35 s := by
  simp only [decRound, decG, rotrW_64]; rfl
theorem rc5_64_24_24_encRound_18 (k0 k1 k2 k3 k4 k5 k6 k7 k8 k9 k10 k11 k12 k13 k14 k15 k16 k17 k18 k19 k20 k21 k22 k23 k24 k25 k26 k27 k28 k29 k30 k31 k32 k33 k34 k35 k36 k37 k38 k39 k40 k41 k42 k43 k44 k45 k46 k47 k48 k49 : BitVec 64) (s : St 64) : encRound (rc5_64_24_24_key k0 k1 k2 k3 k4 k5 k6 k7 k8 k9 k10 k11 k12 k13 k14 k15 k16 k17 k18 k19 k20 k21 k22 k23 k24 k25 k26 k27 k28 k29 k30 k31 k32 k33 k34 k35 k36 k37 k38 k39 k40 k41 k42 k43 k44 k45 k46 k47 k48 k49) 18 s = encG rl64 k36 k37 s := by
  simp only [encRound, encG, rotlW_64]; rfl
theorem rc5_64_24_24_decRound_18 (k0 k1 k2 k3 k4 k5 k6 k7 k8 k9 k10 k11 k12 k13 k14 k15 k16 k17 k18 k19 k20 k21 k22 k23 k24 k25 k26 k27 k28 k29 k30 k31 k32 k33 k34 k35 k36 k37 k38 k39 k40 k41 k42 k43 k44 k45 k46 k47 k48 k49 : BitVec 64) (s : St 64) : decRound (rc5_64_24_24_key k0 k1 k2 k3 k4 k5 k6 k7 k8 k9 k10 k11 k12 k13 k14 k15 k16 k17 k18 k19 k20 k21 k22 k23 k24 k25 k26 k27 k28 k29 k30 k31 k32 k33 k34 k35 k36 k37 k38 k39 k40 k41 k42 k43 k44 k45 k46 k47 k48 k49) 18 s = decG rr64 k36 k37 s := by
  simp only [decRound, decG, rotrW_64]; rfl
theorem rc5_64_24_24_encRound_19 (k0 k1 k2 k3 k4 k5 k6 k7 k8 k9 k10 k11 k12 k13 k14 k15 k16 k17 k18 k19 k20 k21 k22 k23 k24 k25 k26 k27 k28 k29 k30 k31 k32 k33 k34 k35 k36 k37 k38 k39 k40 k41 k42 k43 k44 k45 k46 k47 k48 k49 : BitVec 64) (s : St 64) : encRound (rc5_64_24_24_key k0 k1 k2 k3 k4 k5 k6 k7 k8 k9 k10 k11 k12 k13 k14 k15 k16 k17 k18 k19 k20 k21 k22 k23 k24 k25 k26 k27 k28 k29 k30 k31 k32 k33 k34 k35 k36 k37 k38 k39 k40 k41 k42 k43 k44 k45 k46 k47 k48 k49) 19 s = encG rl64 k38 k39 s := by
  simp only [encRound, encG, rotlW_64]; rfl
theorem rc5_64_24_24_decRound_19 (k0 k1 k2 k3 k4 k5 k6 k7 k8 k9 k10 k11 k12 k13 k14 k15 k16 k17 k18 k19 k20 k21 k22 k23 k24 k25 k26 k27 k28 k29 k30 k31 k32 k33 k34 k35 k36 k37 k38 k39 k40 k41 k42 k43 k44 k45 k46 k47 k48 k49 : BitVec 64) (s : St 64) : decRound (rc5_64_24_24_key k0 k1 k2 k3 k4 k5 k6 k7 k8 k9 k10 k11 k12 k13 k14 k15 k16 k17 k18 k19 k20 k21 k22 k23 k24 k25 k26 k27 k28 k29 k30 k31 k32 k33 k34 k35 k36 k37 k38 k39 k40 k41 k42 k43 k44 k45 k46 k47 k48 k49) 19 s = decG rr64 k38 k39 s := by
  simp only [decRound, decG, rotrW_64]; rfl
theorem rc5_64_24_24_encRound_20 (k0 k1 k2 k3 k4 k5 k6 k7 k8 k9 k10 k11 k12 k13 k14 k15 k16 k17 k18 k19 k20 k21 k22 k23 k24 k25 k26 k27 k28 k29 k30 k31 k32 k33 k34 k35 k36 k37 k38 k39 k40 k41 k42 k43 k44 k45 k46 k47 k48 k49 : BitVec 64) (s : St 64) : encRound (rc5_64_24_24_key k0 k1 k2 k3 k4 k5 k6 k7 k8 k9 k10 k11 k12 k13 k14 k15 k16 k17 k18 k19 k20 k21 k22 k23 k24 k25 k26 k27 k28 k29 k30 k31 k32 k33 k34 k35 k36 k37 k38 k39 k40 k41 k42 k43 k44 k45 k46 k47 k48 k49) 20 s = encG rl64 k40 k41 s := by
  simp only [encRound, encG, rotlW_64]; rfl
theorem rc5_64_24_24_decRound_20 (k0 k1 k2 k3 k4 k5 k6 k7 k8 k9 k10 k11 k12 k13 k14 k15 k16 k17 k18 k19 k20 k21 k22 k23 k24 k25 k26 k27 k28 k29 k30 k31 k32 k33 k34 k35 k36 k37 k38 k39 k40 k41 k42 k43 k44 k45 k46 k47 k48 k49 : BitVec 64) (s : St 64) : decRound (rc5_64_24_24_key k0 k1 k2 k3 k4 k5 k6 k7 k8 k9 k10 k11 k12 k13 k14 k15 k16 k17 k18 k19 k20 k21 k22 k23 k24 k25 k26 k27 k28 k29 k30 k31 k32 k33 k34 k35 k36 k37 k38 k39 k40 k41 k42 k43 k44 k45 k46 k47 k48 k49) 20 s = decG rr64 k40 k41 s := by
  simp only [decRound, decG, rotrW_64]; rfl
theorem rc5_64_24_24_encRound_21 (k0 k1 k2 k3 k4 k5 k6 k7 k8 k9 k10 k11 k12 k13 k14 k15 k16 k17 k18 k19 k20 k21 k22 k23 k24 k25 k26 k27 k28 k29 k30 k31 k32 k33 k34 k35 k36 k37 k38 k39 k40 k41 k42 k43 k44 k45 k46 k47 k48 k49 : BitVec 64) (s : St 64) : encRound (rc5_64_24_24_key k0 k1 k2 k3 k4 k5 k6 k7 k8 k9 k10 k11 k12 k13 k14 k15 k16 k17 k18 k19 k20 k21 k22 k23 k24 k25 k26 k27 k28 k29 k30 k31 k32 k33 k34 k35 k36 k37 k38 k39 k40 k41 k42 k43 k44 k45 k46 k47 k48 k49) 21 s = encG rl64 k42 k43 s := by
  simp only [encRound, encG, rotlW_64]; rfl
theorem rc5_64_24_24_decRound_21 (k0 k1 k2 k3 k4 k5 k6 k7 k8 k9 k10 k11 k12 k13 k14 k15 k16 k17 k18 k19 k20 k21 k22 k23 k24 k25 k26 k27 k28 k29 k30 k31 k32 k33 k34 k35 k36 k37 k38 k39 k40 k41 k42 k43 k44 k45 k46 k47 k48 k49 : BitVec 64) (s : St 64) : decRound (rc5_64_24_24_key k0 k1 k2 k3 k4 k5 k6 k7 k8 k9 k10 k11 k12 k13 k14 k15 k16 k17 k18 k19 k20 k21 k22 k23 k24 k25 k26 k27 k28 k29 k30 k31 k32 k33 k34 k35 k36 k37 k38 k39 k40 k41 k42 k43 k44 k45 k46 k47 k48 k49) 21 s = decG rr64 k42 k43 s := by
  simp only [decRound, decG, rotrW_64]; rfl
theorem rc5_64_24_24_encRound_22 (k0 k1 k2 k3 k4 k5 k6 k7 k8 k9 k10 k11 k12 k13 k14 k15 k16 k17 k18 k19 k20 k21 k22 k23 k24 k25 k26 k27 k28 k29 k30 k31 k32 k33 k34 k35 k36 k37 k38 k39 k40 k41 k42 k43 k44 k45 k46 k47 k48 k49 : BitVec 64) (s : St 64) : encRound (rc5_64_24_24_key k0 k1 k2 k3 k4 k5 k6 k7 k8 k9 k10 k11 k12 k13 k14 k15 k16 k17 k18 k19 k20 k21 k22 k23 k24 k25 k26 k27 k28 k29 k30 k31 k32 k33 k34 k35 k36 k37 k38 k39 k40 k41 k42 k43 k44 k45 k46 k47 k48 k49) 22 s = encG rl64 k44 k45 s := by
  simp only [encRound, encG, rotlW_64]; rfl
theorem rc5_64_24_24_decRound_22 (k0 k1 k2 k3 k4 k5 k6 k7 k8 k9 k10 k11 k12 k13 k14 k15 k16 k17 k18 k19 k20 k21 k22 k23 k24 k25 k26 k27 k28 k29 k30 k31 k32 k33 k34 k35 k36 k37 k38 k39 k40 k41 k42 k43 k44 k45 k46 k47 k48 k49 : BitVec 64) (s : St 64) : decRound (rc5_64_24_24_key k0 k1 k2 k3 k4 k5 k6 k7 k8 k9 k10 k11 k12 k13 k14 k15 k16 k17 k18 k19 k20 k21 k22 k23 k24 k25 k26 k27 k28 k29 k30 k31 k32 k33 k34 k35 k36 k37 k38 k39 k40 k41 k42 k43 k44 k45 k46 k47 k48 k49) 22 s = decG rr64 k44 k45 s := by
  simp only [decRound, decG, rotrW_64]; rfl
theorem rc5_64_24_24_encRound_23 (k0 k1 k2 k3 k4 k5 k6 k7 k8 k9 k10 k11 k12 k13 k14 k15 k16 k17 k18 k19 k20 k21 k22 k23 k24 k25 k26 k27 k28 k29 k30 k31 k32 k33 k34 k35 k36 k37 k38 k39 k40 k41 k42 k43 k44 k45 k46 k47 k48 k49 : BitVec 64) (s : St 64) : encRound (rc5_64_24_24_key k0 k1 k2 k3 k4 k5 k6 k7 k8 k9 k10 k11 k12 k13 k14 k15 k16 k17 k18 k19 k20 k21 k22 k23 k24 k25 k26 k27 k28 k29 k30 k31 k32 k33 k34 k35 k36 k37 k38 k39 k40 k41 k42 k43 k44 k45 k46 k47 k48 k49) 23 s = encG rl64 k46 k47 s := by
  simp only [encRound, encG, rotlW_64]; rfl
theorem rc5_64_24_24_decRound_23 (k0 k1 k2 k3 k4 k5 k6 k7 k8 k9 k10 k11 k12 k13 k14 k15 k16 k17 k18 k19 k20 k21 k22 k23 k24 k25 k26 k27 k28 k29 k30 k31 k32 k33 k34 k35 k36 k37 k38 k39 k40 k41 k42 k43 k44 k45 k46 k47 k48 k49 : BitVec 64) (s : St 64) : decRound (rc5_64_24_24_key k0 k1 k2 k3 k4 k5 k6 k7 k8 k9 k10 k11 k12 k13 k14 k15 k16 k17 k18 k19 k20 k21 k22 k23 k24 k25 k26 k27 k28 k29 k30 k31 k32 k33 k34 k35 k36 k37 k38 k39 k40 k41 k42 k43 k44 k45 k46 k47 k48 k49) 23 s = decG rr64 k46 k47 s := by
  simp only [decRound, decG, rotrW_64]; rfl
theorem rc5_64_24_24_encRound_24 (k0 k1 k2 k3 k4 k5 k6 k7 k8 k9 k10 k11 k12 k13 k14 k15 k16 k17 k18 k19 k20 k21 k22 k23 k24 k25 k26 k27 k28 k29 k30 k31 k32 k33 k34 k35 k36 k37 k38 k39 k40 k41 k42 k43 k44 k45 k46 k47 k48 k49 : BitVec 64) (s : St 64) : encRound (rc5_64_24_24_key k0 k1 k2 k3 k4 k5 k6 k7 k8 k9 k10 k11 k12 k13 k14 k15 k16 k17 k18 k19 k20 k21 k22 k23 k24 k25 k26 k27 k28 k29 k30 k31 k32 k33 k34 k35 k36 k37 k38 k39 k40 k41 k42 k43 k44 k45 k46 k47 k48 k49) 24 s = encG rl64 k48 k49 s := by
  simp only [encRound, encG, rotlW_64]; rfl
theorem rc5_64_24_24_decRound_24 (k0 k1 k2 k3 k4 k5 k6 k7 k8 k9 k10 k11 k12 k13 k14 k15 k16 k17 k18 k19 k20 k21 k22 k23 k24 k25 k26 k27 k28 k29 k30 k31 k32 k33 k34 k35 k36 k37 k38 k39 k40 k41 k42 k43 k44 k45 k46 k47 k48 k49 : BitVec 64) (s : St 64) : decRound (rc5_64_24_24_key k0 k1 k2 k3 k4 k5 k6 k7 k8 k9 k10 k11 k12 k13 k14 k15 k16 k17 k18 k19 k20 k21 k22 k23 k24 k25 k26 k27 k28 k29 k30 k31 k32 k33 k34 k35 k36 k37 k38 k39 k40 k41 k42 k43 k44 k45 k46 k47 k48 k49) 24 s = decG rr64 k48 k49 s := by
  simp only [decRound, decG, rotrW_64]; rfl

theorem rc5_64_24_24_encLoop (key : Array (BitVec 64)) (s : St 64) : encLoop key 24 s = encRound key 24 (encRound key 23 (encRound key 22 (encRound key 21 (encRound key 20 (encRound key 19 (encRound key 18 (encRound key 17 (encRound key 16 (encRound key 15 (encRound key 14 (encRound key 13 (encRound key 12 (encRound key 11 (encRound key 10 (encRound key 9 (encRound key 8 (encRound key 7 (encRound key 6 (encRound key 5 (encRound key 4 (encRound key 3 (encRound key 2 (encRound key 1 (s)))))))))))))))))))))))) := rfl
theorem rc5_64_24_24_decLoop (key : Array (BitVec 64)) (s : St 64) : decLoop key 24 s = decRound key 1 (decRound key 2 (decRound key 3 (decRound key 4 (decRound key 5 (decRound key 6 (decRound key 7 (decRound key 8 (decRound key 9 (decRound key 10 (decRound key 11 (decRound key 12 (decRound key 13 (decRound key 14 (decRound key 15 (decRound key 16 (decRound key 17 (decRound key 18 (decRound key 19 (decRound key 20 (decRound key 21 (decRound key 22 (decRound key 23 (decRound key 24 (s)))))))))))))))))))))))) := rfl

theorem rc5_64_24_24_encryptWords (k0 k1 k2 k3 k4 k5 k6 k7 k8 k9 k10 k11 k12 k13 k14 k15 k16 k17 k18 k19 k20 k21 k22 k23 k24 k25 k26 k27 k28 k29 k30 k31 k32 k33 k34 k35 k36 k37 k38 k39 k40 k41 k42 k43 k44 k45 k46 k47 k48 k49 : BitVec 64) (a b : BitVec 64) : encryptWords (rc5_64_24_24_key k0 k1 k2 k3 k4 k5 k6 k7 k8 k9 k10 k11 k12 k13 k14 k15 k16 k17 k18 k19 k20 k21 k22 k23 k24 k25 k26 k27 k28 k29 k30 k31 k32 k33 k34 k35 k36 k37 k38 k39 k40 k41 k42 k43 k44 k45 k46 k47 k48 k49) 24 ⟨a, b⟩ =
    encG rl64 k48 k49 (encG rl64 k46 k47 (encG rl64 k44 k45 (encG rl64 k42 k43 (encG rl64 k40 k41 (encG rl64 k38 k39 (encG rl64 k36 k37 (encG rl64 k34 k35 (encG rl64 k32 k33 (encG rl64 k30 k31 (encG rl64 k28 k29 (encG rl64 k26 k27 (encG rl64 k24 k25 (encG rl64 k22 k23 (encG rl64 k20 k21 (encG rl64 k18 k19 (encG rl64 k16 k17 (encG rl64 k14 k15 (encG rl64 k12 k13 (encG rl64 k10 k11 (encG rl64 k8 k9 (encG rl64 k6 k7 (encG rl64 k4 k5 (encG rl64 k2 k3 (⟨a + k0, b + k1⟩)))))))))))))))))))))))) := by
  simp only [encryptWords, rc5_64_24_24_encLoop, rc5_64_24_24_encRound_1, rc5_64_24_24_encRound_2, rc5_64_24_24_encRound_3, rc5_64_24_24_encRound_4, rc5_64_24_24_encRound_5, rc5_64_24_24_encRound_6, rc5_64_24_24_encRound_7, rc5_64_24_24_encRound_8, rc5_64_24_24_encRound_9, rc5_64_24_24_encRound_10, rc5_64_24_24_encRound_11, rc5_64_24_24_encRound_12, rc5_64_24_24_encRound_13, rc5_64_24_24_encRound_14, rc5_64_24_24_encRound_15, rc5_64_24_24_encRound_16, rc5_64_24_24_encRound_17, rc5_64_24_24_encRound_18, rc5_64_24_24_encRound_19, rc5_64_24_24_encRound_20, rc5_64_24_24_encRound_21, rc5_64_24_24_encRound_22, rc5_64_24_24_encRound_23, rc5_64_24_24_encRound_24]
  rfl

theorem rc5_64_24_24_decryptWords (k0 k1 k2 k3 k4 k5 k6 k7 k8 k9 k10 k11 k12 k13 k14 k15 k16 k17 k18 k19 k20 k21 k22 k23 k24 k25 k26 k27 k28 k29 k30 k31 k32 k33 k34 k35 k36 k37 k38 k39 k40 k41 k42 k43 k44 k45 k46 k47 k48 k49 : BitVec 64) (a b : BitVec 64) : decryptWords (rc5_64_24_24_key k0 k1 k2 k3 k4 k5 k6 k7 k8 k9 k10 k11 k12 k13 k14 k15 k16 k17 k18 k19 k20 k21 k22 k23 k24 k25 k26 k27 k28 k29 k30 k31 k32 k33 k34 k35 k36 k37 k38 k39 k40 k41 k42 k43 k44 k45 k46 k47 k48 k49) 24 ⟨a, b⟩ =
    (fun t : St 64 => ({ a := t.a - k0, b := t.b - k1 } : St 64)) (decG rr64 k2 k3 (decG rr64 k4 k5 (decG rr64 k6 k7 (decG rr64 k8 k9 (decG rr64 k10 k11 (decG rr64 k12 k13 (decG rr64 k14 k15 (decG rr64 k16 k17 (decG rr64 k18 k19 (decG rr64 k20 k21 (decG rr64 k22 k23 (decG rr64 k24 k25 (decG rr64 k26 k27 (decG rr64 k28 k29 (decG rr64 k30 k31 (decG rr64 k32 k33 (decG rr64 k34 k35 (decG rr64 k36 k37 (decG rr64 k38 k39 (decG rr64 k40 k41 (decG rr64 k42 k43 (decG rr64 k44 k45 (decG rr64 k46 k47 (decG rr64 k48 k49 (⟨a, b⟩))))))))))))))))))))))))) := by
  simp only [decryptWords, rc5_64_24_24_decLoop, rc5_64_24_24_decRound_1, rc5_64_24_24_decRound_2, rc5_64_24_24_decRound_3, rc5_64_24_24_decRound_4, rc5_64_24_24_decRound_5, rc5_64_24_24_decRound_6, rc5_64_24_24_decRound_7, rc5_64_24_24_decRound_8, rc5_64_24_24_decRound_9, rc5_64_24_24_decRound_10, rc5_64_24_24_decRound_11, rc5_64_24_24_decRound_12, rc5_64_24_24_decRound_13, rc5_64_24_24_decRound_14, rc5_64_24_24_decRound_15, rc5_64_24_24_decRound_16, rc5_64_24_24_decRound_17, rc5_64_24_24_decRound_18, rc5_64_24_24_decRound_19, rc5_64_24_24_decRound_20, rc5_64_24_24_decRound_21, rc5_64_24_24_decRound_22, rc5_64_24_24_decRound_23, rc5_64_24_24_decRound_24]
  rfl

theorem rc5_64_24_24_gen_enc (k0 k1 k2 k3 k4 k5 k6 k7 k8 k9 k10 k11 k12 k13 k14 k15 k16 k17 k18 k19 k20 k21 k22 k23 k24 k25 k26 k27 k28 k29 k30 k31 k32 k33 k34 k35 k36 k37 k38 k39 k40 k41 k42 k43 k44 k45 k46 k47 k48 k49 : BitVec 64) (block : BitVec 128) : rc5_64_24_24_encrypt_block k0 k1 k2 k3 k4 k5 k6 k7 k8 k9 k10 k11 k12 k13 k14 k15 k16 k17 k18 k19 k20 k21 k22 k23 k24 k25 k26 k27 k28 k29 k30 k31 k32 k33 k34 k35 k36 k37 k38 k39 k40 k41 k42 k43 k44 k45 k46 k47 k48 k49 block =
    (fun y : St 64 => rc5_64_24_24_out y.a y.b) (encG rl64 k48 k49 (encG rl64 k46 k47 (encG rl64 k44 k45 (encG rl64 k42 k43 (encG rl64 k40 k41 (encG rl64 k38 k39 (encG rl64 k36 k37 (encG rl64 k34 k35 (encG rl64 k32 k33 (encG rl64 k30 k31 (encG rl64 k28 k29 (encG rl64 k26 k27 (encG rl64 k24 k25 (encG rl64 k22 k23 (encG rl64 k20 k21 (encG rl64 k18 k19 (encG rl64 k16 k17 (encG rl64 k14 k15 (encG rl64 k12 k13 (encG rl64 k10 k11 (encG rl64 k8 k9 (encG rl64 k6 k7 (encG rl64 k4 k5 (encG rl64 k2 k3 (⟨rc5_64_24_24_a block + k0, rc5_64_24_24_b block + k1⟩))))))))))))))))))))))))) := by
  unfold rc5_64_24_24_encrypt_block
  extract_lets -merge
  name_lets
  have h0 : ({ a := rc5_64_24_24_a block + k0, b := rc5_64_24_24_b block + k1 } : St 64) = ⟨wrapping_add_r, wrapping_add_r_1⟩ := rfl
  have h1 : encG rl64 k2 k3 ⟨wrapping_add_r, wrapping_add_r_1⟩ = ⟨wrapping_add_r_2, wrapping_add_r_3⟩ := rfl
  have h2 : encG rl64 k4 k5 ⟨wrapping_add_r_2, wrapping_add_r_3⟩ = ⟨wrapping_add_r_4, wrapping_add_r_5⟩ := rfl
  have h3 : encG rl64 k6 k7 ⟨wrapping_add_r_4, wrapping_add_r_5⟩ = ⟨wrapping_add_r_6, wrapping_add_r_7⟩ := rfl
  have h4 : encG rl64 k8 k9 ⟨wrapping_add_r_6, wrapping_add_r_7⟩ = ⟨wrapping_add_r_8, wrapping_add_r_9⟩ := rfl
  have h5 : encG rl64 k10 k11 ⟨wrapping_add_r_8, wrapping_add_r_9⟩ = ⟨wrapping_add_r_10, wrapping_add_r_11⟩ := rfl
  have h6 : encG rl64 k12 k13 ⟨wrapping_add_r_10, wrapping_add_r_11⟩ = ⟨wrapping_add_r_12, wrapping_add_r_13⟩ := rfl
  have h7 : encG rl64 k14 k15 ⟨wrapping_add_r_12, wrapping_add_r_13⟩ = ⟨wrapping_add_r_14, wrapping_add_r_15⟩ := rfl
  have h8 : encG rl64 k16 k17 ⟨wrapping_add_r_14, wrapping_add_r_15⟩ = ⟨wrapping_add_r_16, wrapping_add_r_17⟩ := rfl
  have h9 : encG rl64 k18 k19 ⟨wrapping_add_r_16, wrapping_add_r_17⟩ = ⟨wrapping_add_r_18, wrapping_add_r_19⟩ := rfl
  have h10 : encG rl64 k20 k21 ⟨wrapping_add_r_18, wrapping_add_r_19⟩ = ⟨wrapping_add_r_20, wrapping_add_r_21⟩ := rfl
  have h11 : encG rl64 k22 k23 ⟨wrapping_add_r_20, wrapping_add_r_21⟩ = ⟨wrapping_add_r_22, wrapping_add_r_23⟩ := rfl
  have h12 : encG rl64 k24 k25 ⟨wrapping_add_r_22, wrapping_add_r_23⟩ = ⟨wrapping_add_r_24, wrapping_add_r_25⟩ := rfl
  have h13 : encG rl64 k26 k27 ⟨wrapping_add_r_24, wrapping_add_r_25⟩ = ⟨wrapping_add_r_26, wrapping_add_r_27⟩ := rfl
  have h14 : encG rl64 k28 k29 ⟨wrapping_add_r_26, wrapping_add_r_27⟩ = ⟨wrapping_add_r_28, wrapping_add_r_29⟩ := rfl
  have h15 : encG rl64 k30 k31 ⟨wrapping_add_r_28, wrapping_add_r_29⟩ = ⟨wrapping_add_r_30, wrapping_add_r_31⟩ := rfl
  have h16 : encG rl64 k32 k33 ⟨wrapping_add_r_30, wrapping_add_r_31⟩ = ⟨wrapping_add_r_32, wrapping_add_r_33⟩ := rfl
  have h17 : encG rl64 k34 k35 ⟨wrapping_add_r_32, wrapping_add_r_33⟩ = ⟨wrapping_add_r_34, wrapping_add_r_35⟩ := rfl
  have h18 : encG rl64 k36 k37 ⟨wrapping_add_r_34, wrapping_add_r_35⟩ = ⟨wrapping_add_r_36, wrapping_add_r_37⟩ := rfl
  have h19 : encG rl64 k38 k39 ⟨wrapping_add_r_36, wrapping_add_r_37⟩ = ⟨wrapping_add_r_38, wrapping_add_r_39⟩ := rfl
  have h20 : encG rl64 k40 k41 ⟨wrapping_add_r_38, wrapping_add_r_39⟩ = ⟨wrapping_add_r_40, wrapping_add_r_41⟩ := rfl
  have h21 : encG rl64 k42 k43 ⟨wrapping_add_r_40, wrapping_add_r_41⟩ = ⟨wrapping_add_r_42, wrapping_add_r_43⟩ := rfl
  have h22 : encG rl64 k44 k45 ⟨wrapping_add_r_42, wrapping_add_r_43⟩ = ⟨wrapping_add_r_44, wrapping_add_r_45⟩ := rfl
  have h23 : encG rl64 k46 k47 ⟨wrapping_add_r_44, wrapping_add_r_45⟩ = ⟨wrapping_add_r_46, wrapping_add_r_47⟩ := rfl
  have h24 : encG rl64 k48 k49 ⟨wrapping_add_r_46, wrapping_add_r_47⟩ = ⟨wrapping_add_r_48, wrapping_add_r_49⟩ := rfl
  rw [h0, h1, h2, h3, h4, h5, h6, h7, h8, h9, h10, h11, h12, h13, h14, h15, h16, h17, h18, h19, h20, h21, h22, h23, h24]
  all_goals rfl

theorem rc5_64_24_24_gen_dec (k0 k1 k2 k3 k4 k5 k6 k7 k8 k9 k10 k11 k12 k13 k14 k15 k16 k17 k18 k19 k20 k21 k22 k23 k24 k25 k26 k27 k28 k29 k30 k31 k32 k33 k34 k35 k36 k37 k38 k39 k40 k41 k42 k43 k44 k45 k46 k47 k48 k49 : BitVec 64) (block : BitVec 128) : rc5_64_24_24_decrypt_block k0 k1 k2 k3 k4 k5 k6 k7 k8 k9 k10 k11 k12 k13 k14 k15 k16 k17 k18 k19 k20 k21 k22 k23 k24 k25 k26 k27 k28 k29 k30 k31 k32 k33 k34 k35 k36 k37 k38 k39 k40 k41 k42 k43 k44 k45 k46 k47 k48 k49 block =
    (fun y : St 64 => rc5_64_24_24_out y.a y.b) ((fun t : St 64 => ({ a := t.a - k0, b := t.b - k1 } : St 64)) (decG rr64 k2 k3 (decG rr64 k4 k5 (decG rr64 k6 k7 (decG rr64 k8 k9 (decG rr64 k10 k11 (decG rr64 k12 k13 (decG rr64 k14 k15 (decG rr64 k16 k17 (decG rr64 k18 k19 (decG rr64 k20 k21 (decG rr64 k22 k23 (decG rr64 k24 k25 (decG rr64 k26 k27 (decG rr64 k28 k29 (decG rr64 k30 k31 (decG rr64 k32 k33 (decG rr64 k34 k35 (decG rr64 k36 k37 (decG rr64 k38 k39 (decG rr64 k40 k41 (decG rr64 k42 k43 (decG rr64 k44 k45 (decG rr64 k46 k47 (decG rr64 k48 k49 (⟨rc5_64_24_24_a block, rc5_64_24_24_b block⟩)))))))))))))))))))))))))) := by
  unfold rc5_64_24_24_decrypt_block
  extract_lets -merge
  name_lets
  have h0 : decG rr64 k48 k49 ⟨rc5_64_24_24_a block, rc5_64_24_24_b block⟩ = ⟨bitxor_r_1, bitxor_r⟩ := rfl
  have h1 : decG rr64 k46 k47 ⟨bitxor_r_1, bitxor_r⟩ = ⟨bitxor_r_3, bitxor_r_2⟩ := rfl
  have h2 : decG rr64 k44 k45 ⟨bitxor_r_3, bitxor_r_2⟩ = ⟨bitxor_r_5, bitxor_r_4⟩ := rfl
  have h3 : decG rr64 k42 k43 ⟨bitxor_r_5, bitxor_r_4⟩ = ⟨bitxor_r_7, bitxor_r_6⟩ := rfl
  have h4 : decG rr64 k40 k41 ⟨bitxor_r_7, bitxor_r_6⟩ = ⟨bitxor_r_9, bitxor_r_8⟩ := rfl
  have h5 : decG rr64 k38 k39 ⟨bitxor_r_9, bitxor_r_8⟩ = ⟨bitxor_r_11, bitxor_r_10⟩ := rfl
  have h6 : decG rr64 k36 k37 ⟨bitxor_r_11, bitxor_r_10⟩ = ⟨bitxor_r_13, bitxor_r_12⟩ := rfl
  have h7 : decG rr64 k34 k35 ⟨bitxor_r_13, bitxor_r_12⟩ = ⟨bitxor_r_15, bitxor_r_14⟩ := rfl
  have h8 : decG rr64 k32 k33 ⟨bitxor_r_15, bitxor_r_14⟩ = ⟨bitxor_r_17, bitxor_r_16⟩ := rfl
  have h9 : decG rr64 k30 k31 ⟨bitxor_r_17, bitxor_r_16⟩ = ⟨bitxor_r_19, bitxor_r_18⟩ := rfl
  have h10 : decG rr64 k28 k29 ⟨bitxor_r_19, bitxor_r_18⟩ = ⟨bitxor_r_21, bitxor_r_20⟩ := rfl
  have h11 : decG rr64 k26 k27 ⟨bitxor_r_21, bitxor_r_20⟩ = ⟨bitxor_r_23, bitxor_r_22⟩ := rfl
  have h12 : decG rr64 k24 k25 ⟨bitxor_r_23, bitxor_r_22⟩ = ⟨bitxor_r_25, bitxor_r_24⟩ := rfl
  have h13 : decG rr64 k22 k23 ⟨bitxor_r_25, bitxor_r_24⟩ = ⟨bitxor_r_27, bitxor_r_26⟩ := rfl
  have h14 : decG rr64 k20 k21 ⟨bitxor_r_27, bitxor_r_26⟩ = ⟨bitxor_r_29, bitxor_r_28⟩ := rfl
  have h15 : decG rr64 k18 k19 ⟨bitxor_r_29, bitxor_r_28⟩ = ⟨bitxor_r_31, bitxor_r_30⟩ := rfl
  have h16 : decG rr64 k16 k17 ⟨bitxor_r_31, bitxor_r_30⟩ = ⟨bitxor_r_33, bitxor_r_32⟩ := rfl
  have h17 : decG rr64 k14 k15 ⟨bitxor_r_33, bitxor_r_32⟩ = ⟨bitxor_r_35, bitxor_r_34⟩ := rfl
  have h18 : decG rr64 k12 k13 ⟨bitxor_r_35, bitxor_r_34⟩ = ⟨bitxor_r_37, bitxor_r_36⟩ := rfl
  have h19 : decG rr64 k10 k11 ⟨bitxor_r_37, bitxor_r_36⟩ = ⟨bitxor_r_39, bitxor_r_38⟩ := rfl
  have h20 : decG rr64 k8 k9 ⟨bitxor_r_39, bitxor_r_38⟩ = ⟨bitxor_r_41, bitxor_r_40⟩ := rfl
  have h21 : decG rr64 k6 k7 ⟨bitxor_r_41, bitxor_r_40⟩ = ⟨bitxor_r_43, bitxor_r_42⟩ := rfl
  have h22 : decG rr64 k4 k5 ⟨bitxor_r_43, bitxor_r_42⟩ = ⟨bitxor_r_45, bitxor_r_44⟩ := rfl
  have h23 : decG rr64 k2 k3 ⟨bitxor_r_45, bitxor_r_44⟩ = ⟨bitxor_r_47, bitxor_r_46⟩ := rfl
  rw [h0, h1, h2, h3, h4, h5, h6, h7, h8, h9, h10, h11, h12, h13, h14, h15, h16, h17, h18, h19, h20, h21, h22, h23]
  all_goals rfl

/-- `RC5<u64, U24, U24>::encrypt_block` as regenerated from the Rust source IS the model's `encryptBlock`, for all key tables and blocks -/
theorem rc5_64_24_24_encrypt_block_eq (k0 k1 k2 k3 k4 k5 k6 k7 k8 k9 k10 k11 k12 k13 k14 k15 k16 k17 k18 k19 k20 k21 k22 k23 k24 k25 k26 k27 k28 k29 k30 k31 k32 k33 k34 k35 k36 k37 k38 k39 k40 k41 k42 k43 k44 k45 k46 k47 k48 k49 : BitVec 64) (block : BitVec 128) :
    unpackBE 16 (rc5_64_24_24_encrypt_block k0 k1 k2 k3 k4 k5 k6 k7 k8 k9 k10 k11 k12 k13 k14 k15 k16 k17 k18 k19 k20 k21 k22 k23 k24 k25 k26 k27 k28 k29 k30 k31 k32 k33 k34 k35 k36 k37 k38 k39 k40 k41 k42 k43 k44 k45 k46 k47 k48 k49 block) = encryptBlock (rc5_64_24_24_key k0 k1 k2 k3 k4 k5 k6 k7 k8 k9 k10 k11 k12 k13 k14 k15 k16 k17 k18 k19 k20 k21 k22 k23 k24 k25 k26 k27 k28 k29 k30 k31 k32 k33 k34 k35 k36 k37 k38 k39 k40 k41 k42 k43 k44 k45 k46 k47 k48 k49) 24 (unpackBE 16 block) := by
  rw [encryptBlock, rc5_64_24_24_load, rc5_64_24_24_encryptWords, rc5_64_24_24_store, rc5_64_24_24_gen_enc]

/-- `RC5<u64, U24, U24>::decrypt_block` as regenerated from the Rust source IS the model's `decryptBlock` -/
theorem rc5_64_24_24_decrypt_block_eq (k0 k1 k2 k3 k4 k5 k6 k7 k8 k9 k10 k11 k12 k13 k14 k15 k16 k17 k18 k19 k20 k21 k22 k23 k24 k25 k26 k27 k28 k29 k30 k31 k32 k33 k34 k35 k36 k37 k38 k39 k40 k41 k42 k43 k44 k45 k46 k47 k48 k49 : BitVec 64) (block : BitVec 128) :
    unpackBE 16 (rc5_64_24_24_decrypt_block k0 k1 k2 k3 k4 k5 k6 k7 k8 k9 k10 k11 k12 k13 k14 k15 k16 k17 k18 k19 k20 k21 k22 k23 k24 k25 k26 k27 k28 k29 k30 k31 k32 k33 k34 k35 k36 k37 k38 k39 k40 k41 k42 k43 k44 k45 k46 k47 k48 k49 block) = decryptBlock (rc5_64_24_24_key k0 k1 k2 k3 k4 k5 k6 k7 k8 k9 k10 k11 k12 k13 k14 k15 k16 k17 k18 k19 k20 k21 k22 k23 k24 k25 k26 k27 k28 k29 k30 k31 k32 k33 k34 k35 k36 k37 k38 k39 k40 k41 k42 k43 k44 k45 k46 k47 k48 k49) 24 (unpackBE 16 block) := by
  rw [decryptBlock, rc5_64_24_24_load, rc5_64_24_24_decryptWords, rc5_64_24_24_store, rc5_64_24_24_gen_dec]

/-- the same for an arbitrary 16-byte block given as a byte list -/
theorem rc5_64_24_24_encryptBlock_bytes (k0 k1 k2 k3 k4 k5 k6 k7 k8 k9 k10 k11 k12 k13 k14 k15 k16 k17 k18 k19 k20 k21 k22 k23 k24 k25 k26 k27 k28 k29 k30 k31 k32 k33 k34 k35 k36 k37 k38 k39 k40 k41 k42 k43 k44 k45 k46 k47 k48 k49 : BitVec 64) (bs : Bytes) (h : bs.length = 16) :
    encryptBlock (rc5_64_24_24_key k0 k1 k2 k3 k4 k5 k6 k7 k8 k9 k10 k11 k12 k13 k14 k15 k16 k17 k18 k19 k20 k21 k22 k23 k24 k25 k26 k27 k28 k29 k30 k31 k32 k33 k34 k35 k36 k37 k38 k39 k40 k41 k42 k43 k44 k45 k46 k47 k48 k49) 24 bs = unpackBE 16 (rc5_64_24_24_encrypt_block k0 k1 k2 k3 k4 k5 k6 k7 k8 k9 k10 k11 k12 k13 k14 k15 k16 k17 k18 k19 k20 k21 k22 k23 k24 k25 k26 k27 k28 k29 k30 k31 k32 k33 k34 k35 k36 k37 k38 k39 k40 k41 k42 k43 k44 k45 k46 k47 k48 k49 (packBE 16 bs)) := by
  rw [rc5_64_24_24_encrypt_block_eq, BC.GenCipher.Speck.unpackBE_packBE _ _ h]
theorem rc5_64_24_24_decryptBlock_bytes (k0 k1 k2 k3 k4 k5 k6 k7 k8 k9 k10 k11 k12 k13 k14 k15 k16 k17 k18 k19 k20 k21 k22 k23 k24 k25 k26 k27 k28 k29 k30 k31 k32 k33 k34 k35 k36 k37 k38 k39 k40 k41 k42 k43 k44 k45 k46 k47 k48 k49 : BitVec 64) (bs : Bytes) (h : bs.length = 16) :
    decryptBlock (rc5_64_24_24_key k0 k1 k2 k3 k4 k5 k6 k7 k8 k9 k10 k11 k12 k13 k14 k15 k16 k17 k18 k19 k20 k21 k22 k23 k24 k25 k26 k27 k28 k29 k30 k31 k32 k33 k34 k35 k36 k37 k38 k39 k40 k41 k42 k43 k44 k45 k46 k47 k48 k49) 24 bs = unpackBE 16 (rc5_64_24_24_decrypt_block k0 k1 k2 k3 k4 k5 k6 k7 k8 k9 k10 k11 k12 k13 k14 k15 k16 k17 k18 k19 k20 k21 k22 k23 k24 k25 k26 k27 k28 k29 k30 k31 k32 k33 k34 k35 k36 k37 k38 k39 k40 k41 k42 k43 k44 k45 k46 k47 k48 k49 (packBE 16 bs)) := by
  rw [rc5_64_24_24_decrypt_block_eq, BC.GenCipher.Speck.unpackBE_packBE _ _ h]

/-! ### rc5_8_12_4: `RC5<u8, U12, U4>`, 2-byte block, 12 rounds, 26 key-table words -/

def rc5_8_12_4_key (k0 k1 k2 k3 k4 k5 k6 k7 k8 k9 k10 k11 k12 k13 k14 k15 k16 k17 k18 k19 k20 k21 k22 k23 k24 k25 : BitVec 8) : Array (BitVec 8) := #[k0, k1, k2, k3, k4, k5, k6, k7, k8, k9, k10, k11, k12, k13, k14, k15, k16, k17, k18, k19, k20, k21, k22, k23, k24, k25]
/-- the generated `a`, `b` (block bytes → words, little-endian) and output expression -/
def rc5_8_12_4_a (block : BitVec 16) : BitVec 8 := ((block.extractLsb' 8 8))
def rc5_8_12_4_b (block : BitVec 16) : BitVec 8 := ((block.extractLsb' 0 8))
def rc5_8_12_4_out (a b : BitVec 8) : BitVec 16 := (a.extractLsb' 0 8) ++ (b.extractLsb' 0 8)

theorem rc5_8_12_4_load (block : BitVec 16) :
    wordsFromBlock 8 (unpackBE 2 block) = ⟨rc5_8_12_4_a block, rc5_8_12_4_b block⟩ := by
  have h : wordsFromBlock 8 (unpackBE 2 block) = ⟨fromLE 8 [(block >>> 8).setWidth 8], fromLE 8 [(block >>> 0).setWidth 8]⟩ := rfl
  rw [h]
  simp only [fromLE_fold, List.foldr_cons, List.foldr_nil, rc5_8_12_4_a, rc5_8_12_4_b, St.mk.injEq]
  constructor <;> bv_decide (config := { timeout := 300 })

theorem rc5_8_12_4_store (s : St 8) : blockFromWords s = unpackBE 2 (rc5_8_12_4_out s.a s.b) := by
  have h2 : blockFromWords s = [(s.a >>> 0).setWidth 8, (s.b >>> 0).setWidth 8] := by
    rw [blockFromWords, toLE_eq, toLE_eq]; rfl
  have h3 : ∀ o : BitVec 16, unpackBE 2 o = [(o >>> 8).setWidth 8, (o >>> 0).setWidth 8] := fun _ => rfl
  rw [h2, h3]
  simp only [rc5_8_12_4_out, List.cons.injEq, and_true]
  bv_decide (config := { timeout := 300 })

theorem rc5_8_12_4_encRound_1 (k0 k1 k2 k3 k4 k5 k6 k7 k8 k9 k10 k11 k12 k13 k14 k15 k16 k17 k18 k19 k20 k21 k22 k23 k24 k25 : BitVec 8) (s : St 8) : encRound (rc5_8_12_4_key k0 k1 k2 k3 k4 k5 k6 k7 k8 k9 k10 k11 k12 k13 k14 k15 k16 k17 k18 k19 k20 k21 k22 k23 k24 k25) 1 s = encG rl8 k2 k3 s := by
  simp only [encRound, encG, rotlW_8]; rfl
theorem rc5_8_12_4_decRound_1 (k0 k1 k2 k3 k4 k5 k6 k7 k8 k9 k10 k11 k12 k13 k14 k15 k16 k17 k18 k19 k20 k21 k22 k23 k24 k25 : BitVec 8) (s : St 8) : decRound (rc5_8_12_4_key k0 k1 k2 k3 k4 k5 k6 k7 k8 k9 k10 k11 k12 k13 k14 k15 k16 k17 k18 k19 k20 k21 k22 k23 k24 k25) 1 s = decG rr8 k2 k3 s := by
  simp only [decRound, decG, rotrW_8]; rfl
theorem rc5_8_12_4_encRound_2 (k0 k1 k2 k3 k4 k5 k6 k7 k8 k9 k10 k11 k12 k13 k14 k15 k16 k17 k18 k19 k20 k21 k22 k23 k24 k25 : BitVec 8) (s : St 8) : encRound (rc5_8_12_4_key k0 k1 k2 k3 k4 k5 k6 k7 k8 k9 k10 k11 k12 k13 k14 k15 k16 k17 k18 k19 k20 k21 k22 k23 k24 k25) 2 s = encG rl8 k4 k5 s := by
  simp only [encRound, encG, rotlW_8]; rfl
theorem rc5_8_12_4_decRound_2 (k0 k1 k2 k3 k4 k5 k6 k7 k8 k9 k10 k11 k12 k13 k14 k15 k16 k17 k18 k19 k20 k21 k22 k23 k24 k25 : BitVec 8) (s : St 8) : decRound (rc5_8_12_4_key k0 k1 k2 k3 k4 k5 k6 k7 k8 k9 k10 k11 k12 k13 k14 k15 k16 k17 k18 k19 k20 k21 k22 k23 k24 k25) 2 s = decG rr8 k4 k5 s := by
  simp only [decRound, decG, rotrW_8]; rfl
theorem rc5_8_12_4_encRound_3 (k0 k1 k2 k3 k4 k5 k6 k7 k8 k9 k10 k11 k12 k13 k14 k15 k16 k17 k18 k19 k20 k21 k22 k23 k24 k25 : BitVec 8) (s : St 8) : encRound (rc5_8_12_4_key k0 k1 k2 k3 k4 k5 k6 k7 k8 k9 k10 k11 k12 k13 k14 k15 k16 k17 k18 k19 k20 k21 k22 k23 k24 k25) 3 s = encG rl8 k6 k7 s := by
  simp only [encRound, encG, rotlW_8]; rfl
theorem rc5_8_12_4_decRound_3 (k0 k1 k2 k3 k4 k5 k6 k7 k8 k9 k10 k11 k12 k13 k14 k15 k16 k17 k18 k19 k20 k21 k22 k23 k24 k25 : BitVec 8) (s : St 8) : decRound (rc5_8_12_4_key k0 k1 k2 k3 k4 k5 k6 k7 k8 k9 k10 k11 k12 k13 k14 k15 k16 k17 k18 k19 k20 k21 k22 k23 k24 k25) 3 s = decG rr8 k6 k7 s := by
  simp only [decRound, decG, rotrW_8]; rfl
theorem rc5_8_12_4_encRound_4 (k0 k1 k2 k3 k4 k5 k6 k7 k8 k9 k10 k11 k12 k13 k14 k15 k16 k17 k18 k19 k20 k21 k22 k23 k24 k25 : BitVec 8) (s : St 8) : encRound (rc5_8_12_4_key k0 k1 k2 k3 k4 k5 k6 k7 k8 k9 k10 k11 k12 k13 k14 k15 k16 k17 k18 k19 k20 k21 k22 k23 k24 k25) 4 s = encG rl8 k8 k9 s := by
  simp only [encRound, encG, rotlW_8]; rfl
theorem rc5_8_12_4_decRound_4 (k0 k1 k2 k3 k4 k5 k6 k7 k8 k9 k10 k11 k12 k13 k14 k15 k16 k17 k18 k19 k20 k21 k22 k23 k24 k25 : BitVec 8) (s : St 8) : decRound (rc5_8_12_4_key k0 k1 k2 k3 k4 k5 k6 k7 k8 k9 k10 k11 k12 k13 k14 k15 k16 k17 k18 k19 k20 k21 k22 k23 k24 k25) 4 s = decG rr8 k8 k9 s := by
  simp only [decRound, decG, rotrW_8]; rfl
theorem rc5_8_12_4_encRound_5 (k0 k1 k2 k3 k4 k5 k6 k7 k8 k9 k10 k11 k12 k13 k14 k15 k16 k17 k18 k19 k20 k21 k22 k23 k24 k25 : BitVec 8) (s : St 8) : encRound (rc5_8_12_4_key k0 k1 k2 k3 k4 k5 k6 k7 k8 k9 k10 k11 k12 k13 k14 k15 k16 k17 k18 k19 k20 k21 k22 k23 k24 k25) 5 s = encG rl8 k10 k11 s := by
  simp only [encRound, encG, rotlW_8]; rfl
theorem rc5_8_12_4_decRound_5 (k0 k1 k2 k3 k4 k5 k6 k7 k8 k9 k10 k11 k12 k13 k14 k15 k16 k17 k18 k19 k20 k21 k22 k23 k24 k25 : BitVec 8) (s : St 8) : decRound (rc5_8_12_4_key k0 k1 k2 k3 k4 k5 k6 k7 k8 k9 k10 k11 k12 k13 k14 k15 k16 k17 k18 k19 k20 k21 k22 k23 k24 k25) 5 s = decG rr8 k10 k11 s := by
  simp only [decRound, decG, rotrW_8]; rfl
theorem rc5_8_12_4_encRound_6 (k0 k1 k2 k3 k4 k5 k6 k7 k8 k9 k10 k11 k12 k13 k14 k15 k16 k17 k18 k19 k20 k21 k22 k23 k24 k25 : BitVec 8) (s : St 8) : encRound (rc5_8_12_4_key k0 k1 k2 k3 k4 k5 k6 k7 k8 k9 k10 k11 k12 k13 k14 k15 k16 k17 k18 k19 k20 k21 k22 k23 k24 k25) 6 s = encG rl8 k12 k13 s := by
  simp only [encRound, encG, rotlW_8]; rfl
theorem rc5_8_12_4_decRound_6 (k0 k1 k2 k3 k4 k5 k6 k7 k8 k9 k10 k11 k12 k13 k14 k15 k16 k17 k18 k19 k20 k21 k22 k23 k24 k25 : BitVec 8) (s : St 8) : decRound (rc5_8_12_4_key k0 k1 k2 k3 k4 k5 k6 k7 k8 k9 k10 k11 k12 k13 k14 k15 k16 k17 k18 k19 k20 k21 k22 k23 k24 k25) 6 s = decG rr8 k12 k13 s := by
  simp only [decRound, decG, rotrW_8]; rfl
theorem rc5_8_12_4_encRound_7 (k0 k1 k2 k3 k4 k5 k6 k7 k8 k9 k10 k11 k12 k13 k14 k15 k16 k17 k18 k19 k20 k21 k22 k23 k24 k25 : BitVec 8) (s : St 8) : encRound (rc5_8_12_4_key k0 k1 k2 k3 k4 k5 k6 k7 k8 k9 k10 k11 k12 k13 k14 k15 k16 k17 k18 k19 k20 k21 k22 k23 k24 k25) 7 s = encG rl8 k14 k15 s := by
  simp only [encRound, encG, rotlW_8]; rfl
theorem rc5_8_12_4_decRound_7 (k0 k1 k2 k3 k4 k5 k6 k7 k8 k9 k10 k11 k12 k13 k14 k15 k16 k17 k18 k19 k20 k21 k22 k23 k24 k25 : BitVec 8) (s : St 8) : decRound (rc5_8_12_4_key k0 k1 k2 k3 k4 k5 k6 k7 k8 k9 k10 k11 k12 k13 k14 k15 k16 k17 k18 k19 k20 k21 k22 k23 k24 k25) 7 s = decG rr8 k14 k15 s := by
  simp only [decRound, decG, rotrW_8]; rfl
theorem rc5_8_12_4_encRound_8 (k0 k1 k2 k3 k4 k5 k6 k7 k8 k9 k10 k11 k12 k13 k14 k15 k16 k17 k18 k19 k20 k21 k22 k23 k24 k25 : BitVec 8) (s : St 8) : encRound (rc5_8_12_4_key k0 k1 k2 k3 k4 k5 k6 k7 k8 k9 k10 k11 k12 k13 k14 k15 k16 k17 k18 k19 k20 k21 k22 k23 k24 k25) 8 s = encG rl8 k16 k17 s := by
  simp only [encRound, encG, rotlW_8]; rfl
theorem rc5_8_12_4_decRound_8 (k0 k1 k2 k3 k4 k5 k6 k7 k8 k9 k10 k11 k12 k13 k14 k15 k16 k17 k18 k19 k20 k21 k22 k23 k24 k25 : BitVec 8) (s : St 8) : decRound (rc5_8_12_4_key k0 k1 k2 k3 k4 k5 k6 k7 k8 k9 k10 k11 k12 k13 k14 k15 k16 k17 k18 k19 k20 k21 k22 k23 k24 k25) 8 s = decG rr8 k16 k17 s := by
  simp only [decRound, decG, rotrW_8]; rfl
theorem rc5_8_12_4_encRound_9 (k0 k1 k2 k3 k4 k5 k6 k7 k8 k9 k10 k11 k12 k13 k14 k15 k16 k17 k18 k19 k20 k21 k22 k23 k24 k25 : BitVec 8) (s : St 8) : encRound (rc5_8_12_4_key k0 k1 k2 k3 k4 k5 k6 k7 k8 k9 k10 k11 k12 k13 k14 k15 k16 k17 k18 k19 k20 k21 k22 k23 k24 k25) 9 s = encG rl8 k18 k19 s := by
  simp only [encRound, encG, rotlW_8]; rfl
theorem rc5_8_12_4_decRound_9 (k0 k1 k2 k3 k4 k5 k6 k7 k8 k9 k10 k11 k12 k13 k14 k15 k16 k17 k18 k19 k20 k21 k22 k23 k24 k25 : BitVec 8) (s : St 8) : decRound (rc5_8_12_4_key k0 k1 k2 k3 k4 k5 k6 k7 k8 k9 k10 k11 k12 k13 k14 k15 k16 k17 k18 k19 k20 k21 k22 k23 k24 k25) 9 s = decG rr8 k18 k19 s := by
  simp only [decRound, decG, rotrW_8]; rfl
theorem rc5_8_12_4_encRound_10 (k0 k1 k2 k3 k4 k5 k6 k7 k8 k9 k10 k11 k12 k13 k14 k15 k16 k17 k18 k19 k20 k21 k22 k23 k24 k25 : BitVec 8) (s : St 8) : encRound (rc5_8_12_4_key k0 k1 k2 k3 k4 k5 k6 k7 k8 k9 k10 k11 k12 k13 k14 k15 k16 k17 k18 k19 k20 k21 k22 k23 k24 k25) 10 s = encG rl8 k20 k21 s := by
  simp only [encRound, encG, rotlW_8]; rfl
theorem rc5_8_12_4_decRound_10 (k0 k1 k2 k3 k4 k5 k6 k7 k8 k9 k10 k11 k12 k13 k14 k15 k16 k17 k18 k19 k20 k21 k22 k23 k24 k25 : BitVec 8) (s : St 8) : decRound (rc5_8_12_4_key k0 k1 k2 k3 k4 k5 k6 k7 k8 k9 k10 k11 k12 k13 k14 k15 k16 k17 k18 k19 k20 k21 k22 k23 k24 k25) 10 s = decG rr8 k20 k21 s := by
  simp only [decRound, decG, rotrW_8]; rfl
theorem rc5_8_12_4_encRound_11 (k0 k1 k2 k3 k4 k5 k6 k7 k8 k9 k10 k11 k12 k13 k14 k15 k16 k17 k18 k19 k20 k21 k22 k23 k24 k25 : BitVec 8) (s : St 8) : encRound (rc5_8_12_4_key k0 k1 k2 k3 k4 k5 k6 k7 k8 k9 k10 k11 k12 k13 k14 k15 k16 k17 k18 k19 k20 k21 k22 k23 k24 k25) 11 s = encG rl8 k22 k23 s := by
  simp only [encRound, encG, rotlW_8]; rfl
theorem rc5_8_12_4_decRound_11 (k0 k1 k2 k3 k4 k5 k6 k7 k8 k9 k10 k11 k12 k13 k14 k15 k16 k17 k18 k19 k20 k21 k22 k23 k24 k25 : BitVec 8) (s : St 8) : decRound (rc5_8_12_4_key k0 k1 k2 k3 k4 k5 k6 k7 k8 k9 k10 k11 k12 k13 k14 k15 k16 k17 k18 k19 k20 k21 k22 k23 k24 k25) 11 s = decG rr8 k22 k23 s := by
  simp only [decRound, decG, rotrW_8]; rfl
theorem rc5_8_12_4_encRound_12 (k0 k1 k2 k3 k4 k5 k6 k7 k8 k9 k10 k11 k12 k13 k14 k15 k16 k17 k18 k19 k20 k21 k22 k23 k24 k25 : BitVec 8) (s : St 8) : encRound (rc5_8_12_4_key k0 k1 k2 k3 k4 k5 k6 k7 k8 k9 k10 k11 k12 k13 k14 k15 k16 k17 k18 k19 k20 k21 k22 k23 k24 k25) 12 s = encG rl8 k24 k25 s := by
  simp only [encRound, encG, rotlW_8]; rfl
theorem rc5_8_12_4_decRound_12 (k0 k1 k2 k3 k4 k5 k6 k7 k8 k9 k10 k11 k12 k13 k14 k15 k16 k17 k18 k19 k20 k21 k22 k23 k24 k25 : BitVec 8) (s : St 8) : decRound (rc5_8_12_4_key k0 k1 k2 k3 k4 k5 k6 k7 k8 k9 k10 k11 k12 k13 k14 k15 k16 k17 k18 k19 k20 k21 k22 k23 k24 k25) 12 s = decG rr8 k24 k25 s := by
  simp only [decRound, decG, rotrW_8]; rfl

theorem rc5_8_12_4_encLoop (key : Array (BitVec 8)) (s : St 8) : encLoop key 12 s = encRound key 12 (encRound key 11 (encRound key 10 (encRound key 9 (encRound key 8 (encRound key 7 (encRound key 6 (encRound key 5 (encRound key 4 (encRound key 3 (encRound key 2 (encRound key 1 (s)))))))))))) := rfl
theorem rc5_8_12_4_decLoop (key : Array (BitVec 8)) (s : St 8) : decLoop key 12 s = decRound key 1 (decRound key 2 (decRound key 3 (decRound key 4 (decRound key 5 (decRound key 6 (decRound key 7 (decRound key 8 (decRound key 9 (decRound key 10 (decRound key 11 (decRound key 12 (s)))))))))))) := rfl

theorem rc5_8_12_4_encryptWords (k0 k1 k2 k3 k4 k5 k6 k7 k8 k9 k10 k11 k12 k13 k14 k15 k16 k17 k18 k19 k20 k21 k22 k23 k24 k25 : BitVec 8) (a b : BitVec 8) : encryptWords (rc5_8_12_4_key k0 k1 k2 k3 k4 k5 k6 k7 k8 k9 k10 k11 k12 k13 k14 k15 k16 k17 k18 k19 k20 k21 k22 k23 k24 k25) 12 ⟨a, b⟩ =
    encG rl8 k24 k25 (encG rl8 k22 k23 (encG rl8 k20 k21 (encG rl8 k18 k19 (encG rl8 k16 k17 (encG rl8 k14 k15 (encG rl8 k12 k13 (encG rl8 k10 k11 (encG rl8 k8 k9 (encG rl8 k6 k7 (encG rl8 k4 k5 (encG rl8 k2 k3 (⟨a + k0, b + k1⟩)))))))))))) := by
  simp only [encryptWords, rc5_8_12_4_encLoop, rc5_8_12_4_encRound_1, rc5_8_12_4_encRound_2, rc5_8_12_4_encRound_3, rc5_8_12_4_encRound_4, rc5_8_12_4_encRound_5, rc5_8_12_4_encRound_6, rc5_8_12_4_encRound_7, rc5_8_12_4_encRound_8, rc5_8_12_4_encRound_9, rc5_8_12_4_encRound_10, rc5_8_12_4_encRound_11, rc5_8_12_4_encRound_12]
  rfl

theorem rc5_8_12_4_decryptWords (k0 k1 k2 k3 k4 k5 k6 k7 k8 k9 k10 k11 k12 k13 k14 k15 k16 k17 k18 k19 k20 k21 k22 k23 k24 k25 : BitVec 8) (a b : BitVec 8) : decryptWords (rc5_8_12_4_key k0 k1 k2 k3 k4 k5 k6 k7 k8 k9 k10 k11 k12 k13 k14 k15 k16 k17 k18 k19 k20 k21 k22 k23 k24 k25) 12 ⟨a, b⟩ =
    (fun t : St 8 => ({ a := t.a - k0, b := t.b - k1 } : St 8)) (decG rr8 k2 k3 (decG rr8 k4 k5 (decG rr8 k6 k7 (decG rr8 k8 k9 (decG rr8 k10 k11 (decG rr8 k12 k13 (decG rr8 k14 k15 (decG rr8 k16 k17 (decG rr8 k18 k19 (decG rr8 k20 k21 (decG rr8 k22 k23 (decG rr8 k24 k25 (⟨a, b⟩))))))))))))) := by
  simp only [decryptWords, rc5_8_12_4_decLoop, rc5_8_12_4_decRound_1, rc5_8_12_4_decRound_2, rc5_8_12_4_decRound_3, rc5_8_12_4_decRound_4, rc5_8_12_4_decRound_5, rc5_8_12_4_decRound_6, rc5_8_12_4_decRound_7, rc5_8_12_4_decRound_8, rc5_8_12_4_decRound_9, rc5_8_12_4_decRound_10, rc5_8_12_4_decRound_11, rc5_8_12_4_decRound_12]
  rfl

theorem rc5_8_12_4_gen_enc (k0 k1 k2 k3 k4 k5 k6 k7 k8 k9 k10 k11 k12 k13 k14 k15 k16 k17 k18 k19 k20 k21 k22 k23 k24 k25 : BitVec 8) (block : BitVec 16) : rc5_8_12_4_encrypt_block k0 k1 k2 k3 k4 k5 k6 k7 k8 k9 k10 k11 k12 k13 k14 k15 k16 k17 k18 k19 k20 k21 k22 k23 k24 k25 block =
    (fun y : St 8 => rc5_8_12_4_out y.a y.b) (encG rl8 k24 k25 (encG rl8 k22 k23 (encG rl8 k20 k21 (encG rl8 k18 k19 (encG rl8 k16 k17 (encG rl8 k14 k15 (encG rl8 k12 k13 (encG rl8 k10 k11 (encG rl8 k8 k9 (encG rl8 k6 k7 (encG rl8 k4 k5 (encG rl8 k2 k3 (⟨rc5_8_12_4_a block + k0, rc5_8_12_4_b block + k1⟩))))))))))))) := by
  unfold rc5_8_12_4_encrypt_block
  extract_lets -merge
  name_lets
  have h0 : ({ a := rc5_8_12_4_a block + k0, b := rc5_8_12_4_b block + k1 } : St 8) = ⟨wrapping_add_r, wrapping_add_r_1⟩ := rfl
  have h1 : encG rl8 k2 k3 ⟨wrapping_add_r, wrapping_add_r_1⟩ = ⟨wrapping_add_r_2, wrapping_add_r_3⟩ := rfl
  have h2 : encG rl8 k4 k5 ⟨wrapping_add_r_2, wrapping_add_r_3⟩ = ⟨wrapping_add_r_4, wrapping_add_r_5⟩ := rfl
  have h3 : encG rl8 k6 k7 ⟨wrapping_add_r_4, wrapping_add_r_5⟩ = ⟨wrapping_add_r_6, wrapping_add_r_7⟩ := rfl
  have h4 : encG rl8 k8 k9 ⟨wrapping_add_r_6, wrapping_add_r_7⟩ = ⟨wrapping_add_r_8, wrapping_add_r_9⟩ := rfl
  have h5 : encG rl8 k10 k11 ⟨wrapping_add_r_8, wrapping_add_r_9⟩ = ⟨wrapping_add_r_10, wrapping_add_r_11⟩ := rfl
  have h6 : encG rl8 k12 k13 ⟨wrapping_add_r_10, wrapping_add_r_11⟩ = ⟨wrapping_add_r_12, wrapping_add_r_13⟩ := rfl
  have h7 : encG rl8 k14 k15 ⟨wrapping_add_r_12, wrapping_add_r_13⟩ = ⟨wrapping_add_r_14, wrapping_add_r_15⟩ := rfl
  have h8 : encG rl8 k16 k17 ⟨wrapping_add_r_14, wrapping_add_r_15⟩ = ⟨wrapping_add_r_16, wrapping_add_r_17⟩ := rfl
  have h9 : encG rl8 k18 k19 ⟨wrapping_add_r_16, wrapping_add_r_17⟩ = ⟨wrapping_add_r_18, wrapping_add_r_19⟩ := rfl
  have h10 : encG rl8 k20 k21 ⟨wrapping_add_r_18, wrapping_add_r_19⟩ = ⟨wrapping_add_r_20, wrapping_add_r_21⟩ := rfl
  have h11 : encG rl8 k22 k23 ⟨wrapping_add_r_20, wrapping_add_r_21⟩ = ⟨wrapping_add_r_22, wrapping_add_r_23⟩ := rfl
  have h12 : encG rl8 k24 k25 ⟨wrapping_add_r_22, wrapping_add_r_23⟩ = ⟨wrapping_add_r_24, wrapping_add_r_25⟩ := rfl
  rw [h0, h1, h2, h3, h4, h5, h6, h7, h8, h9, h10, h11, h12]
  all_goals rfl

theorem rc5_8_12_4_gen_dec (k0 k1 k2 k3 k4 k5 k6 k7 k8 k9 k10 k11 k12 k13 k14 k15 k16 k17 k18 k19 k20 k21 k22 k23 k24 k25 : BitVec 8) (block : BitVec 16) : rc5_8_12_4_decrypt_block k0 k1 k2 k3 k4 k5 k6 k7 k8 k9 k10 k11 k12 k13 k14 k15 k16 k17 k18 k19 k20 k21 k22 k23 k24 k25 block =
    (fun y : St 8 => rc5_8_12_4_out y.a y.b) ((fun t : St 8 => ({ a := t.a - k0, b := t.b - k1 } : St 8)) (decG rr8 k2 k3 (decG rr8 k4 k5 (decG rr8 k6 k7 (decG rr8 k8 k9 (decG rr8 k10 k11 (decG rr8 k12 k13 (decG rr8 k14 k15 (decG rr8 k16 k17 (decG rr8 k18 k19 (decG rr8 k20 k21 (decG rr8 k22 k23 (decG rr8 k24 k25 (⟨rc5_8_12_4_a block, rc5_8_12_4_b block⟩)))))))))))))) := by
  unfold rc5_8_12_4_decrypt_block
  extract_lets -merge
  name_lets
  have h0 : decG rr8 k24 k25 ⟨rc5_8_12_4_a block, rc5_8_12_4_b block⟩ = ⟨bitxor_r_1, bitxor_r⟩ := rfl
  have h1 : decG rr8 k22 k23 ⟨bitxor_r_1, bitxor_r⟩ = ⟨bitxor_r_3, bitxor_r_2⟩ := rfl
  have h2 : decG rr8 k20 k21 ⟨bitxor_r_3, bitxor_r_2⟩ = ⟨bitxor_r_5, bitxor_r_4⟩ := rfl
  have h3 : decG rr8 k18 k19 ⟨bitxor_r_5, bitxor_r_4⟩ = ⟨bitxor_r_7, bitxor_r_6⟩ := rfl
  have h4 : decG rr8 k16 k17 ⟨bitxor_r_7, bitxor_r_6⟩ = ⟨bitxor_r_9, bitxor_r_8⟩ := rfl
  have h5 : decG rr8 k14 k15 ⟨bitxor_r_9, bitxor_r_8⟩ = ⟨bitxor_r_11, bitxor_r_10⟩ := rfl
  have h6 : decG rr8 k12 k13 ⟨bitxor_r_11, bitxor_r_10⟩ = ⟨bitxor_r_13, bitxor_r_12⟩ := rfl
  have h7 : decG rr8 k10 k11 ⟨bitxor_r_13, bitxor_r_12⟩ = ⟨bitxor_r_15, bitxor_r_14⟩ := rfl
  have h8 : decG rr8 k8 k9 ⟨bitxor_r_15, bitxor_r_14⟩ = ⟨bitxor_r_17, bitxor_r_16⟩ := rfl
  have h9 : decG rr8 k6 k7 ⟨bitxor_r_17, bitxor_r_16⟩ = ⟨bitxor_r_19, bitxor_r_18⟩ := rfl
  have h10 : decG rr8 k4 k5 ⟨bitxor_r_19, bitxor_r_18⟩ = ⟨bitxor_r_21, bitxor_r_20⟩ := rfl
  have h11 : decG rr8 k2 k3 ⟨bitxor_r_21, bitxor_r_20⟩ = ⟨bitxor_r_23, bitxor_r_22⟩ := rfl
  rw [h0, h1, h2, h3, h4, h5, h6, h7, h8, h9, h10, h11]
  all_goals rfl

/-- `RC5<u8, U12, U4>::encrypt_block` as regenerated from the Rust source IS the model's `encryptBlock`, for all key tables and blocks -/
theorem rc5_8_12_4_encrypt_block_eq (k0 k1 k2 k3 k4 k5 k6 k7 k8 k9 k10 k11 k12 k13 k14 k15 k16 k17 k18 k19 k20 k21 k22 k23 k24 k25 : BitVec 8) (block : BitVec 16) :
    unpackBE 2 (rc5_8_12_4_encrypt_block k0 k1 k2 k3 k4 k5 k6 k7 k8 k9 k10 k11 k12 k13 k14 k15 k16 k17 k18 k19 k20 k21 k22 k23 k24 k25 block) = encryptBlock (rc5_8_12_4_key k0 k1 k2 k3 k4 k5 k6 k7 k8 k9 k10 k11 k12 k13 k14 k15 k16 k17 k18 k19 k20 k21 k22 k23 k24 k25) 12 (unpackBE 2 block) := by
  rw [encryptBlock, rc5_8_12_4_load, rc5_8_12_4_encryptWords, rc5_8_12_4_store, rc5_8_12_4_gen_enc]

/-- `RC5<u8, U12, U4>::decrypt_block` as regenerated from the Rust source IS the model's `decryptBlock` -/
theorem rc5_8_12_4_decrypt_block_eq (k0 k1 k2 k3 k4 k5 k6 k7 k8 k9 k10 k11 k12 k13 k14 k15 k16 k17 k18 k19 k20 k21 k22 k23 k24 k25 : BitVec 8) (block : BitVec 16) :
    unpackBE 2 (rc5_8_12_4_decrypt_block k0 k1 k2 k3 k4 k5 k6 k7 k8 k9 k10 k11 k12 k13 k14 k15 k16 k17 k18 k19 k20 k21 k22 k23 k24 k25 block) = decryptBlock (rc5_8_12_4_key k0 k1 k2 k3 k4 k5 k6 k7 k8 k9 k10 k11 k12 k13 k14 k15 k16 k17 k18 k19 k20 k21 k22 k23 k24 k25) 12 (unpackBE 2 block) := by
  rw [decryptBlock, rc5_8_12_4_load, rc5_8_12_4_decryptWords, rc5_8_12_4_store, rc5_8_12_4_gen_dec]

/-- the same for an arbitrary 2-byte block given as a byte list -/
theorem rc5_8_12_4_encryptBlock_bytes (k0 k1 k2 k3 k4 k5 k6 k7 k8 k9 k10 k11 k12 k13 k14 k15 k16 k17 k18 k19 k20 k21 k22 k23 k24 k25 : BitVec 8) (bs : Bytes) (h : bs.length = 2) :
    encryptBlock (rc5_8_12_4_key k0 k1 k2 k3 k4 k5 k6 k7 k8 k9 k10 k11 k12 k13 k14 k15 k16 k17 k18 k19 k20 k21 k22 k23 k24 k25) 12 bs = unpackBE 2 (rc5_8_12_4_encrypt_block k0 k1 k2 k3 k4 k5 k6 k7 k8 k9 k10 k11 k12 k13 k14 k15 k16 k17 k18 k19 k20 k21 k22 k23 k24 k25 (packBE 2 bs)) := by
  rw [rc5_8_12_4_encrypt_block_eq, BC.GenCipher.Speck.unpackBE_packBE _ _ h]
theorem rc5_8_12_4_decryptBlock_bytes (k0 k1 k2 k3 k4 k5 k6 k7 k8 k9 k10 k11 k12 k13 k14 k15 k16 k17 k18 k19 k20 k21 k22 k23 k24 k25 : BitVec 8) (bs : Bytes) (h : bs.length = 2) :
    decryptBlock (rc5_8_12_4_key k0 k1 k2 k3 k4 k5 k6 k7 k8 k9 k10 k11 k12 k13 k14 k15 k16 k17 k18 k19 k20 k21 k22 k23 k24 k25) 12 bs = unpackBE 2 (rc5_8_12_4_decrypt_block k0 k1 k2 k3 k4 k5 k6 k7 k8 k9 k10 k11 k12 k13 k14 k15 k16 k17 k18 k19 k20 k21 k22 k23 k24 k25 (packBE 2 bs)) := by
  rw [rc5_8_12_4_decrypt_block_eq, BC.GenCipher.Speck.unpackBE_packBE _ _ h]

end BC.GenCipher.Rc5
