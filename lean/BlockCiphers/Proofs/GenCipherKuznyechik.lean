import BlockCiphers.Gen.Cipher_Kuznyechik
import BlockCiphers.Proofs.GenKuznyechikBytes
/-!
Tie of the regenerated `EncBackend::encrypt_block` / `DecBackend::decrypt_block` of the compact software backend of
Kuznyechik (`Gen/Cipher_Kuznyechik.lean`, translated from /repo/kuznyechik/src/compact_soft/backends.rs with `l_step`,
the `GFT_*` tables of gft.rs and `P_INV` of consts.rs computed by running the crate's `const fn`s) to the hand-written model
`BC.Kuznyechik.Compact`: for ALL round keys `k0 … k9` (arbitrary 128-bit values, not only key-schedule outputs) and ALL blocks

    Gen.Fn.kuznyechik_compact_encrypt_block k0 … k9 b = Compact.encrypt_block ⟨k0, …, k9⟩ b
    Gen.Fn.kuznyechik_compact_decrypt_block k0 … k9 b = Compact.decrypt_block ⟨k0, …, k9⟩ b

Proof.  (1) the generated text (one flat chain of ≈ 4 300 `let`s on single bytes) is *definitionally* the byte-level
composition `encB` / `decB` of `Proofs/GenKuznyechikBytes.lean` — checked by the kernel (`kuz_kernel_rfl`; the kernel
shares sub-terms, the elaborator's `rfl` does not); (2) the byte-level functions are the model's functions on the packed
block (`lsxB_pack`, `lsxInvB_pack`, `xB_pack`), given that the tables computed by the translator are the model's
(`gfE`, `gfD`, `pinvD`: `decide +kernel` over the 256 indices of each table).
-/
set_option maxRecDepth 100000
namespace BC.GenCipher.Kuznyechik
open BC BC.Kuznyechik BC.Gen.Fn

theorem gfE_0 : ∀ n : Fin 256, BC.Gen.tblAt kuznyechik_compact_encrypt_block_tbl0 n.val 8 = mul_gf256 148#8 (BitVec.ofNat 8 n.val) := by decide +kernel
theorem gfE_1 : ∀ n : Fin 256, BC.Gen.tblAt kuznyechik_compact_encrypt_block_tbl1 n.val 8 = mul_gf256 32#8 (BitVec.ofNat 8 n.val) := by decide +kernel
theorem gfE_2 : ∀ n : Fin 256, BC.Gen.tblAt kuznyechik_compact_encrypt_block_tbl2 n.val 8 = mul_gf256 133#8 (BitVec.ofNat 8 n.val) := by decide +kernel
theorem gfE_3 : ∀ n : Fin 256, BC.Gen.tblAt kuznyechik_compact_encrypt_block_tbl3 n.val 8 = mul_gf256 16#8 (BitVec.ofNat 8 n.val) := by decide +kernel
theorem gfE_4 : ∀ n : Fin 256, BC.Gen.tblAt kuznyechik_compact_encrypt_block_tbl4 n.val 8 = mul_gf256 194#8 (BitVec.ofNat 8 n.val) := by decide +kernel
theorem gfE_5 : ∀ n : Fin 256, BC.Gen.tblAt kuznyechik_compact_encrypt_block_tbl5 n.val 8 = mul_gf256 192#8 (BitVec.ofNat 8 n.val) := by decide +kernel
theorem gfE_6 : ∀ n : Fin 256, BC.Gen.tblAt kuznyechik_compact_encrypt_block_tbl6 n.val 8 = mul_gf256 251#8 (BitVec.ofNat 8 n.val) := by decide +kernel
theorem gfE : GfOK kuznyechik_compact_encrypt_block_tbl0 kuznyechik_compact_encrypt_block_tbl1 kuznyechik_compact_encrypt_block_tbl2 kuznyechik_compact_encrypt_block_tbl3 kuznyechik_compact_encrypt_block_tbl4 kuznyechik_compact_encrypt_block_tbl5 kuznyechik_compact_encrypt_block_tbl6 :=
  ⟨gf_of_fin _ _ gfE_0, gf_of_fin _ _ gfE_1, gf_of_fin _ _ gfE_2, gf_of_fin _ _ gfE_3, gf_of_fin _ _ gfE_4, gf_of_fin _ _ gfE_5, gf_of_fin _ _ gfE_6⟩

theorem gfD_0 : ∀ n : Fin 256, BC.Gen.tblAt kuznyechik_compact_decrypt_block_tbl0 n.val 8 = mul_gf256 148#8 (BitVec.ofNat 8 n.val) := by decide +kernel
theorem gfD_1 : ∀ n : Fin 256, BC.Gen.tblAt kuznyechik_compact_decrypt_block_tbl1 n.val 8 = mul_gf256 32#8 (BitVec.ofNat 8 n.val) := by decide +kernel
theorem gfD_2 : ∀ n : Fin 256, BC.Gen.tblAt kuznyechik_compact_decrypt_block_tbl2 n.val 8 = mul_gf256 133#8 (BitVec.ofNat 8 n.val) := by decide +kernel
theorem gfD_3 : ∀ n : Fin 256, BC.Gen.tblAt kuznyechik_compact_decrypt_block_tbl3 n.val 8 = mul_gf256 16#8 (BitVec.ofNat 8 n.val) := by decide +kernel
theorem gfD_4 : ∀ n : Fin 256, BC.Gen.tblAt kuznyechik_compact_decrypt_block_tbl4 n.val 8 = mul_gf256 194#8 (BitVec.ofNat 8 n.val) := by decide +kernel
theorem gfD_5 : ∀ n : Fin 256, BC.Gen.tblAt kuznyechik_compact_decrypt_block_tbl5 n.val 8 = mul_gf256 192#8 (BitVec.ofNat 8 n.val) := by decide +kernel
theorem gfD_6 : ∀ n : Fin 256, BC.Gen.tblAt kuznyechik_compact_decrypt_block_tbl6 n.val 8 = mul_gf256 251#8 (BitVec.ofNat 8 n.val) := by decide +kernel
theorem gfD : GfOK kuznyechik_compact_decrypt_block_tbl0 kuznyechik_compact_decrypt_block_tbl1 kuznyechik_compact_decrypt_block_tbl2 kuznyechik_compact_decrypt_block_tbl3 kuznyechik_compact_decrypt_block_tbl4 kuznyechik_compact_decrypt_block_tbl5 kuznyechik_compact_decrypt_block_tbl6 :=
  ⟨gf_of_fin _ _ gfD_0, gf_of_fin _ _ gfD_1, gf_of_fin _ _ gfD_2, gf_of_fin _ _ gfD_3, gf_of_fin _ _ gfD_4, gf_of_fin _ _ gfD_5, gf_of_fin _ _ gfD_6⟩

theorem pinvD_e : ∀ n : Fin 256, BC.Gen.tblAt kuznyechik_compact_decrypt_block_tbl7 n.val 8 = lut P_INV (BitVec.ofNat 8 n.val) := by decide +kernel
theorem pinvD : PinvOK kuznyechik_compact_decrypt_block_tbl7 := at_of_fin _ _ pinvD_e

/-- `for i in 0..9 { lsx(&mut b, &self.0[i]) }; x(&mut b, &self.0[9])` on bytes -/
def encB (t0 t1 t2 t3 t4 t5 t6 : Array Nat) (k0 k1 k2 k3 k4 k5 k6 k7 k8 k9 b : BitVec 128) : BitVec 128 :=
  (xB (lsxB t0 t1 t2 t3 t4 t5 t6 (lsxB t0 t1 t2 t3 t4 t5 t6 (lsxB t0 t1 t2 t3 t4 t5 t6 (lsxB t0 t1 t2 t3 t4 t5 t6 (lsxB t0 t1 t2 t3 t4 t5 t6 (lsxB t0 t1 t2 t3 t4 t5 t6 (lsxB t0 t1 t2 t3 t4 t5 t6 (lsxB t0 t1 t2 t3 t4 t5 t6 (lsxB t0 t1 t2 t3 t4 t5 t6 (unpackB b) k0) k1) k2) k3) k4) k5) k6) k7) k8) k9).pack

/-- `for i in 0..9 { lsx_inv(&mut b, &self.0[9 - i]) }; x(&mut b, &self.0[0])` on bytes -/
def decB (t0 t1 t2 t3 t4 t5 t6 : Array Nat) (pinv : Array Nat) (k0 k1 k2 k3 k4 k5 k6 k7 k8 k9 b : BitVec 128) : BitVec 128 :=
  (xB (lsxInvB t0 t1 t2 t3 t4 t5 t6 pinv (lsxInvB t0 t1 t2 t3 t4 t5 t6 pinv (lsxInvB t0 t1 t2 t3 t4 t5 t6 pinv (lsxInvB t0 t1 t2 t3 t4 t5 t6 pinv (lsxInvB t0 t1 t2 t3 t4 t5 t6 pinv (lsxInvB t0 t1 t2 t3 t4 t5 t6 pinv (lsxInvB t0 t1 t2 t3 t4 t5 t6 pinv (lsxInvB t0 t1 t2 t3 t4 t5 t6 pinv (lsxInvB t0 t1 t2 t3 t4 t5 t6 pinv (unpackB b) k9) k8) k7) k6) k5) k4) k3) k2) k1) k0).pack

theorem encrypt_block_eq_B (k0 k1 k2 k3 k4 k5 k6 k7 k8 k9 b : BitVec 128) :
    kuznyechik_compact_encrypt_block k0 k1 k2 k3 k4 k5 k6 k7 k8 k9 b = encB kuznyechik_compact_encrypt_block_tbl0 kuznyechik_compact_encrypt_block_tbl1 kuznyechik_compact_encrypt_block_tbl2 kuznyechik_compact_encrypt_block_tbl3 kuznyechik_compact_encrypt_block_tbl4 kuznyechik_compact_encrypt_block_tbl5 kuznyechik_compact_encrypt_block_tbl6 k0 k1 k2 k3 k4 k5 k6 k7 k8 k9 b := by
  kuz_kernel_rfl

theorem decrypt_block_eq_B (k0 k1 k2 k3 k4 k5 k6 k7 k8 k9 b : BitVec 128) :
    kuznyechik_compact_decrypt_block k0 k1 k2 k3 k4 k5 k6 k7 k8 k9 b = decB kuznyechik_compact_decrypt_block_tbl0 kuznyechik_compact_decrypt_block_tbl1 kuznyechik_compact_decrypt_block_tbl2 kuznyechik_compact_decrypt_block_tbl3 kuznyechik_compact_decrypt_block_tbl4 kuznyechik_compact_decrypt_block_tbl5 kuznyechik_compact_decrypt_block_tbl6 kuznyechik_compact_decrypt_block_tbl7 k0 k1 k2 k3 k4 k5 k6 k7 k8 k9 b := by
  kuz_kernel_rfl

theorem encB_eq (t0 t1 t2 t3 t4 t5 t6 : Array Nat) (h : GfOK t0 t1 t2 t3 t4 t5 t6) (k0 k1 k2 k3 k4 k5 k6 k7 k8 k9 b : BitVec 128) :
    encB t0 t1 t2 t3 t4 t5 t6 k0 k1 k2 k3 k4 k5 k6 k7 k8 k9 b = Compact.encrypt_block ⟨k0, k1, k2, k3, k4, k5, k6, k7, k8, k9⟩ b := by
  simp only [encB, Compact.encrypt_block, List.foldl, xB_pack, lsxB_pack t0 t1 t2 t3 t4 t5 t6 h, pack_unpack]

theorem decB_eq (t0 t1 t2 t3 t4 t5 t6 : Array Nat) (h : GfOK t0 t1 t2 t3 t4 t5 t6) (pinv : Array Nat) (hp : PinvOK pinv) (k0 k1 k2 k3 k4 k5 k6 k7 k8 k9 b : BitVec 128) :
    decB t0 t1 t2 t3 t4 t5 t6 pinv k0 k1 k2 k3 k4 k5 k6 k7 k8 k9 b = Compact.decrypt_block ⟨k0, k1, k2, k3, k4, k5, k6, k7, k8, k9⟩ b := by
  simp only [decB, Compact.decrypt_block, List.foldl, xB_pack, lsxInvB_pack t0 t1 t2 t3 t4 t5 t6 h pinv hp, pack_unpack]

/-- the regenerated `EncBackend::encrypt_block` (compact_soft) is the model's `Compact.encrypt_block`, all keys, all blocks -/
theorem kuznyechik_compact_encrypt_block_eq (k0 k1 k2 k3 k4 k5 k6 k7 k8 k9 b : BitVec 128) :
    kuznyechik_compact_encrypt_block k0 k1 k2 k3 k4 k5 k6 k7 k8 k9 b = Compact.encrypt_block ⟨k0, k1, k2, k3, k4, k5, k6, k7, k8, k9⟩ b := by
  rw [encrypt_block_eq_B, encB_eq _ _ _ _ _ _ _ gfE]

/-- the regenerated `DecBackend::decrypt_block` (compact_soft) is the model's `Compact.decrypt_block`, all keys, all blocks -/
theorem kuznyechik_compact_decrypt_block_eq (k0 k1 k2 k3 k4 k5 k6 k7 k8 k9 b : BitVec 128) :
    kuznyechik_compact_decrypt_block k0 k1 k2 k3 k4 k5 k6 k7 k8 k9 b = Compact.decrypt_block ⟨k0, k1, k2, k3, k4, k5, k6, k7, k8, k9⟩ b := by
  rw [decrypt_block_eq_B, decB_eq _ _ _ _ _ _ _ gfD _ pinvD]

end BC.GenCipher.Kuznyechik
