import BlockCiphers.Gen.Cipher_Belt_wide
import BlockCiphers.Impl.Belt
/-
Concrete-input checks (NOT a tie for all inputs) of the regenerated BelT wide-block functions `belt_wblock_enc_<n>` /
`belt_wblock_dec_<n>` (`Gen/Cipher_Belt_wide.lean`, data lengths 32, 33, 47, 48, 64; this file: 47, 48) against the model
`BC.Belt.wblockEnc` / `wblockDec` of `Impl/Belt.lean`: for one key and one data string per length, the regenerated function
and the model give the same bytes and the model returns `ok` (kernel evaluation of both sides, `decide +kernel`).
The tie for all inputs is open (see the report of the translator extension).
-/
namespace BC.GenCipher.BeltWideKatB
open BC BC.Belt BC.Gen.Fn
set_option maxRecDepth 1000000

def key : Key := #v[0x11111111#32, 0x23456789#32, 0xdeadbeef#32, 0x0#32, 0xffffffff#32, 0x87654321#32, 0xbadcafe#32, 0x31415926#32]

theorem enc_47_0 : (WRes.ok, unpackBE 47 (belt_wblock_enc_47 0x102030405060708090a0b0c0d0e0f101112131415161718191a1b1c1d1e1f202122232425262728292a2b2c2d2e#376 0x11111111#32 0x23456789#32 0xdeadbeef#32 0x0#32 0xffffffff#32 0x87654321#32 0xbadcafe#32 0x31415926#32)) =
    wblockEnc (unpackBE 47 0x102030405060708090a0b0c0d0e0f101112131415161718191a1b1c1d1e1f202122232425262728292a2b2c2d2e#376) key := by decide +kernel
theorem dec_47_0 : (WRes.ok, unpackBE 47 (belt_wblock_dec_47 0x102030405060708090a0b0c0d0e0f101112131415161718191a1b1c1d1e1f202122232425262728292a2b2c2d2e#376 0x11111111#32 0x23456789#32 0xdeadbeef#32 0x0#32 0xffffffff#32 0x87654321#32 0xbadcafe#32 0x31415926#32)) =
    wblockDec (unpackBE 47 0x102030405060708090a0b0c0d0e0f101112131415161718191a1b1c1d1e1f202122232425262728292a2b2c2d2e#376) key := by decide +kernel
theorem enc_48_0 : (WRes.ok, unpackBE 48 (belt_wblock_enc_48 0x102030405060708090a0b0c0d0e0f101112131415161718191a1b1c1d1e1f202122232425262728292a2b2c2d2e2f#384 0x11111111#32 0x23456789#32 0xdeadbeef#32 0x0#32 0xffffffff#32 0x87654321#32 0xbadcafe#32 0x31415926#32)) =
    wblockEnc (unpackBE 48 0x102030405060708090a0b0c0d0e0f101112131415161718191a1b1c1d1e1f202122232425262728292a2b2c2d2e2f#384) key := by decide +kernel
theorem dec_48_0 : (WRes.ok, unpackBE 48 (belt_wblock_dec_48 0x102030405060708090a0b0c0d0e0f101112131415161718191a1b1c1d1e1f202122232425262728292a2b2c2d2e2f#384 0x11111111#32 0x23456789#32 0xdeadbeef#32 0x0#32 0xffffffff#32 0x87654321#32 0xbadcafe#32 0x31415926#32)) =
    wblockDec (unpackBE 48 0x102030405060708090a0b0c0d0e0f101112131415161718191a1b1c1d1e1f202122232425262728292a2b2c2d2e2f#384) key := by decide +kernel

end BC.GenCipher.BeltWideKatB
