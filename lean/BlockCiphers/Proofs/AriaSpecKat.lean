import BlockCiphers.Spec.Aria
import BlockCiphers.Proofs.AriaKat
/-
Known-answer vectors of RFC 5794 Appendix A.1-A.3 evaluated by the Lean kernel on the RFC specification
(`Spec/Aria.lean`), both directions.
-/
namespace BC.Aria.Kat

example : Spec.Aria.encrypt128 K128 P = C128 := by decide +kernel
example : Spec.Aria.decrypt128 K128 C128 = P := by decide +kernel
example : Spec.Aria.encrypt192 K192 P = C192 := by decide +kernel
example : Spec.Aria.decrypt192 K192 C192 = P := by decide +kernel
example : Spec.Aria.encrypt256 K256 P = C256 := by decide +kernel
example : Spec.Aria.decrypt256 K256 C256 = P := by decide +kernel

end BC.Aria.Kat
