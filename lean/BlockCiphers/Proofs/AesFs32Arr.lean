import BlockCiphers.Impl.AesFixslice32
/-! Evaluation rules for the total `Array St` accessors `rd` / `wr` / `upd` of the key-schedule models. -/
namespace BC.AesFs32

@[simp] theorem size_wr (a : Array St) (i : Nat) (v : St) : (wr a i v).size = a.size := by
  simp [wr]
@[simp] theorem size_upd (a : Array St) (i : Nat) (f : St → St) : (upd a i f).size = a.size := by
  simp [upd]

theorem rd_wr_same (a : Array St) (i : Nat) (v : St) (h : i < a.size) : rd (wr a i v) i = v := by
  simp [rd, wr, Array.getD, h]

theorem rd_wr_ne (a : Array St) (i j : Nat) (v : St) (h : i ≠ j) : rd (wr a i v) j = rd a j := by
  unfold rd wr
  by_cases hj : j < a.size
  · simp [Array.getD, hj, Array.getElem_setIfInBounds_ne, h]
  · simp [Array.getD, hj]

theorem rd_upd_same (a : Array St) (i : Nat) (f : St → St) (h : i < a.size) : rd (upd a i f) i = f (rd a i) := by
  simp only [upd]; exact rd_wr_same _ _ _ h

theorem rd_upd_ne (a : Array St) (i j : Nat) (f : St → St) (h : i ≠ j) : rd (upd a i f) j = rd a j := by
  simp only [upd]; exact rd_wr_ne _ _ _ _ h

theorem rd_replicate (n i : Nat) (v : St) : rd (Array.replicate n v) i = if i < n then v else St.zero := by
  simp only [rd, Array.getD, Array.size_replicate]
  split <;> simp

theorem range10 : List.range 10 = [0,1,2,3,4,5,6,7,8,9] := by decide

end BC.AesFs32
