import BlockCiphers.Proofs.IdeaInvDefs
/- exhaustive kernel evaluation of `InvOk a` for the arguments `a` whose top nibble is 0..3
   (4 × 4096 cases; split so that every declaration stays small in time and memory) -/
namespace BC.Idea
theorem invOk_0 : ∀ (m : BitVec 4) (l : BitVec 8), InvOk ((0#4 ++ m) ++ l) := by decide +kernel
theorem invOk_1 : ∀ (m : BitVec 4) (l : BitVec 8), InvOk ((1#4 ++ m) ++ l) := by decide +kernel
theorem invOk_2 : ∀ (m : BitVec 4) (l : BitVec 8), InvOk ((2#4 ++ m) ++ l) := by decide +kernel
theorem invOk_3 : ∀ (m : BitVec 4) (l : BitVec 8), InvOk ((3#4 ++ m) ++ l) := by decide +kernel

end BC.Idea
