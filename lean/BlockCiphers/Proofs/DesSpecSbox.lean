import BlockCiphers.Proofs.Basic
import BlockCiphers.Impl.Des
import BlockCiphers.Spec.Des
/-
C05, part 2: the re-arranged `SBOXES` table of consts.rs, indexed directly by the six input bits, is the
standard's S1..S8 in row/column form (row = b1 b6, column = b2..b5); `apply_sboxes` = the eight look-ups.
-/
namespace BC.Des
open BC.Spec.Des (S sboxes)

/-- all 8 × 64 entries: `SBOXES[i][v] = S_{i+1}(v)` -/
theorem sboxAt_eq_S : ∀ i : Fin 8, ∀ v : BitVec 6,
    sboxAt i.val (v.setWidth 64) = (S i.val v).setWidth 64 := by decide +kernel

/-- every table entry is below 16 (so `<< (60 - 4 i)` loses nothing and the boxes do not overlap) -/
theorem sboxAt_lt : ∀ i : Fin 8, ∀ v : BitVec 6, sboxAt i.val (v.setWidth 64) < 16#64 := by decide +kernel

/-- each inner array has 64 entries: the index `val & 0x3F` is always in range (C20) -/
theorem SBOXES_inner_size : ∀ i : Fin 8, (SBOXES.getD i.val #[]).size = 64 := by decide +kernel

theorem sboxAt_i (i : Nat) (h : i < 8) (v : BitVec 6) :
    sboxAt i (v.setWidth 64) = (S i v).setWidth 64 := sboxAt_eq_S ⟨i, h⟩ v

/-- `apply_sboxes` reads B1..B8 from the top 48 bits and returns S1(B1)…S8(B8) in the top 32 bits;
for every u64 input -/
theorem applySboxes_eq (x : BitVec 64) :
    applySboxes x = (sboxes (x.extractLsb' 16 48)).setWidth 64 <<< 32 := by
  have h0 : (x >>> 58) &&& 0x3F#64 = ((x.extractLsb' 16 48).extractLsb' 42 6).setWidth 64 := by bv_decide (config := { timeout := 600 })
  have h1 : (x >>> 52) &&& 0x3F#64 = ((x.extractLsb' 16 48).extractLsb' 36 6).setWidth 64 := by bv_decide (config := { timeout := 600 })
  have h2 : (x >>> 46) &&& 0x3F#64 = ((x.extractLsb' 16 48).extractLsb' 30 6).setWidth 64 := by bv_decide (config := { timeout := 600 })
  have h3 : (x >>> 40) &&& 0x3F#64 = ((x.extractLsb' 16 48).extractLsb' 24 6).setWidth 64 := by bv_decide (config := { timeout := 600 })
  have h4 : (x >>> 34) &&& 0x3F#64 = ((x.extractLsb' 16 48).extractLsb' 18 6).setWidth 64 := by bv_decide (config := { timeout := 600 })
  have h5 : (x >>> 28) &&& 0x3F#64 = ((x.extractLsb' 16 48).extractLsb' 12 6).setWidth 64 := by bv_decide (config := { timeout := 600 })
  have h6 : (x >>> 22) &&& 0x3F#64 = ((x.extractLsb' 16 48).extractLsb' 6 6).setWidth 64 := by bv_decide (config := { timeout := 600 })
  have h7 : (x >>> 16) &&& 0x3F#64 = ((x.extractLsb' 16 48).extractLsb' 0 6).setWidth 64 := by bv_decide (config := { timeout := 600 })
  simp only [applySboxes, sboxStep, Nat.reduceMul, Nat.reduceSub, h0, h1, h2, h3, h4, h5, h6, h7]
  rw [sboxAt_i 0 (by decide), sboxAt_i 1 (by decide), sboxAt_i 2 (by decide), sboxAt_i 3 (by decide),
    sboxAt_i 4 (by decide), sboxAt_i 5 (by decide), sboxAt_i 6 (by decide), sboxAt_i 7 (by decide)]
  unfold sboxes
  generalize S 0 _ = s0
  generalize S 1 _ = s1
  generalize S 2 _ = s2
  generalize S 3 _ = s3
  generalize S 4 _ = s4
  generalize S 5 _ = s5
  generalize S 6 _ = s6
  generalize S 7 _ = s7
  bv_decide (config := { timeout := 600 })

end BC.Des
