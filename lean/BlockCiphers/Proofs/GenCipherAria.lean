import BlockCiphers.Gen.Cipher_Aria
import BlockCiphers.Impl.Aria
import BlockCiphers.Proofs.GenTables
import Std.Tactic.BVDecide
/-!
Tie theorems: the regenerated `Aria<13|15|17>::encrypt_block` / `decrypt_block` (`BC.Gen.Fn.aria_rk13_*`, `aria_rk15_*`,
`aria_rk17_*`, translated from the current Rust text: loop unrolled, `fo` / `fe` / `sl2` / `diffuse` inlined, `SB1..SB4`
read from the regenerated `Gen/Tables.lean`) ARE the model functions `BC.Aria.cryptWith` over `ek` resp. `dk`
(and `BC.Aria.encryptBlock` / `decryptBlock` on the struct `Keys { ek, dk }`), for all round keys and all blocks.
-/
set_option maxRecDepth 100000
namespace BC.GenCipher.Aria
open BC BC.Aria BC.Gen.Fn

/-! ### the four S-boxes: the regenerated tables = the model's `sbJ` -/

/-- a slice of a regenerated (flattened) table that equals a model table, read at `off + n` -/
theorem tbl_of_slice (T : Array Nat) (S : Array (BitVec 8)) (off : Nat)
    (h : (T.toList.drop off).take S.size = S.toList.map BitVec.toNat) (n : Nat) (hn : n < S.size) :
    BC.Gen.tblAt T (off + n) 8 = S[n] := by
  have h1 : ((T.toList.drop off).take S.size)[n]? = (S.toList.map BitVec.toNat)[n]? := by rw [h]
  rw [List.getElem?_take_of_lt hn, List.getElem?_drop, List.getElem?_map, Array.getElem?_toList,
    Array.getElem?_toList, Array.getElem?_eq_getElem hn] at h1
  simp only [Option.map_some] at h1
  simp only [BC.Gen.tblAt, Array.getD_eq_getD_getElem?, h1, Option.getD_some, BitVec.ofNat_toNat, BitVec.setWidth_eq]

theorem slice1 : (BC.Gen.aria_SB1.toList.drop 0).take SB1T.size = SB1T.toList.map BitVec.toNat := by decide +kernel
theorem slice2 : (BC.Gen.aria_SB2.toList.drop 0).take SB2T.size = SB2T.toList.map BitVec.toNat := by decide +kernel
theorem slice3 : (BC.Gen.aria_SB3.toList.drop 0).take SB3T.size = SB3T.toList.map BitVec.toNat := by decide +kernel
theorem slice4 : (BC.Gen.aria_SB4.toList.drop 0).take SB4T.size = SB4T.toList.map BitVec.toNat := by decide +kernel

theorem idx_eq (v : BitVec 8) : (v.setWidth 64).toNat = v.toNat := by
  simp only [BitVec.toNat_setWidth]; omega

theorem sb1_at (v : BitVec 8) : BC.Gen.tblAt BC.Gen.aria_SB1 ((v.setWidth 64).toNat) 8 = sb1 v := by
  rw [idx_eq, ← Nat.zero_add v.toNat]; exact tbl_of_slice _ _ 0 slice1 _ _
theorem sb2_at (v : BitVec 8) : BC.Gen.tblAt BC.Gen.aria_SB2 ((v.setWidth 64).toNat) 8 = sb2 v := by
  rw [idx_eq, ← Nat.zero_add v.toNat]; exact tbl_of_slice _ _ 0 slice2 _ _
theorem sb3_at (v : BitVec 8) : BC.Gen.tblAt BC.Gen.aria_SB3 ((v.setWidth 64).toNat) 8 = sb3 v := by
  rw [idx_eq, ← Nat.zero_add v.toNat]; exact tbl_of_slice _ _ 0 slice3 _ _
theorem sb4_at (v : BitVec 8) : BC.Gen.tblAt BC.Gen.aria_SB4 ((v.setWidth 64).toNat) 8 = sb4 v := by
  rw [idx_eq, ← Nat.zero_add v.toNat]; exact tbl_of_slice _ _ 0 slice4 _ _

/-! ### byte-wise load / store of a `u128`, and `sl2` as a concatenation of its sixteen bytes -/

theorem bytes16 (c : BitVec 128) : c.extractLsb' 120 8 ++ c.extractLsb' 112 8 ++ c.extractLsb' 104 8 ++ c.extractLsb' 96 8 ++ c.extractLsb' 88 8 ++ c.extractLsb' 80 8 ++ c.extractLsb' 72 8 ++ c.extractLsb' 64 8 ++ c.extractLsb' 56 8 ++ c.extractLsb' 48 8 ++ c.extractLsb' 40 8 ++ c.extractLsb' 32 8 ++ c.extractLsb' 24 8 ++ c.extractLsb' 16 8 ++ c.extractLsb' 8 8 ++ c.extractLsb' 0 8 = c := by bv_decide

theorem sl2_cat (x : BitVec 128) : sl2 x = sb3 (x.extractLsb' 120 8) ++ sb4 (x.extractLsb' 112 8) ++ sb1 (x.extractLsb' 104 8) ++ sb2 (x.extractLsb' 96 8) ++ sb3 (x.extractLsb' 88 8) ++ sb4 (x.extractLsb' 80 8) ++ sb1 (x.extractLsb' 72 8) ++ sb2 (x.extractLsb' 64 8) ++ sb3 (x.extractLsb' 56 8) ++ sb4 (x.extractLsb' 48 8) ++ sb1 (x.extractLsb' 40 8) ++ sb2 (x.extractLsb' 32 8) ++ sb3 (x.extractLsb' 24 8) ++ sb4 (x.extractLsb' 16 8) ++ sb1 (x.extractLsb' 8 8) ++ sb2 (x.extractLsb' 0 8) := by
  simp only [sl2, fromBeBytes, byte, List.foldl_cons, List.foldl_nil, Nat.reduceMul, Nat.reduceSub, Nat.sub_zero]
  bv_decide

theorem loopIdx13 : loopIdx 13 = [0, 2, 4, 6, 8] := by decide
theorem loopIdx15 : loopIdx 15 = [0, 2, 4, 6, 8, 10] := by decide
theorem loopIdx17 : loopIdx 17 = [0, 2, 4, 6, 8, 10, 12] := by decide

theorem key_mk (l : List (BitVec 128)) : key l.toArray = fun i => l.getD i 0#128 := by
  funext i
  simp [key, Array.getD_eq_getD_getElem?, List.getD_eq_getElem?_getD]

theorem rk13_encrypt_block_eq (ek0 ek1 ek2 ek3 ek4 ek5 ek6 ek7 ek8 ek9 ek10 ek11 ek12 dk0 dk1 dk2 dk3 dk4 dk5 dk6 dk7 dk8 dk9 dk10 dk11 dk12 : BitVec 128) (b : BitVec 128) :
    aria_rk13_encrypt_block ek0 ek1 ek2 ek3 ek4 ek5 ek6 ek7 ek8 ek9 ek10 ek11 ek12 dk0 dk1 dk2 dk3 dk4 dk5 dk6 dk7 dk8 dk9 dk10 dk11 dk12 b = cryptWith (fun i => [ek0, ek1, ek2, ek3, ek4, ek5, ek6, ek7, ek8, ek9, ek10, ek11, ek12].getD i 0#128) 13 b := by
  simp only [aria_rk13_encrypt_block, sb1_at, sb2_at, sb3_at, sb4_at, bytes16, sl2_cat,
    cryptWith, loopIdx13, List.foldl_cons, List.foldl_nil, fo, fe, diffuse, DIFFUSE_CONSTS, byte,
    List.zip_cons_cons, List.zip_nil_right, List.map_cons, List.map_nil,
    Nat.reduceMul, Nat.reduceAdd, Nat.reduceSub, Nat.sub_zero,
    List.getD_cons_zero, List.getD_cons_succ]

/-- the same against `BC.Aria.encryptBlock` on the struct `Aria<13> { ek, dk }` -/
theorem rk13_encrypt_eq (ek0 ek1 ek2 ek3 ek4 ek5 ek6 ek7 ek8 ek9 ek10 ek11 ek12 dk0 dk1 dk2 dk3 dk4 dk5 dk6 dk7 dk8 dk9 dk10 dk11 dk12 : BitVec 128) (b : BitVec 128) :
    aria_rk13_encrypt_block ek0 ek1 ek2 ek3 ek4 ek5 ek6 ek7 ek8 ek9 ek10 ek11 ek12 dk0 dk1 dk2 dk3 dk4 dk5 dk6 dk7 dk8 dk9 dk10 dk11 dk12 b = encryptBlock ⟨#[ek0, ek1, ek2, ek3, ek4, ek5, ek6, ek7, ek8, ek9, ek10, ek11, ek12], #[dk0, dk1, dk2, dk3, dk4, dk5, dk6, dk7, dk8, dk9, dk10, dk11, dk12]⟩ 13 b := by
  rw [rk13_encrypt_block_eq, encryptBlock, key_mk]

theorem rk13_decrypt_block_eq (ek0 ek1 ek2 ek3 ek4 ek5 ek6 ek7 ek8 ek9 ek10 ek11 ek12 dk0 dk1 dk2 dk3 dk4 dk5 dk6 dk7 dk8 dk9 dk10 dk11 dk12 : BitVec 128) (b : BitVec 128) :
    aria_rk13_decrypt_block ek0 ek1 ek2 ek3 ek4 ek5 ek6 ek7 ek8 ek9 ek10 ek11 ek12 dk0 dk1 dk2 dk3 dk4 dk5 dk6 dk7 dk8 dk9 dk10 dk11 dk12 b = cryptWith (fun i => [dk0, dk1, dk2, dk3, dk4, dk5, dk6, dk7, dk8, dk9, dk10, dk11, dk12].getD i 0#128) 13 b := by
  simp only [aria_rk13_decrypt_block, sb1_at, sb2_at, sb3_at, sb4_at, bytes16, sl2_cat,
    cryptWith, loopIdx13, List.foldl_cons, List.foldl_nil, fo, fe, diffuse, DIFFUSE_CONSTS, byte,
    List.zip_cons_cons, List.zip_nil_right, List.map_cons, List.map_nil,
    Nat.reduceMul, Nat.reduceAdd, Nat.reduceSub, Nat.sub_zero,
    List.getD_cons_zero, List.getD_cons_succ]

/-- the same against `BC.Aria.decryptBlock` on the struct `Aria<13> { ek, dk }` -/
theorem rk13_decrypt_eq (ek0 ek1 ek2 ek3 ek4 ek5 ek6 ek7 ek8 ek9 ek10 ek11 ek12 dk0 dk1 dk2 dk3 dk4 dk5 dk6 dk7 dk8 dk9 dk10 dk11 dk12 : BitVec 128) (b : BitVec 128) :
    aria_rk13_decrypt_block ek0 ek1 ek2 ek3 ek4 ek5 ek6 ek7 ek8 ek9 ek10 ek11 ek12 dk0 dk1 dk2 dk3 dk4 dk5 dk6 dk7 dk8 dk9 dk10 dk11 dk12 b = decryptBlock ⟨#[ek0, ek1, ek2, ek3, ek4, ek5, ek6, ek7, ek8, ek9, ek10, ek11, ek12], #[dk0, dk1, dk2, dk3, dk4, dk5, dk6, dk7, dk8, dk9, dk10, dk11, dk12]⟩ 13 b := by
  rw [rk13_decrypt_block_eq, decryptBlock, key_mk]

theorem rk15_encrypt_block_eq (ek0 ek1 ek2 ek3 ek4 ek5 ek6 ek7 ek8 ek9 ek10 ek11 ek12 ek13 ek14 dk0 dk1 dk2 dk3 dk4 dk5 dk6 dk7 dk8 dk9 dk10 dk11 dk12 dk13 dk14 : BitVec 128) (b : BitVec 128) :
    aria_rk15_encrypt_block ek0 ek1 ek2 ek3 ek4 ek5 ek6 ek7 ek8 ek9 ek10 ek11 ek12 ek13 ek14 dk0 dk1 dk2 dk3 dk4 dk5 dk6 dk7 dk8 dk9 dk10 dk11 dk12 dk13 dk14 b = cryptWith (fun i => [ek0, ek1, ek2, ek3, ek4, ek5, ek6, ek7, ek8, ek9, ek10, ek11, ek12, ek13, ek14].getD i 0#128) 15 b := by
  simp only [aria_rk15_encrypt_block, sb1_at, sb2_at, sb3_at, sb4_at, bytes16, sl2_cat,
    cryptWith, loopIdx15, List.foldl_cons, List.foldl_nil, fo, fe, diffuse, DIFFUSE_CONSTS, byte,
    List.zip_cons_cons, List.zip_nil_right, List.map_cons, List.map_nil,
    Nat.reduceMul, Nat.reduceAdd, Nat.reduceSub, Nat.sub_zero,
    List.getD_cons_zero, List.getD_cons_succ]

/-- the same against `BC.Aria.encryptBlock` on the struct `Aria<15> { ek, dk }` -/
theorem rk15_encrypt_eq (ek0 ek1 ek2 ek3 ek4 ek5 ek6 ek7 ek8 ek9 ek10 ek11 ek12 ek13 ek14 dk0 dk1 dk2 dk3 dk4 dk5 dk6 dk7 dk8 dk9 dk10 dk11 dk12 dk13 dk14 : BitVec 128) (b : BitVec 128) :
    aria_rk15_encrypt_block ek0 ek1 ek2 ek3 ek4 ek5 ek6 ek7 ek8 ek9 ek10 ek11 ek12 ek13 ek14 dk0 dk1 dk2 dk3 dk4 dk5 dk6 dk7 dk8 dk9 dk10 dk11 dk12 dk13 dk14 b = encryptBlock ⟨#[ek0, ek1, ek2, ek3, ek4, ek5, ek6, ek7, ek8, ek9, ek10, ek11, ek12, ek13, ek14], #[dk0, dk1, dk2, dk3, dk4, dk5, dk6, dk7, dk8, dk9, dk10, dk11, dk12, dk13, dk14]⟩ 15 b := by
  rw [rk15_encrypt_block_eq, encryptBlock, key_mk]

theorem rk15_decrypt_block_eq (ek0 ek1 ek2 ek3 ek4 ek5 ek6 ek7 ek8 ek9 ek10 ek11 ek12 ek13 ek14 dk0 dk1 dk2 dk3 dk4 dk5 dk6 dk7 dk8 dk9 dk10 dk11 dk12 dk13 dk14 : BitVec 128) (b : BitVec 128) :
    aria_rk15_decrypt_block ek0 ek1 ek2 ek3 ek4 ek5 ek6 ek7 ek8 ek9 ek10 ek11 ek12 ek13 ek14 dk0 dk1 dk2 dk3 dk4 dk5 dk6 dk7 dk8 dk9 dk10 dk11 dk12 dk13 dk14 b = cryptWith (fun i => [dk0, dk1, dk2, dk3, dk4, dk5, dk6, dk7, dk8, dk9, dk10, dk11, dk12, dk13, dk14].getD i 0#128) 15 b := by
  simp only [aria_rk15_decrypt_block, sb1_at, sb2_at, sb3_at, sb4_at, bytes16, sl2_cat,
    cryptWith, loopIdx15, List.foldl_cons, List.foldl_nil, fo, fe, diffuse, DIFFUSE_CONSTS, byte,
    List.zip_cons_cons, List.zip_nil_right, List.map_cons, List.map_nil,
    Nat.reduceMul, Nat.reduceAdd, Nat.reduceSub, Nat.sub_zero,
    List.getD_cons_zero, List.getD_cons_succ]

/-- the same against `BC.Aria.decryptBlock` on the struct `Aria<15> { ek, dk }` -/
theorem rk15_decrypt_eq (ek0 ek1 ek2 ek3 ek4 ek5 ek6 ek7 ek8 ek9 ek10 ek11 ek12 ek13 ek14 dk0 dk1 dk2 dk3 dk4 dk5 dk6 dk7 dk8 dk9 dk10 dk11 dk12 dk13 dk14 : BitVec 128) (b : BitVec 128) :
    aria_rk15_decrypt_block ek0 ek1 ek2 ek3 ek4 ek5 ek6 ek7 ek8 ek9 ek10 ek11 ek12 ek13 ek14 dk0 dk1 dk2 dk3 dk4 dk5 dk6 dk7 dk8 dk9 dk10 dk11 dk12 dk13 dk14 b = decryptBlock ⟨#[ek0, ek1, ek2, ek3, ek4, ek5, ek6, ek7, ek8, ek9, ek10, ek11, ek12, ek13, ek14], #[dk0, dk1, dk2, dk3, dk4, dk5, dk6, dk7, dk8, dk9, dk10, dk11, dk12, dk13, dk14]⟩ 15 b := by
  rw [rk15_decrypt_block_eq, decryptBlock, key_mk]

theorem rk17_encrypt_block_eq (ek0 ek1 ek2 ek3 ek4 ek5 ek6 ek7 ek8 ek9 ek10 ek11 ek12 ek13 ek14 ek15 ek16 dk0 dk1 dk2 dk3 dk4 dk5 dk6 dk7 dk8 dk9 dk10 dk11 dk12 dk13 dk14 dk15 dk16 : BitVec 128) (b : BitVec 128) :
    aria_rk17_encrypt_block ek0 ek1 ek2 ek3 ek4 ek5 ek6 ek7 ek8 ek9 ek10 ek11 ek12 ek13 ek14 ek15 ek16 dk0 dk1 dk2 dk3 dk4 dk5 dk6 dk7 dk8 dk9 dk10 dk11 dk12 dk13 dk14 dk15 dk16 b = cryptWith (fun i => [ek0, ek1, ek2, ek3, ek4, ek5, ek6, ek7, ek8, ek9, ek10, ek11, ek12, ek13, ek14, ek15, ek16].getD i 0#128) 17 b := by
  simp only [aria_rk17_encrypt_block, sb1_at, sb2_at, sb3_at, sb4_at, bytes16, sl2_cat,
    cryptWith, loopIdx17, List.foldl_cons, List.foldl_nil, fo, fe, diffuse, DIFFUSE_CONSTS, byte,
    List.zip_cons_cons, List.zip_nil_right, List.map_cons, List.map_nil,
    Nat.reduceMul, Nat.reduceAdd, Nat.reduceSub, Nat.sub_zero,
    List.getD_cons_zero, List.getD_cons_succ]

/-- the same against `BC.Aria.encryptBlock` on the struct `Aria<17> { ek, dk }` -/
theorem rk17_encrypt_eq (ek0 ek1 ek2 ek3 ek4 ek5 ek6 ek7 ek8 ek9 ek10 ek11 ek12 ek13 ek14 ek15 ek16 dk0 dk1 dk2 dk3 dk4 dk5 dk6 dk7 dk8 dk9 dk10 dk11 dk12 dk13 dk14 dk15 dk16 : BitVec 128) (b : BitVec 128) :
    aria_rk17_encrypt_block ek0 ek1 ek2 ek3 ek4 ek5 ek6 ek7 ek8 ek9 ek10 ek11 ek12 ek13 ek14 ek15 ek16 dk0 dk1 dk2 dk3 dk4 dk5 dk6 dk7 dk8 dk9 dk10 dk11 dk12 dk13 dk14 dk15 dk16 b = encryptBlock ⟨#[ek0, ek1, ek2, ek3, ek4, ek5, ek6, ek7, ek8, ek9, ek10, ek11, ek12, ek13, ek14, ek15, ek16], #[dk0, dk1, dk2, dk3, dk4, dk5, dk6, dk7, dk8, dk9, dk10, dk11, dk12, dk13, dk14, dk15, dk16]⟩ 17 b := by
  rw [rk17_encrypt_block_eq, encryptBlock, key_mk]

theorem rk17_decrypt_block_eq (ek0 ek1 ek2 ek3 ek4 ek5 ek6 ek7 ek8 ek9 ek10 ek11 ek12 ek13 ek14 ek15 ek16 dk0 dk1 dk2 dk3 dk4 dk5 dk6 dk7 dk8 dk9 dk10 dk11 dk12 dk13 dk14 dk15 dk16 : BitVec 128) (b : BitVec 128) :
    aria_rk17_decrypt_block ek0 ek1 ek2 ek3 ek4 ek5 ek6 ek7 ek8 ek9 ek10 ek11 ek12 ek13 ek14 ek15 ek16 dk0 dk1 dk2 dk3 dk4 dk5 dk6 dk7 dk8 dk9 dk10 dk11 dk12 dk13 dk14 dk15 dk16 b = cryptWith (fun i => [dk0, dk1, dk2, dk3, dk4, dk5, dk6, dk7, dk8, dk9, dk10, dk11, dk12, dk13, dk14, dk15, dk16].getD i 0#128) 17 b := by
  simp only [aria_rk17_decrypt_block, sb1_at, sb2_at, sb3_at, sb4_at, bytes16, sl2_cat,
    cryptWith, loopIdx17, List.foldl_cons, List.foldl_nil, fo, fe, diffuse, DIFFUSE_CONSTS, byte,
    List.zip_cons_cons, List.zip_nil_right, List.map_cons, List.map_nil,
    Nat.reduceMul, Nat.reduceAdd, Nat.reduceSub, Nat.sub_zero,
    List.getD_cons_zero, List.getD_cons_succ]

/-- the same against `BC.Aria.decryptBlock` on the struct `Aria<17> { ek, dk }` -/
theorem rk17_decrypt_eq (ek0 ek1 ek2 ek3 ek4 ek5 ek6 ek7 ek8 ek9 ek10 ek11 ek12 ek13 ek14 ek15 ek16 dk0 dk1 dk2 dk3 dk4 dk5 dk6 dk7 dk8 dk9 dk10 dk11 dk12 dk13 dk14 dk15 dk16 : BitVec 128) (b : BitVec 128) :
    aria_rk17_decrypt_block ek0 ek1 ek2 ek3 ek4 ek5 ek6 ek7 ek8 ek9 ek10 ek11 ek12 ek13 ek14 ek15 ek16 dk0 dk1 dk2 dk3 dk4 dk5 dk6 dk7 dk8 dk9 dk10 dk11 dk12 dk13 dk14 dk15 dk16 b = decryptBlock ⟨#[ek0, ek1, ek2, ek3, ek4, ek5, ek6, ek7, ek8, ek9, ek10, ek11, ek12, ek13, ek14, ek15, ek16], #[dk0, dk1, dk2, dk3, dk4, dk5, dk6, dk7, dk8, dk9, dk10, dk11, dk12, dk13, dk14, dk15, dk16]⟩ 17 b := by
  rw [rk17_decrypt_block_eq, decryptBlock, key_mk]

end BC.GenCipher.Aria
