import BlockCiphers.Spec.Aes
/-!
FIPS-197 KeyExpansion as a recurrence on the finished array (Spec-level, no reference to the code):
for `W = keyExpansion nk nr key`, `key.length = nk > 0`,
  `W[i] = key[i]` (i < nk),  `W[i] = W[i-nk] ⊕ temp(i, W[i-1])` (nk ≤ i < 4(nr+1)).
-/
namespace BC.AesFs64
open BC.Spec.Aes

def kxTemp (nk i : Nat) (prev : BitVec 32) : BitVec 32 :=
  if i % nk = 0 then subWord (rotWord prev) ^^^ rcon (i / nk)
  else if nk > 6 ∧ i % nk = 4 then subWord prev
  else prev

def kxStep (nk : Nat) (w : Array (BitVec 32)) (j : Nat) : Array (BitVec 32) :=
  w.push (w.getD (j + nk - nk) 0 ^^^ kxTemp nk (j + nk) (w.getD (j + nk - 1) 0))

def kxA (nk : Nat) (key : List (BitVec 32)) (n : Nat) : Array (BitVec 32) :=
  (List.range n).foldl (kxStep nk) key.toArray

theorem keyExpansion_eq_kxA (nk nr : Nat) (key : List (BitVec 32)) :
    keyExpansion nk nr key = kxA nk key (4 * (nr + 1) - nk) := rfl

theorem kxA_succ (nk : Nat) (key : List (BitVec 32)) (n : Nat) :
    kxA nk key (n + 1) = kxStep nk (kxA nk key n) n := by
  simp [kxA, List.range_succ, List.foldl_append]

theorem kxA_size (nk : Nat) (key : List (BitVec 32)) (n : Nat) : (kxA nk key n).size = key.length + n := by
  induction n with
  | zero => simp [kxA]
  | succ n ih => rw [kxA_succ, kxStep, Array.size_push, ih]; omega

theorem getD_push_lt {α : Type} (a : Array α) (x d : α) (i : Nat) (h : i < a.size) :
    (a.push x).getD i d = a.getD i d := by
  simp [Array.getD, Array.getElem_push, h, Nat.lt_succ_of_lt h]

theorem getD_push_eq {α : Type} (a : Array α) (x d : α) : (a.push x).getD a.size d = x := by
  simp [Array.getD]

theorem kxA_getD_stable (nk : Nat) (key : List (BitVec 32)) (i n m : Nat) (hi : i < key.length + n) (hnm : n ≤ m) :
    (kxA nk key m).getD i 0 = (kxA nk key n).getD i 0 := by
  induction m with
  | zero => have : n = 0 := by omega
            subst this; rfl
  | succ m ih =>
    by_cases h : n = m + 1
    · subst h; rfl
    · rw [kxA_succ, kxStep, getD_push_lt _ _ _ _ (by rw [kxA_size]; omega)]
      exact ih (by omega)

/-- the initial words -/
theorem kxA_getD_init (nk : Nat) (key : List (BitVec 32)) (i N : Nat) (hi : i < key.length) :
    (kxA nk key N).getD i 0 = key.getD i 0 := by
  rw [kxA_getD_stable nk key i 0 N (by omega) (by omega)]
  simp [kxA, Array.getD, List.getD, hi]

/-- the FIPS-197 recurrence on the finished array -/
theorem kxA_getD_rec (key : List (BitVec 32)) (i N : Nat) (hk : 0 < key.length)
    (h1 : key.length ≤ i) (h2 : i < key.length + N) :
    (kxA key.length key N).getD i 0 =
      (kxA key.length key N).getD (i - key.length) 0 ^^^
        kxTemp key.length i ((kxA key.length key N).getD (i - 1) 0) := by
  have hn : i = key.length + (i - key.length) := by omega
  rw [kxA_getD_stable key.length key i (i - key.length + 1) N (by omega) (by omega)]
  rw [kxA_getD_stable key.length key (i - key.length) (i - key.length) N (by omega) (by omega)]
  rw [kxA_getD_stable key.length key (i - 1) (i - key.length) N (by omega) (by omega)]
  rw [kxA_succ, kxStep]
  have hs : (kxA key.length key (i - key.length)).size = i := by rw [kxA_size]; omega
  have e1 : i - key.length + key.length = i := by omega
  rw [e1]
  have := getD_push_eq (kxA key.length key (i - key.length))
    ((kxA key.length key (i - key.length)).getD (i - key.length) 0 ^^^
      kxTemp key.length i ((kxA key.length key (i - key.length)).getD (i - 1) 0)) 0
  rw [hs] at this
  exact this

end BC.AesFs64
