import BlockCiphers.Gen.Cipher_Aria
import BlockCiphers.Gen.Keys_Aria
import BlockCiphers.Proofs.GenCipherAria
import BlockCiphers.Proofs.GenKeysAria
import BlockCiphers.Proofs.Aria
import BlockCiphers.Proofs.AriaSpec
/-!
Code-level theorems for ARIA-128/192/256: statements mention ONLY the regenerated code
(`BC.Gen.Fn.aria{128,192,256}_new`, `aria_rk{13,15,17}_{encrypt,decrypt}_block`) and the specification
`BC.Spec.Aria` (RFC 5794).  Composition of
  (1) `BC.Aria.decrypt_encrypt{128,192,256}`, `encrypt_decrypt…` (Proofs/Aria.lean; Thm C01),
      `encrypt{128,192,256}_eq_spec`, `decrypt…_eq_spec` (Proofs/AriaSpec.lean; Thm C06),
  (2) `BC.GenCipher.Aria.rk{13,15,17}_{encrypt,decrypt}_eq`,
  (3) `BC.GenKeys.Aria.aria{128,192,256}_new_eq`.
Glue proved here: the model's `Keys` record is the pair of array literals of its 2·RK entries (sizes are literal).
-/
set_option maxRecDepth 100000
namespace BC.Code.Aria
open BC BC.Gen.Fn

/-- an array of known size is the literal of its entries -/
private theorem arr_eta (a : Array (BitVec 128)) (n : Nat) (h : a.size = n) :
    a = ((List.range n).map (fun i => a.getD i 0)).toArray := by
  apply Array.ext
  · simp [h]
  · intro i h1 h2
    simp [Array.getD_eq_getD_getElem?, h1]

/-! ## ARIA-128 -/

/-- `Aria128::new(key).encrypt_block(b)` on the regenerated code -/
def enc128 (key : BitVec 128) (b : BitVec 128) : BitVec 128 :=
  match aria128_new key with
  | (e0, e1, e2, e3, e4, e5, e6, e7, e8, e9, e10, e11, e12, d0, d1, d2, d3, d4, d5, d6, d7, d8, d9, d10, d11, d12) =>
    aria_rk13_encrypt_block e0 e1 e2 e3 e4 e5 e6 e7 e8 e9 e10 e11 e12 d0 d1 d2 d3 d4 d5 d6 d7 d8 d9 d10 d11 d12 b

/-- `Aria128::new(key).decrypt_block(b)` on the regenerated code -/
def dec128 (key : BitVec 128) (b : BitVec 128) : BitVec 128 :=
  match aria128_new key with
  | (e0, e1, e2, e3, e4, e5, e6, e7, e8, e9, e10, e11, e12, d0, d1, d2, d3, d4, d5, d6, d7, d8, d9, d10, d11, d12) =>
    aria_rk13_decrypt_block e0 e1 e2 e3 e4 e5 e6 e7 e8 e9 e10 e11 e12 d0 d1 d2 d3 d4 d5 d6 d7 d8 d9 d10 d11 d12 b

/-- the model's struct `Aria<13> { ek, dk }` rebuilt from a generated 26-tuple -/
private def mk26 : BitVec 128 × BitVec 128 × BitVec 128 × BitVec 128 × BitVec 128 × BitVec 128 × BitVec 128 × BitVec 128 × BitVec 128 × BitVec 128 × BitVec 128 × BitVec 128 × BitVec 128 × BitVec 128 × BitVec 128 × BitVec 128 × BitVec 128 × BitVec 128 × BitVec 128 × BitVec 128 × BitVec 128 × BitVec 128 × BitVec 128 × BitVec 128 × BitVec 128 × BitVec 128 → BC.Aria.Keys
  | (e0, e1, e2, e3, e4, e5, e6, e7, e8, e9, e10, e11, e12, d0, d1, d2, d3, d4, d5, d6, d7, d8, d9, d10, d11, d12) => ⟨#[e0, e1, e2, e3, e4, e5, e6, e7, e8, e9, e10, e11, e12], #[d0, d1, d2, d3, d4, d5, d6, d7, d8, d9, d10, d11, d12]⟩

private theorem keys_eta13 (k : BC.Aria.Keys) (he : k.ek.size = 13) (hd : k.dk.size = 13) :
    k = ⟨#[k.ek.getD 0 0, k.ek.getD 1 0, k.ek.getD 2 0, k.ek.getD 3 0, k.ek.getD 4 0, k.ek.getD 5 0, k.ek.getD 6 0, k.ek.getD 7 0, k.ek.getD 8 0, k.ek.getD 9 0, k.ek.getD 10 0, k.ek.getD 11 0, k.ek.getD 12 0], #[k.dk.getD 0 0, k.dk.getD 1 0, k.dk.getD 2 0, k.dk.getD 3 0, k.dk.getD 4 0, k.dk.getD 5 0, k.dk.getD 6 0, k.dk.getD 7 0, k.dk.getD 8 0, k.dk.getD 9 0, k.dk.getD 10 0, k.dk.getD 11 0, k.dk.getD 12 0]⟩ := by
  cases k with | mk ek dk =>
  have h1 := arr_eta ek 13 he
  have h2 := arr_eta dk 13 hd
  simp only [List.range, List.range.loop, List.map_cons, List.map_nil] at h1 h2
  simp only [BC.Aria.Keys.mk.injEq]
  exact ⟨h1, h2⟩

private theorem new128_eq (key : BitVec 128) : BC.Aria.new128 key = mk26 (aria128_new key) := by
  rw [BC.GenKeys.Aria.aria128_new_eq]
  exact keys_eta13 (BC.Aria.new128 key) rfl rfl

theorem enc128_eq_impl (key : BitVec 128) (b : BitVec 128) : enc128 key b = BC.Aria.encrypt128 key b := by
  rw [BC.Aria.encrypt128, new128_eq key]
  unfold enc128
  generalize aria128_new key = t
  obtain ⟨e0, e1, e2, e3, e4, e5, e6, e7, e8, e9, e10, e11, e12, d0, d1, d2, d3, d4, d5, d6, d7, d8, d9, d10, d11, d12⟩ := t
  exact BC.GenCipher.Aria.rk13_encrypt_eq e0 e1 e2 e3 e4 e5 e6 e7 e8 e9 e10 e11 e12 d0 d1 d2 d3 d4 d5 d6 d7 d8 d9 d10 d11 d12 b

theorem dec128_eq_impl (key : BitVec 128) (b : BitVec 128) : dec128 key b = BC.Aria.decrypt128 key b := by
  rw [BC.Aria.decrypt128, new128_eq key]
  unfold dec128
  generalize aria128_new key = t
  obtain ⟨e0, e1, e2, e3, e4, e5, e6, e7, e8, e9, e10, e11, e12, d0, d1, d2, d3, d4, d5, d6, d7, d8, d9, d10, d11, d12⟩ := t
  exact BC.GenCipher.Aria.rk13_decrypt_eq e0 e1 e2 e3 e4 e5 e6 e7 e8 e9 e10 e11 e12 d0 d1 d2 d3 d4 d5 d6 d7 d8 d9 d10 d11 d12 b

theorem dec128_enc128 (key : BitVec 128) (b : BitVec 128) : dec128 key (enc128 key b) = b := by
  rw [enc128_eq_impl, dec128_eq_impl, BC.Aria.decrypt_encrypt128]

theorem enc128_dec128 (key : BitVec 128) (b : BitVec 128) : enc128 key (dec128 key b) = b := by
  rw [enc128_eq_impl, dec128_eq_impl, BC.Aria.encrypt_decrypt128]

/-- the regenerated ARIA-128 encryption is RFC 5794 encryption, for every key and block -/
theorem enc128_eq_spec (key : BitVec 128) (b : BitVec 128) : enc128 key b = BC.Spec.Aria.encrypt128 key b := by
  rw [enc128_eq_impl, BC.Aria.encrypt128_eq_spec]

theorem dec128_eq_spec (key : BitVec 128) (b : BitVec 128) : dec128 key b = BC.Spec.Aria.decrypt128 key b := by
  rw [dec128_eq_impl, BC.Aria.decrypt128_eq_spec]

/-! ## ARIA-192 -/

/-- `Aria192::new(key).encrypt_block(b)` on the regenerated code -/
def enc192 (key : BitVec 192) (b : BitVec 128) : BitVec 128 :=
  match aria192_new key with
  | (e0, e1, e2, e3, e4, e5, e6, e7, e8, e9, e10, e11, e12, e13, e14, d0, d1, d2, d3, d4, d5, d6, d7, d8, d9, d10, d11, d12, d13, d14) =>
    aria_rk15_encrypt_block e0 e1 e2 e3 e4 e5 e6 e7 e8 e9 e10 e11 e12 e13 e14 d0 d1 d2 d3 d4 d5 d6 d7 d8 d9 d10 d11 d12 d13 d14 b

/-- `Aria192::new(key).decrypt_block(b)` on the regenerated code -/
def dec192 (key : BitVec 192) (b : BitVec 128) : BitVec 128 :=
  match aria192_new key with
  | (e0, e1, e2, e3, e4, e5, e6, e7, e8, e9, e10, e11, e12, e13, e14, d0, d1, d2, d3, d4, d5, d6, d7, d8, d9, d10, d11, d12, d13, d14) =>
    aria_rk15_decrypt_block e0 e1 e2 e3 e4 e5 e6 e7 e8 e9 e10 e11 e12 e13 e14 d0 d1 d2 d3 d4 d5 d6 d7 d8 d9 d10 d11 d12 d13 d14 b

/-- the model's struct `Aria<15> { ek, dk }` rebuilt from a generated 30-tuple -/
private def mk30 : BitVec 128 × BitVec 128 × BitVec 128 × BitVec 128 × BitVec 128 × BitVec 128 × BitVec 128 × BitVec 128 × BitVec 128 × BitVec 128 × BitVec 128 × BitVec 128 × BitVec 128 × BitVec 128 × BitVec 128 × BitVec 128 × BitVec 128 × BitVec 128 × BitVec 128 × BitVec 128 × BitVec 128 × BitVec 128 × BitVec 128 × BitVec 128 × BitVec 128 × BitVec 128 × BitVec 128 × BitVec 128 × BitVec 128 × BitVec 128 → BC.Aria.Keys
  | (e0, e1, e2, e3, e4, e5, e6, e7, e8, e9, e10, e11, e12, e13, e14, d0, d1, d2, d3, d4, d5, d6, d7, d8, d9, d10, d11, d12, d13, d14) => ⟨#[e0, e1, e2, e3, e4, e5, e6, e7, e8, e9, e10, e11, e12, e13, e14], #[d0, d1, d2, d3, d4, d5, d6, d7, d8, d9, d10, d11, d12, d13, d14]⟩

private theorem keys_eta15 (k : BC.Aria.Keys) (he : k.ek.size = 15) (hd : k.dk.size = 15) :
    k = ⟨#[k.ek.getD 0 0, k.ek.getD 1 0, k.ek.getD 2 0, k.ek.getD 3 0, k.ek.getD 4 0, k.ek.getD 5 0, k.ek.getD 6 0, k.ek.getD 7 0, k.ek.getD 8 0, k.ek.getD 9 0, k.ek.getD 10 0, k.ek.getD 11 0, k.ek.getD 12 0, k.ek.getD 13 0, k.ek.getD 14 0], #[k.dk.getD 0 0, k.dk.getD 1 0, k.dk.getD 2 0, k.dk.getD 3 0, k.dk.getD 4 0, k.dk.getD 5 0, k.dk.getD 6 0, k.dk.getD 7 0, k.dk.getD 8 0, k.dk.getD 9 0, k.dk.getD 10 0, k.dk.getD 11 0, k.dk.getD 12 0, k.dk.getD 13 0, k.dk.getD 14 0]⟩ := by
  cases k with | mk ek dk =>
  have h1 := arr_eta ek 15 he
  have h2 := arr_eta dk 15 hd
  simp only [List.range, List.range.loop, List.map_cons, List.map_nil] at h1 h2
  simp only [BC.Aria.Keys.mk.injEq]
  exact ⟨h1, h2⟩

private theorem new192_eq (key : BitVec 192) : BC.Aria.new192 key = mk30 (aria192_new key) := by
  rw [BC.GenKeys.Aria.aria192_new_eq]
  exact keys_eta15 (BC.Aria.new192 key) rfl rfl

theorem enc192_eq_impl (key : BitVec 192) (b : BitVec 128) : enc192 key b = BC.Aria.encrypt192 key b := by
  rw [BC.Aria.encrypt192, new192_eq key]
  unfold enc192
  generalize aria192_new key = t
  obtain ⟨e0, e1, e2, e3, e4, e5, e6, e7, e8, e9, e10, e11, e12, e13, e14, d0, d1, d2, d3, d4, d5, d6, d7, d8, d9, d10, d11, d12, d13, d14⟩ := t
  exact BC.GenCipher.Aria.rk15_encrypt_eq e0 e1 e2 e3 e4 e5 e6 e7 e8 e9 e10 e11 e12 e13 e14 d0 d1 d2 d3 d4 d5 d6 d7 d8 d9 d10 d11 d12 d13 d14 b

theorem dec192_eq_impl (key : BitVec 192) (b : BitVec 128) : dec192 key b = BC.Aria.decrypt192 key b := by
  rw [BC.Aria.decrypt192, new192_eq key]
  unfold dec192
  generalize aria192_new key = t
  obtain ⟨e0, e1, e2, e3, e4, e5, e6, e7, e8, e9, e10, e11, e12, e13, e14, d0, d1, d2, d3, d4, d5, d6, d7, d8, d9, d10, d11, d12, d13, d14⟩ := t
  exact BC.GenCipher.Aria.rk15_decrypt_eq e0 e1 e2 e3 e4 e5 e6 e7 e8 e9 e10 e11 e12 e13 e14 d0 d1 d2 d3 d4 d5 d6 d7 d8 d9 d10 d11 d12 d13 d14 b

theorem dec192_enc192 (key : BitVec 192) (b : BitVec 128) : dec192 key (enc192 key b) = b := by
  rw [enc192_eq_impl, dec192_eq_impl, BC.Aria.decrypt_encrypt192]

theorem enc192_dec192 (key : BitVec 192) (b : BitVec 128) : enc192 key (dec192 key b) = b := by
  rw [enc192_eq_impl, dec192_eq_impl, BC.Aria.encrypt_decrypt192]

/-- the regenerated ARIA-192 encryption is RFC 5794 encryption, for every key and block -/
theorem enc192_eq_spec (key : BitVec 192) (b : BitVec 128) : enc192 key b = BC.Spec.Aria.encrypt192 key b := by
  rw [enc192_eq_impl, BC.Aria.encrypt192_eq_spec]

theorem dec192_eq_spec (key : BitVec 192) (b : BitVec 128) : dec192 key b = BC.Spec.Aria.decrypt192 key b := by
  rw [dec192_eq_impl, BC.Aria.decrypt192_eq_spec]

/-! ## ARIA-256 -/

/-- `Aria256::new(key).encrypt_block(b)` on the regenerated code -/
def enc256 (key : BitVec 256) (b : BitVec 128) : BitVec 128 :=
  match aria256_new key with
  | (e0, e1, e2, e3, e4, e5, e6, e7, e8, e9, e10, e11, e12, e13, e14, e15, e16, d0, d1, d2, d3, d4, d5, d6, d7, d8, d9, d10, d11, d12, d13, d14, d15, d16) =>
    aria_rk17_encrypt_block e0 e1 e2 e3 e4 e5 e6 e7 e8 e9 e10 e11 e12 e13 e14 e15 e16 d0 d1 d2 d3 d4 d5 d6 d7 d8 d9 d10 d11 d12 d13 d14 d15 d16 b

/-- `Aria256::new(key).decrypt_block(b)` on the regenerated code -/
def dec256 (key : BitVec 256) (b : BitVec 128) : BitVec 128 :=
  match aria256_new key with
  | (e0, e1, e2, e3, e4, e5, e6, e7, e8, e9, e10, e11, e12, e13, e14, e15, e16, d0, d1, d2, d3, d4, d5, d6, d7, d8, d9, d10, d11, d12, d13, d14, d15, d16) =>
    aria_rk17_decrypt_block e0 e1 e2 e3 e4 e5 e6 e7 e8 e9 e10 e11 e12 e13 e14 e15 e16 d0 d1 d2 d3 d4 d5 d6 d7 d8 d9 d10 d11 d12 d13 d14 d15 d16 b

/-- the model's struct `Aria<17> { ek, dk }` rebuilt from a generated 34-tuple -/
private def mk34 : BitVec 128 × BitVec 128 × BitVec 128 × BitVec 128 × BitVec 128 × BitVec 128 × BitVec 128 × BitVec 128 × BitVec 128 × BitVec 128 × BitVec 128 × BitVec 128 × BitVec 128 × BitVec 128 × BitVec 128 × BitVec 128 × BitVec 128 × BitVec 128 × BitVec 128 × BitVec 128 × BitVec 128 × BitVec 128 × BitVec 128 × BitVec 128 × BitVec 128 × BitVec 128 × BitVec 128 × BitVec 128 × BitVec 128 × BitVec 128 × BitVec 128 × BitVec 128 × BitVec 128 × BitVec 128 → BC.Aria.Keys
  | (e0, e1, e2, e3, e4, e5, e6, e7, e8, e9, e10, e11, e12, e13, e14, e15, e16, d0, d1, d2, d3, d4, d5, d6, d7, d8, d9, d10, d11, d12, d13, d14, d15, d16) => ⟨#[e0, e1, e2, e3, e4, e5, e6, e7, e8, e9, e10, e11, e12, e13, e14, e15, e16], #[d0, d1, d2, d3, d4, d5, d6, d7, d8, d9, d10, d11, d12, d13, d14, d15, d16]⟩

private theorem keys_eta17 (k : BC.Aria.Keys) (he : k.ek.size = 17) (hd : k.dk.size = 17) :
    k = ⟨#[k.ek.getD 0 0, k.ek.getD 1 0, k.ek.getD 2 0, k.ek.getD 3 0, k.ek.getD 4 0, k.ek.getD 5 0, k.ek.getD 6 0, k.ek.getD 7 0, k.ek.getD 8 0, k.ek.getD 9 0, k.ek.getD 10 0, k.ek.getD 11 0, k.ek.getD 12 0, k.ek.getD 13 0, k.ek.getD 14 0, k.ek.getD 15 0, k.ek.getD 16 0], #[k.dk.getD 0 0, k.dk.getD 1 0, k.dk.getD 2 0, k.dk.getD 3 0, k.dk.getD 4 0, k.dk.getD 5 0, k.dk.getD 6 0, k.dk.getD 7 0, k.dk.getD 8 0, k.dk.getD 9 0, k.dk.getD 10 0, k.dk.getD 11 0, k.dk.getD 12 0, k.dk.getD 13 0, k.dk.getD 14 0, k.dk.getD 15 0, k.dk.getD 16 0]⟩ := by
  cases k with | mk ek dk =>
  have h1 := arr_eta ek 17 he
  have h2 := arr_eta dk 17 hd
  simp only [List.range, List.range.loop, List.map_cons, List.map_nil] at h1 h2
  simp only [BC.Aria.Keys.mk.injEq]
  exact ⟨h1, h2⟩

private theorem new256_eq (key : BitVec 256) : BC.Aria.new256 key = mk34 (aria256_new key) := by
  rw [BC.GenKeys.Aria.aria256_new_eq]
  exact keys_eta17 (BC.Aria.new256 key) rfl rfl

theorem enc256_eq_impl (key : BitVec 256) (b : BitVec 128) : enc256 key b = BC.Aria.encrypt256 key b := by
  rw [BC.Aria.encrypt256, new256_eq key]
  unfold enc256
  generalize aria256_new key = t
  obtain ⟨e0, e1, e2, e3, e4, e5, e6, e7, e8, e9, e10, e11, e12, e13, e14, e15, e16, d0, d1, d2, d3, d4, d5, d6, d7, d8, d9, d10, d11, d12, d13, d14, d15, d16⟩ := t
  exact BC.GenCipher.Aria.rk17_encrypt_eq e0 e1 e2 e3 e4 e5 e6 e7 e8 e9 e10 e11 e12 e13 e14 e15 e16 d0 d1 d2 d3 d4 d5 d6 d7 d8 d9 d10 d11 d12 d13 d14 d15 d16 b

theorem dec256_eq_impl (key : BitVec 256) (b : BitVec 128) : dec256 key b = BC.Aria.decrypt256 key b := by
  rw [BC.Aria.decrypt256, new256_eq key]
  unfold dec256
  generalize aria256_new key = t
  obtain ⟨e0, e1, e2, e3, e4, e5, e6, e7, e8, e9, e10, e11, e12, e13, e14, e15, e16, d0, d1, d2, d3, d4, d5, d6, d7, d8, d9, d10, d11, d12, d13, d14, d15, d16⟩ := t
  exact BC.GenCipher.Aria.rk17_decrypt_eq e0 e1 e2 e3 e4 e5 e6 e7 e8 e9 e10 e11 e12 e13 e14 e15 e16 d0 d1 d2 d3 d4 d5 d6 d7 d8 d9 d10 d11 d12 d13 d14 d15 d16 b

theorem dec256_enc256 (key : BitVec 256) (b : BitVec 128) : dec256 key (enc256 key b) = b := by
  rw [enc256_eq_impl, dec256_eq_impl, BC.Aria.decrypt_encrypt256]

theorem enc256_dec256 (key : BitVec 256) (b : BitVec 128) : enc256 key (dec256 key b) = b := by
  rw [enc256_eq_impl, dec256_eq_impl, BC.Aria.encrypt_decrypt256]

/-- the regenerated ARIA-256 encryption is RFC 5794 encryption, for every key and block -/
theorem enc256_eq_spec (key : BitVec 256) (b : BitVec 128) : enc256 key b = BC.Spec.Aria.encrypt256 key b := by
  rw [enc256_eq_impl, BC.Aria.encrypt256_eq_spec]

theorem dec256_eq_spec (key : BitVec 256) (b : BitVec 128) : dec256 key b = BC.Spec.Aria.decrypt256 key b := by
  rw [dec256_eq_impl, BC.Aria.decrypt256_eq_spec]

end BC.Code.Aria
