import Std.Tactic.BVDecide
import BlockCiphers.Proofs.IdeaInv0
import BlockCiphers.Proofs.IdeaInv1
import BlockCiphers.Proofs.IdeaInv2
import BlockCiphers.Proofs.IdeaInv3
/-
IDEA `mul_inv`, all 65536 arguments (exhaustive kernel evaluation, 16 chunks in `IdeaInv0..3`):
* `mul (mul_inv a) a = 1`  — the only fact about `mul_inv` the round-trip proof needs; it also yields
  (Proofs/Idea.lean) that 65537 has no zero divisors among 1..65536 without appealing to primality;
* C20: the Euclid loop never divides by zero, never overflows `u32`, `MAXIM - t1` never underflows, and the loop
  ends within the model's fuel (`mulInvChecked_eq`).
-/
namespace BC.Idea

theorem invOk_split (n m : BitVec 4) (l : BitVec 8) : InvOk ((n ++ m) ++ l) := by
  have : n = 0#4 ∨ n = 1#4 ∨ n = 2#4 ∨ n = 3#4 ∨ n = 4#4 ∨ n = 5#4 ∨ n = 6#4 ∨ n = 7#4 ∨ n = 8#4 ∨ n = 9#4 ∨ n = 10#4 ∨ n = 11#4 ∨ n = 12#4 ∨ n = 13#4 ∨ n = 14#4 ∨ n = 15#4 := by bv_decide (config := { timeout := 600 })
  rcases this with rfl | rfl | rfl | rfl | rfl | rfl | rfl | rfl | rfl | rfl | rfl | rfl | rfl | rfl | rfl | rfl
  · exact invOk_0 m l
  · exact invOk_1 m l
  · exact invOk_2 m l
  · exact invOk_3 m l
  · exact invOk_4 m l
  · exact invOk_5 m l
  · exact invOk_6 m l
  · exact invOk_7 m l
  · exact invOk_8 m l
  · exact invOk_9 m l
  · exact invOk_10 m l
  · exact invOk_11 m l
  · exact invOk_12 m l
  · exact invOk_13 m l
  · exact invOk_14 m l
  · exact invOk_15 m l

theorem invOk (a : BitVec 16) : InvOk a := by
  have h := invOk_split (a.extractLsb' 12 4) (a.extractLsb' 8 4) (a.extractLsb' 0 8)
  have e : (a.extractLsb' 12 4 ++ a.extractLsb' 8 4) ++ a.extractLsb' 0 8 = a := by bv_decide (config := { timeout := 600 })
  rwa [e] at h

theorem mul_mulInv (a : BitVec 16) : mul (mulInv a) a = 1#16 := (invOk a).2

/-- C20-SITE `mul_inv`: no panic site is reached and the loop ends, for every `a`. -/
theorem mulInvChecked_eq (a : BitVec 16) : mulInvChecked a = some (mulInv a) := (invOk a).1

end BC.Idea
