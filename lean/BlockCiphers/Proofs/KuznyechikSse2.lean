import BlockCiphers.Proofs.KuznyechikFused
/-
Kuznyechik, sse2 backend: `transform` and `sub_bytes` written with SSE2 intrinsics compute the same functions as the
portable `big_soft` versions, for EVERY table / S-box.

C20 (the raw-pointer arithmetic of `transform`): 16-bit lane `k` of `_mm_slli_epi16(_mm_unpacklo_epi8(block, ind), 4)`
is exactly `16·(256·k + block[k])` — no bit is lost by the 16-bit shift — so the byte offset handed to
`_mm_load_si128` is a multiple of 16 and at most 65520 (`lind_lane_k`, `rind_lane_k`, `laneIdx_toNat`).
-/
namespace BC.Kuznyechik

/-- the byte offset of row `(k, b)`: `(b | k << 8) << 4` in a 16-bit lane -/
def laneIdx (b : BitVec 8) (k : Nat) : BitVec 16 := (b.setWidth 16 ||| BitVec.ofNat 16 (256 * k)) <<< 4

theorem laneIdx_toNat_fin : ∀ (k : Fin 16) (b : Fin 256),
    (laneIdx (BitVec.ofFin b) k.val).toNat = 16 * (256 * k.val + b.val) := by decide +kernel

/-- the offset is `16·(256·k + b)`: 16-byte aligned and inside the 65536-byte table -/
theorem laneIdx_toNat (b : BitVec 8) (k : Nat) (hk : k < 16) :
    (laneIdx b k).toNat = 16 * (256 * k + b.toNat) := laneIdx_toNat_fin ⟨k, hk⟩ b.toFin

theorem vec_getElem_congr (t : Vector (BitVec 128) 4096) (i j : Nat) (hi : i < 4096) (hj : j < 4096) (h : i = j) :
    t[i] = t[j] := by subst h; rfl

/-- the 128-bit load at that byte offset is row `(k, b)` of the `[[u128; 256]; 16]` view -/
theorem load_at_laneIdx (t : Vector (BitVec 128) 4096) (b : BitVec 8) (k : Nat) (hk : k < 16) :
    load_at t (laneIdx b k) = row t ⟨k, hk⟩ b := by
  unfold load_at row
  apply vec_getElem_congr
  rw [laneIdx_toNat b k hk]
  show 16 * (256 * k + b.toNat) / 16 = 256 * k + b.toNat
  omega

namespace Sse2

theorem lind_lane_0 (v : BitVec 128) :
    _mm_extract_epi16 (_mm_slli_epi16 (_mm_unpacklo_epi8 v ind) 4) 0 = laneIdx (leByte v 0) 0 := by
  simp only [_mm_extract_epi16, _mm_slli_epi16, _mm_unpacklo_epi8, ind, _mm_set_epi64x, laneIdx, leByte, ofLeBytes,
    List.range, List.range.loop, List.foldl]
  simp
  bv_decide (config := { timeout := 120 })

theorem lind_lane_1 (v : BitVec 128) :
    _mm_extract_epi16 (_mm_slli_epi16 (_mm_unpacklo_epi8 v ind) 4) 1 = laneIdx (leByte v 1) 1 := by
  simp only [_mm_extract_epi16, _mm_slli_epi16, _mm_unpacklo_epi8, ind, _mm_set_epi64x, laneIdx, leByte, ofLeBytes,
    List.range, List.range.loop, List.foldl]
  simp
  bv_decide (config := { timeout := 120 })

theorem lind_lane_2 (v : BitVec 128) :
    _mm_extract_epi16 (_mm_slli_epi16 (_mm_unpacklo_epi8 v ind) 4) 2 = laneIdx (leByte v 2) 2 := by
  simp only [_mm_extract_epi16, _mm_slli_epi16, _mm_unpacklo_epi8, ind, _mm_set_epi64x, laneIdx, leByte, ofLeBytes,
    List.range, List.range.loop, List.foldl]
  simp
  bv_decide (config := { timeout := 120 })

theorem lind_lane_3 (v : BitVec 128) :
    _mm_extract_epi16 (_mm_slli_epi16 (_mm_unpacklo_epi8 v ind) 4) 3 = laneIdx (leByte v 3) 3 := by
  simp only [_mm_extract_epi16, _mm_slli_epi16, _mm_unpacklo_epi8, ind, _mm_set_epi64x, laneIdx, leByte, ofLeBytes,
    List.range, List.range.loop, List.foldl]
  simp
  bv_decide (config := { timeout := 120 })

theorem lind_lane_4 (v : BitVec 128) :
    _mm_extract_epi16 (_mm_slli_epi16 (_mm_unpacklo_epi8 v ind) 4) 4 = laneIdx (leByte v 4) 4 := by
  simp only [_mm_extract_epi16, _mm_slli_epi16, _mm_unpacklo_epi8, ind, _mm_set_epi64x, laneIdx, leByte, ofLeBytes,
    List.range, List.range.loop, List.foldl]
  simp
  bv_decide (config := { timeout := 120 })

theorem lind_lane_5 (v : BitVec 128) :
    _mm_extract_epi16 (_mm_slli_epi16 (_mm_unpacklo_epi8 v ind) 4) 5 = laneIdx (leByte v 5) 5 := by
  simp only [_mm_extract_epi16, _mm_slli_epi16, _mm_unpacklo_epi8, ind, _mm_set_epi64x, laneIdx, leByte, ofLeBytes,
    List.range, List.range.loop, List.foldl]
  simp
  bv_decide (config := { timeout := 120 })

theorem lind_lane_6 (v : BitVec 128) :
    _mm_extract_epi16 (_mm_slli_epi16 (_mm_unpacklo_epi8 v ind) 4) 6 = laneIdx (leByte v 6) 6 := by
  simp only [_mm_extract_epi16, _mm_slli_epi16, _mm_unpacklo_epi8, ind, _mm_set_epi64x, laneIdx, leByte, ofLeBytes,
    List.range, List.range.loop, List.foldl]
  simp
  bv_decide (config := { timeout := 120 })

theorem lind_lane_7 (v : BitVec 128) :
    _mm_extract_epi16 (_mm_slli_epi16 (_mm_unpacklo_epi8 v ind) 4) 7 = laneIdx (leByte v 7) 7 := by
  simp only [_mm_extract_epi16, _mm_slli_epi16, _mm_unpacklo_epi8, ind, _mm_set_epi64x, laneIdx, leByte, ofLeBytes,
    List.range, List.range.loop, List.foldl]
  simp
  bv_decide (config := { timeout := 120 })

theorem rind_lane_0 (v : BitVec 128) :
    _mm_extract_epi16 (_mm_slli_epi16 (_mm_unpackhi_epi8 v ind) 4) 0 = laneIdx (leByte v 8) 8 := by
  simp only [_mm_extract_epi16, _mm_slli_epi16, _mm_unpackhi_epi8, ind, _mm_set_epi64x, laneIdx, leByte, ofLeBytes,
    List.range, List.range.loop, List.foldl]
  simp
  bv_decide (config := { timeout := 120 })

theorem rind_lane_1 (v : BitVec 128) :
    _mm_extract_epi16 (_mm_slli_epi16 (_mm_unpackhi_epi8 v ind) 4) 1 = laneIdx (leByte v 9) 9 := by
  simp only [_mm_extract_epi16, _mm_slli_epi16, _mm_unpackhi_epi8, ind, _mm_set_epi64x, laneIdx, leByte, ofLeBytes,
    List.range, List.range.loop, List.foldl]
  simp
  bv_decide (config := { timeout := 120 })

theorem rind_lane_2 (v : BitVec 128) :
    _mm_extract_epi16 (_mm_slli_epi16 (_mm_unpackhi_epi8 v ind) 4) 2 = laneIdx (leByte v 10) 10 := by
  simp only [_mm_extract_epi16, _mm_slli_epi16, _mm_unpackhi_epi8, ind, _mm_set_epi64x, laneIdx, leByte, ofLeBytes,
    List.range, List.range.loop, List.foldl]
  simp
  bv_decide (config := { timeout := 120 })

theorem rind_lane_3 (v : BitVec 128) :
    _mm_extract_epi16 (_mm_slli_epi16 (_mm_unpackhi_epi8 v ind) 4) 3 = laneIdx (leByte v 11) 11 := by
  simp only [_mm_extract_epi16, _mm_slli_epi16, _mm_unpackhi_epi8, ind, _mm_set_epi64x, laneIdx, leByte, ofLeBytes,
    List.range, List.range.loop, List.foldl]
  simp
  bv_decide (config := { timeout := 120 })

theorem rind_lane_4 (v : BitVec 128) :
    _mm_extract_epi16 (_mm_slli_epi16 (_mm_unpackhi_epi8 v ind) 4) 4 = laneIdx (leByte v 12) 12 := by
  simp only [_mm_extract_epi16, _mm_slli_epi16, _mm_unpackhi_epi8, ind, _mm_set_epi64x, laneIdx, leByte, ofLeBytes,
    List.range, List.range.loop, List.foldl]
  simp
  bv_decide (config := { timeout := 120 })

theorem rind_lane_5 (v : BitVec 128) :
    _mm_extract_epi16 (_mm_slli_epi16 (_mm_unpackhi_epi8 v ind) 4) 5 = laneIdx (leByte v 13) 13 := by
  simp only [_mm_extract_epi16, _mm_slli_epi16, _mm_unpackhi_epi8, ind, _mm_set_epi64x, laneIdx, leByte, ofLeBytes,
    List.range, List.range.loop, List.foldl]
  simp
  bv_decide (config := { timeout := 120 })

theorem rind_lane_6 (v : BitVec 128) :
    _mm_extract_epi16 (_mm_slli_epi16 (_mm_unpackhi_epi8 v ind) 4) 6 = laneIdx (leByte v 14) 14 := by
  simp only [_mm_extract_epi16, _mm_slli_epi16, _mm_unpackhi_epi8, ind, _mm_set_epi64x, laneIdx, leByte, ofLeBytes,
    List.range, List.range.loop, List.foldl]
  simp
  bv_decide (config := { timeout := 120 })

theorem rind_lane_7 (v : BitVec 128) :
    _mm_extract_epi16 (_mm_slli_epi16 (_mm_unpackhi_epi8 v ind) 4) 7 = laneIdx (leByte v 15) 15 := by
  simp only [_mm_extract_epi16, _mm_slli_epi16, _mm_unpackhi_epi8, ind, _mm_set_epi64x, laneIdx, leByte, ofLeBytes,
    List.range, List.range.loop, List.foldl]
  simp
  bv_decide (config := { timeout := 120 })

/-- C03: the SSE2 `transform` = the portable `transform` of big_soft, for every table -/
theorem transform_eq_soft (v : BitVec 128) (t : Vector (BitVec 128) 4096) : transform v t = Soft.transform v t := by
  simp only [transform, get, _mm_xor_si128, lind_lane_0, lind_lane_1, lind_lane_2, lind_lane_3, lind_lane_4, lind_lane_5, lind_lane_6, lind_lane_7, rind_lane_0, rind_lane_1, rind_lane_2, rind_lane_3, rind_lane_4, rind_lane_5, rind_lane_6, rind_lane_7]
  simp only [load_at_laneIdx t _ 0 (by omega),
    load_at_laneIdx t _ 1 (by omega),
    load_at_laneIdx t _ 2 (by omega),
    load_at_laneIdx t _ 3 (by omega),
    load_at_laneIdx t _ 4 (by omega),
    load_at_laneIdx t _ 5 (by omega),
    load_at_laneIdx t _ 6 (by omega),
    load_at_laneIdx t _ 7 (by omega),
    load_at_laneIdx t _ 8 (by omega),
    load_at_laneIdx t _ 9 (by omega),
    load_at_laneIdx t _ 10 (by omega),
    load_at_laneIdx t _ 11 (by omega),
    load_at_laneIdx t _ 12 (by omega),
    load_at_laneIdx t _ 13 (by omega),
    load_at_laneIdx t _ 14 (by omega),
    load_at_laneIdx t _ 15 (by omega)]
  simp only [Soft.transform, finRange16, List.foldl]
  generalize row t ⟨0, _⟩ _ = r0; generalize row t ⟨1, _⟩ _ = r1; generalize row t ⟨2, _⟩ _ = r2
  generalize row t ⟨3, _⟩ _ = r3; generalize row t ⟨4, _⟩ _ = r4; generalize row t ⟨5, _⟩ _ = r5
  generalize row t ⟨6, _⟩ _ = r6; generalize row t ⟨7, _⟩ _ = r7; generalize row t ⟨8, _⟩ _ = r8
  generalize row t ⟨9, _⟩ _ = r9; generalize row t ⟨10, _⟩ _ = r10; generalize row t ⟨11, _⟩ _ = r11
  generalize row t ⟨12, _⟩ _ = r12; generalize row t ⟨13, _⟩ _ = r13; generalize row t ⟨14, _⟩ _ = r14
  generalize row t ⟨15, _⟩ _ = r15
  bv_decide (config := { timeout := 120 })

theorem t_hi_0 (v : BitVec 128) : ((_mm_extract_epi16 v 0) >>> 8).setWidth 8 = leByte v 1 := by
  simp only [_mm_extract_epi16, leByte]; bv_decide
theorem t_lo_0 (v : BitVec 128) : ((_mm_extract_epi16 v 0) &&& 0xFF#16).setWidth 8 = leByte v 0 := by
  simp only [_mm_extract_epi16, leByte]; bv_decide
theorem t_hi_1 (v : BitVec 128) : ((_mm_extract_epi16 v 1) >>> 8).setWidth 8 = leByte v 3 := by
  simp only [_mm_extract_epi16, leByte]; bv_decide
theorem t_lo_1 (v : BitVec 128) : ((_mm_extract_epi16 v 1) &&& 0xFF#16).setWidth 8 = leByte v 2 := by
  simp only [_mm_extract_epi16, leByte]; bv_decide
theorem t_hi_2 (v : BitVec 128) : ((_mm_extract_epi16 v 2) >>> 8).setWidth 8 = leByte v 5 := by
  simp only [_mm_extract_epi16, leByte]; bv_decide
theorem t_lo_2 (v : BitVec 128) : ((_mm_extract_epi16 v 2) &&& 0xFF#16).setWidth 8 = leByte v 4 := by
  simp only [_mm_extract_epi16, leByte]; bv_decide
theorem t_hi_3 (v : BitVec 128) : ((_mm_extract_epi16 v 3) >>> 8).setWidth 8 = leByte v 7 := by
  simp only [_mm_extract_epi16, leByte]; bv_decide
theorem t_lo_3 (v : BitVec 128) : ((_mm_extract_epi16 v 3) &&& 0xFF#16).setWidth 8 = leByte v 6 := by
  simp only [_mm_extract_epi16, leByte]; bv_decide
theorem t_hi_4 (v : BitVec 128) : ((_mm_extract_epi16 v 4) >>> 8).setWidth 8 = leByte v 9 := by
  simp only [_mm_extract_epi16, leByte]; bv_decide
theorem t_lo_4 (v : BitVec 128) : ((_mm_extract_epi16 v 4) &&& 0xFF#16).setWidth 8 = leByte v 8 := by
  simp only [_mm_extract_epi16, leByte]; bv_decide
theorem t_hi_5 (v : BitVec 128) : ((_mm_extract_epi16 v 5) >>> 8).setWidth 8 = leByte v 11 := by
  simp only [_mm_extract_epi16, leByte]; bv_decide
theorem t_lo_5 (v : BitVec 128) : ((_mm_extract_epi16 v 5) &&& 0xFF#16).setWidth 8 = leByte v 10 := by
  simp only [_mm_extract_epi16, leByte]; bv_decide
theorem t_hi_6 (v : BitVec 128) : ((_mm_extract_epi16 v 6) >>> 8).setWidth 8 = leByte v 13 := by
  simp only [_mm_extract_epi16, leByte]; bv_decide
theorem t_lo_6 (v : BitVec 128) : ((_mm_extract_epi16 v 6) &&& 0xFF#16).setWidth 8 = leByte v 12 := by
  simp only [_mm_extract_epi16, leByte]; bv_decide
theorem t_hi_7 (v : BitVec 128) : ((_mm_extract_epi16 v 7) >>> 8).setWidth 8 = leByte v 15 := by
  simp only [_mm_extract_epi16, leByte]; bv_decide
theorem t_lo_7 (v : BitVec 128) : ((_mm_extract_epi16 v 7) &&& 0xFF#16).setWidth 8 = leByte v 14 := by
  simp only [_mm_extract_epi16, leByte]; bv_decide

/-- C03: the SSE2 `sub_bytes` = the portable one, for every S-box table -/
theorem sub_bytes_eq_soft (v : BitVec 128) (sbox : Vector (BitVec 8) 256) : sub_bytes v sbox = Soft.sub_bytes v sbox := by
  simp only [sub_bytes, t_hi_0, t_lo_0, t_hi_1, t_lo_1, t_hi_2, t_lo_2, t_hi_3, t_lo_3, t_hi_4, t_lo_4, t_hi_5, t_lo_5, t_hi_6, t_lo_6, t_hi_7, t_lo_7]
  simp only [Soft.sub_bytes, _mm_set_epi8, ofLeBytes, List.range, List.range.loop, List.foldl]

end Sse2
end BC.Kuznyechik
