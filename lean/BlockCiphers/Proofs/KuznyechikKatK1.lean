import BlockCiphers.Spec.Kuznyechik
/-
GOST R 34.12-2015 Annex A.1.4, kernel-evaluated: (K3, K4) = F[C8] … F[C1] (K1, K2).
(One module per pair so that the four evaluations run in parallel.)
-/
namespace BC.Kuznyechik.Kat
open BC.Spec.Kuznyechik

theorem nextPair_kat_1 : nextPair 1 (0x8899aabbccddeeff0011223344556677#128, 0xfedcba98765432100123456789abcdef#128) =
    (0xdb31485315694343228d6aef8cc78c44#128, 0x3d4553d8e9cfec6815ebadc40a9ffd04#128) := by decide +kernel

end BC.Kuznyechik.Kat
