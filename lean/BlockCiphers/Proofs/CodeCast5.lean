import BlockCiphers.Gen.Cipher_Cast5
import BlockCiphers.Gen.Keys_Cast5
import BlockCiphers.Proofs.GenCipherCast5
import BlockCiphers.Proofs.GenKeysCast5
import BlockCiphers.Proofs.GenCipherSpeck
import BlockCiphers.Proofs.Cast5
import BlockCiphers.Proofs.Cast5Spec
/-!
Code-level theorems for CAST5 (CAST-128), key lengths 5, 10 (12 rounds) and 11, 16 bytes (16 rounds): statements mention
ONLY the regenerated code (`BC.Gen.Fn.cast5_new_from_slice_<n>`, `cast5_16r_…` / `cast5_12r_encrypt_block` / `…_decrypt_block`)
and the specification `BC.Cast5.Spec` (RFC 2144 §2.2–2.5).  Composition of
  (1) `BC.Cast5.decrypt_encrypt`, `encrypt_decrypt` (Proofs/Cast5.lean; Thm C01), `encrypt_eq_spec`, `decrypt_eq_spec`
      (Proofs/Cast5Spec.lean; Thm C09),
  (2) `BC.GenCipher.Cast5.cast5_16r_encrypt_block_eq` … `cast5_12r_decrypt_block_eq`,
  (3) `BC.GenKeys.Cast5.new_from_slice_<n>_eq`.
The regenerated `encrypt_block` / `decrypt_block` exist in two specialisations on the struct field `small_key`
(`cast5_12r_*`: `small_key = true`, `cast5_16r_*`: `false`); `small_key_<n>` shows that the constructor sets the field to the
value of the specialisation used.  RFC 2144 specifies the rounds on given masking/rotation subkeys (`Spec.encrypt ks rounds`);
its key schedule is not part of `BC.Cast5.Spec`, so the conformance statements are about the subkeys the regenerated
constructor returns (`keysOf`, a plain record of the returned words), with the RFC's round count `Spec.rounds (8·n)`.
`new_<n>`: the model's `Cast5.new` on the `n` key bytes is the schedule of the zero-padded key used in (3).
-/
set_option maxRecDepth 100000
namespace BC.Code.Cast5
open BC BC.Gen.Fn BC.Cast5

open Lean Elab Tactic Meta in
elab "c5_kernel_rfl'" : tactic => do
  let g ← getMainGoal
  let t ← instantiateMVars (← g.getType)
  let some (_, lhs, _) := t.eq? | throwError "c5_kernel_rfl': the goal is not an equality"
  g.assign (← mkEqRefl lhs)

/-- the subkeys returned by the regenerated constructor, as the record the Spec takes -/
def keysOf (t : BitVec 32 × BitVec 32 × BitVec 32 × BitVec 32 × BitVec 32 × BitVec 32 × BitVec 32 × BitVec 32 × BitVec 32 × BitVec 32 × BitVec 32 × BitVec 32 × BitVec 32 × BitVec 32 × BitVec 32 × BitVec 32 × BitVec 8 × BitVec 8 × BitVec 8 × BitVec 8 × BitVec 8 × BitVec 8 × BitVec 8 × BitVec 8 × BitVec 8 × BitVec 8 × BitVec 8 × BitVec 8 × BitVec 8 × BitVec 8 × BitVec 8 × BitVec 8 × BitVec 1) : Keys :=
  match t with
  | (m0, m1, m2, m3, m4, m5, m6, m7, m8, m9, m10, m11, m12, m13, m14, m15, r0, r1, r2, r3, r4, r5, r6, r7, r8, r9, r10, r11, r12, r13, r14, r15, sk) => BC.GenCipher.Cast5.mk m0 m1 m2 m3 m4 m5 m6 m7 m8 m9 m10 m11 m12 m13 m14 m15 r0 r1 r2 r3 r4 r5 r6 r7 r8 r9 r10 r11 r12 r13 r14 r15 (sk == 1#1)

/-- the struct rebuilt from its flattened fields is the struct -/
theorem mk_keySchedule (sk : Bool) (k : BitVec 128) :
    BC.GenCipher.Cast5.mk (keySchedule sk k).masking[0]! (keySchedule sk k).masking[1]! (keySchedule sk k).masking[2]! (keySchedule sk k).masking[3]! (keySchedule sk k).masking[4]! (keySchedule sk k).masking[5]! (keySchedule sk k).masking[6]! (keySchedule sk k).masking[7]! (keySchedule sk k).masking[8]! (keySchedule sk k).masking[9]! (keySchedule sk k).masking[10]! (keySchedule sk k).masking[11]! (keySchedule sk k).masking[12]! (keySchedule sk k).masking[13]! (keySchedule sk k).masking[14]! (keySchedule sk k).masking[15]! (keySchedule sk k).rotate[0]! (keySchedule sk k).rotate[1]! (keySchedule sk k).rotate[2]! (keySchedule sk k).rotate[3]! (keySchedule sk k).rotate[4]! (keySchedule sk k).rotate[5]! (keySchedule sk k).rotate[6]! (keySchedule sk k).rotate[7]! (keySchedule sk k).rotate[8]! (keySchedule sk k).rotate[9]! (keySchedule sk k).rotate[10]! (keySchedule sk k).rotate[11]! (keySchedule sk k).rotate[12]! (keySchedule sk k).rotate[13]! (keySchedule sk k).rotate[14]! (keySchedule sk k).rotate[15]! sk = keySchedule sk k := by
  c5_kernel_rfl'

/-! ### 5-byte keys (12 rounds) -/

/-- `Cast5::new_from_slice(key).encrypt_block(b)` for a 5-byte key, on the regenerated code -/
def enc_5 (key : BitVec 40) (b : BitVec 64) : BitVec 64 :=
  match cast5_new_from_slice_5 key with
  | (m0, m1, m2, m3, m4, m5, m6, m7, m8, m9, m10, m11, m12, m13, m14, m15, r0, r1, r2, r3, r4, r5, r6, r7, r8, r9, r10, r11, r12, r13, r14, r15, _sk) => cast5_12r_encrypt_block m0 m1 m2 m3 m4 m5 m6 m7 m8 m9 m10 m11 m12 m13 m14 m15 r0 r1 r2 r3 r4 r5 r6 r7 r8 r9 r10 r11 r12 r13 r14 r15 b

/-- `Cast5::new_from_slice(key).decrypt_block(b)` for a 5-byte key, on the regenerated code -/
def dec_5 (key : BitVec 40) (b : BitVec 64) : BitVec 64 :=
  match cast5_new_from_slice_5 key with
  | (m0, m1, m2, m3, m4, m5, m6, m7, m8, m9, m10, m11, m12, m13, m14, m15, r0, r1, r2, r3, r4, r5, r6, r7, r8, r9, r10, r11, r12, r13, r14, r15, _sk) => cast5_12r_decrypt_block m0 m1 m2 m3 m4 m5 m6 m7 m8 m9 m10 m11 m12 m13 m14 m15 r0 r1 r2 r3 r4 r5 r6 r7 r8 r9 r10 r11 r12 r13 r14 r15 b

/-- the constructor sets `small_key = true`: the `12r` specialisation is the one `encrypt_block` runs -/
theorem small_key_5 (key : BitVec 40) : (cast5_new_from_slice_5 key).2.2.2.2.2.2.2.2.2.2.2.2.2.2.2.2.2.2.2.2.2.2.2.2.2.2.2.2.2.2.2.2 = 1#1 := rfl

theorem enc_5_eq_impl (key : BitVec 40) (b : BitVec 64) :
    enc_5 key b = BC.Cast5.encrypt (keySchedule true ((key ++ 0#88) : BitVec 128)) b := by
  unfold enc_5
  rw [BC.GenKeys.Cast5.new_from_slice_5_eq key]
  simp only [BC.GenKeys.Cast5.c5Tuple]
  rw [BC.GenCipher.Cast5.cast5_12r_encrypt_block_eq, mk_keySchedule]

theorem dec_5_eq_impl (key : BitVec 40) (b : BitVec 64) :
    dec_5 key b = BC.Cast5.decrypt (keySchedule true ((key ++ 0#88) : BitVec 128)) b := by
  unfold dec_5
  rw [BC.GenKeys.Cast5.new_from_slice_5_eq key]
  simp only [BC.GenKeys.Cast5.c5Tuple]
  rw [BC.GenCipher.Cast5.cast5_12r_decrypt_block_eq, mk_keySchedule]

theorem keysOf_5 (key : BitVec 40) : keysOf (cast5_new_from_slice_5 key) = keySchedule true ((key ++ 0#88) : BitVec 128) := by
  rw [BC.GenKeys.Cast5.new_from_slice_5_eq key]
  exact mk_keySchedule true _

theorem dec_enc_5 (key : BitVec 40) (b : BitVec 64) : dec_5 key (enc_5 key b) = b := by
  rw [enc_5_eq_impl, dec_5_eq_impl, BC.Cast5.decrypt_encrypt]

theorem enc_dec_5 (key : BitVec 40) (b : BitVec 64) : enc_5 key (dec_5 key b) = b := by
  rw [enc_5_eq_impl, dec_5_eq_impl, BC.Cast5.encrypt_decrypt]

/-- the regenerated code runs RFC 2144's rounds (12 = `Spec.rounds 40`) on the subkeys its constructor returns -/
theorem enc_5_eq_spec (key : BitVec 40) (b : BitVec 64) :
    enc_5 key b = Spec.encrypt (keysOf (cast5_new_from_slice_5 key)) (Spec.rounds 40) b := by
  rw [enc_5_eq_impl, keysOf_5, encrypt_eq_spec]; rfl

theorem dec_5_eq_spec (key : BitVec 40) (b : BitVec 64) :
    dec_5 key b = Spec.decrypt (keysOf (cast5_new_from_slice_5 key)) (Spec.rounds 40) b := by
  rw [dec_5_eq_impl, keysOf_5, decrypt_eq_spec]; rfl

/-- the model's `new` on the 5 key bytes is the schedule of the zero-padded key -/
theorem new_5 (key : BitVec 40) : BC.Cast5.new (unpackBE 5 key) = some (keySchedule true ((key ++ 0#88) : BitVec 128)) := by
  have hp : packBE 16 (pad (unpackBE 5 key)) = ((key ++ 0#88) : BitVec 128) := by
    have hl : pad (unpackBE 5 key) = [(key >>> 32).setWidth 8, (key >>> 24).setWidth 8, (key >>> 16).setWidth 8, (key >>> 8).setWidth 8, (key >>> 0).setWidth 8, 0#8, 0#8, 0#8, 0#8, 0#8, 0#8, 0#8, 0#8, 0#8, 0#8, 0#8] := rfl
    rw [hl]
    show BC.Speck.fromBE 128 _ = _
    simp only [BC.GenCipher.Speck.fromBE_fold, List.foldl_cons, List.foldl_nil]
    bv_decide
  have hlen : (unpackBE 5 key).length = 5 := by simp [unpackBE]
  simp only [BC.Cast5.new, hlen, hp]
  rfl

/-! ### 10-byte keys (12 rounds) -/

/-- `Cast5::new_from_slice(key).encrypt_block(b)` for a 10-byte key, on the regenerated code -/
def enc_10 (key : BitVec 80) (b : BitVec 64) : BitVec 64 :=
  match cast5_new_from_slice_10 key with
  | (m0, m1, m2, m3, m4, m5, m6, m7, m8, m9, m10, m11, m12, m13, m14, m15, r0, r1, r2, r3, r4, r5, r6, r7, r8, r9, r10, r11, r12, r13, r14, r15, _sk) => cast5_12r_encrypt_block m0 m1 m2 m3 m4 m5 m6 m7 m8 m9 m10 m11 m12 m13 m14 m15 r0 r1 r2 r3 r4 r5 r6 r7 r8 r9 r10 r11 r12 r13 r14 r15 b

/-- `Cast5::new_from_slice(key).decrypt_block(b)` for a 10-byte key, on the regenerated code -/
def dec_10 (key : BitVec 80) (b : BitVec 64) : BitVec 64 :=
  match cast5_new_from_slice_10 key with
  | (m0, m1, m2, m3, m4, m5, m6, m7, m8, m9, m10, m11, m12, m13, m14, m15, r0, r1, r2, r3, r4, r5, r6, r7, r8, r9, r10, r11, r12, r13, r14, r15, _sk) => cast5_12r_decrypt_block m0 m1 m2 m3 m4 m5 m6 m7 m8 m9 m10 m11 m12 m13 m14 m15 r0 r1 r2 r3 r4 r5 r6 r7 r8 r9 r10 r11 r12 r13 r14 r15 b

/-- the constructor sets `small_key = true`: the `12r` specialisation is the one `encrypt_block` runs -/
theorem small_key_10 (key : BitVec 80) : (cast5_new_from_slice_10 key).2.2.2.2.2.2.2.2.2.2.2.2.2.2.2.2.2.2.2.2.2.2.2.2.2.2.2.2.2.2.2.2 = 1#1 := rfl

theorem enc_10_eq_impl (key : BitVec 80) (b : BitVec 64) :
    enc_10 key b = BC.Cast5.encrypt (keySchedule true ((key ++ 0#48) : BitVec 128)) b := by
  unfold enc_10
  rw [BC.GenKeys.Cast5.new_from_slice_10_eq key]
  simp only [BC.GenKeys.Cast5.c5Tuple]
  rw [BC.GenCipher.Cast5.cast5_12r_encrypt_block_eq, mk_keySchedule]

theorem dec_10_eq_impl (key : BitVec 80) (b : BitVec 64) :
    dec_10 key b = BC.Cast5.decrypt (keySchedule true ((key ++ 0#48) : BitVec 128)) b := by
  unfold dec_10
  rw [BC.GenKeys.Cast5.new_from_slice_10_eq key]
  simp only [BC.GenKeys.Cast5.c5Tuple]
  rw [BC.GenCipher.Cast5.cast5_12r_decrypt_block_eq, mk_keySchedule]

theorem keysOf_10 (key : BitVec 80) : keysOf (cast5_new_from_slice_10 key) = keySchedule true ((key ++ 0#48) : BitVec 128) := by
  rw [BC.GenKeys.Cast5.new_from_slice_10_eq key]
  exact mk_keySchedule true _

theorem dec_enc_10 (key : BitVec 80) (b : BitVec 64) : dec_10 key (enc_10 key b) = b := by
  rw [enc_10_eq_impl, dec_10_eq_impl, BC.Cast5.decrypt_encrypt]

theorem enc_dec_10 (key : BitVec 80) (b : BitVec 64) : enc_10 key (dec_10 key b) = b := by
  rw [enc_10_eq_impl, dec_10_eq_impl, BC.Cast5.encrypt_decrypt]

/-- the regenerated code runs RFC 2144's rounds (12 = `Spec.rounds 80`) on the subkeys its constructor returns -/
theorem enc_10_eq_spec (key : BitVec 80) (b : BitVec 64) :
    enc_10 key b = Spec.encrypt (keysOf (cast5_new_from_slice_10 key)) (Spec.rounds 80) b := by
  rw [enc_10_eq_impl, keysOf_10, encrypt_eq_spec]; rfl

theorem dec_10_eq_spec (key : BitVec 80) (b : BitVec 64) :
    dec_10 key b = Spec.decrypt (keysOf (cast5_new_from_slice_10 key)) (Spec.rounds 80) b := by
  rw [dec_10_eq_impl, keysOf_10, decrypt_eq_spec]; rfl

/-- the model's `new` on the 10 key bytes is the schedule of the zero-padded key -/
theorem new_10 (key : BitVec 80) : BC.Cast5.new (unpackBE 10 key) = some (keySchedule true ((key ++ 0#48) : BitVec 128)) := by
  have hp : packBE 16 (pad (unpackBE 10 key)) = ((key ++ 0#48) : BitVec 128) := by
    have hl : pad (unpackBE 10 key) = [(key >>> 72).setWidth 8, (key >>> 64).setWidth 8, (key >>> 56).setWidth 8, (key >>> 48).setWidth 8, (key >>> 40).setWidth 8, (key >>> 32).setWidth 8, (key >>> 24).setWidth 8, (key >>> 16).setWidth 8, (key >>> 8).setWidth 8, (key >>> 0).setWidth 8, 0#8, 0#8, 0#8, 0#8, 0#8, 0#8] := rfl
    rw [hl]
    show BC.Speck.fromBE 128 _ = _
    simp only [BC.GenCipher.Speck.fromBE_fold, List.foldl_cons, List.foldl_nil]
    bv_decide
  have hlen : (unpackBE 10 key).length = 10 := by simp [unpackBE]
  simp only [BC.Cast5.new, hlen, hp]
  rfl

/-! ### 11-byte keys (16 rounds) -/

/-- `Cast5::new_from_slice(key).encrypt_block(b)` for a 11-byte key, on the regenerated code -/
def enc_11 (key : BitVec 88) (b : BitVec 64) : BitVec 64 :=
  match cast5_new_from_slice_11 key with
  | (m0, m1, m2, m3, m4, m5, m6, m7, m8, m9, m10, m11, m12, m13, m14, m15, r0, r1, r2, r3, r4, r5, r6, r7, r8, r9, r10, r11, r12, r13, r14, r15, _sk) => cast5_16r_encrypt_block m0 m1 m2 m3 m4 m5 m6 m7 m8 m9 m10 m11 m12 m13 m14 m15 r0 r1 r2 r3 r4 r5 r6 r7 r8 r9 r10 r11 r12 r13 r14 r15 b

/-- `Cast5::new_from_slice(key).decrypt_block(b)` for a 11-byte key, on the regenerated code -/
def dec_11 (key : BitVec 88) (b : BitVec 64) : BitVec 64 :=
  match cast5_new_from_slice_11 key with
  | (m0, m1, m2, m3, m4, m5, m6, m7, m8, m9, m10, m11, m12, m13, m14, m15, r0, r1, r2, r3, r4, r5, r6, r7, r8, r9, r10, r11, r12, r13, r14, r15, _sk) => cast5_16r_decrypt_block m0 m1 m2 m3 m4 m5 m6 m7 m8 m9 m10 m11 m12 m13 m14 m15 r0 r1 r2 r3 r4 r5 r6 r7 r8 r9 r10 r11 r12 r13 r14 r15 b

/-- the constructor sets `small_key = false`: the `16r` specialisation is the one `encrypt_block` runs -/
theorem small_key_11 (key : BitVec 88) : (cast5_new_from_slice_11 key).2.2.2.2.2.2.2.2.2.2.2.2.2.2.2.2.2.2.2.2.2.2.2.2.2.2.2.2.2.2.2.2 = 0#1 := rfl

theorem enc_11_eq_impl (key : BitVec 88) (b : BitVec 64) :
    enc_11 key b = BC.Cast5.encrypt (keySchedule false ((key ++ 0#40) : BitVec 128)) b := by
  unfold enc_11
  rw [BC.GenKeys.Cast5.new_from_slice_11_eq key]
  simp only [BC.GenKeys.Cast5.c5Tuple]
  rw [BC.GenCipher.Cast5.cast5_16r_encrypt_block_eq, mk_keySchedule]

theorem dec_11_eq_impl (key : BitVec 88) (b : BitVec 64) :
    dec_11 key b = BC.Cast5.decrypt (keySchedule false ((key ++ 0#40) : BitVec 128)) b := by
  unfold dec_11
  rw [BC.GenKeys.Cast5.new_from_slice_11_eq key]
  simp only [BC.GenKeys.Cast5.c5Tuple]
  rw [BC.GenCipher.Cast5.cast5_16r_decrypt_block_eq, mk_keySchedule]

theorem keysOf_11 (key : BitVec 88) : keysOf (cast5_new_from_slice_11 key) = keySchedule false ((key ++ 0#40) : BitVec 128) := by
  rw [BC.GenKeys.Cast5.new_from_slice_11_eq key]
  exact mk_keySchedule false _

theorem dec_enc_11 (key : BitVec 88) (b : BitVec 64) : dec_11 key (enc_11 key b) = b := by
  rw [enc_11_eq_impl, dec_11_eq_impl, BC.Cast5.decrypt_encrypt]

theorem enc_dec_11 (key : BitVec 88) (b : BitVec 64) : enc_11 key (dec_11 key b) = b := by
  rw [enc_11_eq_impl, dec_11_eq_impl, BC.Cast5.encrypt_decrypt]

/-- the regenerated code runs RFC 2144's rounds (16 = `Spec.rounds 88`) on the subkeys its constructor returns -/
theorem enc_11_eq_spec (key : BitVec 88) (b : BitVec 64) :
    enc_11 key b = Spec.encrypt (keysOf (cast5_new_from_slice_11 key)) (Spec.rounds 88) b := by
  rw [enc_11_eq_impl, keysOf_11, encrypt_eq_spec]; rfl

theorem dec_11_eq_spec (key : BitVec 88) (b : BitVec 64) :
    dec_11 key b = Spec.decrypt (keysOf (cast5_new_from_slice_11 key)) (Spec.rounds 88) b := by
  rw [dec_11_eq_impl, keysOf_11, decrypt_eq_spec]; rfl

/-- the model's `new` on the 11 key bytes is the schedule of the zero-padded key -/
theorem new_11 (key : BitVec 88) : BC.Cast5.new (unpackBE 11 key) = some (keySchedule false ((key ++ 0#40) : BitVec 128)) := by
  have hp : packBE 16 (pad (unpackBE 11 key)) = ((key ++ 0#40) : BitVec 128) := by
    have hl : pad (unpackBE 11 key) = [(key >>> 80).setWidth 8, (key >>> 72).setWidth 8, (key >>> 64).setWidth 8, (key >>> 56).setWidth 8, (key >>> 48).setWidth 8, (key >>> 40).setWidth 8, (key >>> 32).setWidth 8, (key >>> 24).setWidth 8, (key >>> 16).setWidth 8, (key >>> 8).setWidth 8, (key >>> 0).setWidth 8, 0#8, 0#8, 0#8, 0#8, 0#8] := rfl
    rw [hl]
    show BC.Speck.fromBE 128 _ = _
    simp only [BC.GenCipher.Speck.fromBE_fold, List.foldl_cons, List.foldl_nil]
    bv_decide
  have hlen : (unpackBE 11 key).length = 11 := by simp [unpackBE]
  simp only [BC.Cast5.new, hlen, hp]
  rfl

/-! ### 16-byte keys (16 rounds) -/

/-- `Cast5::new_from_slice(key).encrypt_block(b)` for a 16-byte key, on the regenerated code -/
def enc_16 (key : BitVec 128) (b : BitVec 64) : BitVec 64 :=
  match cast5_new_from_slice_16 key with
  | (m0, m1, m2, m3, m4, m5, m6, m7, m8, m9, m10, m11, m12, m13, m14, m15, r0, r1, r2, r3, r4, r5, r6, r7, r8, r9, r10, r11, r12, r13, r14, r15, _sk) => cast5_16r_encrypt_block m0 m1 m2 m3 m4 m5 m6 m7 m8 m9 m10 m11 m12 m13 m14 m15 r0 r1 r2 r3 r4 r5 r6 r7 r8 r9 r10 r11 r12 r13 r14 r15 b

/-- `Cast5::new_from_slice(key).decrypt_block(b)` for a 16-byte key, on the regenerated code -/
def dec_16 (key : BitVec 128) (b : BitVec 64) : BitVec 64 :=
  match cast5_new_from_slice_16 key with
  | (m0, m1, m2, m3, m4, m5, m6, m7, m8, m9, m10, m11, m12, m13, m14, m15, r0, r1, r2, r3, r4, r5, r6, r7, r8, r9, r10, r11, r12, r13, r14, r15, _sk) => cast5_16r_decrypt_block m0 m1 m2 m3 m4 m5 m6 m7 m8 m9 m10 m11 m12 m13 m14 m15 r0 r1 r2 r3 r4 r5 r6 r7 r8 r9 r10 r11 r12 r13 r14 r15 b

/-- the constructor sets `small_key = false`: the `16r` specialisation is the one `encrypt_block` runs -/
theorem small_key_16 (key : BitVec 128) : (cast5_new_from_slice_16 key).2.2.2.2.2.2.2.2.2.2.2.2.2.2.2.2.2.2.2.2.2.2.2.2.2.2.2.2.2.2.2.2 = 0#1 := rfl

theorem enc_16_eq_impl (key : BitVec 128) (b : BitVec 64) :
    enc_16 key b = BC.Cast5.encrypt (keySchedule false (key : BitVec 128)) b := by
  unfold enc_16
  rw [BC.GenKeys.Cast5.new_from_slice_16_eq key]
  simp only [BC.GenKeys.Cast5.c5Tuple]
  rw [BC.GenCipher.Cast5.cast5_16r_encrypt_block_eq, mk_keySchedule]

theorem dec_16_eq_impl (key : BitVec 128) (b : BitVec 64) :
    dec_16 key b = BC.Cast5.decrypt (keySchedule false (key : BitVec 128)) b := by
  unfold dec_16
  rw [BC.GenKeys.Cast5.new_from_slice_16_eq key]
  simp only [BC.GenKeys.Cast5.c5Tuple]
  rw [BC.GenCipher.Cast5.cast5_16r_decrypt_block_eq, mk_keySchedule]

theorem keysOf_16 (key : BitVec 128) : keysOf (cast5_new_from_slice_16 key) = keySchedule false (key : BitVec 128) := by
  rw [BC.GenKeys.Cast5.new_from_slice_16_eq key]
  exact mk_keySchedule false _

theorem dec_enc_16 (key : BitVec 128) (b : BitVec 64) : dec_16 key (enc_16 key b) = b := by
  rw [enc_16_eq_impl, dec_16_eq_impl, BC.Cast5.decrypt_encrypt]

theorem enc_dec_16 (key : BitVec 128) (b : BitVec 64) : enc_16 key (dec_16 key b) = b := by
  rw [enc_16_eq_impl, dec_16_eq_impl, BC.Cast5.encrypt_decrypt]

/-- the regenerated code runs RFC 2144's rounds (16 = `Spec.rounds 128`) on the subkeys its constructor returns -/
theorem enc_16_eq_spec (key : BitVec 128) (b : BitVec 64) :
    enc_16 key b = Spec.encrypt (keysOf (cast5_new_from_slice_16 key)) (Spec.rounds 128) b := by
  rw [enc_16_eq_impl, keysOf_16, encrypt_eq_spec]; rfl

theorem dec_16_eq_spec (key : BitVec 128) (b : BitVec 64) :
    dec_16 key b = Spec.decrypt (keysOf (cast5_new_from_slice_16 key)) (Spec.rounds 128) b := by
  rw [dec_16_eq_impl, keysOf_16, decrypt_eq_spec]; rfl

/-- the model's `new` on the 16 key bytes is the schedule of the zero-padded key -/
theorem new_16 (key : BitVec 128) : BC.Cast5.new (unpackBE 16 key) = some (keySchedule false (key : BitVec 128)) := by
  have hp : packBE 16 (pad (unpackBE 16 key)) = (key : BitVec 128) := by
    have hl : pad (unpackBE 16 key) = [(key >>> 120).setWidth 8, (key >>> 112).setWidth 8, (key >>> 104).setWidth 8, (key >>> 96).setWidth 8, (key >>> 88).setWidth 8, (key >>> 80).setWidth 8, (key >>> 72).setWidth 8, (key >>> 64).setWidth 8, (key >>> 56).setWidth 8, (key >>> 48).setWidth 8, (key >>> 40).setWidth 8, (key >>> 32).setWidth 8, (key >>> 24).setWidth 8, (key >>> 16).setWidth 8, (key >>> 8).setWidth 8, (key >>> 0).setWidth 8] := rfl
    rw [hl]
    show BC.Speck.fromBE 128 _ = _
    simp only [BC.GenCipher.Speck.fromBE_fold, List.foldl_cons, List.foldl_nil]
    bv_decide
  have hlen : (unpackBE 16 key).length = 16 := by simp [unpackBE]
  simp only [BC.Cast5.new, hlen, hp]
  rfl

end BC.Code.Cast5
