import BlockCiphers.Gen.Cipher_Kuznyechik_soft
import BlockCiphers.Gen.Keys_Kuznyechik_soft
import BlockCiphers.Proofs.GenCipherKuznyechikSoft
import BlockCiphers.Proofs.GenKeysKuznyechikSoft
import BlockCiphers.Proofs.Kuznyechik
/-!
Code-level theorems for Kuznyechik, big software backend (`kuznyechik_backend = "soft"`, the default without SIMD):
statements mention ONLY the regenerated code (`BC.Gen.Fn.kuznyechik_soft_enckeys_new`, `kuznyechik_soft_inv_enc_keys`,
`kuznyechik_soft_encrypt_block`, `kuznyechik_soft_decrypt_block`, translated from /repo/kuznyechik/src/big_soft/{mod.rs,
backends.rs} with the fused tables of fused_tables.rs computed from the crate's `const fn`s) and the specification
`BC.Spec.Kuznyechik` (GOST R 34.12-2015).  Composition of
  (1) `BC.Kuznyechik.Soft.decrypt_encrypt`, `encrypt_decrypt`, `encrypt_eq_spec`, `decrypt_eq_spec` (Proofs/Kuznyechik.lean;
      Thm C01 / C07),
  (2) `BC.GenCipher.Kuznyechik.kuznyechik_soft_encrypt_block_eq` / `…_decrypt_block_eq`,
  (3) `BC.GenKeys.Kuznyechik.kuznyechik_soft_enckeys_new_eq`, `kuznyechik_soft_inv_enc_keys_eq`.
`Kuznyechik::new(key)` is `EncDecKeys::from(EncKeys::new(key))` = `{ enc: expand_enc_keys(key), dec: inv_enc_keys(&enc) }`:
`enc` runs `encrypt_block` on the first, `dec` runs `decrypt_block` on the second.
The key is a `BitVec 256`, the block a `BitVec 128`, byte 0 of the Rust array = most significant byte.
-/
set_option maxRecDepth 100000
namespace BC.Code.KuznyechikSoft
open BC BC.Gen.Fn

/-- `EncBackend(&EncKeys::new(key).0).encrypt_block(b)` on the regenerated code -/
def enc (key : BitVec 256) (b : BitVec 128) : BitVec 128 :=
  match kuznyechik_soft_enckeys_new key with
  | (k0, k1, k2, k3, k4, k5, k6, k7, k8, k9) => kuznyechik_soft_encrypt_block k0 k1 k2 k3 k4 k5 k6 k7 k8 k9 b

/-- `DecBackend(&inv_enc_keys(&EncKeys::new(key).0)).decrypt_block(b)` on the regenerated code -/
def dec (key : BitVec 256) (b : BitVec 128) : BitVec 128 :=
  match kuznyechik_soft_enckeys_new key with
  | (e0, e1, e2, e3, e4, e5, e6, e7, e8, e9) =>
    match kuznyechik_soft_inv_enc_keys e0 e1 e2 e3 e4 e5 e6 e7 e8 e9 with
    | (d0, d1, d2, d3, d4, d5, d6, d7, d8, d9) => kuznyechik_soft_decrypt_block d0 d1 d2 d3 d4 d5 d6 d7 d8 d9 b

/-! ### bridges to the model -/

theorem enc_eq_impl (key : BitVec 256) (b : BitVec 128) :
    enc key b = BC.Kuznyechik.Soft.encrypt_block (BC.Kuznyechik.Soft.expand_enc_keys key) b := by
  unfold enc
  rw [BC.GenKeys.Kuznyechik.kuznyechik_soft_enckeys_new_eq key]
  simp only [BC.GenKeys.Kuznyechik.rkTuple]
  exact BC.GenCipher.Kuznyechik.kuznyechik_soft_encrypt_block_eq _ _ _ _ _ _ _ _ _ _ b

theorem dec_eq_impl (key : BitVec 256) (b : BitVec 128) :
    dec key b = BC.Kuznyechik.Soft.decrypt_block
      (BC.Kuznyechik.Soft.inv_enc_keys (BC.Kuznyechik.Soft.expand_enc_keys key)) b := by
  unfold dec
  rw [BC.GenKeys.Kuznyechik.kuznyechik_soft_enckeys_new_eq key]
  simp only [BC.GenKeys.Kuznyechik.rkTuple]
  rw [BC.GenKeys.Kuznyechik.kuznyechik_soft_inv_enc_keys_eq]
  simp only [BC.GenKeys.Kuznyechik.rkTuple]
  exact BC.GenCipher.Kuznyechik.kuznyechik_soft_decrypt_block_eq _ _ _ _ _ _ _ _ _ _ b

/-! ### round trips on the regenerated code -/

theorem dec_enc (key : BitVec 256) (b : BitVec 128) : dec key (enc key b) = b := by
  rw [enc_eq_impl, dec_eq_impl, BC.Kuznyechik.Soft.decrypt_encrypt]

theorem enc_dec (key : BitVec 256) (b : BitVec 128) : enc key (dec key b) = b := by
  rw [enc_eq_impl, dec_eq_impl, BC.Kuznyechik.Soft.encrypt_decrypt]

/-! ### conformance of the regenerated code to GOST R 34.12-2015 -/

theorem enc_eq_spec (key : BitVec 256) (b : BitVec 128) : enc key b = BC.Spec.Kuznyechik.encrypt key b := by
  rw [enc_eq_impl, BC.Kuznyechik.Soft.encrypt_eq_spec]

theorem dec_eq_spec (key : BitVec 256) (b : BitVec 128) : dec key b = BC.Spec.Kuznyechik.decrypt key b := by
  rw [dec_eq_impl, BC.Kuznyechik.Soft.decrypt_eq_spec]

end BC.Code.KuznyechikSoft
