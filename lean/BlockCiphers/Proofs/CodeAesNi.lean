import BlockCiphers.Gen.Aes_Ni
import BlockCiphers.Proofs.GenAesNi
import BlockCiphers.Proofs.AesNi
import BlockCiphers.Proofs.AesNiPar
/-
Code-level theorems for the AES-NI backend (`aes/src/ni/{expand,encdec,hazmat}.rs`), AES-128/192/256.
`enc<N>` / `dec<N>` / `encpar<N>` / `decpar<N>` are built ONLY from regenerated definitions (`Gen/Aes_Ni.lean`):
  enc<N> key b    = encrypt::<KEYS>(&aes<N>_expand_key(key), b)
  dec<N> key b    = decrypt::<KEYS>(&inv_keys(&aes<N>_expand_key(key)), b)        (what `Aes<N>Dec::new(key)` / `Aes<N>::new(key)` hold)
  encpar<N>, decpar<N>: the same with encrypt_par / decrypt_par::<KEYS, U9> on 9 blocks.
The intrinsics occurring in the regenerated text are the transcriptions of the Intel SDM in `Prelude/X86Intrinsics.lean`.
For every key and every block: round trips; equality with FIPS-197 AES (`Spec.Aes.encrypt` / `decrypt`), the key being passed to
the specification as its bytes `unpackBE n key` (byte 0 = most significant byte of the `BitVec`); every lane of the 9-block
functions equals the single-block function; the hazmat functions are the FIPS-197 layer compositions.
They compose the ties of `Proofs/GenAesNi.lean` with the model theorems of `Proofs/AesNi.lean` (C02/C01/C17) and
`Proofs/AesNiPar.lean`.  Produced by mk_code_ni.py (only the long tuple patterns are mechanical).
-/
namespace BC.Code.AesNi
open BC.Gen.Fn BC.GenAesNi
set_option maxRecDepth 100000

/-! ### auxiliary: the regenerated functions on a tuple of 11 round keys -/

/-- `encrypt::<11>` on a round-key tuple (regenerated code only) -/
def encT11 (t : BitVec 128 × BitVec 128 × BitVec 128 × BitVec 128 × BitVec 128 × BitVec 128 × BitVec 128 × BitVec 128 × BitVec 128 × BitVec 128 × BitVec 128) (b : BitVec 128) : BitVec 128 :=
  match t with
  | (k0, k1, k2, k3, k4, k5, k6, k7, k8, k9, k10) => ni_encrypt_11 k0 k1 k2 k3 k4 k5 k6 k7 k8 k9 k10 b
/-- `decrypt::<11>` on a round-key tuple (regenerated code only) -/
def decT11 (t : BitVec 128 × BitVec 128 × BitVec 128 × BitVec 128 × BitVec 128 × BitVec 128 × BitVec 128 × BitVec 128 × BitVec 128 × BitVec 128 × BitVec 128) (b : BitVec 128) : BitVec 128 :=
  match t with
  | (k0, k1, k2, k3, k4, k5, k6, k7, k8, k9, k10) => ni_decrypt_11 k0 k1 k2 k3 k4 k5 k6 k7 k8 k9 k10 b
/-- `inv_keys::<11>` on a round-key tuple (regenerated code only) -/
def invT11 (t : BitVec 128 × BitVec 128 × BitVec 128 × BitVec 128 × BitVec 128 × BitVec 128 × BitVec 128 × BitVec 128 × BitVec 128 × BitVec 128 × BitVec 128) : BitVec 128 × BitVec 128 × BitVec 128 × BitVec 128 × BitVec 128 × BitVec 128 × BitVec 128 × BitVec 128 × BitVec 128 × BitVec 128 × BitVec 128 :=
  match t with
  | (k0, k1, k2, k3, k4, k5, k6, k7, k8, k9, k10) => ni_inv_keys_11 k0 k1 k2 k3 k4 k5 k6 k7 k8 k9 k10
def encparT11 (t : BitVec 128 × BitVec 128 × BitVec 128 × BitVec 128 × BitVec 128 × BitVec 128 × BitVec 128 × BitVec 128 × BitVec 128 × BitVec 128 × BitVec 128) (b0 b1 b2 b3 b4 b5 b6 b7 b8 : BitVec 128) : BitVec 128 × BitVec 128 × BitVec 128 × BitVec 128 × BitVec 128 × BitVec 128 × BitVec 128 × BitVec 128 × BitVec 128 :=
  match t with
  | (k0, k1, k2, k3, k4, k5, k6, k7, k8, k9, k10) => ni_encrypt_par_11 k0 k1 k2 k3 k4 k5 k6 k7 k8 k9 k10 b0 b1 b2 b3 b4 b5 b6 b7 b8
def decparT11 (t : BitVec 128 × BitVec 128 × BitVec 128 × BitVec 128 × BitVec 128 × BitVec 128 × BitVec 128 × BitVec 128 × BitVec 128 × BitVec 128 × BitVec 128) (b0 b1 b2 b3 b4 b5 b6 b7 b8 : BitVec 128) : BitVec 128 × BitVec 128 × BitVec 128 × BitVec 128 × BitVec 128 × BitVec 128 × BitVec 128 × BitVec 128 × BitVec 128 :=
  match t with
  | (k0, k1, k2, k3, k4, k5, k6, k7, k8, k9, k10) => ni_decrypt_par_11 k0 k1 k2 k3 k4 k5 k6 k7 k8 k9 k10 b0 b1 b2 b3 b4 b5 b6 b7 b8

theorem l11_length (t : BitVec 128 × BitVec 128 × BitVec 128 × BitVec 128 × BitVec 128 × BitVec 128 × BitVec 128 × BitVec 128 × BitVec 128 × BitVec 128 × BitVec 128) : (l11 t).length = 11 := by
  obtain ⟨k0, k1, k2, k3, k4, k5, k6, k7, k8, k9, k10⟩ := t
  rfl
theorem encT11_eq (t : BitVec 128 × BitVec 128 × BitVec 128 × BitVec 128 × BitVec 128 × BitVec 128 × BitVec 128 × BitVec 128 × BitVec 128 × BitVec 128 × BitVec 128) (b : BitVec 128) : encT11 t b = BC.AesNi.encrypt (l11 t) b := by
  obtain ⟨k0, k1, k2, k3, k4, k5, k6, k7, k8, k9, k10⟩ := t
  exact encrypt_11_eq ..
theorem decT11_eq (t : BitVec 128 × BitVec 128 × BitVec 128 × BitVec 128 × BitVec 128 × BitVec 128 × BitVec 128 × BitVec 128 × BitVec 128 × BitVec 128 × BitVec 128) (b : BitVec 128) : decT11 t b = BC.AesNi.decrypt (l11 t) b := by
  obtain ⟨k0, k1, k2, k3, k4, k5, k6, k7, k8, k9, k10⟩ := t
  exact decrypt_11_eq ..
theorem invT11_eq (t : BitVec 128 × BitVec 128 × BitVec 128 × BitVec 128 × BitVec 128 × BitVec 128 × BitVec 128 × BitVec 128 × BitVec 128 × BitVec 128 × BitVec 128) : l11 (invT11 t) = BC.AesNi.inv_keys (l11 t) := by
  obtain ⟨k0, k1, k2, k3, k4, k5, k6, k7, k8, k9, k10⟩ := t
  exact inv_keys_11_eq ..
theorem encparT11_eq (t : BitVec 128 × BitVec 128 × BitVec 128 × BitVec 128 × BitVec 128 × BitVec 128 × BitVec 128 × BitVec 128 × BitVec 128 × BitVec 128 × BitVec 128) (b0 b1 b2 b3 b4 b5 b6 b7 b8 : BitVec 128) :
    l9 (encparT11 t b0 b1 b2 b3 b4 b5 b6 b7 b8) = [b0, b1, b2, b3, b4, b5, b6, b7, b8].map (encT11 t) := by
  have h : (l11 t).length = 11 ∨ (l11 t).length = 13 ∨ (l11 t).length = 15 := by simp only [l11_length]; decide
  have e : encT11 t = BC.AesNi.encrypt (l11 t) := funext (encT11_eq t)
  rw [e, ← BC.AesNi.encrypt_par_eq_map _ _ h]
  obtain ⟨k0, k1, k2, k3, k4, k5, k6, k7, k8, k9, k10⟩ := t
  exact encrypt_par_11_eq ..
theorem decparT11_eq (t : BitVec 128 × BitVec 128 × BitVec 128 × BitVec 128 × BitVec 128 × BitVec 128 × BitVec 128 × BitVec 128 × BitVec 128 × BitVec 128 × BitVec 128) (b0 b1 b2 b3 b4 b5 b6 b7 b8 : BitVec 128) :
    l9 (decparT11 t b0 b1 b2 b3 b4 b5 b6 b7 b8) = [b0, b1, b2, b3, b4, b5, b6, b7, b8].map (decT11 t) := by
  have h : (l11 t).length = 11 ∨ (l11 t).length = 13 ∨ (l11 t).length = 15 := by simp only [l11_length]; decide
  have e : decT11 t = BC.AesNi.decrypt (l11 t) := funext (decT11_eq t)
  rw [e, ← BC.AesNi.decrypt_par_eq_map _ _ h]
  obtain ⟨k0, k1, k2, k3, k4, k5, k6, k7, k8, k9, k10⟩ := t
  exact decrypt_par_11_eq ..

/-! ### auxiliary: the regenerated functions on a tuple of 13 round keys -/

/-- `encrypt::<13>` on a round-key tuple (regenerated code only) -/
def encT13 (t : BitVec 128 × BitVec 128 × BitVec 128 × BitVec 128 × BitVec 128 × BitVec 128 × BitVec 128 × BitVec 128 × BitVec 128 × BitVec 128 × BitVec 128 × BitVec 128 × BitVec 128) (b : BitVec 128) : BitVec 128 :=
  match t with
  | (k0, k1, k2, k3, k4, k5, k6, k7, k8, k9, k10, k11, k12) => ni_encrypt_13 k0 k1 k2 k3 k4 k5 k6 k7 k8 k9 k10 k11 k12 b
/-- `decrypt::<13>` on a round-key tuple (regenerated code only) -/
def decT13 (t : BitVec 128 × BitVec 128 × BitVec 128 × BitVec 128 × BitVec 128 × BitVec 128 × BitVec 128 × BitVec 128 × BitVec 128 × BitVec 128 × BitVec 128 × BitVec 128 × BitVec 128) (b : BitVec 128) : BitVec 128 :=
  match t with
  | (k0, k1, k2, k3, k4, k5, k6, k7, k8, k9, k10, k11, k12) => ni_decrypt_13 k0 k1 k2 k3 k4 k5 k6 k7 k8 k9 k10 k11 k12 b
/-- `inv_keys::<13>` on a round-key tuple (regenerated code only) -/
def invT13 (t : BitVec 128 × BitVec 128 × BitVec 128 × BitVec 128 × BitVec 128 × BitVec 128 × BitVec 128 × BitVec 128 × BitVec 128 × BitVec 128 × BitVec 128 × BitVec 128 × BitVec 128) : BitVec 128 × BitVec 128 × BitVec 128 × BitVec 128 × BitVec 128 × BitVec 128 × BitVec 128 × BitVec 128 × BitVec 128 × BitVec 128 × BitVec 128 × BitVec 128 × BitVec 128 :=
  match t with
  | (k0, k1, k2, k3, k4, k5, k6, k7, k8, k9, k10, k11, k12) => ni_inv_keys_13 k0 k1 k2 k3 k4 k5 k6 k7 k8 k9 k10 k11 k12
def encparT13 (t : BitVec 128 × BitVec 128 × BitVec 128 × BitVec 128 × BitVec 128 × BitVec 128 × BitVec 128 × BitVec 128 × BitVec 128 × BitVec 128 × BitVec 128 × BitVec 128 × BitVec 128) (b0 b1 b2 b3 b4 b5 b6 b7 b8 : BitVec 128) : BitVec 128 × BitVec 128 × BitVec 128 × BitVec 128 × BitVec 128 × BitVec 128 × BitVec 128 × BitVec 128 × BitVec 128 :=
  match t with
  | (k0, k1, k2, k3, k4, k5, k6, k7, k8, k9, k10, k11, k12) => ni_encrypt_par_13 k0 k1 k2 k3 k4 k5 k6 k7 k8 k9 k10 k11 k12 b0 b1 b2 b3 b4 b5 b6 b7 b8
def decparT13 (t : BitVec 128 × BitVec 128 × BitVec 128 × BitVec 128 × BitVec 128 × BitVec 128 × BitVec 128 × BitVec 128 × BitVec 128 × BitVec 128 × BitVec 128 × BitVec 128 × BitVec 128) (b0 b1 b2 b3 b4 b5 b6 b7 b8 : BitVec 128) : BitVec 128 × BitVec 128 × BitVec 128 × BitVec 128 × BitVec 128 × BitVec 128 × BitVec 128 × BitVec 128 × BitVec 128 :=
  match t with
  | (k0, k1, k2, k3, k4, k5, k6, k7, k8, k9, k10, k11, k12) => ni_decrypt_par_13 k0 k1 k2 k3 k4 k5 k6 k7 k8 k9 k10 k11 k12 b0 b1 b2 b3 b4 b5 b6 b7 b8

theorem l13_length (t : BitVec 128 × BitVec 128 × BitVec 128 × BitVec 128 × BitVec 128 × BitVec 128 × BitVec 128 × BitVec 128 × BitVec 128 × BitVec 128 × BitVec 128 × BitVec 128 × BitVec 128) : (l13 t).length = 13 := by
  obtain ⟨k0, k1, k2, k3, k4, k5, k6, k7, k8, k9, k10, k11, k12⟩ := t
  rfl
theorem encT13_eq (t : BitVec 128 × BitVec 128 × BitVec 128 × BitVec 128 × BitVec 128 × BitVec 128 × BitVec 128 × BitVec 128 × BitVec 128 × BitVec 128 × BitVec 128 × BitVec 128 × BitVec 128) (b : BitVec 128) : encT13 t b = BC.AesNi.encrypt (l13 t) b := by
  obtain ⟨k0, k1, k2, k3, k4, k5, k6, k7, k8, k9, k10, k11, k12⟩ := t
  exact encrypt_13_eq ..
theorem decT13_eq (t : BitVec 128 × BitVec 128 × BitVec 128 × BitVec 128 × BitVec 128 × BitVec 128 × BitVec 128 × BitVec 128 × BitVec 128 × BitVec 128 × BitVec 128 × BitVec 128 × BitVec 128) (b : BitVec 128) : decT13 t b = BC.AesNi.decrypt (l13 t) b := by
  obtain ⟨k0, k1, k2, k3, k4, k5, k6, k7, k8, k9, k10, k11, k12⟩ := t
  exact decrypt_13_eq ..
theorem invT13_eq (t : BitVec 128 × BitVec 128 × BitVec 128 × BitVec 128 × BitVec 128 × BitVec 128 × BitVec 128 × BitVec 128 × BitVec 128 × BitVec 128 × BitVec 128 × BitVec 128 × BitVec 128) : l13 (invT13 t) = BC.AesNi.inv_keys (l13 t) := by
  obtain ⟨k0, k1, k2, k3, k4, k5, k6, k7, k8, k9, k10, k11, k12⟩ := t
  exact inv_keys_13_eq ..
theorem encparT13_eq (t : BitVec 128 × BitVec 128 × BitVec 128 × BitVec 128 × BitVec 128 × BitVec 128 × BitVec 128 × BitVec 128 × BitVec 128 × BitVec 128 × BitVec 128 × BitVec 128 × BitVec 128) (b0 b1 b2 b3 b4 b5 b6 b7 b8 : BitVec 128) :
    l9 (encparT13 t b0 b1 b2 b3 b4 b5 b6 b7 b8) = [b0, b1, b2, b3, b4, b5, b6, b7, b8].map (encT13 t) := by
  have h : (l13 t).length = 11 ∨ (l13 t).length = 13 ∨ (l13 t).length = 15 := by simp only [l13_length]; decide
  have e : encT13 t = BC.AesNi.encrypt (l13 t) := funext (encT13_eq t)
  rw [e, ← BC.AesNi.encrypt_par_eq_map _ _ h]
  obtain ⟨k0, k1, k2, k3, k4, k5, k6, k7, k8, k9, k10, k11, k12⟩ := t
  exact encrypt_par_13_eq ..
theorem decparT13_eq (t : BitVec 128 × BitVec 128 × BitVec 128 × BitVec 128 × BitVec 128 × BitVec 128 × BitVec 128 × BitVec 128 × BitVec 128 × BitVec 128 × BitVec 128 × BitVec 128 × BitVec 128) (b0 b1 b2 b3 b4 b5 b6 b7 b8 : BitVec 128) :
    l9 (decparT13 t b0 b1 b2 b3 b4 b5 b6 b7 b8) = [b0, b1, b2, b3, b4, b5, b6, b7, b8].map (decT13 t) := by
  have h : (l13 t).length = 11 ∨ (l13 t).length = 13 ∨ (l13 t).length = 15 := by simp only [l13_length]; decide
  have e : decT13 t = BC.AesNi.decrypt (l13 t) := funext (decT13_eq t)
  rw [e, ← BC.AesNi.decrypt_par_eq_map _ _ h]
  obtain ⟨k0, k1, k2, k3, k4, k5, k6, k7, k8, k9, k10, k11, k12⟩ := t
  exact decrypt_par_13_eq ..

/-! ### auxiliary: the regenerated functions on a tuple of 15 round keys -/

/-- `encrypt::<15>` on a round-key tuple (regenerated code only) -/
def encT15 (t : BitVec 128 × BitVec 128 × BitVec 128 × BitVec 128 × BitVec 128 × BitVec 128 × BitVec 128 × BitVec 128 × BitVec 128 × BitVec 128 × BitVec 128 × BitVec 128 × BitVec 128 × BitVec 128 × BitVec 128) (b : BitVec 128) : BitVec 128 :=
  match t with
  | (k0, k1, k2, k3, k4, k5, k6, k7, k8, k9, k10, k11, k12, k13, k14) => ni_encrypt_15 k0 k1 k2 k3 k4 k5 k6 k7 k8 k9 k10 k11 k12 k13 k14 b
/-- `decrypt::<15>` on a round-key tuple (regenerated code only) -/
def decT15 (t : BitVec 128 × BitVec 128 × BitVec 128 × BitVec 128 × BitVec 128 × BitVec 128 × BitVec 128 × BitVec 128 × BitVec 128 × BitVec 128 × BitVec 128 × BitVec 128 × BitVec 128 × BitVec 128 × BitVec 128) (b : BitVec 128) : BitVec 128 :=
  match t with
  | (k0, k1, k2, k3, k4, k5, k6, k7, k8, k9, k10, k11, k12, k13, k14) => ni_decrypt_15 k0 k1 k2 k3 k4 k5 k6 k7 k8 k9 k10 k11 k12 k13 k14 b
/-- `inv_keys::<15>` on a round-key tuple (regenerated code only) -/
def invT15 (t : BitVec 128 × BitVec 128 × BitVec 128 × BitVec 128 × BitVec 128 × BitVec 128 × BitVec 128 × BitVec 128 × BitVec 128 × BitVec 128 × BitVec 128 × BitVec 128 × BitVec 128 × BitVec 128 × BitVec 128) : BitVec 128 × BitVec 128 × BitVec 128 × BitVec 128 × BitVec 128 × BitVec 128 × BitVec 128 × BitVec 128 × BitVec 128 × BitVec 128 × BitVec 128 × BitVec 128 × BitVec 128 × BitVec 128 × BitVec 128 :=
  match t with
  | (k0, k1, k2, k3, k4, k5, k6, k7, k8, k9, k10, k11, k12, k13, k14) => ni_inv_keys_15 k0 k1 k2 k3 k4 k5 k6 k7 k8 k9 k10 k11 k12 k13 k14
def encparT15 (t : BitVec 128 × BitVec 128 × BitVec 128 × BitVec 128 × BitVec 128 × BitVec 128 × BitVec 128 × BitVec 128 × BitVec 128 × BitVec 128 × BitVec 128 × BitVec 128 × BitVec 128 × BitVec 128 × BitVec 128) (b0 b1 b2 b3 b4 b5 b6 b7 b8 : BitVec 128) : BitVec 128 × BitVec 128 × BitVec 128 × BitVec 128 × BitVec 128 × BitVec 128 × BitVec 128 × BitVec 128 × BitVec 128 :=
  match t with
  | (k0, k1, k2, k3, k4, k5, k6, k7, k8, k9, k10, k11, k12, k13, k14) => ni_encrypt_par_15 k0 k1 k2 k3 k4 k5 k6 k7 k8 k9 k10 k11 k12 k13 k14 b0 b1 b2 b3 b4 b5 b6 b7 b8
def decparT15 (t : BitVec 128 × BitVec 128 × BitVec 128 × BitVec 128 × BitVec 128 × BitVec 128 × BitVec 128 × BitVec 128 × BitVec 128 × BitVec 128 × BitVec 128 × BitVec 128 × BitVec 128 × BitVec 128 × BitVec 128) (b0 b1 b2 b3 b4 b5 b6 b7 b8 : BitVec 128) : BitVec 128 × BitVec 128 × BitVec 128 × BitVec 128 × BitVec 128 × BitVec 128 × BitVec 128 × BitVec 128 × BitVec 128 :=
  match t with
  | (k0, k1, k2, k3, k4, k5, k6, k7, k8, k9, k10, k11, k12, k13, k14) => ni_decrypt_par_15 k0 k1 k2 k3 k4 k5 k6 k7 k8 k9 k10 k11 k12 k13 k14 b0 b1 b2 b3 b4 b5 b6 b7 b8

theorem l15_length (t : BitVec 128 × BitVec 128 × BitVec 128 × BitVec 128 × BitVec 128 × BitVec 128 × BitVec 128 × BitVec 128 × BitVec 128 × BitVec 128 × BitVec 128 × BitVec 128 × BitVec 128 × BitVec 128 × BitVec 128) : (l15 t).length = 15 := by
  obtain ⟨k0, k1, k2, k3, k4, k5, k6, k7, k8, k9, k10, k11, k12, k13, k14⟩ := t
  rfl
theorem encT15_eq (t : BitVec 128 × BitVec 128 × BitVec 128 × BitVec 128 × BitVec 128 × BitVec 128 × BitVec 128 × BitVec 128 × BitVec 128 × BitVec 128 × BitVec 128 × BitVec 128 × BitVec 128 × BitVec 128 × BitVec 128) (b : BitVec 128) : encT15 t b = BC.AesNi.encrypt (l15 t) b := by
  obtain ⟨k0, k1, k2, k3, k4, k5, k6, k7, k8, k9, k10, k11, k12, k13, k14⟩ := t
  exact encrypt_15_eq ..
theorem decT15_eq (t : BitVec 128 × BitVec 128 × BitVec 128 × BitVec 128 × BitVec 128 × BitVec 128 × BitVec 128 × BitVec 128 × BitVec 128 × BitVec 128 × BitVec 128 × BitVec 128 × BitVec 128 × BitVec 128 × BitVec 128) (b : BitVec 128) : decT15 t b = BC.AesNi.decrypt (l15 t) b := by
  obtain ⟨k0, k1, k2, k3, k4, k5, k6, k7, k8, k9, k10, k11, k12, k13, k14⟩ := t
  exact decrypt_15_eq ..
theorem invT15_eq (t : BitVec 128 × BitVec 128 × BitVec 128 × BitVec 128 × BitVec 128 × BitVec 128 × BitVec 128 × BitVec 128 × BitVec 128 × BitVec 128 × BitVec 128 × BitVec 128 × BitVec 128 × BitVec 128 × BitVec 128) : l15 (invT15 t) = BC.AesNi.inv_keys (l15 t) := by
  obtain ⟨k0, k1, k2, k3, k4, k5, k6, k7, k8, k9, k10, k11, k12, k13, k14⟩ := t
  exact inv_keys_15_eq ..
theorem encparT15_eq (t : BitVec 128 × BitVec 128 × BitVec 128 × BitVec 128 × BitVec 128 × BitVec 128 × BitVec 128 × BitVec 128 × BitVec 128 × BitVec 128 × BitVec 128 × BitVec 128 × BitVec 128 × BitVec 128 × BitVec 128) (b0 b1 b2 b3 b4 b5 b6 b7 b8 : BitVec 128) :
    l9 (encparT15 t b0 b1 b2 b3 b4 b5 b6 b7 b8) = [b0, b1, b2, b3, b4, b5, b6, b7, b8].map (encT15 t) := by
  have h : (l15 t).length = 11 ∨ (l15 t).length = 13 ∨ (l15 t).length = 15 := by simp only [l15_length]; decide
  have e : encT15 t = BC.AesNi.encrypt (l15 t) := funext (encT15_eq t)
  rw [e, ← BC.AesNi.encrypt_par_eq_map _ _ h]
  obtain ⟨k0, k1, k2, k3, k4, k5, k6, k7, k8, k9, k10, k11, k12, k13, k14⟩ := t
  exact encrypt_par_15_eq ..
theorem decparT15_eq (t : BitVec 128 × BitVec 128 × BitVec 128 × BitVec 128 × BitVec 128 × BitVec 128 × BitVec 128 × BitVec 128 × BitVec 128 × BitVec 128 × BitVec 128 × BitVec 128 × BitVec 128 × BitVec 128 × BitVec 128) (b0 b1 b2 b3 b4 b5 b6 b7 b8 : BitVec 128) :
    l9 (decparT15 t b0 b1 b2 b3 b4 b5 b6 b7 b8) = [b0, b1, b2, b3, b4, b5, b6, b7, b8].map (decT15 t) := by
  have h : (l15 t).length = 11 ∨ (l15 t).length = 13 ∨ (l15 t).length = 15 := by simp only [l15_length]; decide
  have e : decT15 t = BC.AesNi.decrypt (l15 t) := funext (decT15_eq t)
  rw [e, ← BC.AesNi.decrypt_par_eq_map _ _ h]
  obtain ⟨k0, k1, k2, k3, k4, k5, k6, k7, k8, k9, k10, k11, k12, k13, k14⟩ := t
  exact decrypt_par_15_eq ..

/-! ## AES-128 -/

/-- `encrypt::<11>(&aes128_expand_key(key), block)` — regenerated code only -/
def enc128 (key : BitVec 128) (b : BitVec 128) : BitVec 128 :=
  match ni_aes128_expand_key key with
  | (k0, k1, k2, k3, k4, k5, k6, k7, k8, k9, k10) => ni_encrypt_11 k0 k1 k2 k3 k4 k5 k6 k7 k8 k9 k10 b

/-- `decrypt::<11>(&inv_keys(&aes128_expand_key(key)), block)` — regenerated code only -/
def dec128 (key : BitVec 128) (b : BitVec 128) : BitVec 128 :=
  match ni_aes128_expand_key key with
  | (k0, k1, k2, k3, k4, k5, k6, k7, k8, k9, k10) =>
    match ni_inv_keys_11 k0 k1 k2 k3 k4 k5 k6 k7 k8 k9 k10 with
    | (d0, d1, d2, d3, d4, d5, d6, d7, d8, d9, d10) => ni_decrypt_11 d0 d1 d2 d3 d4 d5 d6 d7 d8 d9 d10 b

/-- `encrypt_par::<11, U9>(&aes128_expand_key(key), blocks)` — regenerated code only -/
def encpar128 (key : BitVec 128) (b0 b1 b2 b3 b4 b5 b6 b7 b8 : BitVec 128) : BitVec 128 × BitVec 128 × BitVec 128 × BitVec 128 × BitVec 128 × BitVec 128 × BitVec 128 × BitVec 128 × BitVec 128 :=
  match ni_aes128_expand_key key with
  | (k0, k1, k2, k3, k4, k5, k6, k7, k8, k9, k10) => ni_encrypt_par_11 k0 k1 k2 k3 k4 k5 k6 k7 k8 k9 k10 b0 b1 b2 b3 b4 b5 b6 b7 b8

/-- `decrypt_par::<11, U9>(&inv_keys(&aes128_expand_key(key)), blocks)` — regenerated code only -/
def decpar128 (key : BitVec 128) (b0 b1 b2 b3 b4 b5 b6 b7 b8 : BitVec 128) : BitVec 128 × BitVec 128 × BitVec 128 × BitVec 128 × BitVec 128 × BitVec 128 × BitVec 128 × BitVec 128 × BitVec 128 :=
  match ni_aes128_expand_key key with
  | (k0, k1, k2, k3, k4, k5, k6, k7, k8, k9, k10) =>
    match ni_inv_keys_11 k0 k1 k2 k3 k4 k5 k6 k7 k8 k9 k10 with
    | (d0, d1, d2, d3, d4, d5, d6, d7, d8, d9, d10) => ni_decrypt_par_11 d0 d1 d2 d3 d4 d5 d6 d7 d8 d9 d10 b0 b1 b2 b3 b4 b5 b6 b7 b8

theorem enc128_T (key : BitVec 128) (b : BitVec 128) : enc128 key b = encT11 (ni_aes128_expand_key key) b := rfl
theorem dec128_T (key : BitVec 128) (b : BitVec 128) : dec128 key b = decT11 (invT11 (ni_aes128_expand_key key)) b := rfl
theorem encpar128_T (key : BitVec 128) (b0 b1 b2 b3 b4 b5 b6 b7 b8 : BitVec 128) :
    encpar128 key b0 b1 b2 b3 b4 b5 b6 b7 b8 = encparT11 (ni_aes128_expand_key key) b0 b1 b2 b3 b4 b5 b6 b7 b8 := rfl
theorem decpar128_T (key : BitVec 128) (b0 b1 b2 b3 b4 b5 b6 b7 b8 : BitVec 128) :
    decpar128 key b0 b1 b2 b3 b4 b5 b6 b7 b8 = decparT11 (invT11 (ni_aes128_expand_key key)) b0 b1 b2 b3 b4 b5 b6 b7 b8 := rfl

/-- the regenerated code is the model -/
theorem enc128_eq_impl (key : BitVec 128) (b : BitVec 128) : enc128 key b = BC.AesNi.encrypt128 key b := by
  rw [enc128_T, encT11_eq, aes128_expand_key_eq, BC.AesNi.encrypt128_def]
theorem dec128_eq_impl (key : BitVec 128) (b : BitVec 128) : dec128 key b = BC.AesNi.decrypt128 key b := by
  rw [dec128_T, decT11_eq, invT11_eq, aes128_expand_key_eq, BC.AesNi.decrypt128_def]

theorem dec128_enc128 (key : BitVec 128) (b : BitVec 128) : dec128 key (enc128 key b) = b := by
  rw [enc128_eq_impl, dec128_eq_impl, BC.AesNi.decrypt128_encrypt128]
theorem enc128_dec128 (key : BitVec 128) (b : BitVec 128) : enc128 key (dec128 key b) = b := by
  rw [enc128_eq_impl, dec128_eq_impl, BC.AesNi.encrypt128_decrypt128]
/-- = FIPS-197 `Cipher` with `KeyExpansion` of the 16 key bytes -/
theorem enc128_eq_spec (key : BitVec 128) (b : BitVec 128) : enc128 key b = BC.Spec.Aes.encrypt (BC.unpackBE 16 key) b := by
  rw [enc128_eq_impl, BC.AesNi.encrypt128_eq_spec]
/-- = FIPS-197 `InvCipher` -/
theorem dec128_eq_spec (key : BitVec 128) (b : BitVec 128) : dec128 key b = BC.Spec.Aes.decrypt (BC.unpackBE 16 key) b := by
  rw [dec128_eq_impl, BC.AesNi.decrypt128_eq_spec]

/-- every lane of the 9-block function is the single-block function -/
theorem encpar128_lanes (key : BitVec 128) (b0 b1 b2 b3 b4 b5 b6 b7 b8 : BitVec 128) :
    l9 (encpar128 key b0 b1 b2 b3 b4 b5 b6 b7 b8) = [enc128 key b0, enc128 key b1, enc128 key b2, enc128 key b3, enc128 key b4, enc128 key b5, enc128 key b6, enc128 key b7, enc128 key b8] := by
  rw [encpar128_T, encparT11_eq]
  rfl
theorem decpar128_lanes (key : BitVec 128) (b0 b1 b2 b3 b4 b5 b6 b7 b8 : BitVec 128) :
    l9 (decpar128 key b0 b1 b2 b3 b4 b5 b6 b7 b8) = [dec128 key b0, dec128 key b1, dec128 key b2, dec128 key b3, dec128 key b4, dec128 key b5, dec128 key b6, dec128 key b7, dec128 key b8] := by
  rw [decpar128_T, decparT11_eq]
  rfl

/-! ## AES-192 -/

/-- `encrypt::<13>(&aes192_expand_key(key), block)` — regenerated code only -/
def enc192 (key : BitVec 192) (b : BitVec 128) : BitVec 128 :=
  match ni_aes192_expand_key key with
  | (k0, k1, k2, k3, k4, k5, k6, k7, k8, k9, k10, k11, k12) => ni_encrypt_13 k0 k1 k2 k3 k4 k5 k6 k7 k8 k9 k10 k11 k12 b

/-- `decrypt::<13>(&inv_keys(&aes192_expand_key(key)), block)` — regenerated code only -/
def dec192 (key : BitVec 192) (b : BitVec 128) : BitVec 128 :=
  match ni_aes192_expand_key key with
  | (k0, k1, k2, k3, k4, k5, k6, k7, k8, k9, k10, k11, k12) =>
    match ni_inv_keys_13 k0 k1 k2 k3 k4 k5 k6 k7 k8 k9 k10 k11 k12 with
    | (d0, d1, d2, d3, d4, d5, d6, d7, d8, d9, d10, d11, d12) => ni_decrypt_13 d0 d1 d2 d3 d4 d5 d6 d7 d8 d9 d10 d11 d12 b

/-- `encrypt_par::<13, U9>(&aes192_expand_key(key), blocks)` — regenerated code only -/
def encpar192 (key : BitVec 192) (b0 b1 b2 b3 b4 b5 b6 b7 b8 : BitVec 128) : BitVec 128 × BitVec 128 × BitVec 128 × BitVec 128 × BitVec 128 × BitVec 128 × BitVec 128 × BitVec 128 × BitVec 128 :=
  match ni_aes192_expand_key key with
  | (k0, k1, k2, k3, k4, k5, k6, k7, k8, k9, k10, k11, k12) => ni_encrypt_par_13 k0 k1 k2 k3 k4 k5 k6 k7 k8 k9 k10 k11 k12 b0 b1 b2 b3 b4 b5 b6 b7 b8

/-- `decrypt_par::<13, U9>(&inv_keys(&aes192_expand_key(key)), blocks)` — regenerated code only -/
def decpar192 (key : BitVec 192) (b0 b1 b2 b3 b4 b5 b6 b7 b8 : BitVec 128) : BitVec 128 × BitVec 128 × BitVec 128 × BitVec 128 × BitVec 128 × BitVec 128 × BitVec 128 × BitVec 128 × BitVec 128 :=
  match ni_aes192_expand_key key with
  | (k0, k1, k2, k3, k4, k5, k6, k7, k8, k9, k10, k11, k12) =>
    match ni_inv_keys_13 k0 k1 k2 k3 k4 k5 k6 k7 k8 k9 k10 k11 k12 with
    | (d0, d1, d2, d3, d4, d5, d6, d7, d8, d9, d10, d11, d12) => ni_decrypt_par_13 d0 d1 d2 d3 d4 d5 d6 d7 d8 d9 d10 d11 d12 b0 b1 b2 b3 b4 b5 b6 b7 b8

theorem enc192_T (key : BitVec 192) (b : BitVec 128) : enc192 key b = encT13 (ni_aes192_expand_key key) b := rfl
theorem dec192_T (key : BitVec 192) (b : BitVec 128) : dec192 key b = decT13 (invT13 (ni_aes192_expand_key key)) b := rfl
theorem encpar192_T (key : BitVec 192) (b0 b1 b2 b3 b4 b5 b6 b7 b8 : BitVec 128) :
    encpar192 key b0 b1 b2 b3 b4 b5 b6 b7 b8 = encparT13 (ni_aes192_expand_key key) b0 b1 b2 b3 b4 b5 b6 b7 b8 := rfl
theorem decpar192_T (key : BitVec 192) (b0 b1 b2 b3 b4 b5 b6 b7 b8 : BitVec 128) :
    decpar192 key b0 b1 b2 b3 b4 b5 b6 b7 b8 = decparT13 (invT13 (ni_aes192_expand_key key)) b0 b1 b2 b3 b4 b5 b6 b7 b8 := rfl

/-- the regenerated code is the model -/
theorem enc192_eq_impl (key : BitVec 192) (b : BitVec 128) : enc192 key b = BC.AesNi.encrypt192 key b := by
  rw [enc192_T, encT13_eq, aes192_expand_key_eq, BC.AesNi.encrypt192_def]
theorem dec192_eq_impl (key : BitVec 192) (b : BitVec 128) : dec192 key b = BC.AesNi.decrypt192 key b := by
  rw [dec192_T, decT13_eq, invT13_eq, aes192_expand_key_eq, BC.AesNi.decrypt192_def]

theorem dec192_enc192 (key : BitVec 192) (b : BitVec 128) : dec192 key (enc192 key b) = b := by
  rw [enc192_eq_impl, dec192_eq_impl, BC.AesNi.decrypt192_encrypt192]
theorem enc192_dec192 (key : BitVec 192) (b : BitVec 128) : enc192 key (dec192 key b) = b := by
  rw [enc192_eq_impl, dec192_eq_impl, BC.AesNi.encrypt192_decrypt192]
/-- = FIPS-197 `Cipher` with `KeyExpansion` of the 24 key bytes -/
theorem enc192_eq_spec (key : BitVec 192) (b : BitVec 128) : enc192 key b = BC.Spec.Aes.encrypt (BC.unpackBE 24 key) b := by
  rw [enc192_eq_impl, BC.AesNi.encrypt192_eq_spec]
/-- = FIPS-197 `InvCipher` -/
theorem dec192_eq_spec (key : BitVec 192) (b : BitVec 128) : dec192 key b = BC.Spec.Aes.decrypt (BC.unpackBE 24 key) b := by
  rw [dec192_eq_impl, BC.AesNi.decrypt192_eq_spec]

/-- every lane of the 9-block function is the single-block function -/
theorem encpar192_lanes (key : BitVec 192) (b0 b1 b2 b3 b4 b5 b6 b7 b8 : BitVec 128) :
    l9 (encpar192 key b0 b1 b2 b3 b4 b5 b6 b7 b8) = [enc192 key b0, enc192 key b1, enc192 key b2, enc192 key b3, enc192 key b4, enc192 key b5, enc192 key b6, enc192 key b7, enc192 key b8] := by
  rw [encpar192_T, encparT13_eq]
  rfl
theorem decpar192_lanes (key : BitVec 192) (b0 b1 b2 b3 b4 b5 b6 b7 b8 : BitVec 128) :
    l9 (decpar192 key b0 b1 b2 b3 b4 b5 b6 b7 b8) = [dec192 key b0, dec192 key b1, dec192 key b2, dec192 key b3, dec192 key b4, dec192 key b5, dec192 key b6, dec192 key b7, dec192 key b8] := by
  rw [decpar192_T, decparT13_eq]
  rfl

/-! ## AES-256 -/

/-- `encrypt::<15>(&aes256_expand_key(key), block)` — regenerated code only -/
def enc256 (key : BitVec 256) (b : BitVec 128) : BitVec 128 :=
  match ni_aes256_expand_key key with
  | (k0, k1, k2, k3, k4, k5, k6, k7, k8, k9, k10, k11, k12, k13, k14) => ni_encrypt_15 k0 k1 k2 k3 k4 k5 k6 k7 k8 k9 k10 k11 k12 k13 k14 b

/-- `decrypt::<15>(&inv_keys(&aes256_expand_key(key)), block)` — regenerated code only -/
def dec256 (key : BitVec 256) (b : BitVec 128) : BitVec 128 :=
  match ni_aes256_expand_key key with
  | (k0, k1, k2, k3, k4, k5, k6, k7, k8, k9, k10, k11, k12, k13, k14) =>
    match ni_inv_keys_15 k0 k1 k2 k3 k4 k5 k6 k7 k8 k9 k10 k11 k12 k13 k14 with
    | (d0, d1, d2, d3, d4, d5, d6, d7, d8, d9, d10, d11, d12, d13, d14) => ni_decrypt_15 d0 d1 d2 d3 d4 d5 d6 d7 d8 d9 d10 d11 d12 d13 d14 b

/-- `encrypt_par::<15, U9>(&aes256_expand_key(key), blocks)` — regenerated code only -/
def encpar256 (key : BitVec 256) (b0 b1 b2 b3 b4 b5 b6 b7 b8 : BitVec 128) : BitVec 128 × BitVec 128 × BitVec 128 × BitVec 128 × BitVec 128 × BitVec 128 × BitVec 128 × BitVec 128 × BitVec 128 :=
  match ni_aes256_expand_key key with
  | (k0, k1, k2, k3, k4, k5, k6, k7, k8, k9, k10, k11, k12, k13, k14) => ni_encrypt_par_15 k0 k1 k2 k3 k4 k5 k6 k7 k8 k9 k10 k11 k12 k13 k14 b0 b1 b2 b3 b4 b5 b6 b7 b8

/-- `decrypt_par::<15, U9>(&inv_keys(&aes256_expand_key(key)), blocks)` — regenerated code only -/
def decpar256 (key : BitVec 256) (b0 b1 b2 b3 b4 b5 b6 b7 b8 : BitVec 128) : BitVec 128 × BitVec 128 × BitVec 128 × BitVec 128 × BitVec 128 × BitVec 128 × BitVec 128 × BitVec 128 × BitVec 128 :=
  match ni_aes256_expand_key key with
  | (k0, k1, k2, k3, k4, k5, k6, k7, k8, k9, k10, k11, k12, k13, k14) =>
    match ni_inv_keys_15 k0 k1 k2 k3 k4 k5 k6 k7 k8 k9 k10 k11 k12 k13 k14 with
    | (d0, d1, d2, d3, d4, d5, d6, d7, d8, d9, d10, d11, d12, d13, d14) => ni_decrypt_par_15 d0 d1 d2 d3 d4 d5 d6 d7 d8 d9 d10 d11 d12 d13 d14 b0 b1 b2 b3 b4 b5 b6 b7 b8

theorem enc256_T (key : BitVec 256) (b : BitVec 128) : enc256 key b = encT15 (ni_aes256_expand_key key) b := rfl
theorem dec256_T (key : BitVec 256) (b : BitVec 128) : dec256 key b = decT15 (invT15 (ni_aes256_expand_key key)) b := rfl
theorem encpar256_T (key : BitVec 256) (b0 b1 b2 b3 b4 b5 b6 b7 b8 : BitVec 128) :
    encpar256 key b0 b1 b2 b3 b4 b5 b6 b7 b8 = encparT15 (ni_aes256_expand_key key) b0 b1 b2 b3 b4 b5 b6 b7 b8 := rfl
theorem decpar256_T (key : BitVec 256) (b0 b1 b2 b3 b4 b5 b6 b7 b8 : BitVec 128) :
    decpar256 key b0 b1 b2 b3 b4 b5 b6 b7 b8 = decparT15 (invT15 (ni_aes256_expand_key key)) b0 b1 b2 b3 b4 b5 b6 b7 b8 := rfl

/-- the regenerated code is the model -/
theorem enc256_eq_impl (key : BitVec 256) (b : BitVec 128) : enc256 key b = BC.AesNi.encrypt256 key b := by
  rw [enc256_T, encT15_eq, aes256_expand_key_eq, BC.AesNi.encrypt256_def]
theorem dec256_eq_impl (key : BitVec 256) (b : BitVec 128) : dec256 key b = BC.AesNi.decrypt256 key b := by
  rw [dec256_T, decT15_eq, invT15_eq, aes256_expand_key_eq, BC.AesNi.decrypt256_def]

theorem dec256_enc256 (key : BitVec 256) (b : BitVec 128) : dec256 key (enc256 key b) = b := by
  rw [enc256_eq_impl, dec256_eq_impl, BC.AesNi.decrypt256_encrypt256]
theorem enc256_dec256 (key : BitVec 256) (b : BitVec 128) : enc256 key (dec256 key b) = b := by
  rw [enc256_eq_impl, dec256_eq_impl, BC.AesNi.encrypt256_decrypt256]
/-- = FIPS-197 `Cipher` with `KeyExpansion` of the 32 key bytes -/
theorem enc256_eq_spec (key : BitVec 256) (b : BitVec 128) : enc256 key b = BC.Spec.Aes.encrypt (BC.unpackBE 32 key) b := by
  rw [enc256_eq_impl, BC.AesNi.encrypt256_eq_spec]
/-- = FIPS-197 `InvCipher` -/
theorem dec256_eq_spec (key : BitVec 256) (b : BitVec 128) : dec256 key b = BC.Spec.Aes.decrypt (BC.unpackBE 32 key) b := by
  rw [dec256_eq_impl, BC.AesNi.decrypt256_eq_spec]

/-- every lane of the 9-block function is the single-block function -/
theorem encpar256_lanes (key : BitVec 256) (b0 b1 b2 b3 b4 b5 b6 b7 b8 : BitVec 128) :
    l9 (encpar256 key b0 b1 b2 b3 b4 b5 b6 b7 b8) = [enc256 key b0, enc256 key b1, enc256 key b2, enc256 key b3, enc256 key b4, enc256 key b5, enc256 key b6, enc256 key b7, enc256 key b8] := by
  rw [encpar256_T, encparT15_eq]
  rfl
theorem decpar256_lanes (key : BitVec 256) (b0 b1 b2 b3 b4 b5 b6 b7 b8 : BitVec 128) :
    l9 (decpar256 key b0 b1 b2 b3 b4 b5 b6 b7 b8) = [dec256 key b0, dec256 key b1, dec256 key b2, dec256 key b3, dec256 key b4, dec256 key b5, dec256 key b6, dec256 key b7, dec256 key b8] := by
  rw [decpar256_T, decparT15_eq]
  rfl

/-! ## hazmat.rs (regenerated code = FIPS-197 layers) -/

open BC.Spec.Aes in
theorem hazmat_cipher_round_eq_spec (b k : BitVec 128) :
    ni_hazmat_cipher_round b k = mixColumns (shiftRows (subBytes b)) ^^^ k := by
  rw [hazmat_cipher_round_eq, BC.AesNi.cipher_round_eq]
open BC.Spec.Aes in
theorem hazmat_equiv_inv_cipher_round_eq_spec (b k : BitVec 128) :
    ni_hazmat_equiv_inv_cipher_round b k = invMixColumns (invShiftRows (invSubBytes b)) ^^^ k := by
  rw [hazmat_equiv_inv_cipher_round_eq, BC.AesNi.equiv_inv_cipher_round_eq]
theorem hazmat_mix_columns_eq_spec (b : BitVec 128) : ni_hazmat_mix_columns b = BC.Spec.Aes.mixColumns b := by
  rw [hazmat_mix_columns_eq, BC.AesNi.mix_columns_eq]
theorem hazmat_inv_mix_columns_eq_spec (b : BitVec 128) : ni_hazmat_inv_mix_columns b = BC.Spec.Aes.invMixColumns b := by
  rw [hazmat_inv_mix_columns_eq, BC.AesNi.inv_mix_columns_eq]
theorem hazmat_inv_mix_mix (b : BitVec 128) : ni_hazmat_inv_mix_columns (ni_hazmat_mix_columns b) = b := by
  rw [hazmat_inv_mix_columns_eq, hazmat_mix_columns_eq, BC.AesNi.inv_mix_columns_mix_columns]
theorem hazmat_mix_inv_mix (b : BitVec 128) : ni_hazmat_mix_columns (ni_hazmat_inv_mix_columns b) = b := by
  rw [hazmat_inv_mix_columns_eq, hazmat_mix_columns_eq, BC.AesNi.mix_columns_inv_mix_columns]

/-- the 8-block form is 8 independent single-block calls -/
theorem hazmat_cipher_round_par_lanes (b0 b1 b2 b3 b4 b5 b6 b7 k0 k1 k2 k3 k4 k5 k6 k7 : BitVec 128) :
    l8 (ni_hazmat_cipher_round_par b0 b1 b2 b3 b4 b5 b6 b7 k0 k1 k2 k3 k4 k5 k6 k7) = [ni_hazmat_cipher_round b0 k0, ni_hazmat_cipher_round b1 k1, ni_hazmat_cipher_round b2 k2, ni_hazmat_cipher_round b3 k3, ni_hazmat_cipher_round b4 k4, ni_hazmat_cipher_round b5 k5, ni_hazmat_cipher_round b6 k6, ni_hazmat_cipher_round b7 k7] := by
  simp only [hazmat_cipher_round_par_eq, hazmat_cipher_round_eq, BC.AesNi.cipher_round_par_eq]

/-- the 8-block form is 8 independent single-block calls -/
theorem hazmat_equiv_inv_cipher_round_par_lanes (b0 b1 b2 b3 b4 b5 b6 b7 k0 k1 k2 k3 k4 k5 k6 k7 : BitVec 128) :
    l8 (ni_hazmat_equiv_inv_cipher_round_par b0 b1 b2 b3 b4 b5 b6 b7 k0 k1 k2 k3 k4 k5 k6 k7) = [ni_hazmat_equiv_inv_cipher_round b0 k0, ni_hazmat_equiv_inv_cipher_round b1 k1, ni_hazmat_equiv_inv_cipher_round b2 k2, ni_hazmat_equiv_inv_cipher_round b3 k3, ni_hazmat_equiv_inv_cipher_round b4 k4, ni_hazmat_equiv_inv_cipher_round b5 k5, ni_hazmat_equiv_inv_cipher_round b6 k6, ni_hazmat_equiv_inv_cipher_round b7 k7] := by
  simp only [hazmat_equiv_inv_cipher_round_par_eq, hazmat_equiv_inv_cipher_round_eq, BC.AesNi.equiv_inv_cipher_round_par_eq]

end BC.Code.AesNi