import Std.Tactic.BVDecide
import BlockCiphers.Proofs.AesArmv8
import BlockCiphers.Proofs.AesNiBytes
import BlockCiphers.Models.AesArmv8
/-
The C02 / C01 theorems of `Proofs/AesArmv8.lean` for keys given as byte strings — the form in which
`Models/AesArmv8.lean` (and the Rust `new_from_slice`) receive them — and the registry-level facts: which key lengths
are accepted, and what the nine `Armv8Aes*` registry entries compute.  (`unpack_pack16/24/32` are those of
`Proofs/AesNiBytes.lean`.)
-/
namespace BC.AesArmv8
open BC BC.X86 BC.Spec.Aes BC.AesNi

/-! ### C02 / C01 on byte-string keys: the generic constructors at the three legal lengths -/

theorem encrypt_bytes16 (key : Bytes) (h : key.length = 16) (b : BitVec 128) :
    (Combined.new key 11).encrypt_block b = Spec.Aes.encrypt key b := by
  have := encrypt128_eq_spec (packBE 16 key) b
  simp only [encrypt128, Combined.new128] at this
  rwa [unpack_pack16 key h] at this
theorem decrypt_bytes16 (key : Bytes) (h : key.length = 16) (b : BitVec 128) :
    (Combined.new key 11).decrypt_block b = Spec.Aes.decrypt key b := by
  have := decrypt128_eq_spec (packBE 16 key) b
  simp only [decrypt128, Combined.new128] at this
  rwa [unpack_pack16 key h] at this
theorem encrypt_bytes24 (key : Bytes) (h : key.length = 24) (b : BitVec 128) :
    (Combined.new key 13).encrypt_block b = Spec.Aes.encrypt key b := by
  have := encrypt192_eq_spec (packBE 24 key) b
  simp only [encrypt192, Combined.new192] at this
  rwa [unpack_pack24 key h] at this
theorem decrypt_bytes24 (key : Bytes) (h : key.length = 24) (b : BitVec 128) :
    (Combined.new key 13).decrypt_block b = Spec.Aes.decrypt key b := by
  have := decrypt192_eq_spec (packBE 24 key) b
  simp only [decrypt192, Combined.new192] at this
  rwa [unpack_pack24 key h] at this
theorem encrypt_bytes32 (key : Bytes) (h : key.length = 32) (b : BitVec 128) :
    (Combined.new key 15).encrypt_block b = Spec.Aes.encrypt key b := by
  have := encrypt256_eq_spec (packBE 32 key) b
  simp only [encrypt256, Combined.new256] at this
  rwa [unpack_pack32 key h] at this
theorem decrypt_bytes32 (key : Bytes) (h : key.length = 32) (b : BitVec 128) :
    (Combined.new key 15).decrypt_block b = Spec.Aes.decrypt key b := by
  have := decrypt256_eq_spec (packBE 32 key) b
  simp only [decrypt256, Combined.new256] at this
  rwa [unpack_pack32 key h] at this

/-- the same in the shape of `Proofs/AesNiBytes.lean` (fixed-size key packed from the byte string) -/
theorem encrypt128_bytes (key : Bytes) (h : key.length = 16) (b : BitVec 128) :
    encrypt128 (packBE 16 key) b = Spec.Aes.encrypt key b := by
  rw [encrypt128_eq_spec, unpack_pack16 key h]
theorem decrypt128_bytes (key : Bytes) (h : key.length = 16) (b : BitVec 128) :
    decrypt128 (packBE 16 key) b = Spec.Aes.decrypt key b := by
  rw [decrypt128_eq_spec, unpack_pack16 key h]
theorem encrypt192_bytes (key : Bytes) (h : key.length = 24) (b : BitVec 128) :
    encrypt192 (packBE 24 key) b = Spec.Aes.encrypt key b := by
  rw [encrypt192_eq_spec, unpack_pack24 key h]
theorem decrypt192_bytes (key : Bytes) (h : key.length = 24) (b : BitVec 128) :
    decrypt192 (packBE 24 key) b = Spec.Aes.decrypt key b := by
  rw [decrypt192_eq_spec, unpack_pack24 key h]
theorem encrypt256_bytes (key : Bytes) (h : key.length = 32) (b : BitVec 128) :
    encrypt256 (packBE 32 key) b = Spec.Aes.encrypt key b := by
  rw [encrypt256_eq_spec, unpack_pack32 key h]
theorem decrypt256_bytes (key : Bytes) (h : key.length = 32) (b : BitVec 128) :
    decrypt256 (packBE 32 key) b = Spec.Aes.decrypt key b := by
  rw [decrypt256_eq_spec, unpack_pack32 key h]

/-! ### the registry entries (`Models/AesArmv8.lean`) -/

open BC.Models.Aes BC.Models.AesArmv8

/-- `new_from_slice` accepts exactly the key length of the family (C11 for the ARMv8 AES types) -/
theorem newEnc_isSome (f : Fam) (k : Bytes) : (Models.AesArmv8.newEnc f k).isSome ↔ k.length = f.keyLen := by
  unfold Models.AesArmv8.newEnc
  by_cases h : k.length = f.keyLen <;> simp [h]

/-- what an accepted key produces, per family: the combined type computes FIPS-197 in both directions -/
theorem newCombined_spec (f : Fam) (k : Bytes) (h : k.length = f.keyLen) :
    ∃ c, Models.AesArmv8.newCombined f k = some c ∧
      (∀ b, c.encrypt_block b = Spec.Aes.encrypt k b) ∧ (∀ b, c.decrypt_block b = Spec.Aes.decrypt k b) := by
  cases f
  · have h16 : k.length = 16 := h
    exact ⟨Combined.new k 11, by simp [Models.AesArmv8.newCombined, h16, Fam.keyLen, nKeys],
      fun b => encrypt_bytes16 k h16 b, fun b => decrypt_bytes16 k h16 b⟩
  · have h24 : k.length = 24 := h
    exact ⟨Combined.new k 13, by simp [Models.AesArmv8.newCombined, h24, Fam.keyLen, nKeys],
      fun b => encrypt_bytes24 k h24 b, fun b => decrypt_bytes24 k h24 b⟩
  · have h32 : k.length = 32 := h
    exact ⟨Combined.new k 15, by simp [Models.AesArmv8.newCombined, h32, Fam.keyLen, nKeys],
      fun b => encrypt_bytes32 k h32 b, fun b => decrypt_bytes32 k h32 b⟩

/-- C01 at the registry level -/
theorem newCombined_roundtrip (f : Fam) (k : Bytes) (h : k.length = f.keyLen) :
    ∃ c, Models.AesArmv8.newCombined f k = some c ∧
      (∀ b, c.decrypt_block (c.encrypt_block b) = b) ∧ (∀ b, c.encrypt_block (c.decrypt_block b) = b) := by
  obtain ⟨c, hc, he, hd⟩ := newCombined_spec f k h
  refine ⟨c, hc, fun b => ?_, fun b => ?_⟩
  · rw [he, hd, Spec.Aes.decrypt_encrypt]
  · rw [he, hd, Spec.Aes.encrypt_decrypt]

/-- C12 at the registry level: the Enc-only and Dec-only instances of a key are the two halves of the
combined instance (so they encrypt / decrypt exactly like it) -/
theorem newEnc_newDec_halves (f : Fam) (k : Bytes) :
    Models.AesArmv8.newCombined f k =
      (Models.AesArmv8.newEnc f k).map (fun e => { encrypt := e, decrypt := Dec.fromEnc e }) ∧
    Models.AesArmv8.newDec f k = (Models.AesArmv8.newCombined f k).map (·.decrypt) ∧
    Models.AesArmv8.newEnc f k = (Models.AesArmv8.newCombined f k).map (·.encrypt) := by
  unfold Models.AesArmv8.newCombined Models.AesArmv8.newDec Models.AesArmv8.newEnc
  by_cases h : k.length = f.keyLen <;> simp [h, Combined.new, Dec.new, Enc.clone]

/-- C12: every route of the `route` line reaches an instance that encrypts / decrypts like the combined type
built directly from the key -/
theorem route_instances (k : Bytes) (n : Nat) :
    Combined.fromEnc (Enc.new k n) = Combined.new k n ∧
    Dec.fromEnc (Enc.new k n) = Dec.new k n ∧
    (Combined.new k n).clone = Combined.new k n ∧ (Enc.new k n).clone = Enc.new k n ∧
    (Dec.new k n).clone = Dec.new k n ∧
    (Combined.fromEnc (Enc.new k n)).clone = Combined.new k n ∧ (Dec.fromEnc (Enc.new k n)).clone = Dec.new k n ∧
    Combined.fromEnc (Enc.new k n).clone = Combined.new k n ∧ Dec.fromEnc (Enc.new k n).clone = Dec.new k n ∧
    (Combined.new k n).decrypt = Dec.new k n ∧ (Combined.new k n).encrypt = Enc.new k n :=
  ⟨rfl, rfl, rfl, rfl, rfl, rfl, rfl, rfl, rfl, rfl, rfl⟩

end BC.AesArmv8
