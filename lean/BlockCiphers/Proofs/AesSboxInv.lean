import BlockCiphers.Proofs.AesSboxTable
/-
The computed FIPS-197 S-box and inverse S-box are mutually inverse (256 cases each, kernel).
-/
namespace BC.Spec.Aes

theorem invSbox_sbox (x : BitVec 8) : invSbox (sbox x) = x :=
  forall_bv8 (P := fun x => invSbox (sbox x) = x) (by decide +kernel) x

theorem sbox_invSbox (x : BitVec 8) : sbox (invSbox x) = x :=
  forall_bv8 (P := fun x => sbox (invSbox x) = x) (by decide +kernel) x

theorem invSboxT_sboxT (x : BitVec 8) : invSboxT (sboxT x) = x := by
  rw [sboxT_eq, invSboxT_eq, invSbox_sbox]

theorem sboxT_invSboxT (x : BitVec 8) : sboxT (invSboxT x) = x := by
  rw [invSboxT_eq, sboxT_eq, sbox_invSbox]

end BC.Spec.Aes
