import Lean
import Std.Tactic.BVDecide
import BlockCiphers.Gen.Cipher_Belt_block
import BlockCiphers.Gen.Cipher_Belt_wide
import BlockCiphers.Impl.Belt
import BlockCiphers.Proofs.BeltWide
import BlockCiphers.Proofs.GenCipherBelt
import BlockCiphers.Proofs.AesNiBytes
/-
ALL-INPUT tie of the regenerated BelT wide-block functions `belt_wblock_enc_<n>` / `belt_wblock_dec_<n>`
(`Gen/Cipher_Belt_wide.lean`, data lengths n ∈ {32, 33, 47, 48, 64}) to the model `BC.Belt.wblockEnc` / `wblockDec` of
`Impl/Belt.lean`: for all 8 key words and all data,
    (WRes.ok, unpackBE n (belt_wblock_enc_n data k0 … k7)) = wblockEnc (unpackBE n data) #v[k0, …, k7]        (and dec).

Route.  (1) The model's round functions are restated with two parameters made explicit (`encRoundP`, `decRoundP`):
`chunks_exact(16)` by a fuel recursion `chunks16` that the kernel can unfold (`chunksExact` is defined by well-founded
recursion; `chunksF_eq`), and the 16-byte block encryption `R : Bytes → Bytes` (`rawBytes key` in the model).  `R` is only
ever applied to 16-byte strings (`encRoundP_congr`, `decRoundP_congr`, with the buffer-length invariant through the loops),
so `R` may be replaced by any function that agrees with `rawBytes key` on 16-byte strings (`wblockEnc_eqP`, `wblockDec_eqP`).
(2) `RG k0 … k7` is such a function, written with the regenerated block cipher on WORDS: `coreW` is the text of the regenerated
`beltblock_encrypt_block` between the four word loads and the result expression (`block_eq_core`: the regenerated
`beltblock_encrypt_block` is load ∘ `coreW` ∘ store, checked by the kernel), `RG_eq` (from the block tie
`BC.GenCipher.Belt.encrypt_block_eq'` and byte-level glue by `bv_decide`).
(3) Per length: `gen_enc_n`/`gen_dec_n`: the regenerated straight-line function IS the byte-list program
`packL_n (forRange 1 (2⌈n/16⌉) (encRoundP (RG k…) 8 n) (unpackBE n data))` BY COMPUTATION (`kernel_rfl`: the equation is
closed with `@rfl _ lhs` and the definitional equality is checked by the Lean kernel when the theorem is added; a wrong
statement is rejected; nothing is assumed, nothing is bit-blasted), then `unpackBE n ∘ packL_n = id` on lists of length n.
Produced by `tools/tie_gen/bigstate/gen_belt_wide_tie.py`.
-/
namespace BC.GenCipher.BeltWide
open BC BC.Belt BC.Gen.Fn
set_option maxRecDepth 100000
set_option linter.unusedVariables false

open Lean Elab Tactic Meta in
/-- close `a = b` by `@rfl _ a`, the definitional equality `a ≡ b` being checked by the kernel only -/
elab "kernel_rfl" : tactic => do
  let g ← getMainGoal
  let t ← instantiateMVars (← g.getType)
  let some (_, lhs, _) := t.eq? | throwError "kernel_rfl: not an equality"
  g.assign (← mkEqRefl lhs)

/-! ### (1) the model's rounds with `chunks_exact` computable and the block encryption as a parameter -/

def chunksF : Nat → Bytes → List Bytes
  | 0, _ => []
  | f + 1, l => if l.length < 16 then [] else l.take 16 :: chunksF f (l.drop 16)

/-- `chunks_exact(16)` by recursion on a fuel (the length) -/
def chunks16 (l : Bytes) : List Bytes := chunksF l.length l

theorem chunksF_eq (f : Nat) (l : Bytes) (h : l.length ≤ f) : chunksExact 16 l = chunksF f l := by
  induction f generalizing l with
  | zero =>
    have : l = [] := List.length_eq_zero_iff.mp (by omega)
    subst this; rw [chunksExact]; simp [chunksF]
  | succ f ih =>
    rw [chunksExact, chunksF]
    by_cases hl : l.length < 16
    · rw [dif_pos (Or.inr hl), if_pos hl]
    · rw [dif_neg (by omega), if_neg hl, ih _ (by simp only [List.length_drop]; omega)]

theorem chunks16_eq (l : Bytes) : chunksExact 16 l = chunks16 l := chunksF_eq _ _ (Nat.le_refl _)

/-- `wblockEncRound` with the block encryption `R` as a parameter -/
def encRoundP (R : Bytes → Bytes) (ub : Nat) (len : Nat) (i : Nat) (data : Bytes) : Bytes :=
  let s := (chunks16 (slice data 0 (len - 1))).foldl xorSet zeroBlock
  let data := copyWithin data 16 len 0
  let data := setSlice data (len - 16) s
  let s := R s
  let data := modifySlice data (len - 32) (len - 16) (fun t => xorSet t s)
  let data := modifySlice data (len - 32) (len - 16) (fun t => xorSet t (usizeLE ub i))
  data

/-- `wblockDecRound` with the block encryption `R` as a parameter -/
def decRoundP (R : Bytes → Bytes) (ub : Nat) (len : Nat) (i : Nat) (data : Bytes) : Bytes :=
  let tail_pos := len - 16
  let s := slice data tail_pos len
  let data := copyWithin data 0 tail_pos 16
  let s_enc := R s
  let data := modifySlice data tail_pos len (fun t => xorSet t s_enc)
  let data := modifySlice data tail_pos len (fun t => xorSet t (usizeLE ub i))
  let r1 := ((chunks16 (slice data 0 (len - 1))).drop 1).foldl xorSet s
  setSlice data 0 r1

theorem wblockEncRound_eqP (ub : Nat) (key : Key) (len i : Nat) (data : Bytes) :
    wblockEncRound ub key len i data = encRoundP (rawBytes key) ub len i data := by
  simp only [wblockEncRound, encRoundP, chunks16_eq]

theorem wblockDecRound_eqP (ub : Nat) (key : Key) (len i : Nat) (data : Bytes) :
    wblockDecRound ub key len i data = decRoundP (rawBytes key) ub len i data := by
  simp only [wblockDecRound, decRoundP, chunks16_eq]

theorem encRoundP_congr (R1 R2 : Bytes → Bytes) (h : ∀ s, s.length = 16 → R1 s = R2 s) (ub len i : Nat) (data : Bytes) :
    encRoundP R1 ub len i data = encRoundP R2 ub len i data := by
  simp only [encRoundP]
  rw [h _ (by rw [foldl_xorSet_length]; simp [zeroBlock])]

theorem decRoundP_congr (R1 R2 : Bytes → Bytes) (h : ∀ s, s.length = 16 → R1 s = R2 s) (ub len i : Nat) (data : Bytes)
    (hl : data.length = len) (h16 : 16 ≤ len) :
    decRoundP R1 ub len i data = decRoundP R2 ub len i data := by
  simp only [decRoundP]
  rw [h _ (by simp only [slice, List.length_drop, List.length_take]; omega)]

theorem foldl_congr_inv {α ι : Type} (P : α → Prop) (f g : ι → α → α) (l : List ι)
    (hP : ∀ i s, P s → P (f i s)) (h : ∀ i s, P s → f i s = g i s) (s : α) (hs : P s) :
    l.foldl (fun s i => f i s) s = l.foldl (fun s i => g i s) s := by
  induction l generalizing s with
  | nil => rfl
  | cons i l ih =>
    simp only [List.foldl_cons]
    rw [← h i s hs]
    exact ih _ (hP i s hs)

/-- `belt_wblock_enc` of the model with any block encryption that agrees with `rawBytes key` on 16-byte strings -/
theorem wblockEnc_eqP (R : Bytes → Bytes) (key : Key) (hR : ∀ s, s.length = 16 → R s = rawBytes key s) (data : Bytes)
    (n : Nat) (hn : data.length = n) (h : 32 ≤ n) :
    wblockEnc data key = (.ok, forRange 1 (2 * ((n + 15) / 16)) (encRoundP R 8 n) data) := by
  subst hn
  unfold wblockEnc wblockEncU
  rw [if_neg (by omega)]
  simp only [forRange]
  congr 1
  exact foldl_congr_inv (fun s : Bytes => s.length = data.length) _ _ _
    (fun i s hs => wblockEncRound_length 8 key _ i s hs h)
    (fun i s hs => by rw [wblockEncRound_eqP]; exact encRoundP_congr _ _ (fun s hs => (hR s hs).symm) _ _ _ _) data rfl

theorem wblockDec_eqP (R : Bytes → Bytes) (key : Key) (hR : ∀ s, s.length = 16 → R s = rawBytes key s) (data : Bytes)
    (n : Nat) (hn : data.length = n) (h : 32 ≤ n) :
    wblockDec data key = (.ok, forRangeRev 1 (2 * ((n + 15) / 16)) (decRoundP R 8 n) data) := by
  subst hn
  unfold wblockDec wblockDecU
  rw [if_neg (by omega)]
  simp only [forRangeRev]
  congr 1
  exact foldl_congr_inv (fun s : Bytes => s.length = data.length) _ _ _
    (fun i s hs => wblockDecRound_length 8 key _ i s hs h)
    (fun i s hs => by
      rw [wblockDecRound_eqP]
      exact decRoundP_congr _ _ (fun s hs => (hR s hs).symm) _ _ _ _ hs (by omega)) data rfl

/-! ### (2) the regenerated block encryption on words -/

/-- the regenerated `beltblock_encrypt_block` between the four word loads and the result expression -/
def coreW (self_key0 self_key1 self_key2 self_key3 self_key4 self_key5 self_key6 self_key7 a b c d : BitVec 32) : BitVec 32 × BitVec 32 × BitVec 32 × BitVec 32 :=
  let u := a + self_key0
  let g5_r := (((BC.Gen.tblAt BC.Gen.belt_block_H29 (((u >>> 24) &&& 0xff#32).setWidth 64).toNat 32) ^^^ (BC.Gen.tblAt BC.Gen.belt_block_H21 (((u >>> 16) &&& 0xff#32).setWidth 64).toNat 32)) ^^^ (BC.Gen.tblAt BC.Gen.belt_block_H13 (((u >>> 8) &&& 0xff#32).setWidth 64).toNat 32)) ^^^ (BC.Gen.tblAt BC.Gen.belt_block_H5 ((u &&& 0xff#32).setWidth 64).toNat 32)
  let b_1 := b ^^^ g5_r
  let u_1 := d + self_key1
  let g21_r := (((BC.Gen.tblAt BC.Gen.belt_block_H13 (((u_1 >>> 24) &&& 0xff#32).setWidth 64).toNat 32) ^^^ (BC.Gen.tblAt BC.Gen.belt_block_H5 (((u_1 >>> 16) &&& 0xff#32).setWidth 64).toNat 32)) ^^^ (BC.Gen.tblAt BC.Gen.belt_block_H29 (((u_1 >>> 8) &&& 0xff#32).setWidth 64).toNat 32)) ^^^ (BC.Gen.tblAt BC.Gen.belt_block_H21 ((u_1 &&& 0xff#32).setWidth 64).toNat 32)
  let c_1 := c ^^^ g21_r
  let u_2 := b_1 + self_key2
  let g13_r := (((BC.Gen.tblAt BC.Gen.belt_block_H5 (((u_2 >>> 24) &&& 0xff#32).setWidth 64).toNat 32) ^^^ (BC.Gen.tblAt BC.Gen.belt_block_H29 (((u_2 >>> 16) &&& 0xff#32).setWidth 64).toNat 32)) ^^^ (BC.Gen.tblAt BC.Gen.belt_block_H21 (((u_2 >>> 8) &&& 0xff#32).setWidth 64).toNat 32)) ^^^ (BC.Gen.tblAt BC.Gen.belt_block_H13 ((u_2 &&& 0xff#32).setWidth 64).toNat 32)
  let a_1 := a - g13_r
  let u_3 := (b_1 + c_1) + self_key3
  let g21_r_1 := (((BC.Gen.tblAt BC.Gen.belt_block_H13 (((u_3 >>> 24) &&& 0xff#32).setWidth 64).toNat 32) ^^^ (BC.Gen.tblAt BC.Gen.belt_block_H5 (((u_3 >>> 16) &&& 0xff#32).setWidth 64).toNat 32)) ^^^ (BC.Gen.tblAt BC.Gen.belt_block_H29 (((u_3 >>> 8) &&& 0xff#32).setWidth 64).toNat 32)) ^^^ (BC.Gen.tblAt BC.Gen.belt_block_H21 ((u_3 &&& 0xff#32).setWidth 64).toNat 32)
  let e := g21_r_1 ^^^ 0x1#32
  let b_2 := b_1 + e
  let c_2 := c_1 - e
  let u_4 := c_2 + self_key4
  let g13_r_1 := (((BC.Gen.tblAt BC.Gen.belt_block_H5 (((u_4 >>> 24) &&& 0xff#32).setWidth 64).toNat 32) ^^^ (BC.Gen.tblAt BC.Gen.belt_block_H29 (((u_4 >>> 16) &&& 0xff#32).setWidth 64).toNat 32)) ^^^ (BC.Gen.tblAt BC.Gen.belt_block_H21 (((u_4 >>> 8) &&& 0xff#32).setWidth 64).toNat 32)) ^^^ (BC.Gen.tblAt BC.Gen.belt_block_H13 ((u_4 &&& 0xff#32).setWidth 64).toNat 32)
  let d_1 := d + g13_r_1
  let u_5 := a_1 + self_key5
  let g21_r_2 := (((BC.Gen.tblAt BC.Gen.belt_block_H13 (((u_5 >>> 24) &&& 0xff#32).setWidth 64).toNat 32) ^^^ (BC.Gen.tblAt BC.Gen.belt_block_H5 (((u_5 >>> 16) &&& 0xff#32).setWidth 64).toNat 32)) ^^^ (BC.Gen.tblAt BC.Gen.belt_block_H29 (((u_5 >>> 8) &&& 0xff#32).setWidth 64).toNat 32)) ^^^ (BC.Gen.tblAt BC.Gen.belt_block_H21 ((u_5 &&& 0xff#32).setWidth 64).toNat 32)
  let b_3 := b_2 ^^^ g21_r_2
  let u_6 := d_1 + self_key6
  let g5_r_1 := (((BC.Gen.tblAt BC.Gen.belt_block_H29 (((u_6 >>> 24) &&& 0xff#32).setWidth 64).toNat 32) ^^^ (BC.Gen.tblAt BC.Gen.belt_block_H21 (((u_6 >>> 16) &&& 0xff#32).setWidth 64).toNat 32)) ^^^ (BC.Gen.tblAt BC.Gen.belt_block_H13 (((u_6 >>> 8) &&& 0xff#32).setWidth 64).toNat 32)) ^^^ (BC.Gen.tblAt BC.Gen.belt_block_H5 ((u_6 &&& 0xff#32).setWidth 64).toNat 32)
  let c_3 := c_2 ^^^ g5_r_1
  let u_7 := b_3 + self_key7
  let g5_r_2 := (((BC.Gen.tblAt BC.Gen.belt_block_H29 (((u_7 >>> 24) &&& 0xff#32).setWidth 64).toNat 32) ^^^ (BC.Gen.tblAt BC.Gen.belt_block_H21 (((u_7 >>> 16) &&& 0xff#32).setWidth 64).toNat 32)) ^^^ (BC.Gen.tblAt BC.Gen.belt_block_H13 (((u_7 >>> 8) &&& 0xff#32).setWidth 64).toNat 32)) ^^^ (BC.Gen.tblAt BC.Gen.belt_block_H5 ((u_7 &&& 0xff#32).setWidth 64).toNat 32)
  let b_4 := d_1 ^^^ g5_r_2
  let u_8 := c_3 + self_key0
  let g21_r_3 := (((BC.Gen.tblAt BC.Gen.belt_block_H13 (((u_8 >>> 24) &&& 0xff#32).setWidth 64).toNat 32) ^^^ (BC.Gen.tblAt BC.Gen.belt_block_H5 (((u_8 >>> 16) &&& 0xff#32).setWidth 64).toNat 32)) ^^^ (BC.Gen.tblAt BC.Gen.belt_block_H29 (((u_8 >>> 8) &&& 0xff#32).setWidth 64).toNat 32)) ^^^ (BC.Gen.tblAt BC.Gen.belt_block_H21 ((u_8 &&& 0xff#32).setWidth 64).toNat 32)
  let c_4 := a_1 ^^^ g21_r_3
  let u_9 := b_4 + self_key1
  let g13_r_2 := (((BC.Gen.tblAt BC.Gen.belt_block_H5 (((u_9 >>> 24) &&& 0xff#32).setWidth 64).toNat 32) ^^^ (BC.Gen.tblAt BC.Gen.belt_block_H29 (((u_9 >>> 16) &&& 0xff#32).setWidth 64).toNat 32)) ^^^ (BC.Gen.tblAt BC.Gen.belt_block_H21 (((u_9 >>> 8) &&& 0xff#32).setWidth 64).toNat 32)) ^^^ (BC.Gen.tblAt BC.Gen.belt_block_H13 ((u_9 &&& 0xff#32).setWidth 64).toNat 32)
  let a_2 := b_3 - g13_r_2
  let u_10 := (b_4 + c_4) + self_key2
  let g21_r_4 := (((BC.Gen.tblAt BC.Gen.belt_block_H13 (((u_10 >>> 24) &&& 0xff#32).setWidth 64).toNat 32) ^^^ (BC.Gen.tblAt BC.Gen.belt_block_H5 (((u_10 >>> 16) &&& 0xff#32).setWidth 64).toNat 32)) ^^^ (BC.Gen.tblAt BC.Gen.belt_block_H29 (((u_10 >>> 8) &&& 0xff#32).setWidth 64).toNat 32)) ^^^ (BC.Gen.tblAt BC.Gen.belt_block_H21 ((u_10 &&& 0xff#32).setWidth 64).toNat 32)
  let e_1 := g21_r_4 ^^^ 0x2#32
  let b_5 := b_4 + e_1
  let c_5 := c_4 - e_1
  let u_11 := c_5 + self_key3
  let g13_r_3 := (((BC.Gen.tblAt BC.Gen.belt_block_H5 (((u_11 >>> 24) &&& 0xff#32).setWidth 64).toNat 32) ^^^ (BC.Gen.tblAt BC.Gen.belt_block_H29 (((u_11 >>> 16) &&& 0xff#32).setWidth 64).toNat 32)) ^^^ (BC.Gen.tblAt BC.Gen.belt_block_H21 (((u_11 >>> 8) &&& 0xff#32).setWidth 64).toNat 32)) ^^^ (BC.Gen.tblAt BC.Gen.belt_block_H13 ((u_11 &&& 0xff#32).setWidth 64).toNat 32)
  let d_2 := c_3 + g13_r_3
  let u_12 := a_2 + self_key4
  let g21_r_5 := (((BC.Gen.tblAt BC.Gen.belt_block_H13 (((u_12 >>> 24) &&& 0xff#32).setWidth 64).toNat 32) ^^^ (BC.Gen.tblAt BC.Gen.belt_block_H5 (((u_12 >>> 16) &&& 0xff#32).setWidth 64).toNat 32)) ^^^ (BC.Gen.tblAt BC.Gen.belt_block_H29 (((u_12 >>> 8) &&& 0xff#32).setWidth 64).toNat 32)) ^^^ (BC.Gen.tblAt BC.Gen.belt_block_H21 ((u_12 &&& 0xff#32).setWidth 64).toNat 32)
  let b_6 := b_5 ^^^ g21_r_5
  let u_13 := d_2 + self_key5
  let g5_r_3 := (((BC.Gen.tblAt BC.Gen.belt_block_H29 (((u_13 >>> 24) &&& 0xff#32).setWidth 64).toNat 32) ^^^ (BC.Gen.tblAt BC.Gen.belt_block_H21 (((u_13 >>> 16) &&& 0xff#32).setWidth 64).toNat 32)) ^^^ (BC.Gen.tblAt BC.Gen.belt_block_H13 (((u_13 >>> 8) &&& 0xff#32).setWidth 64).toNat 32)) ^^^ (BC.Gen.tblAt BC.Gen.belt_block_H5 ((u_13 &&& 0xff#32).setWidth 64).toNat 32)
  let c_6 := c_5 ^^^ g5_r_3
  let u_14 := b_6 + self_key6
  let g5_r_4 := (((BC.Gen.tblAt BC.Gen.belt_block_H29 (((u_14 >>> 24) &&& 0xff#32).setWidth 64).toNat 32) ^^^ (BC.Gen.tblAt BC.Gen.belt_block_H21 (((u_14 >>> 16) &&& 0xff#32).setWidth 64).toNat 32)) ^^^ (BC.Gen.tblAt BC.Gen.belt_block_H13 (((u_14 >>> 8) &&& 0xff#32).setWidth 64).toNat 32)) ^^^ (BC.Gen.tblAt BC.Gen.belt_block_H5 ((u_14 &&& 0xff#32).setWidth 64).toNat 32)
  let b_7 := d_2 ^^^ g5_r_4
  let u_15 := c_6 + self_key7
  let g21_r_6 := (((BC.Gen.tblAt BC.Gen.belt_block_H13 (((u_15 >>> 24) &&& 0xff#32).setWidth 64).toNat 32) ^^^ (BC.Gen.tblAt BC.Gen.belt_block_H5 (((u_15 >>> 16) &&& 0xff#32).setWidth 64).toNat 32)) ^^^ (BC.Gen.tblAt BC.Gen.belt_block_H29 (((u_15 >>> 8) &&& 0xff#32).setWidth 64).toNat 32)) ^^^ (BC.Gen.tblAt BC.Gen.belt_block_H21 ((u_15 &&& 0xff#32).setWidth 64).toNat 32)
  let c_7 := a_2 ^^^ g21_r_6
  let u_16 := b_7 + self_key0
  let g13_r_4 := (((BC.Gen.tblAt BC.Gen.belt_block_H5 (((u_16 >>> 24) &&& 0xff#32).setWidth 64).toNat 32) ^^^ (BC.Gen.tblAt BC.Gen.belt_block_H29 (((u_16 >>> 16) &&& 0xff#32).setWidth 64).toNat 32)) ^^^ (BC.Gen.tblAt BC.Gen.belt_block_H21 (((u_16 >>> 8) &&& 0xff#32).setWidth 64).toNat 32)) ^^^ (BC.Gen.tblAt BC.Gen.belt_block_H13 ((u_16 &&& 0xff#32).setWidth 64).toNat 32)
  let a_3 := b_6 - g13_r_4
  let u_17 := (b_7 + c_7) + self_key1
  let g21_r_7 := (((BC.Gen.tblAt BC.Gen.belt_block_H13 (((u_17 >>> 24) &&& 0xff#32).setWidth 64).toNat 32) ^^^ (BC.Gen.tblAt BC.Gen.belt_block_H5 (((u_17 >>> 16) &&& 0xff#32).setWidth 64).toNat 32)) ^^^ (BC.Gen.tblAt BC.Gen.belt_block_H29 (((u_17 >>> 8) &&& 0xff#32).setWidth 64).toNat 32)) ^^^ (BC.Gen.tblAt BC.Gen.belt_block_H21 ((u_17 &&& 0xff#32).setWidth 64).toNat 32)
  let e_2 := g21_r_7 ^^^ 0x3#32
  let b_8 := b_7 + e_2
  let c_8 := c_7 - e_2
  let u_18 := c_8 + self_key2
  let g13_r_5 := (((BC.Gen.tblAt BC.Gen.belt_block_H5 (((u_18 >>> 24) &&& 0xff#32).setWidth 64).toNat 32) ^^^ (BC.Gen.tblAt BC.Gen.belt_block_H29 (((u_18 >>> 16) &&& 0xff#32).setWidth 64).toNat 32)) ^^^ (BC.Gen.tblAt BC.Gen.belt_block_H21 (((u_18 >>> 8) &&& 0xff#32).setWidth 64).toNat 32)) ^^^ (BC.Gen.tblAt BC.Gen.belt_block_H13 ((u_18 &&& 0xff#32).setWidth 64).toNat 32)
  let d_3 := c_6 + g13_r_5
  let u_19 := a_3 + self_key3
  let g21_r_8 := (((BC.Gen.tblAt BC.Gen.belt_block_H13 (((u_19 >>> 24) &&& 0xff#32).setWidth 64).toNat 32) ^^^ (BC.Gen.tblAt BC.Gen.belt_block_H5 (((u_19 >>> 16) &&& 0xff#32).setWidth 64).toNat 32)) ^^^ (BC.Gen.tblAt BC.Gen.belt_block_H29 (((u_19 >>> 8) &&& 0xff#32).setWidth 64).toNat 32)) ^^^ (BC.Gen.tblAt BC.Gen.belt_block_H21 ((u_19 &&& 0xff#32).setWidth 64).toNat 32)
  let b_9 := b_8 ^^^ g21_r_8
  let u_20 := d_3 + self_key4
  let g5_r_5 := (((BC.Gen.tblAt BC.Gen.belt_block_H29 (((u_20 >>> 24) &&& 0xff#32).setWidth 64).toNat 32) ^^^ (BC.Gen.tblAt BC.Gen.belt_block_H21 (((u_20 >>> 16) &&& 0xff#32).setWidth 64).toNat 32)) ^^^ (BC.Gen.tblAt BC.Gen.belt_block_H13 (((u_20 >>> 8) &&& 0xff#32).setWidth 64).toNat 32)) ^^^ (BC.Gen.tblAt BC.Gen.belt_block_H5 ((u_20 &&& 0xff#32).setWidth 64).toNat 32)
  let c_9 := c_8 ^^^ g5_r_5
  let u_21 := b_9 + self_key5
  let g5_r_6 := (((BC.Gen.tblAt BC.Gen.belt_block_H29 (((u_21 >>> 24) &&& 0xff#32).setWidth 64).toNat 32) ^^^ (BC.Gen.tblAt BC.Gen.belt_block_H21 (((u_21 >>> 16) &&& 0xff#32).setWidth 64).toNat 32)) ^^^ (BC.Gen.tblAt BC.Gen.belt_block_H13 (((u_21 >>> 8) &&& 0xff#32).setWidth 64).toNat 32)) ^^^ (BC.Gen.tblAt BC.Gen.belt_block_H5 ((u_21 &&& 0xff#32).setWidth 64).toNat 32)
  let b_10 := d_3 ^^^ g5_r_6
  let u_22 := c_9 + self_key6
  let g21_r_9 := (((BC.Gen.tblAt BC.Gen.belt_block_H13 (((u_22 >>> 24) &&& 0xff#32).setWidth 64).toNat 32) ^^^ (BC.Gen.tblAt BC.Gen.belt_block_H5 (((u_22 >>> 16) &&& 0xff#32).setWidth 64).toNat 32)) ^^^ (BC.Gen.tblAt BC.Gen.belt_block_H29 (((u_22 >>> 8) &&& 0xff#32).setWidth 64).toNat 32)) ^^^ (BC.Gen.tblAt BC.Gen.belt_block_H21 ((u_22 &&& 0xff#32).setWidth 64).toNat 32)
  let c_10 := a_3 ^^^ g21_r_9
  let u_23 := b_10 + self_key7
  let g13_r_6 := (((BC.Gen.tblAt BC.Gen.belt_block_H5 (((u_23 >>> 24) &&& 0xff#32).setWidth 64).toNat 32) ^^^ (BC.Gen.tblAt BC.Gen.belt_block_H29 (((u_23 >>> 16) &&& 0xff#32).setWidth 64).toNat 32)) ^^^ (BC.Gen.tblAt BC.Gen.belt_block_H21 (((u_23 >>> 8) &&& 0xff#32).setWidth 64).toNat 32)) ^^^ (BC.Gen.tblAt BC.Gen.belt_block_H13 ((u_23 &&& 0xff#32).setWidth 64).toNat 32)
  let a_4 := b_9 - g13_r_6
  let u_24 := (b_10 + c_10) + self_key0
  let g21_r_10 := (((BC.Gen.tblAt BC.Gen.belt_block_H13 (((u_24 >>> 24) &&& 0xff#32).setWidth 64).toNat 32) ^^^ (BC.Gen.tblAt BC.Gen.belt_block_H5 (((u_24 >>> 16) &&& 0xff#32).setWidth 64).toNat 32)) ^^^ (BC.Gen.tblAt BC.Gen.belt_block_H29 (((u_24 >>> 8) &&& 0xff#32).setWidth 64).toNat 32)) ^^^ (BC.Gen.tblAt BC.Gen.belt_block_H21 ((u_24 &&& 0xff#32).setWidth 64).toNat 32)
  let e_3 := g21_r_10 ^^^ 0x4#32
  let b_11 := b_10 + e_3
  let c_11 := c_10 - e_3
  let u_25 := c_11 + self_key1
  let g13_r_7 := (((BC.Gen.tblAt BC.Gen.belt_block_H5 (((u_25 >>> 24) &&& 0xff#32).setWidth 64).toNat 32) ^^^ (BC.Gen.tblAt BC.Gen.belt_block_H29 (((u_25 >>> 16) &&& 0xff#32).setWidth 64).toNat 32)) ^^^ (BC.Gen.tblAt BC.Gen.belt_block_H21 (((u_25 >>> 8) &&& 0xff#32).setWidth 64).toNat 32)) ^^^ (BC.Gen.tblAt BC.Gen.belt_block_H13 ((u_25 &&& 0xff#32).setWidth 64).toNat 32)
  let d_4 := c_9 + g13_r_7
  let u_26 := a_4 + self_key2
  let g21_r_11 := (((BC.Gen.tblAt BC.Gen.belt_block_H13 (((u_26 >>> 24) &&& 0xff#32).setWidth 64).toNat 32) ^^^ (BC.Gen.tblAt BC.Gen.belt_block_H5 (((u_26 >>> 16) &&& 0xff#32).setWidth 64).toNat 32)) ^^^ (BC.Gen.tblAt BC.Gen.belt_block_H29 (((u_26 >>> 8) &&& 0xff#32).setWidth 64).toNat 32)) ^^^ (BC.Gen.tblAt BC.Gen.belt_block_H21 ((u_26 &&& 0xff#32).setWidth 64).toNat 32)
  let b_12 := b_11 ^^^ g21_r_11
  let u_27 := d_4 + self_key3
  let g5_r_7 := (((BC.Gen.tblAt BC.Gen.belt_block_H29 (((u_27 >>> 24) &&& 0xff#32).setWidth 64).toNat 32) ^^^ (BC.Gen.tblAt BC.Gen.belt_block_H21 (((u_27 >>> 16) &&& 0xff#32).setWidth 64).toNat 32)) ^^^ (BC.Gen.tblAt BC.Gen.belt_block_H13 (((u_27 >>> 8) &&& 0xff#32).setWidth 64).toNat 32)) ^^^ (BC.Gen.tblAt BC.Gen.belt_block_H5 ((u_27 &&& 0xff#32).setWidth 64).toNat 32)
  let c_12 := c_11 ^^^ g5_r_7
  let u_28 := b_12 + self_key4
  let g5_r_8 := (((BC.Gen.tblAt BC.Gen.belt_block_H29 (((u_28 >>> 24) &&& 0xff#32).setWidth 64).toNat 32) ^^^ (BC.Gen.tblAt BC.Gen.belt_block_H21 (((u_28 >>> 16) &&& 0xff#32).setWidth 64).toNat 32)) ^^^ (BC.Gen.tblAt BC.Gen.belt_block_H13 (((u_28 >>> 8) &&& 0xff#32).setWidth 64).toNat 32)) ^^^ (BC.Gen.tblAt BC.Gen.belt_block_H5 ((u_28 &&& 0xff#32).setWidth 64).toNat 32)
  let b_13 := d_4 ^^^ g5_r_8
  let u_29 := c_12 + self_key5
  let g21_r_12 := (((BC.Gen.tblAt BC.Gen.belt_block_H13 (((u_29 >>> 24) &&& 0xff#32).setWidth 64).toNat 32) ^^^ (BC.Gen.tblAt BC.Gen.belt_block_H5 (((u_29 >>> 16) &&& 0xff#32).setWidth 64).toNat 32)) ^^^ (BC.Gen.tblAt BC.Gen.belt_block_H29 (((u_29 >>> 8) &&& 0xff#32).setWidth 64).toNat 32)) ^^^ (BC.Gen.tblAt BC.Gen.belt_block_H21 ((u_29 &&& 0xff#32).setWidth 64).toNat 32)
  let c_13 := a_4 ^^^ g21_r_12
  let u_30 := b_13 + self_key6
  let g13_r_8 := (((BC.Gen.tblAt BC.Gen.belt_block_H5 (((u_30 >>> 24) &&& 0xff#32).setWidth 64).toNat 32) ^^^ (BC.Gen.tblAt BC.Gen.belt_block_H29 (((u_30 >>> 16) &&& 0xff#32).setWidth 64).toNat 32)) ^^^ (BC.Gen.tblAt BC.Gen.belt_block_H21 (((u_30 >>> 8) &&& 0xff#32).setWidth 64).toNat 32)) ^^^ (BC.Gen.tblAt BC.Gen.belt_block_H13 ((u_30 &&& 0xff#32).setWidth 64).toNat 32)
  let a_5 := b_12 - g13_r_8
  let u_31 := (b_13 + c_13) + self_key7
  let g21_r_13 := (((BC.Gen.tblAt BC.Gen.belt_block_H13 (((u_31 >>> 24) &&& 0xff#32).setWidth 64).toNat 32) ^^^ (BC.Gen.tblAt BC.Gen.belt_block_H5 (((u_31 >>> 16) &&& 0xff#32).setWidth 64).toNat 32)) ^^^ (BC.Gen.tblAt BC.Gen.belt_block_H29 (((u_31 >>> 8) &&& 0xff#32).setWidth 64).toNat 32)) ^^^ (BC.Gen.tblAt BC.Gen.belt_block_H21 ((u_31 &&& 0xff#32).setWidth 64).toNat 32)
  let e_4 := g21_r_13 ^^^ 0x5#32
  let b_14 := b_13 + e_4
  let c_14 := c_13 - e_4
  let u_32 := c_14 + self_key0
  let g13_r_9 := (((BC.Gen.tblAt BC.Gen.belt_block_H5 (((u_32 >>> 24) &&& 0xff#32).setWidth 64).toNat 32) ^^^ (BC.Gen.tblAt BC.Gen.belt_block_H29 (((u_32 >>> 16) &&& 0xff#32).setWidth 64).toNat 32)) ^^^ (BC.Gen.tblAt BC.Gen.belt_block_H21 (((u_32 >>> 8) &&& 0xff#32).setWidth 64).toNat 32)) ^^^ (BC.Gen.tblAt BC.Gen.belt_block_H13 ((u_32 &&& 0xff#32).setWidth 64).toNat 32)
  let d_5 := c_12 + g13_r_9
  let u_33 := a_5 + self_key1
  let g21_r_14 := (((BC.Gen.tblAt BC.Gen.belt_block_H13 (((u_33 >>> 24) &&& 0xff#32).setWidth 64).toNat 32) ^^^ (BC.Gen.tblAt BC.Gen.belt_block_H5 (((u_33 >>> 16) &&& 0xff#32).setWidth 64).toNat 32)) ^^^ (BC.Gen.tblAt BC.Gen.belt_block_H29 (((u_33 >>> 8) &&& 0xff#32).setWidth 64).toNat 32)) ^^^ (BC.Gen.tblAt BC.Gen.belt_block_H21 ((u_33 &&& 0xff#32).setWidth 64).toNat 32)
  let b_15 := b_14 ^^^ g21_r_14
  let u_34 := d_5 + self_key2
  let g5_r_9 := (((BC.Gen.tblAt BC.Gen.belt_block_H29 (((u_34 >>> 24) &&& 0xff#32).setWidth 64).toNat 32) ^^^ (BC.Gen.tblAt BC.Gen.belt_block_H21 (((u_34 >>> 16) &&& 0xff#32).setWidth 64).toNat 32)) ^^^ (BC.Gen.tblAt BC.Gen.belt_block_H13 (((u_34 >>> 8) &&& 0xff#32).setWidth 64).toNat 32)) ^^^ (BC.Gen.tblAt BC.Gen.belt_block_H5 ((u_34 &&& 0xff#32).setWidth 64).toNat 32)
  let c_15 := c_14 ^^^ g5_r_9
  let u_35 := b_15 + self_key3
  let g5_r_10 := (((BC.Gen.tblAt BC.Gen.belt_block_H29 (((u_35 >>> 24) &&& 0xff#32).setWidth 64).toNat 32) ^^^ (BC.Gen.tblAt BC.Gen.belt_block_H21 (((u_35 >>> 16) &&& 0xff#32).setWidth 64).toNat 32)) ^^^ (BC.Gen.tblAt BC.Gen.belt_block_H13 (((u_35 >>> 8) &&& 0xff#32).setWidth 64).toNat 32)) ^^^ (BC.Gen.tblAt BC.Gen.belt_block_H5 ((u_35 &&& 0xff#32).setWidth 64).toNat 32)
  let b_16 := d_5 ^^^ g5_r_10
  let u_36 := c_15 + self_key4
  let g21_r_15 := (((BC.Gen.tblAt BC.Gen.belt_block_H13 (((u_36 >>> 24) &&& 0xff#32).setWidth 64).toNat 32) ^^^ (BC.Gen.tblAt BC.Gen.belt_block_H5 (((u_36 >>> 16) &&& 0xff#32).setWidth 64).toNat 32)) ^^^ (BC.Gen.tblAt BC.Gen.belt_block_H29 (((u_36 >>> 8) &&& 0xff#32).setWidth 64).toNat 32)) ^^^ (BC.Gen.tblAt BC.Gen.belt_block_H21 ((u_36 &&& 0xff#32).setWidth 64).toNat 32)
  let c_16 := a_5 ^^^ g21_r_15
  let u_37 := b_16 + self_key5
  let g13_r_10 := (((BC.Gen.tblAt BC.Gen.belt_block_H5 (((u_37 >>> 24) &&& 0xff#32).setWidth 64).toNat 32) ^^^ (BC.Gen.tblAt BC.Gen.belt_block_H29 (((u_37 >>> 16) &&& 0xff#32).setWidth 64).toNat 32)) ^^^ (BC.Gen.tblAt BC.Gen.belt_block_H21 (((u_37 >>> 8) &&& 0xff#32).setWidth 64).toNat 32)) ^^^ (BC.Gen.tblAt BC.Gen.belt_block_H13 ((u_37 &&& 0xff#32).setWidth 64).toNat 32)
  let a_6 := b_15 - g13_r_10
  let u_38 := (b_16 + c_16) + self_key6
  let g21_r_16 := (((BC.Gen.tblAt BC.Gen.belt_block_H13 (((u_38 >>> 24) &&& 0xff#32).setWidth 64).toNat 32) ^^^ (BC.Gen.tblAt BC.Gen.belt_block_H5 (((u_38 >>> 16) &&& 0xff#32).setWidth 64).toNat 32)) ^^^ (BC.Gen.tblAt BC.Gen.belt_block_H29 (((u_38 >>> 8) &&& 0xff#32).setWidth 64).toNat 32)) ^^^ (BC.Gen.tblAt BC.Gen.belt_block_H21 ((u_38 &&& 0xff#32).setWidth 64).toNat 32)
  let e_5 := g21_r_16 ^^^ 0x6#32
  let b_17 := b_16 + e_5
  let c_17 := c_16 - e_5
  let u_39 := c_17 + self_key7
  let g13_r_11 := (((BC.Gen.tblAt BC.Gen.belt_block_H5 (((u_39 >>> 24) &&& 0xff#32).setWidth 64).toNat 32) ^^^ (BC.Gen.tblAt BC.Gen.belt_block_H29 (((u_39 >>> 16) &&& 0xff#32).setWidth 64).toNat 32)) ^^^ (BC.Gen.tblAt BC.Gen.belt_block_H21 (((u_39 >>> 8) &&& 0xff#32).setWidth 64).toNat 32)) ^^^ (BC.Gen.tblAt BC.Gen.belt_block_H13 ((u_39 &&& 0xff#32).setWidth 64).toNat 32)
  let d_6 := c_15 + g13_r_11
  let u_40 := a_6 + self_key0
  let g21_r_17 := (((BC.Gen.tblAt BC.Gen.belt_block_H13 (((u_40 >>> 24) &&& 0xff#32).setWidth 64).toNat 32) ^^^ (BC.Gen.tblAt BC.Gen.belt_block_H5 (((u_40 >>> 16) &&& 0xff#32).setWidth 64).toNat 32)) ^^^ (BC.Gen.tblAt BC.Gen.belt_block_H29 (((u_40 >>> 8) &&& 0xff#32).setWidth 64).toNat 32)) ^^^ (BC.Gen.tblAt BC.Gen.belt_block_H21 ((u_40 &&& 0xff#32).setWidth 64).toNat 32)
  let b_18 := b_17 ^^^ g21_r_17
  let u_41 := d_6 + self_key1
  let g5_r_11 := (((BC.Gen.tblAt BC.Gen.belt_block_H29 (((u_41 >>> 24) &&& 0xff#32).setWidth 64).toNat 32) ^^^ (BC.Gen.tblAt BC.Gen.belt_block_H21 (((u_41 >>> 16) &&& 0xff#32).setWidth 64).toNat 32)) ^^^ (BC.Gen.tblAt BC.Gen.belt_block_H13 (((u_41 >>> 8) &&& 0xff#32).setWidth 64).toNat 32)) ^^^ (BC.Gen.tblAt BC.Gen.belt_block_H5 ((u_41 &&& 0xff#32).setWidth 64).toNat 32)
  let c_18 := c_17 ^^^ g5_r_11
  let u_42 := b_18 + self_key2
  let g5_r_12 := (((BC.Gen.tblAt BC.Gen.belt_block_H29 (((u_42 >>> 24) &&& 0xff#32).setWidth 64).toNat 32) ^^^ (BC.Gen.tblAt BC.Gen.belt_block_H21 (((u_42 >>> 16) &&& 0xff#32).setWidth 64).toNat 32)) ^^^ (BC.Gen.tblAt BC.Gen.belt_block_H13 (((u_42 >>> 8) &&& 0xff#32).setWidth 64).toNat 32)) ^^^ (BC.Gen.tblAt BC.Gen.belt_block_H5 ((u_42 &&& 0xff#32).setWidth 64).toNat 32)
  let b_19 := d_6 ^^^ g5_r_12
  let u_43 := c_18 + self_key3
  let g21_r_18 := (((BC.Gen.tblAt BC.Gen.belt_block_H13 (((u_43 >>> 24) &&& 0xff#32).setWidth 64).toNat 32) ^^^ (BC.Gen.tblAt BC.Gen.belt_block_H5 (((u_43 >>> 16) &&& 0xff#32).setWidth 64).toNat 32)) ^^^ (BC.Gen.tblAt BC.Gen.belt_block_H29 (((u_43 >>> 8) &&& 0xff#32).setWidth 64).toNat 32)) ^^^ (BC.Gen.tblAt BC.Gen.belt_block_H21 ((u_43 &&& 0xff#32).setWidth 64).toNat 32)
  let c_19 := a_6 ^^^ g21_r_18
  let u_44 := b_19 + self_key4
  let g13_r_12 := (((BC.Gen.tblAt BC.Gen.belt_block_H5 (((u_44 >>> 24) &&& 0xff#32).setWidth 64).toNat 32) ^^^ (BC.Gen.tblAt BC.Gen.belt_block_H29 (((u_44 >>> 16) &&& 0xff#32).setWidth 64).toNat 32)) ^^^ (BC.Gen.tblAt BC.Gen.belt_block_H21 (((u_44 >>> 8) &&& 0xff#32).setWidth 64).toNat 32)) ^^^ (BC.Gen.tblAt BC.Gen.belt_block_H13 ((u_44 &&& 0xff#32).setWidth 64).toNat 32)
  let a_7 := b_18 - g13_r_12
  let u_45 := (b_19 + c_19) + self_key5
  let g21_r_19 := (((BC.Gen.tblAt BC.Gen.belt_block_H13 (((u_45 >>> 24) &&& 0xff#32).setWidth 64).toNat 32) ^^^ (BC.Gen.tblAt BC.Gen.belt_block_H5 (((u_45 >>> 16) &&& 0xff#32).setWidth 64).toNat 32)) ^^^ (BC.Gen.tblAt BC.Gen.belt_block_H29 (((u_45 >>> 8) &&& 0xff#32).setWidth 64).toNat 32)) ^^^ (BC.Gen.tblAt BC.Gen.belt_block_H21 ((u_45 &&& 0xff#32).setWidth 64).toNat 32)
  let e_6 := g21_r_19 ^^^ 0x7#32
  let b_20 := b_19 + e_6
  let c_20 := c_19 - e_6
  let u_46 := c_20 + self_key6
  let g13_r_13 := (((BC.Gen.tblAt BC.Gen.belt_block_H5 (((u_46 >>> 24) &&& 0xff#32).setWidth 64).toNat 32) ^^^ (BC.Gen.tblAt BC.Gen.belt_block_H29 (((u_46 >>> 16) &&& 0xff#32).setWidth 64).toNat 32)) ^^^ (BC.Gen.tblAt BC.Gen.belt_block_H21 (((u_46 >>> 8) &&& 0xff#32).setWidth 64).toNat 32)) ^^^ (BC.Gen.tblAt BC.Gen.belt_block_H13 ((u_46 &&& 0xff#32).setWidth 64).toNat 32)
  let d_7 := c_18 + g13_r_13
  let u_47 := a_7 + self_key7
  let g21_r_20 := (((BC.Gen.tblAt BC.Gen.belt_block_H13 (((u_47 >>> 24) &&& 0xff#32).setWidth 64).toNat 32) ^^^ (BC.Gen.tblAt BC.Gen.belt_block_H5 (((u_47 >>> 16) &&& 0xff#32).setWidth 64).toNat 32)) ^^^ (BC.Gen.tblAt BC.Gen.belt_block_H29 (((u_47 >>> 8) &&& 0xff#32).setWidth 64).toNat 32)) ^^^ (BC.Gen.tblAt BC.Gen.belt_block_H21 ((u_47 &&& 0xff#32).setWidth 64).toNat 32)
  let b_21 := b_20 ^^^ g21_r_20
  let u_48 := d_7 + self_key0
  let g5_r_13 := (((BC.Gen.tblAt BC.Gen.belt_block_H29 (((u_48 >>> 24) &&& 0xff#32).setWidth 64).toNat 32) ^^^ (BC.Gen.tblAt BC.Gen.belt_block_H21 (((u_48 >>> 16) &&& 0xff#32).setWidth 64).toNat 32)) ^^^ (BC.Gen.tblAt BC.Gen.belt_block_H13 (((u_48 >>> 8) &&& 0xff#32).setWidth 64).toNat 32)) ^^^ (BC.Gen.tblAt BC.Gen.belt_block_H5 ((u_48 &&& 0xff#32).setWidth 64).toNat 32)
  let c_21 := c_20 ^^^ g5_r_13
  let u_49 := b_21 + self_key1
  let g5_r_14 := (((BC.Gen.tblAt BC.Gen.belt_block_H29 (((u_49 >>> 24) &&& 0xff#32).setWidth 64).toNat 32) ^^^ (BC.Gen.tblAt BC.Gen.belt_block_H21 (((u_49 >>> 16) &&& 0xff#32).setWidth 64).toNat 32)) ^^^ (BC.Gen.tblAt BC.Gen.belt_block_H13 (((u_49 >>> 8) &&& 0xff#32).setWidth 64).toNat 32)) ^^^ (BC.Gen.tblAt BC.Gen.belt_block_H5 ((u_49 &&& 0xff#32).setWidth 64).toNat 32)
  let b_22 := d_7 ^^^ g5_r_14
  let u_50 := c_21 + self_key2
  let g21_r_21 := (((BC.Gen.tblAt BC.Gen.belt_block_H13 (((u_50 >>> 24) &&& 0xff#32).setWidth 64).toNat 32) ^^^ (BC.Gen.tblAt BC.Gen.belt_block_H5 (((u_50 >>> 16) &&& 0xff#32).setWidth 64).toNat 32)) ^^^ (BC.Gen.tblAt BC.Gen.belt_block_H29 (((u_50 >>> 8) &&& 0xff#32).setWidth 64).toNat 32)) ^^^ (BC.Gen.tblAt BC.Gen.belt_block_H21 ((u_50 &&& 0xff#32).setWidth 64).toNat 32)
  let c_22 := a_7 ^^^ g21_r_21
  let u_51 := b_22 + self_key3
  let g13_r_14 := (((BC.Gen.tblAt BC.Gen.belt_block_H5 (((u_51 >>> 24) &&& 0xff#32).setWidth 64).toNat 32) ^^^ (BC.Gen.tblAt BC.Gen.belt_block_H29 (((u_51 >>> 16) &&& 0xff#32).setWidth 64).toNat 32)) ^^^ (BC.Gen.tblAt BC.Gen.belt_block_H21 (((u_51 >>> 8) &&& 0xff#32).setWidth 64).toNat 32)) ^^^ (BC.Gen.tblAt BC.Gen.belt_block_H13 ((u_51 &&& 0xff#32).setWidth 64).toNat 32)
  let a_8 := b_21 - g13_r_14
  let u_52 := (b_22 + c_22) + self_key4
  let g21_r_22 := (((BC.Gen.tblAt BC.Gen.belt_block_H13 (((u_52 >>> 24) &&& 0xff#32).setWidth 64).toNat 32) ^^^ (BC.Gen.tblAt BC.Gen.belt_block_H5 (((u_52 >>> 16) &&& 0xff#32).setWidth 64).toNat 32)) ^^^ (BC.Gen.tblAt BC.Gen.belt_block_H29 (((u_52 >>> 8) &&& 0xff#32).setWidth 64).toNat 32)) ^^^ (BC.Gen.tblAt BC.Gen.belt_block_H21 ((u_52 &&& 0xff#32).setWidth 64).toNat 32)
  let e_7 := g21_r_22 ^^^ 0x8#32
  let b_23 := b_22 + e_7
  let c_23 := c_22 - e_7
  let u_53 := c_23 + self_key5
  let g13_r_15 := (((BC.Gen.tblAt BC.Gen.belt_block_H5 (((u_53 >>> 24) &&& 0xff#32).setWidth 64).toNat 32) ^^^ (BC.Gen.tblAt BC.Gen.belt_block_H29 (((u_53 >>> 16) &&& 0xff#32).setWidth 64).toNat 32)) ^^^ (BC.Gen.tblAt BC.Gen.belt_block_H21 (((u_53 >>> 8) &&& 0xff#32).setWidth 64).toNat 32)) ^^^ (BC.Gen.tblAt BC.Gen.belt_block_H13 ((u_53 &&& 0xff#32).setWidth 64).toNat 32)
  let d_8 := c_21 + g13_r_15
  let u_54 := a_8 + self_key6
  let g21_r_23 := (((BC.Gen.tblAt BC.Gen.belt_block_H13 (((u_54 >>> 24) &&& 0xff#32).setWidth 64).toNat 32) ^^^ (BC.Gen.tblAt BC.Gen.belt_block_H5 (((u_54 >>> 16) &&& 0xff#32).setWidth 64).toNat 32)) ^^^ (BC.Gen.tblAt BC.Gen.belt_block_H29 (((u_54 >>> 8) &&& 0xff#32).setWidth 64).toNat 32)) ^^^ (BC.Gen.tblAt BC.Gen.belt_block_H21 ((u_54 &&& 0xff#32).setWidth 64).toNat 32)
  let b_24 := b_23 ^^^ g21_r_23
  let u_55 := d_8 + self_key7
  let g5_r_15 := (((BC.Gen.tblAt BC.Gen.belt_block_H29 (((u_55 >>> 24) &&& 0xff#32).setWidth 64).toNat 32) ^^^ (BC.Gen.tblAt BC.Gen.belt_block_H21 (((u_55 >>> 16) &&& 0xff#32).setWidth 64).toNat 32)) ^^^ (BC.Gen.tblAt BC.Gen.belt_block_H13 (((u_55 >>> 8) &&& 0xff#32).setWidth 64).toNat 32)) ^^^ (BC.Gen.tblAt BC.Gen.belt_block_H5 ((u_55 &&& 0xff#32).setWidth 64).toNat 32)
  let c_24 := c_23 ^^^ g5_r_15
  (d_8, c_24, b_24, a_8)

def loadA (block : BitVec 128) : BitVec 32 := ((block.extractLsb' 96 8) ++ (block.extractLsb' 104 8) ++ (block.extractLsb' 112 8) ++ (block.extractLsb' 120 8))
def loadB (block : BitVec 128) : BitVec 32 := ((block.extractLsb' 64 8) ++ (block.extractLsb' 72 8) ++ (block.extractLsb' 80 8) ++ (block.extractLsb' 88 8))
def loadC (block : BitVec 128) : BitVec 32 := ((block.extractLsb' 32 8) ++ (block.extractLsb' 40 8) ++ (block.extractLsb' 48 8) ++ (block.extractLsb' 56 8))
def loadD (block : BitVec 128) : BitVec 32 := ((block.extractLsb' 0 8) ++ (block.extractLsb' 8 8) ++ (block.extractLsb' 16 8) ++ (block.extractLsb' 24 8))
def storeW (w : BitVec 32 × BitVec 32 × BitVec 32 × BitVec 32) : BitVec 128 :=
  match w with
  | (x0, x1, x2, x3) => (x0.extractLsb' 0 8) ++ (x0.extractLsb' 8 8) ++ (x0.extractLsb' 16 8) ++ (x0.extractLsb' 24 8) ++ (x1.extractLsb' 0 8) ++ (x1.extractLsb' 8 8) ++ (x1.extractLsb' 16 8) ++ (x1.extractLsb' 24 8) ++ (x2.extractLsb' 0 8) ++ (x2.extractLsb' 8 8) ++ (x2.extractLsb' 16 8) ++ (x2.extractLsb' 24 8) ++ (x3.extractLsb' 0 8) ++ (x3.extractLsb' 8 8) ++ (x3.extractLsb' 16 8) ++ (x3.extractLsb' 24 8)
/-- the 16 result bytes `from_u32` of the four words -/
def bytesW (w : BitVec 32 × BitVec 32 × BitVec 32 × BitVec 32) : Bytes :=
  match w with
  | (x0, x1, x2, x3) => [x0.extractLsb' 0 8, x0.extractLsb' 8 8, x0.extractLsb' 16 8, x0.extractLsb' 24 8, x1.extractLsb' 0 8, x1.extractLsb' 8 8, x1.extractLsb' 16 8, x1.extractLsb' 24 8, x2.extractLsb' 0 8, x2.extractLsb' 8 8, x2.extractLsb' 16 8, x2.extractLsb' 24 8, x3.extractLsb' 0 8, x3.extractLsb' 8 8, x3.extractLsb' 16 8, x3.extractLsb' 24 8]

/-- the copy `coreW` IS the regenerated block encryption (kernel check against `Gen/Cipher_Belt_block.lean`) -/
theorem block_eq_core (k0 k1 k2 k3 k4 k5 k6 k7 : BitVec 32) (block : BitVec 128) :
    beltblock_encrypt_block k0 k1 k2 k3 k4 k5 k6 k7 block = storeW (coreW k0 k1 k2 k3 k4 k5 k6 k7 (loadA block) (loadB block) (loadC block) (loadD block)) := by
  kernel_rfl

/-- the block encryption of the wide-block rounds: `to_u32` of the 16 bytes, `coreW`, `from_u32` -/
def RG (k0 k1 k2 k3 k4 k5 k6 k7 : BitVec 32) (s : Bytes) : Bytes :=
  bytesW (coreW k0 k1 k2 k3 k4 k5 k6 k7
    (s.getD 3 0 ++ s.getD 2 0 ++ s.getD 1 0 ++ s.getD 0 0) (s.getD 7 0 ++ s.getD 6 0 ++ s.getD 5 0 ++ s.getD 4 0)
    (s.getD 11 0 ++ s.getD 10 0 ++ s.getD 9 0 ++ s.getD 8 0) (s.getD 15 0 ++ s.getD 14 0 ++ s.getD 13 0 ++ s.getD 12 0))

theorem unpack16_lit (B : BitVec 128) : unpackBE 16 B = [(B >>> 120).setWidth 8, (B >>> 112).setWidth 8, (B >>> 104).setWidth 8, (B >>> 96).setWidth 8, (B >>> 88).setWidth 8, (B >>> 80).setWidth 8, (B >>> 72).setWidth 8, (B >>> 64).setWidth 8, (B >>> 56).setWidth 8, (B >>> 48).setWidth 8, (B >>> 40).setWidth 8, (B >>> 32).setWidth 8, (B >>> 24).setWidth 8, (B >>> 16).setWidth 8, (B >>> 8).setWidth 8, (B >>> 0).setWidth 8] := rfl

theorem bytesW_eq (w : BitVec 32 × BitVec 32 × BitVec 32 × BitVec 32) : unpackBE 16 (storeW w) = bytesW w := by
  obtain ⟨x0, x1, x2, x3⟩ := w
  rw [unpack16_lit]
  simp only [storeW, bytesW, List.cons.injEq, and_true]
  refine ⟨?_, ?_, ?_, ?_, ?_, ?_, ?_, ?_, ?_, ?_, ?_, ?_, ?_, ?_, ?_, ?_⟩ <;> bv_decide

theorem RG_unpack (k0 k1 k2 k3 k4 k5 k6 k7 : BitVec 32) (B : BitVec 128) :
    RG k0 k1 k2 k3 k4 k5 k6 k7 (unpackBE 16 B) = unpackBE 16 (beltblock_encrypt_block k0 k1 k2 k3 k4 k5 k6 k7 B) := by
  rw [block_eq_core, bytesW_eq, RG, unpack16_lit]
  simp only [List.getD_cons_zero, List.getD_cons_succ]
  have ha : ((B >>> 96).setWidth 8 ++ (B >>> 104).setWidth 8 ++ (B >>> 112).setWidth 8 ++ (B >>> 120).setWidth 8 : BitVec 32) = loadA B := by
    unfold loadA; bv_decide
  have hb : ((B >>> 64).setWidth 8 ++ (B >>> 72).setWidth 8 ++ (B >>> 80).setWidth 8 ++ (B >>> 88).setWidth 8 : BitVec 32) = loadB B := by
    unfold loadB; bv_decide
  have hc : ((B >>> 32).setWidth 8 ++ (B >>> 40).setWidth 8 ++ (B >>> 48).setWidth 8 ++ (B >>> 56).setWidth 8 : BitVec 32) = loadC B := by
    unfold loadC; bv_decide
  have hd : ((B >>> 0).setWidth 8 ++ (B >>> 8).setWidth 8 ++ (B >>> 16).setWidth 8 ++ (B >>> 24).setWidth 8 : BitVec 32) = loadD B := by
    unfold loadD; bv_decide
  rw [ha, hb, hc, hd]

/-- `RG` is the model's block encryption on 16-byte strings -/
theorem RG_eq (k0 k1 k2 k3 k4 k5 k6 k7 : BitVec 32) (s : Bytes) (hs : s.length = 16) :
    RG k0 k1 k2 k3 k4 k5 k6 k7 s = rawBytes #v[k0, k1, k2, k3, k4, k5, k6, k7] s := by
  have e := BC.AesNi.unpack_pack16 s hs
  rw [rawBytes]
  show _ = unpackBE 16 (BC.Belt.encrypt ⟨BC.GenCipher.Belt.mkKey k0 k1 k2 k3 k4 k5 k6 k7⟩ (packBE 16 s))
  rw [← BC.GenCipher.Belt.encrypt_block_eq', ← RG_unpack, e]

/-! ### packing a byte list of known length -/

theorem list_eq_getD (X : Bytes) (n : Nat) (h : X.length = n) : X = (List.range n).map (fun i => X.getD i 0) := by
  apply List.ext_getElem
  · simp [h]
  · intro i h1 h2
    simp only [List.getElem_map, List.getElem_range, List.getD_eq_getElem?_getD]
    rw [List.getElem?_eq_getElem h1]; rfl

/-! ### (3) n = 32 (4 rounds) -/

def packL_32 (X : Bytes) : BitVec 256 := X.getD 0 0 ++ X.getD 1 0 ++ X.getD 2 0 ++ X.getD 3 0 ++ X.getD 4 0 ++ X.getD 5 0 ++ X.getD 6 0 ++ X.getD 7 0 ++ X.getD 8 0 ++ X.getD 9 0 ++ X.getD 10 0 ++ X.getD 11 0 ++ X.getD 12 0 ++ X.getD 13 0 ++ X.getD 14 0 ++ X.getD 15 0 ++ X.getD 16 0 ++ X.getD 17 0 ++ X.getD 18 0 ++ X.getD 19 0 ++ X.getD 20 0 ++ X.getD 21 0 ++ X.getD 22 0 ++ X.getD 23 0 ++ X.getD 24 0 ++ X.getD 25 0 ++ X.getD 26 0 ++ X.getD 27 0 ++ X.getD 28 0 ++ X.getD 29 0 ++ X.getD 30 0 ++ X.getD 31 0

theorem unpack32_lit (B : BitVec 256) : unpackBE 32 B = [(B >>> 248).setWidth 8, (B >>> 240).setWidth 8, (B >>> 232).setWidth 8, (B >>> 224).setWidth 8, (B >>> 216).setWidth 8, (B >>> 208).setWidth 8, (B >>> 200).setWidth 8, (B >>> 192).setWidth 8, (B >>> 184).setWidth 8, (B >>> 176).setWidth 8, (B >>> 168).setWidth 8, (B >>> 160).setWidth 8, (B >>> 152).setWidth 8, (B >>> 144).setWidth 8, (B >>> 136).setWidth 8, (B >>> 128).setWidth 8, (B >>> 120).setWidth 8, (B >>> 112).setWidth 8, (B >>> 104).setWidth 8, (B >>> 96).setWidth 8, (B >>> 88).setWidth 8, (B >>> 80).setWidth 8, (B >>> 72).setWidth 8, (B >>> 64).setWidth 8, (B >>> 56).setWidth 8, (B >>> 48).setWidth 8, (B >>> 40).setWidth 8, (B >>> 32).setWidth 8, (B >>> 24).setWidth 8, (B >>> 16).setWidth 8, (B >>> 8).setWidth 8, (B >>> 0).setWidth 8] := rfl

theorem unpack_packL_32 (X : Bytes) (h : X.length = 32) : unpackBE 32 (packL_32 X) = X := by
  have e : ∀ b0 b1 b2 b3 b4 b5 b6 b7 b8 b9 b10 b11 b12 b13 b14 b15 b16 b17 b18 b19 b20 b21 b22 b23 b24 b25 b26 b27 b28 b29 b30 b31 : BitVec 8, unpackBE 32 (b0 ++ b1 ++ b2 ++ b3 ++ b4 ++ b5 ++ b6 ++ b7 ++ b8 ++ b9 ++ b10 ++ b11 ++ b12 ++ b13 ++ b14 ++ b15 ++ b16 ++ b17 ++ b18 ++ b19 ++ b20 ++ b21 ++ b22 ++ b23 ++ b24 ++ b25 ++ b26 ++ b27 ++ b28 ++ b29 ++ b30 ++ b31 : BitVec 256) = [b0, b1, b2, b3, b4, b5, b6, b7, b8, b9, b10, b11, b12, b13, b14, b15, b16, b17, b18, b19, b20, b21, b22, b23, b24, b25, b26, b27, b28, b29, b30, b31] := by
    intro b0 b1 b2 b3 b4 b5 b6 b7 b8 b9 b10 b11 b12 b13 b14 b15 b16 b17 b18 b19 b20 b21 b22 b23 b24 b25 b26 b27 b28 b29 b30 b31
    rw [unpack32_lit]
    simp only [List.cons.injEq, and_true]
    refine ⟨?_, ?_, ?_, ?_, ?_, ?_, ?_, ?_, ?_, ?_, ?_, ?_, ?_, ?_, ?_, ?_, ?_, ?_, ?_, ?_, ?_, ?_, ?_, ?_, ?_, ?_, ?_, ?_, ?_, ?_, ?_, ?_⟩ <;> bv_decide
  rw [packL_32, e]
  exact (list_eq_getD X 32 h).symm

theorem len_32 (data : BitVec 256) : (unpackBE 32 data).length = 32 := by simp [unpackBE]

/-- the regenerated `belt_wblock_enc` on 32 bytes is the byte-list program of the model's rounds, by computation -/
theorem gen_enc_32 (data : BitVec 256) (k0 k1 k2 k3 k4 k5 k6 k7 : BitVec 32) :
    belt_wblock_enc_32 data k0 k1 k2 k3 k4 k5 k6 k7 = packL_32 (forRange 1 (2 * ((32 + 15) / 16)) (encRoundP (RG k0 k1 k2 k3 k4 k5 k6 k7) 8 32) (unpackBE 32 data)) := by
  kernel_rfl

theorem gen_dec_32 (data : BitVec 256) (k0 k1 k2 k3 k4 k5 k6 k7 : BitVec 32) :
    belt_wblock_dec_32 data k0 k1 k2 k3 k4 k5 k6 k7 = packL_32 (forRangeRev 1 (2 * ((32 + 15) / 16)) (decRoundP (RG k0 k1 k2 k3 k4 k5 k6 k7) 8 32) (unpackBE 32 data)) := by
  kernel_rfl

/-- **`belt_wblock_enc` on 32 bytes**: regenerated function = model, all keys, all data -/
theorem belt_wblock_enc_32_eq (data : BitVec 256) (k0 k1 k2 k3 k4 k5 k6 k7 : BitVec 32) :
    (WRes.ok, unpackBE 32 (belt_wblock_enc_32 data k0 k1 k2 k3 k4 k5 k6 k7)) = wblockEnc (unpackBE 32 data) #v[k0, k1, k2, k3, k4, k5, k6, k7] := by
  have hl := (wblockEncU_ok 8 (unpackBE 32 data) #v[k0, k1, k2, k3, k4, k5, k6, k7] (by rw [len_32]; decide)).2
  have hE := wblockEnc_eqP (RG k0 k1 k2 k3 k4 k5 k6 k7) #v[k0, k1, k2, k3, k4, k5, k6, k7] (RG_eq k0 k1 k2 k3 k4 k5 k6 k7) (unpackBE 32 data) 32 (len_32 data) (by decide)
  rw [gen_enc_32, hE]
  change (wblockEnc (unpackBE 32 data) #v[k0, k1, k2, k3, k4, k5, k6, k7]).2.length = _ at hl
  rw [hE, len_32] at hl
  rw [unpack_packL_32 _ hl]

/-- **`belt_wblock_dec` on 32 bytes** -/
theorem belt_wblock_dec_32_eq (data : BitVec 256) (k0 k1 k2 k3 k4 k5 k6 k7 : BitVec 32) :
    (WRes.ok, unpackBE 32 (belt_wblock_dec_32 data k0 k1 k2 k3 k4 k5 k6 k7)) = wblockDec (unpackBE 32 data) #v[k0, k1, k2, k3, k4, k5, k6, k7] := by
  have hl := (wblockDecU_ok 8 (unpackBE 32 data) #v[k0, k1, k2, k3, k4, k5, k6, k7] (by rw [len_32]; decide)).2
  have hE := wblockDec_eqP (RG k0 k1 k2 k3 k4 k5 k6 k7) #v[k0, k1, k2, k3, k4, k5, k6, k7] (RG_eq k0 k1 k2 k3 k4 k5 k6 k7) (unpackBE 32 data) 32 (len_32 data) (by decide)
  rw [gen_dec_32, hE]
  change (wblockDec (unpackBE 32 data) #v[k0, k1, k2, k3, k4, k5, k6, k7]).2.length = _ at hl
  rw [hE, len_32] at hl
  rw [unpack_packL_32 _ hl]

/-! ### (3) n = 33 (6 rounds) -/

def packL_33 (X : Bytes) : BitVec 264 := X.getD 0 0 ++ X.getD 1 0 ++ X.getD 2 0 ++ X.getD 3 0 ++ X.getD 4 0 ++ X.getD 5 0 ++ X.getD 6 0 ++ X.getD 7 0 ++ X.getD 8 0 ++ X.getD 9 0 ++ X.getD 10 0 ++ X.getD 11 0 ++ X.getD 12 0 ++ X.getD 13 0 ++ X.getD 14 0 ++ X.getD 15 0 ++ X.getD 16 0 ++ X.getD 17 0 ++ X.getD 18 0 ++ X.getD 19 0 ++ X.getD 20 0 ++ X.getD 21 0 ++ X.getD 22 0 ++ X.getD 23 0 ++ X.getD 24 0 ++ X.getD 25 0 ++ X.getD 26 0 ++ X.getD 27 0 ++ X.getD 28 0 ++ X.getD 29 0 ++ X.getD 30 0 ++ X.getD 31 0 ++ X.getD 32 0

theorem unpack33_lit (B : BitVec 264) : unpackBE 33 B = [(B >>> 256).setWidth 8, (B >>> 248).setWidth 8, (B >>> 240).setWidth 8, (B >>> 232).setWidth 8, (B >>> 224).setWidth 8, (B >>> 216).setWidth 8, (B >>> 208).setWidth 8, (B >>> 200).setWidth 8, (B >>> 192).setWidth 8, (B >>> 184).setWidth 8, (B >>> 176).setWidth 8, (B >>> 168).setWidth 8, (B >>> 160).setWidth 8, (B >>> 152).setWidth 8, (B >>> 144).setWidth 8, (B >>> 136).setWidth 8, (B >>> 128).setWidth 8, (B >>> 120).setWidth 8, (B >>> 112).setWidth 8, (B >>> 104).setWidth 8, (B >>> 96).setWidth 8, (B >>> 88).setWidth 8, (B >>> 80).setWidth 8, (B >>> 72).setWidth 8, (B >>> 64).setWidth 8, (B >>> 56).setWidth 8, (B >>> 48).setWidth 8, (B >>> 40).setWidth 8, (B >>> 32).setWidth 8, (B >>> 24).setWidth 8, (B >>> 16).setWidth 8, (B >>> 8).setWidth 8, (B >>> 0).setWidth 8] := rfl

theorem unpack_packL_33 (X : Bytes) (h : X.length = 33) : unpackBE 33 (packL_33 X) = X := by
  have e : ∀ b0 b1 b2 b3 b4 b5 b6 b7 b8 b9 b10 b11 b12 b13 b14 b15 b16 b17 b18 b19 b20 b21 b22 b23 b24 b25 b26 b27 b28 b29 b30 b31 b32 : BitVec 8, unpackBE 33 (b0 ++ b1 ++ b2 ++ b3 ++ b4 ++ b5 ++ b6 ++ b7 ++ b8 ++ b9 ++ b10 ++ b11 ++ b12 ++ b13 ++ b14 ++ b15 ++ b16 ++ b17 ++ b18 ++ b19 ++ b20 ++ b21 ++ b22 ++ b23 ++ b24 ++ b25 ++ b26 ++ b27 ++ b28 ++ b29 ++ b30 ++ b31 ++ b32 : BitVec 264) = [b0, b1, b2, b3, b4, b5, b6, b7, b8, b9, b10, b11, b12, b13, b14, b15, b16, b17, b18, b19, b20, b21, b22, b23, b24, b25, b26, b27, b28, b29, b30, b31, b32] := by
    intro b0 b1 b2 b3 b4 b5 b6 b7 b8 b9 b10 b11 b12 b13 b14 b15 b16 b17 b18 b19 b20 b21 b22 b23 b24 b25 b26 b27 b28 b29 b30 b31 b32
    rw [unpack33_lit]
    simp only [List.cons.injEq, and_true]
    refine ⟨?_, ?_, ?_, ?_, ?_, ?_, ?_, ?_, ?_, ?_, ?_, ?_, ?_, ?_, ?_, ?_, ?_, ?_, ?_, ?_, ?_, ?_, ?_, ?_, ?_, ?_, ?_, ?_, ?_, ?_, ?_, ?_, ?_⟩ <;> bv_decide
  rw [packL_33, e]
  exact (list_eq_getD X 33 h).symm

theorem len_33 (data : BitVec 264) : (unpackBE 33 data).length = 33 := by simp [unpackBE]

/-- the regenerated `belt_wblock_enc` on 33 bytes is the byte-list program of the model's rounds, by computation -/
theorem gen_enc_33 (data : BitVec 264) (k0 k1 k2 k3 k4 k5 k6 k7 : BitVec 32) :
    belt_wblock_enc_33 data k0 k1 k2 k3 k4 k5 k6 k7 = packL_33 (forRange 1 (2 * ((33 + 15) / 16)) (encRoundP (RG k0 k1 k2 k3 k4 k5 k6 k7) 8 33) (unpackBE 33 data)) := by
  kernel_rfl

theorem gen_dec_33 (data : BitVec 264) (k0 k1 k2 k3 k4 k5 k6 k7 : BitVec 32) :
    belt_wblock_dec_33 data k0 k1 k2 k3 k4 k5 k6 k7 = packL_33 (forRangeRev 1 (2 * ((33 + 15) / 16)) (decRoundP (RG k0 k1 k2 k3 k4 k5 k6 k7) 8 33) (unpackBE 33 data)) := by
  kernel_rfl

/-- **`belt_wblock_enc` on 33 bytes**: regenerated function = model, all keys, all data -/
theorem belt_wblock_enc_33_eq (data : BitVec 264) (k0 k1 k2 k3 k4 k5 k6 k7 : BitVec 32) :
    (WRes.ok, unpackBE 33 (belt_wblock_enc_33 data k0 k1 k2 k3 k4 k5 k6 k7)) = wblockEnc (unpackBE 33 data) #v[k0, k1, k2, k3, k4, k5, k6, k7] := by
  have hl := (wblockEncU_ok 8 (unpackBE 33 data) #v[k0, k1, k2, k3, k4, k5, k6, k7] (by rw [len_33]; decide)).2
  have hE := wblockEnc_eqP (RG k0 k1 k2 k3 k4 k5 k6 k7) #v[k0, k1, k2, k3, k4, k5, k6, k7] (RG_eq k0 k1 k2 k3 k4 k5 k6 k7) (unpackBE 33 data) 33 (len_33 data) (by decide)
  rw [gen_enc_33, hE]
  change (wblockEnc (unpackBE 33 data) #v[k0, k1, k2, k3, k4, k5, k6, k7]).2.length = _ at hl
  rw [hE, len_33] at hl
  rw [unpack_packL_33 _ hl]

/-- **`belt_wblock_dec` on 33 bytes** -/
theorem belt_wblock_dec_33_eq (data : BitVec 264) (k0 k1 k2 k3 k4 k5 k6 k7 : BitVec 32) :
    (WRes.ok, unpackBE 33 (belt_wblock_dec_33 data k0 k1 k2 k3 k4 k5 k6 k7)) = wblockDec (unpackBE 33 data) #v[k0, k1, k2, k3, k4, k5, k6, k7] := by
  have hl := (wblockDecU_ok 8 (unpackBE 33 data) #v[k0, k1, k2, k3, k4, k5, k6, k7] (by rw [len_33]; decide)).2
  have hE := wblockDec_eqP (RG k0 k1 k2 k3 k4 k5 k6 k7) #v[k0, k1, k2, k3, k4, k5, k6, k7] (RG_eq k0 k1 k2 k3 k4 k5 k6 k7) (unpackBE 33 data) 33 (len_33 data) (by decide)
  rw [gen_dec_33, hE]
  change (wblockDec (unpackBE 33 data) #v[k0, k1, k2, k3, k4, k5, k6, k7]).2.length = _ at hl
  rw [hE, len_33] at hl
  rw [unpack_packL_33 _ hl]

/-! ### (3) n = 47 (6 rounds) -/

def packL_47 (X : Bytes) : BitVec 376 := X.getD 0 0 ++ X.getD 1 0 ++ X.getD 2 0 ++ X.getD 3 0 ++ X.getD 4 0 ++ X.getD 5 0 ++ X.getD 6 0 ++ X.getD 7 0 ++ X.getD 8 0 ++ X.getD 9 0 ++ X.getD 10 0 ++ X.getD 11 0 ++ X.getD 12 0 ++ X.getD 13 0 ++ X.getD 14 0 ++ X.getD 15 0 ++ X.getD 16 0 ++ X.getD 17 0 ++ X.getD 18 0 ++ X.getD 19 0 ++ X.getD 20 0 ++ X.getD 21 0 ++ X.getD 22 0 ++ X.getD 23 0 ++ X.getD 24 0 ++ X.getD 25 0 ++ X.getD 26 0 ++ X.getD 27 0 ++ X.getD 28 0 ++ X.getD 29 0 ++ X.getD 30 0 ++ X.getD 31 0 ++ X.getD 32 0 ++ X.getD 33 0 ++ X.getD 34 0 ++ X.getD 35 0 ++ X.getD 36 0 ++ X.getD 37 0 ++ X.getD 38 0 ++ X.getD 39 0 ++ X.getD 40 0 ++ X.getD 41 0 ++ X.getD 42 0 ++ X.getD 43 0 ++ X.getD 44 0 ++ X.getD 45 0 ++ X.getD 46 0

theorem unpack47_lit (B : BitVec 376) : unpackBE 47 B = [(B >>> 368).setWidth 8, (B >>> 360).setWidth 8, (B >>> 352).setWidth 8, (B >>> 344).setWidth 8, (B >>> 336).setWidth 8, (B >>> 328).setWidth 8, (B >>> 320).setWidth 8, (B >>> 312).setWidth 8, (B >>> 304).setWidth 8, (B >>> 296).setWidth 8, (B >>> 288).setWidth 8, (B >>> 280).setWidth 8, (B >>> 272).setWidth 8, (B >>> 264).setWidth 8, (B >>> 256).setWidth 8, (B >>> 248).setWidth 8, (B >>> 240).setWidth 8, (B >>> 232).setWidth 8, (B >>> 224).setWidth 8, (B >>> 216).setWidth 8, (B >>> 208).setWidth 8, (B >>> 200).setWidth 8, (B >>> 192).setWidth 8, (B >>> 184).setWidth 8, (B >>> 176).setWidth 8, (B >>> 168).setWidth 8, (B >>> 160).setWidth 8, (B >>> 152).setWidth 8, (B >>> 144).setWidth 8, (B >>> 136).setWidth 8, (B >>> 128).setWidth 8, (B >>> 120).setWidth 8, (B >>> 112).setWidth 8, (B >>> 104).setWidth 8, (B >>> 96).setWidth 8, (B >>> 88).setWidth 8, (B >>> 80).setWidth 8, (B >>> 72).setWidth 8, (B >>> 64).setWidth 8, (B >>> 56).setWidth 8, (B >>> 48).setWidth 8, (B >>> 40).setWidth 8, (B >>> 32).setWidth 8, (B >>> 24).setWidth 8, (B >>> 16).setWidth 8, (B >>> 8).setWidth 8, (B >>> 0).setWidth 8] := rfl

theorem unpack_packL_47 (X : Bytes) (h : X.length = 47) : unpackBE 47 (packL_47 X) = X := by
  have e : ∀ b0 b1 b2 b3 b4 b5 b6 b7 b8 b9 b10 b11 b12 b13 b14 b15 b16 b17 b18 b19 b20 b21 b22 b23 b24 b25 b26 b27 b28 b29 b30 b31 b32 b33 b34 b35 b36 b37 b38 b39 b40 b41 b42 b43 b44 b45 b46 : BitVec 8, unpackBE 47 (b0 ++ b1 ++ b2 ++ b3 ++ b4 ++ b5 ++ b6 ++ b7 ++ b8 ++ b9 ++ b10 ++ b11 ++ b12 ++ b13 ++ b14 ++ b15 ++ b16 ++ b17 ++ b18 ++ b19 ++ b20 ++ b21 ++ b22 ++ b23 ++ b24 ++ b25 ++ b26 ++ b27 ++ b28 ++ b29 ++ b30 ++ b31 ++ b32 ++ b33 ++ b34 ++ b35 ++ b36 ++ b37 ++ b38 ++ b39 ++ b40 ++ b41 ++ b42 ++ b43 ++ b44 ++ b45 ++ b46 : BitVec 376) = [b0, b1, b2, b3, b4, b5, b6, b7, b8, b9, b10, b11, b12, b13, b14, b15, b16, b17, b18, b19, b20, b21, b22, b23, b24, b25, b26, b27, b28, b29, b30, b31, b32, b33, b34, b35, b36, b37, b38, b39, b40, b41, b42, b43, b44, b45, b46] := by
    intro b0 b1 b2 b3 b4 b5 b6 b7 b8 b9 b10 b11 b12 b13 b14 b15 b16 b17 b18 b19 b20 b21 b22 b23 b24 b25 b26 b27 b28 b29 b30 b31 b32 b33 b34 b35 b36 b37 b38 b39 b40 b41 b42 b43 b44 b45 b46
    rw [unpack47_lit]
    simp only [List.cons.injEq, and_true]
    refine ⟨?_, ?_, ?_, ?_, ?_, ?_, ?_, ?_, ?_, ?_, ?_, ?_, ?_, ?_, ?_, ?_, ?_, ?_, ?_, ?_, ?_, ?_, ?_, ?_, ?_, ?_, ?_, ?_, ?_, ?_, ?_, ?_, ?_, ?_, ?_, ?_, ?_, ?_, ?_, ?_, ?_, ?_, ?_, ?_, ?_, ?_, ?_⟩ <;> bv_decide
  rw [packL_47, e]
  exact (list_eq_getD X 47 h).symm

theorem len_47 (data : BitVec 376) : (unpackBE 47 data).length = 47 := by simp [unpackBE]

/-- the regenerated `belt_wblock_enc` on 47 bytes is the byte-list program of the model's rounds, by computation -/
theorem gen_enc_47 (data : BitVec 376) (k0 k1 k2 k3 k4 k5 k6 k7 : BitVec 32) :
    belt_wblock_enc_47 data k0 k1 k2 k3 k4 k5 k6 k7 = packL_47 (forRange 1 (2 * ((47 + 15) / 16)) (encRoundP (RG k0 k1 k2 k3 k4 k5 k6 k7) 8 47) (unpackBE 47 data)) := by
  kernel_rfl

theorem gen_dec_47 (data : BitVec 376) (k0 k1 k2 k3 k4 k5 k6 k7 : BitVec 32) :
    belt_wblock_dec_47 data k0 k1 k2 k3 k4 k5 k6 k7 = packL_47 (forRangeRev 1 (2 * ((47 + 15) / 16)) (decRoundP (RG k0 k1 k2 k3 k4 k5 k6 k7) 8 47) (unpackBE 47 data)) := by
  kernel_rfl

/-- **`belt_wblock_enc` on 47 bytes**: regenerated function = model, all keys, all data -/
theorem belt_wblock_enc_47_eq (data : BitVec 376) (k0 k1 k2 k3 k4 k5 k6 k7 : BitVec 32) :
    (WRes.ok, unpackBE 47 (belt_wblock_enc_47 data k0 k1 k2 k3 k4 k5 k6 k7)) = wblockEnc (unpackBE 47 data) #v[k0, k1, k2, k3, k4, k5, k6, k7] := by
  have hl := (wblockEncU_ok 8 (unpackBE 47 data) #v[k0, k1, k2, k3, k4, k5, k6, k7] (by rw [len_47]; decide)).2
  have hE := wblockEnc_eqP (RG k0 k1 k2 k3 k4 k5 k6 k7) #v[k0, k1, k2, k3, k4, k5, k6, k7] (RG_eq k0 k1 k2 k3 k4 k5 k6 k7) (unpackBE 47 data) 47 (len_47 data) (by decide)
  rw [gen_enc_47, hE]
  change (wblockEnc (unpackBE 47 data) #v[k0, k1, k2, k3, k4, k5, k6, k7]).2.length = _ at hl
  rw [hE, len_47] at hl
  rw [unpack_packL_47 _ hl]

/-- **`belt_wblock_dec` on 47 bytes** -/
theorem belt_wblock_dec_47_eq (data : BitVec 376) (k0 k1 k2 k3 k4 k5 k6 k7 : BitVec 32) :
    (WRes.ok, unpackBE 47 (belt_wblock_dec_47 data k0 k1 k2 k3 k4 k5 k6 k7)) = wblockDec (unpackBE 47 data) #v[k0, k1, k2, k3, k4, k5, k6, k7] := by
  have hl := (wblockDecU_ok 8 (unpackBE 47 data) #v[k0, k1, k2, k3, k4, k5, k6, k7] (by rw [len_47]; decide)).2
  have hE := wblockDec_eqP (RG k0 k1 k2 k3 k4 k5 k6 k7) #v[k0, k1, k2, k3, k4, k5, k6, k7] (RG_eq k0 k1 k2 k3 k4 k5 k6 k7) (unpackBE 47 data) 47 (len_47 data) (by decide)
  rw [gen_dec_47, hE]
  change (wblockDec (unpackBE 47 data) #v[k0, k1, k2, k3, k4, k5, k6, k7]).2.length = _ at hl
  rw [hE, len_47] at hl
  rw [unpack_packL_47 _ hl]

/-! ### (3) n = 48 (6 rounds) -/

def packL_48 (X : Bytes) : BitVec 384 := X.getD 0 0 ++ X.getD 1 0 ++ X.getD 2 0 ++ X.getD 3 0 ++ X.getD 4 0 ++ X.getD 5 0 ++ X.getD 6 0 ++ X.getD 7 0 ++ X.getD 8 0 ++ X.getD 9 0 ++ X.getD 10 0 ++ X.getD 11 0 ++ X.getD 12 0 ++ X.getD 13 0 ++ X.getD 14 0 ++ X.getD 15 0 ++ X.getD 16 0 ++ X.getD 17 0 ++ X.getD 18 0 ++ X.getD 19 0 ++ X.getD 20 0 ++ X.getD 21 0 ++ X.getD 22 0 ++ X.getD 23 0 ++ X.getD 24 0 ++ X.getD 25 0 ++ X.getD 26 0 ++ X.getD 27 0 ++ X.getD 28 0 ++ X.getD 29 0 ++ X.getD 30 0 ++ X.getD 31 0 ++ X.getD 32 0 ++ X.getD 33 0 ++ X.getD 34 0 ++ X.getD 35 0 ++ X.getD 36 0 ++ X.getD 37 0 ++ X.getD 38 0 ++ X.getD 39 0 ++ X.getD 40 0 ++ X.getD 41 0 ++ X.getD 42 0 ++ X.getD 43 0 ++ X.getD 44 0 ++ X.getD 45 0 ++ X.getD 46 0 ++ X.getD 47 0

theorem unpack48_lit (B : BitVec 384) : unpackBE 48 B = [(B >>> 376).setWidth 8, (B >>> 368).setWidth 8, (B >>> 360).setWidth 8, (B >>> 352).setWidth 8, (B >>> 344).setWidth 8, (B >>> 336).setWidth 8, (B >>> 328).setWidth 8, (B >>> 320).setWidth 8, (B >>> 312).setWidth 8, (B >>> 304).setWidth 8, (B >>> 296).setWidth 8, (B >>> 288).setWidth 8, (B >>> 280).setWidth 8, (B >>> 272).setWidth 8, (B >>> 264).setWidth 8, (B >>> 256).setWidth 8, (B >>> 248).setWidth 8, (B >>> 240).setWidth 8, (B >>> 232).setWidth 8, (B >>> 224).setWidth 8, (B >>> 216).setWidth 8, (B >>> 208).setWidth 8, (B >>> 200).setWidth 8, (B >>> 192).setWidth 8, (B >>> 184).setWidth 8, (B >>> 176).setWidth 8, (B >>> 168).setWidth 8, (B >>> 160).setWidth 8, (B >>> 152).setWidth 8, (B >>> 144).setWidth 8, (B >>> 136).setWidth 8, (B >>> 128).setWidth 8, (B >>> 120).setWidth 8, (B >>> 112).setWidth 8, (B >>> 104).setWidth 8, (B >>> 96).setWidth 8, (B >>> 88).setWidth 8, (B >>> 80).setWidth 8, (B >>> 72).setWidth 8, (B >>> 64).setWidth 8, (B >>> 56).setWidth 8, (B >>> 48).setWidth 8, (B >>> 40).setWidth 8, (B >>> 32).setWidth 8, (B >>> 24).setWidth 8, (B >>> 16).setWidth 8, (B >>> 8).setWidth 8, (B >>> 0).setWidth 8] := rfl

theorem unpack_packL_48 (X : Bytes) (h : X.length = 48) : unpackBE 48 (packL_48 X) = X := by
  have e : ∀ b0 b1 b2 b3 b4 b5 b6 b7 b8 b9 b10 b11 b12 b13 b14 b15 b16 b17 b18 b19 b20 b21 b22 b23 b24 b25 b26 b27 b28 b29 b30 b31 b32 b33 b34 b35 b36 b37 b38 b39 b40 b41 b42 b43 b44 b45 b46 b47 : BitVec 8, unpackBE 48 (b0 ++ b1 ++ b2 ++ b3 ++ b4 ++ b5 ++ b6 ++ b7 ++ b8 ++ b9 ++ b10 ++ b11 ++ b12 ++ b13 ++ b14 ++ b15 ++ b16 ++ b17 ++ b18 ++ b19 ++ b20 ++ b21 ++ b22 ++ b23 ++ b24 ++ b25 ++ b26 ++ b27 ++ b28 ++ b29 ++ b30 ++ b31 ++ b32 ++ b33 ++ b34 ++ b35 ++ b36 ++ b37 ++ b38 ++ b39 ++ b40 ++ b41 ++ b42 ++ b43 ++ b44 ++ b45 ++ b46 ++ b47 : BitVec 384) = [b0, b1, b2, b3, b4, b5, b6, b7, b8, b9, b10, b11, b12, b13, b14, b15, b16, b17, b18, b19, b20, b21, b22, b23, b24, b25, b26, b27, b28, b29, b30, b31, b32, b33, b34, b35, b36, b37, b38, b39, b40, b41, b42, b43, b44, b45, b46, b47] := by
    intro b0 b1 b2 b3 b4 b5 b6 b7 b8 b9 b10 b11 b12 b13 b14 b15 b16 b17 b18 b19 b20 b21 b22 b23 b24 b25 b26 b27 b28 b29 b30 b31 b32 b33 b34 b35 b36 b37 b38 b39 b40 b41 b42 b43 b44 b45 b46 b47
    rw [unpack48_lit]
    simp only [List.cons.injEq, and_true]
    refine ⟨?_, ?_, ?_, ?_, ?_, ?_, ?_, ?_, ?_, ?_, ?_, ?_, ?_, ?_, ?_, ?_, ?_, ?_, ?_, ?_, ?_, ?_, ?_, ?_, ?_, ?_, ?_, ?_, ?_, ?_, ?_, ?_, ?_, ?_, ?_, ?_, ?_, ?_, ?_, ?_, ?_, ?_, ?_, ?_, ?_, ?_, ?_, ?_⟩ <;> bv_decide
  rw [packL_48, e]
  exact (list_eq_getD X 48 h).symm

theorem len_48 (data : BitVec 384) : (unpackBE 48 data).length = 48 := by simp [unpackBE]

/-- the regenerated `belt_wblock_enc` on 48 bytes is the byte-list program of the model's rounds, by computation -/
theorem gen_enc_48 (data : BitVec 384) (k0 k1 k2 k3 k4 k5 k6 k7 : BitVec 32) :
    belt_wblock_enc_48 data k0 k1 k2 k3 k4 k5 k6 k7 = packL_48 (forRange 1 (2 * ((48 + 15) / 16)) (encRoundP (RG k0 k1 k2 k3 k4 k5 k6 k7) 8 48) (unpackBE 48 data)) := by
  kernel_rfl

theorem gen_dec_48 (data : BitVec 384) (k0 k1 k2 k3 k4 k5 k6 k7 : BitVec 32) :
    belt_wblock_dec_48 data k0 k1 k2 k3 k4 k5 k6 k7 = packL_48 (forRangeRev 1 (2 * ((48 + 15) / 16)) (decRoundP (RG k0 k1 k2 k3 k4 k5 k6 k7) 8 48) (unpackBE 48 data)) := by
  kernel_rfl

/-- **`belt_wblock_enc` on 48 bytes**: regenerated function = model, all keys, all data -/
theorem belt_wblock_enc_48_eq (data : BitVec 384) (k0 k1 k2 k3 k4 k5 k6 k7 : BitVec 32) :
    (WRes.ok, unpackBE 48 (belt_wblock_enc_48 data k0 k1 k2 k3 k4 k5 k6 k7)) = wblockEnc (unpackBE 48 data) #v[k0, k1, k2, k3, k4, k5, k6, k7] := by
  have hl := (wblockEncU_ok 8 (unpackBE 48 data) #v[k0, k1, k2, k3, k4, k5, k6, k7] (by rw [len_48]; decide)).2
  have hE := wblockEnc_eqP (RG k0 k1 k2 k3 k4 k5 k6 k7) #v[k0, k1, k2, k3, k4, k5, k6, k7] (RG_eq k0 k1 k2 k3 k4 k5 k6 k7) (unpackBE 48 data) 48 (len_48 data) (by decide)
  rw [gen_enc_48, hE]
  change (wblockEnc (unpackBE 48 data) #v[k0, k1, k2, k3, k4, k5, k6, k7]).2.length = _ at hl
  rw [hE, len_48] at hl
  rw [unpack_packL_48 _ hl]

/-- **`belt_wblock_dec` on 48 bytes** -/
theorem belt_wblock_dec_48_eq (data : BitVec 384) (k0 k1 k2 k3 k4 k5 k6 k7 : BitVec 32) :
    (WRes.ok, unpackBE 48 (belt_wblock_dec_48 data k0 k1 k2 k3 k4 k5 k6 k7)) = wblockDec (unpackBE 48 data) #v[k0, k1, k2, k3, k4, k5, k6, k7] := by
  have hl := (wblockDecU_ok 8 (unpackBE 48 data) #v[k0, k1, k2, k3, k4, k5, k6, k7] (by rw [len_48]; decide)).2
  have hE := wblockDec_eqP (RG k0 k1 k2 k3 k4 k5 k6 k7) #v[k0, k1, k2, k3, k4, k5, k6, k7] (RG_eq k0 k1 k2 k3 k4 k5 k6 k7) (unpackBE 48 data) 48 (len_48 data) (by decide)
  rw [gen_dec_48, hE]
  change (wblockDec (unpackBE 48 data) #v[k0, k1, k2, k3, k4, k5, k6, k7]).2.length = _ at hl
  rw [hE, len_48] at hl
  rw [unpack_packL_48 _ hl]

/-! ### (3) n = 64 (8 rounds) -/

def packL_64 (X : Bytes) : BitVec 512 := X.getD 0 0 ++ X.getD 1 0 ++ X.getD 2 0 ++ X.getD 3 0 ++ X.getD 4 0 ++ X.getD 5 0 ++ X.getD 6 0 ++ X.getD 7 0 ++ X.getD 8 0 ++ X.getD 9 0 ++ X.getD 10 0 ++ X.getD 11 0 ++ X.getD 12 0 ++ X.getD 13 0 ++ X.getD 14 0 ++ X.getD 15 0 ++ X.getD 16 0 ++ X.getD 17 0 ++ X.getD 18 0 ++ X.getD 19 0 ++ X.getD 20 0 ++ X.getD 21 0 ++ X.getD 22 0 ++ X.getD 23 0 ++ X.getD 24 0 ++ X.getD 25 0 ++ X.getD 26 0 ++ X.getD 27 0 ++ X.getD 28 0 ++ X.getD 29 0 ++ X.getD 30 0 ++ X.getD 31 0 ++ X.getD 32 0 ++ X.getD 33 0 ++ X.getD 34 0 ++ X.getD 35 0 ++ X.getD 36 0 ++ X.getD 37 0 ++ X.getD 38 0 ++ X.getD 39 0 ++ X.getD 40 0 ++ X.getD 41 0 ++ X.getD 42 0 ++ X.getD 43 0 ++ X.getD 44 0 ++ X.getD 45 0 ++ X.getD 46 0 ++ X.getD 47 0 ++ X.getD 48 0 ++ X.getD 49 0 ++ X.getD 50 0 ++ X.getD 51 0 ++ X.getD 52 0 ++ X.getD 53 0 ++ X.getD 54 0 ++ X.getD 55 0 ++ X.getD 56 0 ++ X.getD 57 0 ++ X.getD 58 0 ++ X.getD 59 0 ++ X.getD 60 0 ++ X.getD 61 0 ++ X.getD 62 0 ++ X.getD 63 0

theorem unpack64_lit (B : BitVec 512) : unpackBE 64 B = [(B >>> 504).setWidth 8, (B >>> 496).setWidth 8, (B >>> 488).setWidth 8, (B >>> 480).setWidth 8, (B >>> 472).setWidth 8, (B >>> 464).setWidth 8, (B >>> 456).setWidth 8, (B >>> 448).setWidth 8, (B >>> 440).setWidth 8, (B >>> 432).setWidth 8, (B >>> 424).setWidth 8, (B >>> 416).setWidth 8, (B >>> 408).setWidth 8, (B >>> 400).setWidth 8, (B >>> 392).setWidth 8, (B >>> 384).setWidth 8, (B >>> 376).setWidth 8, (B >>> 368).setWidth 8, (B >>> 360).setWidth 8, (B >>> 352).setWidth 8, (B >>> 344).setWidth 8, (B >>> 336).setWidth 8, (B >>> 328).setWidth 8, (B >>> 320).setWidth 8, (B >>> 312).setWidth 8, (B >>> 304).setWidth 8, (B >>> 296).setWidth 8, (B >>> 288).setWidth 8, (B >>> 280).setWidth 8, (B >>> 272).setWidth 8, (B >>> 264).setWidth 8, (B >>> 256).setWidth 8, (B >>> 248).setWidth 8, (B >>> 240).setWidth 8, (B >>> 232).setWidth 8, (B >>> 224).setWidth 8, (B >>> 216).setWidth 8, (B >>> 208).setWidth 8, (B >>> 200).setWidth 8, (B >>> 192).setWidth 8, (B >>> 184).setWidth 8, (B >>> 176).setWidth 8, (B >>> 168).setWidth 8, (B >>> 160).setWidth 8, (B >>> 152).setWidth 8, (B >>> 144).setWidth 8, (B >>> 136).setWidth 8, (B >>> 128).setWidth 8, (B >>> 120).setWidth 8, (B >>> 112).setWidth 8, (B >>> 104).setWidth 8, (B >>> 96).setWidth 8, (B >>> 88).setWidth 8, (B >>> 80).setWidth 8, (B >>> 72).setWidth 8, (B >>> 64).setWidth 8, (B >>> 56).setWidth 8, (B >>> 48).setWidth 8, (B >>> 40).setWidth 8, (B >>> 32).setWidth 8, (B >>> 24).setWidth 8, (B >>> 16).setWidth 8, (B >>> 8).setWidth 8, (B >>> 0).setWidth 8] := rfl

theorem unpack_packL_64 (X : Bytes) (h : X.length = 64) : unpackBE 64 (packL_64 X) = X := by
  have e : ∀ b0 b1 b2 b3 b4 b5 b6 b7 b8 b9 b10 b11 b12 b13 b14 b15 b16 b17 b18 b19 b20 b21 b22 b23 b24 b25 b26 b27 b28 b29 b30 b31 b32 b33 b34 b35 b36 b37 b38 b39 b40 b41 b42 b43 b44 b45 b46 b47 b48 b49 b50 b51 b52 b53 b54 b55 b56 b57 b58 b59 b60 b61 b62 b63 : BitVec 8, unpackBE 64 (b0 ++ b1 ++ b2 ++ b3 ++ b4 ++ b5 ++ b6 ++ b7 ++ b8 ++ b9 ++ b10 ++ b11 ++ b12 ++ b13 ++ b14 ++ b15 ++ b16 ++ b17 ++ b18 ++ b19 ++ b20 ++ b21 ++ b22 ++ b23 ++ b24 ++ b25 ++ b26 ++ b27 ++ b28 ++ b29 ++ b30 ++ b31 ++ b32 ++ b33 ++ b34 ++ b35 ++ b36 ++ b37 ++ b38 ++ b39 ++ b40 ++ b41 ++ b42 ++ b43 ++ b44 ++ b45 ++ b46 ++ b47 ++ b48 ++ b49 ++ b50 ++ b51 ++ b52 ++ b53 ++ b54 ++ b55 ++ b56 ++ b57 ++ b58 ++ b59 ++ b60 ++ b61 ++ b62 ++ b63 : BitVec 512) = [b0, b1, b2, b3, b4, b5, b6, b7, b8, b9, b10, b11, b12, b13, b14, b15, b16, b17, b18, b19, b20, b21, b22, b23, b24, b25, b26, b27, b28, b29, b30, b31, b32, b33, b34, b35, b36, b37, b38, b39, b40, b41, b42, b43, b44, b45, b46, b47, b48, b49, b50, b51, b52, b53, b54, b55, b56, b57, b58, b59, b60, b61, b62, b63] := by
    intro b0 b1 b2 b3 b4 b5 b6 b7 b8 b9 b10 b11 b12 b13 b14 b15 b16 b17 b18 b19 b20 b21 b22 b23 b24 b25 b26 b27 b28 b29 b30 b31 b32 b33 b34 b35 b36 b37 b38 b39 b40 b41 b42 b43 b44 b45 b46 b47 b48 b49 b50 b51 b52 b53 b54 b55 b56 b57 b58 b59 b60 b61 b62 b63
    rw [unpack64_lit]
    simp only [List.cons.injEq, and_true]
    refine ⟨?_, ?_, ?_, ?_, ?_, ?_, ?_, ?_, ?_, ?_, ?_, ?_, ?_, ?_, ?_, ?_, ?_, ?_, ?_, ?_, ?_, ?_, ?_, ?_, ?_, ?_, ?_, ?_, ?_, ?_, ?_, ?_, ?_, ?_, ?_, ?_, ?_, ?_, ?_, ?_, ?_, ?_, ?_, ?_, ?_, ?_, ?_, ?_, ?_, ?_, ?_, ?_, ?_, ?_, ?_, ?_, ?_, ?_, ?_, ?_, ?_, ?_, ?_, ?_⟩ <;> bv_decide
  rw [packL_64, e]
  exact (list_eq_getD X 64 h).symm

theorem len_64 (data : BitVec 512) : (unpackBE 64 data).length = 64 := by simp [unpackBE]

/-- the regenerated `belt_wblock_enc` on 64 bytes is the byte-list program of the model's rounds, by computation -/
theorem gen_enc_64 (data : BitVec 512) (k0 k1 k2 k3 k4 k5 k6 k7 : BitVec 32) :
    belt_wblock_enc_64 data k0 k1 k2 k3 k4 k5 k6 k7 = packL_64 (forRange 1 (2 * ((64 + 15) / 16)) (encRoundP (RG k0 k1 k2 k3 k4 k5 k6 k7) 8 64) (unpackBE 64 data)) := by
  kernel_rfl

theorem gen_dec_64 (data : BitVec 512) (k0 k1 k2 k3 k4 k5 k6 k7 : BitVec 32) :
    belt_wblock_dec_64 data k0 k1 k2 k3 k4 k5 k6 k7 = packL_64 (forRangeRev 1 (2 * ((64 + 15) / 16)) (decRoundP (RG k0 k1 k2 k3 k4 k5 k6 k7) 8 64) (unpackBE 64 data)) := by
  kernel_rfl

/-- **`belt_wblock_enc` on 64 bytes**: regenerated function = model, all keys, all data -/
theorem belt_wblock_enc_64_eq (data : BitVec 512) (k0 k1 k2 k3 k4 k5 k6 k7 : BitVec 32) :
    (WRes.ok, unpackBE 64 (belt_wblock_enc_64 data k0 k1 k2 k3 k4 k5 k6 k7)) = wblockEnc (unpackBE 64 data) #v[k0, k1, k2, k3, k4, k5, k6, k7] := by
  have hl := (wblockEncU_ok 8 (unpackBE 64 data) #v[k0, k1, k2, k3, k4, k5, k6, k7] (by rw [len_64]; decide)).2
  have hE := wblockEnc_eqP (RG k0 k1 k2 k3 k4 k5 k6 k7) #v[k0, k1, k2, k3, k4, k5, k6, k7] (RG_eq k0 k1 k2 k3 k4 k5 k6 k7) (unpackBE 64 data) 64 (len_64 data) (by decide)
  rw [gen_enc_64, hE]
  change (wblockEnc (unpackBE 64 data) #v[k0, k1, k2, k3, k4, k5, k6, k7]).2.length = _ at hl
  rw [hE, len_64] at hl
  rw [unpack_packL_64 _ hl]

/-- **`belt_wblock_dec` on 64 bytes** -/
theorem belt_wblock_dec_64_eq (data : BitVec 512) (k0 k1 k2 k3 k4 k5 k6 k7 : BitVec 32) :
    (WRes.ok, unpackBE 64 (belt_wblock_dec_64 data k0 k1 k2 k3 k4 k5 k6 k7)) = wblockDec (unpackBE 64 data) #v[k0, k1, k2, k3, k4, k5, k6, k7] := by
  have hl := (wblockDecU_ok 8 (unpackBE 64 data) #v[k0, k1, k2, k3, k4, k5, k6, k7] (by rw [len_64]; decide)).2
  have hE := wblockDec_eqP (RG k0 k1 k2 k3 k4 k5 k6 k7) #v[k0, k1, k2, k3, k4, k5, k6, k7] (RG_eq k0 k1 k2 k3 k4 k5 k6 k7) (unpackBE 64 data) 64 (len_64 data) (by decide)
  rw [gen_dec_64, hE]
  change (wblockDec (unpackBE 64 data) #v[k0, k1, k2, k3, k4, k5, k6, k7]).2.length = _ at hl
  rw [hE, len_64] at hl
  rw [unpack_packL_64 _ hl]

end BC.GenCipher.BeltWide
