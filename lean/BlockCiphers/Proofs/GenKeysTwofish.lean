import Lean
import BlockCiphers.Gen.Keys_Twofish
import BlockCiphers.Proofs.GenFnTwofish
import BlockCiphers.Impl.Twofish
import Std.Tactic.BVDecide
/-
Key-schedule ties for Twofish: the regenerated `Twofish::new_from_slice` for 16-, 24- and 32-byte keys
(`Gen/Keys_Twofish.lean`: `key_schedule` with `h` and `rs_mult` inlined, calling the regenerated leaf definitions `sbox`,
`mds_column_mult`, `gf_mult` of `Gen/Fn_Twofish.lean`) builds exactly the fields of the model's `keySchedule` on the same
key bytes: the S-box key words `s[0..16]`, the 40 sub-keys `k`, and `start`; for ALL keys.

* `ks<n> key`: the model's `keySchedule` on the n bytes of `key` with every field written out
  (`keySchedule_<n> : keySchedule (unpackBE n key).toArray = ks<n> key`; `s[i]` = `rsE … (i % 4)` = `rsMultRow` on the 8 key
  bytes of word `i / 4`, `k[2i]`, `k[2i+1]` = `skV`, `skT` of the two `h` values `hA`, `hB` of iteration `i`);
* per constructor: `unfold; extract_lets`; the inlined `rs_mult` / `h` texts are recognised BY `rfl` as the regenerated
  leaf functions `twofish_rs_mult` / `twofish_h_<k>_<offset>` on the constant argument `rho * (2 i)`, `rho * (2 i + 1)`
  (the translator constant-folded the bytes of that argument), whose ties `rs_mult_eq`, `h_<k>_<offset>_eq`
  (`Proofs/GenFnTwofish.lean`) give the model's `rsMultRow` / `h`; the additions / rotations are matched structurally.
This file is produced by `gen_twofish_keys.py` (it refers to the `let` names of `Gen/Keys_Twofish.lean`: `out_{8j+7}`,
`z_{8i+3}`, `z_{8i+7}`, `v_i`, `t_i`): after a re-translation re-run the script, then check the file with `lean`.
-/
set_option maxRecDepth 100000
set_option linter.unusedSimpArgs false
set_option linter.unusedVariables false
namespace BC.GenKeys.Twofish
open BC BC.Gen.Fn BC.Twofish BC.GenFn.Twofish

open Lean Elab Tactic Meta in
/-- make the (hygienic) names of the local `let` variables introduced by `extract_lets` accessible -/
elab "name_lets" : tactic => do
  liftMetaTactic fun g => g.withContext do
    let mut lctx ← getLCtx
    for d in lctx do
      if d.isLet then lctx := lctx.setUserName d.fvarId d.userName.eraseMacroScopes
    let g' ← mkFreshExprMVarAt lctx (← getLocalInstances) (← g.getType) .syntheticOpaque (← g.getTag)
    g.assign g'
    return [g'.mvarId!]

/-- the fields of the `Twofish` struct (`s: [u8; 16]`, `k: [u32; 40]`, `start: usize`) flattened in declaration order -/
def ksTuple (ks : Keys) : BitVec 8 × BitVec 8 × BitVec 8 × BitVec 8 × BitVec 8 × BitVec 8 × BitVec 8 × BitVec 8 × BitVec 8 × BitVec 8 × BitVec 8 × BitVec 8 × BitVec 8 × BitVec 8 × BitVec 8 × BitVec 8 × BitVec 32 × BitVec 32 × BitVec 32 × BitVec 32 × BitVec 32 × BitVec 32 × BitVec 32 × BitVec 32 × BitVec 32 × BitVec 32 × BitVec 32 × BitVec 32 × BitVec 32 × BitVec 32 × BitVec 32 × BitVec 32 × BitVec 32 × BitVec 32 × BitVec 32 × BitVec 32 × BitVec 32 × BitVec 32 × BitVec 32 × BitVec 32 × BitVec 32 × BitVec 32 × BitVec 32 × BitVec 32 × BitVec 32 × BitVec 32 × BitVec 32 × BitVec 32 × BitVec 32 × BitVec 32 × BitVec 32 × BitVec 32 × BitVec 32 × BitVec 32 × BitVec 32 × BitVec 32 × BitVec 64 :=
  (ks.s.getD 0 0#8, ks.s.getD 1 0#8, ks.s.getD 2 0#8, ks.s.getD 3 0#8, ks.s.getD 4 0#8, ks.s.getD 5 0#8, ks.s.getD 6 0#8, ks.s.getD 7 0#8, ks.s.getD 8 0#8, ks.s.getD 9 0#8, ks.s.getD 10 0#8, ks.s.getD 11 0#8, ks.s.getD 12 0#8, ks.s.getD 13 0#8, ks.s.getD 14 0#8, ks.s.getD 15 0#8, ks.k[0], ks.k[1], ks.k[2], ks.k[3], ks.k[4], ks.k[5], ks.k[6], ks.k[7], ks.k[8], ks.k[9], ks.k[10], ks.k[11], ks.k[12], ks.k[13], ks.k[14], ks.k[15], ks.k[16], ks.k[17], ks.k[18], ks.k[19], ks.k[20], ks.k[21], ks.k[22], ks.k[23], ks.k[24], ks.k[25], ks.k[26], ks.k[27], ks.k[28], ks.k[29], ks.k[30], ks.k[31], ks.k[32], ks.k[33], ks.k[34], ks.k[35], ks.k[36], ks.k[37], ks.k[38], ks.k[39], BitVec.ofNat 64 ks.start)

/-- `self.k[2i]` from the two `h` values of iteration `i` of `key_schedule` -/
def skV (a hb : BitVec 32) : BitVec 32 := a + hb.rotateLeft 8
/-- `self.k[2i+1]` -/
def skT (a hb : BitVec 32) : BitVec 32 := ((a + hb.rotateLeft 8) + hb.rotateLeft 8).rotateLeft 9
def hA (m : Array (BitVec 8)) (k i : Nat) : BitVec 32 := h (rho * (2#32 * BitVec.ofNat 32 i)) m k 0
def hB (m : Array (BitVec 8)) (k i : Nat) : BitVec 32 := h (rho * (2#32 * BitVec.ofNat 32 i + 1#32)) m k 1
/-- row `i` of `rs_mult` on eight explicit bytes -/
def rsE (m0 m1 m2 m3 m4 m5 m6 m7 : BitVec 8) (i : Nat) : BitVec 8 :=
  rsMultRow (fun j => [m0, m1, m2, m3, m4, m5, m6, m7].getD j 0#8) i

theorem range16 : List.range 16 = [0, 1, 2, 3, 4, 5, 6, 7, 8, 9, 10, 11, 12, 13, 14, 15] := by decide
theorem range20 : List.range 20 = [0, 1, 2, 3, 4, 5, 6, 7, 8, 9, 10, 11, 12, 13, 14, 15, 16, 17, 18, 19] := by decide
theorem range24 : List.range 24 = [0, 1, 2, 3, 4, 5, 6, 7, 8, 9, 10, 11, 12, 13, 14, 15, 16, 17, 18, 19, 20, 21, 22, 23] := by decide
theorem range32 : List.range 32 = [0, 1, 2, 3, 4, 5, 6, 7, 8, 9, 10, 11, 12, 13, 14, 15, 16, 17, 18, 19, 20, 21, 22, 23, 24, 25, 26, 27, 28, 29, 30, 31] := by decide

theorem shr_setWidth8 {w : Nat} (x : BitVec w) (n : Nat) : (x >>> n).setWidth 8 = x.extractLsb' n 8 := by
  apply BitVec.eq_of_toNat_eq
  simp [BitVec.toNat_setWidth, BitVec.extractLsb'_toNat]

/-- two `Keys` with the same fields are equal -/
theorem keys_eq (a b : Keys) (hs : a.s = b.s) (hk : a.k.toArray = b.k.toArray) (ht : a.start = b.start) : a = b := by
  cases a with | mk s k st => cases b with | mk s' k' st' =>
  cases k; cases k'
  simp only at hs hk ht
  subst hs; subst hk; subst ht
  rfl
theorem ks_s (m : Array (BitVec 8)) : (keySchedule m).s = sboxKey m (m.size / 8) := rfl
theorem ks_k (m : Array (BitVec 8)) : (keySchedule m).k.toArray = (subkeyList m (m.size / 8)).toArray := rfl
theorem ks_start (m : Array (BitVec 8)) : (keySchedule m).start = match m.size / 8 with | 4 => 0 | 3 => 1 | 2 => 2 | _ => 0 := rfl

/-- the 40 sub-keys of the model's `key_schedule`, listed -/
theorem subkeyList_lit (m : Array (BitVec 8)) (k : Nat) : subkeyList m k = [skV (hA m k 0) (hB m k 0), skT (hA m k 0) (hB m k 0), skV (hA m k 1) (hB m k 1), skT (hA m k 1) (hB m k 1), skV (hA m k 2) (hB m k 2), skT (hA m k 2) (hB m k 2), skV (hA m k 3) (hB m k 3), skT (hA m k 3) (hB m k 3), skV (hA m k 4) (hB m k 4), skT (hA m k 4) (hB m k 4), skV (hA m k 5) (hB m k 5), skT (hA m k 5) (hB m k 5), skV (hA m k 6) (hB m k 6), skT (hA m k 6) (hB m k 6), skV (hA m k 7) (hB m k 7), skT (hA m k 7) (hB m k 7), skV (hA m k 8) (hB m k 8), skT (hA m k 8) (hB m k 8), skV (hA m k 9) (hB m k 9), skT (hA m k 9) (hB m k 9), skV (hA m k 10) (hB m k 10), skT (hA m k 10) (hB m k 10), skV (hA m k 11) (hB m k 11), skT (hA m k 11) (hB m k 11), skV (hA m k 12) (hB m k 12), skT (hA m k 12) (hB m k 12), skV (hA m k 13) (hB m k 13), skT (hA m k 13) (hB m k 13), skV (hA m k 14) (hB m k 14), skT (hA m k 14) (hB m k 14), skV (hA m k 15) (hB m k 15), skT (hA m k 15) (hB m k 15), skV (hA m k 16) (hB m k 16), skT (hA m k 16) (hB m k 16), skV (hA m k 17) (hB m k 17), skT (hA m k 17) (hB m k 17), skV (hA m k 18) (hB m k 18), skT (hA m k 18) (hB m k 18), skV (hA m k 19) (hB m k 19), skT (hA m k 19) (hB m k 19)] := by
  simp only [subkeyList, range20, List.flatMap_cons, List.flatMap_nil, subkeyPair, skV, skT, hA, hB, List.cons_append, List.nil_append, List.append_nil]

/-- `self.s` of the model for a 16-byte key given by explicit bytes -/
theorem sboxKey_16 (b0 b1 b2 b3 b4 b5 b6 b7 b8 b9 b10 b11 b12 b13 b14 b15 : BitVec 8) : sboxKey #[b0, b1, b2, b3, b4, b5, b6, b7, b8, b9, b10, b11, b12, b13, b14, b15] 2 = #[rsE b0 b1 b2 b3 b4 b5 b6 b7 0, rsE b0 b1 b2 b3 b4 b5 b6 b7 1, rsE b0 b1 b2 b3 b4 b5 b6 b7 2, rsE b0 b1 b2 b3 b4 b5 b6 b7 3, rsE b8 b9 b10 b11 b12 b13 b14 b15 0, rsE b8 b9 b10 b11 b12 b13 b14 b15 1, rsE b8 b9 b10 b11 b12 b13 b14 b15 2, rsE b8 b9 b10 b11 b12 b13 b14 b15 3, 0#8, 0#8, 0#8, 0#8, 0#8, 0#8, 0#8, 0#8] := by
  simp only [sboxKey, range16, List.map_toArray, List.map_cons, List.map_nil, Nat.reduceDiv, Nat.reduceMod, Nat.reduceLT, if_true, if_false,
    rsE, rsMultRow, range8, List.foldl, Nat.reduceMul, Nat.reduceAdd, List.getD_cons_zero, List.getD_cons_succ, getD16_0, getD16_1, getD16_2, getD16_3, getD16_4, getD16_5, getD16_6, getD16_7, getD16_8, getD16_9, getD16_10, getD16_11, getD16_12, getD16_13, getD16_14, getD16_15]

/-- the bytes of a 16-byte key (byte 0 = most significant byte of `key`) -/
def arr16 (key : BitVec 128) : Array (BitVec 8) := #[key.extractLsb' 120 8, key.extractLsb' 112 8, key.extractLsb' 104 8, key.extractLsb' 96 8, key.extractLsb' 88 8, key.extractLsb' 80 8, key.extractLsb' 72 8, key.extractLsb' 64 8, key.extractLsb' 56 8, key.extractLsb' 48 8, key.extractLsb' 40 8, key.extractLsb' 32 8, key.extractLsb' 24 8, key.extractLsb' 16 8, key.extractLsb' 8 8, key.extractLsb' 0 8]

theorem unpack_16 (key : BitVec 128) : (unpackBE 16 key).toArray = arr16 key := by
  simp only [unpackBE, range16, List.map_cons, List.map_nil, Nat.reduceSub, Nat.reduceMul, shr_setWidth8, arr16]

/-- the model's key schedule for a 16-byte key, all fields listed -/
def ks16 (key : BitVec 128) : Keys :=
  { s := #[rsE (key.extractLsb' 120 8) (key.extractLsb' 112 8) (key.extractLsb' 104 8) (key.extractLsb' 96 8) (key.extractLsb' 88 8) (key.extractLsb' 80 8) (key.extractLsb' 72 8) (key.extractLsb' 64 8) 0, rsE (key.extractLsb' 120 8) (key.extractLsb' 112 8) (key.extractLsb' 104 8) (key.extractLsb' 96 8) (key.extractLsb' 88 8) (key.extractLsb' 80 8) (key.extractLsb' 72 8) (key.extractLsb' 64 8) 1, rsE (key.extractLsb' 120 8) (key.extractLsb' 112 8) (key.extractLsb' 104 8) (key.extractLsb' 96 8) (key.extractLsb' 88 8) (key.extractLsb' 80 8) (key.extractLsb' 72 8) (key.extractLsb' 64 8) 2, rsE (key.extractLsb' 120 8) (key.extractLsb' 112 8) (key.extractLsb' 104 8) (key.extractLsb' 96 8) (key.extractLsb' 88 8) (key.extractLsb' 80 8) (key.extractLsb' 72 8) (key.extractLsb' 64 8) 3, rsE (key.extractLsb' 56 8) (key.extractLsb' 48 8) (key.extractLsb' 40 8) (key.extractLsb' 32 8) (key.extractLsb' 24 8) (key.extractLsb' 16 8) (key.extractLsb' 8 8) (key.extractLsb' 0 8) 0, rsE (key.extractLsb' 56 8) (key.extractLsb' 48 8) (key.extractLsb' 40 8) (key.extractLsb' 32 8) (key.extractLsb' 24 8) (key.extractLsb' 16 8) (key.extractLsb' 8 8) (key.extractLsb' 0 8) 1, rsE (key.extractLsb' 56 8) (key.extractLsb' 48 8) (key.extractLsb' 40 8) (key.extractLsb' 32 8) (key.extractLsb' 24 8) (key.extractLsb' 16 8) (key.extractLsb' 8 8) (key.extractLsb' 0 8) 2, rsE (key.extractLsb' 56 8) (key.extractLsb' 48 8) (key.extractLsb' 40 8) (key.extractLsb' 32 8) (key.extractLsb' 24 8) (key.extractLsb' 16 8) (key.extractLsb' 8 8) (key.extractLsb' 0 8) 3, 0#8, 0#8, 0#8, 0#8, 0#8, 0#8, 0#8, 0#8],
    k := ⟨#[skV (hA (arr16 key) 2 0) (hB (arr16 key) 2 0), skT (hA (arr16 key) 2 0) (hB (arr16 key) 2 0), skV (hA (arr16 key) 2 1) (hB (arr16 key) 2 1), skT (hA (arr16 key) 2 1) (hB (arr16 key) 2 1), skV (hA (arr16 key) 2 2) (hB (arr16 key) 2 2), skT (hA (arr16 key) 2 2) (hB (arr16 key) 2 2), skV (hA (arr16 key) 2 3) (hB (arr16 key) 2 3), skT (hA (arr16 key) 2 3) (hB (arr16 key) 2 3), skV (hA (arr16 key) 2 4) (hB (arr16 key) 2 4), skT (hA (arr16 key) 2 4) (hB (arr16 key) 2 4), skV (hA (arr16 key) 2 5) (hB (arr16 key) 2 5), skT (hA (arr16 key) 2 5) (hB (arr16 key) 2 5), skV (hA (arr16 key) 2 6) (hB (arr16 key) 2 6), skT (hA (arr16 key) 2 6) (hB (arr16 key) 2 6), skV (hA (arr16 key) 2 7) (hB (arr16 key) 2 7), skT (hA (arr16 key) 2 7) (hB (arr16 key) 2 7), skV (hA (arr16 key) 2 8) (hB (arr16 key) 2 8), skT (hA (arr16 key) 2 8) (hB (arr16 key) 2 8), skV (hA (arr16 key) 2 9) (hB (arr16 key) 2 9), skT (hA (arr16 key) 2 9) (hB (arr16 key) 2 9), skV (hA (arr16 key) 2 10) (hB (arr16 key) 2 10), skT (hA (arr16 key) 2 10) (hB (arr16 key) 2 10), skV (hA (arr16 key) 2 11) (hB (arr16 key) 2 11), skT (hA (arr16 key) 2 11) (hB (arr16 key) 2 11), skV (hA (arr16 key) 2 12) (hB (arr16 key) 2 12), skT (hA (arr16 key) 2 12) (hB (arr16 key) 2 12), skV (hA (arr16 key) 2 13) (hB (arr16 key) 2 13), skT (hA (arr16 key) 2 13) (hB (arr16 key) 2 13), skV (hA (arr16 key) 2 14) (hB (arr16 key) 2 14), skT (hA (arr16 key) 2 14) (hB (arr16 key) 2 14), skV (hA (arr16 key) 2 15) (hB (arr16 key) 2 15), skT (hA (arr16 key) 2 15) (hB (arr16 key) 2 15), skV (hA (arr16 key) 2 16) (hB (arr16 key) 2 16), skT (hA (arr16 key) 2 16) (hB (arr16 key) 2 16), skV (hA (arr16 key) 2 17) (hB (arr16 key) 2 17), skT (hA (arr16 key) 2 17) (hB (arr16 key) 2 17), skV (hA (arr16 key) 2 18) (hB (arr16 key) 2 18), skT (hA (arr16 key) 2 18) (hB (arr16 key) 2 18), skV (hA (arr16 key) 2 19) (hB (arr16 key) 2 19), skT (hA (arr16 key) 2 19) (hB (arr16 key) 2 19)], rfl⟩,
    start := 2 }

theorem size_arr16 (key : BitVec 128) : (arr16 key).size / 8 = 2 := by
  simp only [arr16, List.size_toArray, List.length_cons, List.length_nil, Nat.reduceAdd, Nat.reduceDiv]

theorem keySchedule_arr16 (key : BitVec 128) : keySchedule (arr16 key) = ks16 key := by
  apply keys_eq
  · rw [ks_s, size_arr16]; exact sboxKey_16 ..
  · rw [ks_k, size_arr16, subkeyList_lit]; rfl
  · rw [ks_start, size_arr16]; rfl

theorem keySchedule_16 (key : BitVec 128) : keySchedule (unpackBE 16 key).toArray = ks16 key := by
  rw [unpack_16, keySchedule_arr16]

/-- the regenerated `Twofish::new_from_slice` for a 16-byte key builds exactly the model's `keySchedule` (S-box key words `s`,
the 40 sub-keys `k`, `start`), for all keys -/
theorem new_from_slice_16_eq (key : BitVec 128) :
    twofish_new_from_slice_16 key = ksTuple (keySchedule (unpackBE 16 key).toArray) := by
  rw [keySchedule_16]
  unfold twofish_new_from_slice_16
  extract_lets -merge
  name_lets
  have S0 : (out_7, out_15, out_23, out_31) = (rsE (key.extractLsb' 120 8) (key.extractLsb' 112 8) (key.extractLsb' 104 8) (key.extractLsb' 96 8) (key.extractLsb' 88 8) (key.extractLsb' 80 8) (key.extractLsb' 72 8) (key.extractLsb' 64 8) 0, rsE (key.extractLsb' 120 8) (key.extractLsb' 112 8) (key.extractLsb' 104 8) (key.extractLsb' 96 8) (key.extractLsb' 88 8) (key.extractLsb' 80 8) (key.extractLsb' 72 8) (key.extractLsb' 64 8) 1, rsE (key.extractLsb' 120 8) (key.extractLsb' 112 8) (key.extractLsb' 104 8) (key.extractLsb' 96 8) (key.extractLsb' 88 8) (key.extractLsb' 80 8) (key.extractLsb' 72 8) (key.extractLsb' 64 8) 2, rsE (key.extractLsb' 120 8) (key.extractLsb' 112 8) (key.extractLsb' 104 8) (key.extractLsb' 96 8) (key.extractLsb' 88 8) (key.extractLsb' 80 8) (key.extractLsb' 72 8) (key.extractLsb' 64 8) 3) := (rfl : _ = twofish_rs_mult (key.extractLsb' 120 8) (key.extractLsb' 112 8) (key.extractLsb' 104 8) (key.extractLsb' 96 8) (key.extractLsb' 88 8) (key.extractLsb' 80 8) (key.extractLsb' 72 8) (key.extractLsb' 64 8)).trans (rs_mult_eq ..)
  have a0 : out_7 = rsE (key.extractLsb' 120 8) (key.extractLsb' 112 8) (key.extractLsb' 104 8) (key.extractLsb' 96 8) (key.extractLsb' 88 8) (key.extractLsb' 80 8) (key.extractLsb' 72 8) (key.extractLsb' 64 8) 0 := congrArg (·.1) S0
  have a1 : out_15 = rsE (key.extractLsb' 120 8) (key.extractLsb' 112 8) (key.extractLsb' 104 8) (key.extractLsb' 96 8) (key.extractLsb' 88 8) (key.extractLsb' 80 8) (key.extractLsb' 72 8) (key.extractLsb' 64 8) 1 := congrArg (·.2.1) S0
  have a2 : out_23 = rsE (key.extractLsb' 120 8) (key.extractLsb' 112 8) (key.extractLsb' 104 8) (key.extractLsb' 96 8) (key.extractLsb' 88 8) (key.extractLsb' 80 8) (key.extractLsb' 72 8) (key.extractLsb' 64 8) 2 := congrArg (·.2.2.1) S0
  have a3 : out_31 = rsE (key.extractLsb' 120 8) (key.extractLsb' 112 8) (key.extractLsb' 104 8) (key.extractLsb' 96 8) (key.extractLsb' 88 8) (key.extractLsb' 80 8) (key.extractLsb' 72 8) (key.extractLsb' 64 8) 3 := congrArg (·.2.2.2) S0
  have S1 : (out_39, out_47, out_55, out_63) = (rsE (key.extractLsb' 56 8) (key.extractLsb' 48 8) (key.extractLsb' 40 8) (key.extractLsb' 32 8) (key.extractLsb' 24 8) (key.extractLsb' 16 8) (key.extractLsb' 8 8) (key.extractLsb' 0 8) 0, rsE (key.extractLsb' 56 8) (key.extractLsb' 48 8) (key.extractLsb' 40 8) (key.extractLsb' 32 8) (key.extractLsb' 24 8) (key.extractLsb' 16 8) (key.extractLsb' 8 8) (key.extractLsb' 0 8) 1, rsE (key.extractLsb' 56 8) (key.extractLsb' 48 8) (key.extractLsb' 40 8) (key.extractLsb' 32 8) (key.extractLsb' 24 8) (key.extractLsb' 16 8) (key.extractLsb' 8 8) (key.extractLsb' 0 8) 2, rsE (key.extractLsb' 56 8) (key.extractLsb' 48 8) (key.extractLsb' 40 8) (key.extractLsb' 32 8) (key.extractLsb' 24 8) (key.extractLsb' 16 8) (key.extractLsb' 8 8) (key.extractLsb' 0 8) 3) := (rfl : _ = twofish_rs_mult (key.extractLsb' 56 8) (key.extractLsb' 48 8) (key.extractLsb' 40 8) (key.extractLsb' 32 8) (key.extractLsb' 24 8) (key.extractLsb' 16 8) (key.extractLsb' 8 8) (key.extractLsb' 0 8)).trans (rs_mult_eq ..)
  have a4 : out_39 = rsE (key.extractLsb' 56 8) (key.extractLsb' 48 8) (key.extractLsb' 40 8) (key.extractLsb' 32 8) (key.extractLsb' 24 8) (key.extractLsb' 16 8) (key.extractLsb' 8 8) (key.extractLsb' 0 8) 0 := congrArg (·.1) S1
  have a5 : out_47 = rsE (key.extractLsb' 56 8) (key.extractLsb' 48 8) (key.extractLsb' 40 8) (key.extractLsb' 32 8) (key.extractLsb' 24 8) (key.extractLsb' 16 8) (key.extractLsb' 8 8) (key.extractLsb' 0 8) 1 := congrArg (·.2.1) S1
  have a6 : out_55 = rsE (key.extractLsb' 56 8) (key.extractLsb' 48 8) (key.extractLsb' 40 8) (key.extractLsb' 32 8) (key.extractLsb' 24 8) (key.extractLsb' 16 8) (key.extractLsb' 8 8) (key.extractLsb' 0 8) 2 := congrArg (·.2.2.1) S1
  have a7 : out_63 = rsE (key.extractLsb' 56 8) (key.extractLsb' 48 8) (key.extractLsb' 40 8) (key.extractLsb' 32 8) (key.extractLsb' 24 8) (key.extractLsb' 16 8) (key.extractLsb' 8 8) (key.extractLsb' 0 8) 3 := congrArg (·.2.2.2) S1
  have ZA0 : z_3 = hA (arr16 key) 2 0 := (rfl : _ = twofish_h_2_0 (rho * (2#32 * BitVec.ofNat 32 0)) key).trans (h_2_0_eq _ key)
  have ZB0 : z_7 = hB (arr16 key) 2 0 := (rfl : _ = twofish_h_2_1 (rho * (2#32 * BitVec.ofNat 32 0 + 1#32)) key).trans (h_2_1_eq _ key)
  have V0 : v = skV (hA (arr16 key) 2 0) (hB (arr16 key) 2 0) := (rfl : _ = skV z_3 z_7).trans (by rw [ZA0, ZB0])
  have T0 : t = skT (hA (arr16 key) 2 0) (hB (arr16 key) 2 0) := (rfl : _ = skT z_3 z_7).trans (by rw [ZA0, ZB0])
  have ZA1 : z_11 = hA (arr16 key) 2 1 := (rfl : _ = twofish_h_2_0 (rho * (2#32 * BitVec.ofNat 32 1)) key).trans (h_2_0_eq _ key)
  have ZB1 : z_15 = hB (arr16 key) 2 1 := (rfl : _ = twofish_h_2_1 (rho * (2#32 * BitVec.ofNat 32 1 + 1#32)) key).trans (h_2_1_eq _ key)
  have V1 : v_1 = skV (hA (arr16 key) 2 1) (hB (arr16 key) 2 1) := (rfl : _ = skV z_11 z_15).trans (by rw [ZA1, ZB1])
  have T1 : t_1 = skT (hA (arr16 key) 2 1) (hB (arr16 key) 2 1) := (rfl : _ = skT z_11 z_15).trans (by rw [ZA1, ZB1])
  have ZA2 : z_19 = hA (arr16 key) 2 2 := (rfl : _ = twofish_h_2_0 (rho * (2#32 * BitVec.ofNat 32 2)) key).trans (h_2_0_eq _ key)
  have ZB2 : z_23 = hB (arr16 key) 2 2 := (rfl : _ = twofish_h_2_1 (rho * (2#32 * BitVec.ofNat 32 2 + 1#32)) key).trans (h_2_1_eq _ key)
  have V2 : v_2 = skV (hA (arr16 key) 2 2) (hB (arr16 key) 2 2) := (rfl : _ = skV z_19 z_23).trans (by rw [ZA2, ZB2])
  have T2 : t_2 = skT (hA (arr16 key) 2 2) (hB (arr16 key) 2 2) := (rfl : _ = skT z_19 z_23).trans (by rw [ZA2, ZB2])
  have ZA3 : z_27 = hA (arr16 key) 2 3 := (rfl : _ = twofish_h_2_0 (rho * (2#32 * BitVec.ofNat 32 3)) key).trans (h_2_0_eq _ key)
  have ZB3 : z_31 = hB (arr16 key) 2 3 := (rfl : _ = twofish_h_2_1 (rho * (2#32 * BitVec.ofNat 32 3 + 1#32)) key).trans (h_2_1_eq _ key)
  have V3 : v_3 = skV (hA (arr16 key) 2 3) (hB (arr16 key) 2 3) := (rfl : _ = skV z_27 z_31).trans (by rw [ZA3, ZB3])
  have T3 : t_3 = skT (hA (arr16 key) 2 3) (hB (arr16 key) 2 3) := (rfl : _ = skT z_27 z_31).trans (by rw [ZA3, ZB3])
  have ZA4 : z_35 = hA (arr16 key) 2 4 := (rfl : _ = twofish_h_2_0 (rho * (2#32 * BitVec.ofNat 32 4)) key).trans (h_2_0_eq _ key)
  have ZB4 : z_39 = hB (arr16 key) 2 4 := (rfl : _ = twofish_h_2_1 (rho * (2#32 * BitVec.ofNat 32 4 + 1#32)) key).trans (h_2_1_eq _ key)
  have V4 : v_4 = skV (hA (arr16 key) 2 4) (hB (arr16 key) 2 4) := (rfl : _ = skV z_35 z_39).trans (by rw [ZA4, ZB4])
  have T4 : t_4 = skT (hA (arr16 key) 2 4) (hB (arr16 key) 2 4) := (rfl : _ = skT z_35 z_39).trans (by rw [ZA4, ZB4])
  have ZA5 : z_43 = hA (arr16 key) 2 5 := (rfl : _ = twofish_h_2_0 (rho * (2#32 * BitVec.ofNat 32 5)) key).trans (h_2_0_eq _ key)
  have ZB5 : z_47 = hB (arr16 key) 2 5 := (rfl : _ = twofish_h_2_1 (rho * (2#32 * BitVec.ofNat 32 5 + 1#32)) key).trans (h_2_1_eq _ key)
  have V5 : v_5 = skV (hA (arr16 key) 2 5) (hB (arr16 key) 2 5) := (rfl : _ = skV z_43 z_47).trans (by rw [ZA5, ZB5])
  have T5 : t_5 = skT (hA (arr16 key) 2 5) (hB (arr16 key) 2 5) := (rfl : _ = skT z_43 z_47).trans (by rw [ZA5, ZB5])
  have ZA6 : z_51 = hA (arr16 key) 2 6 := (rfl : _ = twofish_h_2_0 (rho * (2#32 * BitVec.ofNat 32 6)) key).trans (h_2_0_eq _ key)
  have ZB6 : z_55 = hB (arr16 key) 2 6 := (rfl : _ = twofish_h_2_1 (rho * (2#32 * BitVec.ofNat 32 6 + 1#32)) key).trans (h_2_1_eq _ key)
  have V6 : v_6 = skV (hA (arr16 key) 2 6) (hB (arr16 key) 2 6) := (rfl : _ = skV z_51 z_55).trans (by rw [ZA6, ZB6])
  have T6 : t_6 = skT (hA (arr16 key) 2 6) (hB (arr16 key) 2 6) := (rfl : _ = skT z_51 z_55).trans (by rw [ZA6, ZB6])
  have ZA7 : z_59 = hA (arr16 key) 2 7 := (rfl : _ = twofish_h_2_0 (rho * (2#32 * BitVec.ofNat 32 7)) key).trans (h_2_0_eq _ key)
  have ZB7 : z_63 = hB (arr16 key) 2 7 := (rfl : _ = twofish_h_2_1 (rho * (2#32 * BitVec.ofNat 32 7 + 1#32)) key).trans (h_2_1_eq _ key)
  have V7 : v_7 = skV (hA (arr16 key) 2 7) (hB (arr16 key) 2 7) := (rfl : _ = skV z_59 z_63).trans (by rw [ZA7, ZB7])
  have T7 : t_7 = skT (hA (arr16 key) 2 7) (hB (arr16 key) 2 7) := (rfl : _ = skT z_59 z_63).trans (by rw [ZA7, ZB7])
  have ZA8 : z_67 = hA (arr16 key) 2 8 := (rfl : _ = twofish_h_2_0 (rho * (2#32 * BitVec.ofNat 32 8)) key).trans (h_2_0_eq _ key)
  have ZB8 : z_71 = hB (arr16 key) 2 8 := (rfl : _ = twofish_h_2_1 (rho * (2#32 * BitVec.ofNat 32 8 + 1#32)) key).trans (h_2_1_eq _ key)
  have V8 : v_8 = skV (hA (arr16 key) 2 8) (hB (arr16 key) 2 8) := (rfl : _ = skV z_67 z_71).trans (by rw [ZA8, ZB8])
  have T8 : t_8 = skT (hA (arr16 key) 2 8) (hB (arr16 key) 2 8) := (rfl : _ = skT z_67 z_71).trans (by rw [ZA8, ZB8])
  have ZA9 : z_75 = hA (arr16 key) 2 9 := (rfl : _ = twofish_h_2_0 (rho * (2#32 * BitVec.ofNat 32 9)) key).trans (h_2_0_eq _ key)
  have ZB9 : z_79 = hB (arr16 key) 2 9 := (rfl : _ = twofish_h_2_1 (rho * (2#32 * BitVec.ofNat 32 9 + 1#32)) key).trans (h_2_1_eq _ key)
  have V9 : v_9 = skV (hA (arr16 key) 2 9) (hB (arr16 key) 2 9) := (rfl : _ = skV z_75 z_79).trans (by rw [ZA9, ZB9])
  have T9 : t_9 = skT (hA (arr16 key) 2 9) (hB (arr16 key) 2 9) := (rfl : _ = skT z_75 z_79).trans (by rw [ZA9, ZB9])
  have ZA10 : z_83 = hA (arr16 key) 2 10 := (rfl : _ = twofish_h_2_0 (rho * (2#32 * BitVec.ofNat 32 10)) key).trans (h_2_0_eq _ key)
  have ZB10 : z_87 = hB (arr16 key) 2 10 := (rfl : _ = twofish_h_2_1 (rho * (2#32 * BitVec.ofNat 32 10 + 1#32)) key).trans (h_2_1_eq _ key)
  have V10 : v_10 = skV (hA (arr16 key) 2 10) (hB (arr16 key) 2 10) := (rfl : _ = skV z_83 z_87).trans (by rw [ZA10, ZB10])
  have T10 : t_10 = skT (hA (arr16 key) 2 10) (hB (arr16 key) 2 10) := (rfl : _ = skT z_83 z_87).trans (by rw [ZA10, ZB10])
  have ZA11 : z_91 = hA (arr16 key) 2 11 := (rfl : _ = twofish_h_2_0 (rho * (2#32 * BitVec.ofNat 32 11)) key).trans (h_2_0_eq _ key)
  have ZB11 : z_95 = hB (arr16 key) 2 11 := (rfl : _ = twofish_h_2_1 (rho * (2#32 * BitVec.ofNat 32 11 + 1#32)) key).trans (h_2_1_eq _ key)
  have V11 : v_11 = skV (hA (arr16 key) 2 11) (hB (arr16 key) 2 11) := (rfl : _ = skV z_91 z_95).trans (by rw [ZA11, ZB11])
  have T11 : t_11 = skT (hA (arr16 key) 2 11) (hB (arr16 key) 2 11) := (rfl : _ = skT z_91 z_95).trans (by rw [ZA11, ZB11])
  have ZA12 : z_99 = hA (arr16 key) 2 12 := (rfl : _ = twofish_h_2_0 (rho * (2#32 * BitVec.ofNat 32 12)) key).trans (h_2_0_eq _ key)
  have ZB12 : z_103 = hB (arr16 key) 2 12 := (rfl : _ = twofish_h_2_1 (rho * (2#32 * BitVec.ofNat 32 12 + 1#32)) key).trans (h_2_1_eq _ key)
  have V12 : v_12 = skV (hA (arr16 key) 2 12) (hB (arr16 key) 2 12) := (rfl : _ = skV z_99 z_103).trans (by rw [ZA12, ZB12])
  have T12 : t_12 = skT (hA (arr16 key) 2 12) (hB (arr16 key) 2 12) := (rfl : _ = skT z_99 z_103).trans (by rw [ZA12, ZB12])
  have ZA13 : z_107 = hA (arr16 key) 2 13 := (rfl : _ = twofish_h_2_0 (rho * (2#32 * BitVec.ofNat 32 13)) key).trans (h_2_0_eq _ key)
  have ZB13 : z_111 = hB (arr16 key) 2 13 := (rfl : _ = twofish_h_2_1 (rho * (2#32 * BitVec.ofNat 32 13 + 1#32)) key).trans (h_2_1_eq _ key)
  have V13 : v_13 = skV (hA (arr16 key) 2 13) (hB (arr16 key) 2 13) := (rfl : _ = skV z_107 z_111).trans (by rw [ZA13, ZB13])
  have T13 : t_13 = skT (hA (arr16 key) 2 13) (hB (arr16 key) 2 13) := (rfl : _ = skT z_107 z_111).trans (by rw [ZA13, ZB13])
  have ZA14 : z_115 = hA (arr16 key) 2 14 := (rfl : _ = twofish_h_2_0 (rho * (2#32 * BitVec.ofNat 32 14)) key).trans (h_2_0_eq _ key)
  have ZB14 : z_119 = hB (arr16 key) 2 14 := (rfl : _ = twofish_h_2_1 (rho * (2#32 * BitVec.ofNat 32 14 + 1#32)) key).trans (h_2_1_eq _ key)
  have V14 : v_14 = skV (hA (arr16 key) 2 14) (hB (arr16 key) 2 14) := (rfl : _ = skV z_115 z_119).trans (by rw [ZA14, ZB14])
  have T14 : t_14 = skT (hA (arr16 key) 2 14) (hB (arr16 key) 2 14) := (rfl : _ = skT z_115 z_119).trans (by rw [ZA14, ZB14])
  have ZA15 : z_123 = hA (arr16 key) 2 15 := (rfl : _ = twofish_h_2_0 (rho * (2#32 * BitVec.ofNat 32 15)) key).trans (h_2_0_eq _ key)
  have ZB15 : z_127 = hB (arr16 key) 2 15 := (rfl : _ = twofish_h_2_1 (rho * (2#32 * BitVec.ofNat 32 15 + 1#32)) key).trans (h_2_1_eq _ key)
  have V15 : v_15 = skV (hA (arr16 key) 2 15) (hB (arr16 key) 2 15) := (rfl : _ = skV z_123 z_127).trans (by rw [ZA15, ZB15])
  have T15 : t_15 = skT (hA (arr16 key) 2 15) (hB (arr16 key) 2 15) := (rfl : _ = skT z_123 z_127).trans (by rw [ZA15, ZB15])
  have ZA16 : z_131 = hA (arr16 key) 2 16 := (rfl : _ = twofish_h_2_0 (rho * (2#32 * BitVec.ofNat 32 16)) key).trans (h_2_0_eq _ key)
  have ZB16 : z_135 = hB (arr16 key) 2 16 := (rfl : _ = twofish_h_2_1 (rho * (2#32 * BitVec.ofNat 32 16 + 1#32)) key).trans (h_2_1_eq _ key)
  have V16 : v_16 = skV (hA (arr16 key) 2 16) (hB (arr16 key) 2 16) := (rfl : _ = skV z_131 z_135).trans (by rw [ZA16, ZB16])
  have T16 : t_16 = skT (hA (arr16 key) 2 16) (hB (arr16 key) 2 16) := (rfl : _ = skT z_131 z_135).trans (by rw [ZA16, ZB16])
  have ZA17 : z_139 = hA (arr16 key) 2 17 := (rfl : _ = twofish_h_2_0 (rho * (2#32 * BitVec.ofNat 32 17)) key).trans (h_2_0_eq _ key)
  have ZB17 : z_143 = hB (arr16 key) 2 17 := (rfl : _ = twofish_h_2_1 (rho * (2#32 * BitVec.ofNat 32 17 + 1#32)) key).trans (h_2_1_eq _ key)
  have V17 : v_17 = skV (hA (arr16 key) 2 17) (hB (arr16 key) 2 17) := (rfl : _ = skV z_139 z_143).trans (by rw [ZA17, ZB17])
  have T17 : t_17 = skT (hA (arr16 key) 2 17) (hB (arr16 key) 2 17) := (rfl : _ = skT z_139 z_143).trans (by rw [ZA17, ZB17])
  have ZA18 : z_147 = hA (arr16 key) 2 18 := (rfl : _ = twofish_h_2_0 (rho * (2#32 * BitVec.ofNat 32 18)) key).trans (h_2_0_eq _ key)
  have ZB18 : z_151 = hB (arr16 key) 2 18 := (rfl : _ = twofish_h_2_1 (rho * (2#32 * BitVec.ofNat 32 18 + 1#32)) key).trans (h_2_1_eq _ key)
  have V18 : v_18 = skV (hA (arr16 key) 2 18) (hB (arr16 key) 2 18) := (rfl : _ = skV z_147 z_151).trans (by rw [ZA18, ZB18])
  have T18 : t_18 = skT (hA (arr16 key) 2 18) (hB (arr16 key) 2 18) := (rfl : _ = skT z_147 z_151).trans (by rw [ZA18, ZB18])
  have ZA19 : z_155 = hA (arr16 key) 2 19 := (rfl : _ = twofish_h_2_0 (rho * (2#32 * BitVec.ofNat 32 19)) key).trans (h_2_0_eq _ key)
  have ZB19 : z_159 = hB (arr16 key) 2 19 := (rfl : _ = twofish_h_2_1 (rho * (2#32 * BitVec.ofNat 32 19 + 1#32)) key).trans (h_2_1_eq _ key)
  have V19 : v_19 = skV (hA (arr16 key) 2 19) (hB (arr16 key) 2 19) := (rfl : _ = skV z_155 z_159).trans (by rw [ZA19, ZB19])
  have T19 : t_19 = skT (hA (arr16 key) 2 19) (hB (arr16 key) 2 19) := (rfl : _ = skT z_155 z_159).trans (by rw [ZA19, ZB19])
  rw [a0, a1, a2, a3, a4, a5, a6, a7, V0, T0, V1, T1, V2, T2, V3, T3, V4, T4, V5, T5, V6, T6, V7, T7, V8, T8, V9, T9, V10, T10, V11, T11, V12, T12, V13, T13, V14, T14, V15, T15, V16, T16, V17, T17, V18, T18, V19, T19]
  rfl

/-- `self.s` of the model for a 24-byte key given by explicit bytes -/
theorem sboxKey_24 (b0 b1 b2 b3 b4 b5 b6 b7 b8 b9 b10 b11 b12 b13 b14 b15 b16 b17 b18 b19 b20 b21 b22 b23 : BitVec 8) : sboxKey #[b0, b1, b2, b3, b4, b5, b6, b7, b8, b9, b10, b11, b12, b13, b14, b15, b16, b17, b18, b19, b20, b21, b22, b23] 3 = #[rsE b0 b1 b2 b3 b4 b5 b6 b7 0, rsE b0 b1 b2 b3 b4 b5 b6 b7 1, rsE b0 b1 b2 b3 b4 b5 b6 b7 2, rsE b0 b1 b2 b3 b4 b5 b6 b7 3, rsE b8 b9 b10 b11 b12 b13 b14 b15 0, rsE b8 b9 b10 b11 b12 b13 b14 b15 1, rsE b8 b9 b10 b11 b12 b13 b14 b15 2, rsE b8 b9 b10 b11 b12 b13 b14 b15 3, rsE b16 b17 b18 b19 b20 b21 b22 b23 0, rsE b16 b17 b18 b19 b20 b21 b22 b23 1, rsE b16 b17 b18 b19 b20 b21 b22 b23 2, rsE b16 b17 b18 b19 b20 b21 b22 b23 3, 0#8, 0#8, 0#8, 0#8] := by
  simp only [sboxKey, range16, List.map_toArray, List.map_cons, List.map_nil, Nat.reduceDiv, Nat.reduceMod, Nat.reduceLT, if_true, if_false,
    rsE, rsMultRow, range8, List.foldl, Nat.reduceMul, Nat.reduceAdd, List.getD_cons_zero, List.getD_cons_succ, getD24_0, getD24_1, getD24_2, getD24_3, getD24_4, getD24_5, getD24_6, getD24_7, getD24_8, getD24_9, getD24_10, getD24_11, getD24_12, getD24_13, getD24_14, getD24_15, getD24_16, getD24_17, getD24_18, getD24_19, getD24_20, getD24_21, getD24_22, getD24_23]

/-- the bytes of a 24-byte key (byte 0 = most significant byte of `key`) -/
def arr24 (key : BitVec 192) : Array (BitVec 8) := #[key.extractLsb' 184 8, key.extractLsb' 176 8, key.extractLsb' 168 8, key.extractLsb' 160 8, key.extractLsb' 152 8, key.extractLsb' 144 8, key.extractLsb' 136 8, key.extractLsb' 128 8, key.extractLsb' 120 8, key.extractLsb' 112 8, key.extractLsb' 104 8, key.extractLsb' 96 8, key.extractLsb' 88 8, key.extractLsb' 80 8, key.extractLsb' 72 8, key.extractLsb' 64 8, key.extractLsb' 56 8, key.extractLsb' 48 8, key.extractLsb' 40 8, key.extractLsb' 32 8, key.extractLsb' 24 8, key.extractLsb' 16 8, key.extractLsb' 8 8, key.extractLsb' 0 8]

theorem unpack_24 (key : BitVec 192) : (unpackBE 24 key).toArray = arr24 key := by
  simp only [unpackBE, range24, List.map_cons, List.map_nil, Nat.reduceSub, Nat.reduceMul, shr_setWidth8, arr24]

/-- the model's key schedule for a 24-byte key, all fields listed -/
def ks24 (key : BitVec 192) : Keys :=
  { s := #[rsE (key.extractLsb' 184 8) (key.extractLsb' 176 8) (key.extractLsb' 168 8) (key.extractLsb' 160 8) (key.extractLsb' 152 8) (key.extractLsb' 144 8) (key.extractLsb' 136 8) (key.extractLsb' 128 8) 0, rsE (key.extractLsb' 184 8) (key.extractLsb' 176 8) (key.extractLsb' 168 8) (key.extractLsb' 160 8) (key.extractLsb' 152 8) (key.extractLsb' 144 8) (key.extractLsb' 136 8) (key.extractLsb' 128 8) 1, rsE (key.extractLsb' 184 8) (key.extractLsb' 176 8) (key.extractLsb' 168 8) (key.extractLsb' 160 8) (key.extractLsb' 152 8) (key.extractLsb' 144 8) (key.extractLsb' 136 8) (key.extractLsb' 128 8) 2, rsE (key.extractLsb' 184 8) (key.extractLsb' 176 8) (key.extractLsb' 168 8) (key.extractLsb' 160 8) (key.extractLsb' 152 8) (key.extractLsb' 144 8) (key.extractLsb' 136 8) (key.extractLsb' 128 8) 3, rsE (key.extractLsb' 120 8) (key.extractLsb' 112 8) (key.extractLsb' 104 8) (key.extractLsb' 96 8) (key.extractLsb' 88 8) (key.extractLsb' 80 8) (key.extractLsb' 72 8) (key.extractLsb' 64 8) 0, rsE (key.extractLsb' 120 8) (key.extractLsb' 112 8) (key.extractLsb' 104 8) (key.extractLsb' 96 8) (key.extractLsb' 88 8) (key.extractLsb' 80 8) (key.extractLsb' 72 8) (key.extractLsb' 64 8) 1, rsE (key.extractLsb' 120 8) (key.extractLsb' 112 8) (key.extractLsb' 104 8) (key.extractLsb' 96 8) (key.extractLsb' 88 8) (key.extractLsb' 80 8) (key.extractLsb' 72 8) (key.extractLsb' 64 8) 2, rsE (key.extractLsb' 120 8) (key.extractLsb' 112 8) (key.extractLsb' 104 8) (key.extractLsb' 96 8) (key.extractLsb' 88 8) (key.extractLsb' 80 8) (key.extractLsb' 72 8) (key.extractLsb' 64 8) 3, rsE (key.extractLsb' 56 8) (key.extractLsb' 48 8) (key.extractLsb' 40 8) (key.extractLsb' 32 8) (key.extractLsb' 24 8) (key.extractLsb' 16 8) (key.extractLsb' 8 8) (key.extractLsb' 0 8) 0, rsE (key.extractLsb' 56 8) (key.extractLsb' 48 8) (key.extractLsb' 40 8) (key.extractLsb' 32 8) (key.extractLsb' 24 8) (key.extractLsb' 16 8) (key.extractLsb' 8 8) (key.extractLsb' 0 8) 1, rsE (key.extractLsb' 56 8) (key.extractLsb' 48 8) (key.extractLsb' 40 8) (key.extractLsb' 32 8) (key.extractLsb' 24 8) (key.extractLsb' 16 8) (key.extractLsb' 8 8) (key.extractLsb' 0 8) 2, rsE (key.extractLsb' 56 8) (key.extractLsb' 48 8) (key.extractLsb' 40 8) (key.extractLsb' 32 8) (key.extractLsb' 24 8) (key.extractLsb' 16 8) (key.extractLsb' 8 8) (key.extractLsb' 0 8) 3, 0#8, 0#8, 0#8, 0#8],
    k := ⟨#[skV (hA (arr24 key) 3 0) (hB (arr24 key) 3 0), skT (hA (arr24 key) 3 0) (hB (arr24 key) 3 0), skV (hA (arr24 key) 3 1) (hB (arr24 key) 3 1), skT (hA (arr24 key) 3 1) (hB (arr24 key) 3 1), skV (hA (arr24 key) 3 2) (hB (arr24 key) 3 2), skT (hA (arr24 key) 3 2) (hB (arr24 key) 3 2), skV (hA (arr24 key) 3 3) (hB (arr24 key) 3 3), skT (hA (arr24 key) 3 3) (hB (arr24 key) 3 3), skV (hA (arr24 key) 3 4) (hB (arr24 key) 3 4), skT (hA (arr24 key) 3 4) (hB (arr24 key) 3 4), skV (hA (arr24 key) 3 5) (hB (arr24 key) 3 5), skT (hA (arr24 key) 3 5) (hB (arr24 key) 3 5), skV (hA (arr24 key) 3 6) (hB (arr24 key) 3 6), skT (hA (arr24 key) 3 6) (hB (arr24 key) 3 6), skV (hA (arr24 key) 3 7) (hB (arr24 key) 3 7), skT (hA (arr24 key) 3 7) (hB (arr24 key) 3 7), skV (hA (arr24 key) 3 8) (hB (arr24 key) 3 8), skT (hA (arr24 key) 3 8) (hB (arr24 key) 3 8), skV (hA (arr24 key) 3 9) (hB (arr24 key) 3 9), skT (hA (arr24 key) 3 9) (hB (arr24 key) 3 9), skV (hA (arr24 key) 3 10) (hB (arr24 key) 3 10), skT (hA (arr24 key) 3 10) (hB (arr24 key) 3 10), skV (hA (arr24 key) 3 11) (hB (arr24 key) 3 11), skT (hA (arr24 key) 3 11) (hB (arr24 key) 3 11), skV (hA (arr24 key) 3 12) (hB (arr24 key) 3 12), skT (hA (arr24 key) 3 12) (hB (arr24 key) 3 12), skV (hA (arr24 key) 3 13) (hB (arr24 key) 3 13), skT (hA (arr24 key) 3 13) (hB (arr24 key) 3 13), skV (hA (arr24 key) 3 14) (hB (arr24 key) 3 14), skT (hA (arr24 key) 3 14) (hB (arr24 key) 3 14), skV (hA (arr24 key) 3 15) (hB (arr24 key) 3 15), skT (hA (arr24 key) 3 15) (hB (arr24 key) 3 15), skV (hA (arr24 key) 3 16) (hB (arr24 key) 3 16), skT (hA (arr24 key) 3 16) (hB (arr24 key) 3 16), skV (hA (arr24 key) 3 17) (hB (arr24 key) 3 17), skT (hA (arr24 key) 3 17) (hB (arr24 key) 3 17), skV (hA (arr24 key) 3 18) (hB (arr24 key) 3 18), skT (hA (arr24 key) 3 18) (hB (arr24 key) 3 18), skV (hA (arr24 key) 3 19) (hB (arr24 key) 3 19), skT (hA (arr24 key) 3 19) (hB (arr24 key) 3 19)], rfl⟩,
    start := 1 }

theorem size_arr24 (key : BitVec 192) : (arr24 key).size / 8 = 3 := by
  simp only [arr24, List.size_toArray, List.length_cons, List.length_nil, Nat.reduceAdd, Nat.reduceDiv]

theorem keySchedule_arr24 (key : BitVec 192) : keySchedule (arr24 key) = ks24 key := by
  apply keys_eq
  · rw [ks_s, size_arr24]; exact sboxKey_24 ..
  · rw [ks_k, size_arr24, subkeyList_lit]; rfl
  · rw [ks_start, size_arr24]; rfl

theorem keySchedule_24 (key : BitVec 192) : keySchedule (unpackBE 24 key).toArray = ks24 key := by
  rw [unpack_24, keySchedule_arr24]

/-- the regenerated `Twofish::new_from_slice` for a 24-byte key builds exactly the model's `keySchedule` (S-box key words `s`,
the 40 sub-keys `k`, `start`), for all keys -/
theorem new_from_slice_24_eq (key : BitVec 192) :
    twofish_new_from_slice_24 key = ksTuple (keySchedule (unpackBE 24 key).toArray) := by
  rw [keySchedule_24]
  unfold twofish_new_from_slice_24
  extract_lets -merge
  name_lets
  have S0 : (out_7, out_15, out_23, out_31) = (rsE (key.extractLsb' 184 8) (key.extractLsb' 176 8) (key.extractLsb' 168 8) (key.extractLsb' 160 8) (key.extractLsb' 152 8) (key.extractLsb' 144 8) (key.extractLsb' 136 8) (key.extractLsb' 128 8) 0, rsE (key.extractLsb' 184 8) (key.extractLsb' 176 8) (key.extractLsb' 168 8) (key.extractLsb' 160 8) (key.extractLsb' 152 8) (key.extractLsb' 144 8) (key.extractLsb' 136 8) (key.extractLsb' 128 8) 1, rsE (key.extractLsb' 184 8) (key.extractLsb' 176 8) (key.extractLsb' 168 8) (key.extractLsb' 160 8) (key.extractLsb' 152 8) (key.extractLsb' 144 8) (key.extractLsb' 136 8) (key.extractLsb' 128 8) 2, rsE (key.extractLsb' 184 8) (key.extractLsb' 176 8) (key.extractLsb' 168 8) (key.extractLsb' 160 8) (key.extractLsb' 152 8) (key.extractLsb' 144 8) (key.extractLsb' 136 8) (key.extractLsb' 128 8) 3) := (rfl : _ = twofish_rs_mult (key.extractLsb' 184 8) (key.extractLsb' 176 8) (key.extractLsb' 168 8) (key.extractLsb' 160 8) (key.extractLsb' 152 8) (key.extractLsb' 144 8) (key.extractLsb' 136 8) (key.extractLsb' 128 8)).trans (rs_mult_eq ..)
  have a0 : out_7 = rsE (key.extractLsb' 184 8) (key.extractLsb' 176 8) (key.extractLsb' 168 8) (key.extractLsb' 160 8) (key.extractLsb' 152 8) (key.extractLsb' 144 8) (key.extractLsb' 136 8) (key.extractLsb' 128 8) 0 := congrArg (·.1) S0
  have a1 : out_15 = rsE (key.extractLsb' 184 8) (key.extractLsb' 176 8) (key.extractLsb' 168 8) (key.extractLsb' 160 8) (key.extractLsb' 152 8) (key.extractLsb' 144 8) (key.extractLsb' 136 8) (key.extractLsb' 128 8) 1 := congrArg (·.2.1) S0
  have a2 : out_23 = rsE (key.extractLsb' 184 8) (key.extractLsb' 176 8) (key.extractLsb' 168 8) (key.extractLsb' 160 8) (key.extractLsb' 152 8) (key.extractLsb' 144 8) (key.extractLsb' 136 8) (key.extractLsb' 128 8) 2 := congrArg (·.2.2.1) S0
  have a3 : out_31 = rsE (key.extractLsb' 184 8) (key.extractLsb' 176 8) (key.extractLsb' 168 8) (key.extractLsb' 160 8) (key.extractLsb' 152 8) (key.extractLsb' 144 8) (key.extractLsb' 136 8) (key.extractLsb' 128 8) 3 := congrArg (·.2.2.2) S0
  have S1 : (out_39, out_47, out_55, out_63) = (rsE (key.extractLsb' 120 8) (key.extractLsb' 112 8) (key.extractLsb' 104 8) (key.extractLsb' 96 8) (key.extractLsb' 88 8) (key.extractLsb' 80 8) (key.extractLsb' 72 8) (key.extractLsb' 64 8) 0, rsE (key.extractLsb' 120 8) (key.extractLsb' 112 8) (key.extractLsb' 104 8) (key.extractLsb' 96 8) (key.extractLsb' 88 8) (key.extractLsb' 80 8) (key.extractLsb' 72 8) (key.extractLsb' 64 8) 1, rsE (key.extractLsb' 120 8) (key.extractLsb' 112 8) (key.extractLsb' 104 8) (key.extractLsb' 96 8) (key.extractLsb' 88 8) (key.extractLsb' 80 8) (key.extractLsb' 72 8) (key.extractLsb' 64 8) 2, rsE (key.extractLsb' 120 8) (key.extractLsb' 112 8) (key.extractLsb' 104 8) (key.extractLsb' 96 8) (key.extractLsb' 88 8) (key.extractLsb' 80 8) (key.extractLsb' 72 8) (key.extractLsb' 64 8) 3) := (rfl : _ = twofish_rs_mult (key.extractLsb' 120 8) (key.extractLsb' 112 8) (key.extractLsb' 104 8) (key.extractLsb' 96 8) (key.extractLsb' 88 8) (key.extractLsb' 80 8) (key.extractLsb' 72 8) (key.extractLsb' 64 8)).trans (rs_mult_eq ..)
  have a4 : out_39 = rsE (key.extractLsb' 120 8) (key.extractLsb' 112 8) (key.extractLsb' 104 8) (key.extractLsb' 96 8) (key.extractLsb' 88 8) (key.extractLsb' 80 8) (key.extractLsb' 72 8) (key.extractLsb' 64 8) 0 := congrArg (·.1) S1
  have a5 : out_47 = rsE (key.extractLsb' 120 8) (key.extractLsb' 112 8) (key.extractLsb' 104 8) (key.extractLsb' 96 8) (key.extractLsb' 88 8) (key.extractLsb' 80 8) (key.extractLsb' 72 8) (key.extractLsb' 64 8) 1 := congrArg (·.2.1) S1
  have a6 : out_55 = rsE (key.extractLsb' 120 8) (key.extractLsb' 112 8) (key.extractLsb' 104 8) (key.extractLsb' 96 8) (key.extractLsb' 88 8) (key.extractLsb' 80 8) (key.extractLsb' 72 8) (key.extractLsb' 64 8) 2 := congrArg (·.2.2.1) S1
  have a7 : out_63 = rsE (key.extractLsb' 120 8) (key.extractLsb' 112 8) (key.extractLsb' 104 8) (key.extractLsb' 96 8) (key.extractLsb' 88 8) (key.extractLsb' 80 8) (key.extractLsb' 72 8) (key.extractLsb' 64 8) 3 := congrArg (·.2.2.2) S1
  have S2 : (out_71, out_79, out_87, out_95) = (rsE (key.extractLsb' 56 8) (key.extractLsb' 48 8) (key.extractLsb' 40 8) (key.extractLsb' 32 8) (key.extractLsb' 24 8) (key.extractLsb' 16 8) (key.extractLsb' 8 8) (key.extractLsb' 0 8) 0, rsE (key.extractLsb' 56 8) (key.extractLsb' 48 8) (key.extractLsb' 40 8) (key.extractLsb' 32 8) (key.extractLsb' 24 8) (key.extractLsb' 16 8) (key.extractLsb' 8 8) (key.extractLsb' 0 8) 1, rsE (key.extractLsb' 56 8) (key.extractLsb' 48 8) (key.extractLsb' 40 8) (key.extractLsb' 32 8) (key.extractLsb' 24 8) (key.extractLsb' 16 8) (key.extractLsb' 8 8) (key.extractLsb' 0 8) 2, rsE (key.extractLsb' 56 8) (key.extractLsb' 48 8) (key.extractLsb' 40 8) (key.extractLsb' 32 8) (key.extractLsb' 24 8) (key.extractLsb' 16 8) (key.extractLsb' 8 8) (key.extractLsb' 0 8) 3) := (rfl : _ = twofish_rs_mult (key.extractLsb' 56 8) (key.extractLsb' 48 8) (key.extractLsb' 40 8) (key.extractLsb' 32 8) (key.extractLsb' 24 8) (key.extractLsb' 16 8) (key.extractLsb' 8 8) (key.extractLsb' 0 8)).trans (rs_mult_eq ..)
  have a8 : out_71 = rsE (key.extractLsb' 56 8) (key.extractLsb' 48 8) (key.extractLsb' 40 8) (key.extractLsb' 32 8) (key.extractLsb' 24 8) (key.extractLsb' 16 8) (key.extractLsb' 8 8) (key.extractLsb' 0 8) 0 := congrArg (·.1) S2
  have a9 : out_79 = rsE (key.extractLsb' 56 8) (key.extractLsb' 48 8) (key.extractLsb' 40 8) (key.extractLsb' 32 8) (key.extractLsb' 24 8) (key.extractLsb' 16 8) (key.extractLsb' 8 8) (key.extractLsb' 0 8) 1 := congrArg (·.2.1) S2
  have a10 : out_87 = rsE (key.extractLsb' 56 8) (key.extractLsb' 48 8) (key.extractLsb' 40 8) (key.extractLsb' 32 8) (key.extractLsb' 24 8) (key.extractLsb' 16 8) (key.extractLsb' 8 8) (key.extractLsb' 0 8) 2 := congrArg (·.2.2.1) S2
  have a11 : out_95 = rsE (key.extractLsb' 56 8) (key.extractLsb' 48 8) (key.extractLsb' 40 8) (key.extractLsb' 32 8) (key.extractLsb' 24 8) (key.extractLsb' 16 8) (key.extractLsb' 8 8) (key.extractLsb' 0 8) 3 := congrArg (·.2.2.2) S2
  have ZA0 : z_3 = hA (arr24 key) 3 0 := (rfl : _ = twofish_h_3_0 (rho * (2#32 * BitVec.ofNat 32 0)) key).trans (h_3_0_eq _ key)
  have ZB0 : z_7 = hB (arr24 key) 3 0 := (rfl : _ = twofish_h_3_1 (rho * (2#32 * BitVec.ofNat 32 0 + 1#32)) key).trans (h_3_1_eq _ key)
  have V0 : v = skV (hA (arr24 key) 3 0) (hB (arr24 key) 3 0) := (rfl : _ = skV z_3 z_7).trans (by rw [ZA0, ZB0])
  have T0 : t = skT (hA (arr24 key) 3 0) (hB (arr24 key) 3 0) := (rfl : _ = skT z_3 z_7).trans (by rw [ZA0, ZB0])
  have ZA1 : z_11 = hA (arr24 key) 3 1 := (rfl : _ = twofish_h_3_0 (rho * (2#32 * BitVec.ofNat 32 1)) key).trans (h_3_0_eq _ key)
  have ZB1 : z_15 = hB (arr24 key) 3 1 := (rfl : _ = twofish_h_3_1 (rho * (2#32 * BitVec.ofNat 32 1 + 1#32)) key).trans (h_3_1_eq _ key)
  have V1 : v_1 = skV (hA (arr24 key) 3 1) (hB (arr24 key) 3 1) := (rfl : _ = skV z_11 z_15).trans (by rw [ZA1, ZB1])
  have T1 : t_1 = skT (hA (arr24 key) 3 1) (hB (arr24 key) 3 1) := (rfl : _ = skT z_11 z_15).trans (by rw [ZA1, ZB1])
  have ZA2 : z_19 = hA (arr24 key) 3 2 := (rfl : _ = twofish_h_3_0 (rho * (2#32 * BitVec.ofNat 32 2)) key).trans (h_3_0_eq _ key)
  have ZB2 : z_23 = hB (arr24 key) 3 2 := (rfl : _ = twofish_h_3_1 (rho * (2#32 * BitVec.ofNat 32 2 + 1#32)) key).trans (h_3_1_eq _ key)
  have V2 : v_2 = skV (hA (arr24 key) 3 2) (hB (arr24 key) 3 2) := (rfl : _ = skV z_19 z_23).trans (by rw [ZA2, ZB2])
  have T2 : t_2 = skT (hA (arr24 key) 3 2) (hB (arr24 key) 3 2) := (rfl : _ = skT z_19 z_23).trans (by rw [ZA2, ZB2])
  have ZA3 : z_27 = hA (arr24 key) 3 3 := (rfl : _ = twofish_h_3_0 (rho * (2#32 * BitVec.ofNat 32 3)) key).trans (h_3_0_eq _ key)
  have ZB3 : z_31 = hB (arr24 key) 3 3 := (rfl : _ = twofish_h_3_1 (rho * (2#32 * BitVec.ofNat 32 3 + 1#32)) key).trans (h_3_1_eq _ key)
  have V3 : v_3 = skV (hA (arr24 key) 3 3) (hB (arr24 key) 3 3) := (rfl : _ = skV z_27 z_31).trans (by rw [ZA3, ZB3])
  have T3 : t_3 = skT (hA (arr24 key) 3 3) (hB (arr24 key) 3 3) := (rfl : _ = skT z_27 z_31).trans (by rw [ZA3, ZB3])
  have ZA4 : z_35 = hA (arr24 key) 3 4 := (rfl : _ = twofish_h_3_0 (rho * (2#32 * BitVec.ofNat 32 4)) key).trans (h_3_0_eq _ key)
  have ZB4 : z_39 = hB (arr24 key) 3 4 := (rfl : _ = twofish_h_3_1 (rho * (2#32 * BitVec.ofNat 32 4 + 1#32)) key).trans (h_3_1_eq _ key)
  have V4 : v_4 = skV (hA (arr24 key) 3 4) (hB (arr24 key) 3 4) := (rfl : _ = skV z_35 z_39).trans (by rw [ZA4, ZB4])
  have T4 : t_4 = skT (hA (arr24 key) 3 4) (hB (arr24 key) 3 4) := (rfl : _ = skT z_35 z_39).trans (by rw [ZA4, ZB4])
  have ZA5 : z_43 = hA (arr24 key) 3 5 := (rfl : _ = twofish_h_3_0 (rho * (2#32 * BitVec.ofNat 32 5)) key).trans (h_3_0_eq _ key)
  have ZB5 : z_47 = hB (arr24 key) 3 5 := (rfl : _ = twofish_h_3_1 (rho * (2#32 * BitVec.ofNat 32 5 + 1#32)) key).trans (h_3_1_eq _ key)
  have V5 : v_5 = skV (hA (arr24 key) 3 5) (hB (arr24 key) 3 5) := (rfl : _ = skV z_43 z_47).trans (by rw [ZA5, ZB5])
  have T5 : t_5 = skT (hA (arr24 key) 3 5) (hB (arr24 key) 3 5) := (rfl : _ = skT z_43 z_47).trans (by rw [ZA5, ZB5])
  have ZA6 : z_51 = hA (arr24 key) 3 6 := (rfl : _ = twofish_h_3_0 (rho * (2#32 * BitVec.ofNat 32 6)) key).trans (h_3_0_eq _ key)
  have ZB6 : z_55 = hB (arr24 key) 3 6 := (rfl : _ = twofish_h_3_1 (rho * (2#32 * BitVec.ofNat 32 6 + 1#32)) key).trans (h_3_1_eq _ key)
  have V6 : v_6 = skV (hA (arr24 key) 3 6) (hB (arr24 key) 3 6) := (rfl : _ = skV z_51 z_55).trans (by rw [ZA6, ZB6])
  have T6 : t_6 = skT (hA (arr24 key) 3 6) (hB (arr24 key) 3 6) := (rfl : _ = skT z_51 z_55).trans (by rw [ZA6, ZB6])
  have ZA7 : z_59 = hA (arr24 key) 3 7 := (rfl : _ = twofish_h_3_0 (rho * (2#32 * BitVec.ofNat 32 7)) key).trans (h_3_0_eq _ key)
  have ZB7 : z_63 = hB (arr24 key) 3 7 := (rfl : _ = twofish_h_3_1 (rho * (2#32 * BitVec.ofNat 32 7 + 1#32)) key).trans (h_3_1_eq _ key)
  have V7 : v_7 = skV (hA (arr24 key) 3 7) (hB (arr24 key) 3 7) := (rfl : _ = skV z_59 z_63).trans (by rw [ZA7, ZB7])
  have T7 : t_7 = skT (hA (arr24 key) 3 7) (hB (arr24 key) 3 7) := (rfl : _ = skT z_59 z_63).trans (by rw [ZA7, ZB7])
  have ZA8 : z_67 = hA (arr24 key) 3 8 := (rfl : _ = twofish_h_3_0 (rho * (2#32 * BitVec.ofNat 32 8)) key).trans (h_3_0_eq _ key)
  have ZB8 : z_71 = hB (arr24 key) 3 8 := (rfl : _ = twofish_h_3_1 (rho * (2#32 * BitVec.ofNat 32 8 + 1#32)) key).trans (h_3_1_eq _ key)
  have V8 : v_8 = skV (hA (arr24 key) 3 8) (hB (arr24 key) 3 8) := (rfl : _ = skV z_67 z_71).trans (by rw [ZA8, ZB8])
  have T8 : t_8 = skT (hA (arr24 key) 3 8) (hB (arr24 key) 3 8) := (rfl : _ = skT z_67 z_71).trans (by rw [ZA8, ZB8])
  have ZA9 : z_75 = hA (arr24 key) 3 9 := (rfl : _ = twofish_h_3_0 (rho * (2#32 * BitVec.ofNat 32 9)) key).trans (h_3_0_eq _ key)
  have ZB9 : z_79 = hB (arr24 key) 3 9 := (rfl : _ = twofish_h_3_1 (rho * (2#32 * BitVec.ofNat 32 9 + 1#32)) key).trans (h_3_1_eq _ key)
  have V9 : v_9 = skV (hA (arr24 key) 3 9) (hB (arr24 key) 3 9) := (rfl : _ = skV z_75 z_79).trans (by rw [ZA9, ZB9])
  have T9 : t_9 = skT (hA (arr24 key) 3 9) (hB (arr24 key) 3 9) := (rfl : _ = skT z_75 z_79).trans (by rw [ZA9, ZB9])
  have ZA10 : z_83 = hA (arr24 key) 3 10 := (rfl : _ = twofish_h_3_0 (rho * (2#32 * BitVec.ofNat 32 10)) key).trans (h_3_0_eq _ key)
  have ZB10 : z_87 = hB (arr24 key) 3 10 := (rfl : _ = twofish_h_3_1 (rho * (2#32 * BitVec.ofNat 32 10 + 1#32)) key).trans (h_3_1_eq _ key)
  have V10 : v_10 = skV (hA (arr24 key) 3 10) (hB (arr24 key) 3 10) := (rfl : _ = skV z_83 z_87).trans (by rw [ZA10, ZB10])
  have T10 : t_10 = skT (hA (arr24 key) 3 10) (hB (arr24 key) 3 10) := (rfl : _ = skT z_83 z_87).trans (by rw [ZA10, ZB10])
  have ZA11 : z_91 = hA (arr24 key) 3 11 := (rfl : _ = twofish_h_3_0 (rho * (2#32 * BitVec.ofNat 32 11)) key).trans (h_3_0_eq _ key)
  have ZB11 : z_95 = hB (arr24 key) 3 11 := (rfl : _ = twofish_h_3_1 (rho * (2#32 * BitVec.ofNat 32 11 + 1#32)) key).trans (h_3_1_eq _ key)
  have V11 : v_11 = skV (hA (arr24 key) 3 11) (hB (arr24 key) 3 11) := (rfl : _ = skV z_91 z_95).trans (by rw [ZA11, ZB11])
  have T11 : t_11 = skT (hA (arr24 key) 3 11) (hB (arr24 key) 3 11) := (rfl : _ = skT z_91 z_95).trans (by rw [ZA11, ZB11])
  have ZA12 : z_99 = hA (arr24 key) 3 12 := (rfl : _ = twofish_h_3_0 (rho * (2#32 * BitVec.ofNat 32 12)) key).trans (h_3_0_eq _ key)
  have ZB12 : z_103 = hB (arr24 key) 3 12 := (rfl : _ = twofish_h_3_1 (rho * (2#32 * BitVec.ofNat 32 12 + 1#32)) key).trans (h_3_1_eq _ key)
  have V12 : v_12 = skV (hA (arr24 key) 3 12) (hB (arr24 key) 3 12) := (rfl : _ = skV z_99 z_103).trans (by rw [ZA12, ZB12])
  have T12 : t_12 = skT (hA (arr24 key) 3 12) (hB (arr24 key) 3 12) := (rfl : _ = skT z_99 z_103).trans (by rw [ZA12, ZB12])
  have ZA13 : z_107 = hA (arr24 key) 3 13 := (rfl : _ = twofish_h_3_0 (rho * (2#32 * BitVec.ofNat 32 13)) key).trans (h_3_0_eq _ key)
  have ZB13 : z_111 = hB (arr24 key) 3 13 := (rfl : _ = twofish_h_3_1 (rho * (2#32 * BitVec.ofNat 32 13 + 1#32)) key).trans (h_3_1_eq _ key)
  have V13 : v_13 = skV (hA (arr24 key) 3 13) (hB (arr24 key) 3 13) := (rfl : _ = skV z_107 z_111).trans (by rw [ZA13, ZB13])
  have T13 : t_13 = skT (hA (arr24 key) 3 13) (hB (arr24 key) 3 13) := (rfl : _ = skT z_107 z_111).trans (by rw [ZA13, ZB13])
  have ZA14 : z_115 = hA (arr24 key) 3 14 := (rfl : _ = twofish_h_3_0 (rho * (2#32 * BitVec.ofNat 32 14)) key).trans (h_3_0_eq _ key)
  have ZB14 : z_119 = hB (arr24 key) 3 14 := (rfl : _ = twofish_h_3_1 (rho * (2#32 * BitVec.ofNat 32 14 + 1#32)) key).trans (h_3_1_eq _ key)
  have V14 : v_14 = skV (hA (arr24 key) 3 14) (hB (arr24 key) 3 14) := (rfl : _ = skV z_115 z_119).trans (by rw [ZA14, ZB14])
  have T14 : t_14 = skT (hA (arr24 key) 3 14) (hB (arr24 key) 3 14) := (rfl : _ = skT z_115 z_119).trans (by rw [ZA14, ZB14])
  have ZA15 : z_123 = hA (arr24 key) 3 15 := (rfl : _ = twofish_h_3_0 (rho * (2#32 * BitVec.ofNat 32 15)) key).trans (h_3_0_eq _ key)
  have ZB15 : z_127 = hB (arr24 key) 3 15 := (rfl : _ = twofish_h_3_1 (rho * (2#32 * BitVec.ofNat 32 15 + 1#32)) key).trans (h_3_1_eq _ key)
  have V15 : v_15 = skV (hA (arr24 key) 3 15) (hB (arr24 key) 3 15) := (rfl : _ = skV z_123 z_127).trans (by rw [ZA15, ZB15])
  have T15 : t_15 = skT (hA (arr24 key) 3 15) (hB (arr24 key) 3 15) := (rfl : _ = skT z_123 z_127).trans (by rw [ZA15, ZB15])
  have ZA16 : z_131 = hA (arr24 key) 3 16 := (rfl : _ = twofish_h_3_0 (rho * (2#32 * BitVec.ofNat 32 16)) key).trans (h_3_0_eq _ key)
  have ZB16 : z_135 = hB (arr24 key) 3 16 := (rfl : _ = twofish_h_3_1 (rho * (2#32 * BitVec.ofNat 32 16 + 1#32)) key).trans (h_3_1_eq _ key)
  have V16 : v_16 = skV (hA (arr24 key) 3 16) (hB (arr24 key) 3 16) := (rfl : _ = skV z_131 z_135).trans (by rw [ZA16, ZB16])
  have T16 : t_16 = skT (hA (arr24 key) 3 16) (hB (arr24 key) 3 16) := (rfl : _ = skT z_131 z_135).trans (by rw [ZA16, ZB16])
  have ZA17 : z_139 = hA (arr24 key) 3 17 := (rfl : _ = twofish_h_3_0 (rho * (2#32 * BitVec.ofNat 32 17)) key).trans (h_3_0_eq _ key)
  have ZB17 : z_143 = hB (arr24 key) 3 17 := (rfl : _ = twofish_h_3_1 (rho * (2#32 * BitVec.ofNat 32 17 + 1#32)) key).trans (h_3_1_eq _ key)
  have V17 : v_17 = skV (hA (arr24 key) 3 17) (hB (arr24 key) 3 17) := (rfl : _ = skV z_139 z_143).trans (by rw [ZA17, ZB17])
  have T17 : t_17 = skT (hA (arr24 key) 3 17) (hB (arr24 key) 3 17) := (rfl : _ = skT z_139 z_143).trans (by rw [ZA17, ZB17])
  have ZA18 : z_147 = hA (arr24 key) 3 18 := (rfl : _ = twofish_h_3_0 (rho * (2#32 * BitVec.ofNat 32 18)) key).trans (h_3_0_eq _ key)
  have ZB18 : z_151 = hB (arr24 key) 3 18 := (rfl : _ = twofish_h_3_1 (rho * (2#32 * BitVec.ofNat 32 18 + 1#32)) key).trans (h_3_1_eq _ key)
  have V18 : v_18 = skV (hA (arr24 key) 3 18) (hB (arr24 key) 3 18) := (rfl : _ = skV z_147 z_151).trans (by rw [ZA18, ZB18])
  have T18 : t_18 = skT (hA (arr24 key) 3 18) (hB (arr24 key) 3 18) := (rfl : _ = skT z_147 z_151).trans (by rw [ZA18, ZB18])
  have ZA19 : z_155 = hA (arr24 key) 3 19 := (rfl : _ = twofish_h_3_0 (rho * (2#32 * BitVec.ofNat 32 19)) key).trans (h_3_0_eq _ key)
  have ZB19 : z_159 = hB (arr24 key) 3 19 := (rfl : _ = twofish_h_3_1 (rho * (2#32 * BitVec.ofNat 32 19 + 1#32)) key).trans (h_3_1_eq _ key)
  have V19 : v_19 = skV (hA (arr24 key) 3 19) (hB (arr24 key) 3 19) := (rfl : _ = skV z_155 z_159).trans (by rw [ZA19, ZB19])
  have T19 : t_19 = skT (hA (arr24 key) 3 19) (hB (arr24 key) 3 19) := (rfl : _ = skT z_155 z_159).trans (by rw [ZA19, ZB19])
  rw [a0, a1, a2, a3, a4, a5, a6, a7, a8, a9, a10, a11, V0, T0, V1, T1, V2, T2, V3, T3, V4, T4, V5, T5, V6, T6, V7, T7, V8, T8, V9, T9, V10, T10, V11, T11, V12, T12, V13, T13, V14, T14, V15, T15, V16, T16, V17, T17, V18, T18, V19, T19]
  rfl

/-- `self.s` of the model for a 32-byte key given by explicit bytes -/
theorem sboxKey_32 (b0 b1 b2 b3 b4 b5 b6 b7 b8 b9 b10 b11 b12 b13 b14 b15 b16 b17 b18 b19 b20 b21 b22 b23 b24 b25 b26 b27 b28 b29 b30 b31 : BitVec 8) : sboxKey #[b0, b1, b2, b3, b4, b5, b6, b7, b8, b9, b10, b11, b12, b13, b14, b15, b16, b17, b18, b19, b20, b21, b22, b23, b24, b25, b26, b27, b28, b29, b30, b31] 4 = #[rsE b0 b1 b2 b3 b4 b5 b6 b7 0, rsE b0 b1 b2 b3 b4 b5 b6 b7 1, rsE b0 b1 b2 b3 b4 b5 b6 b7 2, rsE b0 b1 b2 b3 b4 b5 b6 b7 3, rsE b8 b9 b10 b11 b12 b13 b14 b15 0, rsE b8 b9 b10 b11 b12 b13 b14 b15 1, rsE b8 b9 b10 b11 b12 b13 b14 b15 2, rsE b8 b9 b10 b11 b12 b13 b14 b15 3, rsE b16 b17 b18 b19 b20 b21 b22 b23 0, rsE b16 b17 b18 b19 b20 b21 b22 b23 1, rsE b16 b17 b18 b19 b20 b21 b22 b23 2, rsE b16 b17 b18 b19 b20 b21 b22 b23 3, rsE b24 b25 b26 b27 b28 b29 b30 b31 0, rsE b24 b25 b26 b27 b28 b29 b30 b31 1, rsE b24 b25 b26 b27 b28 b29 b30 b31 2, rsE b24 b25 b26 b27 b28 b29 b30 b31 3] := by
  simp only [sboxKey, range16, List.map_toArray, List.map_cons, List.map_nil, Nat.reduceDiv, Nat.reduceMod, Nat.reduceLT, if_true, if_false,
    rsE, rsMultRow, range8, List.foldl, Nat.reduceMul, Nat.reduceAdd, List.getD_cons_zero, List.getD_cons_succ, getD32_0, getD32_1, getD32_2, getD32_3, getD32_4, getD32_5, getD32_6, getD32_7, getD32_8, getD32_9, getD32_10, getD32_11, getD32_12, getD32_13, getD32_14, getD32_15, getD32_16, getD32_17, getD32_18, getD32_19, getD32_20, getD32_21, getD32_22, getD32_23, getD32_24, getD32_25, getD32_26, getD32_27, getD32_28, getD32_29, getD32_30, getD32_31]

/-- the bytes of a 32-byte key (byte 0 = most significant byte of `key`) -/
def arr32 (key : BitVec 256) : Array (BitVec 8) := #[key.extractLsb' 248 8, key.extractLsb' 240 8, key.extractLsb' 232 8, key.extractLsb' 224 8, key.extractLsb' 216 8, key.extractLsb' 208 8, key.extractLsb' 200 8, key.extractLsb' 192 8, key.extractLsb' 184 8, key.extractLsb' 176 8, key.extractLsb' 168 8, key.extractLsb' 160 8, key.extractLsb' 152 8, key.extractLsb' 144 8, key.extractLsb' 136 8, key.extractLsb' 128 8, key.extractLsb' 120 8, key.extractLsb' 112 8, key.extractLsb' 104 8, key.extractLsb' 96 8, key.extractLsb' 88 8, key.extractLsb' 80 8, key.extractLsb' 72 8, key.extractLsb' 64 8, key.extractLsb' 56 8, key.extractLsb' 48 8, key.extractLsb' 40 8, key.extractLsb' 32 8, key.extractLsb' 24 8, key.extractLsb' 16 8, key.extractLsb' 8 8, key.extractLsb' 0 8]

theorem unpack_32 (key : BitVec 256) : (unpackBE 32 key).toArray = arr32 key := by
  simp only [unpackBE, range32, List.map_cons, List.map_nil, Nat.reduceSub, Nat.reduceMul, shr_setWidth8, arr32]

/-- the model's key schedule for a 32-byte key, all fields listed -/
def ks32 (key : BitVec 256) : Keys :=
  { s := #[rsE (key.extractLsb' 248 8) (key.extractLsb' 240 8) (key.extractLsb' 232 8) (key.extractLsb' 224 8) (key.extractLsb' 216 8) (key.extractLsb' 208 8) (key.extractLsb' 200 8) (key.extractLsb' 192 8) 0, rsE (key.extractLsb' 248 8) (key.extractLsb' 240 8) (key.extractLsb' 232 8) (key.extractLsb' 224 8) (key.extractLsb' 216 8) (key.extractLsb' 208 8) (key.extractLsb' 200 8) (key.extractLsb' 192 8) 1, rsE (key.extractLsb' 248 8) (key.extractLsb' 240 8) (key.extractLsb' 232 8) (key.extractLsb' 224 8) (key.extractLsb' 216 8) (key.extractLsb' 208 8) (key.extractLsb' 200 8) (key.extractLsb' 192 8) 2, rsE (key.extractLsb' 248 8) (key.extractLsb' 240 8) (key.extractLsb' 232 8) (key.extractLsb' 224 8) (key.extractLsb' 216 8) (key.extractLsb' 208 8) (key.extractLsb' 200 8) (key.extractLsb' 192 8) 3, rsE (key.extractLsb' 184 8) (key.extractLsb' 176 8) (key.extractLsb' 168 8) (key.extractLsb' 160 8) (key.extractLsb' 152 8) (key.extractLsb' 144 8) (key.extractLsb' 136 8) (key.extractLsb' 128 8) 0, rsE (key.extractLsb' 184 8) (key.extractLsb' 176 8) (key.extractLsb' 168 8) (key.extractLsb' 160 8) (key.extractLsb' 152 8) (key.extractLsb' 144 8) (key.extractLsb' 136 8) (key.extractLsb' 128 8) 1, rsE (key.extractLsb' 184 8) (key.extractLsb' 176 8) (key.extractLsb' 168 8) (key.extractLsb' 160 8) (key.extractLsb' 152 8) (key.extractLsb' 144 8) (key.extractLsb' 136 8) (key.extractLsb' 128 8) 2, rsE (key.extractLsb' 184 8) (key.extractLsb' 176 8) (key.extractLsb' 168 8) (key.extractLsb' 160 8) (key.extractLsb' 152 8) (key.extractLsb' 144 8) (key.extractLsb' 136 8) (key.extractLsb' 128 8) 3, rsE (key.extractLsb' 120 8) (key.extractLsb' 112 8) (key.extractLsb' 104 8) (key.extractLsb' 96 8) (key.extractLsb' 88 8) (key.extractLsb' 80 8) (key.extractLsb' 72 8) (key.extractLsb' 64 8) 0, rsE (key.extractLsb' 120 8) (key.extractLsb' 112 8) (key.extractLsb' 104 8) (key.extractLsb' 96 8) (key.extractLsb' 88 8) (key.extractLsb' 80 8) (key.extractLsb' 72 8) (key.extractLsb' 64 8) 1, rsE (key.extractLsb' 120 8) (key.extractLsb' 112 8) (key.extractLsb' 104 8) (key.extractLsb' 96 8) (key.extractLsb' 88 8) (key.extractLsb' 80 8) (key.extractLsb' 72 8) (key.extractLsb' 64 8) 2, rsE (key.extractLsb' 120 8) (key.extractLsb' 112 8) (key.extractLsb' 104 8) (key.extractLsb' 96 8) (key.extractLsb' 88 8) (key.extractLsb' 80 8) (key.extractLsb' 72 8) (key.extractLsb' 64 8) 3, rsE (key.extractLsb' 56 8) (key.extractLsb' 48 8) (key.extractLsb' 40 8) (key.extractLsb' 32 8) (key.extractLsb' 24 8) (key.extractLsb' 16 8) (key.extractLsb' 8 8) (key.extractLsb' 0 8) 0, rsE (key.extractLsb' 56 8) (key.extractLsb' 48 8) (key.extractLsb' 40 8) (key.extractLsb' 32 8) (key.extractLsb' 24 8) (key.extractLsb' 16 8) (key.extractLsb' 8 8) (key.extractLsb' 0 8) 1, rsE (key.extractLsb' 56 8) (key.extractLsb' 48 8) (key.extractLsb' 40 8) (key.extractLsb' 32 8) (key.extractLsb' 24 8) (key.extractLsb' 16 8) (key.extractLsb' 8 8) (key.extractLsb' 0 8) 2, rsE (key.extractLsb' 56 8) (key.extractLsb' 48 8) (key.extractLsb' 40 8) (key.extractLsb' 32 8) (key.extractLsb' 24 8) (key.extractLsb' 16 8) (key.extractLsb' 8 8) (key.extractLsb' 0 8) 3],
    k := ⟨#[skV (hA (arr32 key) 4 0) (hB (arr32 key) 4 0), skT (hA (arr32 key) 4 0) (hB (arr32 key) 4 0), skV (hA (arr32 key) 4 1) (hB (arr32 key) 4 1), skT (hA (arr32 key) 4 1) (hB (arr32 key) 4 1), skV (hA (arr32 key) 4 2) (hB (arr32 key) 4 2), skT (hA (arr32 key) 4 2) (hB (arr32 key) 4 2), skV (hA (arr32 key) 4 3) (hB (arr32 key) 4 3), skT (hA (arr32 key) 4 3) (hB (arr32 key) 4 3), skV (hA (arr32 key) 4 4) (hB (arr32 key) 4 4), skT (hA (arr32 key) 4 4) (hB (arr32 key) 4 4), skV (hA (arr32 key) 4 5) (hB (arr32 key) 4 5), skT (hA (arr32 key) 4 5) (hB (arr32 key) 4 5), skV (hA (arr32 key) 4 6) (hB (arr32 key) 4 6), skT (hA (arr32 key) 4 6) (hB (arr32 key) 4 6), skV (hA (arr32 key) 4 7) (hB (arr32 key) 4 7), skT (hA (arr32 key) 4 7) (hB (arr32 key) 4 7), skV (hA (arr32 key) 4 8) (hB (arr32 key) 4 8), skT (hA (arr32 key) 4 8) (hB (arr32 key) 4 8), skV (hA (arr32 key) 4 9) (hB (arr32 key) 4 9), skT (hA (arr32 key) 4 9) (hB (arr32 key) 4 9), skV (hA (arr32 key) 4 10) (hB (arr32 key) 4 10), skT (hA (arr32 key) 4 10) (hB (arr32 key) 4 10), skV (hA (arr32 key) 4 11) (hB (arr32 key) 4 11), skT (hA (arr32 key) 4 11) (hB (arr32 key) 4 11), skV (hA (arr32 key) 4 12) (hB (arr32 key) 4 12), skT (hA (arr32 key) 4 12) (hB (arr32 key) 4 12), skV (hA (arr32 key) 4 13) (hB (arr32 key) 4 13), skT (hA (arr32 key) 4 13) (hB (arr32 key) 4 13), skV (hA (arr32 key) 4 14) (hB (arr32 key) 4 14), skT (hA (arr32 key) 4 14) (hB (arr32 key) 4 14), skV (hA (arr32 key) 4 15) (hB (arr32 key) 4 15), skT (hA (arr32 key) 4 15) (hB (arr32 key) 4 15), skV (hA (arr32 key) 4 16) (hB (arr32 key) 4 16), skT (hA (arr32 key) 4 16) (hB (arr32 key) 4 16), skV (hA (arr32 key) 4 17) (hB (arr32 key) 4 17), skT (hA (arr32 key) 4 17) (hB (arr32 key) 4 17), skV (hA (arr32 key) 4 18) (hB (arr32 key) 4 18), skT (hA (arr32 key) 4 18) (hB (arr32 key) 4 18), skV (hA (arr32 key) 4 19) (hB (arr32 key) 4 19), skT (hA (arr32 key) 4 19) (hB (arr32 key) 4 19)], rfl⟩,
    start := 0 }

theorem size_arr32 (key : BitVec 256) : (arr32 key).size / 8 = 4 := by
  simp only [arr32, List.size_toArray, List.length_cons, List.length_nil, Nat.reduceAdd, Nat.reduceDiv]

theorem keySchedule_arr32 (key : BitVec 256) : keySchedule (arr32 key) = ks32 key := by
  apply keys_eq
  · rw [ks_s, size_arr32]; exact sboxKey_32 ..
  · rw [ks_k, size_arr32, subkeyList_lit]; rfl
  · rw [ks_start, size_arr32]; rfl

theorem keySchedule_32 (key : BitVec 256) : keySchedule (unpackBE 32 key).toArray = ks32 key := by
  rw [unpack_32, keySchedule_arr32]

/-- the regenerated `Twofish::new_from_slice` for a 32-byte key builds exactly the model's `keySchedule` (S-box key words `s`,
the 40 sub-keys `k`, `start`), for all keys -/
theorem new_from_slice_32_eq (key : BitVec 256) :
    twofish_new_from_slice_32 key = ksTuple (keySchedule (unpackBE 32 key).toArray) := by
  rw [keySchedule_32]
  unfold twofish_new_from_slice_32
  extract_lets -merge
  name_lets
  have S0 : (out_7, out_15, out_23, out_31) = (rsE (key.extractLsb' 248 8) (key.extractLsb' 240 8) (key.extractLsb' 232 8) (key.extractLsb' 224 8) (key.extractLsb' 216 8) (key.extractLsb' 208 8) (key.extractLsb' 200 8) (key.extractLsb' 192 8) 0, rsE (key.extractLsb' 248 8) (key.extractLsb' 240 8) (key.extractLsb' 232 8) (key.extractLsb' 224 8) (key.extractLsb' 216 8) (key.extractLsb' 208 8) (key.extractLsb' 200 8) (key.extractLsb' 192 8) 1, rsE (key.extractLsb' 248 8) (key.extractLsb' 240 8) (key.extractLsb' 232 8) (key.extractLsb' 224 8) (key.extractLsb' 216 8) (key.extractLsb' 208 8) (key.extractLsb' 200 8) (key.extractLsb' 192 8) 2, rsE (key.extractLsb' 248 8) (key.extractLsb' 240 8) (key.extractLsb' 232 8) (key.extractLsb' 224 8) (key.extractLsb' 216 8) (key.extractLsb' 208 8) (key.extractLsb' 200 8) (key.extractLsb' 192 8) 3) := (rfl : _ = twofish_rs_mult (key.extractLsb' 248 8) (key.extractLsb' 240 8) (key.extractLsb' 232 8) (key.extractLsb' 224 8) (key.extractLsb' 216 8) (key.extractLsb' 208 8) (key.extractLsb' 200 8) (key.extractLsb' 192 8)).trans (rs_mult_eq ..)
  have a0 : out_7 = rsE (key.extractLsb' 248 8) (key.extractLsb' 240 8) (key.extractLsb' 232 8) (key.extractLsb' 224 8) (key.extractLsb' 216 8) (key.extractLsb' 208 8) (key.extractLsb' 200 8) (key.extractLsb' 192 8) 0 := congrArg (·.1) S0
  have a1 : out_15 = rsE (key.extractLsb' 248 8) (key.extractLsb' 240 8) (key.extractLsb' 232 8) (key.extractLsb' 224 8) (key.extractLsb' 216 8) (key.extractLsb' 208 8) (key.extractLsb' 200 8) (key.extractLsb' 192 8) 1 := congrArg (·.2.1) S0
  have a2 : out_23 = rsE (key.extractLsb' 248 8) (key.extractLsb' 240 8) (key.extractLsb' 232 8) (key.extractLsb' 224 8) (key.extractLsb' 216 8) (key.extractLsb' 208 8) (key.extractLsb' 200 8) (key.extractLsb' 192 8) 2 := congrArg (·.2.2.1) S0
  have a3 : out_31 = rsE (key.extractLsb' 248 8) (key.extractLsb' 240 8) (key.extractLsb' 232 8) (key.extractLsb' 224 8) (key.extractLsb' 216 8) (key.extractLsb' 208 8) (key.extractLsb' 200 8) (key.extractLsb' 192 8) 3 := congrArg (·.2.2.2) S0
  have S1 : (out_39, out_47, out_55, out_63) = (rsE (key.extractLsb' 184 8) (key.extractLsb' 176 8) (key.extractLsb' 168 8) (key.extractLsb' 160 8) (key.extractLsb' 152 8) (key.extractLsb' 144 8) (key.extractLsb' 136 8) (key.extractLsb' 128 8) 0, rsE (key.extractLsb' 184 8) (key.extractLsb' 176 8) (key.extractLsb' 168 8) (key.extractLsb' 160 8) (key.extractLsb' 152 8) (key.extractLsb' 144 8) (key.extractLsb' 136 8) (key.extractLsb' 128 8) 1, rsE (key.extractLsb' 184 8) (key.extractLsb' 176 8) (key.extractLsb' 168 8) (key.extractLsb' 160 8) (key.extractLsb' 152 8) (key.extractLsb' 144 8) (key.extractLsb' 136 8) (key.extractLsb' 128 8) 2, rsE (key.extractLsb' 184 8) (key.extractLsb' 176 8) (key.extractLsb' 168 8) (key.extractLsb' 160 8) (key.extractLsb' 152 8) (key.extractLsb' 144 8) (key.extractLsb' 136 8) (key.extractLsb' 128 8) 3) := (rfl : _ = twofish_rs_mult (key.extractLsb' 184 8) (key.extractLsb' 176 8) (key.extractLsb' 168 8) (key.extractLsb' 160 8) (key.extractLsb' 152 8) (key.extractLsb' 144 8) (key.extractLsb' 136 8) (key.extractLsb' 128 8)).trans (rs_mult_eq ..)
  have a4 : out_39 = rsE (key.extractLsb' 184 8) (key.extractLsb' 176 8) (key.extractLsb' 168 8) (key.extractLsb' 160 8) (key.extractLsb' 152 8) (key.extractLsb' 144 8) (key.extractLsb' 136 8) (key.extractLsb' 128 8) 0 := congrArg (·.1) S1
  have a5 : out_47 = rsE (key.extractLsb' 184 8) (key.extractLsb' 176 8) (key.extractLsb' 168 8) (key.extractLsb' 160 8) (key.extractLsb' 152 8) (key.extractLsb' 144 8) (key.extractLsb' 136 8) (key.extractLsb' 128 8) 1 := congrArg (·.2.1) S1
  have a6 : out_55 = rsE (key.extractLsb' 184 8) (key.extractLsb' 176 8) (key.extractLsb' 168 8) (key.extractLsb' 160 8) (key.extractLsb' 152 8) (key.extractLsb' 144 8) (key.extractLsb' 136 8) (key.extractLsb' 128 8) 2 := congrArg (·.2.2.1) S1
  have a7 : out_63 = rsE (key.extractLsb' 184 8) (key.extractLsb' 176 8) (key.extractLsb' 168 8) (key.extractLsb' 160 8) (key.extractLsb' 152 8) (key.extractLsb' 144 8) (key.extractLsb' 136 8) (key.extractLsb' 128 8) 3 := congrArg (·.2.2.2) S1
  have S2 : (out_71, out_79, out_87, out_95) = (rsE (key.extractLsb' 120 8) (key.extractLsb' 112 8) (key.extractLsb' 104 8) (key.extractLsb' 96 8) (key.extractLsb' 88 8) (key.extractLsb' 80 8) (key.extractLsb' 72 8) (key.extractLsb' 64 8) 0, rsE (key.extractLsb' 120 8) (key.extractLsb' 112 8) (key.extractLsb' 104 8) (key.extractLsb' 96 8) (key.extractLsb' 88 8) (key.extractLsb' 80 8) (key.extractLsb' 72 8) (key.extractLsb' 64 8) 1, rsE (key.extractLsb' 120 8) (key.extractLsb' 112 8) (key.extractLsb' 104 8) (key.extractLsb' 96 8) (key.extractLsb' 88 8) (key.extractLsb' 80 8) (key.extractLsb' 72 8) (key.extractLsb' 64 8) 2, rsE (key.extractLsb' 120 8) (key.extractLsb' 112 8) (key.extractLsb' 104 8) (key.extractLsb' 96 8) (key.extractLsb' 88 8) (key.extractLsb' 80 8) (key.extractLsb' 72 8) (key.extractLsb' 64 8) 3) := (rfl : _ = twofish_rs_mult (key.extractLsb' 120 8) (key.extractLsb' 112 8) (key.extractLsb' 104 8) (key.extractLsb' 96 8) (key.extractLsb' 88 8) (key.extractLsb' 80 8) (key.extractLsb' 72 8) (key.extractLsb' 64 8)).trans (rs_mult_eq ..)
  have a8 : out_71 = rsE (key.extractLsb' 120 8) (key.extractLsb' 112 8) (key.extractLsb' 104 8) (key.extractLsb' 96 8) (key.extractLsb' 88 8) (key.extractLsb' 80 8) (key.extractLsb' 72 8) (key.extractLsb' 64 8) 0 := congrArg (·.1) S2
  have a9 : out_79 = rsE (key.extractLsb' 120 8) (key.extractLsb' 112 8) (key.extractLsb' 104 8) (key.extractLsb' 96 8) (key.extractLsb' 88 8) (key.extractLsb' 80 8) (key.extractLsb' 72 8) (key.extractLsb' 64 8) 1 := congrArg (·.2.1) S2
  have a10 : out_87 = rsE (key.extractLsb' 120 8) (key.extractLsb' 112 8) (key.extractLsb' 104 8) (key.extractLsb' 96 8) (key.extractLsb' 88 8) (key.extractLsb' 80 8) (key.extractLsb' 72 8) (key.extractLsb' 64 8) 2 := congrArg (·.2.2.1) S2
  have a11 : out_95 = rsE (key.extractLsb' 120 8) (key.extractLsb' 112 8) (key.extractLsb' 104 8) (key.extractLsb' 96 8) (key.extractLsb' 88 8) (key.extractLsb' 80 8) (key.extractLsb' 72 8) (key.extractLsb' 64 8) 3 := congrArg (·.2.2.2) S2
  have S3 : (out_103, out_111, out_119, out_127) = (rsE (key.extractLsb' 56 8) (key.extractLsb' 48 8) (key.extractLsb' 40 8) (key.extractLsb' 32 8) (key.extractLsb' 24 8) (key.extractLsb' 16 8) (key.extractLsb' 8 8) (key.extractLsb' 0 8) 0, rsE (key.extractLsb' 56 8) (key.extractLsb' 48 8) (key.extractLsb' 40 8) (key.extractLsb' 32 8) (key.extractLsb' 24 8) (key.extractLsb' 16 8) (key.extractLsb' 8 8) (key.extractLsb' 0 8) 1, rsE (key.extractLsb' 56 8) (key.extractLsb' 48 8) (key.extractLsb' 40 8) (key.extractLsb' 32 8) (key.extractLsb' 24 8) (key.extractLsb' 16 8) (key.extractLsb' 8 8) (key.extractLsb' 0 8) 2, rsE (key.extractLsb' 56 8) (key.extractLsb' 48 8) (key.extractLsb' 40 8) (key.extractLsb' 32 8) (key.extractLsb' 24 8) (key.extractLsb' 16 8) (key.extractLsb' 8 8) (key.extractLsb' 0 8) 3) := (rfl : _ = twofish_rs_mult (key.extractLsb' 56 8) (key.extractLsb' 48 8) (key.extractLsb' 40 8) (key.extractLsb' 32 8) (key.extractLsb' 24 8) (key.extractLsb' 16 8) (key.extractLsb' 8 8) (key.extractLsb' 0 8)).trans (rs_mult_eq ..)
  have a12 : out_103 = rsE (key.extractLsb' 56 8) (key.extractLsb' 48 8) (key.extractLsb' 40 8) (key.extractLsb' 32 8) (key.extractLsb' 24 8) (key.extractLsb' 16 8) (key.extractLsb' 8 8) (key.extractLsb' 0 8) 0 := congrArg (·.1) S3
  have a13 : out_111 = rsE (key.extractLsb' 56 8) (key.extractLsb' 48 8) (key.extractLsb' 40 8) (key.extractLsb' 32 8) (key.extractLsb' 24 8) (key.extractLsb' 16 8) (key.extractLsb' 8 8) (key.extractLsb' 0 8) 1 := congrArg (·.2.1) S3
  have a14 : out_119 = rsE (key.extractLsb' 56 8) (key.extractLsb' 48 8) (key.extractLsb' 40 8) (key.extractLsb' 32 8) (key.extractLsb' 24 8) (key.extractLsb' 16 8) (key.extractLsb' 8 8) (key.extractLsb' 0 8) 2 := congrArg (·.2.2.1) S3
  have a15 : out_127 = rsE (key.extractLsb' 56 8) (key.extractLsb' 48 8) (key.extractLsb' 40 8) (key.extractLsb' 32 8) (key.extractLsb' 24 8) (key.extractLsb' 16 8) (key.extractLsb' 8 8) (key.extractLsb' 0 8) 3 := congrArg (·.2.2.2) S3
  have ZA0 : z_3 = hA (arr32 key) 4 0 := (rfl : _ = twofish_h_4_0 (rho * (2#32 * BitVec.ofNat 32 0)) key).trans (h_4_0_eq _ key)
  have ZB0 : z_7 = hB (arr32 key) 4 0 := (rfl : _ = twofish_h_4_1 (rho * (2#32 * BitVec.ofNat 32 0 + 1#32)) key).trans (h_4_1_eq _ key)
  have V0 : v = skV (hA (arr32 key) 4 0) (hB (arr32 key) 4 0) := (rfl : _ = skV z_3 z_7).trans (by rw [ZA0, ZB0])
  have T0 : t = skT (hA (arr32 key) 4 0) (hB (arr32 key) 4 0) := (rfl : _ = skT z_3 z_7).trans (by rw [ZA0, ZB0])
  have ZA1 : z_11 = hA (arr32 key) 4 1 := (rfl : _ = twofish_h_4_0 (rho * (2#32 * BitVec.ofNat 32 1)) key).trans (h_4_0_eq _ key)
  have ZB1 : z_15 = hB (arr32 key) 4 1 := (rfl : _ = twofish_h_4_1 (rho * (2#32 * BitVec.ofNat 32 1 + 1#32)) key).trans (h_4_1_eq _ key)
  have V1 : v_1 = skV (hA (arr32 key) 4 1) (hB (arr32 key) 4 1) := (rfl : _ = skV z_11 z_15).trans (by rw [ZA1, ZB1])
  have T1 : t_1 = skT (hA (arr32 key) 4 1) (hB (arr32 key) 4 1) := (rfl : _ = skT z_11 z_15).trans (by rw [ZA1, ZB1])
  have ZA2 : z_19 = hA (arr32 key) 4 2 := (rfl : _ = twofish_h_4_0 (rho * (2#32 * BitVec.ofNat 32 2)) key).trans (h_4_0_eq _ key)
  have ZB2 : z_23 = hB (arr32 key) 4 2 := (rfl : _ = twofish_h_4_1 (rho * (2#32 * BitVec.ofNat 32 2 + 1#32)) key).trans (h_4_1_eq _ key)
  have V2 : v_2 = skV (hA (arr32 key) 4 2) (hB (arr32 key) 4 2) := (rfl : _ = skV z_19 z_23).trans (by rw [ZA2, ZB2])
  have T2 : t_2 = skT (hA (arr32 key) 4 2) (hB (arr32 key) 4 2) := (rfl : _ = skT z_19 z_23).trans (by rw [ZA2, ZB2])
  have ZA3 : z_27 = hA (arr32 key) 4 3 := (rfl : _ = twofish_h_4_0 (rho * (2#32 * BitVec.ofNat 32 3)) key).trans (h_4_0_eq _ key)
  have ZB3 : z_31 = hB (arr32 key) 4 3 := (rfl : _ = twofish_h_4_1 (rho * (2#32 * BitVec.ofNat 32 3 + 1#32)) key).trans (h_4_1_eq _ key)
  have V3 : v_3 = skV (hA (arr32 key) 4 3) (hB (arr32 key) 4 3) := (rfl : _ = skV z_27 z_31).trans (by rw [ZA3, ZB3])
  have T3 : t_3 = skT (hA (arr32 key) 4 3) (hB (arr32 key) 4 3) := (rfl : _ = skT z_27 z_31).trans (by rw [ZA3, ZB3])
  have ZA4 : z_35 = hA (arr32 key) 4 4 := (rfl : _ = twofish_h_4_0 (rho * (2#32 * BitVec.ofNat 32 4)) key).trans (h_4_0_eq _ key)
  have ZB4 : z_39 = hB (arr32 key) 4 4 := (rfl : _ = twofish_h_4_1 (rho * (2#32 * BitVec.ofNat 32 4 + 1#32)) key).trans (h_4_1_eq _ key)
  have V4 : v_4 = skV (hA (arr32 key) 4 4) (hB (arr32 key) 4 4) := (rfl : _ = skV z_35 z_39).trans (by rw [ZA4, ZB4])
  have T4 : t_4 = skT (hA (arr32 key) 4 4) (hB (arr32 key) 4 4) := (rfl : _ = skT z_35 z_39).trans (by rw [ZA4, ZB4])
  have ZA5 : z_43 = hA (arr32 key) 4 5 := (rfl : _ = twofish_h_4_0 (rho * (2#32 * BitVec.ofNat 32 5)) key).trans (h_4_0_eq _ key)
  have ZB5 : z_47 = hB (arr32 key) 4 5 := (rfl : _ = twofish_h_4_1 (rho * (2#32 * BitVec.ofNat 32 5 + 1#32)) key).trans (h_4_1_eq _ key)
  have V5 : v_5 = skV (hA (arr32 key) 4 5) (hB (arr32 key) 4 5) := (rfl : _ = skV z_43 z_47).trans (by rw [ZA5, ZB5])
  have T5 : t_5 = skT (hA (arr32 key) 4 5) (hB (arr32 key) 4 5) := (rfl : _ = skT z_43 z_47).trans (by rw [ZA5, ZB5])
  have ZA6 : z_51 = hA (arr32 key) 4 6 := (rfl : _ = twofish_h_4_0 (rho * (2#32 * BitVec.ofNat 32 6)) key).trans (h_4_0_eq _ key)
  have ZB6 : z_55 = hB (arr32 key) 4 6 := (rfl : _ = twofish_h_4_1 (rho * (2#32 * BitVec.ofNat 32 6 + 1#32)) key).trans (h_4_1_eq _ key)
  have V6 : v_6 = skV (hA (arr32 key) 4 6) (hB (arr32 key) 4 6) := (rfl : _ = skV z_51 z_55).trans (by rw [ZA6, ZB6])
  have T6 : t_6 = skT (hA (arr32 key) 4 6) (hB (arr32 key) 4 6) := (rfl : _ = skT z_51 z_55).trans (by rw [ZA6, ZB6])
  have ZA7 : z_59 = hA (arr32 key) 4 7 := (rfl : _ = twofish_h_4_0 (rho * (2#32 * BitVec.ofNat 32 7)) key).trans (h_4_0_eq _ key)
  have ZB7 : z_63 = hB (arr32 key) 4 7 := (rfl : _ = twofish_h_4_1 (rho * (2#32 * BitVec.ofNat 32 7 + 1#32)) key).trans (h_4_1_eq _ key)
  have V7 : v_7 = skV (hA (arr32 key) 4 7) (hB (arr32 key) 4 7) := (rfl : _ = skV z_59 z_63).trans (by rw [ZA7, ZB7])
  have T7 : t_7 = skT (hA (arr32 key) 4 7) (hB (arr32 key) 4 7) := (rfl : _ = skT z_59 z_63).trans (by rw [ZA7, ZB7])
  have ZA8 : z_67 = hA (arr32 key) 4 8 := (rfl : _ = twofish_h_4_0 (rho * (2#32 * BitVec.ofNat 32 8)) key).trans (h_4_0_eq _ key)
  have ZB8 : z_71 = hB (arr32 key) 4 8 := (rfl : _ = twofish_h_4_1 (rho * (2#32 * BitVec.ofNat 32 8 + 1#32)) key).trans (h_4_1_eq _ key)
  have V8 : v_8 = skV (hA (arr32 key) 4 8) (hB (arr32 key) 4 8) := (rfl : _ = skV z_67 z_71).trans (by rw [ZA8, ZB8])
  have T8 : t_8 = skT (hA (arr32 key) 4 8) (hB (arr32 key) 4 8) := (rfl : _ = skT z_67 z_71).trans (by rw [ZA8, ZB8])
  have ZA9 : z_75 = hA (arr32 key) 4 9 := (rfl : _ = twofish_h_4_0 (rho * (2#32 * BitVec.ofNat 32 9)) key).trans (h_4_0_eq _ key)
  have ZB9 : z_79 = hB (arr32 key) 4 9 := (rfl : _ = twofish_h_4_1 (rho * (2#32 * BitVec.ofNat 32 9 + 1#32)) key).trans (h_4_1_eq _ key)
  have V9 : v_9 = skV (hA (arr32 key) 4 9) (hB (arr32 key) 4 9) := (rfl : _ = skV z_75 z_79).trans (by rw [ZA9, ZB9])
  have T9 : t_9 = skT (hA (arr32 key) 4 9) (hB (arr32 key) 4 9) := (rfl : _ = skT z_75 z_79).trans (by rw [ZA9, ZB9])
  have ZA10 : z_83 = hA (arr32 key) 4 10 := (rfl : _ = twofish_h_4_0 (rho * (2#32 * BitVec.ofNat 32 10)) key).trans (h_4_0_eq _ key)
  have ZB10 : z_87 = hB (arr32 key) 4 10 := (rfl : _ = twofish_h_4_1 (rho * (2#32 * BitVec.ofNat 32 10 + 1#32)) key).trans (h_4_1_eq _ key)
  have V10 : v_10 = skV (hA (arr32 key) 4 10) (hB (arr32 key) 4 10) := (rfl : _ = skV z_83 z_87).trans (by rw [ZA10, ZB10])
  have T10 : t_10 = skT (hA (arr32 key) 4 10) (hB (arr32 key) 4 10) := (rfl : _ = skT z_83 z_87).trans (by rw [ZA10, ZB10])
  have ZA11 : z_91 = hA (arr32 key) 4 11 := (rfl : _ = twofish_h_4_0 (rho * (2#32 * BitVec.ofNat 32 11)) key).trans (h_4_0_eq _ key)
  have ZB11 : z_95 = hB (arr32 key) 4 11 := (rfl : _ = twofish_h_4_1 (rho * (2#32 * BitVec.ofNat 32 11 + 1#32)) key).trans (h_4_1_eq _ key)
  have V11 : v_11 = skV (hA (arr32 key) 4 11) (hB (arr32 key) 4 11) := (rfl : _ = skV z_91 z_95).trans (by rw [ZA11, ZB11])
  have T11 : t_11 = skT (hA (arr32 key) 4 11) (hB (arr32 key) 4 11) := (rfl : _ = skT z_91 z_95).trans (by rw [ZA11, ZB11])
  have ZA12 : z_99 = hA (arr32 key) 4 12 := (rfl : _ = twofish_h_4_0 (rho * (2#32 * BitVec.ofNat 32 12)) key).trans (h_4_0_eq _ key)
  have ZB12 : z_103 = hB (arr32 key) 4 12 := (rfl : _ = twofish_h_4_1 (rho * (2#32 * BitVec.ofNat 32 12 + 1#32)) key).trans (h_4_1_eq _ key)
  have V12 : v_12 = skV (hA (arr32 key) 4 12) (hB (arr32 key) 4 12) := (rfl : _ = skV z_99 z_103).trans (by rw [ZA12, ZB12])
  have T12 : t_12 = skT (hA (arr32 key) 4 12) (hB (arr32 key) 4 12) := (rfl : _ = skT z_99 z_103).trans (by rw [ZA12, ZB12])
  have ZA13 : z_107 = hA (arr32 key) 4 13 := (rfl : _ = twofish_h_4_0 (rho * (2#32 * BitVec.ofNat 32 13)) key).trans (h_4_0_eq _ key)
  have ZB13 : z_111 = hB (arr32 key) 4 13 := (rfl : _ = twofish_h_4_1 (rho * (2#32 * BitVec.ofNat 32 13 + 1#32)) key).trans (h_4_1_eq _ key)
  have V13 : v_13 = skV (hA (arr32 key) 4 13) (hB (arr32 key) 4 13) := (rfl : _ = skV z_107 z_111).trans (by rw [ZA13, ZB13])
  have T13 : t_13 = skT (hA (arr32 key) 4 13) (hB (arr32 key) 4 13) := (rfl : _ = skT z_107 z_111).trans (by rw [ZA13, ZB13])
  have ZA14 : z_115 = hA (arr32 key) 4 14 := (rfl : _ = twofish_h_4_0 (rho * (2#32 * BitVec.ofNat 32 14)) key).trans (h_4_0_eq _ key)
  have ZB14 : z_119 = hB (arr32 key) 4 14 := (rfl : _ = twofish_h_4_1 (rho * (2#32 * BitVec.ofNat 32 14 + 1#32)) key).trans (h_4_1_eq _ key)
  have V14 : v_14 = skV (hA (arr32 key) 4 14) (hB (arr32 key) 4 14) := (rfl : _ = skV z_115 z_119).trans (by rw [ZA14, ZB14])
  have T14 : t_14 = skT (hA (arr32 key) 4 14) (hB (arr32 key) 4 14) := (rfl : _ = skT z_115 z_119).trans (by rw [ZA14, ZB14])
  have ZA15 : z_123 = hA (arr32 key) 4 15 := (rfl : _ = twofish_h_4_0 (rho * (2#32 * BitVec.ofNat 32 15)) key).trans (h_4_0_eq _ key)
  have ZB15 : z_127 = hB (arr32 key) 4 15 := (rfl : _ = twofish_h_4_1 (rho * (2#32 * BitVec.ofNat 32 15 + 1#32)) key).trans (h_4_1_eq _ key)
  have V15 : v_15 = skV (hA (arr32 key) 4 15) (hB (arr32 key) 4 15) := (rfl : _ = skV z_123 z_127).trans (by rw [ZA15, ZB15])
  have T15 : t_15 = skT (hA (arr32 key) 4 15) (hB (arr32 key) 4 15) := (rfl : _ = skT z_123 z_127).trans (by rw [ZA15, ZB15])
  have ZA16 : z_131 = hA (arr32 key) 4 16 := (rfl : _ = twofish_h_4_0 (rho * (2#32 * BitVec.ofNat 32 16)) key).trans (h_4_0_eq _ key)
  have ZB16 : z_135 = hB (arr32 key) 4 16 := (rfl : _ = twofish_h_4_1 (rho * (2#32 * BitVec.ofNat 32 16 + 1#32)) key).trans (h_4_1_eq _ key)
  have V16 : v_16 = skV (hA (arr32 key) 4 16) (hB (arr32 key) 4 16) := (rfl : _ = skV z_131 z_135).trans (by rw [ZA16, ZB16])
  have T16 : t_16 = skT (hA (arr32 key) 4 16) (hB (arr32 key) 4 16) := (rfl : _ = skT z_131 z_135).trans (by rw [ZA16, ZB16])
  have ZA17 : z_139 = hA (arr32 key) 4 17 := (rfl : _ = twofish_h_4_0 (rho * (2#32 * BitVec.ofNat 32 17)) key).trans (h_4_0_eq _ key)
  have ZB17 : z_143 = hB (arr32 key) 4 17 := (rfl : _ = twofish_h_4_1 (rho * (2#32 * BitVec.ofNat 32 17 + 1#32)) key).trans (h_4_1_eq _ key)
  have V17 : v_17 = skV (hA (arr32 key) 4 17) (hB (arr32 key) 4 17) := (rfl : _ = skV z_139 z_143).trans (by rw [ZA17, ZB17])
  have T17 : t_17 = skT (hA (arr32 key) 4 17) (hB (arr32 key) 4 17) := (rfl : _ = skT z_139 z_143).trans (by rw [ZA17, ZB17])
  have ZA18 : z_147 = hA (arr32 key) 4 18 := (rfl : _ = twofish_h_4_0 (rho * (2#32 * BitVec.ofNat 32 18)) key).trans (h_4_0_eq _ key)
  have ZB18 : z_151 = hB (arr32 key) 4 18 := (rfl : _ = twofish_h_4_1 (rho * (2#32 * BitVec.ofNat 32 18 + 1#32)) key).trans (h_4_1_eq _ key)
  have V18 : v_18 = skV (hA (arr32 key) 4 18) (hB (arr32 key) 4 18) := (rfl : _ = skV z_147 z_151).trans (by rw [ZA18, ZB18])
  have T18 : t_18 = skT (hA (arr32 key) 4 18) (hB (arr32 key) 4 18) := (rfl : _ = skT z_147 z_151).trans (by rw [ZA18, ZB18])
  have ZA19 : z_155 = hA (arr32 key) 4 19 := (rfl : _ = twofish_h_4_0 (rho * (2#32 * BitVec.ofNat 32 19)) key).trans (h_4_0_eq _ key)
  have ZB19 : z_159 = hB (arr32 key) 4 19 := (rfl : _ = twofish_h_4_1 (rho * (2#32 * BitVec.ofNat 32 19 + 1#32)) key).trans (h_4_1_eq _ key)
  have V19 : v_19 = skV (hA (arr32 key) 4 19) (hB (arr32 key) 4 19) := (rfl : _ = skV z_155 z_159).trans (by rw [ZA19, ZB19])
  have T19 : t_19 = skT (hA (arr32 key) 4 19) (hB (arr32 key) 4 19) := (rfl : _ = skT z_155 z_159).trans (by rw [ZA19, ZB19])
  rw [a0, a1, a2, a3, a4, a5, a6, a7, a8, a9, a10, a11, a12, a13, a14, a15, V0, T0, V1, T1, V2, T2, V3, T3, V4, T4, V5, T5, V6, T6, V7, T7, V8, T8, V9, T9, V10, T10, V11, T11, V12, T12, V13, T13, V14, T14, V15, T15, V16, T16, V17, T17, V18, T18, V19, T19]
  rfl

end BC.GenKeys.Twofish