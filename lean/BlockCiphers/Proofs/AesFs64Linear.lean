import BlockCiphers.Impl.AesFixslice64
import Std.Tactic.BVDecide
/-! C01 (fixslice64): the cheap inverse pairs: ShiftRows variants, AddRoundKey, bitslice / inv_bitslice. -/
namespace BC.AesFs64

theorem shift_rows_2_w_invol (x : BitVec 64) : shift_rows_2_w (shift_rows_2_w x) = x := by
  simp only [shift_rows_2_w, delta_swap_1]; bv_decide (config := { timeout := 600 })
theorem shift_rows_3_1_w (x : BitVec 64) : shift_rows_3_w (shift_rows_1_w x) = x := by
  simp only [shift_rows_3_w, shift_rows_1_w, delta_swap_1]; bv_decide (config := { timeout := 600 })
theorem shift_rows_1_3_w (x : BitVec 64) : shift_rows_1_w (shift_rows_3_w x) = x := by
  simp only [shift_rows_3_w, shift_rows_1_w, delta_swap_1]; bv_decide (config := { timeout := 600 })
/-- `shift_rows_2` is `shift_rows_1` twice, `shift_rows_3` three times (names are honest) -/
theorem shift_rows_1_1_w (x : BitVec 64) : shift_rows_1_w (shift_rows_1_w x) = shift_rows_2_w x := by
  simp only [shift_rows_2_w, shift_rows_1_w, delta_swap_1]; bv_decide (config := { timeout := 600 })
theorem shift_rows_1_2_w (x : BitVec 64) : shift_rows_1_w (shift_rows_2_w x) = shift_rows_3_w x := by
  simp only [shift_rows_3_w, shift_rows_2_w, shift_rows_1_w, delta_swap_1]; bv_decide (config := { timeout := 600 })

theorem shift_rows_2_invol (s : St) : shift_rows_2 (shift_rows_2 s) = s := by
  cases s; simp [shift_rows_2, St.map, shift_rows_2_w_invol]
theorem inv_shift_rows_2_shift_rows_2 (s : St) : inv_shift_rows_2 (shift_rows_2 s) = s := shift_rows_2_invol s
theorem shift_rows_2_inv_shift_rows_2 (s : St) : shift_rows_2 (inv_shift_rows_2 s) = s := shift_rows_2_invol s
theorem inv_shift_rows_1_shift_rows_1 (s : St) : inv_shift_rows_1 (shift_rows_1 s) = s := by
  cases s; simp [inv_shift_rows_1, shift_rows_1, shift_rows_3, St.map, shift_rows_3_1_w]
theorem shift_rows_1_inv_shift_rows_1 (s : St) : shift_rows_1 (inv_shift_rows_1 s) = s := by
  cases s; simp [inv_shift_rows_1, shift_rows_1, shift_rows_3, St.map, shift_rows_1_3_w]
theorem inv_shift_rows_3_shift_rows_3 (s : St) : inv_shift_rows_3 (shift_rows_3 s) = s := by
  cases s; simp [inv_shift_rows_3, shift_rows_1, shift_rows_3, St.map, shift_rows_1_3_w]
theorem shift_rows_3_inv_shift_rows_3 (s : St) : shift_rows_3 (inv_shift_rows_3 s) = s := by
  cases s; simp [inv_shift_rows_3, shift_rows_1, shift_rows_3, St.map, shift_rows_3_1_w]
theorem shift_rows_1_1 (s : St) : shift_rows_1 (shift_rows_1 s) = shift_rows_2 s := by
  cases s; simp [shift_rows_1, shift_rows_2, St.map, shift_rows_1_1_w]
theorem shift_rows_1_2 (s : St) : shift_rows_1 (shift_rows_2 s) = shift_rows_3 s := by
  cases s; simp [shift_rows_1, shift_rows_2, shift_rows_3, St.map, shift_rows_1_2_w]

theorem add_round_key_invol (s k : St) : add_round_key (add_round_key s k) k = s := by
  cases s; cases k; simp [add_round_key, St.zip, BitVec.xor_assoc]

theorem sub_bytes_nots_invol (s : St) : sub_bytes_nots (sub_bytes_nots s) = s := by
  cases s; simp [sub_bytes_nots, BitVec.xor_assoc]

set_option maxRecDepth 100000 in
/-- the index swaps are an involution (the Rust comment "these bit index swaps are identical") -/
theorem index_swaps_invol (t0 t1 t2 t3 t4 t5 t6 t7 : BitVec 64) :
    index_swaps (index_swaps t0 t1 t2 t3 t4 t5 t6 t7).s0 (index_swaps t0 t1 t2 t3 t4 t5 t6 t7).s1
      (index_swaps t0 t1 t2 t3 t4 t5 t6 t7).s2 (index_swaps t0 t1 t2 t3 t4 t5 t6 t7).s3
      (index_swaps t0 t1 t2 t3 t4 t5 t6 t7).s4 (index_swaps t0 t1 t2 t3 t4 t5 t6 t7).s5
      (index_swaps t0 t1 t2 t3 t4 t5 t6 t7).s6 (index_swaps t0 t1 t2 t3 t4 t5 t6 t7).s7
    = ⟨t0, t1, t2, t3, t4, t5, t6, t7⟩ := by
  simp only [index_swaps, delta_swap_2, St.mk.injEq]
  bv_decide (config := { timeout := 600 })

set_option maxRecDepth 100000 in
theorem inv_bitslice_bitslice (b0 b1 b2 b3 : BitVec 128) :
    inv_bitslice (bitslice b0 b1 b2 b3) = ⟨b0, b1, b2, b3⟩ := by
  simp only [inv_bitslice, bitslice, index_swaps, delta_swap_2, read_reordered, write_reordered,
    byteOf, putByte, Batch.mk.injEq]
  bv_decide (config := { timeout := 600 })

set_option maxRecDepth 100000 in
theorem bitslice_inv_bitslice (s : St) :
    bitslice (inv_bitslice s).b0 (inv_bitslice s).b1 (inv_bitslice s).b2 (inv_bitslice s).b3 = s := by
  cases s
  simp only [inv_bitslice, bitslice, index_swaps, delta_swap_2, read_reordered, write_reordered,
    byteOf, putByte, St.mk.injEq]
  bv_decide (config := { timeout := 600 })

end BC.AesFs64
