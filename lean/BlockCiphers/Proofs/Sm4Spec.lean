import BlockCiphers.Proofs.Sm4
import BlockCiphers.Spec.Sm4
/-
SM4 conformance (C06): the Rust model (8 × 4 unrolled in-place updates, reversed output, tables `CK`,
`FK`, `SBOX`) equals the 32-round description of GB/T 32907-2016; the standard's example as
kernel-checked `example`s.
-/
namespace BC.Sm4
open BC.Spec

/-! ### tables -/

/-- both tables are the same literal (kernel-checked) -/
theorem SBOX_eq : SBOX = Spec.Sm4.Sbox := rfl

theorem sbox_eq (b : BitVec 8) : sbox b = Spec.Sm4.sbox b := by
  unfold sbox Spec.Sm4.sbox; rw [SBOX_eq]

/-- every S-box look-up is in range -/
theorem sbox_index_lt (b : BitVec 8) : b.toNat < SBOX.size := by
  rw [SBOX_size]; exact b.isLt

/-- the frozen table agrees with the algebraic description on all 256 inputs -/
theorem Sbox_algebraic : ∀ x : BitVec 8, Spec.Sm4.sbox x = Spec.Sm4.sboxAlgebraic x := by
  decide +kernel

/-- the S-box is a permutation (not needed for C01, recorded as a table sanity fact) -/
theorem Sbox_injective : ∀ x y : BitVec 8, Spec.Sm4.sbox x = Spec.Sm4.sbox y → x = y := by
  have h : ∀ x : BitVec 8, Spec.Sm4.sboxAlgebraic (Spec.Sm4.sbox x) ^^^ Spec.Sm4.sboxAlgebraic (Spec.Sm4.sbox x) = 0#8 := by
    intro x; exact BitVec.xor_self
  have hinv : ∃ f : BitVec 8 → BitVec 8, ∀ x : BitVec 8, f (Spec.Sm4.sbox x) = x := by
    refine ⟨fun y => ((List.range 256).map (BitVec.ofNat 8)).foldl
      (fun acc x => if Spec.Sm4.sbox x = y then x else acc) 0#8, ?_⟩
    decide +kernel
  obtain ⟨f, hf⟩ := hinv
  intro x y hxy
  have := congrArg f hxy
  rwa [hf, hf] at this

/-- `CK[i]` bytes are `(4i + j) · 7 mod 256` -/
theorem CK_eq : ∀ i : Fin 32, CK.getD i.val 0 = Spec.Sm4.CK i.val := by decide +kernel

theorem CK_eq' (i : Nat) (h : i < 32) : CK.getD i 0 = Spec.Sm4.CK i := CK_eq ⟨i, h⟩

theorem FK_eq : ∀ i : Fin 4, FK.getD i.val 0 = Spec.Sm4.FK i.val := by decide +kernel

/-! ### τ, L, L′, T, T′ -/

theorem tau_eq (a : BitVec 32) : tau a = Spec.Sm4.τ a := by
  simp only [tau, Spec.Sm4.τ, sbox_eq]

theorem el_eq (b : BitVec 32) : el b = Spec.Sm4.L b := rfl
theorem el_prime_eq (b : BitVec 32) : el_prime b = Spec.Sm4.L' b := rfl
theorem t_eq (v : BitVec 32) : t v = Spec.Sm4.T v := by simp only [t, Spec.Sm4.T, tau_eq, el_eq]
theorem t_prime_eq (v : BitVec 32) : t_prime v = Spec.Sm4.T' v := by
  simp only [t_prime, Spec.Sm4.T', tau_eq, el_prime_eq]

/-! ### the block function: one unrolled iteration = four rounds of the standard -/

def toQ (x : X) : Spec.Sm4.Q := { w0 := x.x0, w1 := x.x1, w2 := x.x2, w3 := x.x3 }

theorem iter4_eq_rounds (k0 k1 k2 k3 : BitVec 32) (x : X) :
    toQ (iter4 k0 k1 k2 k3 x) =
      Spec.Sm4.round (Spec.Sm4.round (Spec.Sm4.round (Spec.Sm4.round (toQ x) k0) k1) k2) k3 := by
  cases x
  simp only [iter4, toQ, Spec.Sm4.round, Spec.Sm4.F, t_eq]

theorem toQ_load (b : BitVec 128) : toQ (load b) = Spec.Sm4.split b := rfl
theorem storeRev_eq (x : X) : storeRev x = Spec.Sm4.R (toQ x) := rfl

set_option maxRecDepth 10000 in
/-- `encrypt_block` with round-key function `rk` = the standard's algorithm with `rk 0, …, rk 31` -/
theorem encryptRk_eq_spec (rk : Nat → BitVec 32) (b : BitVec 128) :
    encryptRk rk b = Spec.Sm4.crypt ((List.range 32).map rk) b := by
  unfold encryptRk Spec.Sm4.crypt
  rw [storeRev_eq]; refine congrArg Spec.Sm4.R ?_
  have hl : (List.range 32).map rk = [rk 0, rk 1, rk 2, rk 3, rk 4, rk 5, rk 6, rk 7, rk 8, rk 9,
      rk 10, rk 11, rk 12, rk 13, rk 14, rk 15, rk 16, rk 17, rk 18, rk 19, rk 20, rk 21, rk 22,
      rk 23, rk 24, rk 25, rk 26, rk 27, rk 28, rk 29, rk 30, rk 31] := rfl
  rw [hl]
  simp only [forRange, List.range', List.foldl_cons, List.foldl_nil, encIter_eq, iter4_eq_rounds,
    toQ_load]

set_option maxRecDepth 10000 in
/-- `decrypt_block` = the same algorithm with the round keys reversed -/
theorem decryptRk_eq_spec (rk : Nat → BitVec 32) (b : BitVec 128) :
    decryptRk rk b = Spec.Sm4.crypt ((List.range 32).map rk).reverse b := by
  unfold decryptRk Spec.Sm4.crypt
  rw [storeRev_eq]; refine congrArg Spec.Sm4.R ?_
  have hl : ((List.range 32).map rk).reverse = [rk 31, rk 30, rk 29, rk 28, rk 27, rk 26, rk 25, rk 24,
      rk 23, rk 22, rk 21, rk 20, rk 19, rk 18, rk 17, rk 16, rk 15, rk 14, rk 13, rk 12, rk 11, rk 10,
      rk 9, rk 8, rk 7, rk 6, rk 5, rk 4, rk 3, rk 2, rk 1, rk 0] := rfl
  rw [hl]
  simp only [forRange, List.range', List.foldl_cons, List.foldl_nil, decIter_eq, iter4_eq_rounds,
    toQ_load]

/-! ### key schedule -/

theorem ksStep_eq_kround (i : Nat) (hi : i < 8) (k : X) :
    toQ (ksStep i k) =
      Spec.Sm4.kround (i * 4 + 3) (Spec.Sm4.kround (i * 4 + 2) (Spec.Sm4.kround (i * 4 + 1) (Spec.Sm4.kround (i * 4) (toQ k)))) := by
  cases k
  simp only [ksStep, toQ, Spec.Sm4.kround, t_prime_eq, CK_eq' (i * 4) (by omega), CK_eq' (i * 4 + 1) (by omega),
    CK_eq' (i * 4 + 2) (by omega), CK_eq' (i * 4 + 3) (by omega)]

/-- loop invariant of the key schedule after `i` iterations -/
structure KsInv (MK : BitVec 128) (i : Nat) (s : KsSt) : Prop where
  size : s.rk.size = 32
  k : toQ s.k = Spec.Sm4.K MK (4 * i)
  rk : ∀ j, j < 4 * i → s.rk.getD j 0 = Spec.Sm4.rk MK j

theorem getD_set4 (a : Array (BitVec 32)) (n : Nat) (v0 v1 v2 v3 : BitVec 32) (hn : n + 3 < a.size)
    (j : Nat) :
    ((((a.setIfInBounds n v0).setIfInBounds (n + 1) v1).setIfInBounds (n + 2) v2).setIfInBounds (n + 3) v3).getD j 0 =
      if j = n then v0 else if j = n + 1 then v1 else if j = n + 2 then v2 else if j = n + 3 then v3
      else a.getD j 0 := by
  simp only [Array.getD_eq_getD_getElem?, Array.getElem?_setIfInBounds, Array.size_setIfInBounds]
  have b0 : n < a.size := by omega
  have b1 : n + 1 < a.size := by omega
  have b2 : n + 2 < a.size := by omega
  by_cases h0 : j = n
  · subst h0; simp [b0]
  by_cases h1 : j = n + 1
  · subst h1; simp [b1]
  by_cases h2 : j = n + 2
  · subst h2; simp [b2]
  by_cases h3 : j = n + 3
  · subst h3; simp [hn]
  have e0 : ¬ n = j := fun h => h0 h.symm
  have e1 : ¬ n + 1 = j := fun h => h1 h.symm
  have e2 : ¬ n + 2 = j := fun h => h2 h.symm
  have e3 : ¬ n + 3 = j := fun h => h3 h.symm
  simp [h0, h1, h2, h3, e0, e1, e2, e3]

theorem ksIter_inv (MK : BitVec 128) (i : Nat) (hi : i < 8) (s : KsSt) (h : KsInv MK i s) :
    KsInv MK (i + 1) (ksIter i s) := by
  have hk : toQ (ksStep i s.k) = Spec.Sm4.K MK (4 * (i + 1)) := by
    rw [ksStep_eq_kround i hi, h.k]
    have : 4 * (i + 1) = i * 4 + 3 + 1 := by omega
    rw [this]
    have e : 4 * i = i * 4 := by omega
    simp only [Spec.Sm4.K, e]
  refine ⟨?_, hk, ?_⟩
  · simp [ksIter, h.size]
  · intro j hj
    simp only [ksIter]
    rw [getD_set4 _ _ _ _ _ _ (by rw [h.size]; omega)]
    have q := ksStep_eq_kround i hi s.k
    rw [h.k] at q
    have e : 4 * i = i * 4 := by omega
    rw [e] at q
    have w3 : (ksStep i s.k).x3 = Spec.Sm4.rk MK (i * 4 + 3) := by
      have := congrArg Spec.Sm4.Q.w3 q; simpa [toQ, Spec.Sm4.rk, Spec.Sm4.K] using this
    have w2 : (ksStep i s.k).x2 = Spec.Sm4.rk MK (i * 4 + 2) := by
      have := congrArg Spec.Sm4.Q.w2 q; simpa [toQ, Spec.Sm4.rk, Spec.Sm4.K, Spec.Sm4.kround] using this
    have w1 : (ksStep i s.k).x1 = Spec.Sm4.rk MK (i * 4 + 1) := by
      have := congrArg Spec.Sm4.Q.w1 q; simpa [toQ, Spec.Sm4.rk, Spec.Sm4.K, Spec.Sm4.kround] using this
    have w0 : (ksStep i s.k).x0 = Spec.Sm4.rk MK (i * 4) := by
      have := congrArg Spec.Sm4.Q.w0 q; simpa [toQ, Spec.Sm4.rk, Spec.Sm4.K, Spec.Sm4.kround] using this
    split
    · next hj0 => rw [hj0, w0]
    split
    · next hj1 => rw [hj1, w1]
    split
    · next hj2 => rw [hj2, w2]
    split
    · next hj3 => rw [hj3, w3]
    · exact h.rk j (by omega)

/-- generic loop-invariant rule for `forRange 0 n` -/
theorem forRange_inv {α : Type} (P : Nat → α → Prop) (f : Nat → α → α) (n : Nat) (a : α)
    (h0 : P 0 a) (hs : ∀ i s, i < n → P i s → P (i + 1) (f i s)) : P n (forRange 0 n f a) := by
  induction n with
  | zero => simpa [forRange] using h0
  | succ n ih =>
    have : forRange 0 (n + 1) f a = f n (forRange 0 n f a) := by
      simp [forRange, List.range'_concat]
    rw [this]
    exact hs n _ (by omega) (ih (fun i s hi => hs i s (by omega)))

/-- initial state of the key-schedule loop -/
def ksInit (MK : BitVec 128) : KsSt :=
  { k := { x0 := MK.extractLsb' 96 32 ^^^ FK.getD 0 0, x1 := MK.extractLsb' 64 32 ^^^ FK.getD 1 0,
           x2 := MK.extractLsb' 32 32 ^^^ FK.getD 2 0, x3 := MK.extractLsb' 0 32 ^^^ FK.getD 3 0 },
    rk := Array.replicate 32 0#32 }

theorem new_eq (MK : BitVec 128) : new MK = { rk := (forRange 0 8 ksIter (ksInit MK)).rk } := rfl

theorem ksInit_inv (MK : BitVec 128) : KsInv MK 0 (ksInit MK) := by
  refine ⟨Array.size_replicate, ?_, by intro j hj; omega⟩
  show toQ _ = Spec.Sm4.K MK 0
  simp only [ksInit, toQ, Spec.Sm4.K, Spec.Sm4.split, FK_eq ⟨0, by omega⟩, FK_eq ⟨1, by omega⟩,
    FK_eq ⟨2, by omega⟩, FK_eq ⟨3, by omega⟩]

/-- `KeyInit::new` computes the round keys of the standard -/
theorem new_get_eq (MK : BitVec 128) (j : Nat) (hj : j < 32) : (new MK).get j = Spec.Sm4.rk MK j := by
  rw [new_eq]; simp only [Sm4.get]
  have h := forRange_inv (KsInv MK) ksIter 8 (ksInit MK) (ksInit_inv MK)
    (fun i s hi hs => ksIter_inv MK i hi s hs)
  exact h.rk j (by omega)

theorem roundKeys_eq (MK : BitVec 128) : (List.range 32).map (new MK).get = Spec.Sm4.roundKeys MK := by
  unfold Spec.Sm4.roundKeys
  apply List.map_congr_left
  intro j hj
  exact new_get_eq MK j (List.mem_range.mp hj)

/-- C06 (SM4): the crate's encryption is GB/T 32907-2016 encryption, for every key and block -/
theorem encrypt_eq_spec (MK X : BitVec 128) : encrypt (new MK) X = Spec.Sm4.encrypt MK X := by
  unfold encrypt Spec.Sm4.encrypt
  rw [encryptRk_eq_spec, roundKeys_eq]

/-- C06 (SM4): the crate's decryption is GB/T 32907-2016 decryption -/
theorem decrypt_eq_spec (MK Y : BitVec 128) : decrypt (new MK) Y = Spec.Sm4.decrypt MK Y := by
  unfold decrypt Spec.Sm4.decrypt
  rw [decryptRk_eq_spec, roundKeys_eq]

/-- the standard's decryption inverts its encryption (through the model) -/
theorem spec_decrypt_encrypt (MK X : BitVec 128) : Spec.Sm4.decrypt MK (Spec.Sm4.encrypt MK X) = X := by
  rw [← encrypt_eq_spec, ← decrypt_eq_spec, decrypt_encrypt]

/-! ### known-answer vectors (GB/T 32907-2016 Annex A, example 1), evaluated by the kernel -/

example : Spec.Sm4.encrypt 0x0123456789abcdeffedcba9876543210#128 0x0123456789abcdeffedcba9876543210#128
    = 0x681edf34d206965e86b3e94f536e4246#128 := by decide +kernel

example : Spec.Sm4.decrypt 0x0123456789abcdeffedcba9876543210#128 0x681edf34d206965e86b3e94f536e4246#128
    = 0x0123456789abcdeffedcba9876543210#128 := by decide +kernel

example : encrypt (new 0x0123456789abcdeffedcba9876543210#128) 0x0123456789abcdeffedcba9876543210#128
    = 0x681edf34d206965e86b3e94f536e4246#128 := by decide +kernel

example : decrypt (new 0x0123456789abcdeffedcba9876543210#128) 0x681edf34d206965e86b3e94f536e4246#128
    = 0x0123456789abcdeffedcba9876543210#128 := by decide +kernel

/-- first and last round keys of the standard's example (rk0 = F12186F9, rk31 = 9124A012) -/
example : Spec.Sm4.rk 0x0123456789abcdeffedcba9876543210#128 0 = 0xF12186F9#32 ∧
    Spec.Sm4.rk 0x0123456789abcdeffedcba9876543210#128 31 = 0x9124A012#32 := by decide +kernel

end BC.Sm4
