import BlockCiphers.Impl.AesFixslice64
import Std.Tactic.BVDecide
/-! NOT compensation: MixColumns of the constant 0x63-in-every-byte is that constant, so the four
omitted NOTs commute with every `mix_columns_k` / `inv_mix_columns_k`. -/
namespace BC.AesFs64
set_option linter.unusedSimpArgs false

set_option maxRecDepth 1000000 in
theorem mix_columns_0_nots (s : St) : mix_columns_0 (sub_bytes_nots s) = sub_bytes_nots (mix_columns_0 s) := by
  cases s
  simp only [mix_columns_0, mix_columns_gen, sub_bytes_nots, rotate_rows_1, rotate_rows_2, ror, ror_distance, St.mk.injEq]
  bv_decide (config := { timeout := 1800 })

set_option maxRecDepth 1000000 in
theorem inv_mix_columns_0_nots (s : St) : inv_mix_columns_0 (sub_bytes_nots s) = sub_bytes_nots (inv_mix_columns_0 s) := by
  cases s
  simp only [inv_mix_columns_0, inv_mix_columns_gen, sub_bytes_nots, rotate_rows_1, rotate_rows_2, ror, ror_distance, St.mk.injEq]
  bv_decide (config := { timeout := 1800 })

set_option maxRecDepth 1000000 in
theorem mix_columns_1_nots (s : St) : mix_columns_1 (sub_bytes_nots s) = sub_bytes_nots (mix_columns_1 s) := by
  cases s
  simp only [mix_columns_1, mix_columns_gen, sub_bytes_nots, rotate_rows_and_columns_1_1, rotate_rows_and_columns_2_2, ror, ror_distance, St.mk.injEq]
  bv_decide (config := { timeout := 1800 })

set_option maxRecDepth 1000000 in
theorem inv_mix_columns_1_nots (s : St) : inv_mix_columns_1 (sub_bytes_nots s) = sub_bytes_nots (inv_mix_columns_1 s) := by
  cases s
  simp only [inv_mix_columns_1, inv_mix_columns_gen, sub_bytes_nots, rotate_rows_and_columns_1_1, rotate_rows_and_columns_2_2, ror, ror_distance, St.mk.injEq]
  bv_decide (config := { timeout := 1800 })

set_option maxRecDepth 1000000 in
theorem mix_columns_2_nots (s : St) : mix_columns_2 (sub_bytes_nots s) = sub_bytes_nots (mix_columns_2 s) := by
  cases s
  simp only [mix_columns_2, mix_columns_gen, sub_bytes_nots, rotate_rows_and_columns_1_2, rotate_rows_2, ror, ror_distance, St.mk.injEq]
  bv_decide (config := { timeout := 1800 })

set_option maxRecDepth 1000000 in
theorem inv_mix_columns_2_nots (s : St) : inv_mix_columns_2 (sub_bytes_nots s) = sub_bytes_nots (inv_mix_columns_2 s) := by
  cases s
  simp only [inv_mix_columns_2, inv_mix_columns_gen, sub_bytes_nots, rotate_rows_and_columns_1_2, rotate_rows_2, ror, ror_distance, St.mk.injEq]
  bv_decide (config := { timeout := 1800 })

set_option maxRecDepth 1000000 in
theorem mix_columns_3_nots (s : St) : mix_columns_3 (sub_bytes_nots s) = sub_bytes_nots (mix_columns_3 s) := by
  cases s
  simp only [mix_columns_3, mix_columns_gen, sub_bytes_nots, rotate_rows_and_columns_1_3, rotate_rows_and_columns_2_2, ror, ror_distance, St.mk.injEq]
  bv_decide (config := { timeout := 1800 })

set_option maxRecDepth 1000000 in
theorem inv_mix_columns_3_nots (s : St) : inv_mix_columns_3 (sub_bytes_nots s) = sub_bytes_nots (inv_mix_columns_3 s) := by
  cases s
  simp only [inv_mix_columns_3, inv_mix_columns_gen, sub_bytes_nots, rotate_rows_and_columns_1_3, rotate_rows_and_columns_2_2, ror, ror_distance, St.mk.injEq]
  bv_decide (config := { timeout := 1800 })

end BC.AesFs64
