import BlockCiphers.Proofs.Gift
import BlockCiphers.Proofs.GiftConfBs
import BlockCiphers.Proofs.GiftConfR0
import BlockCiphers.Proofs.GiftConfR1
import BlockCiphers.Proofs.GiftConfR2
import BlockCiphers.Proofs.GiftConfR3
import BlockCiphers.Proofs.GiftConfR4
import BlockCiphers.Proofs.GiftConfKs0
import BlockCiphers.Proofs.GiftConfKs1
import BlockCiphers.Proofs.GiftConfKs2
import BlockCiphers.Proofs.GiftConfKs3
import BlockCiphers.Proofs.GiftConfKs4
import BlockCiphers.Proofs.GiftConfKs5
import BlockCiphers.Proofs.GiftConfKs6
import BlockCiphers.Proofs.GiftConfKs7
/-
GIFT-128 conformance (C10), FULL: the fixsliced implementation of /repo/gift (model `Impl/Gift.lean`) computes GIFT-128
as specified in the CHES 2017 paper (`Spec/Gift.lean`, bit-permutation description), for every key and every block,
encryption and decryption:

  `encrypt_eq_spec : Gift.encrypt (Gift.precomputeRkeys key) b = Spec.Gift.encrypt key b`
  `decrypt_eq_spec : Gift.decrypt (Gift.precomputeRkeys key) b = Spec.Gift.decrypt key b`

Structure of the proof:
* `packing_round` (GiftConfBs): `packing` maps a spec round to the bitsliced round `bsRound`;
* `round{0..4}_spec`, `swap03_G5` (GiftConfR0..4): each of the five round shapes is `bsRound` between two consecutive
  fixsliced arrangements, and after five rounds the arrangement is the initial one ⇒ `quintuple_spec`;
* `qk_0 … qk_7` (GiftConfKs0..7, GiftConfKm, GiftConfRc, GiftKsForm): the 80 words of `precompute_rkeys` and the 40
  entries of `GIFT_RC` are the fixsliced images of the spec's round keys (key state after r updates) and LFSR constants;
* composition over the eight quintuple rounds; `unpacking ∘ packing = id`;
* decryption from encryption by the two round-trip theorems (C01 of the model, and of the spec, proved here).
-/
namespace BC.Gift.Conf
open BC.Gift
open BC.Spec.Gift (keyU keyV keyAt constAt lfsr step)

set_option maxRecDepth 100000
set_option linter.unusedSimpArgs false

/-- one quintuple round on a plainly bitsliced state, with the fixsliced images of five spec round keys / constants,
is five spec rounds (bitsliced form) -/
theorem quintuple_spec (t : St) (u0 v0 u1 v1 u2 v2 u3 v3 u4 v4 : BitVec 32) (c0 c1 c2 c3 c4 : BitVec 6) :
    quintupleCore t
      { k0 := kmA0 v0, k1 := kmB0 u0, k2 := kmA1 v1, k3 := kmB1 u1, k4 := kmA2 v2, k5 := kmB2 u2,
        k6 := kmA3 v3, k7 := kmB3 u3, k8 := kmA4 v4, k9 := kmB4 u4,
        c0 := kmC0 c0, c1 := kmC1 c1, c2 := kmC2 c2, c3 := kmC3 c3, c4 := kmC4 c4 }
      = bsRound (bsRound (bsRound (bsRound (bsRound t u0 v0 c0) u1 v1 c1) u2 v2 c2) u3 v3 c3) u4 v4 c4 := by
  simp only [quintupleCore, round0_spec, round1_spec, round2_spec, round3_spec, round4_spec, swap03_G5]

/-- the same on the spec state: `quintuple_round (packing x)` with rearranged keys = `packing` of five spec rounds -/
theorem quintuple_spec_packed (x : BitVec 128) (u0 v0 u1 v1 u2 v2 u3 v3 u4 v4 : BitVec 32) (c0 c1 c2 c3 c4 : BitVec 6) :
    quintupleCore (packing x)
      { k0 := kmA0 v0, k1 := kmB0 u0, k2 := kmA1 v1, k3 := kmB1 u1, k4 := kmA2 v2, k5 := kmB2 u2,
        k6 := kmA3 v3, k7 := kmB3 u3, k8 := kmA4 v4, k9 := kmB4 u4,
        c0 := kmC0 c0, c1 := kmC1 c1, c2 := kmC2 c2, c3 := kmC3 c3, c4 := kmC4 c4 }
      = packing (BC.Spec.Gift.round (BC.Spec.Gift.round (BC.Spec.Gift.round (BC.Spec.Gift.round
          (BC.Spec.Gift.round x u0 v0 c0) u1 v1 c1) u2 v2 c2) u3 v3 c3) u4 v4 c4) := by
  simp only [quintuple_spec, packing_round]

/-! ### the spec as a straight recursion over the round number -/

/-- state after `n` rounds -/
def roundsN (key b : BitVec 128) : Nat → BitVec 128
  | 0 => b
  | n + 1 => BC.Spec.Gift.round (roundsN key b n) (keyU (keyAt key n)) (keyV (keyAt key n)) (constAt n)

theorem iter_step (key b : BitVec 128) (n : Nat) :
    BC.iter step n ⟨b, key, 0#6⟩ = ⟨roundsN key b n, keyAt key n, BC.iter lfsr n 0#6⟩ := by
  induction n with
  | zero => rfl
  | succ n ih =>
    rw [BC.iter_succ', ih]
    simp only [step, roundsN, keyAt, constAt, BC.iter_succ']

theorem spec_encrypt_eq_roundsN (key b : BitVec 128) : BC.Spec.Gift.encrypt key b = roundsN key b 40 := by
  unfold BC.Spec.Gift.encrypt; rw [iter_step]

/-! ### C10: encryption -/

/-- the Rust's `encrypt_block` after `KeyInit::new(key)` is GIFT-128 encryption of the paper: all keys, all blocks -/
theorem encrypt_eq_spec (key b : BitVec 128) :
    encrypt (precomputeRkeys key) b = BC.Spec.Gift.encrypt key b := by
  have h : encrypt (precomputeRkeys key) b = unpacking (packing (roundsN key b 40)) := by
    simp only [roundsN, packing_round, encrypt, List.foldl, Nat.reduceMul, quintupleRound,
      qk_0, qk_1, qk_2, qk_3, qk_4, qk_5, qk_6, qk_7, quintuple_spec]
  rw [h, unpacking_packing, spec_encrypt_eq_roundsN]

/-! ### the spec's decryption inverts its encryption -/

/-- the circuit of `inv_sbox` at width 1 on a nibble (same conventions as `gsCirc`) -/
def gsInvCirc (x : BitVec 4) : BitVec 4 :=
  let a := b1 x 0; let b := b1 x 1; let c := b1 x 2; let d := b1 x 3
  let c := c ^^^ (d &&& b)
  let a := a ^^^ 1#1
  let b := b ^^^ a
  let a := a ^^^ c
  let c := c ^^^ (d ||| b)
  let d := d ^^^ (b &&& a)
  let b := b ^^^ (d &&& c)
  (a.setWidth 4 <<< 3) ||| (c.setWidth 4 <<< 2) ||| (b.setWidth 4 <<< 1) ||| d.setWidth 4

theorem gsInv_eq_gsInvCirc : ∀ x : BitVec 4, BC.Spec.Gift.gsInv x = gsInvCirc x := by decide

theorem subCells_invSubCells (x : BitVec 128) : BC.Spec.Gift.subCells (BC.Spec.Gift.invSubCells x) = x := by
  simp only [BC.Spec.Gift.subCells, BC.Spec.Gift.invSubCells, gs_eq_gsCirc, gsInv_eq_gsInvCirc, gsCirc, gsInvCirc, b1,
    BC.Spec.Gift.nib, BC.Spec.Gift.orRange]
  bv_decide (config := { timeout := 900, maxSteps := 100000000 })

theorem invSubCells_subCells (x : BitVec 128) : BC.Spec.Gift.invSubCells (BC.Spec.Gift.subCells x) = x := by
  simp only [BC.Spec.Gift.subCells, BC.Spec.Gift.invSubCells, gs_eq_gsCirc, gsInv_eq_gsInvCirc, gsCirc, gsInvCirc, b1,
    BC.Spec.Gift.nib, BC.Spec.Gift.orRange]
  bv_decide (config := { timeout := 900, maxSteps := 100000000 })

theorem permBits_invPermBits (x : BitVec 128) : BC.Spec.Gift.permBits (BC.Spec.Gift.invPermBits x) = x := by
  simp only [BC.Spec.Gift.permBits, BC.Spec.Gift.invPermBits, BC.Spec.Gift.orRange, BC.Spec.Gift.bit, BC.Spec.Gift.P128]
  bv_decide (config := { timeout := 900, maxSteps := 100000000 })

theorem invPermBits_permBits (x : BitVec 128) : BC.Spec.Gift.invPermBits (BC.Spec.Gift.permBits x) = x := by
  simp only [BC.Spec.Gift.permBits, BC.Spec.Gift.invPermBits, BC.Spec.Gift.orRange, BC.Spec.Gift.bit, BC.Spec.Gift.P128]
  bv_decide (config := { timeout := 900, maxSteps := 100000000 })

theorem xor_xor_cancel (x k c : BitVec 128) : x ^^^ k ^^^ c ^^^ k ^^^ c = x := by bv_decide

theorem round_invRound (y : BitVec 128) (u v : BitVec 32) (c : BitVec 6) :
    BC.Spec.Gift.round (BC.Spec.Gift.invRound y u v c) u v c = y := by
  unfold BC.Spec.Gift.round BC.Spec.Gift.invRound
  rw [subCells_invSubCells, permBits_invPermBits, xor_xor_cancel]

theorem invRound_round (x : BitVec 128) (u v : BitVec 32) (c : BitVec 6) :
    BC.Spec.Gift.invRound (BC.Spec.Gift.round x u v c) u v c = x := by
  unfold BC.Spec.Gift.round BC.Spec.Gift.invRound
  rw [xor_xor_cancel, invPermBits_permBits, invSubCells_subCells]

/-- rounds `n-1, …, 0` undone in this order -/
def unroundsN (key : BitVec 128) : Nat → BitVec 128 → BitVec 128
  | 0, y => y
  | n + 1, y => unroundsN key n (BC.Spec.Gift.invRound y (keyU (keyAt key n)) (keyV (keyAt key n)) (constAt n))

theorem roundsN_unroundsN (key : BitVec 128) (n : Nat) (y : BitVec 128) : roundsN key (unroundsN key n y) n = y := by
  induction n generalizing y with
  | zero => rfl
  | succ n ih => rw [unroundsN, roundsN, ih, round_invRound]

theorem unroundsN_roundsN (key : BitVec 128) (n : Nat) (b : BitVec 128) : unroundsN key n (roundsN key b n) = b := by
  induction n with
  | zero => rfl
  | succ n ih => rw [roundsN, unroundsN, invRound_round, ih]

theorem spec_decrypt_eq_unroundsN (key y : BitVec 128) : BC.Spec.Gift.decrypt key y = unroundsN key 40 y := by
  simp only [BC.Spec.Gift.decrypt, unroundsN, List.range, List.range.loop, List.foldl, Nat.reduceSub]

/-- the spec's decryption inverts the spec's encryption, and vice versa -/
theorem spec_encrypt_decrypt (key y : BitVec 128) : BC.Spec.Gift.encrypt key (BC.Spec.Gift.decrypt key y) = y := by
  rw [spec_encrypt_eq_roundsN, spec_decrypt_eq_unroundsN, roundsN_unroundsN]

theorem spec_decrypt_encrypt (key b : BitVec 128) : BC.Spec.Gift.decrypt key (BC.Spec.Gift.encrypt key b) = b := by
  rw [spec_encrypt_eq_roundsN, spec_decrypt_eq_unroundsN, unroundsN_roundsN]

/-! ### C10: decryption -/

/-- the Rust's `decrypt_block` after `KeyInit::new(key)` is GIFT-128 decryption: all keys, all blocks -/
theorem decrypt_eq_spec (key y : BitVec 128) :
    decrypt (precomputeRkeys key) y = BC.Spec.Gift.decrypt key y := by
  have h := decrypt_encrypt key (BC.Spec.Gift.decrypt key y)
  rw [encrypt_eq_spec, spec_encrypt_decrypt] at h
  exact h

end BC.Gift.Conf
