import BlockCiphers.Spec.Aes
/-! GF(2^8) multiplication by the MixColumns / InvMixColumns constants in terms of `xtime`
(complete enumeration of the 256 byte values in the kernel). -/
namespace BC.AesFs32
open BC.Spec.Aes

theorem gmul2 : ∀ b : BitVec 8, gmul 0x02#8 b = xtime b := by decide +kernel
theorem gmul3 : ∀ b : BitVec 8, gmul 0x03#8 b = xtime b ^^^ b := by decide +kernel
theorem gmul9 : ∀ b : BitVec 8, gmul 0x09#8 b = xtime (xtime (xtime b)) ^^^ b := by decide +kernel
theorem gmulB : ∀ b : BitVec 8, gmul 0x0b#8 b = xtime (xtime (xtime b)) ^^^ xtime b ^^^ b := by decide +kernel
theorem gmulD : ∀ b : BitVec 8, gmul 0x0d#8 b = xtime (xtime (xtime b)) ^^^ xtime (xtime b) ^^^ b := by decide +kernel
theorem gmulE : ∀ b : BitVec 8, gmul 0x0e#8 b = xtime (xtime (xtime b)) ^^^ xtime (xtime b) ^^^ xtime b := by decide +kernel

end BC.AesFs32
