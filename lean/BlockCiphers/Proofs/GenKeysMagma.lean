import BlockCiphers.Gen.Keys_Magma
import BlockCiphers.Impl.Magma
import Std.Tactic.BVDecide
/-!
Key-schedule tie for Magma / GOST 28147-89: the regenerated `Gost89::new` (eight big-endian `u32` words of the
32-byte key) yields exactly the eight key words `key[0..8]` of the model's `BC.Magma.new`, for all 256-bit keys.
-/
set_option maxRecDepth 100000
namespace BC.GenKeys.Magma
open BC BC.Magma BC.Gen.Fn

/-- the struct field `key: [u32; 8]` of a model cipher object, flattened -/
def Gost89.tuple (c : Gost89) :
    BitVec 32 × BitVec 32 × BitVec 32 × BitVec 32 × BitVec 32 × BitVec 32 × BitVec 32 × BitVec 32 :=
  (c.key[0], c.key[1], c.key[2], c.key[3], c.key[4], c.key[5], c.key[6], c.key[7])

theorem gost89_new_eq (key : BitVec 256) :
    gost89_new key = Gost89.tuple (new key) := by
  simp only [gost89_new, Gost89.tuple, new, Vector.getElem_ofFn, Prod.mk.injEq, Nat.reduceSub, Nat.reduceMul]
  bv_decide (config := { timeout := 300 })

/-- component form: `key[i]` of the model for each literal index -/
theorem gost89_new_eq' (key : BitVec 256) :
    gost89_new key =
      ((new key).key[0], (new key).key[1], (new key).key[2], (new key).key[3],
       (new key).key[4], (new key).key[5], (new key).key[6], (new key).key[7]) :=
  gost89_new_eq key

theorem vec8_eta {α : Type} (v : Vector α 8) : v = #v[v[0], v[1], v[2], v[3], v[4], v[5], v[6], v[7]] := by
  ext i hi
  match i, hi with
  | 0, _ | 1, _ | 2, _ | 3, _ | 4, _ | 5, _ | 6, _ | 7, _ => rfl
  | n + 8, h => omega

/-- the model's cipher object rebuilt from the generated tuple -/
theorem new_eq (key : BitVec 256) :
    new key = { key := #v[(gost89_new key).1, (gost89_new key).2.1, (gost89_new key).2.2.1,
      (gost89_new key).2.2.2.1, (gost89_new key).2.2.2.2.1, (gost89_new key).2.2.2.2.2.1,
      (gost89_new key).2.2.2.2.2.2.1, (gost89_new key).2.2.2.2.2.2.2] } := by
  rw [gost89_new_eq]
  simp only [Gost89.tuple]
  exact congrArg Gost89.mk (vec8_eta _)

end BC.GenKeys.Magma
