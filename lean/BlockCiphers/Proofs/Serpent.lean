import BlockCiphers.Proofs.SerpentSbox
/-
Serpent (model `Impl/Serpent.lean`): decryption inverts encryption and vice versa, for ARBITRARY round keys
(hence for every key of every accepted length 16..=32), for both expansions of `unroll31!`;
the unrolled and the looped expansion are the same function.
-/
namespace BC.Serpent

/-! ### `unroll31!`: unrolled = looped (C03) -/

theorem unroll31_eq_loop31 (body : Words → Nat → Words) (b : Words) : unroll31 body b = loop31 body b := rfl

theorem encrypt_eq_encryptLoop (rk : RoundKeys) (blk : BitVec 128) : encrypt rk blk = encryptLoop rk blk := rfl
theorem decrypt_eq_decryptLoop (rk : RoundKeys) (blk : BitVec 128) : decrypt rk blk = decryptLoop rk blk := rfl

/-! ### generic loop cancellation -/

theorem foldl_range_last {α : Type} (f : α → Nat → α) (n : Nat) (a : α) :
    (List.range (n + 1)).foldl f a = f ((List.range n).foldl f a) n := by
  rw [List.range_succ, List.foldl_append, List.foldl_cons, List.foldl_nil]

theorem foldl_range_first {α : Type} (f : α → Nat → α) (n : Nat) (a : α) :
    (List.range (n + 1)).foldl f a = (List.range n).foldl (fun a i => f a (i + 1)) (f a 0) := by
  rw [List.range_succ_eq_map, List.foldl_cons, List.foldl_map]

theorem down_shift {α : Type} (g : α → Nat → α) (n : Nat) :
    (fun (a : α) (i : Nat) => g a (n + 1 - 1 - (i + 1))) = (fun a i => g a (n - 1 - i)) := by
  funext a i; congr 1; omega

theorem foldl_range_cancel {α : Type} (f g : α → Nat → α) (h : ∀ i a, g (f a i) i = a) (n : Nat) (a : α) :
    (List.range n).foldl (fun a i => g a (n - 1 - i)) ((List.range n).foldl f a) = a := by
  induction n generalizing a with
  | zero => rfl
  | succ n ih =>
    rw [foldl_range_last f, foldl_range_first (fun a i => g a (n + 1 - 1 - i)), down_shift]
    simp only [Nat.add_sub_cancel, Nat.sub_zero, h]
    exact ih a

theorem foldl_range_cancel' {α : Type} (f g : α → Nat → α) (h : ∀ i a, f (g a i) i = a) (n : Nat) (a : α) :
    (List.range n).foldl f ((List.range n).foldl (fun a i => g a (n - 1 - i)) a) = a := by
  induction n generalizing a with
  | zero => rfl
  | succ n ih =>
    rw [foldl_range_last f, foldl_range_first (fun a i => g a (n + 1 - 1 - i)), down_shift]
    simp only [Nat.add_sub_cancel, Nat.sub_zero]
    rw [ih, h]

/-! ### round pieces -/

theorem xor_xor (b k : Words) : xor (xor b k) k = b := by
  cases b; cases k; simp [xor, BitVec.xor_assoc]

theorem applySInv_applyS (i : Nat) (w : Words) : applySInv i (applyS i w) = w := by
  have h : i % 8 < 8 := Nat.mod_lt _ (by decide)
  unfold applySInv applyS
  generalize i % 8 = j at h
  match j, h with
  | 0, _ => exact sboxD0_sboxE0 w
  | 1, _ => exact sboxD1_sboxE1 w
  | 2, _ => exact sboxD2_sboxE2 w
  | 3, _ => exact sboxD3_sboxE3 w
  | 4, _ => exact sboxD4_sboxE4 w
  | 5, _ => exact sboxD5_sboxE5 w
  | 6, _ => exact sboxD6_sboxE6 w
  | 7, _ => exact sboxD7_sboxE7 w
  | n + 8, h => omega

theorem applyS_applySInv (i : Nat) (w : Words) : applyS i (applySInv i w) = w := by
  have h : i % 8 < 8 := Nat.mod_lt _ (by decide)
  unfold applySInv applyS
  generalize i % 8 = j at h
  match j, h with
  | 0, _ => exact sboxE0_sboxD0 w
  | 1, _ => exact sboxE1_sboxD1 w
  | 2, _ => exact sboxE2_sboxD2 w
  | 3, _ => exact sboxE3_sboxD3 w
  | 4, _ => exact sboxE4_sboxD4 w
  | 5, _ => exact sboxE5_sboxD5 w
  | 6, _ => exact sboxE6_sboxD6 w
  | 7, _ => exact sboxE7_sboxD7 w
  | n + 8, h => omega

/-- the `_ => unreachable!()` arm of `apply_s` is dead: `apply_s` is one of the eight circuits -/
theorem applyS_arm (i : Nat) (w : Words) :
    applyS i w = ([sboxE0, sboxE1, sboxE2, sboxE3, sboxE4, sboxE5, sboxE6, sboxE7].getD (i % 8) id) w := by
  have h : i % 8 < 8 := Nat.mod_lt _ (by decide)
  unfold applyS
  generalize i % 8 = j at h
  match j, h with
  | 0, _ | 1, _ | 2, _ | 3, _ | 4, _ | 5, _ | 6, _ | 7, _ => rfl
  | n + 8, h => omega

theorem applySInv_arm (i : Nat) (w : Words) :
    applySInv i w = ([sboxD0, sboxD1, sboxD2, sboxD3, sboxD4, sboxD5, sboxD6, sboxD7].getD (i % 8) id) w := by
  have h : i % 8 < 8 := Nat.mod_lt _ (by decide)
  unfold applySInv
  generalize i % 8 = j at h
  match j, h with
  | 0, _ | 1, _ | 2, _ | 3, _ | 4, _ | 5, _ | 6, _ | 7, _ => rfl
  | n + 8, h => omega

/-- decryption round with the index already reversed -/
def decRound (rk : RoundKeys) (b : Words) (i : Nat) : Words :=
  xor (applySInv i (linearTransformInv b)) (rk.get i)

theorem decBody_eq (rk : RoundKeys) : decBody rk = fun b i => decRound rk b (31 - 1 - i) := rfl

theorem decRound_encBody (rk : RoundKeys) (i : Nat) (b : Words) : decRound rk (encBody rk b i) i = b := by
  simp only [decRound, encBody, linearTransformInv_linearTransform, applySInv_applyS, xor_xor]

theorem encBody_decRound (rk : RoundKeys) (i : Nat) (b : Words) : encBody rk (decRound rk b i) i = b := by
  simp only [decRound, encBody, xor_xor, applyS_applySInv, linearTransform_linearTransformInv]

theorem loop31_dec_enc (rk : RoundKeys) (b : Words) : loop31 (decBody rk) (loop31 (encBody rk) b) = b := by
  rw [decBody_eq]; exact foldl_range_cancel (encBody rk) (decRound rk) (decRound_encBody rk) 31 b

theorem loop31_enc_dec (rk : RoundKeys) (b : Words) : loop31 (encBody rk) (loop31 (decBody rk) b) = b := by
  rw [decBody_eq]; exact foldl_range_cancel' (encBody rk) (decRound rk) (encBody_decRound rk) 31 b

/-! ### whole cipher on words -/

theorem decryptWords_encryptWords (rk : RoundKeys) (b : Words) :
    decryptWordsWith loop31 rk (encryptWordsWith loop31 rk b) = b := by
  simp only [decryptWordsWith, encryptWordsWith, xor_xor, applySInv_applyS, loop31_dec_enc]

theorem encryptWords_decryptWords (rk : RoundKeys) (b : Words) :
    encryptWordsWith loop31 rk (decryptWordsWith loop31 rk b) = b := by
  simp only [decryptWordsWith, encryptWordsWith, xor_xor, applyS_applySInv, loop31_enc_dec]

theorem readWords_writeWords (w : Words) : readWords (writeWords w) = w := by
  cases w; simp only [readWords, writeWords, bswap32, Words.mk.injEq]; bv_decide (config := { timeout := 600 })

theorem writeWords_readWords (b : BitVec 128) : writeWords (readWords b) = b := by
  simp only [readWords, writeWords, bswap32]; bv_decide (config := { timeout := 600 })

/-! ### main theorems -/

/-- looped configuration, arbitrary round keys -/
theorem decryptLoop_encryptLoop (rk : RoundKeys) (blk : BitVec 128) :
    decryptLoop rk (encryptLoop rk blk) = blk := by
  simp only [decryptLoop, encryptLoop, readWords_writeWords, decryptWords_encryptWords, writeWords_readWords]

theorem encryptLoop_decryptLoop (rk : RoundKeys) (blk : BitVec 128) :
    encryptLoop rk (decryptLoop rk blk) = blk := by
  simp only [decryptLoop, encryptLoop, readWords_writeWords, encryptWords_decryptWords, writeWords_readWords]

/-- default (unrolled) configuration, arbitrary round keys -/
theorem decrypt_encrypt (rk : RoundKeys) (blk : BitVec 128) : decrypt rk (encrypt rk blk) = blk := by
  rw [decrypt_eq_decryptLoop, encrypt_eq_encryptLoop, decryptLoop_encryptLoop]

theorem encrypt_decrypt (rk : RoundKeys) (blk : BitVec 128) : encrypt rk (decrypt rk blk) = blk := by
  rw [decrypt_eq_decryptLoop, encrypt_eq_encryptLoop, encryptLoop_decryptLoop]

/-- every key (of any length; in particular each of the 17 accepted lengths 16..=32), every block -/
theorem decrypt_encrypt_key (key : Bytes) (blk : BitVec 128) :
    decrypt (keySchedule key) (encrypt (keySchedule key) blk) = blk := decrypt_encrypt _ blk

theorem encrypt_decrypt_key (key : Bytes) (blk : BitVec 128) :
    encrypt (keySchedule key) (decrypt (keySchedule key) blk) = blk := encrypt_decrypt _ blk

end BC.Serpent
