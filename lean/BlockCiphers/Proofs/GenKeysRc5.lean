import Lean
import BlockCiphers.Gen.Keys_Rc5
import BlockCiphers.Impl.Rc5
/-
Tie of the regenerated key expansion of the `rc5` crate (`Gen/Keys_Rc5.lean`: `RC5::new`, `substitute_key`,
`key_into_words`, `initialize_expanded_key_table`, `mix_in` for `RC5<u32, U12, U16>`, `RC5<u16, U16, U8>`,
`RC5<u64, U24, U24>`, `RC5<u8, U12, U4>`) to the model `BC.Rc5.substituteKey`, `keyIntoWords`, `initTable`, `mixIn` of
`Impl/Rc5.lean`, for ALL keys (resp. all key tables / key words for `mix_in`).

The key expansion is ARX with data-dependent rotations: nothing is bit-blasted.  Every equation below whose proof is
`kernel_rfl` holds BY COMPUTATION (both sides reduce to the same term: the model's loops over literal arrays of
variables unfold to exactly the straight-line text of the regenerated function) and is checked by the Lean KERNEL's
definitional-equality test: the tactic `kernel_rfl` closes `a = b` with the term `@rfl _ a` WITHOUT asking the elaborator's
(much slower, transparency-limited) unifier first; the kernel then type-checks the declaration, i.e. decides `a ≡ b`
(a wrong statement is rejected: "(kernel) declaration type mismatch").  Nothing is assumed (it is to `rfl` what
`decide +kernel` is to `decide`).

Per instantiation:
  * `_mix_in_eq`            : regenerated `mix_in` = `mixIn`, for ALL key tables and ALL key words      (kernel_rfl)
  * `_key_into_words_eq`    : regenerated `key_into_words` = `keyIntoWords` of the unpacked key, all keys (kernel_rfl)
  * `_initialize_expanded_key_table_eq` : = `initTable`                                                 (decide +kernel)
  * `_substitute_key_unfold`, `_new_unfold` : the regenerated `substitute_key` / `new` (calls inlined and constants folded
    by the translator) are the regenerated `mix_in` applied to the regenerated `initialize_expanded_key_table` and
    `key_into_words`                                                                                     (kernel_rfl)
  * `_substitute_key_eq`, `_new_eq` : = `substituteKey w r b (unpackBE b key)` for all keys — composition of the above
    (no computation).
(A direct `kernel_rfl` of `_new_eq` works for u8 and u16 only: with 32/64-bit words the kernel runs into a unary recursion on
a folded 32-bit constant; the route through the generic `_mix_in_eq` avoids comparing folded constants with model terms.)
Produced by `tools/tie_gen/bigstate/gen_rc5_keys_tie.py`.
-/
namespace BC.GenKeys.Rc5
open BC BC.Rc5 BC.Gen.Fn
set_option maxRecDepth 100000

open Lean Elab Tactic Meta in
/-- close `a = b` by `@rfl _ a`, the definitional equality `a ≡ b` being checked by the kernel only -/
elab "kernel_rfl" : tactic => do
  let g ← getMainGoal
  let t ← instantiateMVars (← g.getType)
  let some (_, lhs, _) := t.eq? | throwError "kernel_rfl: not an equality"
  g.assign (← mkEqRefl lhs)

/-! ### rc5_32_12_16: `RC5<u32, U12, U16>` (26 key-table words, 4 key words, 78 mixing iterations) -/

/-- the result tuple of the regenerated functions as the model's array -/
def rc5_32_12_16_tbl (t : BitVec 32 × BitVec 32 × BitVec 32 × BitVec 32 × BitVec 32 × BitVec 32 × BitVec 32 × BitVec 32 × BitVec 32 × BitVec 32 × BitVec 32 × BitVec 32 × BitVec 32 × BitVec 32 × BitVec 32 × BitVec 32 × BitVec 32 × BitVec 32 × BitVec 32 × BitVec 32 × BitVec 32 × BitVec 32 × BitVec 32 × BitVec 32 × BitVec 32 × BitVec 32) : Array (BitVec 32) :=
  match t with
  | (x0, x1, x2, x3, x4, x5, x6, x7, x8, x9, x10, x11, x12, x13, x14, x15, x16, x17, x18, x19, x20, x21, x22, x23, x24, x25) => #[x0, x1, x2, x3, x4, x5, x6, x7, x8, x9, x10, x11, x12, x13, x14, x15, x16, x17, x18, x19, x20, x21, x22, x23, x24, x25]
def rc5_32_12_16_kw (t : BitVec 32 × BitVec 32 × BitVec 32 × BitVec 32) : Array (BitVec 32) :=
  match t with
  | (y0, y1, y2, y3) => #[y0, y1, y2, y3]

/-- the regenerated `mix_in` on tuples -/
def rc5_32_12_16_mix_in_t (S : BitVec 32 × BitVec 32 × BitVec 32 × BitVec 32 × BitVec 32 × BitVec 32 × BitVec 32 × BitVec 32 × BitVec 32 × BitVec 32 × BitVec 32 × BitVec 32 × BitVec 32 × BitVec 32 × BitVec 32 × BitVec 32 × BitVec 32 × BitVec 32 × BitVec 32 × BitVec 32 × BitVec 32 × BitVec 32 × BitVec 32 × BitVec 32 × BitVec 32 × BitVec 32) (L : BitVec 32 × BitVec 32 × BitVec 32 × BitVec 32) : BitVec 32 × BitVec 32 × BitVec 32 × BitVec 32 × BitVec 32 × BitVec 32 × BitVec 32 × BitVec 32 × BitVec 32 × BitVec 32 × BitVec 32 × BitVec 32 × BitVec 32 × BitVec 32 × BitVec 32 × BitVec 32 × BitVec 32 × BitVec 32 × BitVec 32 × BitVec 32 × BitVec 32 × BitVec 32 × BitVec 32 × BitVec 32 × BitVec 32 × BitVec 32 :=
  match S, L with
  | (x0, x1, x2, x3, x4, x5, x6, x7, x8, x9, x10, x11, x12, x13, x14, x15, x16, x17, x18, x19, x20, x21, x22, x23, x24, x25), (y0, y1, y2, y3) => rc5_32_12_16_mix_in x0 x1 x2 x3 x4 x5 x6 x7 x8 x9 x10 x11 x12 x13 x14 x15 x16 x17 x18 x19 x20 x21 x22 x23 x24 x25 y0 y1 y2 y3

/-- `rc5_32_12_16_mix_in` (regenerated `RC5::mix_in`) is the model's `mixIn`, for all key tables and key words -/
theorem rc5_32_12_16_mix_in_eq (s0 s1 s2 s3 s4 s5 s6 s7 s8 s9 s10 s11 s12 s13 s14 s15 s16 s17 s18 s19 s20 s21 s22 s23 s24 s25 l0 l1 l2 l3 : BitVec 32) :
    rc5_32_12_16_tbl (rc5_32_12_16_mix_in s0 s1 s2 s3 s4 s5 s6 s7 s8 s9 s10 s11 s12 s13 s14 s15 s16 s17 s18 s19 s20 s21 s22 s23 s24 s25 l0 l1 l2 l3) = mixIn #[s0, s1, s2, s3, s4, s5, s6, s7, s8, s9, s10, s11, s12, s13, s14, s15, s16, s17, s18, s19, s20, s21, s22, s23, s24, s25] #[l0, l1, l2, l3] := by
  kernel_rfl

theorem rc5_32_12_16_mix_in_t_eq (S : BitVec 32 × BitVec 32 × BitVec 32 × BitVec 32 × BitVec 32 × BitVec 32 × BitVec 32 × BitVec 32 × BitVec 32 × BitVec 32 × BitVec 32 × BitVec 32 × BitVec 32 × BitVec 32 × BitVec 32 × BitVec 32 × BitVec 32 × BitVec 32 × BitVec 32 × BitVec 32 × BitVec 32 × BitVec 32 × BitVec 32 × BitVec 32 × BitVec 32 × BitVec 32) (L : BitVec 32 × BitVec 32 × BitVec 32 × BitVec 32) :
    rc5_32_12_16_tbl (rc5_32_12_16_mix_in_t S L) = mixIn (rc5_32_12_16_tbl S) (rc5_32_12_16_kw L) := by
  obtain ⟨s0, s1, s2, s3, s4, s5, s6, s7, s8, s9, s10, s11, s12, s13, s14, s15, s16, s17, s18, s19, s20, s21, s22, s23, s24, s25⟩ := S
  obtain ⟨l0, l1, l2, l3⟩ := L
  exact rc5_32_12_16_mix_in_eq s0 s1 s2 s3 s4 s5 s6 s7 s8 s9 s10 s11 s12 s13 s14 s15 s16 s17 s18 s19 s20 s21 s22 s23 s24 s25 l0 l1 l2 l3

/-- `rc5_32_12_16_key_into_words` (regenerated `RC5::key_into_words`) is the model's `keyIntoWords`, for all keys -/
theorem rc5_32_12_16_key_into_words_eq (key : BitVec 128) :
    rc5_32_12_16_kw (rc5_32_12_16_key_into_words key) = keyIntoWords 32 16 (unpackBE 16 key) := by
  kernel_rfl

/-- `rc5_32_12_16_initialize_expanded_key_table` (regenerated) is the model's `initTable` -/
theorem rc5_32_12_16_initialize_expanded_key_table_eq :
    rc5_32_12_16_tbl rc5_32_12_16_initialize_expanded_key_table = initTable 32 12 := by decide +kernel

/-- the regenerated `substitute_key` (calls inlined, constants folded) is the regenerated `mix_in` of the regenerated
`initialize_expanded_key_table` and `key_into_words` -/
theorem rc5_32_12_16_substitute_key_unfold (key : BitVec 128) :
    rc5_32_12_16_substitute_key key = rc5_32_12_16_mix_in_t rc5_32_12_16_initialize_expanded_key_table (rc5_32_12_16_key_into_words key) := by
  kernel_rfl

/-- likewise `RC5::new` (`Self { key_table: Self::substitute_key(key) }`) -/
theorem rc5_32_12_16_new_unfold (key : BitVec 128) :
    rc5_32_12_16_new key = rc5_32_12_16_mix_in_t rc5_32_12_16_initialize_expanded_key_table (rc5_32_12_16_key_into_words key) := by
  kernel_rfl

/-- `rc5_32_12_16_substitute_key` (regenerated `RC5::substitute_key`) is the model's `substituteKey`, for all keys -/
theorem rc5_32_12_16_substitute_key_eq (key : BitVec 128) :
    rc5_32_12_16_tbl (rc5_32_12_16_substitute_key key) = substituteKey 32 12 16 (unpackBE 16 key) := by
  rw [rc5_32_12_16_substitute_key_unfold, rc5_32_12_16_mix_in_t_eq, rc5_32_12_16_initialize_expanded_key_table_eq,
    rc5_32_12_16_key_into_words_eq, substituteKey]

/-- `rc5_32_12_16_new` (regenerated `RC5::new`, the field `key_table` of the constructed cipher) is the model's
`substituteKey`, for all keys -/
theorem rc5_32_12_16_new_eq (key : BitVec 128) :
    rc5_32_12_16_tbl (rc5_32_12_16_new key) = substituteKey 32 12 16 (unpackBE 16 key) := by
  rw [rc5_32_12_16_new_unfold, rc5_32_12_16_mix_in_t_eq, rc5_32_12_16_initialize_expanded_key_table_eq,
    rc5_32_12_16_key_into_words_eq, substituteKey]

/-! ### rc5_16_16_8: `RC5<u16, U16, U8>` (34 key-table words, 4 key words, 102 mixing iterations) -/

/-- the result tuple of the regenerated functions as the model's array -/
def rc5_16_16_8_tbl (t : BitVec 16 × BitVec 16 × BitVec 16 × BitVec 16 × BitVec 16 × BitVec 16 × BitVec 16 × BitVec 16 × BitVec 16 × BitVec 16 × BitVec 16 × BitVec 16 × BitVec 16 × BitVec 16 × BitVec 16 × BitVec 16 × BitVec 16 × BitVec 16 × BitVec 16 × BitVec 16 × BitVec 16 × BitVec 16 × BitVec 16 × BitVec 16 × BitVec 16 × BitVec 16 × BitVec 16 × BitVec 16 × BitVec 16 × BitVec 16 × BitVec 16 × BitVec 16 × BitVec 16 × BitVec 16) : Array (BitVec 16) :=
  match t with
  | (x0, x1, x2, x3, x4, x5, x6, x7, x8, x9, x10, x11, x12, x13, x14, x15, x16, x17, x18, x19, x20, x21, x22, x23, x24, x25, x26, x27, x28, x29, x30, x31, x32, x33) => #[x0, x1, x2, x3, x4, x5, x6, x7, x8, x9, x10, x11, x12, x13, x14, x15, x16, x17, x18, x19, x20, x21, x22, x23, x24, x25, x26, x27, x28, x29, x30, x31, x32, x33]
def rc5_16_16_8_kw (t : BitVec 16 × BitVec 16 × BitVec 16 × BitVec 16) : Array (BitVec 16) :=
  match t with
  | (y0, y1, y2, y3) => #[y0, y1, y2, y3]

/-- the regenerated `mix_in` on tuples -/
def rc5_16_16_8_mix_in_t (S : BitVec 16 × BitVec 16 × BitVec 16 × BitVec 16 × BitVec 16 × BitVec 16 × BitVec 16 × BitVec 16 × BitVec 16 × BitVec 16 × BitVec 16 × BitVec 16 × BitVec 16 × BitVec 16 × BitVec 16 × BitVec 16 × BitVec 16 × BitVec 16 × BitVec 16 × BitVec 16 × BitVec 16 × BitVec 16 × BitVec 16 × BitVec 16 × BitVec 16 × BitVec 16 × BitVec 16 × BitVec 16 × BitVec 16 × BitVec 16 × BitVec 16 × BitVec 16 × BitVec 16 × BitVec 16) (L : BitVec 16 × BitVec 16 × BitVec 16 × BitVec 16) : BitVec 16 × BitVec 16 × BitVec 16 × BitVec 16 × BitVec 16 × BitVec 16 × BitVec 16 × BitVec 16 × BitVec 16 × BitVec 16 × BitVec 16 × BitVec 16 × BitVec 16 × BitVec 16 × BitVec 16 × BitVec 16 × BitVec 16 × BitVec 16 × BitVec 16 × BitVec 16 × BitVec 16 × BitVec 16 × BitVec 16 × BitVec 16 × BitVec 16 × BitVec 16 × BitVec 16 × BitVec 16 × BitVec 16 × BitVec 16 × BitVec 16 × BitVec 16 × BitVec 16 × BitVec 16 :=
  match S, L with
  | (x0, x1, x2, x3, x4, x5, x6, x7, x8, x9, x10, x11, x12, x13, x14, x15, x16, x17, x18, x19, x20, x21, x22, x23, x24, x25, x26, x27, x28, x29, x30, x31, x32, x33), (y0, y1, y2, y3) => rc5_16_16_8_mix_in x0 x1 x2 x3 x4 x5 x6 x7 x8 x9 x10 x11 x12 x13 x14 x15 x16 x17 x18 x19 x20 x21 x22 x23 x24 x25 x26 x27 x28 x29 x30 x31 x32 x33 y0 y1 y2 y3

/-- `rc5_16_16_8_mix_in` (regenerated `RC5::mix_in`) is the model's `mixIn`, for all key tables and key words -/
theorem rc5_16_16_8_mix_in_eq (s0 s1 s2 s3 s4 s5 s6 s7 s8 s9 s10 s11 s12 s13 s14 s15 s16 s17 s18 s19 s20 s21 s22 s23 s24 s25 s26 s27 s28 s29 s30 s31 s32 s33 l0 l1 l2 l3 : BitVec 16) :
    rc5_16_16_8_tbl (rc5_16_16_8_mix_in s0 s1 s2 s3 s4 s5 s6 s7 s8 s9 s10 s11 s12 s13 s14 s15 s16 s17 s18 s19 s20 s21 s22 s23 s24 s25 s26 s27 s28 s29 s30 s31 s32 s33 l0 l1 l2 l3) = mixIn #[s0, s1, s2, s3, s4, s5, s6, s7, s8, s9, s10, s11, s12, s13, s14, s15, s16, s17, s18, s19, s20, s21, s22, s23, s24, s25, s26, s27, s28, s29, s30, s31, s32, s33] #[l0, l1, l2, l3] := by
  kernel_rfl

theorem rc5_16_16_8_mix_in_t_eq (S : BitVec 16 × BitVec 16 × BitVec 16 × BitVec 16 × BitVec 16 × BitVec 16 × BitVec 16 × BitVec 16 × BitVec 16 × BitVec 16 × BitVec 16 × BitVec 16 × BitVec 16 × BitVec 16 × BitVec 16 × BitVec 16 × BitVec 16 × BitVec 16 × BitVec 16 × BitVec 16 × BitVec 16 × BitVec 16 × BitVec 16 × BitVec 16 × BitVec 16 × BitVec 16 × BitVec 16 × BitVec 16 × BitVec 16 × BitVec 16 × BitVec 16 × BitVec 16 × BitVec 16 × BitVec 16) (L : BitVec 16 × BitVec 16 × BitVec 16 × BitVec 16) :
    rc5_16_16_8_tbl (rc5_16_16_8_mix_in_t S L) = mixIn (rc5_16_16_8_tbl S) (rc5_16_16_8_kw L) := by
  obtain ⟨s0, s1, s2, s3, s4, s5, s6, s7, s8, s9, s10, s11, s12, s13, s14, s15, s16, s17, s18, s19, s20, s21, s22, s23, s24, s25, s26, s27, s28, s29, s30, s31, s32, s33⟩ := S
  obtain ⟨l0, l1, l2, l3⟩ := L
  exact rc5_16_16_8_mix_in_eq s0 s1 s2 s3 s4 s5 s6 s7 s8 s9 s10 s11 s12 s13 s14 s15 s16 s17 s18 s19 s20 s21 s22 s23 s24 s25 s26 s27 s28 s29 s30 s31 s32 s33 l0 l1 l2 l3

/-- `rc5_16_16_8_key_into_words` (regenerated `RC5::key_into_words`) is the model's `keyIntoWords`, for all keys -/
theorem rc5_16_16_8_key_into_words_eq (key : BitVec 64) :
    rc5_16_16_8_kw (rc5_16_16_8_key_into_words key) = keyIntoWords 16 8 (unpackBE 8 key) := by
  kernel_rfl

/-- `rc5_16_16_8_initialize_expanded_key_table` (regenerated) is the model's `initTable` -/
theorem rc5_16_16_8_initialize_expanded_key_table_eq :
    rc5_16_16_8_tbl rc5_16_16_8_initialize_expanded_key_table = initTable 16 16 := by decide +kernel

/-- the regenerated `substitute_key` (calls inlined, constants folded) is the regenerated `mix_in` of the regenerated
`initialize_expanded_key_table` and `key_into_words` -/
theorem rc5_16_16_8_substitute_key_unfold (key : BitVec 64) :
    rc5_16_16_8_substitute_key key = rc5_16_16_8_mix_in_t rc5_16_16_8_initialize_expanded_key_table (rc5_16_16_8_key_into_words key) := by
  kernel_rfl

/-- likewise `RC5::new` (`Self { key_table: Self::substitute_key(key) }`) -/
theorem rc5_16_16_8_new_unfold (key : BitVec 64) :
    rc5_16_16_8_new key = rc5_16_16_8_mix_in_t rc5_16_16_8_initialize_expanded_key_table (rc5_16_16_8_key_into_words key) := by
  kernel_rfl

/-- `rc5_16_16_8_substitute_key` (regenerated `RC5::substitute_key`) is the model's `substituteKey`, for all keys -/
theorem rc5_16_16_8_substitute_key_eq (key : BitVec 64) :
    rc5_16_16_8_tbl (rc5_16_16_8_substitute_key key) = substituteKey 16 16 8 (unpackBE 8 key) := by
  rw [rc5_16_16_8_substitute_key_unfold, rc5_16_16_8_mix_in_t_eq, rc5_16_16_8_initialize_expanded_key_table_eq,
    rc5_16_16_8_key_into_words_eq, substituteKey]

/-- `rc5_16_16_8_new` (regenerated `RC5::new`, the field `key_table` of the constructed cipher) is the model's
`substituteKey`, for all keys -/
theorem rc5_16_16_8_new_eq (key : BitVec 64) :
    rc5_16_16_8_tbl (rc5_16_16_8_new key) = substituteKey 16 16 8 (unpackBE 8 key) := by
  rw [rc5_16_16_8_new_unfold, rc5_16_16_8_mix_in_t_eq, rc5_16_16_8_initialize_expanded_key_table_eq,
    rc5_16_16_8_key_into_words_eq, substituteKey]

/-! ### rc5_64_24_24: `RC5<u64, U24, U24>` (50 key-table words, 3 key words, 150 mixing iterations) -/

/-- the result tuple of the regenerated functions as the model's array -/
def rc5_64_24_24_tbl (t : BitVec 64 × BitVec 64 × BitVec 64 × BitVec 64 × BitVec 64 × BitVec 64 × BitVec 64 × BitVec 64 × BitVec 64 × BitVec 64 × BitVec 64 × BitVec 64 × BitVec 64 × BitVec 64 × BitVec 64 × BitVec 64 × BitVec 64 × BitVec 64 × BitVec 64 × BitVec 64 × BitVec 64 × BitVec 64 × BitVec 64 × BitVec 64 × BitVec 64 × BitVec 64 × BitVec 64 × BitVec 64 × BitVec 64 × BitVec 64 × BitVec 64 × BitVec 64 × BitVec 64 × BitVec 64 × BitVec 64 × BitVec 64 × BitVec 64 × BitVec 64 × BitVec 64 × BitVec 64 × BitVec 64 × BitVec 64 × BitVec 64 × BitVec 64 × BitVec 64 × BitVec 64 × BitVec 64 × BitVec 64 × BitVec 64 × BitVec 64) : Array (BitVec 64) :=
  match t with
  | (x0, x1, x2, x3, x4, x5, x6, x7, x8, x9, x10, x11, x12, x13, x14, x15, x16, x17, x18, x19, x20, x21, x22, x23, x24, x25, x26, x27, x28, x29, x30, x31, x32, x33, x34, x35, x36, x37, x38, x39, x40, x41, x42, x43, x44, x45, x46, x47, x48, x49) => #[x0, x1, x2, x3, x4, x5, x6, x7, x8, x9, x10, x11, x12, x13, x14, x15, x16, x17, x18, x19, x20, x21, x22, x23, x24, x25, x26, x27, x28, x29, x30, x31, x32, x33, x34, x35, x36, x37, x38, x39, x40, x41, x42, x43, x44, x45, x46, x47, x48, x49]
def rc5_64_24_24_kw (t : BitVec 64 × BitVec 64 × BitVec 64) : Array (BitVec 64) :=
  match t with
  | (y0, y1, y2) => #[y0, y1, y2]

/-- the regenerated `mix_in` on tuples -/
def rc5_64_24_24_mix_in_t (S : BitVec 64 × BitVec 64 × BitVec 64 × BitVec 64 × BitVec 64 × BitVec 64 × BitVec 64 × BitVec 64 × BitVec 64 × BitVec 64 × BitVec 64 × BitVec 64 × BitVec 64 × BitVec 64 × BitVec 64 × BitVec 64 × BitVec 64 × BitVec 64 × BitVec 64 × BitVec 64 × BitVec 64 × BitVec 64 × BitVec 64 × BitVec 64 × BitVec 64 × BitVec 64 × BitVec 64 × BitVec 64 × BitVec 64 × BitVec 64 × BitVec 64 × BitVec 64 × BitVec 64 × BitVec 64 × BitVec 64 × BitVec 64 × BitVec 64 × BitVec 64 × BitVec 64 × BitVec 64 × BitVec 64 × BitVec 64 × BitVec 64 × BitVec 64 × BitVec 64 × BitVec 64 × BitVec 64 × BitVec 64 × BitVec 64 × BitVec 64) (L : BitVec 64 × BitVec 64 × BitVec 64) : BitVec 64 × BitVec 64 × BitVec 64 × BitVec 64 × BitVec 64 × BitVec 64 × BitVec 64 × BitVec 64 × BitVec 64 × BitVec 64 × BitVec 64 × BitVec 64 × BitVec 64 × BitVec 64 × BitVec 64 × BitVec 64 × BitVec 64 × BitVec 64 × BitVec 64 × BitVec 64 × BitVec 64 × BitVec 64 × BitVec 64 × BitVec 64 × BitVec 64 × BitVec 64 × BitVec 64 × BitVec 64 × BitVec 64 × BitVec 64 × BitVec 64 × BitVec 64 × BitVec 64 × BitVec 64 × BitVec 64 × BitVec 64 × BitVec 64 × BitVec 64 × BitVec 64 × BitVec 64 × BitVec 64 × BitVec 64 × BitVec 64 × BitVec 64 × BitVec 64 × BitVec 64 × BitVec 64 × BitVec 64 × BitVec 64 × BitVec 64 :=
  match S, L with
  | (x0, x1, x2, x3, x4, x5, x6, x7, x8, x9, x10, x11, x12, x13, x14, x15, x16, x17, x18, x19, x20, x21, x22, x23, x24, x25, x26, x27, x28, x29, x30, x31, x32, x33, x34, x35, x36, x37, x38, x39, x40, x41, x42, x43, x44, x45, x46, x47, x48, x49), (y0, y1, y2) => rc5_64_24_24_mix_in x0 x1 x2 x3 x4 x5 x6 x7 x8 x9 x10 x11 x12 x13 x14 x15 x16 x17 x18 x19 x20 x21 x22 x23 x24 x25 x26 x27 x28 x29 x30 x31 x32 x33 x34 x35 x36 x37 x38 x39 x40 x41 x42 x43 x44 x45 x46 x47 x48 x49 y0 y1 y2

/-- `rc5_64_24_24_mix_in` (regenerated `RC5::mix_in`) is the model's `mixIn`, for all key tables and key words -/
theorem rc5_64_24_24_mix_in_eq (s0 s1 s2 s3 s4 s5 s6 s7 s8 s9 s10 s11 s12 s13 s14 s15 s16 s17 s18 s19 s20 s21 s22 s23 s24 s25 s26 s27 s28 s29 s30 s31 s32 s33 s34 s35 s36 s37 s38 s39 s40 s41 s42 s43 s44 s45 s46 s47 s48 s49 l0 l1 l2 : BitVec 64) :
    rc5_64_24_24_tbl (rc5_64_24_24_mix_in s0 s1 s2 s3 s4 s5 s6 s7 s8 s9 s10 s11 s12 s13 s14 s15 s16 s17 s18 s19 s20 s21 s22 s23 s24 s25 s26 s27 s28 s29 s30 s31 s32 s33 s34 s35 s36 s37 s38 s39 s40 s41 s42 s43 s44 s45 s46 s47 s48 s49 l0 l1 l2) = mixIn #[s0, s1, s2, s3, s4, s5, s6, s7, s8, s9, s10, s11, s12, s13, s14, s15, s16, s17, s18, s19, s20, s21, s22, s23, s24, s25, s26, s27, s28, s29, s30, s31, s32, s33, s34, s35, s36, s37, s38, s39, s40, s41, s42, s43, s44, s45, s46, s47, s48, s49] #[l0, l1, l2] := by
  kernel_rfl

theorem rc5_64_24_24_mix_in_t_eq (S : BitVec 64 × BitVec 64 × BitVec 64 × BitVec 64 × BitVec 64 × BitVec 64 × BitVec 64 × BitVec 64 × BitVec 64 × BitVec 64 × BitVec 64 × BitVec 64 × BitVec 64 × BitVec 64 × BitVec 64 × BitVec 64 × BitVec 64 × BitVec 64 × BitVec 64 × BitVec 64 × BitVec 64 × BitVec 64 × BitVec 64 × BitVec 64 × BitVec 64 × BitVec 64 × BitVec 64 × BitVec 64 × BitVec 64 × BitVec 64 × BitVec 64 × BitVec 64 × BitVec 64 × BitVec 64 × BitVec 64 × BitVec 64 × BitVec 64 × BitVec 64 × BitVec 64 × BitVec 64 × BitVec 64 × BitVec 64 × BitVec 64 × BitVec 64 × BitVec 64 × BitVec 64 × BitVec 64 × BitVec 64 × BitVec 64 × BitVec 64) (L : BitVec 64 × BitVec 64 × BitVec 64) :
    rc5_64_24_24_tbl (rc5_64_24_24_mix_in_t S L) = mixIn (rc5_64_24_24_tbl S) (rc5_64_24_24_kw L) := by
  obtain ⟨s0, s1, s2, s3, s4, s5, s6, s7, s8, s9, s10, s11, s12, s13, s14, s15, s16, s17, s18, s19, s20, s21, s22, s23, s24, s25, s26, s27, s28, s29, s30, s31, s32, s33, s34, s35, s36, s37, s38, s39, s40, s41, s42, s43, s44, s45, s46, s47, s48, s49⟩ := S
  obtain ⟨l0, l1, l2⟩ := L
  exact rc5_64_24_24_mix_in_eq s0 s1 s2 s3 s4 s5 s6 s7 s8 s9 s10 s11 s12 s13 s14 s15 s16 s17 s18 s19 s20 s21 s22 s23 s24 s25 s26 s27 s28 s29 s30 s31 s32 s33 s34 s35 s36 s37 s38 s39 s40 s41 s42 s43 s44 s45 s46 s47 s48 s49 l0 l1 l2

/-- `rc5_64_24_24_key_into_words` (regenerated `RC5::key_into_words`) is the model's `keyIntoWords`, for all keys -/
theorem rc5_64_24_24_key_into_words_eq (key : BitVec 192) :
    rc5_64_24_24_kw (rc5_64_24_24_key_into_words key) = keyIntoWords 64 24 (unpackBE 24 key) := by
  kernel_rfl

/-- `rc5_64_24_24_initialize_expanded_key_table` (regenerated) is the model's `initTable` -/
theorem rc5_64_24_24_initialize_expanded_key_table_eq :
    rc5_64_24_24_tbl rc5_64_24_24_initialize_expanded_key_table = initTable 64 24 := by decide +kernel

/-- the regenerated `substitute_key` (calls inlined, constants folded) is the regenerated `mix_in` of the regenerated
`initialize_expanded_key_table` and `key_into_words` -/
theorem rc5_64_24_24_substitute_key_unfold (key : BitVec 192) :
    rc5_64_24_24_substitute_key key = rc5_64_24_24_mix_in_t rc5_64_24_24_initialize_expanded_key_table (rc5_64_24_24_key_into_words key) := by
  kernel_rfl

/-- likewise `RC5::new` (`Self { key_table: Self::substitute_key(key) }`) -/
theorem rc5_64_24_24_new_unfold (key : BitVec 192) :
    rc5_64_24_24_new key = rc5_64_24_24_mix_in_t rc5_64_24_24_initialize_expanded_key_table (rc5_64_24_24_key_into_words key) := by
  kernel_rfl

/-- `rc5_64_24_24_substitute_key` (regenerated `RC5::substitute_key`) is the model's `substituteKey`, for all keys -/
theorem rc5_64_24_24_substitute_key_eq (key : BitVec 192) :
    rc5_64_24_24_tbl (rc5_64_24_24_substitute_key key) = substituteKey 64 24 24 (unpackBE 24 key) := by
  rw [rc5_64_24_24_substitute_key_unfold, rc5_64_24_24_mix_in_t_eq, rc5_64_24_24_initialize_expanded_key_table_eq,
    rc5_64_24_24_key_into_words_eq, substituteKey]

/-- `rc5_64_24_24_new` (regenerated `RC5::new`, the field `key_table` of the constructed cipher) is the model's
`substituteKey`, for all keys -/
theorem rc5_64_24_24_new_eq (key : BitVec 192) :
    rc5_64_24_24_tbl (rc5_64_24_24_new key) = substituteKey 64 24 24 (unpackBE 24 key) := by
  rw [rc5_64_24_24_new_unfold, rc5_64_24_24_mix_in_t_eq, rc5_64_24_24_initialize_expanded_key_table_eq,
    rc5_64_24_24_key_into_words_eq, substituteKey]

/-! ### rc5_8_12_4: `RC5<u8, U12, U4>` (26 key-table words, 4 key words, 78 mixing iterations) -/

/-- the result tuple of the regenerated functions as the model's array -/
def rc5_8_12_4_tbl (t : BitVec 8 × BitVec 8 × BitVec 8 × BitVec 8 × BitVec 8 × BitVec 8 × BitVec 8 × BitVec 8 × BitVec 8 × BitVec 8 × BitVec 8 × BitVec 8 × BitVec 8 × BitVec 8 × BitVec 8 × BitVec 8 × BitVec 8 × BitVec 8 × BitVec 8 × BitVec 8 × BitVec 8 × BitVec 8 × BitVec 8 × BitVec 8 × BitVec 8 × BitVec 8) : Array (BitVec 8) :=
  match t with
  | (x0, x1, x2, x3, x4, x5, x6, x7, x8, x9, x10, x11, x12, x13, x14, x15, x16, x17, x18, x19, x20, x21, x22, x23, x24, x25) => #[x0, x1, x2, x3, x4, x5, x6, x7, x8, x9, x10, x11, x12, x13, x14, x15, x16, x17, x18, x19, x20, x21, x22, x23, x24, x25]
def rc5_8_12_4_kw (t : BitVec 8 × BitVec 8 × BitVec 8 × BitVec 8) : Array (BitVec 8) :=
  match t with
  | (y0, y1, y2, y3) => #[y0, y1, y2, y3]

/-- the regenerated `mix_in` on tuples -/
def rc5_8_12_4_mix_in_t (S : BitVec 8 × BitVec 8 × BitVec 8 × BitVec 8 × BitVec 8 × BitVec 8 × BitVec 8 × BitVec 8 × BitVec 8 × BitVec 8 × BitVec 8 × BitVec 8 × BitVec 8 × BitVec 8 × BitVec 8 × BitVec 8 × BitVec 8 × BitVec 8 × BitVec 8 × BitVec 8 × BitVec 8 × BitVec 8 × BitVec 8 × BitVec 8 × BitVec 8 × BitVec 8) (L : BitVec 8 × BitVec 8 × BitVec 8 × BitVec 8) : BitVec 8 × BitVec 8 × BitVec 8 × BitVec 8 × BitVec 8 × BitVec 8 × BitVec 8 × BitVec 8 × BitVec 8 × BitVec 8 × BitVec 8 × BitVec 8 × BitVec 8 × BitVec 8 × BitVec 8 × BitVec 8 × BitVec 8 × BitVec 8 × BitVec 8 × BitVec 8 × BitVec 8 × BitVec 8 × BitVec 8 × BitVec 8 × BitVec 8 × BitVec 8 :=
  match S, L with
  | (x0, x1, x2, x3, x4, x5, x6, x7, x8, x9, x10, x11, x12, x13, x14, x15, x16, x17, x18, x19, x20, x21, x22, x23, x24, x25), (y0, y1, y2, y3) => rc5_8_12_4_mix_in x0 x1 x2 x3 x4 x5 x6 x7 x8 x9 x10 x11 x12 x13 x14 x15 x16 x17 x18 x19 x20 x21 x22 x23 x24 x25 y0 y1 y2 y3

/-- `rc5_8_12_4_mix_in` (regenerated `RC5::mix_in`) is the model's `mixIn`, for all key tables and key words -/
theorem rc5_8_12_4_mix_in_eq (s0 s1 s2 s3 s4 s5 s6 s7 s8 s9 s10 s11 s12 s13 s14 s15 s16 s17 s18 s19 s20 s21 s22 s23 s24 s25 l0 l1 l2 l3 : BitVec 8) :
    rc5_8_12_4_tbl (rc5_8_12_4_mix_in s0 s1 s2 s3 s4 s5 s6 s7 s8 s9 s10 s11 s12 s13 s14 s15 s16 s17 s18 s19 s20 s21 s22 s23 s24 s25 l0 l1 l2 l3) = mixIn #[s0, s1, s2, s3, s4, s5, s6, s7, s8, s9, s10, s11, s12, s13, s14, s15, s16, s17, s18, s19, s20, s21, s22, s23, s24, s25] #[l0, l1, l2, l3] := by
  kernel_rfl

theorem rc5_8_12_4_mix_in_t_eq (S : BitVec 8 × BitVec 8 × BitVec 8 × BitVec 8 × BitVec 8 × BitVec 8 × BitVec 8 × BitVec 8 × BitVec 8 × BitVec 8 × BitVec 8 × BitVec 8 × BitVec 8 × BitVec 8 × BitVec 8 × BitVec 8 × BitVec 8 × BitVec 8 × BitVec 8 × BitVec 8 × BitVec 8 × BitVec 8 × BitVec 8 × BitVec 8 × BitVec 8 × BitVec 8) (L : BitVec 8 × BitVec 8 × BitVec 8 × BitVec 8) :
    rc5_8_12_4_tbl (rc5_8_12_4_mix_in_t S L) = mixIn (rc5_8_12_4_tbl S) (rc5_8_12_4_kw L) := by
  obtain ⟨s0, s1, s2, s3, s4, s5, s6, s7, s8, s9, s10, s11, s12, s13, s14, s15, s16, s17, s18, s19, s20, s21, s22, s23, s24, s25⟩ := S
  obtain ⟨l0, l1, l2, l3⟩ := L
  exact rc5_8_12_4_mix_in_eq s0 s1 s2 s3 s4 s5 s6 s7 s8 s9 s10 s11 s12 s13 s14 s15 s16 s17 s18 s19 s20 s21 s22 s23 s24 s25 l0 l1 l2 l3

/-- `rc5_8_12_4_key_into_words` (regenerated `RC5::key_into_words`) is the model's `keyIntoWords`, for all keys -/
theorem rc5_8_12_4_key_into_words_eq (key : BitVec 32) :
    rc5_8_12_4_kw (rc5_8_12_4_key_into_words key) = keyIntoWords 8 4 (unpackBE 4 key) := by
  kernel_rfl

/-- `rc5_8_12_4_initialize_expanded_key_table` (regenerated) is the model's `initTable` -/
theorem rc5_8_12_4_initialize_expanded_key_table_eq :
    rc5_8_12_4_tbl rc5_8_12_4_initialize_expanded_key_table = initTable 8 12 := by decide +kernel

/-- the regenerated `substitute_key` (calls inlined, constants folded) is the regenerated `mix_in` of the regenerated
`initialize_expanded_key_table` and `key_into_words` -/
theorem rc5_8_12_4_substitute_key_unfold (key : BitVec 32) :
    rc5_8_12_4_substitute_key key = rc5_8_12_4_mix_in_t rc5_8_12_4_initialize_expanded_key_table (rc5_8_12_4_key_into_words key) := by
  kernel_rfl

/-- likewise `RC5::new` (`Self { key_table: Self::substitute_key(key) }`) -/
theorem rc5_8_12_4_new_unfold (key : BitVec 32) :
    rc5_8_12_4_new key = rc5_8_12_4_mix_in_t rc5_8_12_4_initialize_expanded_key_table (rc5_8_12_4_key_into_words key) := by
  kernel_rfl

/-- `rc5_8_12_4_substitute_key` (regenerated `RC5::substitute_key`) is the model's `substituteKey`, for all keys -/
theorem rc5_8_12_4_substitute_key_eq (key : BitVec 32) :
    rc5_8_12_4_tbl (rc5_8_12_4_substitute_key key) = substituteKey 8 12 4 (unpackBE 4 key) := by
  rw [rc5_8_12_4_substitute_key_unfold, rc5_8_12_4_mix_in_t_eq, rc5_8_12_4_initialize_expanded_key_table_eq,
    rc5_8_12_4_key_into_words_eq, substituteKey]

/-- `rc5_8_12_4_new` (regenerated `RC5::new`, the field `key_table` of the constructed cipher) is the model's
`substituteKey`, for all keys -/
theorem rc5_8_12_4_new_eq (key : BitVec 32) :
    rc5_8_12_4_tbl (rc5_8_12_4_new key) = substituteKey 8 12 4 (unpackBE 4 key) := by
  rw [rc5_8_12_4_new_unfold, rc5_8_12_4_mix_in_t_eq, rc5_8_12_4_initialize_expanded_key_table_eq,
    rc5_8_12_4_key_into_words_eq, substituteKey]

end BC.GenKeys.Rc5
