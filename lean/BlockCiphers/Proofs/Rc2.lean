import BlockCiphers.Proofs.Basic
import BlockCiphers.Impl.Rc2
/-
RC2: decryption inverts encryption for an ARBITRARY table of 64 expanded key words (hence for every
key of every length and every effective key length), both orders.

* `mixCore`/`rmixCore`: the state part of `mix`/`reverse_mix` with the four key words as parameters;
  `rmixCore_mixCore`, `mixCore_rmixCore` (bit-blasting; the key words are free 16-bit variables);
* `reverseMash_mash`, `mash_reverseMash`: the data-dependent indices `r & 63` are the same in a step and
  in its inverse because each step only changes the word it writes;
* `encryptWords_closed`/`decryptWords_closed`: the `for i in 0..16` loops with the running index `j`
  (`0,4,…,60` resp. `63,59,…,3`, then `usize::MAX`) unrolled — by `rfl`;
* `decrypt_encrypt`, `encrypt_decrypt` on 64-bit blocks; `newFromSlice_eq`.
-/
namespace BC.Rc2

/-- state part of `mix` with `k0..k3 = keys[j], …, keys[j+3]` -/
def mixCore (k0 k1 k2 k3 : BitVec 16) (s : St) : St :=
  let r0 := (s.r0 + k0 + (s.r3 &&& s.r2) + (~~~s.r3 &&& s.r1)).rotateLeft 1
  let r1 := (s.r1 + k1 + (r0 &&& s.r3) + (~~~r0 &&& s.r2)).rotateLeft 2
  let r2 := (s.r2 + k2 + (r1 &&& r0) + (~~~r1 &&& s.r3)).rotateLeft 3
  let r3 := (s.r3 + k3 + (r2 &&& r1) + (~~~r2 &&& r0)).rotateLeft 5
  { r0 := r0, r1 := r1, r2 := r2, r3 := r3 }

/-- state part of `reverse_mix` with `k0..k3 = keys[j-3], …, keys[j]` -/
def rmixCore (k0 k1 k2 k3 : BitVec 16) (s : St) : St :=
  let r3 := s.r3.rotateRight 5 - k3 - (s.r2 &&& s.r1) - (~~~s.r2 &&& s.r0)
  let r2 := s.r2.rotateRight 3 - k2 - (s.r1 &&& s.r0) - (~~~s.r1 &&& r3)
  let r1 := s.r1.rotateRight 2 - k1 - (s.r0 &&& r3) - (~~~s.r0 &&& r2)
  let r0 := s.r0.rotateRight 1 - k0 - (r3 &&& r2) - (~~~r3 &&& r1)
  { r0 := r0, r1 := r1, r2 := r2, r3 := r3 }

theorem rotr_rotl (x : BitVec 16) (r : Nat) : (x.rotateLeft r).rotateRight r = x := by
  apply BitVec.eq_of_getElem_eq
  intro i hi
  simp only [BitVec.getElem_rotateRight, BitVec.getElem_rotateLeft]
  have : r % 16 < 16 := Nat.mod_lt _ (by omega)
  split <;> split <;> first | (congr 1; omega) | omega

theorem rotl_rotr (x : BitVec 16) (r : Nat) : (x.rotateRight r).rotateLeft r = x := by
  apply BitVec.eq_of_getElem_eq
  intro i hi
  simp only [BitVec.getElem_rotateRight, BitVec.getElem_rotateLeft]
  have : r % 16 < 16 := Nat.mod_lt _ (by omega)
  split <;> split <;> first | (congr 1; omega) | omega

/-- one statement `r[i] = (r[i] + key + u + v).rotate_left(n)` undone by
`r[i] = r[i].rotate_right(n) - key - u - v` (same `key`, `u`, `v`) -/
theorem unstep (n : Nat) (x k u v : BitVec 16) :
    ((x + k + u + v).rotateLeft n).rotateRight n - k - u - v = x := by
  rw [rotr_rotl]; bv_decide (config := { timeout := 600 })

theorem restep (n : Nat) (x k u v : BitVec 16) :
    ((x.rotateRight n - k - u - v) + k + u + v).rotateLeft n = x := by
  have : x.rotateRight n - k - u - v + k + u + v = x.rotateRight n := by bv_decide (config := { timeout := 600 })
  rw [this, rotl_rotr]

/-- each mix step is inverted in place: the words read by a statement of `reverse_mix` are exactly the
words its counterpart in `mix` read (the ones already restored and the ones not yet touched) -/
theorem rmixCore_mixCore (k0 k1 k2 k3 : BitVec 16) (s : St) : rmixCore k0 k1 k2 k3 (mixCore k0 k1 k2 k3 s) = s := by
  cases s with | mk r0 r1 r2 r3 =>
  simp only [rmixCore, mixCore, unstep]

theorem mixCore_rmixCore (k0 k1 k2 k3 : BitVec 16) (s : St) : mixCore k0 k1 k2 k3 (rmixCore k0 k1 k2 k3 s) = s := by
  cases s with | mk r0 r1 r2 r3 =>
  simp only [rmixCore, mixCore, restep]

/-- each mash step is inverted in place (the key index `r & 63` is read from an unchanged word) -/
theorem reverseMash_mash (k : Vector (BitVec 16) 64) (s : St) : reverseMash k (mash k s) = s := by
  cases s; simp [reverseMash, mash, BitVec.add_sub_cancel]

theorem mash_reverseMash (k : Vector (BitVec 16) 64) (s : St) : mash k (reverseMash k s) = s := by
  cases s; simp [reverseMash, mash, BitVec.sub_add_cancel]

/-- `mix` at key offset `j` -/
def mixAt (k : Vector (BitVec 16) 64) (j : Nat) (s : St) : St :=
  mixCore (keyAt k j) (keyAt k (j + 1)) (keyAt k (j + 2)) (keyAt k (j + 3)) s
/-- `reverse_mix` undoing `mixAt k j` (entered with the running index at `j + 3`) -/
def rmixAt (k : Vector (BitVec 16) 64) (j : Nat) (s : St) : St :=
  rmixCore (keyAt k j) (keyAt k (j + 1)) (keyAt k (j + 2)) (keyAt k (j + 3)) s

theorem rmixAt_mixAt (k : Vector (BitVec 16) 64) (j : Nat) (s : St) : rmixAt k j (mixAt k j s) = s :=
  rmixCore_mixCore _ _ _ _ s
theorem mixAt_rmixAt (k : Vector (BitVec 16) 64) (j : Nat) (s : St) : mixAt k j (rmixAt k j s) = s :=
  mixCore_rmixCore _ _ _ _ s

/-- `reverse_mix` entered with running index `j` (reads `keys[j], keys[j-1], keys[j-2], keys[j-3]`) -/
def rmixDown (k : Vector (BitVec 16) 64) (j : Nat) (s : St) : St :=
  rmixCore (keyAt k (j - 1 - 1 - 1)) (keyAt k (j - 1 - 1)) (keyAt k (j - 1)) (keyAt k j) s

theorem mix_r (k : Vector (BitVec 16) 64) (l : Loop) : (mix k l).r = mixAt k l.j l.r := rfl
theorem mix_j (k : Vector (BitVec 16) 64) (l : Loop) : (mix k l).j = l.j + 4 := rfl
theorem reverseMix_r (k : Vector (BitVec 16) 64) (l : Loop) : (reverseMix k l).r = rmixDown k l.j l.r := rfl
theorem reverseMix_j (k : Vector (BitVec 16) 64) (l : Loop) :
    (reverseMix k l).j = (l.j - 1 - 1 - 1 + (2 ^ 64 - 1)) % 2 ^ 64 := rfl

/-- the encryption loop unrolled: 5 mix, mash, 6 mix, mash, 5 mix, with `j = 0, 4, …, 60` -/
theorem encryptWords_closed (k : Vector (BitVec 16) 64) (s : St) :
    encryptWords k s =
      mixAt k 60 (mixAt k 56 (mixAt k 52 (mixAt k 48 (mixAt k 44 (mash k
      (mixAt k 40 (mixAt k 36 (mixAt k 32 (mixAt k 28 (mixAt k 24 (mixAt k 20 (mash k
      (mixAt k 16 (mixAt k 12 (mixAt k 8 (mixAt k 4 (mixAt k 0 s))))))))))))))))) := by
  simp [encryptWords, List.range, List.range.loop, encIter, mix_r, mix_j]

/-- the decryption loop unrolled: `j = 63, 59, …, 3`, i.e. the mix steps at `60, 56, …, 0` undone in order -/
theorem decryptWords_closed (k : Vector (BitVec 16) 64) (s : St) :
    decryptWords k s =
      rmixAt k 0 (rmixAt k 4 (rmixAt k 8 (rmixAt k 12 (rmixAt k 16 (reverseMash k
      (rmixAt k 20 (rmixAt k 24 (rmixAt k 28 (rmixAt k 32 (rmixAt k 36 (rmixAt k 40 (reverseMash k
      (rmixAt k 44 (rmixAt k 48 (rmixAt k 52 (rmixAt k 56 (rmixAt k 60 s))))))))))))))))) := by
  simp [decryptWords, List.range, List.range.loop, decIter, reverseMix_r, reverseMix_j, rmixDown, rmixAt]

theorem decryptWords_encryptWords (k : Vector (BitVec 16) 64) (s : St) :
    decryptWords k (encryptWords k s) = s := by
  simp only [decryptWords_closed, encryptWords_closed, rmixAt_mixAt, reverseMash_mash]

theorem encryptWords_decryptWords (k : Vector (BitVec 16) 64) (s : St) :
    encryptWords k (decryptWords k s) = s := by
  simp only [decryptWords_closed, encryptWords_closed, mixAt_rmixAt, mash_reverseMash]

theorem load_store (s : St) : load (store s) = s := by
  cases s with | mk r0 r1 r2 r3 =>
  simp only [load, store, St.mk.injEq, bswap16]
  bv_decide (config := { timeout := 600 })

theorem store_load (b : BitVec 64) : store (load b) = b := by
  simp only [load, store, bswap16]; bv_decide (config := { timeout := 600 })

/-- **C01**: for every table of 64 expanded key words and every block -/
theorem decrypt_encrypt (k : Vector (BitVec 16) 64) (b : BitVec 64) : decrypt k (encrypt k b) = b := by
  unfold decrypt encrypt
  rw [load_store, decryptWords_encryptWords, store_load]

theorem encrypt_decrypt (k : Vector (BitVec 16) 64) (b : BitVec 64) : encrypt k (decrypt k b) = b := by
  unfold decrypt encrypt
  rw [load_store, encryptWords_decryptWords, store_load]

/-- … in particular for every key and every effective key length -/
theorem decrypt_encrypt_eff (key : Bytes) (t1 : Nat) (b : BitVec 64) :
    decrypt (newWithEffKeyLen key t1) (encrypt (newWithEffKeyLen key t1) b) = b := decrypt_encrypt _ b

theorem encrypt_decrypt_eff (key : Bytes) (t1 : Nat) (b : BitVec 64) :
    encrypt (newWithEffKeyLen key t1) (decrypt (newWithEffKeyLen key t1) b) = b := encrypt_decrypt _ b

/-- **C11**: `new_from_slice key` succeeds exactly for 1..=128 bytes and is `new_with_eff_key_len key (8·len)` -/
theorem newFromSlice_eq (key : Bytes) (h : 1 ≤ key.length ∧ key.length ≤ 128) :
    newFromSlice key = some (newWithEffKeyLen key (8 * key.length)) := by
  simp [newFromSlice, accepts, h, Nat.mul_comm]

theorem newFromSlice_none (key : Bytes) (h : ¬ (1 ≤ key.length ∧ key.length ≤ 128)) :
    newFromSlice key = none := by
  simp only [newFromSlice, accepts, h, decide_false]; rfl

/-- `new_from_slice` never reaches a panic site of `new_with_eff_key_len` -/
theorem newFromSlice_no_panic (n : Nat) (h : accepts n = true) : effPanic n (n * 8) = none := by
  simp only [accepts, decide_eq_true_eq] at h
  unfold effPanic
  have : (n * 8 + 7) >>> 3 = n := by rw [Nat.shiftRight_eq_div_pow]; omega
  rw [this]
  have e1 : ¬ n * 8 + 8 ≥ 2 ^ 64 := by omega
  simp only [e1, if_false]
  have e2 : ¬ n > 128 := by omega
  have e3 : ¬ n = 0 := by omega
  simp [e2, e3]

/-- `new_with_eff_key_len` is free of panics exactly on 1..=128 key bytes and 1..=1024 effective bits
(within `usize`) -/
theorem effPanic_none_iff (n t1 : Nat) : effPanic n t1 = none ↔ (1 ≤ n ∧ n ≤ 128 ∧ 1 ≤ t1 ∧ t1 ≤ 1024) := by
  unfold effPanic
  rw [Nat.shiftRight_eq_div_pow]
  constructor
  · intro h
    by_cases a : t1 + 8 ≥ 2 ^ 64
    · simp [a] at h
    · by_cases b : n > 128
      · simp [a, b] at h
      · by_cases c : n = 0
        · simp [a, c] at h
        · by_cases d : (t1 + 7) / 2 ^ 3 = 0
          · simp [a, b, c, d] at h
          · by_cases e : (t1 + 7) / 2 ^ 3 > 128
            · simp [a, b, c, d, e] at h
            · omega
  · intro ⟨h1, h2, h3, h4⟩
    have a : ¬ t1 + 8 ≥ 2 ^ 64 := by omega
    have b : ¬ n > 128 := by omega
    have c : ¬ n = 0 := by omega
    have d : ¬ (t1 + 7) / 2 ^ 3 = 0 := by omega
    have e : ¬ (t1 + 7) / 2 ^ 3 > 128 := by omega
    simp [a, b, c, d, e]

end BC.Rc2
