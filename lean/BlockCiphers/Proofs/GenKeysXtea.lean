import BlockCiphers.Gen.Keys_Xtea
import BlockCiphers.Impl.Xtea
import Std.Tactic.BVDecide
/-!
Key-schedule tie for XTEA: the regenerated constructors `Xtea::new` / `Xtea::new_from_slice` (16-byte key)
are the model's `BC.Xtea.keyOfBits`.
-/
set_option maxRecDepth 100000
namespace BC.GenKeys.Xtea
open BC.Gen.Fn BC.Xtea

/-- the struct fields of a model key, in declaration order (`k: [u32; 4]`) -/
def Key.tuple (k : Key) : BitVec 32 × BitVec 32 × BitVec 32 × BitVec 32 := (k.k0, k.k1, k.k2, k.k3)

theorem xtea_new_eq (key : BitVec 128) :
    xtea_new key = Key.tuple (keyOfBits key) := by
  simp only [xtea_new, Key.tuple, keyOfBits, bswap32, Prod.mk.injEq]
  bv_decide (config := { timeout := 300 })

theorem xtea_new_from_slice_16_eq (key : BitVec 128) :
    xtea_new_from_slice_16 key = Key.tuple (keyOfBits key) := by
  simp only [xtea_new_from_slice_16, Key.tuple, keyOfBits, bswap32, Prod.mk.injEq]
  bv_decide (config := { timeout := 300 })

/-- the same statement with the model key reconstructed from the generated tuple -/
theorem keyOfBits_eq (key : BitVec 128) :
    keyOfBits key = { k0 := (xtea_new key).1, k1 := (xtea_new key).2.1,
                      k2 := (xtea_new key).2.2.1, k3 := (xtea_new key).2.2.2 } := by
  rw [xtea_new_eq]; rfl

end BC.GenKeys.Xtea
