import BlockCiphers.Proofs.Basic
import BlockCiphers.Impl.Des
import BlockCiphers.Spec.Des
/-
C05, part 1: the bit tricks of /repo/des/src/utils.rs (delta swaps, multiply-and-mask gathers) compute the
FIPS 46-3 tables, for ALL inputs (each by `bv_decide (config := { timeout := 600 })` on 64 bits).
Layout of the Rust values: an n-bit quantity of the standard sits in the TOP n bits of the u64.
-/
namespace BC.Des
open BC.Spec.Des (permute bit IP FP E P PC1 PC2)

set_option maxRecDepth 100000

theorem ip_eq_table (x : BitVec 64) : ip x = permute IP 64 x := by
  simp only [ip, deltaSwap, permute, bit, IP, List.foldl]
  bv_decide (config := { timeout := 600 })

theorem fp_eq_table (x : BitVec 64) : fp x = permute FP 64 x := by
  simp only [fp, deltaSwap, permute, bit, FP, List.foldl]
  bv_decide (config := { timeout := 600 })

/-- `e` reads R from the top 32 bits and returns E(R) in the top 48 bits (no hypothesis needed) -/
theorem e_eq_table (x : BitVec 64) :
    e x = (permute E 48 (x.extractLsb' 32 32)).setWidth 64 <<< 16 := by
  simp only [e, permute, bit, E, List.foldl]
  bv_decide (config := { timeout := 600 })

/-- `pc1`: PC-1 of the key in the top 56 bits -/
theorem pc1_eq_table (k : BitVec 64) :
    pc1 k = (permute PC1 56 k).setWidth 64 <<< 8 := by
  simp only [pc1, deltaSwap, permute, bit, PC1, List.foldl]
  bv_decide (config := { timeout := 600 })

/-- `p`: reads the S-box output from the top 32 bits, returns P(.) in the top 32 bits.
Holds for every u64 (the low 32 bits are never read), so no range hypothesis is needed. -/
theorem p_eq_table (x : BitVec 64) :
    p x = (permute P 32 (x.extractLsb' 32 32)).setWidth 64 <<< 32 := by
  simp only [p, permute, bit, P, List.foldl]
  bv_decide (config := { timeout := 600 })

/-- `pc2`: reads C‖D from the top 56 bits, returns PC-2(C‖D) in the top 48 bits.
Holds for every u64 (the low 8 bits are never read), so no range hypothesis is needed. -/
theorem pc2_eq_table (x : BitVec 64) :
    pc2 x = (permute PC2 48 (x.extractLsb' 8 56)).setWidth 64 <<< 16 := by
  simp only [pc2, permute, bit, PC2, List.foldl]
  bv_decide (config := { timeout := 600 })

end BC.Des
