import BlockCiphers.Proofs.Basic
import BlockCiphers.Impl.Cast6
/-
CAST-256 (model `Impl/Cast6.lean`): quad-round inversion for arbitrary masking / rotation subkeys, and
decryption inverts encryption (both orders) for ARBITRARY subkey tables, hence for every key of each of the
five accepted lengths.
-/
namespace BC.Cast6

theorem reverseQuad_forwardQuad (beta : Quad) (m : Km) (r : Kr) :
    reverseQuad (forwardQuad beta m r) m r = beta := by
  cases beta; simp [reverseQuad, forwardQuad, BitVec.xor_assoc]

theorem forwardQuad_reverseQuad (beta : Quad) (m : Km) (r : Kr) :
    forwardQuad (reverseQuad beta m r) m r = beta := by
  cases beta; simp [reverseQuad, forwardQuad, BitVec.xor_assoc]

theorem decryptQuad_encryptQuad (c : Cast6) (beta : Quad) : decryptQuad c (encryptQuad c beta) = beta := by
  simp only [decryptQuad, encryptQuad, forwardQuad_reverseQuad, reverseQuad_forwardQuad]

theorem encryptQuad_decryptQuad (c : Cast6) (beta : Quad) : encryptQuad c (decryptQuad c beta) = beta := by
  simp only [decryptQuad, encryptQuad, forwardQuad_reverseQuad, reverseQuad_forwardQuad]

theorem quadOfBits_bitsOfQuad (q : Quad) : quadOfBits (bitsOfQuad q) = q := by
  cases q; simp only [quadOfBits, bitsOfQuad, Quad.mk.injEq]; bv_decide (config := { timeout := 600 })

theorem bitsOfQuad_quadOfBits (b : BitVec 128) : bitsOfQuad (quadOfBits b) = b := by
  simp only [quadOfBits, bitsOfQuad]; bv_decide (config := { timeout := 600 })

/-- arbitrary subkeys -/
theorem decrypt_encrypt (c : Cast6) (blk : BitVec 128) : decrypt c (encrypt c blk) = blk := by
  simp only [decrypt, encrypt, quadOfBits_bitsOfQuad, decryptQuad_encryptQuad, bitsOfQuad_quadOfBits]

theorem encrypt_decrypt (c : Cast6) (blk : BitVec 128) : encrypt c (decrypt c blk) = blk := by
  simp only [decrypt, encrypt, quadOfBits_bitsOfQuad, encryptQuad_decryptQuad, bitsOfQuad_quadOfBits]

/-- every key (any byte string; in particular the lengths 16/20/24/28/32), every block -/
theorem decrypt_encrypt_key (key : Bytes) (blk : BitVec 128) :
    decrypt (keySchedule key) (encrypt (keySchedule key) blk) = blk := decrypt_encrypt _ blk

theorem encrypt_decrypt_key (key : Bytes) (blk : BitVec 128) :
    encrypt (keySchedule key) (decrypt (keySchedule key) blk) = blk := encrypt_decrypt _ blk

/-! ### index bounds of the table look-ups (C20) -/

theorem S1_size : S1.size = 256 := by decide +kernel
theorem S2_size : S2.size = 256 := by decide +kernel
theorem S3_size : S3.size = 256 := by decide +kernel
theorem S4_size : S4.size = 256 := by decide +kernel
theorem TM_size : TM.size = 192 := by decide +kernel
theorem TR_size : TR.size = 32 := by decide +kernel

/-- the four indices used by `f1!/f2!/f3!` are below 256 -/
theorem sb_index_lt (i : BitVec 32) :
    (i >>> 24).toNat < 256 ∧ ((i >>> 16) &&& 0xff#32).toNat < 256 ∧
    ((i >>> 8) &&& 0xff#32).toNat < 256 ∧ (i &&& 0xff#32).toNat < 256 := by
  refine ⟨?_, ?_, ?_, ?_⟩
  · have : (i >>> 24) < 256#32 := by bv_decide (config := { timeout := 600 })
    exact this
  · exact Nat.lt_succ_of_le (and_toNat_le _ _)
  · exact Nat.lt_succ_of_le (and_toNat_le _ _)
  · exact Nat.lt_succ_of_le (and_toNat_le _ _)

end BC.Cast6
