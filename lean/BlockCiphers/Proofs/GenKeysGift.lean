import BlockCiphers.Gen.Keys_Gift
import BlockCiphers.Impl.Gift
import Std.Tactic.BVDecide
/-!
Key-schedule tie for GIFT-128: the regenerated `precompute_rkeys` and `Gift128::new` (`BC.Gen.Fn.gift_precompute_rkeys`,
`gift128_new`: the three loops unrolled, `u32big`, `key_update`, `rearrange_rkey_*`, `key_{double,triple}_update_*`,
`swapmovesingle`, `ror` inlined) produce exactly the 80 words of the model's `BC.Gift.precomputeRkeys`, for all
128-bit keys.  Proof: the model's loops (`List.foldl` over literal index lists, `wr`/`rd` on the 80-entry array) are
unfolded on the literal array, `u32big` of four bytes is rewritten into the model's 32-bit extract; both sides are then
the same term.
-/
set_option maxRecDepth 100000
set_option linter.unusedSimpArgs false
namespace BC.GenKeys.Gift
open BC BC.Gift BC.Gen.Fn

/-! ### `u32big(&key[off..off+4])` = a 32-bit extract -/

theorem u32big_0 (key : BitVec 128) :
    (((((key.extractLsb' 120 8).setWidth 32) <<< 24) ||| (((key.extractLsb' 112 8).setWidth 32) <<< 16)) ||| (((key.extractLsb' 104 8).setWidth 32) <<< 8)) ||| ((key.extractLsb' 96 8).setWidth 32) = u32big key 0 := by
  simp only [u32big]; bv_decide
theorem u32big_4 (key : BitVec 128) :
    (((((key.extractLsb' 88 8).setWidth 32) <<< 24) ||| (((key.extractLsb' 80 8).setWidth 32) <<< 16)) ||| (((key.extractLsb' 72 8).setWidth 32) <<< 8)) ||| ((key.extractLsb' 64 8).setWidth 32) = u32big key 4 := by
  simp only [u32big]; bv_decide
theorem u32big_8 (key : BitVec 128) :
    (((((key.extractLsb' 56 8).setWidth 32) <<< 24) ||| (((key.extractLsb' 48 8).setWidth 32) <<< 16)) ||| (((key.extractLsb' 40 8).setWidth 32) <<< 8)) ||| ((key.extractLsb' 32 8).setWidth 32) = u32big key 8 := by
  simp only [u32big]; bv_decide
theorem u32big_12 (key : BitVec 128) :
    (((((key.extractLsb' 24 8).setWidth 32) <<< 24) ||| (((key.extractLsb' 16 8).setWidth 32) <<< 16)) ||| (((key.extractLsb' 8 8).setWidth 32) <<< 8)) ||| ((key.extractLsb' 0 8).setWidth 32) = u32big key 12 := by
  simp only [u32big]; bv_decide

theorem rk_init : Array.replicate 80 (0#32) = #[0#32, 0#32, 0#32, 0#32, 0#32, 0#32, 0#32, 0#32, 0#32, 0#32, 0#32, 0#32, 0#32, 0#32, 0#32, 0#32, 0#32, 0#32, 0#32, 0#32, 0#32, 0#32, 0#32, 0#32, 0#32, 0#32, 0#32, 0#32, 0#32, 0#32, 0#32, 0#32, 0#32, 0#32, 0#32, 0#32, 0#32, 0#32, 0#32, 0#32, 0#32, 0#32, 0#32, 0#32, 0#32, 0#32, 0#32, 0#32, 0#32, 0#32, 0#32, 0#32, 0#32, 0#32, 0#32, 0#32, 0#32, 0#32, 0#32, 0#32, 0#32, 0#32, 0#32, 0#32, 0#32, 0#32, 0#32, 0#32, 0#32, 0#32, 0#32, 0#32, 0#32, 0#32, 0#32, 0#32, 0#32, 0#32, 0#32, 0#32] := by decide

theorem getD_lit (l : List (BitVec 32)) (i : Nat) (d : BitVec 32) : l.toArray.getD i d = l.getD i d := by
  simp [Array.getD_eq_getD_getElem?, List.getD_eq_getElem?_getD]

/-- `rkey[0..80]` of a model round-key array, flattened (the field `k: [u32; 80]` of `Gift128`) -/
def tup80 (ks : Array (BitVec 32)) :=
  (rd ks 0, rd ks 1, rd ks 2, rd ks 3, rd ks 4, rd ks 5, rd ks 6, rd ks 7, rd ks 8, rd ks 9, rd ks 10, rd ks 11, rd ks 12, rd ks 13, rd ks 14, rd ks 15, rd ks 16, rd ks 17, rd ks 18, rd ks 19, rd ks 20, rd ks 21, rd ks 22, rd ks 23, rd ks 24, rd ks 25, rd ks 26, rd ks 27, rd ks 28, rd ks 29, rd ks 30, rd ks 31, rd ks 32, rd ks 33, rd ks 34, rd ks 35, rd ks 36, rd ks 37, rd ks 38, rd ks 39, rd ks 40, rd ks 41, rd ks 42, rd ks 43, rd ks 44, rd ks 45, rd ks 46, rd ks 47, rd ks 48, rd ks 49, rd ks 50, rd ks 51, rd ks 52, rd ks 53, rd ks 54, rd ks 55, rd ks 56, rd ks 57, rd ks 58, rd ks 59, rd ks 60, rd ks 61, rd ks 62, rd ks 63, rd ks 64, rd ks 65, rd ks 66, rd ks 67, rd ks 68, rd ks 69, rd ks 70, rd ks 71, rd ks 72, rd ks 73, rd ks 74, rd ks 75, rd ks 76, rd ks 77, rd ks 78, rd ks 79)

/-- `precompute_rkeys` regenerated from the Rust = the 80 words of the model's `precomputeRkeys` -/
theorem gift_precompute_rkeys_eq (key : BitVec 128) :
    gift_precompute_rkeys key = tup80 (precomputeRkeys key) := by
  simp only [gift_precompute_rkeys, u32big_0, u32big_4, u32big_8, u32big_12, tup80, precomputeRkeys,
    List.foldl_cons, List.foldl_nil, ksLoop1, ksLoop2, ksLoop3, rd, wr, rk_init,
    rearrangeRkey0, rearrangeRkey1, rearrangeRkey2, rearrangeRkey3, keyUpdate, keyTripleUpdate0, keyDoubleUpdate1,
    keyTripleUpdate1, keyDoubleUpdate2, keyTripleUpdate2, keyDoubleUpdate3, keyTripleUpdate3, keyDoubleUpdate4,
    keyTripleUpdate4, swapmovesingle, ror, Nat.reduceAdd, Nat.reduceSub,
    List.setIfInBounds_toArray, List.set_cons_zero, List.set_cons_succ, getD_lit,
    List.getD_cons_zero, List.getD_cons_succ]

/-- `Gift128::new` regenerated from the Rust = the 80 words of the model's `precomputeRkeys` -/
theorem gift128_new_eq (key : BitVec 128) :
    gift128_new key = tup80 (precomputeRkeys key) := by
  simp only [gift128_new, u32big_0, u32big_4, u32big_8, u32big_12, tup80, precomputeRkeys,
    List.foldl_cons, List.foldl_nil, ksLoop1, ksLoop2, ksLoop3, rd, wr, rk_init,
    rearrangeRkey0, rearrangeRkey1, rearrangeRkey2, rearrangeRkey3, keyUpdate, keyTripleUpdate0, keyDoubleUpdate1,
    keyTripleUpdate1, keyDoubleUpdate2, keyTripleUpdate2, keyDoubleUpdate3, keyTripleUpdate3, keyDoubleUpdate4,
    keyTripleUpdate4, swapmovesingle, ror, Nat.reduceAdd, Nat.reduceSub,
    List.setIfInBounds_toArray, List.set_cons_zero, List.set_cons_succ, getD_lit,
    List.getD_cons_zero, List.getD_cons_succ]

/-! ### array form: the model's round-key array is the list of components of the generated tuple -/

theorem arr_eta {α : Type} (a : Array α) (d : α) (n : Nat) (h : a.size = n) :
    a = ((List.range n).map (fun i => a.getD i d)).toArray := by
  apply Array.ext
  · simp [h]
  · intro i h1 h2
    simp [Array.getD_eq_getD_getElem?, h1]

/-- the components of a generated 80-tuple as a list -/
def list80 : BitVec 32 × BitVec 32 × BitVec 32 × BitVec 32 × BitVec 32 × BitVec 32 × BitVec 32 × BitVec 32 × BitVec 32 × BitVec 32 × BitVec 32 × BitVec 32 × BitVec 32 × BitVec 32 × BitVec 32 × BitVec 32 × BitVec 32 × BitVec 32 × BitVec 32 × BitVec 32 × BitVec 32 × BitVec 32 × BitVec 32 × BitVec 32 × BitVec 32 × BitVec 32 × BitVec 32 × BitVec 32 × BitVec 32 × BitVec 32 × BitVec 32 × BitVec 32 × BitVec 32 × BitVec 32 × BitVec 32 × BitVec 32 × BitVec 32 × BitVec 32 × BitVec 32 × BitVec 32 × BitVec 32 × BitVec 32 × BitVec 32 × BitVec 32 × BitVec 32 × BitVec 32 × BitVec 32 × BitVec 32 × BitVec 32 × BitVec 32 × BitVec 32 × BitVec 32 × BitVec 32 × BitVec 32 × BitVec 32 × BitVec 32 × BitVec 32 × BitVec 32 × BitVec 32 × BitVec 32 × BitVec 32 × BitVec 32 × BitVec 32 × BitVec 32 × BitVec 32 × BitVec 32 × BitVec 32 × BitVec 32 × BitVec 32 × BitVec 32 × BitVec 32 × BitVec 32 × BitVec 32 × BitVec 32 × BitVec 32 × BitVec 32 × BitVec 32 × BitVec 32 × BitVec 32 × BitVec 32 → List (BitVec 32)
  | (a0, a1, a2, a3, a4, a5, a6, a7, a8, a9, a10, a11, a12, a13, a14, a15, a16, a17, a18, a19, a20, a21, a22, a23, a24, a25, a26, a27, a28, a29, a30, a31, a32, a33, a34, a35, a36, a37, a38, a39, a40, a41, a42, a43, a44, a45, a46, a47, a48, a49, a50, a51, a52, a53, a54, a55, a56, a57, a58, a59, a60, a61, a62, a63, a64, a65, a66, a67, a68, a69, a70, a71, a72, a73, a74, a75, a76, a77, a78, a79) => [a0, a1, a2, a3, a4, a5, a6, a7, a8, a9, a10, a11, a12, a13, a14, a15, a16, a17, a18, a19, a20, a21, a22, a23, a24, a25, a26, a27, a28, a29, a30, a31, a32, a33, a34, a35, a36, a37, a38, a39, a40, a41, a42, a43, a44, a45, a46, a47, a48, a49, a50, a51, a52, a53, a54, a55, a56, a57, a58, a59, a60, a61, a62, a63, a64, a65, a66, a67, a68, a69, a70, a71, a72, a73, a74, a75, a76, a77, a78, a79]

theorem precomputeRkeys_size (key : BitVec 128) : (precomputeRkeys key).size = 80 := by
  simp only [precomputeRkeys, List.foldl_cons, List.foldl_nil, ksLoop1, ksLoop2, ksLoop3, wr,
    Array.size_setIfInBounds, Array.size_replicate]

/-- the model's round-key array = the array of the 80 words returned by the regenerated `precompute_rkeys` -/
theorem precomputeRkeys_eq (key : BitVec 128) :
    precomputeRkeys key = (list80 (gift_precompute_rkeys key)).toArray := by
  rw [gift_precompute_rkeys_eq]
  simp only [tup80, list80]
  have h := arr_eta (precomputeRkeys key) 0#32 80 (precomputeRkeys_size key)
  simpa [List.range, List.range.loop, rd] using h

/-- the same for `Gift128::new` (field `k: [u32; 80]`) -/
theorem precomputeRkeys_eq_new (key : BitVec 128) :
    precomputeRkeys key = (list80 (gift128_new key)).toArray := by
  rw [gift128_new_eq, ← gift_precompute_rkeys_eq]; exact precomputeRkeys_eq key

end BC.GenKeys.Gift
