import Std.Tactic.BVDecide
import BlockCiphers.Proofs.Basic
import BlockCiphers.Proofs.AesKeyExpansion
import BlockCiphers.Proofs.AesNiRound
/-
AES-NI key expansion, common part: the FIPS-197 word `j` (big-endian) held in dword `j` of a register,
the shuffles/shifts used by expand.rs at their literal immediates, `SubWord∘RotWord = RotWord∘SubWord`,
and the bridge from a `BitVec (8n)` key to the list of `Nk` key words of `Spec.Aes.keyWords`.
The S-box stays opaque throughout (`subWord` applications are generalised before `bv_decide (config := { timeout := 600 })`).
-/
namespace BC.AesNi
open BC BC.X86 BC.Spec.Aes

/-- FIPS-197 word `i` (big-endian) stored in dword `i` of a register that was loaded from memory -/
def fw (x : BitVec 128) (i : Nat) : BitVec 32 := bswap32 (dword x i)

/-- `Rcon` word from the AESKEYGENASSIST immediate -/
def rcw (rc : BitVec 8) : BitVec 32 := rc.setWidth 32 <<< 24

theorem rev128_eq_fw (x : BitVec 128) : rev128 x = fw x 0 ++ fw x 1 ++ fw x 2 ++ fw x 3 := by
  simp only [rev128, fw, dword, bswap32, bswap64]; bv_decide (config := { timeout := 600 })

/-- register `k` holds words `4r..4r+3` of the key schedule `w` -/
def IsRK (k : BitVec 128) (w : Array (BitVec 32)) (r : Nat) : Prop :=
  fw k 0 = w.getD (4 * r) 0 ∧ fw k 1 = w.getD (4 * r + 1) 0 ∧ fw k 2 = w.getD (4 * r + 2) 0 ∧
    fw k 3 = w.getD (4 * r + 3) 0

theorem IsRK.roundKey {k : BitVec 128} {w : Array (BitVec 32)} {r : Nat} (h : IsRK k w r) :
    rev128 k = roundKey w r := by
  obtain ⟨h0, h1, h2, h3⟩ := h
  rw [rev128_eq_fw, h0, h1, h2, h3]; rfl

theorem shuffle_ff (a : BitVec 128) :
    _mm_shuffle_epi32 a 0xff#8 = ofDwords (dword a 3) (dword a 3) (dword a 3) (dword a 3) := by
  simp [_mm_shuffle_epi32]
theorem shuffle_55 (a : BitVec 128) :
    _mm_shuffle_epi32 a 0x55#8 = ofDwords (dword a 1) (dword a 1) (dword a 1) (dword a 1) := by
  simp [_mm_shuffle_epi32]
theorem shuffle_aa (a : BitVec 128) :
    _mm_shuffle_epi32 a 0xaa#8 = ofDwords (dword a 2) (dword a 2) (dword a 2) (dword a 2) := by
  simp [_mm_shuffle_epi32]
theorem slli_4 (a : BitVec 128) : _mm_slli_si128 a 0x4 = a <<< 32 := by
  simp [_mm_slli_si128]

/-- FIPS SubWord commutes with RotWord -/
theorem subWord_rotWord (w : BitVec 32) : subWord (rotWord w) = rotWord (subWord w) := by
  simp only [subWord, rotWord]
  have h3 : (w.rotateLeft 8).extractLsb' 24 8 = w.extractLsb' 16 8 := by bv_decide (config := { timeout := 600 })
  have h2 : (w.rotateLeft 8).extractLsb' 16 8 = w.extractLsb' 8 8 := by bv_decide (config := { timeout := 600 })
  have h1 : (w.rotateLeft 8).extractLsb' 8 8 = w.extractLsb' 0 8 := by bv_decide (config := { timeout := 600 })
  have h0 : (w.rotateLeft 8).extractLsb' 0 8 = w.extractLsb' 24 8 := by bv_decide (config := { timeout := 600 })
  rw [h3, h2, h1, h0]
  generalize sboxT (w.extractLsb' 24 8) = a
  generalize sboxT (w.extractLsb' 16 8) = b
  generalize sboxT (w.extractLsb' 8 8) = c
  generalize sboxT (w.extractLsb' 0 8) = d
  bv_decide (config := { timeout := 600 })

/-- the SDM's little-endian SubWord is FIPS SubWord (the substitution is bytewise) -/
theorem subWordLE_eq (x : BitVec 32) : subWordLE x = subWord x := by
  simp only [subWordLE, subWord]
  have h3 : (bswap32 x).extractLsb' 24 8 = x.extractLsb' 0 8 := by simp only [bswap32]; bv_decide (config := { timeout := 600 })
  have h2 : (bswap32 x).extractLsb' 16 8 = x.extractLsb' 8 8 := by simp only [bswap32]; bv_decide (config := { timeout := 600 })
  have h1 : (bswap32 x).extractLsb' 8 8 = x.extractLsb' 16 8 := by simp only [bswap32]; bv_decide (config := { timeout := 600 })
  have h0 : (bswap32 x).extractLsb' 0 8 = x.extractLsb' 24 8 := by simp only [bswap32]; bv_decide (config := { timeout := 600 })
  rw [h3, h2, h1, h0]
  generalize sboxT (x.extractLsb' 24 8) = a
  generalize sboxT (x.extractLsb' 16 8) = b
  generalize sboxT (x.extractLsb' 8 8) = c
  generalize sboxT (x.extractLsb' 0 8) = d
  simp only [bswap32]; bv_decide (config := { timeout := 600 })

/-- the AESKEYGENASSIST immediates are the FIPS-197 round constants -/
theorem rcw_rcon :
    rcw 0x01#8 = rcon 1 ∧ rcw 0x02#8 = rcon 2 ∧ rcw 0x04#8 = rcon 3 ∧ rcw 0x08#8 = rcon 4 ∧ rcw 0x10#8 = rcon 5 ∧
    rcw 0x20#8 = rcon 6 ∧ rcw 0x40#8 = rcon 7 ∧ rcw 0x80#8 = rcon 8 ∧ rcw 0x1B#8 = rcon 9 ∧ rcw 0x36#8 = rcon 10 := by
  decide

/-! ### key bytes → key words -/

theorem word_of_bytes (a b c d : BitVec 8) : BitVec.ofNat 32 (bytesToNat [a, b, c, d]) = a ++ b ++ c ++ d := by
  simp only [bytesToNat, List.foldl_cons, List.foldl_nil, BitVec.ofNat_add, BitVec.ofNat_mul, BitVec.ofNat_toNat]
  bv_decide (config := { timeout := 600 })

theorem keyWords16 (k : BitVec 128) : keyWords (unpackBE 16 k) =
    [k.extractLsb' 96 32, k.extractLsb' 64 32, k.extractLsb' 32 32, k.extractLsb' 0 32] := by
  simp only [unpackBE, range16, List.map_cons, List.map_nil, keyWords, wordsBE, chunksOf, List.take, List.drop, Nat.reduceDiv,
    Nat.reduceSub, Nat.reduceMul]
  simp only [(by decide : (4 : Nat) ≠ 0), ↓reduceIte, List.map_cons, List.map_nil, word_of_bytes, List.cons.injEq, and_true]
  refine ⟨?_, ?_, ?_, ?_⟩ <;> bv_decide (config := { timeout := 600 })

theorem range24 : List.range 24 = [0,1,2,3,4,5,6,7,8,9,10,11,12,13,14,15,16,17,18,19,20,21,22,23] := by decide
theorem range32 : List.range 32 = [0,1,2,3,4,5,6,7,8,9,10,11,12,13,14,15,16,17,18,19,20,21,22,23,24,25,26,27,28,29,30,31] := by decide

theorem keyWords24 (k : BitVec 192) : keyWords (unpackBE 24 k) =
    [k.extractLsb' 160 32, k.extractLsb' 128 32, k.extractLsb' 96 32, k.extractLsb' 64 32, k.extractLsb' 32 32, k.extractLsb' 0 32] := by
  simp only [unpackBE, range24, List.map_cons, List.map_nil, keyWords, wordsBE, chunksOf, List.take, List.drop, Nat.reduceDiv,
    Nat.reduceSub, Nat.reduceMul]
  simp only [(by decide : (4 : Nat) ≠ 0), ↓reduceIte, List.map_cons, List.map_nil, word_of_bytes, List.cons.injEq, and_true]
  refine ⟨?_, ?_, ?_, ?_, ?_, ?_⟩ <;> bv_decide (config := { timeout := 600 })

theorem keyWords32 (k : BitVec 256) : keyWords (unpackBE 32 k) =
    [k.extractLsb' 224 32, k.extractLsb' 192 32, k.extractLsb' 160 32, k.extractLsb' 128 32,
     k.extractLsb' 96 32, k.extractLsb' 64 32, k.extractLsb' 32 32, k.extractLsb' 0 32] := by
  simp only [unpackBE, range32, List.map_cons, List.map_nil, keyWords, wordsBE, chunksOf, List.take, List.drop, Nat.reduceDiv,
    Nat.reduceSub, Nat.reduceMul]
  simp only [(by decide : (4 : Nat) ≠ 0), ↓reduceIte, List.map_cons, List.map_nil, word_of_bytes, List.cons.injEq, and_true]
  refine ⟨?_, ?_, ?_, ?_, ?_, ?_, ?_, ?_⟩ <;> bv_decide (config := { timeout := 600 })

end BC.AesNi
