import Lean
import BlockCiphers.Gen.Cipher_Cast6
import BlockCiphers.Impl.Cast6
import BlockCiphers.Proofs.GenTables
import Std.Tactic.BVDecide
/-
Tie of the regenerated `Cast6::encrypt_block` / `decrypt_block` (`Gen/Cipher_Cast6.lean`: the twelve quad-round calls with
`forward_quad` / `reverse_quad` and the macros `f1!/f2!/f3!` inlined) to the model `Impl/Cast6.lean`, for ALL
masking / rotate keys (12 × 4 each) and ALL blocks.

* `tbl_eq`: `tblAt cast6_Sj n 32` (regenerated table) is the model's `Sj.getD n 0` (from `cast6_Sj_eq`, `Proofs/GenTables.lean`);
* `f1g/f2g/f3g` = the inlined macros, tied to the model's `f1/f2/f3` by index normalisation only (ARX: no bit-blasting);
* per function: `extract_lets`, each new word is recognised (`rfl`) as `old ^^^ f?g input m r`, every group of four as one
  `forwardQuad` / `reverseQuad` of the model, and the model's twelve calls are rewritten one at a time.
This file is produced by `tools/gen_cast6.py` from the generated text (it refers to the `let` names of
`Gen/Cipher_Cast6.lean`): after a re-translation re-run the script, then check the file with `lean`.
-/
namespace BC.GenCipher.Cast6
open BC.Gen.Fn BC.Cast6
set_option maxRecDepth 100000

open Lean Elab Tactic Meta in
/-- make the (hygienic) names of the local `let` variables introduced by `extract_lets` accessible -/
elab "name_lets" : tactic => do
  liftMetaTactic fun g => g.withContext do
    let mut lctx ← getLCtx
    for d in lctx do
      if d.isLet then lctx := lctx.setUserName d.fvarId d.userName.eraseMacroScopes
    let g' ← mkFreshExprMVarAt lctx (← getLocalInstances) (← g.getType) .syntheticOpaque (← g.getTag)
    g.assign g'
    return [g'.mvarId!]

/-! ### tables and indices -/

theorem tbl_eq (t : Array Nat) (a : Array (BitVec 32)) (h : t.toList = BC.GenTables.nats32 a) (n : Nat) :
    BC.Gen.tblAt t n 32 = a.getD n 0#32 := by
  have h1 := congrArg (fun l => l[n]?) h
  simp only [BC.GenTables.nats32, List.getElem?_map, Array.getElem?_toList] at h1
  unfold BC.Gen.tblAt
  rw [Array.getD_eq_getD_getElem?, Array.getD_eq_getD_getElem?, h1]
  cases a[n]? with
  | none => rfl
  | some v => simp

theorem s1 (x : BitVec 32) : BC.Gen.tblAt BC.Gen.cast6_S1 x.toNat 32 = sb S1 x := tbl_eq _ _ BC.GenTables.cast6_S1_eq _
theorem s2 (x : BitVec 32) : BC.Gen.tblAt BC.Gen.cast6_S2 x.toNat 32 = sb S2 x := tbl_eq _ _ BC.GenTables.cast6_S2_eq _
theorem s3 (x : BitVec 32) : BC.Gen.tblAt BC.Gen.cast6_S3 x.toNat 32 = sb S3 x := tbl_eq _ _ BC.GenTables.cast6_S3_eq _
theorem s4 (x : BitVec 32) : BC.Gen.tblAt BC.Gen.cast6_S4 x.toNat 32 = sb S4 x := tbl_eq _ _ BC.GenTables.cast6_S4_eq _

/-- `x as usize` of a `u32` -/
theorem idx (x : BitVec 32) : (x.setWidth 64).toNat = x.toNat := by
  rw [BitVec.toNat_setWidth]; have := x.isLt; omega
/-- `u32::from(r)` of a `u8` -/
theorem rot (x : BitVec 8) : (x.setWidth 32).toNat = x.toNat := by
  rw [BitVec.toNat_setWidth]; have := x.isLt; omega

/-! ### the inlined `f1!`, `f2!`, `f3!` -/

def f1g (d m : BitVec 32) (r : BitVec 8) : BitVec 32 :=
  let i := (m + d).rotateLeft (r.setWidth 32).toNat
  (((BC.Gen.tblAt BC.Gen.cast6_S1 ((i >>> 24).setWidth 64).toNat 32) ^^^ (BC.Gen.tblAt BC.Gen.cast6_S2 (((i >>> 16) &&& 0xff#32).setWidth 64).toNat 32)) - (BC.Gen.tblAt BC.Gen.cast6_S3 (((i >>> 8) &&& 0xff#32).setWidth 64).toNat 32)) + (BC.Gen.tblAt BC.Gen.cast6_S4 ((i &&& 0xff#32).setWidth 64).toNat 32)
def f2g (d m : BitVec 32) (r : BitVec 8) : BitVec 32 :=
  let i := (m ^^^ d).rotateLeft (r.setWidth 32).toNat
  (((BC.Gen.tblAt BC.Gen.cast6_S1 ((i >>> 24).setWidth 64).toNat 32) - (BC.Gen.tblAt BC.Gen.cast6_S2 (((i >>> 16) &&& 0xff#32).setWidth 64).toNat 32)) + (BC.Gen.tblAt BC.Gen.cast6_S3 (((i >>> 8) &&& 0xff#32).setWidth 64).toNat 32)) ^^^ (BC.Gen.tblAt BC.Gen.cast6_S4 ((i &&& 0xff#32).setWidth 64).toNat 32)
def f3g (d m : BitVec 32) (r : BitVec 8) : BitVec 32 :=
  let i := (m - d).rotateLeft (r.setWidth 32).toNat
  (((BC.Gen.tblAt BC.Gen.cast6_S1 ((i >>> 24).setWidth 64).toNat 32) + (BC.Gen.tblAt BC.Gen.cast6_S2 (((i >>> 16) &&& 0xff#32).setWidth 64).toNat 32)) ^^^ (BC.Gen.tblAt BC.Gen.cast6_S3 (((i >>> 8) &&& 0xff#32).setWidth 64).toNat 32)) - (BC.Gen.tblAt BC.Gen.cast6_S4 ((i &&& 0xff#32).setWidth 64).toNat 32)

theorem f1g_eq (d m : BitVec 32) (r : BitVec 8) : f1g d m r = f1 d m r := by
  simp only [f1g, f1, idx, rot, s1, s2, s3, s4]
theorem f2g_eq (d m : BitVec 32) (r : BitVec 8) : f2g d m r = f2 d m r := by
  simp only [f2g, f2, idx, rot, s1, s2, s3, s4]
theorem f3g_eq (d m : BitVec 32) (r : BitVec 8) : f3g d m r = f3 d m r := by
  simp only [f3g, f3, idx, rot, s1, s2, s3, s4]

/-! ### block words, key material, quad-rounds -/

/-- `to_u32s::<4>(block)[j]` in the translator's block convention -/
def w0 (b : BitVec 128) : BitVec 32 :=
  (b.extractLsb' 120 8) ++ (b.extractLsb' 112 8) ++ (b.extractLsb' 104 8) ++ (b.extractLsb' 96 8)
def w1 (b : BitVec 128) : BitVec 32 :=
  (b.extractLsb' 88 8) ++ (b.extractLsb' 80 8) ++ (b.extractLsb' 72 8) ++ (b.extractLsb' 64 8)
def w2 (b : BitVec 128) : BitVec 32 :=
  (b.extractLsb' 56 8) ++ (b.extractLsb' 48 8) ++ (b.extractLsb' 40 8) ++ (b.extractLsb' 32 8)
def w3 (b : BitVec 128) : BitVec 32 :=
  (b.extractLsb' 24 8) ++ (b.extractLsb' 16 8) ++ (b.extractLsb' 8 8) ++ (b.extractLsb' 0 8)

theorem read_bytes (b : BitVec 128) : quadOfBits b = ⟨w0 b, w1 b, w2 b, w3 b⟩ := by
  simp only [quadOfBits, w0, w1, w2, w3, Quad.mk.injEq]
  refine ⟨?_, ?_, ?_, ?_⟩ <;> bv_decide

/-- `to_u8s::<16>(&beta)` -/
theorem out_bytes (a b c d : BitVec 32) :
    (a.extractLsb' 24 8) ++ (a.extractLsb' 16 8) ++ (a.extractLsb' 8 8) ++ (a.extractLsb' 0 8) ++
      (b.extractLsb' 24 8) ++ (b.extractLsb' 16 8) ++ (b.extractLsb' 8 8) ++ (b.extractLsb' 0 8) ++
      (c.extractLsb' 24 8) ++ (c.extractLsb' 16 8) ++ (c.extractLsb' 8 8) ++ (c.extractLsb' 0 8) ++
      (d.extractLsb' 24 8) ++ (d.extractLsb' 16 8) ++ (d.extractLsb' 8 8) ++ (d.extractLsb' 0 8) =
    bitsOfQuad ⟨a, b, c, d⟩ := by
  simp only [bitsOfQuad]
  bv_decide

/-- the struct `Cast6 { masking: [[u32; 4]; 12], rotate: [[u8; 4]; 12] }` with explicit elements -/
def mk (m0_0 m0_1 m0_2 m0_3 m1_0 m1_1 m1_2 m1_3 m2_0 m2_1 m2_2 m2_3 m3_0 m3_1 m3_2 m3_3 m4_0 m4_1 m4_2 m4_3 m5_0 m5_1 m5_2 m5_3 m6_0 m6_1 m6_2 m6_3 m7_0 m7_1 m7_2 m7_3 m8_0 m8_1 m8_2 m8_3 m9_0 m9_1 m9_2 m9_3 m10_0 m10_1 m10_2 m10_3 m11_0 m11_1 m11_2 m11_3 : BitVec 32)
    (r0_0 r0_1 r0_2 r0_3 r1_0 r1_1 r1_2 r1_3 r2_0 r2_1 r2_2 r2_3 r3_0 r3_1 r3_2 r3_3 r4_0 r4_1 r4_2 r4_3 r5_0 r5_1 r5_2 r5_3 r6_0 r6_1 r6_2 r6_3 r7_0 r7_1 r7_2 r7_3 r8_0 r8_1 r8_2 r8_3 r9_0 r9_1 r9_2 r9_3 r10_0 r10_1 r10_2 r10_3 r11_0 r11_1 r11_2 r11_3 : BitVec 8) : Cast6 :=
  { masking := [⟨m0_0, m0_1, m0_2, m0_3⟩, ⟨m1_0, m1_1, m1_2, m1_3⟩, ⟨m2_0, m2_1, m2_2, m2_3⟩, ⟨m3_0, m3_1, m3_2, m3_3⟩, ⟨m4_0, m4_1, m4_2, m4_3⟩, ⟨m5_0, m5_1, m5_2, m5_3⟩, ⟨m6_0, m6_1, m6_2, m6_3⟩, ⟨m7_0, m7_1, m7_2, m7_3⟩, ⟨m8_0, m8_1, m8_2, m8_3⟩, ⟨m9_0, m9_1, m9_2, m9_3⟩, ⟨m10_0, m10_1, m10_2, m10_3⟩, ⟨m11_0, m11_1, m11_2, m11_3⟩],
    rotate := [⟨r0_0, r0_1, r0_2, r0_3⟩, ⟨r1_0, r1_1, r1_2, r1_3⟩, ⟨r2_0, r2_1, r2_2, r2_3⟩, ⟨r3_0, r3_1, r3_2, r3_3⟩, ⟨r4_0, r4_1, r4_2, r4_3⟩, ⟨r5_0, r5_1, r5_2, r5_3⟩, ⟨r6_0, r6_1, r6_2, r6_3⟩, ⟨r7_0, r7_1, r7_2, r7_3⟩, ⟨r8_0, r8_1, r8_2, r8_3⟩, ⟨r9_0, r9_1, r9_2, r9_3⟩, ⟨r10_0, r10_1, r10_2, r10_3⟩, ⟨r11_0, r11_1, r11_2, r11_3⟩] }

theorem fq (a b c d m0 m1 m2 m3 : BitVec 32) (r0 r1 r2 r3 : BitVec 8) :
    forwardQuad ⟨a, b, c, d⟩ ⟨m0, m1, m2, m3⟩ ⟨r0, r1, r2, r3⟩ =
      ⟨a ^^^ f3 (b ^^^ f2 (c ^^^ f1 d m0 r0) m1 r1) m2 r2, b ^^^ f2 (c ^^^ f1 d m0 r0) m1 r1, c ^^^ f1 d m0 r0,
       d ^^^ f1 (a ^^^ f3 (b ^^^ f2 (c ^^^ f1 d m0 r0) m1 r1) m2 r2) m3 r3⟩ := rfl
theorem rq (a b c d m0 m1 m2 m3 : BitVec 32) (r0 r1 r2 r3 : BitVec 8) :
    reverseQuad ⟨a, b, c, d⟩ ⟨m0, m1, m2, m3⟩ ⟨r0, r1, r2, r3⟩ =
      ⟨a ^^^ f3 b m2 r2, b ^^^ f2 c m1 r1, c ^^^ f1 (d ^^^ f1 a m3 r3) m0 r0, d ^^^ f1 a m3 r3⟩ := rfl

theorem enc_unfold (m0_0 m0_1 m0_2 m0_3 m1_0 m1_1 m1_2 m1_3 m2_0 m2_1 m2_2 m2_3 m3_0 m3_1 m3_2 m3_3 m4_0 m4_1 m4_2 m4_3 m5_0 m5_1 m5_2 m5_3 m6_0 m6_1 m6_2 m6_3 m7_0 m7_1 m7_2 m7_3 m8_0 m8_1 m8_2 m8_3 m9_0 m9_1 m9_2 m9_3 m10_0 m10_1 m10_2 m10_3 m11_0 m11_1 m11_2 m11_3 : BitVec 32)
    (r0_0 r0_1 r0_2 r0_3 r1_0 r1_1 r1_2 r1_3 r2_0 r2_1 r2_2 r2_3 r3_0 r3_1 r3_2 r3_3 r4_0 r4_1 r4_2 r4_3 r5_0 r5_1 r5_2 r5_3 r6_0 r6_1 r6_2 r6_3 r7_0 r7_1 r7_2 r7_3 r8_0 r8_1 r8_2 r8_3 r9_0 r9_1 r9_2 r9_3 r10_0 r10_1 r10_2 r10_3 r11_0 r11_1 r11_2 r11_3 : BitVec 8) (x : Quad) :
    encryptQuad (mk m0_0 m0_1 m0_2 m0_3 m1_0 m1_1 m1_2 m1_3 m2_0 m2_1 m2_2 m2_3 m3_0 m3_1 m3_2 m3_3 m4_0 m4_1 m4_2 m4_3 m5_0 m5_1 m5_2 m5_3 m6_0 m6_1 m6_2 m6_3 m7_0 m7_1 m7_2 m7_3 m8_0 m8_1 m8_2 m8_3 m9_0 m9_1 m9_2 m9_3 m10_0 m10_1 m10_2 m10_3 m11_0 m11_1 m11_2 m11_3
      r0_0 r0_1 r0_2 r0_3 r1_0 r1_1 r1_2 r1_3 r2_0 r2_1 r2_2 r2_3 r3_0 r3_1 r3_2 r3_3 r4_0 r4_1 r4_2 r4_3 r5_0 r5_1 r5_2 r5_3 r6_0 r6_1 r6_2 r6_3 r7_0 r7_1 r7_2 r7_3 r8_0 r8_1 r8_2 r8_3 r9_0 r9_1 r9_2 r9_3 r10_0 r10_1 r10_2 r10_3 r11_0 r11_1 r11_2 r11_3) x =
    reverseQuad (reverseQuad (reverseQuad (reverseQuad (reverseQuad (reverseQuad (forwardQuad (forwardQuad (forwardQuad (forwardQuad (forwardQuad (forwardQuad (x) ⟨m0_0, m0_1, m0_2, m0_3⟩ ⟨r0_0, r0_1, r0_2, r0_3⟩) ⟨m1_0, m1_1, m1_2, m1_3⟩ ⟨r1_0, r1_1, r1_2, r1_3⟩) ⟨m2_0, m2_1, m2_2, m2_3⟩ ⟨r2_0, r2_1, r2_2, r2_3⟩) ⟨m3_0, m3_1, m3_2, m3_3⟩ ⟨r3_0, r3_1, r3_2, r3_3⟩) ⟨m4_0, m4_1, m4_2, m4_3⟩ ⟨r4_0, r4_1, r4_2, r4_3⟩) ⟨m5_0, m5_1, m5_2, m5_3⟩ ⟨r5_0, r5_1, r5_2, r5_3⟩) ⟨m6_0, m6_1, m6_2, m6_3⟩ ⟨r6_0, r6_1, r6_2, r6_3⟩) ⟨m7_0, m7_1, m7_2, m7_3⟩ ⟨r7_0, r7_1, r7_2, r7_3⟩) ⟨m8_0, m8_1, m8_2, m8_3⟩ ⟨r8_0, r8_1, r8_2, r8_3⟩) ⟨m9_0, m9_1, m9_2, m9_3⟩ ⟨r9_0, r9_1, r9_2, r9_3⟩) ⟨m10_0, m10_1, m10_2, m10_3⟩ ⟨r10_0, r10_1, r10_2, r10_3⟩) ⟨m11_0, m11_1, m11_2, m11_3⟩ ⟨r11_0, r11_1, r11_2, r11_3⟩ := rfl
theorem dec_unfold (m0_0 m0_1 m0_2 m0_3 m1_0 m1_1 m1_2 m1_3 m2_0 m2_1 m2_2 m2_3 m3_0 m3_1 m3_2 m3_3 m4_0 m4_1 m4_2 m4_3 m5_0 m5_1 m5_2 m5_3 m6_0 m6_1 m6_2 m6_3 m7_0 m7_1 m7_2 m7_3 m8_0 m8_1 m8_2 m8_3 m9_0 m9_1 m9_2 m9_3 m10_0 m10_1 m10_2 m10_3 m11_0 m11_1 m11_2 m11_3 : BitVec 32)
    (r0_0 r0_1 r0_2 r0_3 r1_0 r1_1 r1_2 r1_3 r2_0 r2_1 r2_2 r2_3 r3_0 r3_1 r3_2 r3_3 r4_0 r4_1 r4_2 r4_3 r5_0 r5_1 r5_2 r5_3 r6_0 r6_1 r6_2 r6_3 r7_0 r7_1 r7_2 r7_3 r8_0 r8_1 r8_2 r8_3 r9_0 r9_1 r9_2 r9_3 r10_0 r10_1 r10_2 r10_3 r11_0 r11_1 r11_2 r11_3 : BitVec 8) (x : Quad) :
    decryptQuad (mk m0_0 m0_1 m0_2 m0_3 m1_0 m1_1 m1_2 m1_3 m2_0 m2_1 m2_2 m2_3 m3_0 m3_1 m3_2 m3_3 m4_0 m4_1 m4_2 m4_3 m5_0 m5_1 m5_2 m5_3 m6_0 m6_1 m6_2 m6_3 m7_0 m7_1 m7_2 m7_3 m8_0 m8_1 m8_2 m8_3 m9_0 m9_1 m9_2 m9_3 m10_0 m10_1 m10_2 m10_3 m11_0 m11_1 m11_2 m11_3
      r0_0 r0_1 r0_2 r0_3 r1_0 r1_1 r1_2 r1_3 r2_0 r2_1 r2_2 r2_3 r3_0 r3_1 r3_2 r3_3 r4_0 r4_1 r4_2 r4_3 r5_0 r5_1 r5_2 r5_3 r6_0 r6_1 r6_2 r6_3 r7_0 r7_1 r7_2 r7_3 r8_0 r8_1 r8_2 r8_3 r9_0 r9_1 r9_2 r9_3 r10_0 r10_1 r10_2 r10_3 r11_0 r11_1 r11_2 r11_3) x =
    reverseQuad (reverseQuad (reverseQuad (reverseQuad (reverseQuad (reverseQuad (forwardQuad (forwardQuad (forwardQuad (forwardQuad (forwardQuad (forwardQuad (x) ⟨m11_0, m11_1, m11_2, m11_3⟩ ⟨r11_0, r11_1, r11_2, r11_3⟩) ⟨m10_0, m10_1, m10_2, m10_3⟩ ⟨r10_0, r10_1, r10_2, r10_3⟩) ⟨m9_0, m9_1, m9_2, m9_3⟩ ⟨r9_0, r9_1, r9_2, r9_3⟩) ⟨m8_0, m8_1, m8_2, m8_3⟩ ⟨r8_0, r8_1, r8_2, r8_3⟩) ⟨m7_0, m7_1, m7_2, m7_3⟩ ⟨r7_0, r7_1, r7_2, r7_3⟩) ⟨m6_0, m6_1, m6_2, m6_3⟩ ⟨r6_0, r6_1, r6_2, r6_3⟩) ⟨m5_0, m5_1, m5_2, m5_3⟩ ⟨r5_0, r5_1, r5_2, r5_3⟩) ⟨m4_0, m4_1, m4_2, m4_3⟩ ⟨r4_0, r4_1, r4_2, r4_3⟩) ⟨m3_0, m3_1, m3_2, m3_3⟩ ⟨r3_0, r3_1, r3_2, r3_3⟩) ⟨m2_0, m2_1, m2_2, m2_3⟩ ⟨r2_0, r2_1, r2_2, r2_3⟩) ⟨m1_0, m1_1, m1_2, m1_3⟩ ⟨r1_0, r1_1, r1_2, r1_3⟩) ⟨m0_0, m0_1, m0_2, m0_3⟩ ⟨r0_0, r0_1, r0_2, r0_3⟩ := rfl

/-- `cast6_encrypt_block` (regenerated `Cast6::encrypt_block`) is the model's `encrypt`, for all keys and blocks -/
theorem cast6_encrypt_block_eq (self_masking00 self_masking01 self_masking02 self_masking03 self_masking10 self_masking11 self_masking12 self_masking13 self_masking20 self_masking21 self_masking22 self_masking23 self_masking30 self_masking31 self_masking32 self_masking33 self_masking40 self_masking41 self_masking42 self_masking43 self_masking50 self_masking51 self_masking52 self_masking53 self_masking60 self_masking61 self_masking62 self_masking63 self_masking70 self_masking71 self_masking72 self_masking73 self_masking80 self_masking81 self_masking82 self_masking83 self_masking90 self_masking91 self_masking92 self_masking93 self_masking100 self_masking101 self_masking102 self_masking103 self_masking110 self_masking111 self_masking112 self_masking113 : BitVec 32)
    (self_rotate00 self_rotate01 self_rotate02 self_rotate03 self_rotate10 self_rotate11 self_rotate12 self_rotate13 self_rotate20 self_rotate21 self_rotate22 self_rotate23 self_rotate30 self_rotate31 self_rotate32 self_rotate33 self_rotate40 self_rotate41 self_rotate42 self_rotate43 self_rotate50 self_rotate51 self_rotate52 self_rotate53 self_rotate60 self_rotate61 self_rotate62 self_rotate63 self_rotate70 self_rotate71 self_rotate72 self_rotate73 self_rotate80 self_rotate81 self_rotate82 self_rotate83 self_rotate90 self_rotate91 self_rotate92 self_rotate93 self_rotate100 self_rotate101 self_rotate102 self_rotate103 self_rotate110 self_rotate111 self_rotate112 self_rotate113 : BitVec 8) (block : BitVec 128) :
    cast6_encrypt_block self_masking00 self_masking01 self_masking02 self_masking03 self_masking10 self_masking11 self_masking12 self_masking13 self_masking20 self_masking21 self_masking22 self_masking23 self_masking30 self_masking31 self_masking32 self_masking33 self_masking40 self_masking41 self_masking42 self_masking43 self_masking50 self_masking51 self_masking52 self_masking53 self_masking60 self_masking61 self_masking62 self_masking63 self_masking70 self_masking71 self_masking72 self_masking73 self_masking80 self_masking81 self_masking82 self_masking83 self_masking90 self_masking91 self_masking92 self_masking93 self_masking100 self_masking101 self_masking102 self_masking103 self_masking110 self_masking111 self_masking112 self_masking113
      self_rotate00 self_rotate01 self_rotate02 self_rotate03 self_rotate10 self_rotate11 self_rotate12 self_rotate13 self_rotate20 self_rotate21 self_rotate22 self_rotate23 self_rotate30 self_rotate31 self_rotate32 self_rotate33 self_rotate40 self_rotate41 self_rotate42 self_rotate43 self_rotate50 self_rotate51 self_rotate52 self_rotate53 self_rotate60 self_rotate61 self_rotate62 self_rotate63 self_rotate70 self_rotate71 self_rotate72 self_rotate73 self_rotate80 self_rotate81 self_rotate82 self_rotate83 self_rotate90 self_rotate91 self_rotate92 self_rotate93 self_rotate100 self_rotate101 self_rotate102 self_rotate103 self_rotate110 self_rotate111 self_rotate112 self_rotate113 block =
    encrypt (mk self_masking00 self_masking01 self_masking02 self_masking03 self_masking10 self_masking11 self_masking12 self_masking13 self_masking20 self_masking21 self_masking22 self_masking23 self_masking30 self_masking31 self_masking32 self_masking33 self_masking40 self_masking41 self_masking42 self_masking43 self_masking50 self_masking51 self_masking52 self_masking53 self_masking60 self_masking61 self_masking62 self_masking63 self_masking70 self_masking71 self_masking72 self_masking73 self_masking80 self_masking81 self_masking82 self_masking83 self_masking90 self_masking91 self_masking92 self_masking93 self_masking100 self_masking101 self_masking102 self_masking103 self_masking110 self_masking111 self_masking112 self_masking113
      self_rotate00 self_rotate01 self_rotate02 self_rotate03 self_rotate10 self_rotate11 self_rotate12 self_rotate13 self_rotate20 self_rotate21 self_rotate22 self_rotate23 self_rotate30 self_rotate31 self_rotate32 self_rotate33 self_rotate40 self_rotate41 self_rotate42 self_rotate43 self_rotate50 self_rotate51 self_rotate52 self_rotate53 self_rotate60 self_rotate61 self_rotate62 self_rotate63 self_rotate70 self_rotate71 self_rotate72 self_rotate73 self_rotate80 self_rotate81 self_rotate82 self_rotate83 self_rotate90 self_rotate91 self_rotate92 self_rotate93 self_rotate100 self_rotate101 self_rotate102 self_rotate103 self_rotate110 self_rotate111 self_rotate112 self_rotate113) block := by
  unfold cast6_encrypt_block
  extract_lets -merge
  name_lets
  have h0 : c = w2 block ^^^ f1 (w3 block) self_masking00 self_rotate00 := (f1g_eq (w3 block) self_masking00 self_rotate00) ▸ rfl
  have h1 : b = w1 block ^^^ f2 c self_masking01 self_rotate01 := (f2g_eq c self_masking01 self_rotate01) ▸ rfl
  have h2 : a = w0 block ^^^ f3 b self_masking02 self_rotate02 := (f3g_eq b self_masking02 self_rotate02) ▸ rfl
  have h3 : d = w3 block ^^^ f1 a self_masking03 self_rotate03 := (f1g_eq a self_masking03 self_rotate03) ▸ rfl
  have h4 : c_1 = c ^^^ f1 d self_masking10 self_rotate10 := (f1g_eq d self_masking10 self_rotate10) ▸ rfl
  have h5 : b_1 = b ^^^ f2 c_1 self_masking11 self_rotate11 := (f2g_eq c_1 self_masking11 self_rotate11) ▸ rfl
  have h6 : a_1 = a ^^^ f3 b_1 self_masking12 self_rotate12 := (f3g_eq b_1 self_masking12 self_rotate12) ▸ rfl
  have h7 : d_1 = d ^^^ f1 a_1 self_masking13 self_rotate13 := (f1g_eq a_1 self_masking13 self_rotate13) ▸ rfl
  have h8 : c_2 = c_1 ^^^ f1 d_1 self_masking20 self_rotate20 := (f1g_eq d_1 self_masking20 self_rotate20) ▸ rfl
  have h9 : b_2 = b_1 ^^^ f2 c_2 self_masking21 self_rotate21 := (f2g_eq c_2 self_masking21 self_rotate21) ▸ rfl
  have h10 : a_2 = a_1 ^^^ f3 b_2 self_masking22 self_rotate22 := (f3g_eq b_2 self_masking22 self_rotate22) ▸ rfl
  have h11 : d_2 = d_1 ^^^ f1 a_2 self_masking23 self_rotate23 := (f1g_eq a_2 self_masking23 self_rotate23) ▸ rfl
  have h12 : c_3 = c_2 ^^^ f1 d_2 self_masking30 self_rotate30 := (f1g_eq d_2 self_masking30 self_rotate30) ▸ rfl
  have h13 : b_3 = b_2 ^^^ f2 c_3 self_masking31 self_rotate31 := (f2g_eq c_3 self_masking31 self_rotate31) ▸ rfl
  have h14 : a_3 = a_2 ^^^ f3 b_3 self_masking32 self_rotate32 := (f3g_eq b_3 self_masking32 self_rotate32) ▸ rfl
  have h15 : d_3 = d_2 ^^^ f1 a_3 self_masking33 self_rotate33 := (f1g_eq a_3 self_masking33 self_rotate33) ▸ rfl
  have h16 : c_4 = c_3 ^^^ f1 d_3 self_masking40 self_rotate40 := (f1g_eq d_3 self_masking40 self_rotate40) ▸ rfl
  have h17 : b_4 = b_3 ^^^ f2 c_4 self_masking41 self_rotate41 := (f2g_eq c_4 self_masking41 self_rotate41) ▸ rfl
  have h18 : a_4 = a_3 ^^^ f3 b_4 self_masking42 self_rotate42 := (f3g_eq b_4 self_masking42 self_rotate42) ▸ rfl
  have h19 : d_4 = d_3 ^^^ f1 a_4 self_masking43 self_rotate43 := (f1g_eq a_4 self_masking43 self_rotate43) ▸ rfl
  have h20 : c_5 = c_4 ^^^ f1 d_4 self_masking50 self_rotate50 := (f1g_eq d_4 self_masking50 self_rotate50) ▸ rfl
  have h21 : b_5 = b_4 ^^^ f2 c_5 self_masking51 self_rotate51 := (f2g_eq c_5 self_masking51 self_rotate51) ▸ rfl
  have h22 : a_5 = a_4 ^^^ f3 b_5 self_masking52 self_rotate52 := (f3g_eq b_5 self_masking52 self_rotate52) ▸ rfl
  have h23 : d_5 = d_4 ^^^ f1 a_5 self_masking53 self_rotate53 := (f1g_eq a_5 self_masking53 self_rotate53) ▸ rfl
  have h24 : d_6 = d_5 ^^^ f1 a_5 self_masking63 self_rotate63 := (f1g_eq a_5 self_masking63 self_rotate63) ▸ rfl
  have h25 : a_6 = a_5 ^^^ f3 b_5 self_masking62 self_rotate62 := (f3g_eq b_5 self_masking62 self_rotate62) ▸ rfl
  have h26 : b_6 = b_5 ^^^ f2 c_5 self_masking61 self_rotate61 := (f2g_eq c_5 self_masking61 self_rotate61) ▸ rfl
  have h27 : c_6 = c_5 ^^^ f1 d_6 self_masking60 self_rotate60 := (f1g_eq d_6 self_masking60 self_rotate60) ▸ rfl
  have h28 : d_7 = d_6 ^^^ f1 a_6 self_masking73 self_rotate73 := (f1g_eq a_6 self_masking73 self_rotate73) ▸ rfl
  have h29 : a_7 = a_6 ^^^ f3 b_6 self_masking72 self_rotate72 := (f3g_eq b_6 self_masking72 self_rotate72) ▸ rfl
  have h30 : b_7 = b_6 ^^^ f2 c_6 self_masking71 self_rotate71 := (f2g_eq c_6 self_masking71 self_rotate71) ▸ rfl
  have h31 : c_7 = c_6 ^^^ f1 d_7 self_masking70 self_rotate70 := (f1g_eq d_7 self_masking70 self_rotate70) ▸ rfl
  have h32 : d_8 = d_7 ^^^ f1 a_7 self_masking83 self_rotate83 := (f1g_eq a_7 self_masking83 self_rotate83) ▸ rfl
  have h33 : a_8 = a_7 ^^^ f3 b_7 self_masking82 self_rotate82 := (f3g_eq b_7 self_masking82 self_rotate82) ▸ rfl
  have h34 : b_8 = b_7 ^^^ f2 c_7 self_masking81 self_rotate81 := (f2g_eq c_7 self_masking81 self_rotate81) ▸ rfl
  have h35 : c_8 = c_7 ^^^ f1 d_8 self_masking80 self_rotate80 := (f1g_eq d_8 self_masking80 self_rotate80) ▸ rfl
  have h36 : d_9 = d_8 ^^^ f1 a_8 self_masking93 self_rotate93 := (f1g_eq a_8 self_masking93 self_rotate93) ▸ rfl
  have h37 : a_9 = a_8 ^^^ f3 b_8 self_masking92 self_rotate92 := (f3g_eq b_8 self_masking92 self_rotate92) ▸ rfl
  have h38 : b_9 = b_8 ^^^ f2 c_8 self_masking91 self_rotate91 := (f2g_eq c_8 self_masking91 self_rotate91) ▸ rfl
  have h39 : c_9 = c_8 ^^^ f1 d_9 self_masking90 self_rotate90 := (f1g_eq d_9 self_masking90 self_rotate90) ▸ rfl
  have h40 : d_10 = d_9 ^^^ f1 a_9 self_masking103 self_rotate103 := (f1g_eq a_9 self_masking103 self_rotate103) ▸ rfl
  have h41 : a_10 = a_9 ^^^ f3 b_9 self_masking102 self_rotate102 := (f3g_eq b_9 self_masking102 self_rotate102) ▸ rfl
  have h42 : b_10 = b_9 ^^^ f2 c_9 self_masking101 self_rotate101 := (f2g_eq c_9 self_masking101 self_rotate101) ▸ rfl
  have h43 : c_10 = c_9 ^^^ f1 d_10 self_masking100 self_rotate100 := (f1g_eq d_10 self_masking100 self_rotate100) ▸ rfl
  have h44 : d_11 = d_10 ^^^ f1 a_10 self_masking113 self_rotate113 := (f1g_eq a_10 self_masking113 self_rotate113) ▸ rfl
  have h45 : a_11 = a_10 ^^^ f3 b_10 self_masking112 self_rotate112 := (f3g_eq b_10 self_masking112 self_rotate112) ▸ rfl
  have h46 : b_11 = b_10 ^^^ f2 c_10 self_masking111 self_rotate111 := (f2g_eq c_10 self_masking111 self_rotate111) ▸ rfl
  have h47 : c_11 = c_10 ^^^ f1 d_11 self_masking110 self_rotate110 := (f1g_eq d_11 self_masking110 self_rotate110) ▸ rfl
  have Q0 : forwardQuad ⟨w0 block, w1 block, w2 block, w3 block⟩ ⟨self_masking00, self_masking01, self_masking02, self_masking03⟩ ⟨self_rotate00, self_rotate01, self_rotate02, self_rotate03⟩ = ⟨a, b, c, d⟩ := by
    rw [fq, ← h0, ← h1, ← h2, ← h3]
  have Q1 : forwardQuad ⟨a, b, c, d⟩ ⟨self_masking10, self_masking11, self_masking12, self_masking13⟩ ⟨self_rotate10, self_rotate11, self_rotate12, self_rotate13⟩ = ⟨a_1, b_1, c_1, d_1⟩ := by
    rw [fq, ← h4, ← h5, ← h6, ← h7]
  have Q2 : forwardQuad ⟨a_1, b_1, c_1, d_1⟩ ⟨self_masking20, self_masking21, self_masking22, self_masking23⟩ ⟨self_rotate20, self_rotate21, self_rotate22, self_rotate23⟩ = ⟨a_2, b_2, c_2, d_2⟩ := by
    rw [fq, ← h8, ← h9, ← h10, ← h11]
  have Q3 : forwardQuad ⟨a_2, b_2, c_2, d_2⟩ ⟨self_masking30, self_masking31, self_masking32, self_masking33⟩ ⟨self_rotate30, self_rotate31, self_rotate32, self_rotate33⟩ = ⟨a_3, b_3, c_3, d_3⟩ := by
    rw [fq, ← h12, ← h13, ← h14, ← h15]
  have Q4 : forwardQuad ⟨a_3, b_3, c_3, d_3⟩ ⟨self_masking40, self_masking41, self_masking42, self_masking43⟩ ⟨self_rotate40, self_rotate41, self_rotate42, self_rotate43⟩ = ⟨a_4, b_4, c_4, d_4⟩ := by
    rw [fq, ← h16, ← h17, ← h18, ← h19]
  have Q5 : forwardQuad ⟨a_4, b_4, c_4, d_4⟩ ⟨self_masking50, self_masking51, self_masking52, self_masking53⟩ ⟨self_rotate50, self_rotate51, self_rotate52, self_rotate53⟩ = ⟨a_5, b_5, c_5, d_5⟩ := by
    rw [fq, ← h20, ← h21, ← h22, ← h23]
  have Q6 : reverseQuad ⟨a_5, b_5, c_5, d_5⟩ ⟨self_masking60, self_masking61, self_masking62, self_masking63⟩ ⟨self_rotate60, self_rotate61, self_rotate62, self_rotate63⟩ = ⟨a_6, b_6, c_6, d_6⟩ := by
    rw [rq, ← h24, ← h27, ← h25, ← h26]
  have Q7 : reverseQuad ⟨a_6, b_6, c_6, d_6⟩ ⟨self_masking70, self_masking71, self_masking72, self_masking73⟩ ⟨self_rotate70, self_rotate71, self_rotate72, self_rotate73⟩ = ⟨a_7, b_7, c_7, d_7⟩ := by
    rw [rq, ← h28, ← h31, ← h29, ← h30]
  have Q8 : reverseQuad ⟨a_7, b_7, c_7, d_7⟩ ⟨self_masking80, self_masking81, self_masking82, self_masking83⟩ ⟨self_rotate80, self_rotate81, self_rotate82, self_rotate83⟩ = ⟨a_8, b_8, c_8, d_8⟩ := by
    rw [rq, ← h32, ← h35, ← h33, ← h34]
  have Q9 : reverseQuad ⟨a_8, b_8, c_8, d_8⟩ ⟨self_masking90, self_masking91, self_masking92, self_masking93⟩ ⟨self_rotate90, self_rotate91, self_rotate92, self_rotate93⟩ = ⟨a_9, b_9, c_9, d_9⟩ := by
    rw [rq, ← h36, ← h39, ← h37, ← h38]
  have Q10 : reverseQuad ⟨a_9, b_9, c_9, d_9⟩ ⟨self_masking100, self_masking101, self_masking102, self_masking103⟩ ⟨self_rotate100, self_rotate101, self_rotate102, self_rotate103⟩ = ⟨a_10, b_10, c_10, d_10⟩ := by
    rw [rq, ← h40, ← h43, ← h41, ← h42]
  have Q11 : reverseQuad ⟨a_10, b_10, c_10, d_10⟩ ⟨self_masking110, self_masking111, self_masking112, self_masking113⟩ ⟨self_rotate110, self_rotate111, self_rotate112, self_rotate113⟩ = ⟨a_11, b_11, c_11, d_11⟩ := by
    rw [rq, ← h44, ← h47, ← h45, ← h46]
  rw [out_bytes, encrypt, enc_unfold, read_bytes, Q0, Q1, Q2, Q3, Q4, Q5, Q6, Q7, Q8, Q9, Q10, Q11]

/-- `cast6_decrypt_block` (regenerated `Cast6::decrypt_block`) is the model's `decrypt`, for all keys and blocks -/
theorem cast6_decrypt_block_eq (self_masking00 self_masking01 self_masking02 self_masking03 self_masking10 self_masking11 self_masking12 self_masking13 self_masking20 self_masking21 self_masking22 self_masking23 self_masking30 self_masking31 self_masking32 self_masking33 self_masking40 self_masking41 self_masking42 self_masking43 self_masking50 self_masking51 self_masking52 self_masking53 self_masking60 self_masking61 self_masking62 self_masking63 self_masking70 self_masking71 self_masking72 self_masking73 self_masking80 self_masking81 self_masking82 self_masking83 self_masking90 self_masking91 self_masking92 self_masking93 self_masking100 self_masking101 self_masking102 self_masking103 self_masking110 self_masking111 self_masking112 self_masking113 : BitVec 32)
    (self_rotate00 self_rotate01 self_rotate02 self_rotate03 self_rotate10 self_rotate11 self_rotate12 self_rotate13 self_rotate20 self_rotate21 self_rotate22 self_rotate23 self_rotate30 self_rotate31 self_rotate32 self_rotate33 self_rotate40 self_rotate41 self_rotate42 self_rotate43 self_rotate50 self_rotate51 self_rotate52 self_rotate53 self_rotate60 self_rotate61 self_rotate62 self_rotate63 self_rotate70 self_rotate71 self_rotate72 self_rotate73 self_rotate80 self_rotate81 self_rotate82 self_rotate83 self_rotate90 self_rotate91 self_rotate92 self_rotate93 self_rotate100 self_rotate101 self_rotate102 self_rotate103 self_rotate110 self_rotate111 self_rotate112 self_rotate113 : BitVec 8) (block : BitVec 128) :
    cast6_decrypt_block self_masking00 self_masking01 self_masking02 self_masking03 self_masking10 self_masking11 self_masking12 self_masking13 self_masking20 self_masking21 self_masking22 self_masking23 self_masking30 self_masking31 self_masking32 self_masking33 self_masking40 self_masking41 self_masking42 self_masking43 self_masking50 self_masking51 self_masking52 self_masking53 self_masking60 self_masking61 self_masking62 self_masking63 self_masking70 self_masking71 self_masking72 self_masking73 self_masking80 self_masking81 self_masking82 self_masking83 self_masking90 self_masking91 self_masking92 self_masking93 self_masking100 self_masking101 self_masking102 self_masking103 self_masking110 self_masking111 self_masking112 self_masking113
      self_rotate00 self_rotate01 self_rotate02 self_rotate03 self_rotate10 self_rotate11 self_rotate12 self_rotate13 self_rotate20 self_rotate21 self_rotate22 self_rotate23 self_rotate30 self_rotate31 self_rotate32 self_rotate33 self_rotate40 self_rotate41 self_rotate42 self_rotate43 self_rotate50 self_rotate51 self_rotate52 self_rotate53 self_rotate60 self_rotate61 self_rotate62 self_rotate63 self_rotate70 self_rotate71 self_rotate72 self_rotate73 self_rotate80 self_rotate81 self_rotate82 self_rotate83 self_rotate90 self_rotate91 self_rotate92 self_rotate93 self_rotate100 self_rotate101 self_rotate102 self_rotate103 self_rotate110 self_rotate111 self_rotate112 self_rotate113 block =
    decrypt (mk self_masking00 self_masking01 self_masking02 self_masking03 self_masking10 self_masking11 self_masking12 self_masking13 self_masking20 self_masking21 self_masking22 self_masking23 self_masking30 self_masking31 self_masking32 self_masking33 self_masking40 self_masking41 self_masking42 self_masking43 self_masking50 self_masking51 self_masking52 self_masking53 self_masking60 self_masking61 self_masking62 self_masking63 self_masking70 self_masking71 self_masking72 self_masking73 self_masking80 self_masking81 self_masking82 self_masking83 self_masking90 self_masking91 self_masking92 self_masking93 self_masking100 self_masking101 self_masking102 self_masking103 self_masking110 self_masking111 self_masking112 self_masking113
      self_rotate00 self_rotate01 self_rotate02 self_rotate03 self_rotate10 self_rotate11 self_rotate12 self_rotate13 self_rotate20 self_rotate21 self_rotate22 self_rotate23 self_rotate30 self_rotate31 self_rotate32 self_rotate33 self_rotate40 self_rotate41 self_rotate42 self_rotate43 self_rotate50 self_rotate51 self_rotate52 self_rotate53 self_rotate60 self_rotate61 self_rotate62 self_rotate63 self_rotate70 self_rotate71 self_rotate72 self_rotate73 self_rotate80 self_rotate81 self_rotate82 self_rotate83 self_rotate90 self_rotate91 self_rotate92 self_rotate93 self_rotate100 self_rotate101 self_rotate102 self_rotate103 self_rotate110 self_rotate111 self_rotate112 self_rotate113) block := by
  unfold cast6_decrypt_block
  extract_lets -merge
  name_lets
  have h0 : c = w2 block ^^^ f1 (w3 block) self_masking110 self_rotate110 := (f1g_eq (w3 block) self_masking110 self_rotate110) ▸ rfl
  have h1 : b = w1 block ^^^ f2 c self_masking111 self_rotate111 := (f2g_eq c self_masking111 self_rotate111) ▸ rfl
  have h2 : a = w0 block ^^^ f3 b self_masking112 self_rotate112 := (f3g_eq b self_masking112 self_rotate112) ▸ rfl
  have h3 : d = w3 block ^^^ f1 a self_masking113 self_rotate113 := (f1g_eq a self_masking113 self_rotate113) ▸ rfl
  have h4 : c_1 = c ^^^ f1 d self_masking100 self_rotate100 := (f1g_eq d self_masking100 self_rotate100) ▸ rfl
  have h5 : b_1 = b ^^^ f2 c_1 self_masking101 self_rotate101 := (f2g_eq c_1 self_masking101 self_rotate101) ▸ rfl
  have h6 : a_1 = a ^^^ f3 b_1 self_masking102 self_rotate102 := (f3g_eq b_1 self_masking102 self_rotate102) ▸ rfl
  have h7 : d_1 = d ^^^ f1 a_1 self_masking103 self_rotate103 := (f1g_eq a_1 self_masking103 self_rotate103) ▸ rfl
  have h8 : c_2 = c_1 ^^^ f1 d_1 self_masking90 self_rotate90 := (f1g_eq d_1 self_masking90 self_rotate90) ▸ rfl
  have h9 : b_2 = b_1 ^^^ f2 c_2 self_masking91 self_rotate91 := (f2g_eq c_2 self_masking91 self_rotate91) ▸ rfl
  have h10 : a_2 = a_1 ^^^ f3 b_2 self_masking92 self_rotate92 := (f3g_eq b_2 self_masking92 self_rotate92) ▸ rfl
  have h11 : d_2 = d_1 ^^^ f1 a_2 self_masking93 self_rotate93 := (f1g_eq a_2 self_masking93 self_rotate93) ▸ rfl
  have h12 : c_3 = c_2 ^^^ f1 d_2 self_masking80 self_rotate80 := (f1g_eq d_2 self_masking80 self_rotate80) ▸ rfl
  have h13 : b_3 = b_2 ^^^ f2 c_3 self_masking81 self_rotate81 := (f2g_eq c_3 self_masking81 self_rotate81) ▸ rfl
  have h14 : a_3 = a_2 ^^^ f3 b_3 self_masking82 self_rotate82 := (f3g_eq b_3 self_masking82 self_rotate82) ▸ rfl
  have h15 : d_3 = d_2 ^^^ f1 a_3 self_masking83 self_rotate83 := (f1g_eq a_3 self_masking83 self_rotate83) ▸ rfl
  have h16 : c_4 = c_3 ^^^ f1 d_3 self_masking70 self_rotate70 := (f1g_eq d_3 self_masking70 self_rotate70) ▸ rfl
  have h17 : b_4 = b_3 ^^^ f2 c_4 self_masking71 self_rotate71 := (f2g_eq c_4 self_masking71 self_rotate71) ▸ rfl
  have h18 : a_4 = a_3 ^^^ f3 b_4 self_masking72 self_rotate72 := (f3g_eq b_4 self_masking72 self_rotate72) ▸ rfl
  have h19 : d_4 = d_3 ^^^ f1 a_4 self_masking73 self_rotate73 := (f1g_eq a_4 self_masking73 self_rotate73) ▸ rfl
  have h20 : c_5 = c_4 ^^^ f1 d_4 self_masking60 self_rotate60 := (f1g_eq d_4 self_masking60 self_rotate60) ▸ rfl
  have h21 : b_5 = b_4 ^^^ f2 c_5 self_masking61 self_rotate61 := (f2g_eq c_5 self_masking61 self_rotate61) ▸ rfl
  have h22 : a_5 = a_4 ^^^ f3 b_5 self_masking62 self_rotate62 := (f3g_eq b_5 self_masking62 self_rotate62) ▸ rfl
  have h23 : d_5 = d_4 ^^^ f1 a_5 self_masking63 self_rotate63 := (f1g_eq a_5 self_masking63 self_rotate63) ▸ rfl
  have h24 : d_6 = d_5 ^^^ f1 a_5 self_masking53 self_rotate53 := (f1g_eq a_5 self_masking53 self_rotate53) ▸ rfl
  have h25 : a_6 = a_5 ^^^ f3 b_5 self_masking52 self_rotate52 := (f3g_eq b_5 self_masking52 self_rotate52) ▸ rfl
  have h26 : b_6 = b_5 ^^^ f2 c_5 self_masking51 self_rotate51 := (f2g_eq c_5 self_masking51 self_rotate51) ▸ rfl
  have h27 : c_6 = c_5 ^^^ f1 d_6 self_masking50 self_rotate50 := (f1g_eq d_6 self_masking50 self_rotate50) ▸ rfl
  have h28 : d_7 = d_6 ^^^ f1 a_6 self_masking43 self_rotate43 := (f1g_eq a_6 self_masking43 self_rotate43) ▸ rfl
  have h29 : a_7 = a_6 ^^^ f3 b_6 self_masking42 self_rotate42 := (f3g_eq b_6 self_masking42 self_rotate42) ▸ rfl
  have h30 : b_7 = b_6 ^^^ f2 c_6 self_masking41 self_rotate41 := (f2g_eq c_6 self_masking41 self_rotate41) ▸ rfl
  have h31 : c_7 = c_6 ^^^ f1 d_7 self_masking40 self_rotate40 := (f1g_eq d_7 self_masking40 self_rotate40) ▸ rfl
  have h32 : d_8 = d_7 ^^^ f1 a_7 self_masking33 self_rotate33 := (f1g_eq a_7 self_masking33 self_rotate33) ▸ rfl
  have h33 : a_8 = a_7 ^^^ f3 b_7 self_masking32 self_rotate32 := (f3g_eq b_7 self_masking32 self_rotate32) ▸ rfl
  have h34 : b_8 = b_7 ^^^ f2 c_7 self_masking31 self_rotate31 := (f2g_eq c_7 self_masking31 self_rotate31) ▸ rfl
  have h35 : c_8 = c_7 ^^^ f1 d_8 self_masking30 self_rotate30 := (f1g_eq d_8 self_masking30 self_rotate30) ▸ rfl
  have h36 : d_9 = d_8 ^^^ f1 a_8 self_masking23 self_rotate23 := (f1g_eq a_8 self_masking23 self_rotate23) ▸ rfl
  have h37 : a_9 = a_8 ^^^ f3 b_8 self_masking22 self_rotate22 := (f3g_eq b_8 self_masking22 self_rotate22) ▸ rfl
  have h38 : b_9 = b_8 ^^^ f2 c_8 self_masking21 self_rotate21 := (f2g_eq c_8 self_masking21 self_rotate21) ▸ rfl
  have h39 : c_9 = c_8 ^^^ f1 d_9 self_masking20 self_rotate20 := (f1g_eq d_9 self_masking20 self_rotate20) ▸ rfl
  have h40 : d_10 = d_9 ^^^ f1 a_9 self_masking13 self_rotate13 := (f1g_eq a_9 self_masking13 self_rotate13) ▸ rfl
  have h41 : a_10 = a_9 ^^^ f3 b_9 self_masking12 self_rotate12 := (f3g_eq b_9 self_masking12 self_rotate12) ▸ rfl
  have h42 : b_10 = b_9 ^^^ f2 c_9 self_masking11 self_rotate11 := (f2g_eq c_9 self_masking11 self_rotate11) ▸ rfl
  have h43 : c_10 = c_9 ^^^ f1 d_10 self_masking10 self_rotate10 := (f1g_eq d_10 self_masking10 self_rotate10) ▸ rfl
  have h44 : d_11 = d_10 ^^^ f1 a_10 self_masking03 self_rotate03 := (f1g_eq a_10 self_masking03 self_rotate03) ▸ rfl
  have h45 : a_11 = a_10 ^^^ f3 b_10 self_masking02 self_rotate02 := (f3g_eq b_10 self_masking02 self_rotate02) ▸ rfl
  have h46 : b_11 = b_10 ^^^ f2 c_10 self_masking01 self_rotate01 := (f2g_eq c_10 self_masking01 self_rotate01) ▸ rfl
  have h47 : c_11 = c_10 ^^^ f1 d_11 self_masking00 self_rotate00 := (f1g_eq d_11 self_masking00 self_rotate00) ▸ rfl
  have Q0 : forwardQuad ⟨w0 block, w1 block, w2 block, w3 block⟩ ⟨self_masking110, self_masking111, self_masking112, self_masking113⟩ ⟨self_rotate110, self_rotate111, self_rotate112, self_rotate113⟩ = ⟨a, b, c, d⟩ := by
    rw [fq, ← h0, ← h1, ← h2, ← h3]
  have Q1 : forwardQuad ⟨a, b, c, d⟩ ⟨self_masking100, self_masking101, self_masking102, self_masking103⟩ ⟨self_rotate100, self_rotate101, self_rotate102, self_rotate103⟩ = ⟨a_1, b_1, c_1, d_1⟩ := by
    rw [fq, ← h4, ← h5, ← h6, ← h7]
  have Q2 : forwardQuad ⟨a_1, b_1, c_1, d_1⟩ ⟨self_masking90, self_masking91, self_masking92, self_masking93⟩ ⟨self_rotate90, self_rotate91, self_rotate92, self_rotate93⟩ = ⟨a_2, b_2, c_2, d_2⟩ := by
    rw [fq, ← h8, ← h9, ← h10, ← h11]
  have Q3 : forwardQuad ⟨a_2, b_2, c_2, d_2⟩ ⟨self_masking80, self_masking81, self_masking82, self_masking83⟩ ⟨self_rotate80, self_rotate81, self_rotate82, self_rotate83⟩ = ⟨a_3, b_3, c_3, d_3⟩ := by
    rw [fq, ← h12, ← h13, ← h14, ← h15]
  have Q4 : forwardQuad ⟨a_3, b_3, c_3, d_3⟩ ⟨self_masking70, self_masking71, self_masking72, self_masking73⟩ ⟨self_rotate70, self_rotate71, self_rotate72, self_rotate73⟩ = ⟨a_4, b_4, c_4, d_4⟩ := by
    rw [fq, ← h16, ← h17, ← h18, ← h19]
  have Q5 : forwardQuad ⟨a_4, b_4, c_4, d_4⟩ ⟨self_masking60, self_masking61, self_masking62, self_masking63⟩ ⟨self_rotate60, self_rotate61, self_rotate62, self_rotate63⟩ = ⟨a_5, b_5, c_5, d_5⟩ := by
    rw [fq, ← h20, ← h21, ← h22, ← h23]
  have Q6 : reverseQuad ⟨a_5, b_5, c_5, d_5⟩ ⟨self_masking50, self_masking51, self_masking52, self_masking53⟩ ⟨self_rotate50, self_rotate51, self_rotate52, self_rotate53⟩ = ⟨a_6, b_6, c_6, d_6⟩ := by
    rw [rq, ← h24, ← h27, ← h25, ← h26]
  have Q7 : reverseQuad ⟨a_6, b_6, c_6, d_6⟩ ⟨self_masking40, self_masking41, self_masking42, self_masking43⟩ ⟨self_rotate40, self_rotate41, self_rotate42, self_rotate43⟩ = ⟨a_7, b_7, c_7, d_7⟩ := by
    rw [rq, ← h28, ← h31, ← h29, ← h30]
  have Q8 : reverseQuad ⟨a_7, b_7, c_7, d_7⟩ ⟨self_masking30, self_masking31, self_masking32, self_masking33⟩ ⟨self_rotate30, self_rotate31, self_rotate32, self_rotate33⟩ = ⟨a_8, b_8, c_8, d_8⟩ := by
    rw [rq, ← h32, ← h35, ← h33, ← h34]
  have Q9 : reverseQuad ⟨a_8, b_8, c_8, d_8⟩ ⟨self_masking20, self_masking21, self_masking22, self_masking23⟩ ⟨self_rotate20, self_rotate21, self_rotate22, self_rotate23⟩ = ⟨a_9, b_9, c_9, d_9⟩ := by
    rw [rq, ← h36, ← h39, ← h37, ← h38]
  have Q10 : reverseQuad ⟨a_9, b_9, c_9, d_9⟩ ⟨self_masking10, self_masking11, self_masking12, self_masking13⟩ ⟨self_rotate10, self_rotate11, self_rotate12, self_rotate13⟩ = ⟨a_10, b_10, c_10, d_10⟩ := by
    rw [rq, ← h40, ← h43, ← h41, ← h42]
  have Q11 : reverseQuad ⟨a_10, b_10, c_10, d_10⟩ ⟨self_masking00, self_masking01, self_masking02, self_masking03⟩ ⟨self_rotate00, self_rotate01, self_rotate02, self_rotate03⟩ = ⟨a_11, b_11, c_11, d_11⟩ := by
    rw [rq, ← h44, ← h47, ← h45, ← h46]
  rw [out_bytes, decrypt, dec_unfold, read_bytes, Q0, Q1, Q2, Q3, Q4, Q5, Q6, Q7, Q8, Q9, Q10, Q11]

end BC.GenCipher.Cast6
