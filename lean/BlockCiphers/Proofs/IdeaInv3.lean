import BlockCiphers.Proofs.IdeaInvDefs
/- exhaustive kernel evaluation of `InvOk a` for the arguments `a` whose top nibble is 12..15
   (4 × 4096 cases; split so that every declaration stays small in time and memory) -/
namespace BC.Idea
theorem invOk_12 : ∀ (m : BitVec 4) (l : BitVec 8), InvOk ((12#4 ++ m) ++ l) := by decide +kernel
theorem invOk_13 : ∀ (m : BitVec 4) (l : BitVec 8), InvOk ((13#4 ++ m) ++ l) := by decide +kernel
theorem invOk_14 : ∀ (m : BitVec 4) (l : BitVec 8), InvOk ((14#4 ++ m) ++ l) := by decide +kernel
theorem invOk_15 : ∀ (m : BitVec 4) (l : BitVec 8), InvOk ((15#4 ++ m) ++ l) := by decide +kernel

end BC.Idea
