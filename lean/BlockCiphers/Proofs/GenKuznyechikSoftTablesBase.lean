import BlockCiphers.Gen.Cipher_Kuznyechik_soft
import BlockCiphers.Proofs.GenCipherKuznyechik
import BlockCiphers.Proofs.KuznyechikCompact
import BlockCiphers.Proofs.KuznyechikFused
/-!
The fused tables of the big software backend of Kuznyechik as computed by the translator (by running the crate's
`const fn fused_enc_table` / `fused_dec_table` and reading the 65 536 bytes as `[[u128; 256]; 16]`, little-endian — the
`unsafe` pointer cast of `transform`) are the model's `ENC_TABLE` / `DEC_TABLE`:

    encT_<i> : ∀ x : BitVec 8, tblAt kuznyechik_soft_encrypt_block_tbl<i> (x.setWidth 64).toNat 128 = row ENC_TABLE.get ⟨i, _⟩ x
    decT_<i> : ∀ x : BitVec 8, tblAt kuznyechik_soft_decrypt_block_tbl<i> (x.setWidth 64).toNat 128 = row DEC_TABLE.get ⟨i, _⟩ x

for i = 0 … 15 (all 2 × 4096 entries).  Evaluating the model's tables in the kernel is far too slow (seconds per row), so:
row (i, x) of the model is `rev128 (L (e_i · P[x]))` (`ENC_TABLE_row`, Proofs/KuznyechikFused.lean), `L` is additive (`L_xor`),
hence the row is the XOR of the basis rows `rev128 (L (e_i · 2^k))` over the set bits `k` of `P[x]` (`REnc_comb_<i>`); the
128 basis rows are evaluated on bytes with the regenerated GF tables of the compact backend (`lfwdB`, 16 `l_step`s each),
and each regenerated table is checked against this combination (`encC_<i>`: 256 cheap cases).  Same for `DEC` with `L⁻¹`.
-/
set_option maxRecDepth 100000
namespace BC.GenCipher.Kuznyechik
open BC BC.Kuznyechik BC.Spec.Kuznyechik BC.Gen.Fn

/-- XOR of the basis values selected by the bits of `v` -/
def comb (b0 b1 b2 b3 b4 b5 b6 b7 : BitVec 128) (v : BitVec 8) : BitVec 128 :=
  (if v.getLsbD 0 then b0 else 0#128) ^^^ (if v.getLsbD 1 then b1 else 0#128) ^^^ (if v.getLsbD 2 then b2 else 0#128) ^^^
  (if v.getLsbD 3 then b3 else 0#128) ^^^ (if v.getLsbD 4 then b4 else 0#128) ^^^ (if v.getLsbD 5 then b5 else 0#128) ^^^
  (if v.getLsbD 6 then b6 else 0#128) ^^^ (if v.getLsbD 7 then b7 else 0#128)

theorem bits8 (v : BitVec 8) :
    (if v.getLsbD 0 then 0x01#8 else 0#8) ^^^ (if v.getLsbD 1 then 0x02#8 else 0#8) ^^^ (if v.getLsbD 2 then 0x04#8 else 0#8) ^^^
    (if v.getLsbD 3 then 0x08#8 else 0#8) ^^^ (if v.getLsbD 4 then 0x10#8 else 0#8) ^^^ (if v.getLsbD 5 then 0x20#8 else 0#8) ^^^
    (if v.getLsbD 6 then 0x40#8 else 0#8) ^^^ (if v.getLsbD 7 then 0x80#8 else 0#8) = v := by
  bv_decide

theorem fin_at (t : Array Nat) (f : BitVec 8 → BitVec 128) (h : ∀ n : Fin 256, BC.Gen.tblAt t n.val 128 = f (BitVec.ofNat 8 n.val))
    (x : BitVec 8) : BC.Gen.tblAt t (x.setWidth 64).toNat 128 = f x := by
  have := h ⟨x.toNat, x.isLt⟩
  simp only [BitVec.ofNat_toNat, BitVec.setWidth_eq] at this
  rw [idx8]; exact this

theorem p_fin (n : Fin 256) : BC.Gen.tblAt BC.Gen.kuznyechik_P n.val 8 = lut P (BitVec.ofNat 8 n.val) := p_entry n
theorem pinv_fin : ∀ n : Fin 256, BC.Gen.tblAt kuznyechik_compact_decrypt_block_tbl7 n.val 8 = lut P_INV (BitVec.ofNat 8 n.val) := pinvD_e

/-! #### enc, byte position 0 -/
def unitB0 (v : BitVec 8) : B16 := ⟨v, 0#8, 0#8, 0#8, 0#8, 0#8, 0#8, 0#8, 0#8, 0#8, 0#8, 0#8, 0#8, 0#8, 0#8, 0#8⟩
theorem setb_unit0 (v : BitVec 8) : setb 0#128 0 v = (unitB0 v).pack := by
  simp only [setb, unitB0, B16.pack, Nat.reduceSub, Nat.reduceMul]
  bv_decide
theorem setb_xor0 (a b : BitVec 8) : setb 0#128 0 (a ^^^ b) = setb 0#128 0 a ^^^ setb 0#128 0 b := by
  simp only [setb, Nat.reduceSub, Nat.reduceMul]
  bv_decide
theorem setb_zero0 : setb 0#128 0 0#8 = 0#128 := by decide +kernel
/-! #### enc, byte position 1 -/
def unitB1 (v : BitVec 8) : B16 := ⟨0#8, v, 0#8, 0#8, 0#8, 0#8, 0#8, 0#8, 0#8, 0#8, 0#8, 0#8, 0#8, 0#8, 0#8, 0#8⟩
theorem setb_unit1 (v : BitVec 8) : setb 0#128 1 v = (unitB1 v).pack := by
  simp only [setb, unitB1, B16.pack, Nat.reduceSub, Nat.reduceMul]
  bv_decide
theorem setb_xor1 (a b : BitVec 8) : setb 0#128 1 (a ^^^ b) = setb 0#128 1 a ^^^ setb 0#128 1 b := by
  simp only [setb, Nat.reduceSub, Nat.reduceMul]
  bv_decide
theorem setb_zero1 : setb 0#128 1 0#8 = 0#128 := by decide +kernel
/-! #### enc, byte position 2 -/
def unitB2 (v : BitVec 8) : B16 := ⟨0#8, 0#8, v, 0#8, 0#8, 0#8, 0#8, 0#8, 0#8, 0#8, 0#8, 0#8, 0#8, 0#8, 0#8, 0#8⟩
theorem setb_unit2 (v : BitVec 8) : setb 0#128 2 v = (unitB2 v).pack := by
  simp only [setb, unitB2, B16.pack, Nat.reduceSub, Nat.reduceMul]
  bv_decide
theorem setb_xor2 (a b : BitVec 8) : setb 0#128 2 (a ^^^ b) = setb 0#128 2 a ^^^ setb 0#128 2 b := by
  simp only [setb, Nat.reduceSub, Nat.reduceMul]
  bv_decide
theorem setb_zero2 : setb 0#128 2 0#8 = 0#128 := by decide +kernel
/-! #### enc, byte position 3 -/
def unitB3 (v : BitVec 8) : B16 := ⟨0#8, 0#8, 0#8, v, 0#8, 0#8, 0#8, 0#8, 0#8, 0#8, 0#8, 0#8, 0#8, 0#8, 0#8, 0#8⟩
theorem setb_unit3 (v : BitVec 8) : setb 0#128 3 v = (unitB3 v).pack := by
  simp only [setb, unitB3, B16.pack, Nat.reduceSub, Nat.reduceMul]
  bv_decide
theorem setb_xor3 (a b : BitVec 8) : setb 0#128 3 (a ^^^ b) = setb 0#128 3 a ^^^ setb 0#128 3 b := by
  simp only [setb, Nat.reduceSub, Nat.reduceMul]
  bv_decide
theorem setb_zero3 : setb 0#128 3 0#8 = 0#128 := by decide +kernel
/-! #### enc, byte position 4 -/
def unitB4 (v : BitVec 8) : B16 := ⟨0#8, 0#8, 0#8, 0#8, v, 0#8, 0#8, 0#8, 0#8, 0#8, 0#8, 0#8, 0#8, 0#8, 0#8, 0#8⟩
theorem setb_unit4 (v : BitVec 8) : setb 0#128 4 v = (unitB4 v).pack := by
  simp only [setb, unitB4, B16.pack, Nat.reduceSub, Nat.reduceMul]
  bv_decide
theorem setb_xor4 (a b : BitVec 8) : setb 0#128 4 (a ^^^ b) = setb 0#128 4 a ^^^ setb 0#128 4 b := by
  simp only [setb, Nat.reduceSub, Nat.reduceMul]
  bv_decide
theorem setb_zero4 : setb 0#128 4 0#8 = 0#128 := by decide +kernel
/-! #### enc, byte position 5 -/
def unitB5 (v : BitVec 8) : B16 := ⟨0#8, 0#8, 0#8, 0#8, 0#8, v, 0#8, 0#8, 0#8, 0#8, 0#8, 0#8, 0#8, 0#8, 0#8, 0#8⟩
theorem setb_unit5 (v : BitVec 8) : setb 0#128 5 v = (unitB5 v).pack := by
  simp only [setb, unitB5, B16.pack, Nat.reduceSub, Nat.reduceMul]
  bv_decide
theorem setb_xor5 (a b : BitVec 8) : setb 0#128 5 (a ^^^ b) = setb 0#128 5 a ^^^ setb 0#128 5 b := by
  simp only [setb, Nat.reduceSub, Nat.reduceMul]
  bv_decide
theorem setb_zero5 : setb 0#128 5 0#8 = 0#128 := by decide +kernel
/-! #### enc, byte position 6 -/
def unitB6 (v : BitVec 8) : B16 := ⟨0#8, 0#8, 0#8, 0#8, 0#8, 0#8, v, 0#8, 0#8, 0#8, 0#8, 0#8, 0#8, 0#8, 0#8, 0#8⟩
theorem setb_unit6 (v : BitVec 8) : setb 0#128 6 v = (unitB6 v).pack := by
  simp only [setb, unitB6, B16.pack, Nat.reduceSub, Nat.reduceMul]
  bv_decide
theorem setb_xor6 (a b : BitVec 8) : setb 0#128 6 (a ^^^ b) = setb 0#128 6 a ^^^ setb 0#128 6 b := by
  simp only [setb, Nat.reduceSub, Nat.reduceMul]
  bv_decide
theorem setb_zero6 : setb 0#128 6 0#8 = 0#128 := by decide +kernel
/-! #### enc, byte position 7 -/
def unitB7 (v : BitVec 8) : B16 := ⟨0#8, 0#8, 0#8, 0#8, 0#8, 0#8, 0#8, v, 0#8, 0#8, 0#8, 0#8, 0#8, 0#8, 0#8, 0#8⟩
theorem setb_unit7 (v : BitVec 8) : setb 0#128 7 v = (unitB7 v).pack := by
  simp only [setb, unitB7, B16.pack, Nat.reduceSub, Nat.reduceMul]
  bv_decide
theorem setb_xor7 (a b : BitVec 8) : setb 0#128 7 (a ^^^ b) = setb 0#128 7 a ^^^ setb 0#128 7 b := by
  simp only [setb, Nat.reduceSub, Nat.reduceMul]
  bv_decide
theorem setb_zero7 : setb 0#128 7 0#8 = 0#128 := by decide +kernel
/-! #### enc, byte position 8 -/
def unitB8 (v : BitVec 8) : B16 := ⟨0#8, 0#8, 0#8, 0#8, 0#8, 0#8, 0#8, 0#8, v, 0#8, 0#8, 0#8, 0#8, 0#8, 0#8, 0#8⟩
theorem setb_unit8 (v : BitVec 8) : setb 0#128 8 v = (unitB8 v).pack := by
  simp only [setb, unitB8, B16.pack, Nat.reduceSub, Nat.reduceMul]
  bv_decide
theorem setb_xor8 (a b : BitVec 8) : setb 0#128 8 (a ^^^ b) = setb 0#128 8 a ^^^ setb 0#128 8 b := by
  simp only [setb, Nat.reduceSub, Nat.reduceMul]
  bv_decide
theorem setb_zero8 : setb 0#128 8 0#8 = 0#128 := by decide +kernel
/-! #### enc, byte position 9 -/
def unitB9 (v : BitVec 8) : B16 := ⟨0#8, 0#8, 0#8, 0#8, 0#8, 0#8, 0#8, 0#8, 0#8, v, 0#8, 0#8, 0#8, 0#8, 0#8, 0#8⟩
theorem setb_unit9 (v : BitVec 8) : setb 0#128 9 v = (unitB9 v).pack := by
  simp only [setb, unitB9, B16.pack, Nat.reduceSub, Nat.reduceMul]
  bv_decide
theorem setb_xor9 (a b : BitVec 8) : setb 0#128 9 (a ^^^ b) = setb 0#128 9 a ^^^ setb 0#128 9 b := by
  simp only [setb, Nat.reduceSub, Nat.reduceMul]
  bv_decide
theorem setb_zero9 : setb 0#128 9 0#8 = 0#128 := by decide +kernel
/-! #### enc, byte position 10 -/
def unitB10 (v : BitVec 8) : B16 := ⟨0#8, 0#8, 0#8, 0#8, 0#8, 0#8, 0#8, 0#8, 0#8, 0#8, v, 0#8, 0#8, 0#8, 0#8, 0#8⟩
theorem setb_unit10 (v : BitVec 8) : setb 0#128 10 v = (unitB10 v).pack := by
  simp only [setb, unitB10, B16.pack, Nat.reduceSub, Nat.reduceMul]
  bv_decide
theorem setb_xor10 (a b : BitVec 8) : setb 0#128 10 (a ^^^ b) = setb 0#128 10 a ^^^ setb 0#128 10 b := by
  simp only [setb, Nat.reduceSub, Nat.reduceMul]
  bv_decide
theorem setb_zero10 : setb 0#128 10 0#8 = 0#128 := by decide +kernel
/-! #### enc, byte position 11 -/
def unitB11 (v : BitVec 8) : B16 := ⟨0#8, 0#8, 0#8, 0#8, 0#8, 0#8, 0#8, 0#8, 0#8, 0#8, 0#8, v, 0#8, 0#8, 0#8, 0#8⟩
theorem setb_unit11 (v : BitVec 8) : setb 0#128 11 v = (unitB11 v).pack := by
  simp only [setb, unitB11, B16.pack, Nat.reduceSub, Nat.reduceMul]
  bv_decide
theorem setb_xor11 (a b : BitVec 8) : setb 0#128 11 (a ^^^ b) = setb 0#128 11 a ^^^ setb 0#128 11 b := by
  simp only [setb, Nat.reduceSub, Nat.reduceMul]
  bv_decide
theorem setb_zero11 : setb 0#128 11 0#8 = 0#128 := by decide +kernel
/-! #### enc, byte position 12 -/
def unitB12 (v : BitVec 8) : B16 := ⟨0#8, 0#8, 0#8, 0#8, 0#8, 0#8, 0#8, 0#8, 0#8, 0#8, 0#8, 0#8, v, 0#8, 0#8, 0#8⟩
theorem setb_unit12 (v : BitVec 8) : setb 0#128 12 v = (unitB12 v).pack := by
  simp only [setb, unitB12, B16.pack, Nat.reduceSub, Nat.reduceMul]
  bv_decide
theorem setb_xor12 (a b : BitVec 8) : setb 0#128 12 (a ^^^ b) = setb 0#128 12 a ^^^ setb 0#128 12 b := by
  simp only [setb, Nat.reduceSub, Nat.reduceMul]
  bv_decide
theorem setb_zero12 : setb 0#128 12 0#8 = 0#128 := by decide +kernel
/-! #### enc, byte position 13 -/
def unitB13 (v : BitVec 8) : B16 := ⟨0#8, 0#8, 0#8, 0#8, 0#8, 0#8, 0#8, 0#8, 0#8, 0#8, 0#8, 0#8, 0#8, v, 0#8, 0#8⟩
theorem setb_unit13 (v : BitVec 8) : setb 0#128 13 v = (unitB13 v).pack := by
  simp only [setb, unitB13, B16.pack, Nat.reduceSub, Nat.reduceMul]
  bv_decide
theorem setb_xor13 (a b : BitVec 8) : setb 0#128 13 (a ^^^ b) = setb 0#128 13 a ^^^ setb 0#128 13 b := by
  simp only [setb, Nat.reduceSub, Nat.reduceMul]
  bv_decide
theorem setb_zero13 : setb 0#128 13 0#8 = 0#128 := by decide +kernel
/-! #### enc, byte position 14 -/
def unitB14 (v : BitVec 8) : B16 := ⟨0#8, 0#8, 0#8, 0#8, 0#8, 0#8, 0#8, 0#8, 0#8, 0#8, 0#8, 0#8, 0#8, 0#8, v, 0#8⟩
theorem setb_unit14 (v : BitVec 8) : setb 0#128 14 v = (unitB14 v).pack := by
  simp only [setb, unitB14, B16.pack, Nat.reduceSub, Nat.reduceMul]
  bv_decide
theorem setb_xor14 (a b : BitVec 8) : setb 0#128 14 (a ^^^ b) = setb 0#128 14 a ^^^ setb 0#128 14 b := by
  simp only [setb, Nat.reduceSub, Nat.reduceMul]
  bv_decide
theorem setb_zero14 : setb 0#128 14 0#8 = 0#128 := by decide +kernel
/-! #### enc, byte position 15 -/
def unitB15 (v : BitVec 8) : B16 := ⟨0#8, 0#8, 0#8, 0#8, 0#8, 0#8, 0#8, 0#8, 0#8, 0#8, 0#8, 0#8, 0#8, 0#8, 0#8, v⟩
theorem setb_unit15 (v : BitVec 8) : setb 0#128 15 v = (unitB15 v).pack := by
  simp only [setb, unitB15, B16.pack, Nat.reduceSub, Nat.reduceMul]
  bv_decide
theorem setb_xor15 (a b : BitVec 8) : setb 0#128 15 (a ^^^ b) = setb 0#128 15 a ^^^ setb 0#128 15 b := by
  simp only [setb, Nat.reduceSub, Nat.reduceMul]
  bv_decide
theorem setb_zero15 : setb 0#128 15 0#8 = 0#128 := by decide +kernel
end BC.GenCipher.Kuznyechik
