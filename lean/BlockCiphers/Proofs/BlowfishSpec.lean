import BlockCiphers.Proofs.Blowfish
import BlockCiphers.Spec.Blowfish
/-
Blowfish: the model of the Rust (`Impl`) equals the published description (`Spec`):
`next_u32_wrap` is the cyclic big-endian reader, the 8 double rounds are Schneier's 16 rounds,
`expand_key` / `salted_expand_key` are `ExpandKey` of Provos–Mazières (C09, C14).
-/
namespace BC.Blowfish

/-! ### generic facts about folds over `List.range` -/

theorem foldl_range_double {α : Type} (f : α → Nat → α) (n : Nat) (a : α) :
    (List.range (2 * n)).foldl f a = (List.range n).foldl (fun a j => f (f a (2 * j)) (2 * j + 1)) a := by
  induction n with
  | zero => simp
  | succ n ih =>
    have : 2 * (n + 1) = 2 * n + 1 + 1 := by omega
    rw [this, List.range_succ, List.range_succ, List.range_succ (n := n)]
    simp only [List.foldl_append, List.foldl_cons, List.foldl_nil, ih]

theorem foldl_range_add {α : Type} (f : α → Nat → α) (m n : Nat) (a : α) :
    (List.range (m + n)).foldl f a
      = (List.range n).foldl (fun a k => f a (m + k)) ((List.range m).foldl f a) := by
  induction n with
  | zero => simp
  | succ n ih =>
    rw [← Nat.add_assoc, List.range_succ, List.range_succ (n := n)]
    simp only [List.foldl_append, List.foldl_cons, List.foldl_nil, ih]

theorem foldl_range_mul {α : Type} (f : α → Nat → α) (r c : Nat) (a : α) :
    (List.range (r * c)).foldl f a
      = (List.range r).foldl (fun a i => (List.range c).foldl (fun a j => f a (c * i + j)) a) a := by
  induction r with
  | zero => simp
  | succ r ih =>
    rw [Nat.succ_mul, foldl_range_add, ih, List.range_succ (n := r)]
    simp only [List.foldl_append, List.foldl_cons, List.foldl_nil, Nat.mul_comm r c]

/-- an invariant indexed by the loop counter, between two loops -/
theorem foldl_range_rel {α β : Type} (R : Nat → α → β → Prop) (f : α → Nat → α) (g : β → Nat → β)
    (h : ∀ n a b, R n a b → R (n + 1) (f a n) (g b n)) (a : α) (b : β) (h0 : R 0 a b) (n : Nat) :
    R n ((List.range n).foldl f a) ((List.range n).foldl g b) := by
  induction n with
  | zero => simpa using h0
  | succ n ih =>
    rw [List.range_succ]; simp only [List.foldl_append, List.foldl_cons, List.foldl_nil]
    exact h _ _ _ ih

/-- pointwise equal step functions give equal folds -/
theorem foldl_congr_fun {α ι : Type} (f g : α → ι → α) (h : ∀ a i, f a i = g a i) (l : List ι) (a : α) :
    l.foldl f a = l.foldl g a := by
  have : f = g := by funext a i; exact h a i
  rw [this]

/-! ### `next_u32_wrap` = cyclic big-endian reader -/

/-- `off` is a legal value of `*offset` standing for position `g` of the cyclic byte stream -/
def PosInv (buf : Array (BitVec 8)) (off g : Nat) : Prop :=
  off ≤ buf.size ∧ off % buf.size = g % buf.size

theorem posInv_zero (buf : Array (BitVec 8)) : PosInv buf 0 0 := ⟨Nat.zero_le _, rfl⟩

theorem rdStep_spec (buf : Array (BitVec 8)) (h : 0 < buf.size) (a : Rd) (g : Nat)
    (hi : PosInv buf a.off g) :
    (rdStep buf a).v = (a.v <<< 8) ||| (Spec.cycByte buf g).setWidth 32
      ∧ PosInv buf (rdStep buf a).off (g + 1) := by
  obtain ⟨hle, hmod⟩ := hi
  have key : ∀ off', off' < buf.size → off' % buf.size = g % buf.size →
      buf[off']! = Spec.cycByte buf g ∧ PosInv buf (off' + 1) (g + 1) := by
    intro off' hlt hm
    have e : off' = g % buf.size := by rw [← hm, Nat.mod_eq_of_lt hlt]
    refine ⟨by rw [Spec.cycByte, e], Nat.succ_le_of_lt hlt, ?_⟩
    rw [Nat.add_mod off' 1, Nat.add_mod g 1, hm]
  unfold rdStep
  by_cases hc : a.off ≥ buf.size
  · have e : a.off = buf.size := Nat.le_antisymm hle hc
    have hm0 : 0 % buf.size = g % buf.size := by rw [← hmod, e, Nat.mod_self, Nat.zero_mod]
    have := key 0 h hm0
    simp only [hc, if_true]
    exact ⟨by rw [this.1], this.2⟩
  · have hlt : a.off < buf.size := Nat.lt_of_not_ge hc
    have := key a.off hlt hmod
    simp only [hc, if_false]
    exact ⟨by rw [this.1], this.2⟩

theorem word_assemble (b0 b1 b2 b3 : BitVec 8) :
    ((((0#32 <<< 8 ||| b0.setWidth 32) <<< 8 ||| b1.setWidth 32) <<< 8 ||| b2.setWidth 32) <<< 8
        ||| b3.setWidth 32)
      = (b0.setWidth 32 <<< 24) ||| (b1.setWidth 32 <<< 16) ||| (b2.setWidth 32 <<< 8) ||| b3.setWidth 32 := by
  bv_decide (config := { timeout := 600 })

/-- C09: for every non-empty buffer and every legal offset standing for word position `j` of the
cyclic stream, `next_u32_wrap` returns big-endian word `j` and an offset standing for word `j+1` -/
theorem next_u32_wrap_spec (buf : Array (BitVec 8)) (h : 0 < buf.size) (off j : Nat)
    (hi : PosInv buf off (4 * j)) :
    (next_u32_wrap buf off).v = Spec.cycWord buf j
      ∧ PosInv buf (next_u32_wrap buf off).off (4 * (j + 1)) := by
  simp only [next_u32_wrap, iter]
  have s1 := rdStep_spec buf h { v := 0#32, off := off } (4 * j) hi
  have s2 := rdStep_spec buf h _ _ s1.2
  have s3 := rdStep_spec buf h _ _ s2.2
  have s4 := rdStep_spec buf h _ _ s3.2
  refine ⟨?_, by simpa [Nat.mul_add] using s4.2⟩
  rw [s4.1, s3.1, s2.1, s1.1, Spec.cycWord, word_assemble]

/-! ### the key XOR -/

theorem xorKey_eq_spec (p : Array (BitVec 32)) (key : Array (BitVec 8)) (h : 0 < key.size) :
    xorKey p key = Spec.xorKey p key := by
  have := foldl_range_rel (fun n (a : KP) (b : Array (BitVec 32)) => a.p = b ∧ PosInv key a.pos (4 * n))
    (xorKeyStep key) (fun p i => p.set! i (p[i]! ^^^ Spec.cycWord key i))
    (by
      intro n a b ⟨hp, hpos⟩
      have w := next_u32_wrap_spec key h a.pos n hpos
      simp only [xorKeyStep]
      exact ⟨by rw [w.1, hp], w.2⟩)
    { p := p, pos := 0 } p ⟨rfl, posInv_zero key⟩ 18
  exact this.1

/-! ### 8 double rounds = Schneier's 16 rounds -/

theorem toNat_shr24 (x : BitVec 32) : (x >>> 24).toNat = (x.extractLsb' 24 8).toNat := by
  have : x >>> 24 = (x.extractLsb' 24 8).setWidth 32 := by bv_decide (config := { timeout := 600 })
  rw [this, BitVec.toNat_setWidth, Nat.mod_eq_of_lt (by omega)]
theorem toNat_shr16 (x : BitVec 32) : ((x >>> 16) &&& 0xff#32).toNat = (x.extractLsb' 16 8).toNat := by
  have : (x >>> 16) &&& 0xff#32 = (x.extractLsb' 16 8).setWidth 32 := by bv_decide (config := { timeout := 600 })
  rw [this, BitVec.toNat_setWidth, Nat.mod_eq_of_lt (by omega)]
theorem toNat_shr8 (x : BitVec 32) : ((x >>> 8) &&& 0xff#32).toNat = (x.extractLsb' 8 8).toNat := by
  have : (x >>> 8) &&& 0xff#32 = (x.extractLsb' 8 8).setWidth 32 := by bv_decide (config := { timeout := 600 })
  rw [this, BitVec.toNat_setWidth, Nat.mod_eq_of_lt (by omega)]
theorem toNat_and255 (x : BitVec 32) : (x &&& 0xff#32).toNat = (x.extractLsb' 0 8).toNat := by
  have : x &&& 0xff#32 = (x.extractLsb' 0 8).setWidth 32 := by bv_decide (config := { timeout := 600 })
  rw [this, BitVec.toNat_setWidth, Nat.mod_eq_of_lt (by omega)]

theorem round_function_eq_F (st : State) (x : BitVec 32) : round_function st x = Spec.F st x := by
  simp only [round_function, Spec.F, Spec.sbox, sIdx]
  rw [toNat_shr16, toNat_shr8, toNat_and255, toNat_shr24]

theorem encRound_eq_two_rounds (st : State) (x : LR) (i : Nat) :
    encRound st x i = Spec.round st (Spec.round st x (2 * i)) (2 * i + 1) := by
  simp only [encRound, Spec.round, round_function_eq_F]

/-- C09: `encrypt` of the crate = Blowfish encryption as published, for every state -/
theorem encrypt_eq_spec (st : State) (x : LR) : encrypt st x = Spec.encrypt st x := by
  simp only [encrypt, Spec.encrypt]
  rw [show (16 : Nat) = 2 * 8 from rfl, foldl_range_double]
  rw [foldl_congr_fun _ _ (encRound_eq_two_rounds st)]

theorem foldl_congr_mem {α ι : Type} (f g : α → ι → α) (l : List ι)
    (h : ∀ a, ∀ i ∈ l, f a i = g a i) (a : α) : l.foldl f a = l.foldl g a := by
  induction l generalizing a with
  | nil => rfl
  | cons x xs ih =>
    simp only [List.foldl_cons]
    rw [h a x (by simp), ih (fun a i hi => h a i (by simp [hi]))]

theorem decRound_eq_two_rounds (st : State) (x : LR) (k : Nat) (hk : k < 8) :
    decRound st x (8 - k) = Spec.roundD st (Spec.roundD st x (2 * k)) (2 * k + 1) := by
  have e1 : 17 - (2 * k + 1) + 1 = 17 - 2 * k := by omega
  have e2 : 2 * (8 - k) = 17 - (2 * k + 1) := by omega
  simp only [decRound, Spec.roundD, round_function_eq_F, e2, e1]

/-- C09: `decrypt` of the crate = Blowfish decryption as published (P in reverse order) -/
theorem decrypt_eq_spec (st : State) (x : LR) : decrypt st x = Spec.decrypt st x := by
  simp only [decrypt, Spec.decrypt]
  have hl : (List.range' 1 8).reverse = (List.range 8).map (fun k => 8 - k) := by decide
  rw [hl, List.foldl_map, show (16 : Nat) = 2 * 8 from rfl, foldl_range_double]
  rw [foldl_congr_mem _ _ _ (fun a k hk => decRound_eq_two_rounds st a k (List.mem_range.mp hk))]

/-! ### the 521 chained encryptions: nested loops = one loop over the 521 pairs -/

/-- generic step of the salted loop: mix salt, encrypt, replace pair `n` -/
def gStep (salt : Array (BitVec 8)) (a : KSS) (n : Nat) : KSS :=
  let a := saltEnc salt a
  { a with st := Spec.setPair a.st n a.lr }

/-- generic step of the unsalted loop -/
def g0Step (a : KS) (n : Nat) : KS :=
  let lr := encrypt a.st a.lr
  { st := Spec.setPair a.st n lr, lr := lr }

theorem setPair_P (st : State) (i : Nat) (h : i < 9) (x : LR) :
    Spec.setPair st i x = setP (setP st (2 * i) x.l) (2 * i + 1) x.r := by
  simp [Spec.setPair, h, setP]

theorem setPair_S (st : State) (k : Nat) (x : LR) :
    Spec.setPair st (9 + k) x = { st with s := (st.s.set! (2 * k) x.l).set! (2 * k + 1) x.r } := by
  have : ¬ (9 + k < 9) := by omega
  simp [Spec.setPair, this]

theorem spStep_eq (salt : Array (BitVec 8)) (a : KSS) (i : Nat) (h : i < 9) :
    spStep salt a i = gStep salt a i := by
  simp only [spStep, gStep, setPair_P _ _ h]

theorem pStep_eq (a : KS) (i : Nat) (h : i < 9) : pStep a i = g0Step a i := by
  simp only [pStep, g0Step, setPair_P _ _ h]

theorem sStep_eq (i : Nat) (a : KS) (j : Nat) : sStep i a j = g0Step a (9 + (128 * i + j)) := by
  have e1 : 2 * (128 * i + j) = 256 * i + 2 * j := by omega
  simp only [sStep, g0Step, setPair_S, setS, sIdx, e1, Nat.add_assoc]

theorem ssStep_eq (salt : Array (BitVec 8)) (i : Nat) (a : KSS) (j : Nat) :
    ssStep salt i a j
      = gStep salt (gStep salt a (9 + (128 * i + 2 * j))) (9 + (128 * i + (2 * j + 1))) := by
  have e1 : 2 * (128 * i + 2 * j) = 256 * i + 4 * j := by omega
  have e2 : 2 * (128 * i + (2 * j + 1)) = 256 * i + (4 * j + 2) := by omega
  simp only [ssStep, gStep, setPair_S, setS, sIdx, e1, e2, Nat.add_assoc]

theorem salted_loops_flat (salt : Array (BitVec 8)) (a0 : KSS) :
    (List.range 4).foldl (fun a i => (List.range 64).foldl (ssStep salt i) a)
        ((List.range 9).foldl (spStep salt) a0)
      = (List.range 521).foldl (gStep salt) a0 := by
  rw [show (521 : Nat) = 9 + 4 * 128 from rfl, foldl_range_add, foldl_range_mul]
  rw [foldl_congr_mem (spStep salt) (gStep salt) _ (fun a i hi => spStep_eq salt a i (List.mem_range.mp hi))]
  apply foldl_congr_fun
  intro a i
  rw [show (128 : Nat) = 2 * 64 from rfl, foldl_range_double]
  apply foldl_congr_fun
  intro a j
  rw [ssStep_eq]

theorem plain_loops_flat (a0 : KS) :
    (List.range 4).foldl (fun a i => (List.range 128).foldl (sStep i) a)
        ((List.range 9).foldl pStep a0)
      = (List.range 521).foldl g0Step a0 := by
  rw [show (521 : Nat) = 9 + 4 * 128 from rfl, foldl_range_add, foldl_range_mul]
  rw [foldl_congr_mem pStep g0Step _ (fun a i hi => pStep_eq a i (List.mem_range.mp hi))]
  apply foldl_congr_fun
  intro a i
  apply foldl_congr_fun
  intro a j
  rw [sStep_eq]

/-! ### C14: `salted_expand_key` = `ExpandKey` of Provos–Mazières -/

theorem gStep_rel (salt : Array (BitVec 8)) (h : 0 < salt.size) (n : Nat) (a : KSS) (b : Spec.ES)
    (hr : a.st = b.st ∧ a.lr = b.blk ∧ PosInv salt a.pos (4 * (2 * n))) :
    (gStep salt a n).st = (Spec.ekStep salt b n).st ∧ (gStep salt a n).lr = (Spec.ekStep salt b n).blk
      ∧ PosInv salt (gStep salt a n).pos (4 * (2 * (n + 1))) := by
  obtain ⟨hst, hlr, hpos⟩ := hr
  have w0 := next_u32_wrap_spec salt h a.pos (2 * n) hpos
  have w1 := next_u32_wrap_spec salt h _ (2 * n + 1) w0.2
  simp only [gStep, saltEnc, Spec.ekStep, w0.1, w1.1, hst, hlr, encrypt_eq_spec]
  exact ⟨trivial, trivial, w1.2⟩

/-- the 4-entries-per-pass S loop with the running salt offset = the reference 2-entries loop with
the salt indexed as a cyclic stream of big-endian words; every non-empty salt and key (any lengths,
also not multiples of 4) -/
theorem salted_expand_key_eq_spec (st : State) (salt key : Array (BitVec 8))
    (hs : 0 < salt.size) (hk : 0 < key.size) :
    salted_expand_key st salt key = Spec.expandKey st salt key := by
  simp only [salted_expand_key, Spec.expandKey, salted_loops_flat, xorKey_eq_spec _ _ hk]
  have := foldl_range_rel
    (fun n (a : KSS) (b : Spec.ES) => a.st = b.st ∧ a.lr = b.blk ∧ PosInv salt a.pos (4 * (2 * n)))
    (gStep salt) (Spec.ekStep salt) (fun n a b hr => gStep_rel salt hs n a b hr)
    { st := { st with p := Spec.xorKey st.p key }, lr := { l := 0#32, r := 0#32 }, pos := 0 }
    { st := { st with p := Spec.xorKey st.p key }, blk := { l := 0#32, r := 0#32 } }
    ⟨rfl, rfl, posInv_zero salt⟩ 521
  exact this.1

/-! ### C14: `bc_expand_key` = `salted_expand_key` with an all-zero salt -/

theorem next_u32_wrap_zero (salt : Array (BitVec 8)) (hz : ∀ i : Nat, salt[i]! = 0#8) (off : Nat) :
    (next_u32_wrap salt off).v = 0#32 := by
  simp [next_u32_wrap, iter, rdStep, hz]

theorem g0Step_rel (salt : Array (BitVec 8)) (hz : ∀ i : Nat, salt[i]! = 0#8) (n : Nat) (a : KS) (b : KSS)
    (hr : a.st = b.st ∧ a.lr = b.lr) :
    (g0Step a n).st = (gStep salt b n).st ∧ (g0Step a n).lr = (gStep salt b n).lr := by
  obtain ⟨hst, hlr⟩ := hr
  simp [g0Step, gStep, saltEnc, next_u32_wrap_zero salt hz, hst, hlr]

/-- for every salt consisting of zero bytes only: the unsalted key expansion is the salted one.
(The Rust panics on an empty salt or key — `next_u32_wrap` indexes `buf[0]` — so on the Rust side the
statement is about `salt.len() ≥ 1`, `key.len() ≥ 1`; the total model satisfies it for all lengths.) -/
theorem bc_expand_key_eq_salted (st : State) (salt key : Array (BitVec 8)) (hz : ∀ i : Nat, salt[i]! = 0#8) :
    bc_expand_key st key = salted_expand_key st salt key := by
  simp only [bc_expand_key, expand_key, salted_expand_key, salted_loops_flat, plain_loops_flat]
  have := foldl_range_rel (fun _ (a : KS) (b : KSS) => a.st = b.st ∧ a.lr = b.lr)
    g0Step (gStep salt) (fun n a b hr => g0Step_rel salt hz n a b hr)
    { st := { st with p := xorKey st.p key }, lr := { l := 0#32, r := 0#32 } }
    { st := { st with p := xorKey st.p key }, lr := { l := 0#32, r := 0#32 }, pos := 0 }
    ⟨rfl, rfl⟩ 521
  exact this.1

theorem replicate_zero_get (n i : Nat) : (Array.replicate n 0#8)[i]! = 0#8 := by
  by_cases h : i < n
  · simp [h]
  · simp [h]; rfl

/-- the salt-length condition made explicit: `n` zero bytes, any `n` (the Rust needs `n ≥ 1`) -/
theorem bc_expand_key_eq_salted_zeros (st : State) (n : Nat) (key : Array (BitVec 8)) :
    bc_expand_key st key = salted_expand_key st (Array.replicate n 0#8) key :=
  bc_expand_key_eq_salted st _ key (replicate_zero_get n)

/-! ### C14 / C09: the remaining identities -/

theorem bc_encrypt_eq_encrypt (st : State) (x : LR) : bc_encrypt st x = encrypt st x := rfl

theorem bc_encrypt_eq_spec (st : State) (x : LR) : bc_encrypt st x = Spec.encrypt st x :=
  encrypt_eq_spec st x

/-- the state of `Blowfish::new(key)` is `bc_expand_key` applied to `bc_init_state` -/
theorem new_eq_bc_expand_key (key : Array (BitVec 8)) (h : accepts key.size = true) :
    new key = some (bc_expand_key bc_init_state key) := by
  simp [new, h, bc_expand_key, bc_init_state]

/-- C09: key expansion of the crate = Schneier's = `ExpandKey(state, 0, key)` -/
theorem expand_key_eq_spec (st : State) (key : Array (BitVec 8)) (hk : 0 < key.size) :
    expand_key st key = Spec.blowfishExpand st key := by
  have h1 := bc_expand_key_eq_salted_zeros st 16 key
  rw [bc_expand_key] at h1
  rw [h1, Spec.blowfishExpand, salted_expand_key_eq_spec _ _ _ (by simp) hk]

/-- C09: for every key length 4..56, `new` yields the published key schedule -/
theorem new_eq_spec (key : Array (BitVec 8)) (h : accepts key.size = true) :
    new key = some (Spec.keySchedule key) := by
  have hk : 0 < key.size := by have := (accepts_iff _).mp h; omega
  simp [new, h, Spec.keySchedule, expand_key_eq_spec _ _ hk]

/-! ### C14 "any sequence": histories of bcrypt primitive calls -/

/-- a call of one of the four public bcrypt primitives -/
inductive Op where
  | init
  | expand (key : Array (BitVec 8))
  | salted (salt key : Array (BitVec 8))
  | enc (x : LR)

/-- the calls on which the Rust does not panic -/
def Op.valid : Op → Prop
  | .init => True
  | .expand key => 0 < key.size
  | .salted salt key => 0 < salt.size ∧ 0 < key.size
  | .enc _ => True

/-- a history: current state and the outputs produced so far -/
structure Hist where
  st : State
  outs : List LR

def implStep (h : Hist) : Op → Hist
  | .init => { h with st := bc_init_state }
  | .expand key => { h with st := bc_expand_key h.st key }
  | .salted salt key => { h with st := salted_expand_key h.st salt key }
  | .enc x => { h with outs := h.outs ++ [bc_encrypt h.st x] }

def specStep (h : Hist) : Op → Hist
  | .init => { h with st := init_state }
  | .expand key => { h with st := Spec.blowfishExpand h.st key }
  | .salted salt key => { h with st := Spec.expandKey h.st salt key }
  | .enc x => { h with outs := h.outs ++ [Spec.encrypt h.st x] }

theorem implStep_eq_specStep (h : Hist) (o : Op) (hv : o.valid) : implStep h o = specStep h o := by
  cases o with
  | init => rfl
  | expand key => simp only [implStep, specStep, bc_expand_key, expand_key_eq_spec _ _ hv]
  | salted salt key => simp only [implStep, specStep, salted_expand_key_eq_spec _ _ _ hv.1 hv.2]
  | enc x => simp only [implStep, specStep, bc_encrypt_eq_spec]

/-- every finite sequence of (non-panicking) primitive calls, from every starting state, gives the same
states and outputs in the crate's model as in the published algorithm — the cost loop of bcrypt
(`2^cost` × `expand key; expand salt`) is one instance -/
theorem history_eq_spec (ops : List Op) (hv : ∀ o ∈ ops, o.valid) (h : Hist) :
    ops.foldl implStep h = ops.foldl specStep h :=
  foldl_congr_mem implStep specStep ops (fun a o ho => implStep_eq_specStep a o (hv o ho)) h

end BC.Blowfish
