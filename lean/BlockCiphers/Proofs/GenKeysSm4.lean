import BlockCiphers.Gen.Keys_Sm4
import BlockCiphers.Impl.Sm4
import BlockCiphers.Proofs.GenTables
import Std.Tactic.BVDecide
/-!
Key-schedule tie for SM4: the regenerated `Sm4::new` (`BC.Gen.Fn.sm4_new`, loops unrolled, `SBOX` read from the
regenerated `Gen/Tables.lean`, `FK`/`CK` inlined as literals by the translator) produces exactly the 32 round keys of
the model's `BC.Sm4.new`, for all 128-bit keys.  Proof: S-box look-up tied entry by entry (`decide +kernel`),
byte-wise loads rewritten into the model's word extracts, the model's `forRange`/`setIfInBounds` loop unfolded on the
literal array; both sides are then the same term.
-/
set_option maxRecDepth 100000
namespace BC.GenKeys.Sm4
open BC BC.Sm4 BC.Gen.Fn

theorem sbox_entry : ∀ n : Fin 256, BC.Gen.tblAt BC.Gen.sm4_SBOX n.val 8 = BC.Sm4.SBOX.getD n.val 0#8 := by
  decide +kernel

theorem sbox_at (v : BitVec 8) : BC.Gen.tblAt BC.Gen.sm4_SBOX ((v.setWidth 64).toNat) 8 = sbox v := by
  have h := sbox_entry ⟨v.toNat, v.isLt⟩
  simp only at h
  have e : (v.setWidth 64).toNat = v.toNat := by
    simp only [BitVec.toNat_setWidth]; omega
  rw [e, h]; rfl

theorem ld0 (b : BitVec 128) : b.extractLsb' 120 8 ++ b.extractLsb' 112 8 ++ b.extractLsb' 104 8 ++ b.extractLsb' 96 8 = b.extractLsb' 96 32 := by bv_decide
theorem ld1 (b : BitVec 128) : b.extractLsb' 88 8 ++ b.extractLsb' 80 8 ++ b.extractLsb' 72 8 ++ b.extractLsb' 64 8 = b.extractLsb' 64 32 := by bv_decide
theorem ld2 (b : BitVec 128) : b.extractLsb' 56 8 ++ b.extractLsb' 48 8 ++ b.extractLsb' 40 8 ++ b.extractLsb' 32 8 = b.extractLsb' 32 32 := by bv_decide
theorem ld3 (b : BitVec 128) : b.extractLsb' 24 8 ++ b.extractLsb' 16 8 ++ b.extractLsb' 8 8 ++ b.extractLsb' 0 8 = b.extractLsb' 0 32 := by bv_decide

theorem getD_lit (l : List (BitVec 32)) (i : Nat) (d : BitVec 32) : l.toArray.getD i d = l.getD i d := by
  simp [Array.getD_eq_getD_getElem?, List.getD_eq_getElem?_getD]

theorem range8 : List.range' 0 8 = [0,1,2,3,4,5,6,7] := by decide

theorem fk0 : FK.getD 0 0 = 0xa3b1bac6#32 := by decide
theorem fk1 : FK.getD 1 0 = 0x56aa3350#32 := by decide
theorem fk2 : FK.getD 2 0 = 0x677d9197#32 := by decide
theorem fk3 : FK.getD 3 0 = 0xb27022dc#32 := by decide
theorem ck0 : CK.getD 0 0 = 0x70e15#32 := by decide
theorem ck1 : CK.getD 1 0 = 0x1c232a31#32 := by decide
theorem ck2 : CK.getD 2 0 = 0x383f464d#32 := by decide
theorem ck3 : CK.getD 3 0 = 0x545b6269#32 := by decide
theorem ck4 : CK.getD 4 0 = 0x70777e85#32 := by decide
theorem ck5 : CK.getD 5 0 = 0x8c939aa1#32 := by decide
theorem ck6 : CK.getD 6 0 = 0xa8afb6bd#32 := by decide
theorem ck7 : CK.getD 7 0 = 0xc4cbd2d9#32 := by decide
theorem ck8 : CK.getD 8 0 = 0xe0e7eef5#32 := by decide
theorem ck9 : CK.getD 9 0 = 0xfc030a11#32 := by decide
theorem ck10 : CK.getD 10 0 = 0x181f262d#32 := by decide
theorem ck11 : CK.getD 11 0 = 0x343b4249#32 := by decide
theorem ck12 : CK.getD 12 0 = 0x50575e65#32 := by decide
theorem ck13 : CK.getD 13 0 = 0x6c737a81#32 := by decide
theorem ck14 : CK.getD 14 0 = 0x888f969d#32 := by decide
theorem ck15 : CK.getD 15 0 = 0xa4abb2b9#32 := by decide
theorem ck16 : CK.getD 16 0 = 0xc0c7ced5#32 := by decide
theorem ck17 : CK.getD 17 0 = 0xdce3eaf1#32 := by decide
theorem ck18 : CK.getD 18 0 = 0xf8ff060d#32 := by decide
theorem ck19 : CK.getD 19 0 = 0x141b2229#32 := by decide
theorem ck20 : CK.getD 20 0 = 0x30373e45#32 := by decide
theorem ck21 : CK.getD 21 0 = 0x4c535a61#32 := by decide
theorem ck22 : CK.getD 22 0 = 0x686f767d#32 := by decide
theorem ck23 : CK.getD 23 0 = 0x848b9299#32 := by decide
theorem ck24 : CK.getD 24 0 = 0xa0a7aeb5#32 := by decide
theorem ck25 : CK.getD 25 0 = 0xbcc3cad1#32 := by decide
theorem ck26 : CK.getD 26 0 = 0xd8dfe6ed#32 := by decide
theorem ck27 : CK.getD 27 0 = 0xf4fb0209#32 := by decide
theorem ck28 : CK.getD 28 0 = 0x10171e25#32 := by decide
theorem ck29 : CK.getD 29 0 = 0x2c333a41#32 := by decide
theorem ck30 : CK.getD 30 0 = 0x484f565d#32 := by decide
theorem ck31 : CK.getD 31 0 = 0x646b7279#32 := by decide
theorem rk_init : Array.replicate 32 (0#32) = #[0#32, 0#32, 0#32, 0#32, 0#32, 0#32, 0#32, 0#32, 0#32, 0#32, 0#32, 0#32, 0#32, 0#32, 0#32, 0#32, 0#32, 0#32, 0#32, 0#32, 0#32, 0#32, 0#32, 0#32, 0#32, 0#32, 0#32, 0#32, 0#32, 0#32, 0#32, 0#32] := by decide

/-- `Sm4::new` regenerated from the Rust = the 32 round keys `rk[0..32]` of the model's `new` -/
theorem sm4_new_eq (key : BitVec 128) :
    sm4_new key = ((new key).get 0, (new key).get 1, (new key).get 2, (new key).get 3, (new key).get 4, (new key).get 5, (new key).get 6, (new key).get 7, (new key).get 8, (new key).get 9, (new key).get 10, (new key).get 11, (new key).get 12, (new key).get 13, (new key).get 14, (new key).get 15, (new key).get 16, (new key).get 17, (new key).get 18, (new key).get 19, (new key).get 20, (new key).get 21, (new key).get 22, (new key).get 23, (new key).get 24, (new key).get 25, (new key).get 26, (new key).get 27, (new key).get 28, (new key).get 29, (new key).get 30, (new key).get 31) := by
  simp only [sm4_new, sbox_at, ld0, ld1, ld2, ld3,
    new, Sm4.get, forRange, range8, List.foldl_cons, List.foldl_nil, ksIter, ksStep, t_prime, el_prime, tau,
    Nat.reduceMul, Nat.reduceAdd, fk0, fk1, fk2, fk3, ck0, ck1, ck2, ck3, ck4, ck5, ck6, ck7, ck8, ck9, ck10, ck11, ck12, ck13, ck14, ck15, ck16, ck17, ck18, ck19, ck20, ck21, ck22, ck23, ck24, ck25, ck26, ck27, ck28, ck29, ck30, ck31, rk_init,
    List.setIfInBounds_toArray, List.set_cons_zero, List.set_cons_succ, getD_lit,
    List.getD_cons_zero, List.getD_cons_succ]

/-! ### array form: the model's round-key array is the list of components of the generated tuple -/

theorem arr_eta {α : Type} (a : Array α) (d : α) (n : Nat) (h : a.size = n) :
    a = ((List.range n).map (fun i => a.getD i d)).toArray := by
  apply Array.ext
  · simp [h]
  · intro i h1 h2
    simp [Array.getD_eq_getD_getElem?, h1]

/-- the components of a generated 32-tuple as a list -/
def list32 : BitVec 32 × BitVec 32 × BitVec 32 × BitVec 32 × BitVec 32 × BitVec 32 × BitVec 32 × BitVec 32 × BitVec 32 × BitVec 32 × BitVec 32 × BitVec 32 × BitVec 32 × BitVec 32 × BitVec 32 × BitVec 32 × BitVec 32 × BitVec 32 × BitVec 32 × BitVec 32 × BitVec 32 × BitVec 32 × BitVec 32 × BitVec 32 × BitVec 32 × BitVec 32 × BitVec 32 × BitVec 32 × BitVec 32 × BitVec 32 × BitVec 32 × BitVec 32 → List (BitVec 32)
  | (a0, a1, a2, a3, a4, a5, a6, a7, a8, a9, a10, a11, a12, a13, a14, a15, a16, a17, a18, a19, a20, a21, a22, a23, a24, a25, a26, a27, a28, a29, a30, a31) => [a0, a1, a2, a3, a4, a5, a6, a7, a8, a9, a10, a11, a12, a13, a14, a15, a16, a17, a18, a19, a20, a21, a22, a23, a24, a25, a26, a27, a28, a29, a30, a31]

theorem new_rk_size (key : BitVec 128) : (new key).rk.size = 32 := by
  simp only [new, forRange, range8, List.foldl_cons, List.foldl_nil, ksIter, Array.size_setIfInBounds,
    Array.size_replicate]

/-- `rk` of the model = the array of the 32 words returned by the regenerated `Sm4::new` -/
theorem new_rk_eq (key : BitVec 128) : (new key).rk = (list32 (sm4_new key)).toArray := by
  rw [sm4_new_eq]
  simp only [list32]
  have h := arr_eta (new key).rk 0#32 32 (new_rk_size key)
  simpa [List.range, List.range.loop, Sm4.get] using h

theorem mk_eta (c : Sm4) : c = ⟨c.rk⟩ := by cases c; rfl

/-- `Sm4 { rk }` of the model = the cipher object built from the regenerated `Sm4::new` -/
theorem new_eq (key : BitVec 128) : new key = ⟨(list32 (sm4_new key)).toArray⟩ :=
  (mk_eta (new key)).trans (congrArg Sm4.mk (new_rk_eq key))

end BC.GenKeys.Sm4
