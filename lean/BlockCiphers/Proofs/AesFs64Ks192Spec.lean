import BlockCiphers.Proofs.AesFs64Ks192Lin
import BlockCiphers.Proofs.AesFs64KsSpec
/-!
FIPS-197 KeyExpansion for Nk = 6 regrouped the way `aes192_key_schedule` walks through it: one loop
iteration `j` (0..3) produces round keys `3j+1, 3j+2, 3j+3` from round key `3j` and the two words
`(W6 key (12j+4)), (W6 key (12j+5))` kept in `tmp` (Spec-level; `sboxT` stays uninterpreted).
-/
namespace BC.AesFs64
open BC.Spec.Aes
set_option linter.unusedSimpArgs false

/-- word `i` of the expanded 192-bit key -/
def W6 (key : List (BitVec 32)) (i : Nat) : BitVec 32 := (kxA 6 key 46).getD i 0

theorem kx_rec6 (key : List (BitVec 32)) (hk : key.length = 6) (i : Nat) (h1 : 6 ≤ i) (h2 : i < 52) :
    W6 key i = (W6 key (i - 6)) ^^^ kxTemp 6 i ((W6 key (i - 1))) := by
  have := kxA_getD_rec key i 46 (by omega) (by omega) (by omega)
  rw [hk] at this; exact this

theorem linA_words (a b c d p0 p1 p2 p3 : BitVec 32) :
    linA (a ++ b ++ c ++ d) (p0 ++ p1 ++ p2 ++ p3) = c ++ d ++ p0 ++ p1 := by
  simp only [linA, pack4]; bv_decide (config := { timeout := 600 })

theorem linB_words (rc x0 x1 x2 x3 : BitVec 32) (Y : BitVec 128) :
    linB rc (x0 ++ x1 ++ x2 ++ x3) Y =
      x0 ++ x1 ++ (x2 ^^^ ((Y.extractLsb' 0 32).rotateLeft 8 ^^^ rc)) ++
        (x3 ^^^ (x2 ^^^ ((Y.extractLsb' 0 32).rotateLeft 8 ^^^ rc))) := by
  simp only [linB, pack4]; bv_decide (config := { timeout := 600 })

theorem linC_words (p0 p1 p2 p3 u0 u1 u2 u3 : BitVec 32) :
    linC (p0 ++ p1 ++ p2 ++ p3) (u0 ++ u1 ++ u2 ++ u3) =
      (p2 ^^^ u3) ++ (p3 ^^^ (p2 ^^^ u3)) ++ (u0 ^^^ (p3 ^^^ (p2 ^^^ u3))) ++ (u1 ^^^ (u0 ^^^ (p3 ^^^ (p2 ^^^ u3)))) := by
  simp only [linC, pack4]; bv_decide (config := { timeout := 600 })

theorem linD_words (rc p0 p1 p2 p3 q0 q1 q2 q3 : BitVec 32) (Y : BitVec 128) (t : BitVec 32)
    (ht : t = (Y.extractLsb' 0 32).rotateLeft 8 ^^^ rc) :
    linD rc (p0 ++ p1 ++ p2 ++ p3) (q0 ++ q1 ++ q2 ++ q3) Y =
      (p2 ^^^ t) ++ (p3 ^^^ (p2 ^^^ t)) ++ (q0 ^^^ (p3 ^^^ (p2 ^^^ t))) ++ (q1 ^^^ (q0 ^^^ (p3 ^^^ (p2 ^^^ t)))) := by
  subst ht; simp only [linD, pack4]; bv_decide (config := { timeout := 600 })

theorem linE_words (u0 u1 u2 u3 t0 t1 t2 t3 : BitVec 32) :
    linE (u0 ++ u1 ++ u2 ++ u3) (t0 ++ t1 ++ t2 ++ t3) = t0 ++ t1 ++ (t2 ^^^ u3) ++ (t3 ^^^ (t2 ^^^ u3)) := by
  simp only [linE, pack4]; bv_decide (config := { timeout := 600 })

section
variable (key : List (BitVec 32)) (hk : key.length = 6) (j : Nat)


include hk in
/-- the twelve FIPS word equations of loop iteration `j` -/
theorem kx192_words (hj : j < 4) :
    (W6 key (12 * j + 6)) = (W6 key (12 * j)) ^^^ (subWord (rotWord (W6 key (12 * j + 5))) ^^^ rcon (2 * j + 1)) ∧
    (W6 key (12 * j + 7)) = (W6 key (12 * j + 1)) ^^^ (W6 key (12 * j + 6)) ∧
    (W6 key (12 * j + 8)) = (W6 key (12 * j + 2)) ^^^ (W6 key (12 * j + 7)) ∧
    (W6 key (12 * j + 9)) = (W6 key (12 * j + 3)) ^^^ (W6 key (12 * j + 8)) ∧
    (W6 key (12 * j + 10)) = (W6 key (12 * j + 4)) ^^^ (W6 key (12 * j + 9)) ∧
    (W6 key (12 * j + 11)) = (W6 key (12 * j + 5)) ^^^ (W6 key (12 * j + 10)) ∧
    (W6 key (12 * j + 12)) = (W6 key (12 * j + 6)) ^^^ (subWord (rotWord (W6 key (12 * j + 11))) ^^^ rcon (2 * j + 2)) ∧
    (W6 key (12 * j + 13)) = (W6 key (12 * j + 7)) ^^^ (W6 key (12 * j + 12)) ∧
    (W6 key (12 * j + 14)) = (W6 key (12 * j + 8)) ^^^ (W6 key (12 * j + 13)) ∧
    (W6 key (12 * j + 15)) = (W6 key (12 * j + 9)) ^^^ (W6 key (12 * j + 14)) := by
  have g6 := kx_rec6 key hk (12 * j + 6) (by omega) (by omega)
  have g7 := kx_rec6 key hk (12 * j + 7) (by omega) (by omega)
  have g8 := kx_rec6 key hk (12 * j + 8) (by omega) (by omega)
  have g9 := kx_rec6 key hk (12 * j + 9) (by omega) (by omega)
  have g10 := kx_rec6 key hk (12 * j + 10) (by omega) (by omega)
  have g11 := kx_rec6 key hk (12 * j + 11) (by omega) (by omega)
  have g12 := kx_rec6 key hk (12 * j + 12) (by omega) (by omega)
  have g13 := kx_rec6 key hk (12 * j + 13) (by omega) (by omega)
  have g14 := kx_rec6 key hk (12 * j + 14) (by omega) (by omega)
  have g15 := kx_rec6 key hk (12 * j + 15) (by omega) (by omega)
  have m6 : (12 * j + 6) % 6 = 0 := by omega
  have m7 : (12 * j + 7) % 6 = 1 := by omega
  have m8 : (12 * j + 8) % 6 = 2 := by omega
  have m9 : (12 * j + 9) % 6 = 3 := by omega
  have m10 : (12 * j + 10) % 6 = 4 := by omega
  have m11 : (12 * j + 11) % 6 = 5 := by omega
  have m12 : (12 * j + 12) % 6 = 0 := by omega
  have m13 : (12 * j + 13) % 6 = 1 := by omega
  have m14 : (12 * j + 14) % 6 = 2 := by omega
  have m15 : (12 * j + 15) % 6 = 3 := by omega
  have d6 : (12 * j + 6) / 6 = 2 * j + 1 := by omega
  have d12 : (12 * j + 12) / 6 = 2 * j + 2 := by omega
  have e12 : 12 * j + 12 - 6 = 12 * j + 6 := by omega
  have e13 : 12 * j + 13 - 6 = 12 * j + 7 := by omega
  have e14 : 12 * j + 14 - 6 = 12 * j + 8 := by omega
  have e15 : 12 * j + 15 - 6 = 12 * j + 9 := by omega
  have f12 : 12 * j + 12 - 1 = 12 * j + 11 := by omega
  have f13 : 12 * j + 13 - 1 = 12 * j + 12 := by omega
  have f14 : 12 * j + 14 - 1 = 12 * j + 13 := by omega
  have f15 : 12 * j + 15 - 1 = 12 * j + 14 := by omega
  simp only [kxTemp, m6, m7, m8, m9, m10, m11, m12, m13, m14, m15, d6, d12, e12, e13, e14, e15, f12, f13, f14, f15,
    if_true, if_false, Nat.reduceEqDiff, Nat.reduceGT, Nat.lt_irrefl, false_and, reduceCtorEq,
    Nat.add_sub_cancel, Nat.reduceSub, Nat.reduceAdd, Nat.add_one_sub_one, Nat.reduceSubDiff] at g6 g7 g8 g9 g10 g11 g12 g13 g14 g15
  exact ⟨g6, g7, g8, g9, g10, g11, g12, g13, g14, g15⟩

include hk in
theorem kx192_words_E (hj : j < 3) :
    (W6 key (12 * j + 16)) = (W6 key (12 * j + 10)) ^^^ (W6 key (12 * j + 15)) ∧
    (W6 key (12 * j + 17)) = (W6 key (12 * j + 11)) ^^^ (W6 key (12 * j + 16)) := by
  have g16 := kx_rec6 key hk (12 * j + 16) (by omega) (by omega)
  have g17 := kx_rec6 key hk (12 * j + 17) (by omega) (by omega)
  have m16 : (12 * j + 16) % 6 = 4 := by omega
  have m17 : (12 * j + 17) % 6 = 5 := by omega
  simp only [kxTemp, m16, m17, if_true, if_false, Nat.reduceEqDiff, Nat.reduceGT, Nat.lt_irrefl, false_and, reduceCtorEq,
    Nat.reduceSub, Nat.reduceAdd, Nat.add_one_sub_one, Nat.reduceSubDiff] at g16 g17
  exact ⟨g16, g17⟩

end


theorem roundKey_W6 (key : List (BitVec 32)) (r : Nat) :
    roundKey (kxA 6 key 46) r = W6 key (4 * r) ++ W6 key (4 * r + 1) ++ W6 key (4 * r + 2) ++ W6 key (4 * r + 3) := rfl

/-- one loop iteration of `aes192_key_schedule` at the level of 128-bit values -/
theorem iter192_spec (key : List (BitVec 32)) (hk : key.length = 6) (j : Nat) (hj : j < 4) (a b : BitVec 32) :
    linB (rcon (2 * j + 1)) (linA (a ++ b ++ W6 key (12 * j + 4) ++ W6 key (12 * j + 5)) (roundKey (kxA 6 key 46) (3 * j)))
        (subBytes (a ++ b ++ W6 key (12 * j + 4) ++ W6 key (12 * j + 5))) = roundKey (kxA 6 key 46) (3 * j + 1) ∧
    linC (roundKey (kxA 6 key 46) (3 * j)) (roundKey (kxA 6 key 46) (3 * j + 1)) = roundKey (kxA 6 key 46) (3 * j + 2) ∧
    linD (rcon (2 * j + 2)) (roundKey (kxA 6 key 46) (3 * j + 1)) (roundKey (kxA 6 key 46) (3 * j + 2))
        (subBytes (roundKey (kxA 6 key 46) (3 * j + 2))) = roundKey (kxA 6 key 46) (3 * j + 3) ∧
    (j < 3 → linE (roundKey (kxA 6 key 46) (3 * j + 3)) (roundKey (kxA 6 key 46) (3 * j + 2)) =
      W6 key (12 * j + 8) ++ W6 key (12 * j + 9) ++ W6 key (12 * j + 16) ++ W6 key (12 * j + 17)) := by
  obtain ⟨g6, g7, g8, g9, g10, g11, g12, g13, g14, g15⟩ := kx192_words key hk j hj
  have i0 : 4 * (3 * j) = 12 * j := by omega
  have i1 : 4 * (3 * j + 1) = 12 * j + 4 := by omega
  have i2 : 4 * (3 * j + 2) = 12 * j + 8 := by omega
  have i3 : 4 * (3 * j + 3) = 12 * j + 12 := by omega
  simp only [roundKey_W6, i0, i1, i2, i3, Nat.add_assoc, Nat.reduceAdd]
  have hs1 : (subBytes (a ++ b ++ W6 key (12 * j + 4) ++ W6 key (12 * j + 5))).extractLsb' 0 32 = subWord (W6 key (12 * j + 5)) := by
    rw [← subWord_last, last_word]
  have hs2 : (subBytes (W6 key (12 * j + 8) ++ W6 key (12 * j + 9) ++ W6 key (12 * j + 10) ++ W6 key (12 * j + 11))).extractLsb' 0 32 =
      subWord (W6 key (12 * j + 11)) := by
    rw [← subWord_last, last_word]
  refine ⟨?_, ?_, ?_, ?_⟩
  · rw [linA_words, linB_words, hs1, g7, g6, subWord_rotWord]
  · rw [linC_words, g11, g10, g9, g8]
  · rw [linD_words _ _ _ _ _ _ _ _ _ _ _ rfl, hs2, g15, g14, g13, g12, subWord_rotWord]
  · intro hj3
    obtain ⟨g16, g17⟩ := kx192_words_E key hk j hj3
    rw [linE_words, g17, g16]

end BC.AesFs64
