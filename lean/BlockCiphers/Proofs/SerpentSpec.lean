import BlockCiphers.Proofs.SerpentSpecSbox
import BlockCiphers.Proofs.Serpent
/-
Serpent conformance, part 2 (C08): the implementation (`Impl/Serpent.lean`, mirror of the Rust) computes
bitslice-mode Serpent of the AES submission (`Spec/Serpent.lean`) for EVERY key of 16..32 bytes:

* `expandKey_eq_padKey`  : `expand_key` = "append one 1 bit, then zeros" for all 17 lengths;
* `prekeys_eq`           : the 140-word array filled by the `for i in 0..132` loop = `w_{-8..131}`;
* `keySbox_eq`, `roundKey_spec`, `keySchedule_spec` : round key `i` = `S_{(3-i) mod 8}(w_{4i..4i+3})`;
* `encrypt_eq_spec`, `decrypt_eq_spec` : `Impl = Spec` on 128-bit blocks.
-/
namespace BC.Serpent
open BC.Spec.Serpent

/-! ### list helpers -/
theorem getD_append_add {α : Type} (pre l : List α) (k : Nat) (d : α) :
    (pre ++ l).getD (pre.length + k) d = l.getD k d := by
  simp [List.getD_eq_getElem?_getD, List.getElem?_append_right]

theorem set_append_add {α : Type} (pre l : List α) (k : Nat) (a : α) :
    (pre ++ l).set (pre.length + k) a = pre ++ l.set k a := by
  rw [List.set_append_right _ _ (Nat.le_add_right _ _)]; simp

/-! ### key padding, all 17 lengths -/

theorem expandKey_eq_padKey (key : Bytes) (h1 : 16 ≤ key.length) (h2 : key.length ≤ 32) :
    expandKey key (key.length * 8) = padKey key := by
  unfold expandKey padKey
  by_cases h : key.length = 32
  · have hn : ¬ (key.length * 8 < 256) := by omega
    rw [List.take_append_of_le_length (by omega), List.take_of_length_le (by omega), if_neg hn, h]
    simp
  · obtain ⟨m, hm⟩ : ∃ m, 32 - key.length = m + 1 := ⟨31 - key.length, by omega⟩
    have hlt : key.length * 8 < 256 := by omega
    have hd : key.length * 8 / 8 = key.length + 0 := by omega
    have hr : key.length * 8 % 8 = 0 := by omega
    have ht := List.take_length_add_append (l₁ := key) (l₂ := 0x01#8 :: List.replicate 32 0x00#8) (m + 1)
    have e : key.length + (m + 1) = 32 := by omega
    rw [e] at ht
    rw [ht, if_pos hlt, hm, hd, hr, List.replicate_succ]
    show List.set _ _ _ = _
    rw [getD_append_add, set_append_add, List.take_succ_cons, List.take_replicate]
    have hmin : min m 32 = m := by omega
    simp [hmin]


/-- explicit form of the padding: the key, one byte `0x01`, then zero bytes up to 32 bytes -/
theorem padKey_short (key : Bytes) (h : key.length < 32) :
    padKey key = key ++ 0x01#8 :: List.replicate (31 - key.length) 0x00#8 := by
  unfold padKey
  have ht := List.take_length_add_append (l₁ := key) (l₂ := 0x01#8 :: List.replicate 32 0x00#8)
    (31 - key.length + 1)
  have e : key.length + (31 - key.length + 1) = 32 := by omega
  rw [e] at ht
  rw [ht, List.take_succ_cons, List.take_replicate]
  have hmin : min (31 - key.length) 32 = 31 - key.length := by omega
  rw [hmin]

theorem padKey_full (key : Bytes) (h : key.length = 32) : padKey key = key := by
  unfold padKey
  rw [List.take_append_of_le_length (by omega), List.take_of_length_le (by omega)]

/-- `expand_key` for the 16 short lengths 16..31: `key ++ [0x01] ++ zeros` -/
theorem expandKey_short (key : Bytes) (h1 : 16 ≤ key.length) (h2 : key.length < 32) :
    expandKey key (key.length * 8) = key ++ 0x01#8 :: List.replicate (31 - key.length) 0x00#8 := by
  rw [expandKey_eq_padKey key h1 (by omega), padKey_short key h2]

/-- `expand_key` for a 256-bit key: unchanged -/
theorem expandKey_full (key : Bytes) (h : key.length = 32) : expandKey key (key.length * 8) = key := by
  rw [expandKey_eq_padKey key (by omega) (by omega), padKey_full key h]

/-! ### prekeys -/

theorem leWord_eq (key : Bytes) (i : Nat) : leWord key i = leWordAt key i := by
  unfold leWord leWordAt le32
  generalize key.getD (4 * i) 0#8 = b0
  generalize key.getD (4 * i + 1) 0#8 = b1
  generalize key.getD (4 * i + 2) 0#8 = b2
  generalize key.getD (4 * i + 3) 0#8 = b3
  bv_decide (config := { timeout := 600 })

def winList (w : Win) : List (BitVec 32) := [w.m8, w.m7, w.m6, w.m5, w.m4, w.m3, w.m2, w.m1]

theorem prekeys_inv (n : Nat) : ∀ (i : Nat) (pre : List (BitVec 32)) (win : Win), pre.length = i →
    (List.range' i n).foldl prekeyStep (pre ++ (winList win ++ List.replicate n 0#32)) =
      pre ++ (winList win ++ prekeysFrom n i win) := by
  induction n with
  | zero => intro i pre win _; simp [prekeysFrom]
  | succ n ih =>
    intro i pre win hpre
    subst hpre
    rw [List.range'_succ, List.foldl_cons]
    have hstep : prekeyStep (pre ++ (winList win ++ List.replicate (n + 1) 0#32)) pre.length =
        (pre ++ [win.m8]) ++ ((winList (Win.mk win.m7 win.m6 win.m5 win.m4 win.m3 win.m2 win.m1
          (nextW win pre.length))) ++ List.replicate n 0#32) := by
      unfold prekeyStep
      show List.set _ _ _ = _
      have e8 : pre.length + 8 - 8 = pre.length + 0 := by omega
      have e5 : pre.length + 8 - 5 = pre.length + 3 := by omega
      have e3 : pre.length + 8 - 3 = pre.length + 5 := by omega
      have e1 : pre.length + 8 - 1 = pre.length + 7 := by omega
      rw [e8, e5, e3, e1, getD_append_add, getD_append_add, getD_append_add, getD_append_add,
        set_append_add]
      simp [winList, List.replicate_succ, nextW, phi, PHI]
    rw [hstep, ih (pre.length + 1) (pre ++ [win.m8]) _ (by simp)]
    simp [prekeysFrom, winList]


theorem prekeys_eq (k : Bytes) :
    Serpent.prekeys k = (List.range 8).map (leWordAt k) ++ Spec.Serpent.prekeys k := by
  unfold Serpent.prekeys Spec.Serpent.prekeys initWords
  rw [List.range_eq_range']
  have h := prekeys_inv 132 0 [] ⟨leWordAt k 0, leWordAt k 1, leWordAt k 2, leWordAt k 3,
    leWordAt k 4, leWordAt k 5, leWordAt k 6, leWordAt k 7⟩ rfl
  have e : List.map (leWord k) (List.range' 0 8) = winList ⟨leWordAt k 0, leWordAt k 1, leWordAt k 2,
      leWordAt k 3, leWordAt k 4, leWordAt k 5, leWordAt k 6, leWordAt k 7⟩ := by
    simp [winList, List.range', leWord_eq]
  have e' : List.map (leWordAt k) (List.range' 0 8) = winList ⟨leWordAt k 0, leWordAt k 1, leWordAt k 2,
      leWordAt k 3, leWordAt k 4, leWordAt k 5, leWordAt k 6, leWordAt k 7⟩ := by
    simp [winList, List.range']
  rw [e, e']
  exact h

/-! ### S-box selection -/

theorem S_congr (a b : Nat) (h : a % 8 = b % 8) : S a = S b := by unfold S; rw [h]
theorem SInv_congr (a b : Nat) (h : a % 8 = b % 8) : SInv a = SInv b := by unfold SInv; rw [h]

theorem applyS_spec (i : Nat) (w : Words) : toX (applyS i w) = sliceS (S i) (toX w) := by
  have h : i % 8 < 8 := Nat.mod_lt _ (by decide)
  unfold applyS S
  generalize i % 8 = j at h
  match j, h with
  | 0, _ => exact sboxE0_spec w
  | 1, _ => exact sboxE1_spec w
  | 2, _ => exact sboxE2_spec w
  | 3, _ => exact sboxE3_spec w
  | 4, _ => exact sboxE4_spec w
  | 5, _ => exact sboxE5_spec w
  | 6, _ => exact sboxE6_spec w
  | 7, _ => exact sboxE7_spec w
  | n + 8, h => omega

theorem applySInv_spec (i : Nat) (w : Words) : toX (applySInv i w) = sliceS (SInv i) (toX w) := by
  have h : i % 8 < 8 := Nat.mod_lt _ (by decide)
  unfold applySInv SInv
  generalize i % 8 = j at h
  match j, h with
  | 0, _ => exact sboxD0_spec w
  | 1, _ => exact sboxD1_spec w
  | 2, _ => exact sboxD2_spec w
  | 3, _ => exact sboxD3_spec w
  | 4, _ => exact sboxD4_spec w
  | 5, _ => exact sboxD5_spec w
  | 6, _ => exact sboxD6_spec w
  | 7, _ => exact sboxD7_spec w
  | n + 8, h => omega

/-- `(ROUNDS + 3 - i) % ROUNDS` followed by `% 8` in `apply_s` selects `S_{(3-i) mod 8}` -/
theorem keySbox_eq (i : Nat) (hi : i ≤ 32) : ((ROUNDS + 3 - i) % ROUNDS) % 8 = keySbox i % 8 := by
  unfold ROUNDS keySbox; omega

theorem keySbox_table : (List.range 33).map keySbox =
    [3,2,1,0,7,6,5,4, 3,2,1,0,7,6,5,4, 3,2,1,0,7,6,5,4, 3,2,1,0,7,6,5,4, 3] := by decide

/-! ### round keys -/

theorem getD_append_len {α : Type} (pre l : List α) (n k : Nat) (d : α) (h : pre.length = n) :
    (pre ++ l).getD (n + k) d = l.getD k d := by subst h; exact getD_append_add pre l k d

theorem roundKey_spec (k : Bytes) (i : Nat) (hi : i ≤ 32) :
    toX (roundKey (Serpent.prekeys k) i) = subkey (Spec.Serpent.prekeys k) i := by
  unfold roundKey subkey
  rw [applyS_spec, S_congr _ _ (keySbox_eq i hi), prekeys_eq]
  have hl : ((List.range 8).map (leWordAt k)).length = 8 := by simp
  have a1 : 8 + 4 * i + 1 = 8 + (4 * i + 1) := by omega
  have a2 : 8 + 4 * i + 2 = 8 + (4 * i + 2) := by omega
  have a3 : 8 + 4 * i + 3 = 8 + (4 * i + 3) := by omega
  rw [a1, a2, a3, getD_append_len _ _ 8 _ _ hl, getD_append_len _ _ 8 _ _ hl,
    getD_append_len _ _ 8 _ _ hl, getD_append_len _ _ 8 _ _ hl]
  rfl

theorem keySchedule_get (key : Bytes) (i : Nat) (hi : i ≤ 32) :
    (keySchedule key).get i = roundKey (Serpent.prekeys (expandKey key (key.length * 8))) i := by
  unfold keySchedule RoundKeys.get ROUNDS
  simp [Array.getD_eq_getD_getElem?, show i < 33 by omega]

theorem keySchedule_spec (key : Bytes) (h1 : 16 ≤ key.length) (h2 : key.length ≤ 32) (i : Nat) (hi : i ≤ 32) :
    toX ((keySchedule key).get i) = K (subkeys key) i := by
  rw [keySchedule_get key i hi, expandKey_eq_padKey key h1 h2, roundKey_spec _ i hi]
  unfold K subkeys
  simp [List.getD_eq_getElem?_getD, show i < 33 by omega]


/-! ### rounds -/

theorem toX_xor (a b : Words) : toX (xor a b) = (toX a).xor (toX b) := rfl

theorem toX_linearTransform (w : Words) : toX (linearTransform w) = Lin (toX w) := by
  simp only [toX, linearTransform, Lin, BitVec.xor_assoc]

theorem toX_linearTransformInv (w : Words) : toX (linearTransformInv w) = LinInv (toX w) := by
  simp only [toX, linearTransformInv, LinInv, BitVec.xor_assoc]

/-- a map `φ` that commutes with the loop bodies for the indices `< n` commutes with the loops -/
theorem foldl_range_hom {α β : Type} (φ : α → β) (f : α → Nat → α) (g : β → Nat → β) (n : Nat)
    (h : ∀ i, i < n → ∀ a, φ (f a i) = g (φ a) i) (a : α) :
    φ ((List.range n).foldl f a) = (List.range n).foldl g (φ a) := by
  induction n with
  | zero => rfl
  | succ n ih =>
    rw [foldl_range_last, foldl_range_last, h n (Nat.lt_succ_self n),
      ih (fun i hi => h i (Nat.lt_succ_of_lt hi))]

/-- `rk` and `ks` are the same 33 subkeys -/
def SameKeys (rk : RoundKeys) (ks : List X) : Prop := ∀ i, i ≤ 32 → toX (rk.get i) = K ks i

theorem encBody_spec (rk : RoundKeys) (ks : List X) (hk : SameKeys rk ks) (i : Nat) (hi : i < 31) (b : Words) :
    toX (encBody rk b i) = round ks (toX b) i := by
  unfold encBody round
  rw [if_pos hi, toX_linearTransform, applyS_spec, toX_xor, hk i (by omega)]

theorem encryptWords_spec (rk : RoundKeys) (ks : List X) (hk : SameKeys rk ks) (b : Words) :
    toX (encryptWordsWith loop31 rk b) = encryptX ks (toX b) := by
  unfold encryptWordsWith encryptX loop31
  rw [foldl_range_last (round ks) 31]
  rw [← foldl_range_hom toX (encBody rk) (round ks) 31 (fun i hi a => encBody_spec rk ks hk i hi a)]
  simp only [round, ROUNDS, Nat.lt_irrefl, if_false, toX_xor, applyS_spec, hk 31 (by omega), hk 32 (by omega)]

theorem decBody_spec (rk : RoundKeys) (ks : List X) (hk : SameKeys rk ks) (j : Nat) (hj : j < 31) (b : Words) :
    toX (decBody rk b j) = roundInv ks (toX b) (31 - (j + 1)) := by
  unfold decBody roundInv
  have e : 31 - (j + 1) = 30 - j := by omega
  rw [e, if_pos (by omega), toX_xor, applySInv_spec, toX_linearTransformInv, hk (30 - j) (by omega)]

theorem decryptWords_spec (rk : RoundKeys) (ks : List X) (hk : SameKeys rk ks) (b : Words) :
    toX (decryptWordsWith loop31 rk b) = decryptX ks (toX b) := by
  unfold decryptWordsWith decryptX loop31
  rw [foldl_range_first (fun b j => roundInv ks b (31 - j)) 31]
  rw [foldl_range_hom toX (decBody rk) (fun b j => roundInv ks b (31 - (j + 1))) 31
    (fun i hi a => decBody_spec rk ks hk i hi a)]
  simp only [roundInv, ROUNDS, Nat.lt_irrefl, if_false, toX_xor, applySInv_spec, hk 31 (by omega),
    hk 32 (by omega), Nat.sub_zero]

/-! ### block ↔ words -/

theorem readWords_spec (blk : BitVec 128) : toX (readWords blk) = xOfBlock blk := by
  simp only [toX, readWords, xOfBlock, bswap32, le32, byteAt, X.mk.injEq]
  bv_decide (config := { timeout := 600 })

theorem writeWords_spec (w : Words) : writeWords w = blockOfX (toX w) := by
  simp only [toX, writeWords, blockOfX, bswap32, byteLE]
  bv_decide (config := { timeout := 600 })

/-! ### Impl = Spec -/

/-- Serpent as implemented = bitslice-mode Serpent of the submission, for every key of 16..32 bytes -/
theorem encrypt_eq_spec (key : Bytes) (h1 : 16 ≤ key.length) (h2 : key.length ≤ 32) (blk : BitVec 128) :
    Serpent.encrypt (keySchedule key) blk = Spec.Serpent.encrypt key blk := by
  rw [encrypt_eq_encryptLoop]
  unfold encryptLoop Spec.Serpent.encrypt
  rw [writeWords_spec, encryptWords_spec _ _ (keySchedule_spec key h1 h2), readWords_spec]

theorem decrypt_eq_spec (key : Bytes) (h1 : 16 ≤ key.length) (h2 : key.length ≤ 32) (blk : BitVec 128) :
    Serpent.decrypt (keySchedule key) blk = Spec.Serpent.decrypt key blk := by
  rw [decrypt_eq_decryptLoop]
  unfold decryptLoop Spec.Serpent.decrypt
  rw [writeWords_spec, decryptWords_spec _ _ (keySchedule_spec key h1 h2), readWords_spec]

/-- consequently the submission's decryption inverts its encryption -/
theorem spec_decrypt_encrypt (key : Bytes) (h1 : 16 ≤ key.length) (h2 : key.length ≤ 32) (blk : BitVec 128) :
    Spec.Serpent.decrypt key (Spec.Serpent.encrypt key blk) = blk := by
  rw [← encrypt_eq_spec key h1 h2, ← decrypt_eq_spec key h1 h2, Serpent.decrypt_encrypt]

/-! ### C20 side conditions -/

/-- `key[byte_i]` and `1 << bit_i` in `expand_key` are in range whenever they are executed -/
theorem expandKey_byte_index_lt (lenBits : Nat) (h : lenBits < 256) : lenBits / 8 < 32 ∧ lenBits % 8 < 8 := by
  omega

/-- `round_keys` has `ROUNDS + 1 = 33` entries -/
theorem keySchedule_size (key : Bytes) : (keySchedule key).size = 33 := by
  simp [keySchedule, ROUNDS]

/-- the guard of `new_from_slice` -/
theorem accepts_iff (n : Nat) : accepts n = true ↔ 16 ≤ n ∧ n ≤ 32 := by
  simp [accepts]

end BC.Serpent
