import BlockCiphers.Proofs.AesFs64Ks128
import BlockCiphers.Proofs.AesFs64Lanes
/-!
C02 stage (iv) end: evaluation of the array program `aes128_key_schedule[_compact]` and the end-to-end
theorems for AES-128 on the fixslice64 backend:
`aes128_encrypt (key schedule key) batch = batch.map (FIPS-197 Cipher with KeyExpansion(key))`.
-/
namespace BC.AesFs64
open BC.Spec.Aes
set_option linter.unusedSimpArgs false

theorem stepBy_8_72_32 : stepBy 8 72 32 = [8, 40] := by decide
theorem stepBy_8_88_16 : stepBy 8 88 16 = [8, 24, 40, 56, 72] := by decide
theorem range'_1_10 : List.range' 1 10 = [1,2,3,4,5,6,7,8,9,10] := by decide

set_option maxRecDepth 100000 in
/-- the array program writes the chain `ks128S` -/
theorem raw128_eval (key : BitVec 128) :
    (aes128_key_schedule_raw key).size = 11 ∧
    rd (aes128_key_schedule_raw key) 0 = ks128S key 0 ∧
    rd (aes128_key_schedule_raw key) 1 = ks128S key 1 ∧
    rd (aes128_key_schedule_raw key) 2 = ks128S key 2 ∧
    rd (aes128_key_schedule_raw key) 3 = ks128S key 3 ∧
    rd (aes128_key_schedule_raw key) 4 = ks128S key 4 ∧
    rd (aes128_key_schedule_raw key) 5 = ks128S key 5 ∧
    rd (aes128_key_schedule_raw key) 6 = ks128S key 6 ∧
    rd (aes128_key_schedule_raw key) 7 = ks128S key 7 ∧
    rd (aes128_key_schedule_raw key) 8 = ks128S key 8 ∧
    rd (aes128_key_schedule_raw key) 9 = ks128S key 9 ∧
    rd (aes128_key_schedule_raw key) 10 = ks128S key 10 := by
  simp only [aes128_key_schedule_raw, range10, List.foldl, aes128_ks_iter, memshift32, xor_columns,
    Nat.reduceAdd, Nat.reduceSub, Nat.reduceDiv, Nat.reduceLT, if_true, if_false,
    rd_upd_same, rd_upd_ne, rd_wr_same, rd_wr_ne, size_wr, size_upd, Array.size_replicate, ne_eq, Nat.reduceEqDiff,
    not_false_eq_true, not_true_eq_false, ks128S, arc128, true_and, and_self, and_true]

set_option maxRecDepth 100000 in
theorem aes128_key_schedule_eval (key : BitVec 128) :
    rd (aes128_key_schedule key) 0 = bitslice (rk128 key 0) (rk128 key 0) (rk128 key 0) (rk128 key 0) ∧
    rd (aes128_key_schedule key) 1 = sub_bytes_nots (inv_shift_rows_1 (bitslice (rk128 key 1) (rk128 key 1) (rk128 key 1) (rk128 key 1))) ∧
    rd (aes128_key_schedule key) 2 = sub_bytes_nots (inv_shift_rows_2 (bitslice (rk128 key 2) (rk128 key 2) (rk128 key 2) (rk128 key 2))) ∧
    rd (aes128_key_schedule key) 3 = sub_bytes_nots (inv_shift_rows_3 (bitslice (rk128 key 3) (rk128 key 3) (rk128 key 3) (rk128 key 3))) ∧
    rd (aes128_key_schedule key) 4 = sub_bytes_nots (bitslice (rk128 key 4) (rk128 key 4) (rk128 key 4) (rk128 key 4)) ∧
    rd (aes128_key_schedule key) 5 = sub_bytes_nots (inv_shift_rows_1 (bitslice (rk128 key 5) (rk128 key 5) (rk128 key 5) (rk128 key 5))) ∧
    rd (aes128_key_schedule key) 6 = sub_bytes_nots (inv_shift_rows_2 (bitslice (rk128 key 6) (rk128 key 6) (rk128 key 6) (rk128 key 6))) ∧
    rd (aes128_key_schedule key) 7 = sub_bytes_nots (inv_shift_rows_3 (bitslice (rk128 key 7) (rk128 key 7) (rk128 key 7) (rk128 key 7))) ∧
    rd (aes128_key_schedule key) 8 = sub_bytes_nots (bitslice (rk128 key 8) (rk128 key 8) (rk128 key 8) (rk128 key 8)) ∧
    rd (aes128_key_schedule key) 9 = sub_bytes_nots (inv_shift_rows_1 (bitslice (rk128 key 9) (rk128 key 9) (rk128 key 9) (rk128 key 9))) ∧
    rd (aes128_key_schedule key) 10 = sub_bytes_nots (bitslice (rk128 key 10) (rk128 key 10) (rk128 key 10) (rk128 key 10)) := by
  obtain ⟨hs, e0, e1, e2, e3, e4, e5, e6, e7, e8, e9, e10⟩ := raw128_eval key
  have s := fun r (h : r ≤ 10) => ks128S_spec key r h
  simp only [aes128_key_schedule, ks_nots, aes128_ks_adjust, stepBy_8_72_32, range'_1_10, List.foldl,
    Nat.reduceAdd, Nat.reduceSub, Nat.reduceDiv, Nat.reduceMul, Nat.reduceLT,
    rd_upd_same, rd_upd_ne, size_upd, hs, ne_eq, Nat.reduceEqDiff,
    not_false_eq_true, not_true_eq_false, e0, e1, e2, e3, e4, e5, e6, e7, e8, e9, e10]
  simp only [s 0 (by omega), s 1 (by omega), s 2 (by omega), s 3 (by omega), s 4 (by omega), s 5 (by omega),
    s 6 (by omega), s 7 (by omega), s 8 (by omega), s 9 (by omega), s 10 (by omega), and_self]

/-- **key schedule = FIPS-197 KeyExpansion in fixsliced form** (AES-128, normal) -/
theorem aes128_key_schedule_spec (key : BitVec 128) (r : Nat) (hr : r ≤ 10) :
    rkFn (aes128_key_schedule key) r = fsKey 10 r (uniformKeys (rk128 key) r) := by
  obtain ⟨e0, e1, e2, e3, e4, e5, e6, e7, e8, e9, e10⟩ := aes128_key_schedule_eval key
  exact match r, hr with
  | 0, _ => by simp [rkFn, fsKey, fsKeyC, repSt, bitsliceB, uniformKeys, e0]
  | 1, _ => by simp [rkFn, fsKey, fsKeyC, repSt, bitsliceB, uniformKeys, e1]
  | 2, _ => by simp [rkFn, fsKey, fsKeyC, repSt, bitsliceB, uniformKeys, e2]
  | 3, _ => by simp [rkFn, fsKey, fsKeyC, repSt, bitsliceB, uniformKeys, e3]
  | 4, _ => by simp [rkFn, fsKey, fsKeyC, repSt, bitsliceB, uniformKeys, e4]
  | 5, _ => by simp [rkFn, fsKey, fsKeyC, repSt, bitsliceB, uniformKeys, e5]
  | 6, _ => by simp [rkFn, fsKey, fsKeyC, repSt, bitsliceB, uniformKeys, e6]
  | 7, _ => by simp [rkFn, fsKey, fsKeyC, repSt, bitsliceB, uniformKeys, e7]
  | 8, _ => by simp [rkFn, fsKey, fsKeyC, repSt, bitsliceB, uniformKeys, e8]
  | 9, _ => by simp [rkFn, fsKey, fsKeyC, repSt, bitsliceB, uniformKeys, e9]
  | 10, _ => by simp [rkFn, fsKey, fsKeyC, repSt, bitsliceB, uniformKeys, e10]

/-- **C02 end-to-end, AES-128 fixslice64 normal**: for every key and every batch the code computes
FIPS-197 in every lane (and `soft.rs`' single-block call computes it on the block) -/
theorem aes128_conforms (key : BitVec 128) (b : Batch) :
    aes128_encrypt (rkFn (aes128_key_schedule key)) b = b.map (cipherK 10 (rk128 key)) ∧
    aes128_decrypt (rkFn (aes128_key_schedule key)) b = b.map (invCipherK 10 (rk128 key)) ∧
    (∀ x, single (aes128_encrypt (rkFn (aes128_key_schedule key))) x = cipher 10 (keyExpansion 4 10 (words128 key)) x) ∧
    (∀ x, single (aes128_decrypt (rkFn (aes128_key_schedule key))) x = invCipher 10 (keyExpansion 4 10 (words128 key)) x) := by
  have h := aes128_key_schedule_spec key
  have he := aes128_encrypt_uniform _ (rk128 key) h
  have hd := aes128_decrypt_uniform _ (rk128 key) h
  exact ⟨(he b).1, (hd b).1, (he b).2, (hd b).2⟩

set_option maxRecDepth 100000 in
theorem aes128_key_schedule_compact_eval (key : BitVec 128) :
    rd (aes128_key_schedule_compact key) 0 = bitslice (rk128 key 0) (rk128 key 0) (rk128 key 0) (rk128 key 0) ∧
    rd (aes128_key_schedule_compact key) 1 = sub_bytes_nots (inv_shift_rows_1 (bitslice (rk128 key 1) (rk128 key 1) (rk128 key 1) (rk128 key 1))) ∧
    rd (aes128_key_schedule_compact key) 2 = sub_bytes_nots (bitslice (rk128 key 2) (rk128 key 2) (rk128 key 2) (rk128 key 2)) ∧
    rd (aes128_key_schedule_compact key) 3 = sub_bytes_nots (inv_shift_rows_1 (bitslice (rk128 key 3) (rk128 key 3) (rk128 key 3) (rk128 key 3))) ∧
    rd (aes128_key_schedule_compact key) 4 = sub_bytes_nots (bitslice (rk128 key 4) (rk128 key 4) (rk128 key 4) (rk128 key 4)) ∧
    rd (aes128_key_schedule_compact key) 5 = sub_bytes_nots (inv_shift_rows_1 (bitslice (rk128 key 5) (rk128 key 5) (rk128 key 5) (rk128 key 5))) ∧
    rd (aes128_key_schedule_compact key) 6 = sub_bytes_nots (bitslice (rk128 key 6) (rk128 key 6) (rk128 key 6) (rk128 key 6)) ∧
    rd (aes128_key_schedule_compact key) 7 = sub_bytes_nots (inv_shift_rows_1 (bitslice (rk128 key 7) (rk128 key 7) (rk128 key 7) (rk128 key 7))) ∧
    rd (aes128_key_schedule_compact key) 8 = sub_bytes_nots (bitslice (rk128 key 8) (rk128 key 8) (rk128 key 8) (rk128 key 8)) ∧
    rd (aes128_key_schedule_compact key) 9 = sub_bytes_nots (inv_shift_rows_1 (bitslice (rk128 key 9) (rk128 key 9) (rk128 key 9) (rk128 key 9))) ∧
    rd (aes128_key_schedule_compact key) 10 = sub_bytes_nots (bitslice (rk128 key 10) (rk128 key 10) (rk128 key 10) (rk128 key 10)) := by
  obtain ⟨hs, e0, e1, e2, e3, e4, e5, e6, e7, e8, e9, e10⟩ := raw128_eval key
  have s := fun r (h : r ≤ 10) => ks128S_spec key r h
  simp only [aes128_key_schedule_compact, ks_nots, ks_adjust_compact, stepBy_8_88_16, range'_1_10, List.foldl,
    Nat.reduceAdd, Nat.reduceSub, Nat.reduceDiv, Nat.reduceMul, Nat.reduceLT,
    rd_upd_same, rd_upd_ne, size_upd, hs, ne_eq, Nat.reduceEqDiff,
    not_false_eq_true, not_true_eq_false, e0, e1, e2, e3, e4, e5, e6, e7, e8, e9, e10]
  simp only [s 0 (by omega), s 1 (by omega), s 2 (by omega), s 3 (by omega), s 4 (by omega), s 5 (by omega),
    s 6 (by omega), s 7 (by omega), s 8 (by omega), s 9 (by omega), s 10 (by omega), and_self]

/-- **key schedule = FIPS-197 KeyExpansion in fixsliced form** (AES-128, compact) -/
theorem aes128_key_schedule_compact_spec (key : BitVec 128) (r : Nat) (hr : r ≤ 10) :
    rkFn (aes128_key_schedule_compact key) r = fsKeyC r (uniformKeys (rk128 key) r) := by
  obtain ⟨e0, e1, e2, e3, e4, e5, e6, e7, e8, e9, e10⟩ := aes128_key_schedule_compact_eval key
  exact match r, hr with
  | 0, _ => by simp [rkFn, fsKey, fsKeyC, repSt, bitsliceB, uniformKeys, e0]
  | 1, _ => by simp [rkFn, fsKey, fsKeyC, repSt, bitsliceB, uniformKeys, e1]
  | 2, _ => by simp [rkFn, fsKey, fsKeyC, repSt, bitsliceB, uniformKeys, e2]
  | 3, _ => by simp [rkFn, fsKey, fsKeyC, repSt, bitsliceB, uniformKeys, e3]
  | 4, _ => by simp [rkFn, fsKey, fsKeyC, repSt, bitsliceB, uniformKeys, e4]
  | 5, _ => by simp [rkFn, fsKey, fsKeyC, repSt, bitsliceB, uniformKeys, e5]
  | 6, _ => by simp [rkFn, fsKey, fsKeyC, repSt, bitsliceB, uniformKeys, e6]
  | 7, _ => by simp [rkFn, fsKey, fsKeyC, repSt, bitsliceB, uniformKeys, e7]
  | 8, _ => by simp [rkFn, fsKey, fsKeyC, repSt, bitsliceB, uniformKeys, e8]
  | 9, _ => by simp [rkFn, fsKey, fsKeyC, repSt, bitsliceB, uniformKeys, e9]
  | 10, _ => by simp [rkFn, fsKey, fsKeyC, repSt, bitsliceB, uniformKeys, e10]

/-- **C02 end-to-end, AES-128 fixslice64 compact**: for every key and every batch the code computes
FIPS-197 in every lane (and `soft.rs`' single-block call computes it on the block) -/
theorem aes128_compact_conforms (key : BitVec 128) (b : Batch) :
    aes128_encrypt_compact (rkFn (aes128_key_schedule_compact key)) b = b.map (cipherK 10 (rk128 key)) ∧
    aes128_decrypt_compact (rkFn (aes128_key_schedule_compact key)) b = b.map (invCipherK 10 (rk128 key)) ∧
    (∀ x, single (aes128_encrypt_compact (rkFn (aes128_key_schedule_compact key))) x = cipher 10 (keyExpansion 4 10 (words128 key)) x) ∧
    (∀ x, single (aes128_decrypt_compact (rkFn (aes128_key_schedule_compact key))) x = invCipher 10 (keyExpansion 4 10 (words128 key)) x) := by
  have h := aes128_key_schedule_compact_spec key
  have he := aes128_encrypt_compact_uniform _ (rk128 key) h
  have hd := aes128_decrypt_compact_uniform _ (rk128 key) h
  exact ⟨(he b).1, (hd b).1, (he b).2, (hd b).2⟩

end BC.AesFs64
