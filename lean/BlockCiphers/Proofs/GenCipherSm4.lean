import BlockCiphers.Gen.Cipher_Sm4
import BlockCiphers.Impl.Sm4
import BlockCiphers.Proofs.GenTables
import Std.Tactic.BVDecide
/-!
Tie theorems: the regenerated `Sm4::encrypt_block` / `decrypt_block` (`BC.Gen.Fn.sm4_*`, translated from the current
Rust text, loops unrolled, `SBOX` read from the regenerated `Gen/Tables.lean`) ARE the model functions
`BC.Sm4.encryptRk` / `decryptRk` (and `BC.Sm4.encrypt` / `decrypt` on the cipher object), for all 32 round-key
words and all blocks.  Proof: the S-box look-up is tied entry by entry (`decide +kernel`), the byte-wise
loads/stores are rewritten into the model's word extracts, after which both sides unfold to the same term.
-/
set_option maxRecDepth 100000
namespace BC.GenCipher.Sm4
open BC BC.Sm4 BC.Gen.Fn

theorem sbox_entry : ∀ n : Fin 256, BC.Gen.tblAt BC.Gen.sm4_SBOX n.val 8 = BC.Sm4.SBOX.getD n.val 0#8 := by
  decide +kernel

theorem sbox_at (v : BitVec 8) : BC.Gen.tblAt BC.Gen.sm4_SBOX ((v.setWidth 64).toNat) 8 = sbox v := by
  have h := sbox_entry ⟨v.toNat, v.isLt⟩
  simp only at h
  have e : (v.setWidth 64).toNat = v.toNat := by
    simp only [BitVec.toNat_setWidth]; omega
  rw [e, h]; rfl

theorem ld0 (b : BitVec 128) : b.extractLsb' 120 8 ++ b.extractLsb' 112 8 ++ b.extractLsb' 104 8 ++ b.extractLsb' 96 8 = b.extractLsb' 96 32 := by bv_decide
theorem ld1 (b : BitVec 128) : b.extractLsb' 88 8 ++ b.extractLsb' 80 8 ++ b.extractLsb' 72 8 ++ b.extractLsb' 64 8 = b.extractLsb' 64 32 := by bv_decide
theorem ld2 (b : BitVec 128) : b.extractLsb' 56 8 ++ b.extractLsb' 48 8 ++ b.extractLsb' 40 8 ++ b.extractLsb' 32 8 = b.extractLsb' 32 32 := by bv_decide
theorem ld3 (b : BitVec 128) : b.extractLsb' 24 8 ++ b.extractLsb' 16 8 ++ b.extractLsb' 8 8 ++ b.extractLsb' 0 8 = b.extractLsb' 0 32 := by bv_decide

theorem st (x3 x2 x1 x0 : BitVec 32) :
  (x3.extractLsb' 24 8) ++ (x3.extractLsb' 16 8) ++ (x3.extractLsb' 8 8) ++ (x3.extractLsb' 0 8) ++ (x2.extractLsb' 24 8) ++ (x2.extractLsb' 16 8) ++ (x2.extractLsb' 8 8) ++ (x2.extractLsb' 0 8) ++ (x1.extractLsb' 24 8) ++ (x1.extractLsb' 16 8) ++ (x1.extractLsb' 8 8) ++ (x1.extractLsb' 0 8) ++ (x0.extractLsb' 24 8) ++ (x0.extractLsb' 16 8) ++ (x0.extractLsb' 8 8) ++ (x0.extractLsb' 0 8) = x3 ++ x2 ++ x1 ++ x0 := by bv_decide



theorem range8 : List.range' 0 8 = [0,1,2,3,4,5,6,7] := by decide

theorem encrypt_block_eq (k0 k1 k2 k3 k4 k5 k6 k7 k8 k9 k10 k11 k12 k13 k14 k15 k16 k17 k18 k19 k20 k21 k22 k23 k24 k25 k26 k27 k28 k29 k30 k31 : BitVec 32) (b : BitVec 128) :
    sm4_encrypt_block k0 k1 k2 k3 k4 k5 k6 k7 k8 k9 k10 k11 k12 k13 k14 k15 k16 k17 k18 k19 k20 k21 k22 k23 k24 k25 k26 k27 k28 k29 k30 k31 b = encryptRk (fun i => [k0, k1, k2, k3, k4, k5, k6, k7, k8, k9, k10, k11, k12, k13, k14, k15, k16, k17, k18, k19, k20, k21, k22, k23, k24, k25, k26, k27, k28, k29, k30, k31].getD i 0#32) b := by
  simp only [sm4_encrypt_block, sbox_at, ld0, ld1, ld2, ld3, st,
    encryptRk, forRange, range8, List.foldl_cons, List.foldl_nil, encIter, load, storeRev, t, el, tau,
    Nat.reduceMul, Nat.reduceAdd, List.getD_cons_zero, List.getD_cons_succ]

theorem decrypt_block_eq (k0 k1 k2 k3 k4 k5 k6 k7 k8 k9 k10 k11 k12 k13 k14 k15 k16 k17 k18 k19 k20 k21 k22 k23 k24 k25 k26 k27 k28 k29 k30 k31 : BitVec 32) (b : BitVec 128) :
    sm4_decrypt_block k0 k1 k2 k3 k4 k5 k6 k7 k8 k9 k10 k11 k12 k13 k14 k15 k16 k17 k18 k19 k20 k21 k22 k23 k24 k25 k26 k27 k28 k29 k30 k31 b = decryptRk (fun i => [k0, k1, k2, k3, k4, k5, k6, k7, k8, k9, k10, k11, k12, k13, k14, k15, k16, k17, k18, k19, k20, k21, k22, k23, k24, k25, k26, k27, k28, k29, k30, k31].getD i 0#32) b := by
  simp only [sm4_decrypt_block, sbox_at, ld0, ld1, ld2, ld3, st,
    decryptRk, forRange, range8, List.foldl_cons, List.foldl_nil, decIter, load, storeRev, t, el, tau,
    Nat.reduceMul, Nat.reduceAdd, Nat.reduceSub, Nat.sub_zero, List.getD_cons_zero, List.getD_cons_succ]

theorem get_mk (l : List (BitVec 32)) : Sm4.get ⟨l.toArray⟩ = fun i => l.getD i 0#32 := by
  funext i
  simp [Sm4.get, Array.getD_eq_getD_getElem?, List.getD_eq_getElem?_getD]

/-- the same against `BC.Sm4.encrypt` on the cipher object `Sm4 { rk: [k0, …, k31] }` -/
theorem encrypt_eq (k0 k1 k2 k3 k4 k5 k6 k7 k8 k9 k10 k11 k12 k13 k14 k15 k16 k17 k18 k19 k20 k21 k22 k23 k24 k25 k26 k27 k28 k29 k30 k31 : BitVec 32) (b : BitVec 128) :
    sm4_encrypt_block k0 k1 k2 k3 k4 k5 k6 k7 k8 k9 k10 k11 k12 k13 k14 k15 k16 k17 k18 k19 k20 k21 k22 k23 k24 k25 k26 k27 k28 k29 k30 k31 b = BC.Sm4.encrypt ⟨#[k0, k1, k2, k3, k4, k5, k6, k7, k8, k9, k10, k11, k12, k13, k14, k15, k16, k17, k18, k19, k20, k21, k22, k23, k24, k25, k26, k27, k28, k29, k30, k31]⟩ b := by
  rw [encrypt_block_eq, BC.Sm4.encrypt, get_mk]

theorem decrypt_eq (k0 k1 k2 k3 k4 k5 k6 k7 k8 k9 k10 k11 k12 k13 k14 k15 k16 k17 k18 k19 k20 k21 k22 k23 k24 k25 k26 k27 k28 k29 k30 k31 : BitVec 32) (b : BitVec 128) :
    sm4_decrypt_block k0 k1 k2 k3 k4 k5 k6 k7 k8 k9 k10 k11 k12 k13 k14 k15 k16 k17 k18 k19 k20 k21 k22 k23 k24 k25 k26 k27 k28 k29 k30 k31 b = BC.Sm4.decrypt ⟨#[k0, k1, k2, k3, k4, k5, k6, k7, k8, k9, k10, k11, k12, k13, k14, k15, k16, k17, k18, k19, k20, k21, k22, k23, k24, k25, k26, k27, k28, k29, k30, k31]⟩ b := by
  rw [decrypt_block_eq, BC.Sm4.decrypt, get_mk]

end BC.GenCipher.Sm4
