import BlockCiphers.Proofs.AesFs64Arr
import BlockCiphers.Proofs.AesFs64KsSpec
import BlockCiphers.Proofs.AesFs64CommSB
import BlockCiphers.Proofs.AesFs64KeyForm
/-!
C02 stage (v), AES-256: the loop of `aes256_key_schedule` computes the FIPS-197 round keys
`roundKey (keyExpansion 8 14 key) r`, r = 0..14, packed with the same key in all four lanes.
-/
namespace BC.AesFs64
open BC.Spec.Aes
set_option linter.unusedSimpArgs false

/-- AES-256, even step (RotWord, SubWord, Rcon): round key `2q+2` from `2q` and `2q+1` -/
theorem roundKey_succ_256_even (key : List (BitVec 32)) (hk : key.length = 8) (q : Nat) (hq : q < 7) :
    roundKey (keyExpansion 8 14 key) (2 * q + 2) =
      linKS true (rcon (q + 1)) (roundKey (keyExpansion 8 14 key) (2 * q))
        (subBytes (roundKey (keyExpansion 8 14 key) (2 * q + 1))) := by
  rw [keyExpansion_eq_kxA]
  have g0 := kx_rec8 key hk (4 * (2 * q + 2)) (by omega) (by omega)
  have g1 := kx_rec8 key hk (4 * (2 * q + 2) + 1) (by omega) (by omega)
  have g2 := kx_rec8 key hk (4 * (2 * q + 2) + 2) (by omega) (by omega)
  have g3 := kx_rec8 key hk (4 * (2 * q + 2) + 3) (by omega) (by omega)
  have e0 : 4 * (2 * q + 2) - 8 = 4 * (2 * q) := by omega
  have e1 : 4 * (2 * q + 2) + 1 - 8 = 4 * (2 * q) + 1 := by omega
  have e2 : 4 * (2 * q + 2) + 2 - 8 = 4 * (2 * q) + 2 := by omega
  have e3 : 4 * (2 * q + 2) + 3 - 8 = 4 * (2 * q) + 3 := by omega
  have f0 : 4 * (2 * q + 2) - 1 = 4 * (2 * q + 1) + 3 := by omega
  have f1 : 4 * (2 * q + 2) + 1 - 1 = 4 * (2 * q + 2) := by omega
  have f2 : 4 * (2 * q + 2) + 2 - 1 = 4 * (2 * q + 2) + 1 := by omega
  have f3 : 4 * (2 * q + 2) + 3 - 1 = 4 * (2 * q + 2) + 2 := by omega
  have m0 : 4 * (2 * q + 2) % 8 = 0 := by omega
  have m1 : (4 * (2 * q + 2) + 1) % 8 = 1 := by omega
  have m2 : (4 * (2 * q + 2) + 2) % 8 = 2 := by omega
  have m3 : (4 * (2 * q + 2) + 3) % 8 = 3 := by omega
  have d0 : 4 * (2 * q + 2) / 8 = q + 1 := by omega
  simp only [kxTemp, e0, e1, e2, e3, f0, f1, f2, f3, m0, m1, m2, m3, d0, if_true, if_false,
    Nat.reduceEqDiff, Nat.reduceGT, false_and, true_and, and_false, Nat.succ_ne_self, reduceCtorEq,
    Nat.reduceSub, Nat.reduceMul, Nat.reduceAdd] at g0 g1 g2 g3
  have s52 : 4 * (14 + 1) - 8 = 52 := by omega
  rw [s52]
  simp only [roundKey]
  rw [g3, g2, g1, g0]
  rw [subWord_rotWord]
  have hd := last_word ((kxA 8 key 52).getD (4 * (2 * q + 1)) 0) ((kxA 8 key 52).getD (4 * (2 * q + 1) + 1) 0)
    ((kxA 8 key 52).getD (4 * (2 * q + 1) + 2) 0) ((kxA 8 key 52).getD (4 * (2 * q + 1) + 3) 0)
  have hs := subWord_last ((kxA 8 key 52).getD (4 * (2 * q + 1)) 0 ++ (kxA 8 key 52).getD (4 * (2 * q + 1) + 1) 0 ++
    (kxA 8 key 52).getD (4 * (2 * q + 1) + 2) 0 ++ (kxA 8 key 52).getD (4 * (2 * q + 1) + 3) 0)
  rw [hd] at hs
  rw [hs]
  exact linKS_words true _ _ _ _ _ _ _ rfl

/-- AES-256, odd step (SubWord only): round key `2q+3` from `2q+1` and `2q+2` -/
theorem roundKey_succ_256_odd (key : List (BitVec 32)) (hk : key.length = 8) (q : Nat) (hq : q < 6) :
    roundKey (keyExpansion 8 14 key) (2 * q + 3) =
      linKS false 0#32 (roundKey (keyExpansion 8 14 key) (2 * q + 1))
        (subBytes (roundKey (keyExpansion 8 14 key) (2 * q + 2))) := by
  rw [keyExpansion_eq_kxA]
  have g0 := kx_rec8 key hk (4 * (2 * q + 3)) (by omega) (by omega)
  have g1 := kx_rec8 key hk (4 * (2 * q + 3) + 1) (by omega) (by omega)
  have g2 := kx_rec8 key hk (4 * (2 * q + 3) + 2) (by omega) (by omega)
  have g3 := kx_rec8 key hk (4 * (2 * q + 3) + 3) (by omega) (by omega)
  have e0 : 4 * (2 * q + 3) - 8 = 4 * (2 * q + 1) := by omega
  have e1 : 4 * (2 * q + 3) + 1 - 8 = 4 * (2 * q + 1) + 1 := by omega
  have e2 : 4 * (2 * q + 3) + 2 - 8 = 4 * (2 * q + 1) + 2 := by omega
  have e3 : 4 * (2 * q + 3) + 3 - 8 = 4 * (2 * q + 1) + 3 := by omega
  have f0 : 4 * (2 * q + 3) - 1 = 4 * (2 * q + 2) + 3 := by omega
  have f1 : 4 * (2 * q + 3) + 1 - 1 = 4 * (2 * q + 3) := by omega
  have f2 : 4 * (2 * q + 3) + 2 - 1 = 4 * (2 * q + 3) + 1 := by omega
  have f3 : 4 * (2 * q + 3) + 3 - 1 = 4 * (2 * q + 3) + 2 := by omega
  have m0 : 4 * (2 * q + 3) % 8 = 4 := by omega
  have m1 : (4 * (2 * q + 3) + 1) % 8 = 5 := by omega
  have m2 : (4 * (2 * q + 3) + 2) % 8 = 6 := by omega
  have m3 : (4 * (2 * q + 3) + 3) % 8 = 7 := by omega
  simp only [kxTemp, e0, e1, e2, e3, f0, f1, f2, f3, m0, m1, m2, m3, if_true, if_false,
    Nat.reduceEqDiff, Nat.reduceGT, false_and, true_and, and_false, and_true, and_self, Nat.succ_ne_self, reduceCtorEq,
    Nat.reduceSub, Nat.reduceMul, Nat.reduceAdd] at g0 g1 g2 g3
  have s52 : 4 * (14 + 1) - 8 = 52 := by omega
  rw [s52]
  simp only [roundKey]
  rw [g3, g2, g1, g0]
  have hd := last_word ((kxA 8 key 52).getD (4 * (2 * q + 2)) 0) ((kxA 8 key 52).getD (4 * (2 * q + 2) + 1) 0)
    ((kxA 8 key 52).getD (4 * (2 * q + 2) + 2) 0) ((kxA 8 key 52).getD (4 * (2 * q + 2) + 3) 0)
  have hs := subWord_last ((kxA 8 key 52).getD (4 * (2 * q + 2)) 0 ++ (kxA 8 key 52).getD (4 * (2 * q + 2) + 1) 0 ++
    (kxA 8 key 52).getD (4 * (2 * q + 2) + 2) 0 ++ (kxA 8 key 52).getD (4 * (2 * q + 2) + 3) 0)
  rw [hd] at hs
  rw [hs]
  exact linKS_words false 0#32 _ _ _ _ _ _ (by simp)

/-- the eight big-endian words of a 32-byte key -/
def words256 (key : BitVec 256) : List (BitVec 32) :=
  [key.extractLsb' 224 32, key.extractLsb' 192 32, key.extractLsb' 160 32, key.extractLsb' 128 32,
   key.extractLsb' 96 32, key.extractLsb' 64 32, key.extractLsb' 32 32, key.extractLsb' 0 32]

/-- FIPS-197 round key `r` of a 256-bit key -/
def rk256 (key : BitVec 256) (r : Nat) : BitVec 128 := roundKey (keyExpansion 8 14 (words256 key)) r

/-- the sequence of 8-word groups the loop of `aes256_key_schedule` writes -/
def ks256S (key : BitVec 256) : Nat → St
  | 0 => bitslice (key256_lo key) (key256_lo key) (key256_lo key) (key256_lo key)
  | 1 => bitslice (key256_hi key) (key256_hi key) (key256_hi key) (key256_hi key)
  | r + 2 =>
    if r % 2 = 0 then
      xor_columns_st (ks256S key r) (arc128 (r / 2) (sub_bytes_nots (sub_bytes (ks256S key (r + 1))))) (ror_distance 1 3)
    else
      xor_columns_st (ks256S key r) (sub_bytes_nots (sub_bytes (ks256S key (r + 1)))) (ror_distance 0 3)

theorem rk256_zero (key : BitVec 256) : rk256 key 0 = key256_lo key := by
  simp only [rk256, roundKey, keyExpansion_eq_kxA, words256, key256_lo]
  rw [kxA_getD_init _ _ _ _ (by simp), kxA_getD_init _ _ _ _ (by simp), kxA_getD_init _ _ _ _ (by simp),
    kxA_getD_init _ _ _ _ (by simp)]
  simp only [List.getD, List.getElem?_cons_zero, List.getElem?_cons_succ, Option.getD_some, Nat.reduceMul, Nat.reduceAdd]
  bv_decide (config := { timeout := 600 })

theorem rk256_one (key : BitVec 256) : rk256 key 1 = key256_hi key := by
  simp only [rk256, roundKey, keyExpansion_eq_kxA, words256, key256_hi]
  rw [kxA_getD_init _ _ _ _ (by simp), kxA_getD_init _ _ _ _ (by simp), kxA_getD_init _ _ _ _ (by simp),
    kxA_getD_init _ _ _ _ (by simp)]
  simp only [List.getD, List.getElem?_cons_zero, List.getElem?_cons_succ, Option.getD_some, Nat.reduceMul, Nat.reduceAdd]
  bv_decide (config := { timeout := 600 })

theorem rcon_vals' : rcon 1 = 0x01000000#32 ∧ rcon 2 = 0x02000000#32 ∧ rcon 3 = 0x04000000#32 ∧
    rcon 4 = 0x08000000#32 ∧ rcon 5 = 0x10000000#32 ∧ rcon 6 = 0x20000000#32 ∧ rcon 7 = 0x40000000#32 := by decide

/-- the loop of the key schedule computes the FIPS round keys, same key in all four lanes -/
theorem ks256S_all (key : BitVec 256) :
    ks256S key 0 = bitslice (rk256 key 0) (rk256 key 0) (rk256 key 0) (rk256 key 0) ∧
    ks256S key 1 = bitslice (rk256 key 1) (rk256 key 1) (rk256 key 1) (rk256 key 1) ∧
    ks256S key 2 = bitslice (rk256 key 2) (rk256 key 2) (rk256 key 2) (rk256 key 2) ∧
    ks256S key 3 = bitslice (rk256 key 3) (rk256 key 3) (rk256 key 3) (rk256 key 3) ∧
    ks256S key 4 = bitslice (rk256 key 4) (rk256 key 4) (rk256 key 4) (rk256 key 4) ∧
    ks256S key 5 = bitslice (rk256 key 5) (rk256 key 5) (rk256 key 5) (rk256 key 5) ∧
    ks256S key 6 = bitslice (rk256 key 6) (rk256 key 6) (rk256 key 6) (rk256 key 6) ∧
    ks256S key 7 = bitslice (rk256 key 7) (rk256 key 7) (rk256 key 7) (rk256 key 7) ∧
    ks256S key 8 = bitslice (rk256 key 8) (rk256 key 8) (rk256 key 8) (rk256 key 8) ∧
    ks256S key 9 = bitslice (rk256 key 9) (rk256 key 9) (rk256 key 9) (rk256 key 9) ∧
    ks256S key 10 = bitslice (rk256 key 10) (rk256 key 10) (rk256 key 10) (rk256 key 10) ∧
    ks256S key 11 = bitslice (rk256 key 11) (rk256 key 11) (rk256 key 11) (rk256 key 11) ∧
    ks256S key 12 = bitslice (rk256 key 12) (rk256 key 12) (rk256 key 12) (rk256 key 12) ∧
    ks256S key 13 = bitslice (rk256 key 13) (rk256 key 13) (rk256 key 13) (rk256 key 13) ∧
    ks256S key 14 = bitslice (rk256 key 14) (rk256 key 14) (rk256 key 14) (rk256 key 14) := by
  obtain ⟨c1, c2, c3, c4, c5, c6, c7⟩ := rcon_vals'
  have p0 : ks256S key 0 = bitslice (rk256 key 0) (rk256 key 0) (rk256 key 0) (rk256 key 0) := by rw [ks256S, rk256_zero]
  have p1 : ks256S key 1 = bitslice (rk256 key 1) (rk256 key 1) (rk256 key 1) (rk256 key 1) := by rw [ks256S, rk256_one]
  have p2 : ks256S key 2 = bitslice (rk256 key 2) (rk256 key 2) (rk256 key 2) (rk256 key 2) := by
    have e : rk256 key 2 = linKS true (rcon 1) (rk256 key 0) (subBytes (rk256 key 1)) :=
      roundKey_succ_256_even (words256 key) rfl 0 (by omega)
    have u : ks256S key 2 = xor_columns_st (ks256S key 0) (arc128 0 (sub_bytes_nots (sub_bytes (ks256S key 1)))) (ror_distance 1 3) := rfl
    rw [u, p0, p1, sub_bytes_rep0, sub_bytes_nots_invol, ks_step_rot_0, e, c1]
  have p3 : ks256S key 3 = bitslice (rk256 key 3) (rk256 key 3) (rk256 key 3) (rk256 key 3) := by
    have e : rk256 key 3 = linKS false 0#32 (rk256 key 1) (subBytes (rk256 key 2)) :=
      roundKey_succ_256_odd (words256 key) rfl 0 (by omega)
    have u : ks256S key 3 = xor_columns_st (ks256S key 1) (sub_bytes_nots (sub_bytes (ks256S key 2))) (ror_distance 0 3) := rfl
    rw [u, p1, p2, sub_bytes_rep0, sub_bytes_nots_invol, ks_step_norot, e]
  have p4 : ks256S key 4 = bitslice (rk256 key 4) (rk256 key 4) (rk256 key 4) (rk256 key 4) := by
    have e : rk256 key 4 = linKS true (rcon 2) (rk256 key 2) (subBytes (rk256 key 3)) :=
      roundKey_succ_256_even (words256 key) rfl 1 (by omega)
    have u : ks256S key 4 = xor_columns_st (ks256S key 2) (arc128 1 (sub_bytes_nots (sub_bytes (ks256S key 3)))) (ror_distance 1 3) := rfl
    rw [u, p2, p3, sub_bytes_rep0, sub_bytes_nots_invol, ks_step_rot_1, e, c2]
  have p5 : ks256S key 5 = bitslice (rk256 key 5) (rk256 key 5) (rk256 key 5) (rk256 key 5) := by
    have e : rk256 key 5 = linKS false 0#32 (rk256 key 3) (subBytes (rk256 key 4)) :=
      roundKey_succ_256_odd (words256 key) rfl 1 (by omega)
    have u : ks256S key 5 = xor_columns_st (ks256S key 3) (sub_bytes_nots (sub_bytes (ks256S key 4))) (ror_distance 0 3) := rfl
    rw [u, p3, p4, sub_bytes_rep0, sub_bytes_nots_invol, ks_step_norot, e]
  have p6 : ks256S key 6 = bitslice (rk256 key 6) (rk256 key 6) (rk256 key 6) (rk256 key 6) := by
    have e : rk256 key 6 = linKS true (rcon 3) (rk256 key 4) (subBytes (rk256 key 5)) :=
      roundKey_succ_256_even (words256 key) rfl 2 (by omega)
    have u : ks256S key 6 = xor_columns_st (ks256S key 4) (arc128 2 (sub_bytes_nots (sub_bytes (ks256S key 5)))) (ror_distance 1 3) := rfl
    rw [u, p4, p5, sub_bytes_rep0, sub_bytes_nots_invol, ks_step_rot_2, e, c3]
  have p7 : ks256S key 7 = bitslice (rk256 key 7) (rk256 key 7) (rk256 key 7) (rk256 key 7) := by
    have e : rk256 key 7 = linKS false 0#32 (rk256 key 5) (subBytes (rk256 key 6)) :=
      roundKey_succ_256_odd (words256 key) rfl 2 (by omega)
    have u : ks256S key 7 = xor_columns_st (ks256S key 5) (sub_bytes_nots (sub_bytes (ks256S key 6))) (ror_distance 0 3) := rfl
    rw [u, p5, p6, sub_bytes_rep0, sub_bytes_nots_invol, ks_step_norot, e]
  have p8 : ks256S key 8 = bitslice (rk256 key 8) (rk256 key 8) (rk256 key 8) (rk256 key 8) := by
    have e : rk256 key 8 = linKS true (rcon 4) (rk256 key 6) (subBytes (rk256 key 7)) :=
      roundKey_succ_256_even (words256 key) rfl 3 (by omega)
    have u : ks256S key 8 = xor_columns_st (ks256S key 6) (arc128 3 (sub_bytes_nots (sub_bytes (ks256S key 7)))) (ror_distance 1 3) := rfl
    rw [u, p6, p7, sub_bytes_rep0, sub_bytes_nots_invol, ks_step_rot_3, e, c4]
  have p9 : ks256S key 9 = bitslice (rk256 key 9) (rk256 key 9) (rk256 key 9) (rk256 key 9) := by
    have e : rk256 key 9 = linKS false 0#32 (rk256 key 7) (subBytes (rk256 key 8)) :=
      roundKey_succ_256_odd (words256 key) rfl 3 (by omega)
    have u : ks256S key 9 = xor_columns_st (ks256S key 7) (sub_bytes_nots (sub_bytes (ks256S key 8))) (ror_distance 0 3) := rfl
    rw [u, p7, p8, sub_bytes_rep0, sub_bytes_nots_invol, ks_step_norot, e]
  have p10 : ks256S key 10 = bitslice (rk256 key 10) (rk256 key 10) (rk256 key 10) (rk256 key 10) := by
    have e : rk256 key 10 = linKS true (rcon 5) (rk256 key 8) (subBytes (rk256 key 9)) :=
      roundKey_succ_256_even (words256 key) rfl 4 (by omega)
    have u : ks256S key 10 = xor_columns_st (ks256S key 8) (arc128 4 (sub_bytes_nots (sub_bytes (ks256S key 9)))) (ror_distance 1 3) := rfl
    rw [u, p8, p9, sub_bytes_rep0, sub_bytes_nots_invol, ks_step_rot_4, e, c5]
  have p11 : ks256S key 11 = bitslice (rk256 key 11) (rk256 key 11) (rk256 key 11) (rk256 key 11) := by
    have e : rk256 key 11 = linKS false 0#32 (rk256 key 9) (subBytes (rk256 key 10)) :=
      roundKey_succ_256_odd (words256 key) rfl 4 (by omega)
    have u : ks256S key 11 = xor_columns_st (ks256S key 9) (sub_bytes_nots (sub_bytes (ks256S key 10))) (ror_distance 0 3) := rfl
    rw [u, p9, p10, sub_bytes_rep0, sub_bytes_nots_invol, ks_step_norot, e]
  have p12 : ks256S key 12 = bitslice (rk256 key 12) (rk256 key 12) (rk256 key 12) (rk256 key 12) := by
    have e : rk256 key 12 = linKS true (rcon 6) (rk256 key 10) (subBytes (rk256 key 11)) :=
      roundKey_succ_256_even (words256 key) rfl 5 (by omega)
    have u : ks256S key 12 = xor_columns_st (ks256S key 10) (arc128 5 (sub_bytes_nots (sub_bytes (ks256S key 11)))) (ror_distance 1 3) := rfl
    rw [u, p10, p11, sub_bytes_rep0, sub_bytes_nots_invol, ks_step_rot_5, e, c6]
  have p13 : ks256S key 13 = bitslice (rk256 key 13) (rk256 key 13) (rk256 key 13) (rk256 key 13) := by
    have e : rk256 key 13 = linKS false 0#32 (rk256 key 11) (subBytes (rk256 key 12)) :=
      roundKey_succ_256_odd (words256 key) rfl 5 (by omega)
    have u : ks256S key 13 = xor_columns_st (ks256S key 11) (sub_bytes_nots (sub_bytes (ks256S key 12))) (ror_distance 0 3) := rfl
    rw [u, p11, p12, sub_bytes_rep0, sub_bytes_nots_invol, ks_step_norot, e]
  have p14 : ks256S key 14 = bitslice (rk256 key 14) (rk256 key 14) (rk256 key 14) (rk256 key 14) := by
    have e : rk256 key 14 = linKS true (rcon 7) (rk256 key 12) (subBytes (rk256 key 13)) :=
      roundKey_succ_256_even (words256 key) rfl 6 (by omega)
    have u : ks256S key 14 = xor_columns_st (ks256S key 12) (arc128 6 (sub_bytes_nots (sub_bytes (ks256S key 13)))) (ror_distance 1 3) := rfl
    rw [u, p12, p13, sub_bytes_rep0, sub_bytes_nots_invol, ks_step_rot_6, e, c7]
  exact ⟨p0, p1, p2, p3, p4, p5, p6, p7, p8, p9, p10, p11, p12, p13, p14⟩

end BC.AesFs64
