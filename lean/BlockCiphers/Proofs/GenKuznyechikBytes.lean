import BlockCiphers.Gen.Tables
import BlockCiphers.Prelude.GenTypes
import BlockCiphers.Impl.Kuznyechik
import BlockCiphers.Proofs.KuznyechikBytes
import BlockCiphers.Proofs.KuznyechikGf
import BlockCiphers.Proofs.GenTables
import Std.Tactic.BVDecide
import Lean.Elab.Tactic
/-!
Byte-level form of the compact Kuznyechik backend, shared by the ties of the regenerated
`compact_soft` functions (`Proofs/GenCipherKuznyechik.lean`, `Proofs/GenKeysKuznyechik.lean`).

The regenerated functions work on the sixteen bytes of a block one by one (`Gen/Cipher_Kuznyechik.lean`: ≈ 4 300 `let`s
for `encrypt_block`); the model `BC.Kuznyechik.Compact` works on the 128-bit memory image with `getb` / `setb`.
`B16` is the record of the sixteen bytes, `lstepB<i>` is `l_step(msg, i)` on it (one byte replaced by `lnew` of the
sixteen bytes, rotated by `i`), `sB` / `sInvB` the S-box loops, `xB` the key addition; the tables are the regenerated
ones (`Gen.kuznyechik_P`, and the seven GF(2^8) multiplication tables / `P_INV` that the translator computed by running
the crate's `const fn`s — passed as parameters `t0 … t6`, `pinv`, since every generated function carries its own copy).
Each `…_pack` lemma states that the byte-level function is the model's function on the packed block, for ALL inputs,
given that the tables agree with the model's (`GfOK`, proved per generated function by `decide +kernel` over the 256 indices).
-/
set_option maxRecDepth 100000
set_option linter.unusedSimpArgs false
set_option linter.unusedVariables false
namespace BC.GenCipher.Kuznyechik
open BC BC.Kuznyechik

open Lean Elab Tactic Meta in
/-- closes a goal `a = b` with the proof term `Eq.refl a`; the definitional-equality check `a ≡ b` is left to the
kernel (it happens when the enclosing theorem is added to the environment; nothing is trusted) -/
elab "kuz_kernel_rfl" : tactic => do
  let g ← getMainGoal
  let t ← instantiateMVars (← g.getType)
  let some (_, lhs, _) := t.eq? | throwError "kuz_kernel_rfl: the goal is not an equality"
  g.assign (← mkEqRefl lhs)

/-- sixteen bytes (a `Block` / `[u8; 16]` of the Rust code), element 0 first -/
structure B16 where
  b0 : BitVec 8
  b1 : BitVec 8
  b2 : BitVec 8
  b3 : BitVec 8
  b4 : BitVec 8
  b5 : BitVec 8
  b6 : BitVec 8
  b7 : BitVec 8
  b8 : BitVec 8
  b9 : BitVec 8
  b10 : BitVec 8
  b11 : BitVec 8
  b12 : BitVec 8
  b13 : BitVec 8
  b14 : BitVec 8
  b15 : BitVec 8
  deriving DecidableEq

/-- the memory image: element 0 is the most significant byte -/
def B16.pack (m : B16) : BitVec 128 := m.b0 ++ m.b1 ++ m.b2 ++ m.b3 ++ m.b4 ++ m.b5 ++ m.b6 ++ m.b7 ++ m.b8 ++ m.b9 ++ m.b10 ++ m.b11 ++ m.b12 ++ m.b13 ++ m.b14 ++ m.b15

def unpackB (v : BitVec 128) : B16 := ⟨v.extractLsb' 120 8, v.extractLsb' 112 8, v.extractLsb' 104 8, v.extractLsb' 96 8, v.extractLsb' 88 8, v.extractLsb' 80 8, v.extractLsb' 72 8, v.extractLsb' 64 8, v.extractLsb' 56 8, v.extractLsb' 48 8, v.extractLsb' 40 8, v.extractLsb' 32 8, v.extractLsb' 24 8, v.extractLsb' 16 8, v.extractLsb' 8 8, v.extractLsb' 0 8⟩

/-- `x(a, key)`: `a[i] ^= key[i]`, the key given as its memory image -/
def xB (m : B16) (k : BitVec 128) : B16 := ⟨m.b0 ^^^ k.extractLsb' 120 8, m.b1 ^^^ k.extractLsb' 112 8, m.b2 ^^^ k.extractLsb' 104 8, m.b3 ^^^ k.extractLsb' 96 8, m.b4 ^^^ k.extractLsb' 88 8, m.b5 ^^^ k.extractLsb' 80 8, m.b6 ^^^ k.extractLsb' 72 8, m.b7 ^^^ k.extractLsb' 64 8, m.b8 ^^^ k.extractLsb' 56 8, m.b9 ^^^ k.extractLsb' 48 8, m.b10 ^^^ k.extractLsb' 40 8, m.b11 ^^^ k.extractLsb' 32 8, m.b12 ^^^ k.extractLsb' 24 8, m.b13 ^^^ k.extractLsb' 16 8, m.b14 ^^^ k.extractLsb' 8 8, m.b15 ^^^ k.extractLsb' 0 8⟩

/-- `x(a, b)` on two byte arrays -/
def xorB (m k : B16) : B16 := ⟨m.b0 ^^^ k.b0, m.b1 ^^^ k.b1, m.b2 ^^^ k.b2, m.b3 ^^^ k.b3, m.b4 ^^^ k.b4, m.b5 ^^^ k.b5, m.b6 ^^^ k.b6, m.b7 ^^^ k.b7, m.b8 ^^^ k.b8, m.b9 ^^^ k.b9, m.b10 ^^^ k.b10, m.b11 ^^^ k.b11, m.b12 ^^^ k.b12, m.b13 ^^^ k.b13, m.b14 ^^^ k.b14, m.b15 ^^^ k.b15⟩

/-- `block[i] = P[block[i] as usize]` with the regenerated table `Gen.kuznyechik_P` -/
def sB (m : B16) : B16 := ⟨BC.Gen.tblAt BC.Gen.kuznyechik_P (m.b0.setWidth 64).toNat 8, BC.Gen.tblAt BC.Gen.kuznyechik_P (m.b1.setWidth 64).toNat 8, BC.Gen.tblAt BC.Gen.kuznyechik_P (m.b2.setWidth 64).toNat 8, BC.Gen.tblAt BC.Gen.kuznyechik_P (m.b3.setWidth 64).toNat 8, BC.Gen.tblAt BC.Gen.kuznyechik_P (m.b4.setWidth 64).toNat 8, BC.Gen.tblAt BC.Gen.kuznyechik_P (m.b5.setWidth 64).toNat 8, BC.Gen.tblAt BC.Gen.kuznyechik_P (m.b6.setWidth 64).toNat 8, BC.Gen.tblAt BC.Gen.kuznyechik_P (m.b7.setWidth 64).toNat 8, BC.Gen.tblAt BC.Gen.kuznyechik_P (m.b8.setWidth 64).toNat 8, BC.Gen.tblAt BC.Gen.kuznyechik_P (m.b9.setWidth 64).toNat 8, BC.Gen.tblAt BC.Gen.kuznyechik_P (m.b10.setWidth 64).toNat 8, BC.Gen.tblAt BC.Gen.kuznyechik_P (m.b11.setWidth 64).toNat 8, BC.Gen.tblAt BC.Gen.kuznyechik_P (m.b12.setWidth 64).toNat 8, BC.Gen.tblAt BC.Gen.kuznyechik_P (m.b13.setWidth 64).toNat 8, BC.Gen.tblAt BC.Gen.kuznyechik_P (m.b14.setWidth 64).toNat 8, BC.Gen.tblAt BC.Gen.kuznyechik_P (m.b15.setWidth 64).toNat 8⟩

/-- `block[i] = P_INV[block[i] as usize]`, `P_INV` as computed by the translator from the const block (`pinv`) -/
def sInvB (pinv : Array Nat) (m : B16) : B16 := ⟨BC.Gen.tblAt pinv (m.b0.setWidth 64).toNat 8, BC.Gen.tblAt pinv (m.b1.setWidth 64).toNat 8, BC.Gen.tblAt pinv (m.b2.setWidth 64).toNat 8, BC.Gen.tblAt pinv (m.b3.setWidth 64).toNat 8, BC.Gen.tblAt pinv (m.b4.setWidth 64).toNat 8, BC.Gen.tblAt pinv (m.b5.setWidth 64).toNat 8, BC.Gen.tblAt pinv (m.b6.setWidth 64).toNat 8, BC.Gen.tblAt pinv (m.b7.setWidth 64).toNat 8, BC.Gen.tblAt pinv (m.b8.setWidth 64).toNat 8, BC.Gen.tblAt pinv (m.b9.setWidth 64).toNat 8, BC.Gen.tblAt pinv (m.b10.setWidth 64).toNat 8, BC.Gen.tblAt pinv (m.b11.setWidth 64).toNat 8, BC.Gen.tblAt pinv (m.b12.setWidth 64).toNat 8, BC.Gen.tblAt pinv (m.b13.setWidth 64).toNat 8, BC.Gen.tblAt pinv (m.b14.setWidth 64).toNat 8, BC.Gen.tblAt pinv (m.b15.setWidth 64).toNat 8⟩

/-- the new byte of `l_step`: `x = msg[15-i]; x ^= GFT_148[msg[14-i]]; …` with the seven computed GF tables -/
def lnew (t0 t1 t2 t3 t4 t5 t6 : Array Nat) (a15 a14 a13 a12 a11 a10 a9 a8 a7 a6 a5 a4 a3 a2 a1 a0 : BitVec 8) : BitVec 8 :=
  (((((((((((((((a15 ^^^ BC.Gen.tblAt t0 (a14.setWidth 64).toNat 8) ^^^ BC.Gen.tblAt t1 (a13.setWidth 64).toNat 8) ^^^ BC.Gen.tblAt t2 (a12.setWidth 64).toNat 8) ^^^ BC.Gen.tblAt t3 (a11.setWidth 64).toNat 8) ^^^ BC.Gen.tblAt t4 (a10.setWidth 64).toNat 8) ^^^ BC.Gen.tblAt t5 (a9.setWidth 64).toNat 8) ^^^ a8) ^^^ BC.Gen.tblAt t6 (a7.setWidth 64).toNat 8) ^^^ a6) ^^^ BC.Gen.tblAt t5 (a5.setWidth 64).toNat 8) ^^^ BC.Gen.tblAt t4 (a4.setWidth 64).toNat 8) ^^^ BC.Gen.tblAt t3 (a3.setWidth 64).toNat 8) ^^^ BC.Gen.tblAt t2 (a2.setWidth 64).toNat 8) ^^^ BC.Gen.tblAt t1 (a1.setWidth 64).toNat 8) ^^^ BC.Gen.tblAt t0 (a0.setWidth 64).toNat 8)

def lstepB0 (t0 t1 t2 t3 t4 t5 t6 : Array Nat) (m : B16) : B16 := ⟨m.b0, m.b1, m.b2, m.b3, m.b4, m.b5, m.b6, m.b7, m.b8, m.b9, m.b10, m.b11, m.b12, m.b13, m.b14, lnew t0 t1 t2 t3 t4 t5 t6 m.b15 m.b14 m.b13 m.b12 m.b11 m.b10 m.b9 m.b8 m.b7 m.b6 m.b5 m.b4 m.b3 m.b2 m.b1 m.b0⟩
def lstepB1 (t0 t1 t2 t3 t4 t5 t6 : Array Nat) (m : B16) : B16 := ⟨m.b0, m.b1, m.b2, m.b3, m.b4, m.b5, m.b6, m.b7, m.b8, m.b9, m.b10, m.b11, m.b12, m.b13, lnew t0 t1 t2 t3 t4 t5 t6 m.b14 m.b13 m.b12 m.b11 m.b10 m.b9 m.b8 m.b7 m.b6 m.b5 m.b4 m.b3 m.b2 m.b1 m.b0 m.b15, m.b15⟩
def lstepB2 (t0 t1 t2 t3 t4 t5 t6 : Array Nat) (m : B16) : B16 := ⟨m.b0, m.b1, m.b2, m.b3, m.b4, m.b5, m.b6, m.b7, m.b8, m.b9, m.b10, m.b11, m.b12, lnew t0 t1 t2 t3 t4 t5 t6 m.b13 m.b12 m.b11 m.b10 m.b9 m.b8 m.b7 m.b6 m.b5 m.b4 m.b3 m.b2 m.b1 m.b0 m.b15 m.b14, m.b14, m.b15⟩
def lstepB3 (t0 t1 t2 t3 t4 t5 t6 : Array Nat) (m : B16) : B16 := ⟨m.b0, m.b1, m.b2, m.b3, m.b4, m.b5, m.b6, m.b7, m.b8, m.b9, m.b10, m.b11, lnew t0 t1 t2 t3 t4 t5 t6 m.b12 m.b11 m.b10 m.b9 m.b8 m.b7 m.b6 m.b5 m.b4 m.b3 m.b2 m.b1 m.b0 m.b15 m.b14 m.b13, m.b13, m.b14, m.b15⟩
def lstepB4 (t0 t1 t2 t3 t4 t5 t6 : Array Nat) (m : B16) : B16 := ⟨m.b0, m.b1, m.b2, m.b3, m.b4, m.b5, m.b6, m.b7, m.b8, m.b9, m.b10, lnew t0 t1 t2 t3 t4 t5 t6 m.b11 m.b10 m.b9 m.b8 m.b7 m.b6 m.b5 m.b4 m.b3 m.b2 m.b1 m.b0 m.b15 m.b14 m.b13 m.b12, m.b12, m.b13, m.b14, m.b15⟩
def lstepB5 (t0 t1 t2 t3 t4 t5 t6 : Array Nat) (m : B16) : B16 := ⟨m.b0, m.b1, m.b2, m.b3, m.b4, m.b5, m.b6, m.b7, m.b8, m.b9, lnew t0 t1 t2 t3 t4 t5 t6 m.b10 m.b9 m.b8 m.b7 m.b6 m.b5 m.b4 m.b3 m.b2 m.b1 m.b0 m.b15 m.b14 m.b13 m.b12 m.b11, m.b11, m.b12, m.b13, m.b14, m.b15⟩
def lstepB6 (t0 t1 t2 t3 t4 t5 t6 : Array Nat) (m : B16) : B16 := ⟨m.b0, m.b1, m.b2, m.b3, m.b4, m.b5, m.b6, m.b7, m.b8, lnew t0 t1 t2 t3 t4 t5 t6 m.b9 m.b8 m.b7 m.b6 m.b5 m.b4 m.b3 m.b2 m.b1 m.b0 m.b15 m.b14 m.b13 m.b12 m.b11 m.b10, m.b10, m.b11, m.b12, m.b13, m.b14, m.b15⟩
def lstepB7 (t0 t1 t2 t3 t4 t5 t6 : Array Nat) (m : B16) : B16 := ⟨m.b0, m.b1, m.b2, m.b3, m.b4, m.b5, m.b6, m.b7, lnew t0 t1 t2 t3 t4 t5 t6 m.b8 m.b7 m.b6 m.b5 m.b4 m.b3 m.b2 m.b1 m.b0 m.b15 m.b14 m.b13 m.b12 m.b11 m.b10 m.b9, m.b9, m.b10, m.b11, m.b12, m.b13, m.b14, m.b15⟩
def lstepB8 (t0 t1 t2 t3 t4 t5 t6 : Array Nat) (m : B16) : B16 := ⟨m.b0, m.b1, m.b2, m.b3, m.b4, m.b5, m.b6, lnew t0 t1 t2 t3 t4 t5 t6 m.b7 m.b6 m.b5 m.b4 m.b3 m.b2 m.b1 m.b0 m.b15 m.b14 m.b13 m.b12 m.b11 m.b10 m.b9 m.b8, m.b8, m.b9, m.b10, m.b11, m.b12, m.b13, m.b14, m.b15⟩
def lstepB9 (t0 t1 t2 t3 t4 t5 t6 : Array Nat) (m : B16) : B16 := ⟨m.b0, m.b1, m.b2, m.b3, m.b4, m.b5, lnew t0 t1 t2 t3 t4 t5 t6 m.b6 m.b5 m.b4 m.b3 m.b2 m.b1 m.b0 m.b15 m.b14 m.b13 m.b12 m.b11 m.b10 m.b9 m.b8 m.b7, m.b7, m.b8, m.b9, m.b10, m.b11, m.b12, m.b13, m.b14, m.b15⟩
def lstepB10 (t0 t1 t2 t3 t4 t5 t6 : Array Nat) (m : B16) : B16 := ⟨m.b0, m.b1, m.b2, m.b3, m.b4, lnew t0 t1 t2 t3 t4 t5 t6 m.b5 m.b4 m.b3 m.b2 m.b1 m.b0 m.b15 m.b14 m.b13 m.b12 m.b11 m.b10 m.b9 m.b8 m.b7 m.b6, m.b6, m.b7, m.b8, m.b9, m.b10, m.b11, m.b12, m.b13, m.b14, m.b15⟩
def lstepB11 (t0 t1 t2 t3 t4 t5 t6 : Array Nat) (m : B16) : B16 := ⟨m.b0, m.b1, m.b2, m.b3, lnew t0 t1 t2 t3 t4 t5 t6 m.b4 m.b3 m.b2 m.b1 m.b0 m.b15 m.b14 m.b13 m.b12 m.b11 m.b10 m.b9 m.b8 m.b7 m.b6 m.b5, m.b5, m.b6, m.b7, m.b8, m.b9, m.b10, m.b11, m.b12, m.b13, m.b14, m.b15⟩
def lstepB12 (t0 t1 t2 t3 t4 t5 t6 : Array Nat) (m : B16) : B16 := ⟨m.b0, m.b1, m.b2, lnew t0 t1 t2 t3 t4 t5 t6 m.b3 m.b2 m.b1 m.b0 m.b15 m.b14 m.b13 m.b12 m.b11 m.b10 m.b9 m.b8 m.b7 m.b6 m.b5 m.b4, m.b4, m.b5, m.b6, m.b7, m.b8, m.b9, m.b10, m.b11, m.b12, m.b13, m.b14, m.b15⟩
def lstepB13 (t0 t1 t2 t3 t4 t5 t6 : Array Nat) (m : B16) : B16 := ⟨m.b0, m.b1, lnew t0 t1 t2 t3 t4 t5 t6 m.b2 m.b1 m.b0 m.b15 m.b14 m.b13 m.b12 m.b11 m.b10 m.b9 m.b8 m.b7 m.b6 m.b5 m.b4 m.b3, m.b3, m.b4, m.b5, m.b6, m.b7, m.b8, m.b9, m.b10, m.b11, m.b12, m.b13, m.b14, m.b15⟩
def lstepB14 (t0 t1 t2 t3 t4 t5 t6 : Array Nat) (m : B16) : B16 := ⟨m.b0, lnew t0 t1 t2 t3 t4 t5 t6 m.b1 m.b0 m.b15 m.b14 m.b13 m.b12 m.b11 m.b10 m.b9 m.b8 m.b7 m.b6 m.b5 m.b4 m.b3 m.b2, m.b2, m.b3, m.b4, m.b5, m.b6, m.b7, m.b8, m.b9, m.b10, m.b11, m.b12, m.b13, m.b14, m.b15⟩
def lstepB15 (t0 t1 t2 t3 t4 t5 t6 : Array Nat) (m : B16) : B16 := ⟨lnew t0 t1 t2 t3 t4 t5 t6 m.b0 m.b15 m.b14 m.b13 m.b12 m.b11 m.b10 m.b9 m.b8 m.b7 m.b6 m.b5 m.b4 m.b3 m.b2 m.b1, m.b1, m.b2, m.b3, m.b4, m.b5, m.b6, m.b7, m.b8, m.b9, m.b10, m.b11, m.b12, m.b13, m.b14, m.b15⟩

/-- `for i in 0..16 { block.0 = l_step(block.0, i) }` -/
def lfwdB (t0 t1 t2 t3 t4 t5 t6 : Array Nat) (m : B16) : B16 := lstepB15 t0 t1 t2 t3 t4 t5 t6 (lstepB14 t0 t1 t2 t3 t4 t5 t6 (lstepB13 t0 t1 t2 t3 t4 t5 t6 (lstepB12 t0 t1 t2 t3 t4 t5 t6 (lstepB11 t0 t1 t2 t3 t4 t5 t6 (lstepB10 t0 t1 t2 t3 t4 t5 t6 (lstepB9 t0 t1 t2 t3 t4 t5 t6 (lstepB8 t0 t1 t2 t3 t4 t5 t6 (lstepB7 t0 t1 t2 t3 t4 t5 t6 (lstepB6 t0 t1 t2 t3 t4 t5 t6 (lstepB5 t0 t1 t2 t3 t4 t5 t6 (lstepB4 t0 t1 t2 t3 t4 t5 t6 (lstepB3 t0 t1 t2 t3 t4 t5 t6 (lstepB2 t0 t1 t2 t3 t4 t5 t6 (lstepB1 t0 t1 t2 t3 t4 t5 t6 (lstepB0 t0 t1 t2 t3 t4 t5 t6 (m))))))))))))))))

/-- `for i in 0..16 { block.0 = l_step(block.0, 15 - i) }` -/
def lbwdB (t0 t1 t2 t3 t4 t5 t6 : Array Nat) (m : B16) : B16 := lstepB0 t0 t1 t2 t3 t4 t5 t6 (lstepB1 t0 t1 t2 t3 t4 t5 t6 (lstepB2 t0 t1 t2 t3 t4 t5 t6 (lstepB3 t0 t1 t2 t3 t4 t5 t6 (lstepB4 t0 t1 t2 t3 t4 t5 t6 (lstepB5 t0 t1 t2 t3 t4 t5 t6 (lstepB6 t0 t1 t2 t3 t4 t5 t6 (lstepB7 t0 t1 t2 t3 t4 t5 t6 (lstepB8 t0 t1 t2 t3 t4 t5 t6 (lstepB9 t0 t1 t2 t3 t4 t5 t6 (lstepB10 t0 t1 t2 t3 t4 t5 t6 (lstepB11 t0 t1 t2 t3 t4 t5 t6 (lstepB12 t0 t1 t2 t3 t4 t5 t6 (lstepB13 t0 t1 t2 t3 t4 t5 t6 (lstepB14 t0 t1 t2 t3 t4 t5 t6 (lstepB15 t0 t1 t2 t3 t4 t5 t6 (m))))))))))))))))

def lsxB (t0 t1 t2 t3 t4 t5 t6 : Array Nat) (m : B16) (k : BitVec 128) : B16 := lfwdB t0 t1 t2 t3 t4 t5 t6 (sB (xB m k))

def lsxInvB (t0 t1 t2 t3 t4 t5 t6 : Array Nat) (pinv : Array Nat) (m : B16) (k : BitVec 128) : B16 := sInvB pinv (lbwdB t0 t1 t2 t3 t4 t5 t6 (xB m k))

/-! ### packing -/

theorem pack_unpack (v : BitVec 128) : (unpackB v).pack = v := by
  simp only [unpackB, B16.pack]
  bv_decide

theorem xB_pack (m : B16) (k : BitVec 128) : (xB m k).pack = Compact.x m.pack k := by
  obtain ⟨b0, b1, b2, b3, b4, b5, b6, b7, b8, b9, b10, b11, b12, b13, b14, b15⟩ := m
  simp only [xB, B16.pack, Compact.x]
  bv_decide

theorem xorB_pack (m k : B16) : (xorB m k).pack = Compact.x m.pack k.pack := by
  obtain ⟨b0, b1, b2, b3, b4, b5, b6, b7, b8, b9, b10, b11, b12, b13, b14, b15⟩ := m
  obtain ⟨c0, c1, c2, c3, c4, c5, c6, c7, c8, c9, c10, c11, c12, c13, c14, c15⟩ := k
  simp only [xorB, B16.pack, Compact.x]
  bv_decide

theorem getb_pack0 (b0 b1 b2 b3 b4 b5 b6 b7 b8 b9 b10 b11 b12 b13 b14 b15 : BitVec 8) : getb (b0 ++ b1 ++ b2 ++ b3 ++ b4 ++ b5 ++ b6 ++ b7 ++ b8 ++ b9 ++ b10 ++ b11 ++ b12 ++ b13 ++ b14 ++ b15) 0 = b0 := by
  simp only [getb, Nat.reduceSub, Nat.reduceMul]
  bv_decide
theorem getb_pack1 (b0 b1 b2 b3 b4 b5 b6 b7 b8 b9 b10 b11 b12 b13 b14 b15 : BitVec 8) : getb (b0 ++ b1 ++ b2 ++ b3 ++ b4 ++ b5 ++ b6 ++ b7 ++ b8 ++ b9 ++ b10 ++ b11 ++ b12 ++ b13 ++ b14 ++ b15) 1 = b1 := by
  simp only [getb, Nat.reduceSub, Nat.reduceMul]
  bv_decide
theorem getb_pack2 (b0 b1 b2 b3 b4 b5 b6 b7 b8 b9 b10 b11 b12 b13 b14 b15 : BitVec 8) : getb (b0 ++ b1 ++ b2 ++ b3 ++ b4 ++ b5 ++ b6 ++ b7 ++ b8 ++ b9 ++ b10 ++ b11 ++ b12 ++ b13 ++ b14 ++ b15) 2 = b2 := by
  simp only [getb, Nat.reduceSub, Nat.reduceMul]
  bv_decide
theorem getb_pack3 (b0 b1 b2 b3 b4 b5 b6 b7 b8 b9 b10 b11 b12 b13 b14 b15 : BitVec 8) : getb (b0 ++ b1 ++ b2 ++ b3 ++ b4 ++ b5 ++ b6 ++ b7 ++ b8 ++ b9 ++ b10 ++ b11 ++ b12 ++ b13 ++ b14 ++ b15) 3 = b3 := by
  simp only [getb, Nat.reduceSub, Nat.reduceMul]
  bv_decide
theorem getb_pack4 (b0 b1 b2 b3 b4 b5 b6 b7 b8 b9 b10 b11 b12 b13 b14 b15 : BitVec 8) : getb (b0 ++ b1 ++ b2 ++ b3 ++ b4 ++ b5 ++ b6 ++ b7 ++ b8 ++ b9 ++ b10 ++ b11 ++ b12 ++ b13 ++ b14 ++ b15) 4 = b4 := by
  simp only [getb, Nat.reduceSub, Nat.reduceMul]
  bv_decide
theorem getb_pack5 (b0 b1 b2 b3 b4 b5 b6 b7 b8 b9 b10 b11 b12 b13 b14 b15 : BitVec 8) : getb (b0 ++ b1 ++ b2 ++ b3 ++ b4 ++ b5 ++ b6 ++ b7 ++ b8 ++ b9 ++ b10 ++ b11 ++ b12 ++ b13 ++ b14 ++ b15) 5 = b5 := by
  simp only [getb, Nat.reduceSub, Nat.reduceMul]
  bv_decide
theorem getb_pack6 (b0 b1 b2 b3 b4 b5 b6 b7 b8 b9 b10 b11 b12 b13 b14 b15 : BitVec 8) : getb (b0 ++ b1 ++ b2 ++ b3 ++ b4 ++ b5 ++ b6 ++ b7 ++ b8 ++ b9 ++ b10 ++ b11 ++ b12 ++ b13 ++ b14 ++ b15) 6 = b6 := by
  simp only [getb, Nat.reduceSub, Nat.reduceMul]
  bv_decide
theorem getb_pack7 (b0 b1 b2 b3 b4 b5 b6 b7 b8 b9 b10 b11 b12 b13 b14 b15 : BitVec 8) : getb (b0 ++ b1 ++ b2 ++ b3 ++ b4 ++ b5 ++ b6 ++ b7 ++ b8 ++ b9 ++ b10 ++ b11 ++ b12 ++ b13 ++ b14 ++ b15) 7 = b7 := by
  simp only [getb, Nat.reduceSub, Nat.reduceMul]
  bv_decide
theorem getb_pack8 (b0 b1 b2 b3 b4 b5 b6 b7 b8 b9 b10 b11 b12 b13 b14 b15 : BitVec 8) : getb (b0 ++ b1 ++ b2 ++ b3 ++ b4 ++ b5 ++ b6 ++ b7 ++ b8 ++ b9 ++ b10 ++ b11 ++ b12 ++ b13 ++ b14 ++ b15) 8 = b8 := by
  simp only [getb, Nat.reduceSub, Nat.reduceMul]
  bv_decide
theorem getb_pack9 (b0 b1 b2 b3 b4 b5 b6 b7 b8 b9 b10 b11 b12 b13 b14 b15 : BitVec 8) : getb (b0 ++ b1 ++ b2 ++ b3 ++ b4 ++ b5 ++ b6 ++ b7 ++ b8 ++ b9 ++ b10 ++ b11 ++ b12 ++ b13 ++ b14 ++ b15) 9 = b9 := by
  simp only [getb, Nat.reduceSub, Nat.reduceMul]
  bv_decide
theorem getb_pack10 (b0 b1 b2 b3 b4 b5 b6 b7 b8 b9 b10 b11 b12 b13 b14 b15 : BitVec 8) : getb (b0 ++ b1 ++ b2 ++ b3 ++ b4 ++ b5 ++ b6 ++ b7 ++ b8 ++ b9 ++ b10 ++ b11 ++ b12 ++ b13 ++ b14 ++ b15) 10 = b10 := by
  simp only [getb, Nat.reduceSub, Nat.reduceMul]
  bv_decide
theorem getb_pack11 (b0 b1 b2 b3 b4 b5 b6 b7 b8 b9 b10 b11 b12 b13 b14 b15 : BitVec 8) : getb (b0 ++ b1 ++ b2 ++ b3 ++ b4 ++ b5 ++ b6 ++ b7 ++ b8 ++ b9 ++ b10 ++ b11 ++ b12 ++ b13 ++ b14 ++ b15) 11 = b11 := by
  simp only [getb, Nat.reduceSub, Nat.reduceMul]
  bv_decide
theorem getb_pack12 (b0 b1 b2 b3 b4 b5 b6 b7 b8 b9 b10 b11 b12 b13 b14 b15 : BitVec 8) : getb (b0 ++ b1 ++ b2 ++ b3 ++ b4 ++ b5 ++ b6 ++ b7 ++ b8 ++ b9 ++ b10 ++ b11 ++ b12 ++ b13 ++ b14 ++ b15) 12 = b12 := by
  simp only [getb, Nat.reduceSub, Nat.reduceMul]
  bv_decide
theorem getb_pack13 (b0 b1 b2 b3 b4 b5 b6 b7 b8 b9 b10 b11 b12 b13 b14 b15 : BitVec 8) : getb (b0 ++ b1 ++ b2 ++ b3 ++ b4 ++ b5 ++ b6 ++ b7 ++ b8 ++ b9 ++ b10 ++ b11 ++ b12 ++ b13 ++ b14 ++ b15) 13 = b13 := by
  simp only [getb, Nat.reduceSub, Nat.reduceMul]
  bv_decide
theorem getb_pack14 (b0 b1 b2 b3 b4 b5 b6 b7 b8 b9 b10 b11 b12 b13 b14 b15 : BitVec 8) : getb (b0 ++ b1 ++ b2 ++ b3 ++ b4 ++ b5 ++ b6 ++ b7 ++ b8 ++ b9 ++ b10 ++ b11 ++ b12 ++ b13 ++ b14 ++ b15) 14 = b14 := by
  simp only [getb, Nat.reduceSub, Nat.reduceMul]
  bv_decide
theorem getb_pack15 (b0 b1 b2 b3 b4 b5 b6 b7 b8 b9 b10 b11 b12 b13 b14 b15 : BitVec 8) : getb (b0 ++ b1 ++ b2 ++ b3 ++ b4 ++ b5 ++ b6 ++ b7 ++ b8 ++ b9 ++ b10 ++ b11 ++ b12 ++ b13 ++ b14 ++ b15) 15 = b15 := by
  simp only [getb, Nat.reduceSub, Nat.reduceMul]
  bv_decide
theorem setb_pack0 (b0 b1 b2 b3 b4 b5 b6 b7 b8 b9 b10 b11 b12 b13 b14 b15 v : BitVec 8) : setb (b0 ++ b1 ++ b2 ++ b3 ++ b4 ++ b5 ++ b6 ++ b7 ++ b8 ++ b9 ++ b10 ++ b11 ++ b12 ++ b13 ++ b14 ++ b15) 0 v = v ++ b1 ++ b2 ++ b3 ++ b4 ++ b5 ++ b6 ++ b7 ++ b8 ++ b9 ++ b10 ++ b11 ++ b12 ++ b13 ++ b14 ++ b15 := by
  simp only [setb, Nat.reduceSub, Nat.reduceMul]
  bv_decide
theorem setb_pack1 (b0 b1 b2 b3 b4 b5 b6 b7 b8 b9 b10 b11 b12 b13 b14 b15 v : BitVec 8) : setb (b0 ++ b1 ++ b2 ++ b3 ++ b4 ++ b5 ++ b6 ++ b7 ++ b8 ++ b9 ++ b10 ++ b11 ++ b12 ++ b13 ++ b14 ++ b15) 1 v = b0 ++ v ++ b2 ++ b3 ++ b4 ++ b5 ++ b6 ++ b7 ++ b8 ++ b9 ++ b10 ++ b11 ++ b12 ++ b13 ++ b14 ++ b15 := by
  simp only [setb, Nat.reduceSub, Nat.reduceMul]
  bv_decide
theorem setb_pack2 (b0 b1 b2 b3 b4 b5 b6 b7 b8 b9 b10 b11 b12 b13 b14 b15 v : BitVec 8) : setb (b0 ++ b1 ++ b2 ++ b3 ++ b4 ++ b5 ++ b6 ++ b7 ++ b8 ++ b9 ++ b10 ++ b11 ++ b12 ++ b13 ++ b14 ++ b15) 2 v = b0 ++ b1 ++ v ++ b3 ++ b4 ++ b5 ++ b6 ++ b7 ++ b8 ++ b9 ++ b10 ++ b11 ++ b12 ++ b13 ++ b14 ++ b15 := by
  simp only [setb, Nat.reduceSub, Nat.reduceMul]
  bv_decide
theorem setb_pack3 (b0 b1 b2 b3 b4 b5 b6 b7 b8 b9 b10 b11 b12 b13 b14 b15 v : BitVec 8) : setb (b0 ++ b1 ++ b2 ++ b3 ++ b4 ++ b5 ++ b6 ++ b7 ++ b8 ++ b9 ++ b10 ++ b11 ++ b12 ++ b13 ++ b14 ++ b15) 3 v = b0 ++ b1 ++ b2 ++ v ++ b4 ++ b5 ++ b6 ++ b7 ++ b8 ++ b9 ++ b10 ++ b11 ++ b12 ++ b13 ++ b14 ++ b15 := by
  simp only [setb, Nat.reduceSub, Nat.reduceMul]
  bv_decide
theorem setb_pack4 (b0 b1 b2 b3 b4 b5 b6 b7 b8 b9 b10 b11 b12 b13 b14 b15 v : BitVec 8) : setb (b0 ++ b1 ++ b2 ++ b3 ++ b4 ++ b5 ++ b6 ++ b7 ++ b8 ++ b9 ++ b10 ++ b11 ++ b12 ++ b13 ++ b14 ++ b15) 4 v = b0 ++ b1 ++ b2 ++ b3 ++ v ++ b5 ++ b6 ++ b7 ++ b8 ++ b9 ++ b10 ++ b11 ++ b12 ++ b13 ++ b14 ++ b15 := by
  simp only [setb, Nat.reduceSub, Nat.reduceMul]
  bv_decide
theorem setb_pack5 (b0 b1 b2 b3 b4 b5 b6 b7 b8 b9 b10 b11 b12 b13 b14 b15 v : BitVec 8) : setb (b0 ++ b1 ++ b2 ++ b3 ++ b4 ++ b5 ++ b6 ++ b7 ++ b8 ++ b9 ++ b10 ++ b11 ++ b12 ++ b13 ++ b14 ++ b15) 5 v = b0 ++ b1 ++ b2 ++ b3 ++ b4 ++ v ++ b6 ++ b7 ++ b8 ++ b9 ++ b10 ++ b11 ++ b12 ++ b13 ++ b14 ++ b15 := by
  simp only [setb, Nat.reduceSub, Nat.reduceMul]
  bv_decide
theorem setb_pack6 (b0 b1 b2 b3 b4 b5 b6 b7 b8 b9 b10 b11 b12 b13 b14 b15 v : BitVec 8) : setb (b0 ++ b1 ++ b2 ++ b3 ++ b4 ++ b5 ++ b6 ++ b7 ++ b8 ++ b9 ++ b10 ++ b11 ++ b12 ++ b13 ++ b14 ++ b15) 6 v = b0 ++ b1 ++ b2 ++ b3 ++ b4 ++ b5 ++ v ++ b7 ++ b8 ++ b9 ++ b10 ++ b11 ++ b12 ++ b13 ++ b14 ++ b15 := by
  simp only [setb, Nat.reduceSub, Nat.reduceMul]
  bv_decide
theorem setb_pack7 (b0 b1 b2 b3 b4 b5 b6 b7 b8 b9 b10 b11 b12 b13 b14 b15 v : BitVec 8) : setb (b0 ++ b1 ++ b2 ++ b3 ++ b4 ++ b5 ++ b6 ++ b7 ++ b8 ++ b9 ++ b10 ++ b11 ++ b12 ++ b13 ++ b14 ++ b15) 7 v = b0 ++ b1 ++ b2 ++ b3 ++ b4 ++ b5 ++ b6 ++ v ++ b8 ++ b9 ++ b10 ++ b11 ++ b12 ++ b13 ++ b14 ++ b15 := by
  simp only [setb, Nat.reduceSub, Nat.reduceMul]
  bv_decide
theorem setb_pack8 (b0 b1 b2 b3 b4 b5 b6 b7 b8 b9 b10 b11 b12 b13 b14 b15 v : BitVec 8) : setb (b0 ++ b1 ++ b2 ++ b3 ++ b4 ++ b5 ++ b6 ++ b7 ++ b8 ++ b9 ++ b10 ++ b11 ++ b12 ++ b13 ++ b14 ++ b15) 8 v = b0 ++ b1 ++ b2 ++ b3 ++ b4 ++ b5 ++ b6 ++ b7 ++ v ++ b9 ++ b10 ++ b11 ++ b12 ++ b13 ++ b14 ++ b15 := by
  simp only [setb, Nat.reduceSub, Nat.reduceMul]
  bv_decide
theorem setb_pack9 (b0 b1 b2 b3 b4 b5 b6 b7 b8 b9 b10 b11 b12 b13 b14 b15 v : BitVec 8) : setb (b0 ++ b1 ++ b2 ++ b3 ++ b4 ++ b5 ++ b6 ++ b7 ++ b8 ++ b9 ++ b10 ++ b11 ++ b12 ++ b13 ++ b14 ++ b15) 9 v = b0 ++ b1 ++ b2 ++ b3 ++ b4 ++ b5 ++ b6 ++ b7 ++ b8 ++ v ++ b10 ++ b11 ++ b12 ++ b13 ++ b14 ++ b15 := by
  simp only [setb, Nat.reduceSub, Nat.reduceMul]
  bv_decide
theorem setb_pack10 (b0 b1 b2 b3 b4 b5 b6 b7 b8 b9 b10 b11 b12 b13 b14 b15 v : BitVec 8) : setb (b0 ++ b1 ++ b2 ++ b3 ++ b4 ++ b5 ++ b6 ++ b7 ++ b8 ++ b9 ++ b10 ++ b11 ++ b12 ++ b13 ++ b14 ++ b15) 10 v = b0 ++ b1 ++ b2 ++ b3 ++ b4 ++ b5 ++ b6 ++ b7 ++ b8 ++ b9 ++ v ++ b11 ++ b12 ++ b13 ++ b14 ++ b15 := by
  simp only [setb, Nat.reduceSub, Nat.reduceMul]
  bv_decide
theorem setb_pack11 (b0 b1 b2 b3 b4 b5 b6 b7 b8 b9 b10 b11 b12 b13 b14 b15 v : BitVec 8) : setb (b0 ++ b1 ++ b2 ++ b3 ++ b4 ++ b5 ++ b6 ++ b7 ++ b8 ++ b9 ++ b10 ++ b11 ++ b12 ++ b13 ++ b14 ++ b15) 11 v = b0 ++ b1 ++ b2 ++ b3 ++ b4 ++ b5 ++ b6 ++ b7 ++ b8 ++ b9 ++ b10 ++ v ++ b12 ++ b13 ++ b14 ++ b15 := by
  simp only [setb, Nat.reduceSub, Nat.reduceMul]
  bv_decide
theorem setb_pack12 (b0 b1 b2 b3 b4 b5 b6 b7 b8 b9 b10 b11 b12 b13 b14 b15 v : BitVec 8) : setb (b0 ++ b1 ++ b2 ++ b3 ++ b4 ++ b5 ++ b6 ++ b7 ++ b8 ++ b9 ++ b10 ++ b11 ++ b12 ++ b13 ++ b14 ++ b15) 12 v = b0 ++ b1 ++ b2 ++ b3 ++ b4 ++ b5 ++ b6 ++ b7 ++ b8 ++ b9 ++ b10 ++ b11 ++ v ++ b13 ++ b14 ++ b15 := by
  simp only [setb, Nat.reduceSub, Nat.reduceMul]
  bv_decide
theorem setb_pack13 (b0 b1 b2 b3 b4 b5 b6 b7 b8 b9 b10 b11 b12 b13 b14 b15 v : BitVec 8) : setb (b0 ++ b1 ++ b2 ++ b3 ++ b4 ++ b5 ++ b6 ++ b7 ++ b8 ++ b9 ++ b10 ++ b11 ++ b12 ++ b13 ++ b14 ++ b15) 13 v = b0 ++ b1 ++ b2 ++ b3 ++ b4 ++ b5 ++ b6 ++ b7 ++ b8 ++ b9 ++ b10 ++ b11 ++ b12 ++ v ++ b14 ++ b15 := by
  simp only [setb, Nat.reduceSub, Nat.reduceMul]
  bv_decide
theorem setb_pack14 (b0 b1 b2 b3 b4 b5 b6 b7 b8 b9 b10 b11 b12 b13 b14 b15 v : BitVec 8) : setb (b0 ++ b1 ++ b2 ++ b3 ++ b4 ++ b5 ++ b6 ++ b7 ++ b8 ++ b9 ++ b10 ++ b11 ++ b12 ++ b13 ++ b14 ++ b15) 14 v = b0 ++ b1 ++ b2 ++ b3 ++ b4 ++ b5 ++ b6 ++ b7 ++ b8 ++ b9 ++ b10 ++ b11 ++ b12 ++ b13 ++ v ++ b15 := by
  simp only [setb, Nat.reduceSub, Nat.reduceMul]
  bv_decide
theorem setb_pack15 (b0 b1 b2 b3 b4 b5 b6 b7 b8 b9 b10 b11 b12 b13 b14 b15 v : BitVec 8) : setb (b0 ++ b1 ++ b2 ++ b3 ++ b4 ++ b5 ++ b6 ++ b7 ++ b8 ++ b9 ++ b10 ++ b11 ++ b12 ++ b13 ++ b14 ++ b15) 15 v = b0 ++ b1 ++ b2 ++ b3 ++ b4 ++ b5 ++ b6 ++ b7 ++ b8 ++ b9 ++ b10 ++ b11 ++ b12 ++ b13 ++ b14 ++ v := by
  simp only [setb, Nat.reduceSub, Nat.reduceMul]
  bv_decide

theorem mapBytes_cat (f : BitVec 8 → BitVec 8) (b0 b1 b2 b3 b4 b5 b6 b7 b8 b9 b10 b11 b12 b13 b14 b15 : BitVec 8) :
    mapBytes f (b0 ++ b1 ++ b2 ++ b3 ++ b4 ++ b5 ++ b6 ++ b7 ++ b8 ++ b9 ++ b10 ++ b11 ++ b12 ++ b13 ++ b14 ++ b15) = f b0 ++ f b1 ++ f b2 ++ f b3 ++ f b4 ++ f b5 ++ f b6 ++ f b7 ++ f b8 ++ f b9 ++ f b10 ++ f b11 ++ f b12 ++ f b13 ++ f b14 ++ f b15 := by
  apply ext_getb; intro k hk
  rw [getb_mapBytes f _ k hk]
  have hc : k = 0 ∨ k = 1 ∨ k = 2 ∨ k = 3 ∨ k = 4 ∨ k = 5 ∨ k = 6 ∨ k = 7 ∨ k = 8 ∨ k = 9 ∨ k = 10 ∨ k = 11 ∨ k = 12 ∨ k = 13 ∨ k = 14 ∨ k = 15 := by omega
  rcases hc with h | h | h | h | h | h | h | h | h | h | h | h | h | h | h | h <;> subst h <;>
    simp only [getb_pack0, getb_pack1, getb_pack2, getb_pack3, getb_pack4, getb_pack5, getb_pack6, getb_pack7, getb_pack8, getb_pack9, getb_pack10, getb_pack11, getb_pack12, getb_pack13, getb_pack14, getb_pack15]

/-! ### tables -/

theorem idx8 (b : BitVec 8) : (b.setWidth 64).toNat = b.toNat := by
  simp only [BitVec.toNat_setWidth]; have := b.isLt; omega

theorem at_of_fin (t : Array Nat) (v : Vector (BitVec 8) 256)
    (h : ∀ n : Fin 256, BC.Gen.tblAt t n.val 8 = lut v (BitVec.ofNat 8 n.val)) (b : BitVec 8) :
    BC.Gen.tblAt t (b.setWidth 64).toNat 8 = lut v b := by
  have := h ⟨b.toNat, b.isLt⟩
  simp only [BitVec.ofNat_toNat, BitVec.setWidth_eq] at this
  rw [idx8]; exact this

/-- a computed GF(2^8) multiplication table, checked against `mul_gf256 a` (256 short loops; looking the model's
`GFT_*` vectors up instead would rebuild the whole vector for every index) -/
theorem gf_of_fin (t : Array Nat) (a : BitVec 8)
    (h : ∀ n : Fin 256, BC.Gen.tblAt t n.val 8 = mul_gf256 a (BitVec.ofNat 8 n.val)) (b : BitVec 8) :
    BC.Gen.tblAt t (b.setWidth 64).toNat 8 = lut (mul_table_gf256 a) b := by
  have := h ⟨b.toNat, b.isLt⟩
  simp only [BitVec.ofNat_toNat, BitVec.setWidth_eq] at this
  rw [idx8, lut_mul_table]; exact this

theorem p_entry : ∀ n : Fin 256, BC.Gen.tblAt BC.Gen.kuznyechik_P n.val 8 = lut P (BitVec.ofNat 8 n.val) := by decide +kernel
theorem p_at (b : BitVec 8) : BC.Gen.tblAt BC.Gen.kuznyechik_P (b.setWidth 64).toNat 8 = lut P b := at_of_fin _ _ p_entry b

/-- the seven computed tables are the model's `GFT_*` (in the order of their first use in `l_step`) -/
structure GfOK (t0 t1 t2 t3 t4 t5 t6 : Array Nat) : Prop where
  h0 : ∀ b : BitVec 8, BC.Gen.tblAt t0 (b.setWidth 64).toNat 8 = lut GFT_148 b
  h1 : ∀ b : BitVec 8, BC.Gen.tblAt t1 (b.setWidth 64).toNat 8 = lut GFT_32 b
  h2 : ∀ b : BitVec 8, BC.Gen.tblAt t2 (b.setWidth 64).toNat 8 = lut GFT_133 b
  h3 : ∀ b : BitVec 8, BC.Gen.tblAt t3 (b.setWidth 64).toNat 8 = lut GFT_16 b
  h4 : ∀ b : BitVec 8, BC.Gen.tblAt t4 (b.setWidth 64).toNat 8 = lut GFT_194 b
  h5 : ∀ b : BitVec 8, BC.Gen.tblAt t5 (b.setWidth 64).toNat 8 = lut GFT_192 b
  h6 : ∀ b : BitVec 8, BC.Gen.tblAt t6 (b.setWidth 64).toNat 8 = lut GFT_251 b

/-- `PinvOK pinv`: the computed `P_INV` is the model's -/
def PinvOK (pinv : Array Nat) : Prop := ∀ b : BitVec 8, BC.Gen.tblAt pinv (b.setWidth 64).toNat 8 = lut P_INV b

/-! ### the steps -/

theorem sB_pack (m : B16) : (sB m).pack = mapBytes (lut P) m.pack := by
  obtain ⟨b0, b1, b2, b3, b4, b5, b6, b7, b8, b9, b10, b11, b12, b13, b14, b15⟩ := m
  simp only [sB, B16.pack, mapBytes_cat, p_at]

theorem sInvB_pack (pinv : Array Nat) (hp : PinvOK pinv) (m : B16) : (sInvB pinv m).pack = mapBytes (lut P_INV) m.pack := by
  obtain ⟨b0, b1, b2, b3, b4, b5, b6, b7, b8, b9, b10, b11, b12, b13, b14, b15⟩ := m
  simp only [sInvB, B16.pack, mapBytes_cat, hp _]

theorem get_idx_0 : get_idx 0 0 = 0 ∧ get_idx 1 0 = 1 ∧ get_idx 2 0 = 2 ∧ get_idx 3 0 = 3 ∧ get_idx 4 0 = 4 ∧ get_idx 5 0 = 5 ∧ get_idx 6 0 = 6 ∧ get_idx 7 0 = 7 ∧ get_idx 8 0 = 8 ∧ get_idx 9 0 = 9 ∧ get_idx 10 0 = 10 ∧ get_idx 11 0 = 11 ∧ get_idx 12 0 = 12 ∧ get_idx 13 0 = 13 ∧ get_idx 14 0 = 14 ∧ get_idx 15 0 = 15 := by decide
theorem get_idx_1 : get_idx 0 1 = 15 ∧ get_idx 1 1 = 0 ∧ get_idx 2 1 = 1 ∧ get_idx 3 1 = 2 ∧ get_idx 4 1 = 3 ∧ get_idx 5 1 = 4 ∧ get_idx 6 1 = 5 ∧ get_idx 7 1 = 6 ∧ get_idx 8 1 = 7 ∧ get_idx 9 1 = 8 ∧ get_idx 10 1 = 9 ∧ get_idx 11 1 = 10 ∧ get_idx 12 1 = 11 ∧ get_idx 13 1 = 12 ∧ get_idx 14 1 = 13 ∧ get_idx 15 1 = 14 := by decide
theorem get_idx_2 : get_idx 0 2 = 14 ∧ get_idx 1 2 = 15 ∧ get_idx 2 2 = 0 ∧ get_idx 3 2 = 1 ∧ get_idx 4 2 = 2 ∧ get_idx 5 2 = 3 ∧ get_idx 6 2 = 4 ∧ get_idx 7 2 = 5 ∧ get_idx 8 2 = 6 ∧ get_idx 9 2 = 7 ∧ get_idx 10 2 = 8 ∧ get_idx 11 2 = 9 ∧ get_idx 12 2 = 10 ∧ get_idx 13 2 = 11 ∧ get_idx 14 2 = 12 ∧ get_idx 15 2 = 13 := by decide
theorem get_idx_3 : get_idx 0 3 = 13 ∧ get_idx 1 3 = 14 ∧ get_idx 2 3 = 15 ∧ get_idx 3 3 = 0 ∧ get_idx 4 3 = 1 ∧ get_idx 5 3 = 2 ∧ get_idx 6 3 = 3 ∧ get_idx 7 3 = 4 ∧ get_idx 8 3 = 5 ∧ get_idx 9 3 = 6 ∧ get_idx 10 3 = 7 ∧ get_idx 11 3 = 8 ∧ get_idx 12 3 = 9 ∧ get_idx 13 3 = 10 ∧ get_idx 14 3 = 11 ∧ get_idx 15 3 = 12 := by decide
theorem get_idx_4 : get_idx 0 4 = 12 ∧ get_idx 1 4 = 13 ∧ get_idx 2 4 = 14 ∧ get_idx 3 4 = 15 ∧ get_idx 4 4 = 0 ∧ get_idx 5 4 = 1 ∧ get_idx 6 4 = 2 ∧ get_idx 7 4 = 3 ∧ get_idx 8 4 = 4 ∧ get_idx 9 4 = 5 ∧ get_idx 10 4 = 6 ∧ get_idx 11 4 = 7 ∧ get_idx 12 4 = 8 ∧ get_idx 13 4 = 9 ∧ get_idx 14 4 = 10 ∧ get_idx 15 4 = 11 := by decide
theorem get_idx_5 : get_idx 0 5 = 11 ∧ get_idx 1 5 = 12 ∧ get_idx 2 5 = 13 ∧ get_idx 3 5 = 14 ∧ get_idx 4 5 = 15 ∧ get_idx 5 5 = 0 ∧ get_idx 6 5 = 1 ∧ get_idx 7 5 = 2 ∧ get_idx 8 5 = 3 ∧ get_idx 9 5 = 4 ∧ get_idx 10 5 = 5 ∧ get_idx 11 5 = 6 ∧ get_idx 12 5 = 7 ∧ get_idx 13 5 = 8 ∧ get_idx 14 5 = 9 ∧ get_idx 15 5 = 10 := by decide
theorem get_idx_6 : get_idx 0 6 = 10 ∧ get_idx 1 6 = 11 ∧ get_idx 2 6 = 12 ∧ get_idx 3 6 = 13 ∧ get_idx 4 6 = 14 ∧ get_idx 5 6 = 15 ∧ get_idx 6 6 = 0 ∧ get_idx 7 6 = 1 ∧ get_idx 8 6 = 2 ∧ get_idx 9 6 = 3 ∧ get_idx 10 6 = 4 ∧ get_idx 11 6 = 5 ∧ get_idx 12 6 = 6 ∧ get_idx 13 6 = 7 ∧ get_idx 14 6 = 8 ∧ get_idx 15 6 = 9 := by decide
theorem get_idx_7 : get_idx 0 7 = 9 ∧ get_idx 1 7 = 10 ∧ get_idx 2 7 = 11 ∧ get_idx 3 7 = 12 ∧ get_idx 4 7 = 13 ∧ get_idx 5 7 = 14 ∧ get_idx 6 7 = 15 ∧ get_idx 7 7 = 0 ∧ get_idx 8 7 = 1 ∧ get_idx 9 7 = 2 ∧ get_idx 10 7 = 3 ∧ get_idx 11 7 = 4 ∧ get_idx 12 7 = 5 ∧ get_idx 13 7 = 6 ∧ get_idx 14 7 = 7 ∧ get_idx 15 7 = 8 := by decide
theorem get_idx_8 : get_idx 0 8 = 8 ∧ get_idx 1 8 = 9 ∧ get_idx 2 8 = 10 ∧ get_idx 3 8 = 11 ∧ get_idx 4 8 = 12 ∧ get_idx 5 8 = 13 ∧ get_idx 6 8 = 14 ∧ get_idx 7 8 = 15 ∧ get_idx 8 8 = 0 ∧ get_idx 9 8 = 1 ∧ get_idx 10 8 = 2 ∧ get_idx 11 8 = 3 ∧ get_idx 12 8 = 4 ∧ get_idx 13 8 = 5 ∧ get_idx 14 8 = 6 ∧ get_idx 15 8 = 7 := by decide
theorem get_idx_9 : get_idx 0 9 = 7 ∧ get_idx 1 9 = 8 ∧ get_idx 2 9 = 9 ∧ get_idx 3 9 = 10 ∧ get_idx 4 9 = 11 ∧ get_idx 5 9 = 12 ∧ get_idx 6 9 = 13 ∧ get_idx 7 9 = 14 ∧ get_idx 8 9 = 15 ∧ get_idx 9 9 = 0 ∧ get_idx 10 9 = 1 ∧ get_idx 11 9 = 2 ∧ get_idx 12 9 = 3 ∧ get_idx 13 9 = 4 ∧ get_idx 14 9 = 5 ∧ get_idx 15 9 = 6 := by decide
theorem get_idx_10 : get_idx 0 10 = 6 ∧ get_idx 1 10 = 7 ∧ get_idx 2 10 = 8 ∧ get_idx 3 10 = 9 ∧ get_idx 4 10 = 10 ∧ get_idx 5 10 = 11 ∧ get_idx 6 10 = 12 ∧ get_idx 7 10 = 13 ∧ get_idx 8 10 = 14 ∧ get_idx 9 10 = 15 ∧ get_idx 10 10 = 0 ∧ get_idx 11 10 = 1 ∧ get_idx 12 10 = 2 ∧ get_idx 13 10 = 3 ∧ get_idx 14 10 = 4 ∧ get_idx 15 10 = 5 := by decide
theorem get_idx_11 : get_idx 0 11 = 5 ∧ get_idx 1 11 = 6 ∧ get_idx 2 11 = 7 ∧ get_idx 3 11 = 8 ∧ get_idx 4 11 = 9 ∧ get_idx 5 11 = 10 ∧ get_idx 6 11 = 11 ∧ get_idx 7 11 = 12 ∧ get_idx 8 11 = 13 ∧ get_idx 9 11 = 14 ∧ get_idx 10 11 = 15 ∧ get_idx 11 11 = 0 ∧ get_idx 12 11 = 1 ∧ get_idx 13 11 = 2 ∧ get_idx 14 11 = 3 ∧ get_idx 15 11 = 4 := by decide
theorem get_idx_12 : get_idx 0 12 = 4 ∧ get_idx 1 12 = 5 ∧ get_idx 2 12 = 6 ∧ get_idx 3 12 = 7 ∧ get_idx 4 12 = 8 ∧ get_idx 5 12 = 9 ∧ get_idx 6 12 = 10 ∧ get_idx 7 12 = 11 ∧ get_idx 8 12 = 12 ∧ get_idx 9 12 = 13 ∧ get_idx 10 12 = 14 ∧ get_idx 11 12 = 15 ∧ get_idx 12 12 = 0 ∧ get_idx 13 12 = 1 ∧ get_idx 14 12 = 2 ∧ get_idx 15 12 = 3 := by decide
theorem get_idx_13 : get_idx 0 13 = 3 ∧ get_idx 1 13 = 4 ∧ get_idx 2 13 = 5 ∧ get_idx 3 13 = 6 ∧ get_idx 4 13 = 7 ∧ get_idx 5 13 = 8 ∧ get_idx 6 13 = 9 ∧ get_idx 7 13 = 10 ∧ get_idx 8 13 = 11 ∧ get_idx 9 13 = 12 ∧ get_idx 10 13 = 13 ∧ get_idx 11 13 = 14 ∧ get_idx 12 13 = 15 ∧ get_idx 13 13 = 0 ∧ get_idx 14 13 = 1 ∧ get_idx 15 13 = 2 := by decide
theorem get_idx_14 : get_idx 0 14 = 2 ∧ get_idx 1 14 = 3 ∧ get_idx 2 14 = 4 ∧ get_idx 3 14 = 5 ∧ get_idx 4 14 = 6 ∧ get_idx 5 14 = 7 ∧ get_idx 6 14 = 8 ∧ get_idx 7 14 = 9 ∧ get_idx 8 14 = 10 ∧ get_idx 9 14 = 11 ∧ get_idx 10 14 = 12 ∧ get_idx 11 14 = 13 ∧ get_idx 12 14 = 14 ∧ get_idx 13 14 = 15 ∧ get_idx 14 14 = 0 ∧ get_idx 15 14 = 1 := by decide
theorem get_idx_15 : get_idx 0 15 = 1 ∧ get_idx 1 15 = 2 ∧ get_idx 2 15 = 3 ∧ get_idx 3 15 = 4 ∧ get_idx 4 15 = 5 ∧ get_idx 5 15 = 6 ∧ get_idx 6 15 = 7 ∧ get_idx 7 15 = 8 ∧ get_idx 8 15 = 9 ∧ get_idx 9 15 = 10 ∧ get_idx 10 15 = 11 ∧ get_idx 11 15 = 12 ∧ get_idx 12 15 = 13 ∧ get_idx 13 15 = 14 ∧ get_idx 14 15 = 15 ∧ get_idx 15 15 = 0 := by decide

theorem lstepB0_pack (t0 t1 t2 t3 t4 t5 t6 : Array Nat) (h : GfOK t0 t1 t2 t3 t4 t5 t6) (m : B16) : (lstepB0 t0 t1 t2 t3 t4 t5 t6 m).pack = l_step m.pack 0 := by
  obtain ⟨b0, b1, b2, b3, b4, b5, b6, b7, b8, b9, b10, b11, b12, b13, b14, b15⟩ := m
  simp only [lstepB0, lnew, B16.pack, l_step, get_m, get_idx_0, getb_pack0, getb_pack1, getb_pack2, getb_pack3, getb_pack4, getb_pack5, getb_pack6, getb_pack7, getb_pack8, getb_pack9, getb_pack10, getb_pack11, getb_pack12, getb_pack13, getb_pack14, getb_pack15, setb_pack0, setb_pack1, setb_pack2, setb_pack3, setb_pack4, setb_pack5, setb_pack6, setb_pack7, setb_pack8, setb_pack9, setb_pack10, setb_pack11, setb_pack12, setb_pack13, setb_pack14, setb_pack15, h.h0, h.h1, h.h2, h.h3, h.h4, h.h5, h.h6]
theorem lstepB1_pack (t0 t1 t2 t3 t4 t5 t6 : Array Nat) (h : GfOK t0 t1 t2 t3 t4 t5 t6) (m : B16) : (lstepB1 t0 t1 t2 t3 t4 t5 t6 m).pack = l_step m.pack 1 := by
  obtain ⟨b0, b1, b2, b3, b4, b5, b6, b7, b8, b9, b10, b11, b12, b13, b14, b15⟩ := m
  simp only [lstepB1, lnew, B16.pack, l_step, get_m, get_idx_1, getb_pack0, getb_pack1, getb_pack2, getb_pack3, getb_pack4, getb_pack5, getb_pack6, getb_pack7, getb_pack8, getb_pack9, getb_pack10, getb_pack11, getb_pack12, getb_pack13, getb_pack14, getb_pack15, setb_pack0, setb_pack1, setb_pack2, setb_pack3, setb_pack4, setb_pack5, setb_pack6, setb_pack7, setb_pack8, setb_pack9, setb_pack10, setb_pack11, setb_pack12, setb_pack13, setb_pack14, setb_pack15, h.h0, h.h1, h.h2, h.h3, h.h4, h.h5, h.h6]
theorem lstepB2_pack (t0 t1 t2 t3 t4 t5 t6 : Array Nat) (h : GfOK t0 t1 t2 t3 t4 t5 t6) (m : B16) : (lstepB2 t0 t1 t2 t3 t4 t5 t6 m).pack = l_step m.pack 2 := by
  obtain ⟨b0, b1, b2, b3, b4, b5, b6, b7, b8, b9, b10, b11, b12, b13, b14, b15⟩ := m
  simp only [lstepB2, lnew, B16.pack, l_step, get_m, get_idx_2, getb_pack0, getb_pack1, getb_pack2, getb_pack3, getb_pack4, getb_pack5, getb_pack6, getb_pack7, getb_pack8, getb_pack9, getb_pack10, getb_pack11, getb_pack12, getb_pack13, getb_pack14, getb_pack15, setb_pack0, setb_pack1, setb_pack2, setb_pack3, setb_pack4, setb_pack5, setb_pack6, setb_pack7, setb_pack8, setb_pack9, setb_pack10, setb_pack11, setb_pack12, setb_pack13, setb_pack14, setb_pack15, h.h0, h.h1, h.h2, h.h3, h.h4, h.h5, h.h6]
theorem lstepB3_pack (t0 t1 t2 t3 t4 t5 t6 : Array Nat) (h : GfOK t0 t1 t2 t3 t4 t5 t6) (m : B16) : (lstepB3 t0 t1 t2 t3 t4 t5 t6 m).pack = l_step m.pack 3 := by
  obtain ⟨b0, b1, b2, b3, b4, b5, b6, b7, b8, b9, b10, b11, b12, b13, b14, b15⟩ := m
  simp only [lstepB3, lnew, B16.pack, l_step, get_m, get_idx_3, getb_pack0, getb_pack1, getb_pack2, getb_pack3, getb_pack4, getb_pack5, getb_pack6, getb_pack7, getb_pack8, getb_pack9, getb_pack10, getb_pack11, getb_pack12, getb_pack13, getb_pack14, getb_pack15, setb_pack0, setb_pack1, setb_pack2, setb_pack3, setb_pack4, setb_pack5, setb_pack6, setb_pack7, setb_pack8, setb_pack9, setb_pack10, setb_pack11, setb_pack12, setb_pack13, setb_pack14, setb_pack15, h.h0, h.h1, h.h2, h.h3, h.h4, h.h5, h.h6]
theorem lstepB4_pack (t0 t1 t2 t3 t4 t5 t6 : Array Nat) (h : GfOK t0 t1 t2 t3 t4 t5 t6) (m : B16) : (lstepB4 t0 t1 t2 t3 t4 t5 t6 m).pack = l_step m.pack 4 := by
  obtain ⟨b0, b1, b2, b3, b4, b5, b6, b7, b8, b9, b10, b11, b12, b13, b14, b15⟩ := m
  simp only [lstepB4, lnew, B16.pack, l_step, get_m, get_idx_4, getb_pack0, getb_pack1, getb_pack2, getb_pack3, getb_pack4, getb_pack5, getb_pack6, getb_pack7, getb_pack8, getb_pack9, getb_pack10, getb_pack11, getb_pack12, getb_pack13, getb_pack14, getb_pack15, setb_pack0, setb_pack1, setb_pack2, setb_pack3, setb_pack4, setb_pack5, setb_pack6, setb_pack7, setb_pack8, setb_pack9, setb_pack10, setb_pack11, setb_pack12, setb_pack13, setb_pack14, setb_pack15, h.h0, h.h1, h.h2, h.h3, h.h4, h.h5, h.h6]
theorem lstepB5_pack (t0 t1 t2 t3 t4 t5 t6 : Array Nat) (h : GfOK t0 t1 t2 t3 t4 t5 t6) (m : B16) : (lstepB5 t0 t1 t2 t3 t4 t5 t6 m).pack = l_step m.pack 5 := by
  obtain ⟨b0, b1, b2, b3, b4, b5, b6, b7, b8, b9, b10, b11, b12, b13, b14, b15⟩ := m
  simp only [lstepB5, lnew, B16.pack, l_step, get_m, get_idx_5, getb_pack0, getb_pack1, getb_pack2, getb_pack3, getb_pack4, getb_pack5, getb_pack6, getb_pack7, getb_pack8, getb_pack9, getb_pack10, getb_pack11, getb_pack12, getb_pack13, getb_pack14, getb_pack15, setb_pack0, setb_pack1, setb_pack2, setb_pack3, setb_pack4, setb_pack5, setb_pack6, setb_pack7, setb_pack8, setb_pack9, setb_pack10, setb_pack11, setb_pack12, setb_pack13, setb_pack14, setb_pack15, h.h0, h.h1, h.h2, h.h3, h.h4, h.h5, h.h6]
theorem lstepB6_pack (t0 t1 t2 t3 t4 t5 t6 : Array Nat) (h : GfOK t0 t1 t2 t3 t4 t5 t6) (m : B16) : (lstepB6 t0 t1 t2 t3 t4 t5 t6 m).pack = l_step m.pack 6 := by
  obtain ⟨b0, b1, b2, b3, b4, b5, b6, b7, b8, b9, b10, b11, b12, b13, b14, b15⟩ := m
  simp only [lstepB6, lnew, B16.pack, l_step, get_m, get_idx_6, getb_pack0, getb_pack1, getb_pack2, getb_pack3, getb_pack4, getb_pack5, getb_pack6, getb_pack7, getb_pack8, getb_pack9, getb_pack10, getb_pack11, getb_pack12, getb_pack13, getb_pack14, getb_pack15, setb_pack0, setb_pack1, setb_pack2, setb_pack3, setb_pack4, setb_pack5, setb_pack6, setb_pack7, setb_pack8, setb_pack9, setb_pack10, setb_pack11, setb_pack12, setb_pack13, setb_pack14, setb_pack15, h.h0, h.h1, h.h2, h.h3, h.h4, h.h5, h.h6]
theorem lstepB7_pack (t0 t1 t2 t3 t4 t5 t6 : Array Nat) (h : GfOK t0 t1 t2 t3 t4 t5 t6) (m : B16) : (lstepB7 t0 t1 t2 t3 t4 t5 t6 m).pack = l_step m.pack 7 := by
  obtain ⟨b0, b1, b2, b3, b4, b5, b6, b7, b8, b9, b10, b11, b12, b13, b14, b15⟩ := m
  simp only [lstepB7, lnew, B16.pack, l_step, get_m, get_idx_7, getb_pack0, getb_pack1, getb_pack2, getb_pack3, getb_pack4, getb_pack5, getb_pack6, getb_pack7, getb_pack8, getb_pack9, getb_pack10, getb_pack11, getb_pack12, getb_pack13, getb_pack14, getb_pack15, setb_pack0, setb_pack1, setb_pack2, setb_pack3, setb_pack4, setb_pack5, setb_pack6, setb_pack7, setb_pack8, setb_pack9, setb_pack10, setb_pack11, setb_pack12, setb_pack13, setb_pack14, setb_pack15, h.h0, h.h1, h.h2, h.h3, h.h4, h.h5, h.h6]
theorem lstepB8_pack (t0 t1 t2 t3 t4 t5 t6 : Array Nat) (h : GfOK t0 t1 t2 t3 t4 t5 t6) (m : B16) : (lstepB8 t0 t1 t2 t3 t4 t5 t6 m).pack = l_step m.pack 8 := by
  obtain ⟨b0, b1, b2, b3, b4, b5, b6, b7, b8, b9, b10, b11, b12, b13, b14, b15⟩ := m
  simp only [lstepB8, lnew, B16.pack, l_step, get_m, get_idx_8, getb_pack0, getb_pack1, getb_pack2, getb_pack3, getb_pack4, getb_pack5, getb_pack6, getb_pack7, getb_pack8, getb_pack9, getb_pack10, getb_pack11, getb_pack12, getb_pack13, getb_pack14, getb_pack15, setb_pack0, setb_pack1, setb_pack2, setb_pack3, setb_pack4, setb_pack5, setb_pack6, setb_pack7, setb_pack8, setb_pack9, setb_pack10, setb_pack11, setb_pack12, setb_pack13, setb_pack14, setb_pack15, h.h0, h.h1, h.h2, h.h3, h.h4, h.h5, h.h6]
theorem lstepB9_pack (t0 t1 t2 t3 t4 t5 t6 : Array Nat) (h : GfOK t0 t1 t2 t3 t4 t5 t6) (m : B16) : (lstepB9 t0 t1 t2 t3 t4 t5 t6 m).pack = l_step m.pack 9 := by
  obtain ⟨b0, b1, b2, b3, b4, b5, b6, b7, b8, b9, b10, b11, b12, b13, b14, b15⟩ := m
  simp only [lstepB9, lnew, B16.pack, l_step, get_m, get_idx_9, getb_pack0, getb_pack1, getb_pack2, getb_pack3, getb_pack4, getb_pack5, getb_pack6, getb_pack7, getb_pack8, getb_pack9, getb_pack10, getb_pack11, getb_pack12, getb_pack13, getb_pack14, getb_pack15, setb_pack0, setb_pack1, setb_pack2, setb_pack3, setb_pack4, setb_pack5, setb_pack6, setb_pack7, setb_pack8, setb_pack9, setb_pack10, setb_pack11, setb_pack12, setb_pack13, setb_pack14, setb_pack15, h.h0, h.h1, h.h2, h.h3, h.h4, h.h5, h.h6]
theorem lstepB10_pack (t0 t1 t2 t3 t4 t5 t6 : Array Nat) (h : GfOK t0 t1 t2 t3 t4 t5 t6) (m : B16) : (lstepB10 t0 t1 t2 t3 t4 t5 t6 m).pack = l_step m.pack 10 := by
  obtain ⟨b0, b1, b2, b3, b4, b5, b6, b7, b8, b9, b10, b11, b12, b13, b14, b15⟩ := m
  simp only [lstepB10, lnew, B16.pack, l_step, get_m, get_idx_10, getb_pack0, getb_pack1, getb_pack2, getb_pack3, getb_pack4, getb_pack5, getb_pack6, getb_pack7, getb_pack8, getb_pack9, getb_pack10, getb_pack11, getb_pack12, getb_pack13, getb_pack14, getb_pack15, setb_pack0, setb_pack1, setb_pack2, setb_pack3, setb_pack4, setb_pack5, setb_pack6, setb_pack7, setb_pack8, setb_pack9, setb_pack10, setb_pack11, setb_pack12, setb_pack13, setb_pack14, setb_pack15, h.h0, h.h1, h.h2, h.h3, h.h4, h.h5, h.h6]
theorem lstepB11_pack (t0 t1 t2 t3 t4 t5 t6 : Array Nat) (h : GfOK t0 t1 t2 t3 t4 t5 t6) (m : B16) : (lstepB11 t0 t1 t2 t3 t4 t5 t6 m).pack = l_step m.pack 11 := by
  obtain ⟨b0, b1, b2, b3, b4, b5, b6, b7, b8, b9, b10, b11, b12, b13, b14, b15⟩ := m
  simp only [lstepB11, lnew, B16.pack, l_step, get_m, get_idx_11, getb_pack0, getb_pack1, getb_pack2, getb_pack3, getb_pack4, getb_pack5, getb_pack6, getb_pack7, getb_pack8, getb_pack9, getb_pack10, getb_pack11, getb_pack12, getb_pack13, getb_pack14, getb_pack15, setb_pack0, setb_pack1, setb_pack2, setb_pack3, setb_pack4, setb_pack5, setb_pack6, setb_pack7, setb_pack8, setb_pack9, setb_pack10, setb_pack11, setb_pack12, setb_pack13, setb_pack14, setb_pack15, h.h0, h.h1, h.h2, h.h3, h.h4, h.h5, h.h6]
theorem lstepB12_pack (t0 t1 t2 t3 t4 t5 t6 : Array Nat) (h : GfOK t0 t1 t2 t3 t4 t5 t6) (m : B16) : (lstepB12 t0 t1 t2 t3 t4 t5 t6 m).pack = l_step m.pack 12 := by
  obtain ⟨b0, b1, b2, b3, b4, b5, b6, b7, b8, b9, b10, b11, b12, b13, b14, b15⟩ := m
  simp only [lstepB12, lnew, B16.pack, l_step, get_m, get_idx_12, getb_pack0, getb_pack1, getb_pack2, getb_pack3, getb_pack4, getb_pack5, getb_pack6, getb_pack7, getb_pack8, getb_pack9, getb_pack10, getb_pack11, getb_pack12, getb_pack13, getb_pack14, getb_pack15, setb_pack0, setb_pack1, setb_pack2, setb_pack3, setb_pack4, setb_pack5, setb_pack6, setb_pack7, setb_pack8, setb_pack9, setb_pack10, setb_pack11, setb_pack12, setb_pack13, setb_pack14, setb_pack15, h.h0, h.h1, h.h2, h.h3, h.h4, h.h5, h.h6]
theorem lstepB13_pack (t0 t1 t2 t3 t4 t5 t6 : Array Nat) (h : GfOK t0 t1 t2 t3 t4 t5 t6) (m : B16) : (lstepB13 t0 t1 t2 t3 t4 t5 t6 m).pack = l_step m.pack 13 := by
  obtain ⟨b0, b1, b2, b3, b4, b5, b6, b7, b8, b9, b10, b11, b12, b13, b14, b15⟩ := m
  simp only [lstepB13, lnew, B16.pack, l_step, get_m, get_idx_13, getb_pack0, getb_pack1, getb_pack2, getb_pack3, getb_pack4, getb_pack5, getb_pack6, getb_pack7, getb_pack8, getb_pack9, getb_pack10, getb_pack11, getb_pack12, getb_pack13, getb_pack14, getb_pack15, setb_pack0, setb_pack1, setb_pack2, setb_pack3, setb_pack4, setb_pack5, setb_pack6, setb_pack7, setb_pack8, setb_pack9, setb_pack10, setb_pack11, setb_pack12, setb_pack13, setb_pack14, setb_pack15, h.h0, h.h1, h.h2, h.h3, h.h4, h.h5, h.h6]
theorem lstepB14_pack (t0 t1 t2 t3 t4 t5 t6 : Array Nat) (h : GfOK t0 t1 t2 t3 t4 t5 t6) (m : B16) : (lstepB14 t0 t1 t2 t3 t4 t5 t6 m).pack = l_step m.pack 14 := by
  obtain ⟨b0, b1, b2, b3, b4, b5, b6, b7, b8, b9, b10, b11, b12, b13, b14, b15⟩ := m
  simp only [lstepB14, lnew, B16.pack, l_step, get_m, get_idx_14, getb_pack0, getb_pack1, getb_pack2, getb_pack3, getb_pack4, getb_pack5, getb_pack6, getb_pack7, getb_pack8, getb_pack9, getb_pack10, getb_pack11, getb_pack12, getb_pack13, getb_pack14, getb_pack15, setb_pack0, setb_pack1, setb_pack2, setb_pack3, setb_pack4, setb_pack5, setb_pack6, setb_pack7, setb_pack8, setb_pack9, setb_pack10, setb_pack11, setb_pack12, setb_pack13, setb_pack14, setb_pack15, h.h0, h.h1, h.h2, h.h3, h.h4, h.h5, h.h6]
theorem lstepB15_pack (t0 t1 t2 t3 t4 t5 t6 : Array Nat) (h : GfOK t0 t1 t2 t3 t4 t5 t6) (m : B16) : (lstepB15 t0 t1 t2 t3 t4 t5 t6 m).pack = l_step m.pack 15 := by
  obtain ⟨b0, b1, b2, b3, b4, b5, b6, b7, b8, b9, b10, b11, b12, b13, b14, b15⟩ := m
  simp only [lstepB15, lnew, B16.pack, l_step, get_m, get_idx_15, getb_pack0, getb_pack1, getb_pack2, getb_pack3, getb_pack4, getb_pack5, getb_pack6, getb_pack7, getb_pack8, getb_pack9, getb_pack10, getb_pack11, getb_pack12, getb_pack13, getb_pack14, getb_pack15, setb_pack0, setb_pack1, setb_pack2, setb_pack3, setb_pack4, setb_pack5, setb_pack6, setb_pack7, setb_pack8, setb_pack9, setb_pack10, setb_pack11, setb_pack12, setb_pack13, setb_pack14, setb_pack15, h.h0, h.h1, h.h2, h.h3, h.h4, h.h5, h.h6]

theorem range16 : List.range 16 = [0,1,2,3,4,5,6,7,8,9,10,11,12,13,14,15] := by decide +kernel

theorem lfwdB_pack (t0 t1 t2 t3 t4 t5 t6 : Array Nat) (h : GfOK t0 t1 t2 t3 t4 t5 t6) (m : B16) : (lfwdB t0 t1 t2 t3 t4 t5 t6 m).pack = l_fwd m.pack := by
  simp only [lfwdB, l_fwd, range16, List.foldl, lstepB0_pack t0 t1 t2 t3 t4 t5 t6 h, lstepB1_pack t0 t1 t2 t3 t4 t5 t6 h, lstepB2_pack t0 t1 t2 t3 t4 t5 t6 h, lstepB3_pack t0 t1 t2 t3 t4 t5 t6 h, lstepB4_pack t0 t1 t2 t3 t4 t5 t6 h, lstepB5_pack t0 t1 t2 t3 t4 t5 t6 h, lstepB6_pack t0 t1 t2 t3 t4 t5 t6 h, lstepB7_pack t0 t1 t2 t3 t4 t5 t6 h, lstepB8_pack t0 t1 t2 t3 t4 t5 t6 h, lstepB9_pack t0 t1 t2 t3 t4 t5 t6 h, lstepB10_pack t0 t1 t2 t3 t4 t5 t6 h, lstepB11_pack t0 t1 t2 t3 t4 t5 t6 h, lstepB12_pack t0 t1 t2 t3 t4 t5 t6 h, lstepB13_pack t0 t1 t2 t3 t4 t5 t6 h, lstepB14_pack t0 t1 t2 t3 t4 t5 t6 h, lstepB15_pack t0 t1 t2 t3 t4 t5 t6 h]

theorem lbwdB_pack (t0 t1 t2 t3 t4 t5 t6 : Array Nat) (h : GfOK t0 t1 t2 t3 t4 t5 t6) (m : B16) : (lbwdB t0 t1 t2 t3 t4 t5 t6 m).pack = l_bwd m.pack := by
  simp only [lbwdB, l_bwd, range16, List.foldl, Nat.reduceSub, lstepB0_pack t0 t1 t2 t3 t4 t5 t6 h, lstepB1_pack t0 t1 t2 t3 t4 t5 t6 h, lstepB2_pack t0 t1 t2 t3 t4 t5 t6 h, lstepB3_pack t0 t1 t2 t3 t4 t5 t6 h, lstepB4_pack t0 t1 t2 t3 t4 t5 t6 h, lstepB5_pack t0 t1 t2 t3 t4 t5 t6 h, lstepB6_pack t0 t1 t2 t3 t4 t5 t6 h, lstepB7_pack t0 t1 t2 t3 t4 t5 t6 h, lstepB8_pack t0 t1 t2 t3 t4 t5 t6 h, lstepB9_pack t0 t1 t2 t3 t4 t5 t6 h, lstepB10_pack t0 t1 t2 t3 t4 t5 t6 h, lstepB11_pack t0 t1 t2 t3 t4 t5 t6 h, lstepB12_pack t0 t1 t2 t3 t4 t5 t6 h, lstepB13_pack t0 t1 t2 t3 t4 t5 t6 h, lstepB14_pack t0 t1 t2 t3 t4 t5 t6 h, lstepB15_pack t0 t1 t2 t3 t4 t5 t6 h]

theorem lsxB_pack (t0 t1 t2 t3 t4 t5 t6 : Array Nat) (h : GfOK t0 t1 t2 t3 t4 t5 t6) (m : B16) (k : BitVec 128) : (lsxB t0 t1 t2 t3 t4 t5 t6 m k).pack = Compact.lsx m.pack k := by
  simp only [lsxB, Compact.lsx, lfwdB_pack t0 t1 t2 t3 t4 t5 t6 h, sB_pack, xB_pack]

theorem lsxInvB_pack (t0 t1 t2 t3 t4 t5 t6 : Array Nat) (h : GfOK t0 t1 t2 t3 t4 t5 t6) (pinv : Array Nat) (hp : PinvOK pinv) (m : B16) (k : BitVec 128) :
    (lsxInvB t0 t1 t2 t3 t4 t5 t6 pinv m k).pack = Compact.lsx_inv m.pack k := by
  simp only [lsxInvB, Compact.lsx_inv, sInvB_pack pinv hp, lbwdB_pack t0 t1 t2 t3 t4 t5 t6 h, xB_pack]

end BC.GenCipher.Kuznyechik
