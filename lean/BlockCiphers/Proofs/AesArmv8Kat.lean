import BlockCiphers.Impl.AesArmv8
/-
FIPS-197 known-answer vectors run through the ARMv8 *model* (`Impl/AesArmv8.lean`) by the kernel:
Appendix B, Appendix C.1–C.3 in both directions (exercising the generic `expand_key` for L = 16, 24, 32,
`inv_expanded_keys`, `sub_word` and every intrinsic definition of `Prelude/ArmIntrinsics.lean`), the Appendix A
key-schedule words, and the Appendix C.1 round values through the hazmat functions.
-/
namespace BC.AesArmv8
open BC.Arm

/-- Appendix B -/
example : encrypt128 0x2b7e151628aed2a6abf7158809cf4f3c#128 0x3243f6a8885a308d313198a2e0370734#128
    = 0x3925841d02dc09fbdc118597196a0b32#128 := by decide +kernel

/-- Appendix C.1 -/
example : encrypt128 0x000102030405060708090a0b0c0d0e0f#128 0x00112233445566778899aabbccddeeff#128
    = 0x69c4e0d86a7b0430d8cdb78070b4c55a#128 := by decide +kernel
example : decrypt128 0x000102030405060708090a0b0c0d0e0f#128 0x69c4e0d86a7b0430d8cdb78070b4c55a#128
    = 0x00112233445566778899aabbccddeeff#128 := by decide +kernel

/-- Appendix C.2 -/
example : encrypt192 0x000102030405060708090a0b0c0d0e0f1011121314151617#192 0x00112233445566778899aabbccddeeff#128
    = 0xdda97ca4864cdfe06eaf70a0ec0d7191#128 := by decide +kernel
example : decrypt192 0x000102030405060708090a0b0c0d0e0f1011121314151617#192 0xdda97ca4864cdfe06eaf70a0ec0d7191#128
    = 0x00112233445566778899aabbccddeeff#128 := by decide +kernel

/-- Appendix C.3 -/
example : encrypt256 0x000102030405060708090a0b0c0d0e0f101112131415161718191a1b1c1d1e1f#256
    0x00112233445566778899aabbccddeeff#128 = 0x8ea2b7ca516745bfeafc49904b496089#128 := by decide +kernel
example : decrypt256 0x000102030405060708090a0b0c0d0e0f101112131415161718191a1b1c1d1e1f#256
    0x8ea2b7ca516745bfeafc49904b496089#128 = 0x00112233445566778899aabbccddeeff#128 := by decide +kernel

/-- Appendix A.1: last round key (w40..w43) as stored by `expand_key` (`vst1q_u8` = the bytes in memory) -/
example : vst1q_u8 ((expand_key (unpackBE 16 0x2b7e151628aed2a6abf7158809cf4f3c#128) 11).getD 10 0#128)
    = 0xd014f9a8c9ee2589e13f0cc8b6630ca6#128 := by decide +kernel
/-- Appendix A.2: w4..w7 (the round key that straddles the 192-bit key and the first generated words) and w48..w51 -/
example : vst1q_u8 ((expand_key (unpackBE 24 0x8e73b0f7da0e6452c810f32b809079e562f8ead2522c6b7b#192) 13).getD 1 0#128)
      = 0x62f8ead2522c6b7bfe0c91f72402f5a5#128 ∧
    vst1q_u8 ((expand_key (unpackBE 24 0x8e73b0f7da0e6452c810f32b809079e562f8ead2522c6b7b#192) 13).getD 12 0#128)
      = 0xe98ba06f448c773c8ecc720401002202#128 := by decide +kernel
/-- Appendix A.3: w8..w11 and w56..w59 -/
example : vst1q_u8 ((expand_key (unpackBE 32 0x603deb1015ca71be2b73aef0857d77811f352c073b6108d72d9810a30914dff4#256) 15).getD 2 0#128)
      = 0x9ba354118e6925afa51a8b5f2067fcde#128 ∧
    vst1q_u8 ((expand_key (unpackBE 32 0x603deb1015ca71be2b73aef0857d77811f352c073b6108d72d9810a30914dff4#256) 15).getD 14 0#128)
      = 0xfe4890d1e6188d0b046df344706c631e#128 := by decide +kernel

/-- `sub_word` on a little-endian word: bytes 00 01 02 03 ↦ 63 7c 77 7b -/
example : sub_word 0x03020100#32 = 0x7b777c63#32 := by decide +kernel

/-- Appendix C.1 round 1 through `hazmat::cipher_round` (start, k_sch → next start) and
`hazmat::mix_columns` (s_row → m_col) -/
example : cipher_round 0x00102030405060708090a0b0c0d0e0f0#128 0xd6aa74fdd2af72fadaa678f1d6ab76fe#128
    = 0x89d810e8855ace682d1843d8cb128fe4#128 := by decide +kernel
example : mix_columns 0x6353e08c0960e104cd70b751bacad0e7#128 = 0x5f72641557f5bc92f7be3b291db9f91a#128 ∧
    inv_mix_columns 0x5f72641557f5bc92f7be3b291db9f91a#128 = 0x6353e08c0960e104cd70b751bacad0e7#128 := by decide +kernel

/-- Appendix C.1 equivalent inverse cipher, round 1 (istart, ik_sch of the equivalent schedule → next istart) -/
example : equiv_inv_cipher_round 0x7ad5fda789ef4e272bca100b3d9ff59f#128 0x13aa29be9c8faff6f770f58000f7bf03#128
    = 0x54d990a16ba09ab596bbf40ea111702f#128 := by decide +kernel

/-- the 8-lane hazmat functions on 8 different blocks/keys (lane independence on concrete data) -/
example : cipher_round_par
    [0x00102030405060708090a0b0c0d0e0f0#128, 1#128, 2#128, 3#128, 4#128, 5#128, 6#128, 7#128]
    [0xd6aa74fdd2af72fadaa678f1d6ab76fe#128, 10#128, 20#128, 30#128, 40#128, 50#128, 60#128, 70#128] =
    [cipher_round 0x00102030405060708090a0b0c0d0e0f0#128 0xd6aa74fdd2af72fadaa678f1d6ab76fe#128,
     cipher_round 1#128 10#128, cipher_round 2#128 20#128, cipher_round 3#128 30#128, cipher_round 4#128 40#128,
     cipher_round 5#128 50#128, cipher_round 6#128 60#128, cipher_round 7#128 70#128] := by decide +kernel

end BC.AesArmv8
