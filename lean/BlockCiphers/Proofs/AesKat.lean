import BlockCiphers.Spec.Aes
/-
FIPS-197 known-answer vectors for `Spec/Aes.lean`, checked by the kernel (`decide +kernel`).
Key schedules are entered as words (the byte-string front end `keyWords` uses well-founded recursion,
which the kernel does not unfold; `Proofs/AesNiKeysCommon.keyWords16/24/32` connect the two).

Appendix A: first newly generated words and the last round key of each expansion.
Appendix B: the worked example.  Appendix C: the three example vectors, both directions.
-/
namespace BC.Spec.Aes

def keyA1 : List (BitVec 32) := [0x2b7e1516#32, 0x28aed2a6#32, 0xabf71588#32, 0x09cf4f3c#32]
def keyA2 : List (BitVec 32) := [0x8e73b0f7#32, 0xda0e6452#32, 0xc810f32b#32, 0x809079e5#32, 0x62f8ead2#32, 0x522c6b7b#32]
def keyA3 : List (BitVec 32) := [0x603deb10#32, 0x15ca71be#32, 0x2b73aef0#32, 0x857d7781#32,
  0x1f352c07#32, 0x3b6108d7#32, 0x2d9810a3#32, 0x0914dff4#32]

/-- Appendix A.1 (Nk = 4): w4..w7 and w40..w43 -/
example : ((keyExpansion 4 10 keyA1).extract 4 8).toList = [0xa0fafe17#32, 0x88542cb1#32, 0x23a33939#32, 0x2a6c7605#32] ∧
    ((keyExpansion 4 10 keyA1).extract 40 44).toList = [0xd014f9a8#32, 0xc9ee2589#32, 0xe13f0cc8#32, 0xb6630ca6#32] ∧
    (keyExpansion 4 10 keyA1).size = 44 := by decide +kernel

/-- Appendix A.2 (Nk = 6): w6..w11 and w48..w51 -/
example : ((keyExpansion 6 12 keyA2).extract 6 12).toList =
      [0xfe0c91f7#32, 0x2402f5a5#32, 0xec12068e#32, 0x6c827f6b#32, 0x0e7a95b9#32, 0x5c56fec2#32] ∧
    ((keyExpansion 6 12 keyA2).extract 48 52).toList = [0xe98ba06f#32, 0x448c773c#32, 0x8ecc7204#32, 0x01002202#32] ∧
    (keyExpansion 6 12 keyA2).size = 52 := by decide +kernel

/-- Appendix A.3 (Nk = 8): w8..w15 and w56..w59 -/
example : ((keyExpansion 8 14 keyA3).extract 8 16).toList =
      [0x9ba35411#32, 0x8e6925af#32, 0xa51a8b5f#32, 0x2067fcde#32, 0xa8b09c1a#32, 0x93d194cd#32, 0xbe49846e#32, 0xb75d5b9a#32] ∧
    ((keyExpansion 8 14 keyA3).extract 56 60).toList = [0xfe4890d1#32, 0xe6188d0b#32, 0x046df344#32, 0x706c631e#32] ∧
    (keyExpansion 8 14 keyA3).size = 60 := by decide +kernel

/-- Appendix B -/
example : cipher 10 (keyExpansion 4 10 keyA1) 0x3243f6a8885a308d313198a2e0370734#128
    = 0x3925841d02dc09fbdc118597196a0b32#128 := by decide +kernel

def keyC1 : List (BitVec 32) := [0x00010203#32, 0x04050607#32, 0x08090a0b#32, 0x0c0d0e0f#32]
def keyC2 : List (BitVec 32) := keyC1 ++ [0x10111213#32, 0x14151617#32]
def keyC3 : List (BitVec 32) := keyC2 ++ [0x18191a1b#32, 0x1c1d1e1f#32]

/-- Appendix C.1 (AES-128) -/
example : cipher 10 (keyExpansion 4 10 keyC1) 0x00112233445566778899aabbccddeeff#128
    = 0x69c4e0d86a7b0430d8cdb78070b4c55a#128 := by decide +kernel
example : invCipher 10 (keyExpansion 4 10 keyC1) 0x69c4e0d86a7b0430d8cdb78070b4c55a#128
    = 0x00112233445566778899aabbccddeeff#128 := by decide +kernel

/-- Appendix C.2 (AES-192) -/
example : cipher 12 (keyExpansion 6 12 keyC2) 0x00112233445566778899aabbccddeeff#128
    = 0xdda97ca4864cdfe06eaf70a0ec0d7191#128 := by decide +kernel
example : invCipher 12 (keyExpansion 6 12 keyC2) 0xdda97ca4864cdfe06eaf70a0ec0d7191#128
    = 0x00112233445566778899aabbccddeeff#128 := by decide +kernel

/-- Appendix C.3 (AES-256) -/
example : cipher 14 (keyExpansion 8 14 keyC3) 0x00112233445566778899aabbccddeeff#128
    = 0x8ea2b7ca516745bfeafc49904b496089#128 := by decide +kernel
example : invCipher 14 (keyExpansion 8 14 keyC3) 0x8ea2b7ca516745bfeafc49904b496089#128
    = 0x00112233445566778899aabbccddeeff#128 := by decide +kernel

/-- Appendix C.1, round 1 layer by layer -/
example : subBytes 0x00102030405060708090a0b0c0d0e0f0#128 = 0x63cab7040953d051cd60e0e7ba70e18c#128 ∧
    shiftRows 0x63cab7040953d051cd60e0e7ba70e18c#128 = 0x6353e08c0960e104cd70b751bacad0e7#128 ∧
    mixColumns 0x6353e08c0960e104cd70b751bacad0e7#128 = 0x5f72641557f5bc92f7be3b291db9f91a#128 ∧
    roundKey (keyExpansion 4 10 keyC1) 1 = 0xd6aa74fdd2af72fadaa678f1d6ab76fe#128 ∧
    addRoundKey 0x5f72641557f5bc92f7be3b291db9f91a#128 0xd6aa74fdd2af72fadaa678f1d6ab76fe#128
      = 0x89d810e8855ace682d1843d8cb128fe4#128 := by decide +kernel

end BC.Spec.Aes
