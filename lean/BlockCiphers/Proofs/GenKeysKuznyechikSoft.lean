import BlockCiphers.Gen.Keys_Kuznyechik_soft
import BlockCiphers.Proofs.GenCipherKuznyechikSoft
import BlockCiphers.Proofs.GenKeysKuznyechik
/-!
Tie of the regenerated key functions of the big software backend of Kuznyechik (`Gen/Keys_Kuznyechik_soft.lean`):
`EncKeys::new` (= `expand_enc_keys`, /repo/kuznyechik/src/big_soft/{mod.rs,backends.rs}) and `inv_enc_keys` (the decryption
keys of `EncDecKeys::from(EncKeys)` / `DecKeys::from(EncKeys)`), to the model `BC.Kuznyechik.Soft`: for ALL inputs

    Gen.Fn.kuznyechik_soft_enckeys_new key        = rkTuple (Soft.expand_enc_keys key)
    Gen.Fn.kuznyechik_soft_inv_enc_keys e0 … e9   = rkTuple (Soft.inv_enc_keys ⟨e0, …, e9⟩)

Proof as in Proofs/GenCipherKuznyechikSoft.lean; the tables of these two functions are copies of those of
`encrypt_block` / `decrypt_block` (`ek_tbl_<i>`, `ik_tbl_<i>`: equality of the array literals), the 32 iteration constants
`next_const(i) = u128::from_le_bytes(KEYGEN[i])` are the byte-reversed constants of Proofs/GenKeysKuznyechik.lean.
-/
set_option maxRecDepth 100000
set_option linter.unusedSimpArgs false
namespace BC.GenKeys.Kuznyechik
open BC BC.Kuznyechik BC.Gen.Fn BC.GenCipher.Kuznyechik

theorem ek_tbl_0 : kuznyechik_soft_enckeys_new_tbl0 = kuznyechik_soft_encrypt_block_tbl0 := rfl
theorem ek_tbl_1 : kuznyechik_soft_enckeys_new_tbl1 = kuznyechik_soft_encrypt_block_tbl1 := rfl
theorem ek_tbl_2 : kuznyechik_soft_enckeys_new_tbl2 = kuznyechik_soft_encrypt_block_tbl2 := rfl
theorem ek_tbl_3 : kuznyechik_soft_enckeys_new_tbl3 = kuznyechik_soft_encrypt_block_tbl3 := rfl
theorem ek_tbl_4 : kuznyechik_soft_enckeys_new_tbl4 = kuznyechik_soft_encrypt_block_tbl4 := rfl
theorem ek_tbl_5 : kuznyechik_soft_enckeys_new_tbl5 = kuznyechik_soft_encrypt_block_tbl5 := rfl
theorem ek_tbl_6 : kuznyechik_soft_enckeys_new_tbl6 = kuznyechik_soft_encrypt_block_tbl6 := rfl
theorem ek_tbl_7 : kuznyechik_soft_enckeys_new_tbl7 = kuznyechik_soft_encrypt_block_tbl7 := rfl
theorem ek_tbl_8 : kuznyechik_soft_enckeys_new_tbl8 = kuznyechik_soft_encrypt_block_tbl8 := rfl
theorem ek_tbl_9 : kuznyechik_soft_enckeys_new_tbl9 = kuznyechik_soft_encrypt_block_tbl9 := rfl
theorem ek_tbl_10 : kuznyechik_soft_enckeys_new_tbl10 = kuznyechik_soft_encrypt_block_tbl10 := rfl
theorem ek_tbl_11 : kuznyechik_soft_enckeys_new_tbl11 = kuznyechik_soft_encrypt_block_tbl11 := rfl
theorem ek_tbl_12 : kuznyechik_soft_enckeys_new_tbl12 = kuznyechik_soft_encrypt_block_tbl12 := rfl
theorem ek_tbl_13 : kuznyechik_soft_enckeys_new_tbl13 = kuznyechik_soft_encrypt_block_tbl13 := rfl
theorem ek_tbl_14 : kuznyechik_soft_enckeys_new_tbl14 = kuznyechik_soft_encrypt_block_tbl14 := rfl
theorem ek_tbl_15 : kuznyechik_soft_enckeys_new_tbl15 = kuznyechik_soft_encrypt_block_tbl15 := rfl
theorem ik_tbl_0 : kuznyechik_soft_inv_enc_keys_tbl0 = kuznyechik_soft_decrypt_block_tbl0 := rfl
theorem ik_tbl_1 : kuznyechik_soft_inv_enc_keys_tbl1 = kuznyechik_soft_decrypt_block_tbl1 := rfl
theorem ik_tbl_2 : kuznyechik_soft_inv_enc_keys_tbl2 = kuznyechik_soft_decrypt_block_tbl2 := rfl
theorem ik_tbl_3 : kuznyechik_soft_inv_enc_keys_tbl3 = kuznyechik_soft_decrypt_block_tbl3 := rfl
theorem ik_tbl_4 : kuznyechik_soft_inv_enc_keys_tbl4 = kuznyechik_soft_decrypt_block_tbl4 := rfl
theorem ik_tbl_5 : kuznyechik_soft_inv_enc_keys_tbl5 = kuznyechik_soft_decrypt_block_tbl5 := rfl
theorem ik_tbl_6 : kuznyechik_soft_inv_enc_keys_tbl6 = kuznyechik_soft_decrypt_block_tbl6 := rfl
theorem ik_tbl_7 : kuznyechik_soft_inv_enc_keys_tbl7 = kuznyechik_soft_decrypt_block_tbl7 := rfl
theorem ik_tbl_8 : kuznyechik_soft_inv_enc_keys_tbl8 = kuznyechik_soft_decrypt_block_tbl8 := rfl
theorem ik_tbl_9 : kuznyechik_soft_inv_enc_keys_tbl9 = kuznyechik_soft_decrypt_block_tbl9 := rfl
theorem ik_tbl_10 : kuznyechik_soft_inv_enc_keys_tbl10 = kuznyechik_soft_decrypt_block_tbl10 := rfl
theorem ik_tbl_11 : kuznyechik_soft_inv_enc_keys_tbl11 = kuznyechik_soft_decrypt_block_tbl11 := rfl
theorem ik_tbl_12 : kuznyechik_soft_inv_enc_keys_tbl12 = kuznyechik_soft_decrypt_block_tbl12 := rfl
theorem ik_tbl_13 : kuznyechik_soft_inv_enc_keys_tbl13 = kuznyechik_soft_decrypt_block_tbl13 := rfl
theorem ik_tbl_14 : kuznyechik_soft_inv_enc_keys_tbl14 = kuznyechik_soft_decrypt_block_tbl14 := rfl
theorem ik_tbl_15 : kuznyechik_soft_inv_enc_keys_tbl15 = kuznyechik_soft_decrypt_block_tbl15 := rfl
theorem encK : RowsOK ENC_TABLE.get kuznyechik_soft_enckeys_new_tbl0 kuznyechik_soft_enckeys_new_tbl1 kuznyechik_soft_enckeys_new_tbl2 kuznyechik_soft_enckeys_new_tbl3 kuznyechik_soft_enckeys_new_tbl4 kuznyechik_soft_enckeys_new_tbl5 kuznyechik_soft_enckeys_new_tbl6 kuznyechik_soft_enckeys_new_tbl7 kuznyechik_soft_enckeys_new_tbl8 kuznyechik_soft_enckeys_new_tbl9 kuznyechik_soft_enckeys_new_tbl10 kuznyechik_soft_enckeys_new_tbl11 kuznyechik_soft_enckeys_new_tbl12 kuznyechik_soft_enckeys_new_tbl13 kuznyechik_soft_enckeys_new_tbl14 kuznyechik_soft_enckeys_new_tbl15 := by
  rw [ek_tbl_0, ek_tbl_1, ek_tbl_2, ek_tbl_3, ek_tbl_4, ek_tbl_5, ek_tbl_6, ek_tbl_7, ek_tbl_8, ek_tbl_9, ek_tbl_10, ek_tbl_11, ek_tbl_12, ek_tbl_13, ek_tbl_14, ek_tbl_15]; exact encS

theorem decK : RowsOK DEC_TABLE.get kuznyechik_soft_inv_enc_keys_tbl0 kuznyechik_soft_inv_enc_keys_tbl1 kuznyechik_soft_inv_enc_keys_tbl2 kuznyechik_soft_inv_enc_keys_tbl3 kuznyechik_soft_inv_enc_keys_tbl4 kuznyechik_soft_inv_enc_keys_tbl5 kuznyechik_soft_inv_enc_keys_tbl6 kuznyechik_soft_inv_enc_keys_tbl7 kuznyechik_soft_inv_enc_keys_tbl8 kuznyechik_soft_inv_enc_keys_tbl9 kuznyechik_soft_inv_enc_keys_tbl10 kuznyechik_soft_inv_enc_keys_tbl11 kuznyechik_soft_inv_enc_keys_tbl12 kuznyechik_soft_inv_enc_keys_tbl13 kuznyechik_soft_inv_enc_keys_tbl14 kuznyechik_soft_inv_enc_keys_tbl15 := by
  rw [ik_tbl_0, ik_tbl_1, ik_tbl_2, ik_tbl_3, ik_tbl_4, ik_tbl_5, ik_tbl_6, ik_tbl_7, ik_tbl_8, ik_tbl_9, ik_tbl_10, ik_tbl_11, ik_tbl_12, ik_tbl_13, ik_tbl_14, ik_tbl_15]; exact decS

theorem nc0 : next_const 0 (by decide) = 0x19484dd10bd275db87a486c7276a26e#128 := by
  show rev128 (Compact.get_c 0 (by decide)) = _
  rw [← c0_pack]
  decide +kernel
theorem nc1 : next_const 1 (by decide) = 0x2ebcb7920b94ebab3f490d8e4ec87dc#128 := by
  show rev128 (Compact.get_c 1 (by decide)) = _
  rw [← c1_pack]
  decide +kernel
theorem nc2 : next_const 2 (by decide) = 0x37f4fa4300469e70b8ed8b4969a25b2#128 := by
  show rev128 (Compact.get_c 2 (by decide)) = _
  rw [← c2_pack]
  decide +kernel
theorem nc3 : next_const 3 (by decide) = 0x41555f240b19cb7a52be3730b1bcd7b#128 := by
  show rev128 (Compact.get_c 3 (by decide)) = _
  rw [← c3_pack]
  decide +kernel
theorem nc4 : next_const 4 (by decide) = 0x581d12f500cbbea1d51ab1f796d6f15#128 := by
  show rev128 (Compact.get_c 4 (by decide)) = _
  rw [← c4_pack]
  decide +kernel
theorem nc5 : next_const 5 (by decide) = 0x6fe9e8b6008d20d16df73abeff74aa7#128 := by
  show rev128 (Compact.get_c 5 (by decide)) = _
  rw [← c5_pack]
  decide +kernel
theorem nc6 : next_const 6 (by decide) = 0x76a1a5670b5f550aea53bc79d81e8c9#128 := by
  show rev128 (Compact.get_c 6 (by decide)) = _
  rw [← c6_pack]
  decide +kernel
theorem nc7 : next_const 7 (by decide) = 0x82aaa2780a1fbad895605e6163659f6#128 := by
  show rev128 (Compact.get_c 7 (by decide)) = _
  rw [← c7_pack]
  decide +kernel
theorem nc8 : next_const 8 (by decide) = 0x9be2efa901cdcf0312c4d8a6440fb98#128 := by
  show rev128 (Compact.get_c 8 (by decide)) = _
  rw [← c8_pack]
  decide +kernel
theorem nc9 : next_const 9 (by decide) = 0xac1615ea018b5173aa2953ef2dade2a#128 := by
  show rev128 (Compact.get_c 9 (by decide)) = _
  rw [← c9_pack]
  decide +kernel
theorem nc10 : next_const 10 (by decide) = 0xb55e583b0a5924a82d8dd5280ac7c44#128 := by
  show rev128 (Compact.get_c 10 (by decide)) = _
  rw [← c10_pack]
  decide +kernel
theorem nc11 : next_const 11 (by decide) = 0xc3fffd5c010671a2c7de6951d2d948d#128 := by
  show rev128 (Compact.get_c 11 (by decide)) = _
  rw [← c11_pack]
  decide +kernel
theorem nc12 : next_const 12 (by decide) = 0xdab7b08d0ad40479407aef96f5b36e3#128 := by
  show rev128 (Compact.get_c 12 (by decide)) = _
  rw [← c12_pack]
  decide +kernel
theorem nc13 : next_const 13 (by decide) = 0xed434ace0a929a09f89764df9c11351#128 := by
  show rev128 (Compact.get_c 13 (by decide)) = _
  rw [← c13_pack]
  decide +kernel
theorem nc14 : next_const 14 (by decide) = 0xf40b071f0140efd27f33e218bb7b13f#128 := by
  show rev128 (Compact.get_c 14 (by decide)) = _
  rw [← c14_pack]
  decide +kernel
theorem nc15 : next_const 15 (by decide) = 0x1054974ec3813599d1ac0a0f2c6cb22f#128 := by
  show rev128 (Compact.get_c 15 (by decide)) = _
  rw [← c15_pack]
  decide +kernel
theorem nc16 : next_const 16 (by decide) = 0x11c01393d33c12c469d642635e1a1041#128 := by
  show rev128 (Compact.get_c 16 (by decide)) = _
  rw [← c16_pack]
  decide +kernel
theorem nc17 : next_const 17 (by decide) = 0x12bf5c37e3387b2362589ad7c88035f3#128 := by
  show rev128 (Compact.get_c 17 (by decide)) = _
  rw [← c17_pack]
  decide +kernel
theorem nc18 : next_const 18 (by decide) = 0x132bd8eaf3855c7eda22d2bbbaf6979d#128 := by
  show rev128 (Compact.get_c 18 (by decide)) = _
  rw [← c18_pack]
  decide +kernel
theorem nc19 : next_const 19 (by decide) = 0x1441c2bc8330a92e7487e97c27777f54#128 := by
  show rev128 (Compact.get_c 19 (by decide)) = _
  rw [← c19_pack]
  decide +kernel
theorem nc20 : next_const 20 (by decide) = 0x15d54661938d8e73ccfda1105501dd3a#128 := by
  show rev128 (Compact.get_c 20 (by decide)) = _
  rw [← c20_pack]
  decide +kernel
theorem nc21 : next_const 21 (by decide) = 0x16aa09c5a389e794c77379a4c39bf888#128 := by
  show rev128 (Compact.get_c 21 (by decide)) = _
  rw [← c21_pack]
  decide +kernel
theorem nc22 : next_const 22 (by decide) = 0x173e8d18b334c0c97f0931c8b1ed5ae6#128 := by
  show rev128 (Compact.get_c 22 (by decide)) = _
  rw [← c22_pack]
  decide +kernel
theorem nc23 : next_const 23 (by decide) = 0x187e3d694320ce3458fa0fe93a5aebd9#128 := by
  show rev128 (Compact.get_c 23 (by decide)) = _
  rw [← c23_pack]
  decide +kernel
theorem nc24 : next_const 24 (by decide) = 0x19eab9b4539de969e0804785482c49b7#128 := by
  show rev128 (Compact.get_c 24 (by decide)) = _
  rw [← c24_pack]
  decide +kernel
theorem nc25 : next_const 25 (by decide) = 0x1a95f6106399808eeb0e9f31deb66c05#128 := by
  show rev128 (Compact.get_c 25 (by decide)) = _
  rw [← c25_pack]
  decide +kernel
theorem nc26 : next_const 26 (by decide) = 0x1b0172cd7324a7d35374d75dacc0ce6b#128 := by
  show rev128 (Compact.get_c 26 (by decide)) = _
  rw [← c26_pack]
  decide +kernel
theorem nc27 : next_const 27 (by decide) = 0x1c6b689b03915283fdd1ec9a314126a2#128 := by
  show rev128 (Compact.get_c 27 (by decide)) = _
  rw [← c27_pack]
  decide +kernel
theorem nc28 : next_const 28 (by decide) = 0x1dffec46132c75de45aba4f6433784cc#128 := by
  show rev128 (Compact.get_c 28 (by decide)) = _
  rw [← c28_pack]
  decide +kernel
theorem nc29 : next_const 29 (by decide) = 0x1e80a3e223281c394e257c42d5ada17e#128 := by
  show rev128 (Compact.get_c 29 (by decide)) = _
  rw [← c29_pack]
  decide +kernel
theorem nc30 : next_const 30 (by decide) = 0x1f14273f33953b64f65f342ea7db0310#128 := by
  show rev128 (Compact.get_c 30 (by decide)) = _
  rw [← c30_pack]
  decide +kernel
theorem nc31 : next_const 31 (by decide) = 0x20a8ed9c45c16af1619b141e58d8a75e#128 := by
  show rev128 (Compact.get_c 31 (by decide)) = _
  rw [← c31_pack]
  decide +kernel

/-- one iteration of the inner loop of `expand_enc_keys` over a transform `tr` -/
def stepI (tr : BitVec 128 → BitVec 128) (p : BitVec 128 × BitVec 128) (c0 c1 : BitVec 128) : BitVec 128 × BitVec 128 :=
  (p.1 ^^^ tr ((p.2 ^^^ tr (p.1 ^^^ c0)) ^^^ c1), p.2 ^^^ tr (p.1 ^^^ c0))
def step4 (tr : BitVec 128 → BitVec 128) (p : BitVec 128 × BitVec 128) (c0 c1 c2 c3 c4 c5 c6 c7 : BitVec 128) : BitVec 128 × BitVec 128 :=
  stepI tr (stepI tr (stepI tr (stepI tr p c0 c1) c2 c3) c4 c5) c6 c7

theorem inner_0 (tr : BitVec 128 → BitVec 128) (p : BitVec 128 × BitVec 128) : expand_inner tr p 0 = step4 tr p (next_const 0 (by decide)) (next_const 1 (by decide)) (next_const 2 (by decide)) (next_const 3 (by decide)) (next_const 4 (by decide)) (next_const 5 (by decide)) (next_const 6 (by decide)) (next_const 7 (by decide)) := rfl
theorem inner_1 (tr : BitVec 128 → BitVec 128) (p : BitVec 128 × BitVec 128) : expand_inner tr p 1 = step4 tr p (next_const 8 (by decide)) (next_const 9 (by decide)) (next_const 10 (by decide)) (next_const 11 (by decide)) (next_const 12 (by decide)) (next_const 13 (by decide)) (next_const 14 (by decide)) (next_const 15 (by decide)) := rfl
theorem inner_2 (tr : BitVec 128 → BitVec 128) (p : BitVec 128 × BitVec 128) : expand_inner tr p 2 = step4 tr p (next_const 16 (by decide)) (next_const 17 (by decide)) (next_const 18 (by decide)) (next_const 19 (by decide)) (next_const 20 (by decide)) (next_const 21 (by decide)) (next_const 22 (by decide)) (next_const 23 (by decide)) := rfl
theorem inner_3 (tr : BitVec 128 → BitVec 128) (p : BitVec 128 × BitVec 128) : expand_inner tr p 3 = step4 tr p (next_const 24 (by decide)) (next_const 25 (by decide)) (next_const 26 (by decide)) (next_const 27 (by decide)) (next_const 28 (by decide)) (next_const 29 (by decide)) (next_const 30 (by decide)) (next_const 31 (by decide)) := rfl

def kHi (key : BitVec 256) : BitVec 128 := (key.extractLsb' 128 8) ++ (key.extractLsb' 136 8) ++ (key.extractLsb' 144 8) ++ (key.extractLsb' 152 8) ++ (key.extractLsb' 160 8) ++ (key.extractLsb' 168 8) ++ (key.extractLsb' 176 8) ++ (key.extractLsb' 184 8) ++ (key.extractLsb' 192 8) ++ (key.extractLsb' 200 8) ++ (key.extractLsb' 208 8) ++ (key.extractLsb' 216 8) ++ (key.extractLsb' 224 8) ++ (key.extractLsb' 232 8) ++ (key.extractLsb' 240 8) ++ (key.extractLsb' 248 8)
def kLo (key : BitVec 256) : BitVec 128 := (key.extractLsb' 0 8) ++ (key.extractLsb' 8 8) ++ (key.extractLsb' 16 8) ++ (key.extractLsb' 24 8) ++ (key.extractLsb' 32 8) ++ (key.extractLsb' 40 8) ++ (key.extractLsb' 48 8) ++ (key.extractLsb' 56 8) ++ (key.extractLsb' 64 8) ++ (key.extractLsb' 72 8) ++ (key.extractLsb' 80 8) ++ (key.extractLsb' 88 8) ++ (key.extractLsb' 96 8) ++ (key.extractLsb' 104 8) ++ (key.extractLsb' 112 8) ++ (key.extractLsb' 120 8)
theorem kHi_eq (key : BitVec 256) : kHi key = rev128 (key.extractLsb' 128 128) := by
  simp only [kHi, rev128, bswap64]
  bv_decide
theorem kLo_eq (key : BitVec 256) : kLo key = rev128 (key.extractLsb' 0 128) := by
  simp only [kLo, rev128, bswap64]
  bv_decide

def expandG (t0 t1 t2 t3 t4 t5 t6 t7 t8 t9 t10 t11 t12 t13 t14 t15 : Array Nat) (key : BitVec 256) :=
  let p0 : BitVec 128 × BitVec 128 := (kHi key, kLo key)
  let p1 := step4 (trG t0 t1 t2 t3 t4 t5 t6 t7 t8 t9 t10 t11 t12 t13 t14 t15) p0 0x19484dd10bd275db87a486c7276a26e#128 0x2ebcb7920b94ebab3f490d8e4ec87dc#128 0x37f4fa4300469e70b8ed8b4969a25b2#128 0x41555f240b19cb7a52be3730b1bcd7b#128 0x581d12f500cbbea1d51ab1f796d6f15#128 0x6fe9e8b6008d20d16df73abeff74aa7#128 0x76a1a5670b5f550aea53bc79d81e8c9#128 0x82aaa2780a1fbad895605e6163659f6#128
  let p2 := step4 (trG t0 t1 t2 t3 t4 t5 t6 t7 t8 t9 t10 t11 t12 t13 t14 t15) p1 0x9be2efa901cdcf0312c4d8a6440fb98#128 0xac1615ea018b5173aa2953ef2dade2a#128 0xb55e583b0a5924a82d8dd5280ac7c44#128 0xc3fffd5c010671a2c7de6951d2d948d#128 0xdab7b08d0ad40479407aef96f5b36e3#128 0xed434ace0a929a09f89764df9c11351#128 0xf40b071f0140efd27f33e218bb7b13f#128 0x1054974ec3813599d1ac0a0f2c6cb22f#128
  let p3 := step4 (trG t0 t1 t2 t3 t4 t5 t6 t7 t8 t9 t10 t11 t12 t13 t14 t15) p2 0x11c01393d33c12c469d642635e1a1041#128 0x12bf5c37e3387b2362589ad7c88035f3#128 0x132bd8eaf3855c7eda22d2bbbaf6979d#128 0x1441c2bc8330a92e7487e97c27777f54#128 0x15d54661938d8e73ccfda1105501dd3a#128 0x16aa09c5a389e794c77379a4c39bf888#128 0x173e8d18b334c0c97f0931c8b1ed5ae6#128 0x187e3d694320ce3458fa0fe93a5aebd9#128
  let p4 := step4 (trG t0 t1 t2 t3 t4 t5 t6 t7 t8 t9 t10 t11 t12 t13 t14 t15) p3 0x19eab9b4539de969e0804785482c49b7#128 0x1a95f6106399808eeb0e9f31deb66c05#128 0x1b0172cd7324a7d35374d75dacc0ce6b#128 0x1c6b689b03915283fdd1ec9a314126a2#128 0x1dffec46132c75de45aba4f6433784cc#128 0x1e80a3e223281c394e257c42d5ada17e#128 0x1f14273f33953b64f65f342ea7db0310#128 0x20a8ed9c45c16af1619b141e58d8a75e#128
  (p0.1, p0.2, p1.1, p1.2, p2.1, p2.2, p3.1, p3.2, p4.1, p4.2)

theorem soft_enckeys_new_eq_G (key : BitVec 256) : kuznyechik_soft_enckeys_new key = expandG kuznyechik_soft_enckeys_new_tbl0 kuznyechik_soft_enckeys_new_tbl1 kuznyechik_soft_enckeys_new_tbl2 kuznyechik_soft_enckeys_new_tbl3 kuznyechik_soft_enckeys_new_tbl4 kuznyechik_soft_enckeys_new_tbl5 kuznyechik_soft_enckeys_new_tbl6 kuznyechik_soft_enckeys_new_tbl7 kuznyechik_soft_enckeys_new_tbl8 kuznyechik_soft_enckeys_new_tbl9 kuznyechik_soft_enckeys_new_tbl10 kuznyechik_soft_enckeys_new_tbl11 kuznyechik_soft_enckeys_new_tbl12 kuznyechik_soft_enckeys_new_tbl13 kuznyechik_soft_enckeys_new_tbl14 kuznyechik_soft_enckeys_new_tbl15 key := by
  kuz_kernel_rfl

theorem expandG_eq (t0 t1 t2 t3 t4 t5 t6 t7 t8 t9 t10 t11 t12 t13 t14 t15 : Array Nat) (h : RowsOK ENC_TABLE.get t0 t1 t2 t3 t4 t5 t6 t7 t8 t9 t10 t11 t12 t13 t14 t15) (key : BitVec 256) :
    expandG t0 t1 t2 t3 t4 t5 t6 t7 t8 t9 t10 t11 t12 t13 t14 t15 key = rkTuple (Soft.expand_enc_keys key) := by
  have htr : trG t0 t1 t2 t3 t4 t5 t6 t7 t8 t9 t10 t11 t12 t13 t14 t15 = fun t => Soft.transform t ENC_TABLE.get := funext (trG_eq _ t0 t1 t2 t3 t4 t5 t6 t7 t8 t9 t10 t11 t12 t13 t14 t15 h)
  simp only [expandG, rkTuple, Soft.expand_enc_keys, expand_with, inner_0, inner_1, inner_2, inner_3, htr, kHi_eq, kLo_eq,
    nc0, nc1, nc2, nc3, nc4, nc5, nc6, nc7, nc8, nc9, nc10, nc11, nc12, nc13, nc14, nc15, nc16, nc17, nc18, nc19, nc20, nc21, nc22, nc23, nc24, nc25, nc26, nc27, nc28, nc29, nc30, nc31]

/-- the regenerated `EncKeys::new` (big_soft) computes the model's `Soft.expand_enc_keys`, for every key -/
theorem kuznyechik_soft_enckeys_new_eq (key : BitVec 256) :
    kuznyechik_soft_enckeys_new key = rkTuple (Soft.expand_enc_keys key) := by
  rw [soft_enckeys_new_eq_G, expandG_eq _ _ _ _ _ _ _ _ _ _ _ _ _ _ _ _ encK]

def invG (t0 t1 t2 t3 t4 t5 t6 t7 t8 t9 t10 t11 t12 t13 t14 t15 : Array Nat) (e0 e1 e2 e3 e4 e5 e6 e7 e8 e9 : BitVec 128) :=
  (e9, trG t0 t1 t2 t3 t4 t5 t6 t7 t8 t9 t10 t11 t12 t13 t14 t15 (subG BC.Gen.kuznyechik_P e8), trG t0 t1 t2 t3 t4 t5 t6 t7 t8 t9 t10 t11 t12 t13 t14 t15 (subG BC.Gen.kuznyechik_P e7), trG t0 t1 t2 t3 t4 t5 t6 t7 t8 t9 t10 t11 t12 t13 t14 t15 (subG BC.Gen.kuznyechik_P e6), trG t0 t1 t2 t3 t4 t5 t6 t7 t8 t9 t10 t11 t12 t13 t14 t15 (subG BC.Gen.kuznyechik_P e5), trG t0 t1 t2 t3 t4 t5 t6 t7 t8 t9 t10 t11 t12 t13 t14 t15 (subG BC.Gen.kuznyechik_P e4), trG t0 t1 t2 t3 t4 t5 t6 t7 t8 t9 t10 t11 t12 t13 t14 t15 (subG BC.Gen.kuznyechik_P e3), trG t0 t1 t2 t3 t4 t5 t6 t7 t8 t9 t10 t11 t12 t13 t14 t15 (subG BC.Gen.kuznyechik_P e2), trG t0 t1 t2 t3 t4 t5 t6 t7 t8 t9 t10 t11 t12 t13 t14 t15 (subG BC.Gen.kuznyechik_P e1), e0)

theorem soft_inv_enc_keys_eq_G (e0 e1 e2 e3 e4 e5 e6 e7 e8 e9 : BitVec 128) : kuznyechik_soft_inv_enc_keys e0 e1 e2 e3 e4 e5 e6 e7 e8 e9 = invG kuznyechik_soft_inv_enc_keys_tbl0 kuznyechik_soft_inv_enc_keys_tbl1 kuznyechik_soft_inv_enc_keys_tbl2 kuznyechik_soft_inv_enc_keys_tbl3 kuznyechik_soft_inv_enc_keys_tbl4 kuznyechik_soft_inv_enc_keys_tbl5 kuznyechik_soft_inv_enc_keys_tbl6 kuznyechik_soft_inv_enc_keys_tbl7 kuznyechik_soft_inv_enc_keys_tbl8 kuznyechik_soft_inv_enc_keys_tbl9 kuznyechik_soft_inv_enc_keys_tbl10 kuznyechik_soft_inv_enc_keys_tbl11 kuznyechik_soft_inv_enc_keys_tbl12 kuznyechik_soft_inv_enc_keys_tbl13 kuznyechik_soft_inv_enc_keys_tbl14 kuznyechik_soft_inv_enc_keys_tbl15 e0 e1 e2 e3 e4 e5 e6 e7 e8 e9 := by
  kuz_kernel_rfl

theorem invG_eq (t0 t1 t2 t3 t4 t5 t6 t7 t8 t9 t10 t11 t12 t13 t14 t15 : Array Nat) (h : RowsOK DEC_TABLE.get t0 t1 t2 t3 t4 t5 t6 t7 t8 t9 t10 t11 t12 t13 t14 t15) (e0 e1 e2 e3 e4 e5 e6 e7 e8 e9 : BitVec 128) :
    invG t0 t1 t2 t3 t4 t5 t6 t7 t8 t9 t10 t11 t12 t13 t14 t15 e0 e1 e2 e3 e4 e5 e6 e7 e8 e9 = rkTuple (Soft.inv_enc_keys ⟨e0, e1, e2, e3, e4, e5, e6, e7, e8, e9⟩) := by
  simp only [invG, rkTuple, Soft.inv_enc_keys, inv_with, trG_eq _ t0 t1 t2 t3 t4 t5 t6 t7 t8 t9 t10 t11 t12 t13 t14 t15 h, subG_eq _ P p_at]

/-- the regenerated `inv_enc_keys` (big_soft) is the model's `Soft.inv_enc_keys`, for all ten encryption keys -/
theorem kuznyechik_soft_inv_enc_keys_eq (e0 e1 e2 e3 e4 e5 e6 e7 e8 e9 : BitVec 128) :
    kuznyechik_soft_inv_enc_keys e0 e1 e2 e3 e4 e5 e6 e7 e8 e9 = rkTuple (Soft.inv_enc_keys ⟨e0, e1, e2, e3, e4, e5, e6, e7, e8, e9⟩) := by
  rw [soft_inv_enc_keys_eq_G, invG_eq _ _ _ _ _ _ _ _ _ _ _ _ _ _ _ _ decK]

end BC.GenKeys.Kuznyechik
