import BlockCiphers.Gen.Keys_Cast5
import BlockCiphers.Impl.Cast5
import BlockCiphers.Proofs.GenTables
import BlockCiphers.Proofs.GenCipherCast5
import Std.Tactic.BVDecide
import Lean.Elab.Tactic
/-!
Tie of the regenerated constructor `Cast5::new_from_slice` for the key lengths 5, 10, 11 and 16 bytes
(`Gen/Keys_Cast5.lean`, translated from /repo/cast5/src/{lib.rs,schedule.rs}: `init_state`, the zero padding, the two
passes of `schedule::key_schedule` with the `get_i!` macro) to the model `BC.Cast5.keySchedule`: for ALL keys

    Gen.Fn.cast5_new_from_slice_<n> key = c5Tuple (Cast5.keySchedule (n ≤ 10) (key ++ 0#(128 − 8n)))

(`c5Tuple` lists the fields `masking[0..16]`, `rotate[0..16]`, `small_key` of the model's `Keys` in declaration order;
`key ++ 0…` is the zero-padded 16-byte key; `new_<n>` restates it for `Cast5.new (unpackBE n key)`).
Proof.  `ksP s5 s6 s7 s8 w0 w1 w2 w3 skb` is the text of the regenerated 16-byte function with the four table look-ups
abstracted to functions and the key words to variables.  (1) every regenerated function is `ksP` at the look-ups into
the regenerated tables (for the short keys the translator has folded the look-ups at constant zero bytes: the kernel
evaluates them), (2) the regenerated tables are the model's (`Proofs/GenTables.lean`), (3) `ksP` at the model's
look-ups is the model's `keySchedule` — (1) and (3) are definitional equalities checked by the kernel (the schedule is
a DAG of 64 words, each used several times: no term-level unfolding).
-/
set_option maxRecDepth 100000
namespace BC.GenKeys.Cast5
open BC BC.Cast5 BC.Gen.Fn

open Lean Elab Tactic Meta in
/-- closes a goal `a = b` with the proof term `Eq.refl a`; the definitional-equality check is left to the kernel -/
elab "c5_kernel_rfl" : tactic => do
  let g ← getMainGoal
  let t ← instantiateMVars (← g.getType)
  let some (_, lhs, _) := t.eq? | throwError "c5_kernel_rfl: the goal is not an equality"
  g.assign (← mkEqRefl lhs)

/-- the regenerated key schedule with abstract S-box look-ups `s5 … s8` (argument: the `get_i!` byte as a `u32`) -/
def ksP (s5 s6 s7 s8 : BitVec 32 → BitVec 32) (w0 w1 w2 w3 : BitVec 32) (skb : BitVec 1) : BitVec 32 × BitVec 32 × BitVec 32 × BitVec 32 × BitVec 32 × BitVec 32 × BitVec 32 × BitVec 32 × BitVec 32 × BitVec 32 × BitVec 32 × BitVec 32 × BitVec 32 × BitVec 32 × BitVec 32 × BitVec 32 × BitVec 8 × BitVec 8 × BitVec 8 × BitVec 8 × BitVec 8 × BitVec 8 × BitVec 8 × BitVec 8 × BitVec 8 × BitVec 8 × BitVec 8 × BitVec 8 × BitVec 8 × BitVec 8 × BitVec 8 × BitVec 8 × BitVec 1 :=
  let z0 := ((((w0 ^^^ (s5 ((w3 >>> 16) &&& 0xff#32))) ^^^ (s6 ((w3 >>> 0) &&& 0xff#32))) ^^^ (s7 ((w3 >>> 24) &&& 0xff#32))) ^^^ (s8 ((w3 >>> 8) &&& 0xff#32))) ^^^ (s7 ((w2 >>> 24) &&& 0xff#32))
  let z1 := ((((w2 ^^^ (s5 ((z0 >>> 24) &&& 0xff#32))) ^^^ (s6 ((z0 >>> 8) &&& 0xff#32))) ^^^ (s7 ((z0 >>> 16) &&& 0xff#32))) ^^^ (s8 ((z0 >>> 0) &&& 0xff#32))) ^^^ (s8 ((w2 >>> 8) &&& 0xff#32))
  let z2 := ((((w3 ^^^ (s5 ((z1 >>> 0) &&& 0xff#32))) ^^^ (s6 ((z1 >>> 8) &&& 0xff#32))) ^^^ (s7 ((z1 >>> 16) &&& 0xff#32))) ^^^ (s8 ((z1 >>> 24) &&& 0xff#32))) ^^^ (s5 ((w2 >>> 16) &&& 0xff#32))
  let z3 := ((((w1 ^^^ (s5 ((z2 >>> 8) &&& 0xff#32))) ^^^ (s6 ((z2 >>> 16) &&& 0xff#32))) ^^^ (s7 ((z2 >>> 0) &&& 0xff#32))) ^^^ (s8 ((z2 >>> 24) &&& 0xff#32))) ^^^ (s6 ((w2 >>> 0) &&& 0xff#32))
  let k0 := ((((s5 ((z2 >>> 24) &&& 0xff#32)) ^^^ (s6 ((z2 >>> 16) &&& 0xff#32))) ^^^ (s7 ((z1 >>> 0) &&& 0xff#32))) ^^^ (s8 ((z1 >>> 8) &&& 0xff#32))) ^^^ (s5 ((z0 >>> 8) &&& 0xff#32))
  let k1 := ((((s5 ((z2 >>> 8) &&& 0xff#32)) ^^^ (s6 ((z2 >>> 0) &&& 0xff#32))) ^^^ (s7 ((z1 >>> 16) &&& 0xff#32))) ^^^ (s8 ((z1 >>> 24) &&& 0xff#32))) ^^^ (s6 ((z1 >>> 8) &&& 0xff#32))
  let k2 := ((((s5 ((z3 >>> 24) &&& 0xff#32)) ^^^ (s6 ((z3 >>> 16) &&& 0xff#32))) ^^^ (s7 ((z0 >>> 0) &&& 0xff#32))) ^^^ (s8 ((z0 >>> 8) &&& 0xff#32))) ^^^ (s7 ((z2 >>> 16) &&& 0xff#32))
  let k3 := ((((s5 ((z3 >>> 8) &&& 0xff#32)) ^^^ (s6 ((z3 >>> 0) &&& 0xff#32))) ^^^ (s7 ((z0 >>> 16) &&& 0xff#32))) ^^^ (s8 ((z0 >>> 24) &&& 0xff#32))) ^^^ (s8 ((z3 >>> 24) &&& 0xff#32))
  let x0 := ((((z2 ^^^ (s5 ((z1 >>> 16) &&& 0xff#32))) ^^^ (s6 ((z1 >>> 0) &&& 0xff#32))) ^^^ (s7 ((z1 >>> 24) &&& 0xff#32))) ^^^ (s8 ((z1 >>> 8) &&& 0xff#32))) ^^^ (s7 ((z0 >>> 24) &&& 0xff#32))
  let x1 := ((((z0 ^^^ (s5 ((x0 >>> 24) &&& 0xff#32))) ^^^ (s6 ((x0 >>> 8) &&& 0xff#32))) ^^^ (s7 ((x0 >>> 16) &&& 0xff#32))) ^^^ (s8 ((x0 >>> 0) &&& 0xff#32))) ^^^ (s8 ((z0 >>> 8) &&& 0xff#32))
  let x2 := ((((z1 ^^^ (s5 ((x1 >>> 0) &&& 0xff#32))) ^^^ (s6 ((x1 >>> 8) &&& 0xff#32))) ^^^ (s7 ((x1 >>> 16) &&& 0xff#32))) ^^^ (s8 ((x1 >>> 24) &&& 0xff#32))) ^^^ (s5 ((z0 >>> 16) &&& 0xff#32))
  let x3 := ((((z3 ^^^ (s5 ((x2 >>> 8) &&& 0xff#32))) ^^^ (s6 ((x2 >>> 16) &&& 0xff#32))) ^^^ (s7 ((x2 >>> 0) &&& 0xff#32))) ^^^ (s8 ((x2 >>> 24) &&& 0xff#32))) ^^^ (s6 ((z0 >>> 0) &&& 0xff#32))
  let k4 := ((((s5 ((x0 >>> 0) &&& 0xff#32)) ^^^ (s6 ((x0 >>> 8) &&& 0xff#32))) ^^^ (s7 ((x3 >>> 24) &&& 0xff#32))) ^^^ (s8 ((x3 >>> 16) &&& 0xff#32))) ^^^ (s5 ((x2 >>> 24) &&& 0xff#32))
  let k5 := ((((s5 ((x0 >>> 16) &&& 0xff#32)) ^^^ (s6 ((x0 >>> 24) &&& 0xff#32))) ^^^ (s7 ((x3 >>> 8) &&& 0xff#32))) ^^^ (s8 ((x3 >>> 0) &&& 0xff#32))) ^^^ (s6 ((x3 >>> 16) &&& 0xff#32))
  let k6 := ((((s5 ((x1 >>> 0) &&& 0xff#32)) ^^^ (s6 ((x1 >>> 8) &&& 0xff#32))) ^^^ (s7 ((x2 >>> 24) &&& 0xff#32))) ^^^ (s8 ((x2 >>> 16) &&& 0xff#32))) ^^^ (s7 ((x0 >>> 0) &&& 0xff#32))
  let k7 := ((((s5 ((x1 >>> 16) &&& 0xff#32)) ^^^ (s6 ((x1 >>> 24) &&& 0xff#32))) ^^^ (s7 ((x2 >>> 8) &&& 0xff#32))) ^^^ (s8 ((x2 >>> 0) &&& 0xff#32))) ^^^ (s8 ((x1 >>> 0) &&& 0xff#32))
  let z0_1 := ((((x0 ^^^ (s5 ((x3 >>> 16) &&& 0xff#32))) ^^^ (s6 ((x3 >>> 0) &&& 0xff#32))) ^^^ (s7 ((x3 >>> 24) &&& 0xff#32))) ^^^ (s8 ((x3 >>> 8) &&& 0xff#32))) ^^^ (s7 ((x2 >>> 24) &&& 0xff#32))
  let z1_1 := ((((x2 ^^^ (s5 ((z0_1 >>> 24) &&& 0xff#32))) ^^^ (s6 ((z0_1 >>> 8) &&& 0xff#32))) ^^^ (s7 ((z0_1 >>> 16) &&& 0xff#32))) ^^^ (s8 ((z0_1 >>> 0) &&& 0xff#32))) ^^^ (s8 ((x2 >>> 8) &&& 0xff#32))
  let z2_1 := ((((x3 ^^^ (s5 ((z1_1 >>> 0) &&& 0xff#32))) ^^^ (s6 ((z1_1 >>> 8) &&& 0xff#32))) ^^^ (s7 ((z1_1 >>> 16) &&& 0xff#32))) ^^^ (s8 ((z1_1 >>> 24) &&& 0xff#32))) ^^^ (s5 ((x2 >>> 16) &&& 0xff#32))
  let z3_1 := ((((x1 ^^^ (s5 ((z2_1 >>> 8) &&& 0xff#32))) ^^^ (s6 ((z2_1 >>> 16) &&& 0xff#32))) ^^^ (s7 ((z2_1 >>> 0) &&& 0xff#32))) ^^^ (s8 ((z2_1 >>> 24) &&& 0xff#32))) ^^^ (s6 ((x2 >>> 0) &&& 0xff#32))
  let k8 := ((((s5 ((z0_1 >>> 0) &&& 0xff#32)) ^^^ (s6 ((z0_1 >>> 8) &&& 0xff#32))) ^^^ (s7 ((z3_1 >>> 24) &&& 0xff#32))) ^^^ (s8 ((z3_1 >>> 16) &&& 0xff#32))) ^^^ (s5 ((z2_1 >>> 16) &&& 0xff#32))
  let k9 := ((((s5 ((z0_1 >>> 16) &&& 0xff#32)) ^^^ (s6 ((z0_1 >>> 24) &&& 0xff#32))) ^^^ (s7 ((z3_1 >>> 8) &&& 0xff#32))) ^^^ (s8 ((z3_1 >>> 0) &&& 0xff#32))) ^^^ (s6 ((z3_1 >>> 24) &&& 0xff#32))
  let k10 := ((((s5 ((z1_1 >>> 0) &&& 0xff#32)) ^^^ (s6 ((z1_1 >>> 8) &&& 0xff#32))) ^^^ (s7 ((z2_1 >>> 24) &&& 0xff#32))) ^^^ (s8 ((z2_1 >>> 16) &&& 0xff#32))) ^^^ (s7 ((z0_1 >>> 8) &&& 0xff#32))
  let k11 := ((((s5 ((z1_1 >>> 16) &&& 0xff#32)) ^^^ (s6 ((z1_1 >>> 24) &&& 0xff#32))) ^^^ (s7 ((z2_1 >>> 8) &&& 0xff#32))) ^^^ (s8 ((z2_1 >>> 0) &&& 0xff#32))) ^^^ (s8 ((z1_1 >>> 8) &&& 0xff#32))
  let x0_1 := ((((z2_1 ^^^ (s5 ((z1_1 >>> 16) &&& 0xff#32))) ^^^ (s6 ((z1_1 >>> 0) &&& 0xff#32))) ^^^ (s7 ((z1_1 >>> 24) &&& 0xff#32))) ^^^ (s8 ((z1_1 >>> 8) &&& 0xff#32))) ^^^ (s7 ((z0_1 >>> 24) &&& 0xff#32))
  let x1_1 := ((((z0_1 ^^^ (s5 ((x0_1 >>> 24) &&& 0xff#32))) ^^^ (s6 ((x0_1 >>> 8) &&& 0xff#32))) ^^^ (s7 ((x0_1 >>> 16) &&& 0xff#32))) ^^^ (s8 ((x0_1 >>> 0) &&& 0xff#32))) ^^^ (s8 ((z0_1 >>> 8) &&& 0xff#32))
  let x2_1 := ((((z1_1 ^^^ (s5 ((x1_1 >>> 0) &&& 0xff#32))) ^^^ (s6 ((x1_1 >>> 8) &&& 0xff#32))) ^^^ (s7 ((x1_1 >>> 16) &&& 0xff#32))) ^^^ (s8 ((x1_1 >>> 24) &&& 0xff#32))) ^^^ (s5 ((z0_1 >>> 16) &&& 0xff#32))
  let x3_1 := ((((z3_1 ^^^ (s5 ((x2_1 >>> 8) &&& 0xff#32))) ^^^ (s6 ((x2_1 >>> 16) &&& 0xff#32))) ^^^ (s7 ((x2_1 >>> 0) &&& 0xff#32))) ^^^ (s8 ((x2_1 >>> 24) &&& 0xff#32))) ^^^ (s6 ((z0_1 >>> 0) &&& 0xff#32))
  let k12 := ((((s5 ((x2_1 >>> 24) &&& 0xff#32)) ^^^ (s6 ((x2_1 >>> 16) &&& 0xff#32))) ^^^ (s7 ((x1_1 >>> 0) &&& 0xff#32))) ^^^ (s8 ((x1_1 >>> 8) &&& 0xff#32))) ^^^ (s5 ((x0_1 >>> 0) &&& 0xff#32))
  let k13 := ((((s5 ((x2_1 >>> 8) &&& 0xff#32)) ^^^ (s6 ((x2_1 >>> 0) &&& 0xff#32))) ^^^ (s7 ((x1_1 >>> 16) &&& 0xff#32))) ^^^ (s8 ((x1_1 >>> 24) &&& 0xff#32))) ^^^ (s6 ((x1_1 >>> 0) &&& 0xff#32))
  let k14 := ((((s5 ((x3_1 >>> 24) &&& 0xff#32)) ^^^ (s6 ((x3_1 >>> 16) &&& 0xff#32))) ^^^ (s7 ((x0_1 >>> 0) &&& 0xff#32))) ^^^ (s8 ((x0_1 >>> 8) &&& 0xff#32))) ^^^ (s7 ((x2_1 >>> 24) &&& 0xff#32))
  let k15 := ((((s5 ((x3_1 >>> 8) &&& 0xff#32)) ^^^ (s6 ((x3_1 >>> 0) &&& 0xff#32))) ^^^ (s7 ((x0_1 >>> 16) &&& 0xff#32))) ^^^ (s8 ((x0_1 >>> 24) &&& 0xff#32))) ^^^ (s8 ((x3_1 >>> 16) &&& 0xff#32))
  let z0_2 := ((((x0_1 ^^^ (s5 ((x3_1 >>> 16) &&& 0xff#32))) ^^^ (s6 ((x3_1 >>> 0) &&& 0xff#32))) ^^^ (s7 ((x3_1 >>> 24) &&& 0xff#32))) ^^^ (s8 ((x3_1 >>> 8) &&& 0xff#32))) ^^^ (s7 ((x2_1 >>> 24) &&& 0xff#32))
  let z1_2 := ((((x2_1 ^^^ (s5 ((z0_2 >>> 24) &&& 0xff#32))) ^^^ (s6 ((z0_2 >>> 8) &&& 0xff#32))) ^^^ (s7 ((z0_2 >>> 16) &&& 0xff#32))) ^^^ (s8 ((z0_2 >>> 0) &&& 0xff#32))) ^^^ (s8 ((x2_1 >>> 8) &&& 0xff#32))
  let z2_2 := ((((x3_1 ^^^ (s5 ((z1_2 >>> 0) &&& 0xff#32))) ^^^ (s6 ((z1_2 >>> 8) &&& 0xff#32))) ^^^ (s7 ((z1_2 >>> 16) &&& 0xff#32))) ^^^ (s8 ((z1_2 >>> 24) &&& 0xff#32))) ^^^ (s5 ((x2_1 >>> 16) &&& 0xff#32))
  let z3_2 := ((((x1_1 ^^^ (s5 ((z2_2 >>> 8) &&& 0xff#32))) ^^^ (s6 ((z2_2 >>> 16) &&& 0xff#32))) ^^^ (s7 ((z2_2 >>> 0) &&& 0xff#32))) ^^^ (s8 ((z2_2 >>> 24) &&& 0xff#32))) ^^^ (s6 ((x2_1 >>> 0) &&& 0xff#32))
  let k0_1 := ((((s5 ((z2_2 >>> 24) &&& 0xff#32)) ^^^ (s6 ((z2_2 >>> 16) &&& 0xff#32))) ^^^ (s7 ((z1_2 >>> 0) &&& 0xff#32))) ^^^ (s8 ((z1_2 >>> 8) &&& 0xff#32))) ^^^ (s5 ((z0_2 >>> 8) &&& 0xff#32))
  let k1_1 := ((((s5 ((z2_2 >>> 8) &&& 0xff#32)) ^^^ (s6 ((z2_2 >>> 0) &&& 0xff#32))) ^^^ (s7 ((z1_2 >>> 16) &&& 0xff#32))) ^^^ (s8 ((z1_2 >>> 24) &&& 0xff#32))) ^^^ (s6 ((z1_2 >>> 8) &&& 0xff#32))
  let k2_1 := ((((s5 ((z3_2 >>> 24) &&& 0xff#32)) ^^^ (s6 ((z3_2 >>> 16) &&& 0xff#32))) ^^^ (s7 ((z0_2 >>> 0) &&& 0xff#32))) ^^^ (s8 ((z0_2 >>> 8) &&& 0xff#32))) ^^^ (s7 ((z2_2 >>> 16) &&& 0xff#32))
  let k3_1 := ((((s5 ((z3_2 >>> 8) &&& 0xff#32)) ^^^ (s6 ((z3_2 >>> 0) &&& 0xff#32))) ^^^ (s7 ((z0_2 >>> 16) &&& 0xff#32))) ^^^ (s8 ((z0_2 >>> 24) &&& 0xff#32))) ^^^ (s8 ((z3_2 >>> 24) &&& 0xff#32))
  let x0_2 := ((((z2_2 ^^^ (s5 ((z1_2 >>> 16) &&& 0xff#32))) ^^^ (s6 ((z1_2 >>> 0) &&& 0xff#32))) ^^^ (s7 ((z1_2 >>> 24) &&& 0xff#32))) ^^^ (s8 ((z1_2 >>> 8) &&& 0xff#32))) ^^^ (s7 ((z0_2 >>> 24) &&& 0xff#32))
  let x1_2 := ((((z0_2 ^^^ (s5 ((x0_2 >>> 24) &&& 0xff#32))) ^^^ (s6 ((x0_2 >>> 8) &&& 0xff#32))) ^^^ (s7 ((x0_2 >>> 16) &&& 0xff#32))) ^^^ (s8 ((x0_2 >>> 0) &&& 0xff#32))) ^^^ (s8 ((z0_2 >>> 8) &&& 0xff#32))
  let x2_2 := ((((z1_2 ^^^ (s5 ((x1_2 >>> 0) &&& 0xff#32))) ^^^ (s6 ((x1_2 >>> 8) &&& 0xff#32))) ^^^ (s7 ((x1_2 >>> 16) &&& 0xff#32))) ^^^ (s8 ((x1_2 >>> 24) &&& 0xff#32))) ^^^ (s5 ((z0_2 >>> 16) &&& 0xff#32))
  let x3_2 := ((((z3_2 ^^^ (s5 ((x2_2 >>> 8) &&& 0xff#32))) ^^^ (s6 ((x2_2 >>> 16) &&& 0xff#32))) ^^^ (s7 ((x2_2 >>> 0) &&& 0xff#32))) ^^^ (s8 ((x2_2 >>> 24) &&& 0xff#32))) ^^^ (s6 ((z0_2 >>> 0) &&& 0xff#32))
  let k4_1 := ((((s5 ((x0_2 >>> 0) &&& 0xff#32)) ^^^ (s6 ((x0_2 >>> 8) &&& 0xff#32))) ^^^ (s7 ((x3_2 >>> 24) &&& 0xff#32))) ^^^ (s8 ((x3_2 >>> 16) &&& 0xff#32))) ^^^ (s5 ((x2_2 >>> 24) &&& 0xff#32))
  let k5_1 := ((((s5 ((x0_2 >>> 16) &&& 0xff#32)) ^^^ (s6 ((x0_2 >>> 24) &&& 0xff#32))) ^^^ (s7 ((x3_2 >>> 8) &&& 0xff#32))) ^^^ (s8 ((x3_2 >>> 0) &&& 0xff#32))) ^^^ (s6 ((x3_2 >>> 16) &&& 0xff#32))
  let k6_1 := ((((s5 ((x1_2 >>> 0) &&& 0xff#32)) ^^^ (s6 ((x1_2 >>> 8) &&& 0xff#32))) ^^^ (s7 ((x2_2 >>> 24) &&& 0xff#32))) ^^^ (s8 ((x2_2 >>> 16) &&& 0xff#32))) ^^^ (s7 ((x0_2 >>> 0) &&& 0xff#32))
  let k7_1 := ((((s5 ((x1_2 >>> 16) &&& 0xff#32)) ^^^ (s6 ((x1_2 >>> 24) &&& 0xff#32))) ^^^ (s7 ((x2_2 >>> 8) &&& 0xff#32))) ^^^ (s8 ((x2_2 >>> 0) &&& 0xff#32))) ^^^ (s8 ((x1_2 >>> 0) &&& 0xff#32))
  let z0_3 := ((((x0_2 ^^^ (s5 ((x3_2 >>> 16) &&& 0xff#32))) ^^^ (s6 ((x3_2 >>> 0) &&& 0xff#32))) ^^^ (s7 ((x3_2 >>> 24) &&& 0xff#32))) ^^^ (s8 ((x3_2 >>> 8) &&& 0xff#32))) ^^^ (s7 ((x2_2 >>> 24) &&& 0xff#32))
  let z1_3 := ((((x2_2 ^^^ (s5 ((z0_3 >>> 24) &&& 0xff#32))) ^^^ (s6 ((z0_3 >>> 8) &&& 0xff#32))) ^^^ (s7 ((z0_3 >>> 16) &&& 0xff#32))) ^^^ (s8 ((z0_3 >>> 0) &&& 0xff#32))) ^^^ (s8 ((x2_2 >>> 8) &&& 0xff#32))
  let z2_3 := ((((x3_2 ^^^ (s5 ((z1_3 >>> 0) &&& 0xff#32))) ^^^ (s6 ((z1_3 >>> 8) &&& 0xff#32))) ^^^ (s7 ((z1_3 >>> 16) &&& 0xff#32))) ^^^ (s8 ((z1_3 >>> 24) &&& 0xff#32))) ^^^ (s5 ((x2_2 >>> 16) &&& 0xff#32))
  let z3_3 := ((((x1_2 ^^^ (s5 ((z2_3 >>> 8) &&& 0xff#32))) ^^^ (s6 ((z2_3 >>> 16) &&& 0xff#32))) ^^^ (s7 ((z2_3 >>> 0) &&& 0xff#32))) ^^^ (s8 ((z2_3 >>> 24) &&& 0xff#32))) ^^^ (s6 ((x2_2 >>> 0) &&& 0xff#32))
  let k8_1 := ((((s5 ((z0_3 >>> 0) &&& 0xff#32)) ^^^ (s6 ((z0_3 >>> 8) &&& 0xff#32))) ^^^ (s7 ((z3_3 >>> 24) &&& 0xff#32))) ^^^ (s8 ((z3_3 >>> 16) &&& 0xff#32))) ^^^ (s5 ((z2_3 >>> 16) &&& 0xff#32))
  let k9_1 := ((((s5 ((z0_3 >>> 16) &&& 0xff#32)) ^^^ (s6 ((z0_3 >>> 24) &&& 0xff#32))) ^^^ (s7 ((z3_3 >>> 8) &&& 0xff#32))) ^^^ (s8 ((z3_3 >>> 0) &&& 0xff#32))) ^^^ (s6 ((z3_3 >>> 24) &&& 0xff#32))
  let k10_1 := ((((s5 ((z1_3 >>> 0) &&& 0xff#32)) ^^^ (s6 ((z1_3 >>> 8) &&& 0xff#32))) ^^^ (s7 ((z2_3 >>> 24) &&& 0xff#32))) ^^^ (s8 ((z2_3 >>> 16) &&& 0xff#32))) ^^^ (s7 ((z0_3 >>> 8) &&& 0xff#32))
  let k11_1 := ((((s5 ((z1_3 >>> 16) &&& 0xff#32)) ^^^ (s6 ((z1_3 >>> 24) &&& 0xff#32))) ^^^ (s7 ((z2_3 >>> 8) &&& 0xff#32))) ^^^ (s8 ((z2_3 >>> 0) &&& 0xff#32))) ^^^ (s8 ((z1_3 >>> 8) &&& 0xff#32))
  let x0_3 := ((((z2_3 ^^^ (s5 ((z1_3 >>> 16) &&& 0xff#32))) ^^^ (s6 ((z1_3 >>> 0) &&& 0xff#32))) ^^^ (s7 ((z1_3 >>> 24) &&& 0xff#32))) ^^^ (s8 ((z1_3 >>> 8) &&& 0xff#32))) ^^^ (s7 ((z0_3 >>> 24) &&& 0xff#32))
  let x1_3 := ((((z0_3 ^^^ (s5 ((x0_3 >>> 24) &&& 0xff#32))) ^^^ (s6 ((x0_3 >>> 8) &&& 0xff#32))) ^^^ (s7 ((x0_3 >>> 16) &&& 0xff#32))) ^^^ (s8 ((x0_3 >>> 0) &&& 0xff#32))) ^^^ (s8 ((z0_3 >>> 8) &&& 0xff#32))
  let x2_3 := ((((z1_3 ^^^ (s5 ((x1_3 >>> 0) &&& 0xff#32))) ^^^ (s6 ((x1_3 >>> 8) &&& 0xff#32))) ^^^ (s7 ((x1_3 >>> 16) &&& 0xff#32))) ^^^ (s8 ((x1_3 >>> 24) &&& 0xff#32))) ^^^ (s5 ((z0_3 >>> 16) &&& 0xff#32))
  let x3_3 := ((((z3_3 ^^^ (s5 ((x2_3 >>> 8) &&& 0xff#32))) ^^^ (s6 ((x2_3 >>> 16) &&& 0xff#32))) ^^^ (s7 ((x2_3 >>> 0) &&& 0xff#32))) ^^^ (s8 ((x2_3 >>> 24) &&& 0xff#32))) ^^^ (s6 ((z0_3 >>> 0) &&& 0xff#32))
  let k12_1 := ((((s5 ((x2_3 >>> 24) &&& 0xff#32)) ^^^ (s6 ((x2_3 >>> 16) &&& 0xff#32))) ^^^ (s7 ((x1_3 >>> 0) &&& 0xff#32))) ^^^ (s8 ((x1_3 >>> 8) &&& 0xff#32))) ^^^ (s5 ((x0_3 >>> 0) &&& 0xff#32))
  let k13_1 := ((((s5 ((x2_3 >>> 8) &&& 0xff#32)) ^^^ (s6 ((x2_3 >>> 0) &&& 0xff#32))) ^^^ (s7 ((x1_3 >>> 16) &&& 0xff#32))) ^^^ (s8 ((x1_3 >>> 24) &&& 0xff#32))) ^^^ (s6 ((x1_3 >>> 0) &&& 0xff#32))
  let k14_1 := ((((s5 ((x3_3 >>> 24) &&& 0xff#32)) ^^^ (s6 ((x3_3 >>> 16) &&& 0xff#32))) ^^^ (s7 ((x0_3 >>> 0) &&& 0xff#32))) ^^^ (s8 ((x0_3 >>> 8) &&& 0xff#32))) ^^^ (s7 ((x2_3 >>> 24) &&& 0xff#32))
  let k15_1 := ((((s5 ((x3_3 >>> 8) &&& 0xff#32)) ^^^ (s6 ((x3_3 >>> 0) &&& 0xff#32))) ^^^ (s7 ((x0_3 >>> 16) &&& 0xff#32))) ^^^ (s8 ((x0_3 >>> 24) &&& 0xff#32))) ^^^ (s8 ((x3_3 >>> 16) &&& 0xff#32))
  let t := (k0_1 &&& 0x1f#32).setWidth 8
  let t_1 := (k1_1 &&& 0x1f#32).setWidth 8
  let t_2 := (k2_1 &&& 0x1f#32).setWidth 8
  let t_3 := (k3_1 &&& 0x1f#32).setWidth 8
  let t_4 := (k4_1 &&& 0x1f#32).setWidth 8
  let t_5 := (k5_1 &&& 0x1f#32).setWidth 8
  let t_6 := (k6_1 &&& 0x1f#32).setWidth 8
  let t_7 := (k7_1 &&& 0x1f#32).setWidth 8
  let t_8 := (k8_1 &&& 0x1f#32).setWidth 8
  let t_9 := (k9_1 &&& 0x1f#32).setWidth 8
  let t_10 := (k10_1 &&& 0x1f#32).setWidth 8
  let t_11 := (k11_1 &&& 0x1f#32).setWidth 8
  let t_12 := (k12_1 &&& 0x1f#32).setWidth 8
  let t_13 := (k13_1 &&& 0x1f#32).setWidth 8
  let t_14 := (k14_1 &&& 0x1f#32).setWidth 8
  let t_15 := (k15_1 &&& 0x1f#32).setWidth 8
  (k0, k1, k2, k3, k4, k5, k6, k7, k8, k9, k10, k11, k12, k13, k14, k15, t, t_1, t_2, t_3, t_4, t_5, t_6, t_7, t_8, t_9, t_10, t_11, t_12, t_13, t_14, t_15, skb)

/-- look-ups into the regenerated tables, as the generated text performs them -/
def g5 (e : BitVec 32) : BitVec 32 := BC.Gen.tblAt BC.Gen.cast5_S5 (e.setWidth 64).toNat 32
def g6 (e : BitVec 32) : BitVec 32 := BC.Gen.tblAt BC.Gen.cast5_S6 (e.setWidth 64).toNat 32
def g7 (e : BitVec 32) : BitVec 32 := BC.Gen.tblAt BC.Gen.cast5_S7 (e.setWidth 64).toNat 32
def g8 (e : BitVec 32) : BitVec 32 := BC.Gen.tblAt BC.Gen.cast5_S8 (e.setWidth 64).toNat 32
/-- look-ups into the model's tables, as `schedule::key_schedule` of the model performs them -/
def m5 (e : BitVec 32) : BitVec 32 := Consts.S5[e.toNat]!
def m6 (e : BitVec 32) : BitVec 32 := Consts.S6[e.toNat]!
def m7 (e : BitVec 32) : BitVec 32 := Consts.S7[e.toNat]!
def m8 (e : BitVec 32) : BitVec 32 := Consts.S8[e.toNat]!

theorem g5_eq : g5 = m5 := by
  funext e; simp only [g5, m5, BC.GenCipher.Cast5.idx]; exact BC.GenCipher.Cast5.tbl_eq _ _ BC.GenTables.cast5_S5_eq _
theorem g6_eq : g6 = m6 := by
  funext e; simp only [g6, m6, BC.GenCipher.Cast5.idx]; exact BC.GenCipher.Cast5.tbl_eq _ _ BC.GenTables.cast5_S6_eq _
theorem g7_eq : g7 = m7 := by
  funext e; simp only [g7, m7, BC.GenCipher.Cast5.idx]; exact BC.GenCipher.Cast5.tbl_eq _ _ BC.GenTables.cast5_S7_eq _
theorem g8_eq : g8 = m8 := by
  funext e; simp only [g8, m8, BC.GenCipher.Cast5.idx]; exact BC.GenCipher.Cast5.tbl_eq _ _ BC.GenTables.cast5_S8_eq _

/-- the fields `masking: [u32; 16]`, `rotate: [u8; 16]`, `small_key: bool` flattened -/
def c5Tuple (ks : Keys) :=
  (ks.masking[0]!, ks.masking[1]!, ks.masking[2]!, ks.masking[3]!, ks.masking[4]!, ks.masking[5]!, ks.masking[6]!, ks.masking[7]!, ks.masking[8]!, ks.masking[9]!, ks.masking[10]!, ks.masking[11]!, ks.masking[12]!, ks.masking[13]!, ks.masking[14]!, ks.masking[15]!, ks.rotate[0]!, ks.rotate[1]!, ks.rotate[2]!, ks.rotate[3]!, ks.rotate[4]!, ks.rotate[5]!, ks.rotate[6]!, ks.rotate[7]!, ks.rotate[8]!, ks.rotate[9]!, ks.rotate[10]!, ks.rotate[11]!, ks.rotate[12]!, ks.rotate[13]!, ks.rotate[14]!, ks.rotate[15]!, (if ks.small_key then 1#1 else 0#1))

/-- (3) `ksP` at the model's look-ups is the model's key schedule -/
theorem ksP_model (sk : Bool) (k : BitVec 128) :
    ksP m5 m6 m7 m8 (k.extractLsb' 96 32) (k.extractLsb' 64 32) (k.extractLsb' 32 32) (k.extractLsb' 0 32) (if sk then 1#1 else 0#1) =
      c5Tuple (keySchedule sk k) := by
  c5_kernel_rfl

/-! ### 5-byte keys -/

/-- (1) the regenerated function is `ksP` at the regenerated tables -/
theorem new_from_slice_5_eq_P (key : BitVec 40) :
    cast5_new_from_slice_5 key = ksP g5 g6 g7 g8 ((key.extractLsb' 32 8) ++ (key.extractLsb' 24 8) ++ (key.extractLsb' 16 8) ++ (key.extractLsb' 8 8)) ((key.extractLsb' 0 8) ++ 0x0#8 ++ 0x0#8 ++ 0x0#8) 0x0#32 0x0#32 0x1#1 := by
  c5_kernel_rfl

theorem word_5_0 (key : BitVec 40) : ((key.extractLsb' 32 8) ++ (key.extractLsb' 24 8) ++ (key.extractLsb' 16 8) ++ (key.extractLsb' 8 8)) = (((key ++ 0#88) : BitVec 128)).extractLsb' 96 32 := by
  bv_decide
theorem word_5_1 (key : BitVec 40) : ((key.extractLsb' 0 8) ++ 0x0#8 ++ 0x0#8 ++ 0x0#8) = (((key ++ 0#88) : BitVec 128)).extractLsb' 64 32 := by
  bv_decide
theorem word_5_2 (key : BitVec 40) : 0x0#32 = (((key ++ 0#88) : BitVec 128)).extractLsb' 32 32 := by
  bv_decide
theorem word_5_3 (key : BitVec 40) : 0x0#32 = (((key ++ 0#88) : BitVec 128)).extractLsb' 0 32 := by
  bv_decide

/-- `Cast5::new_from_slice` on a 5-byte key, as regenerated from the Rust source, computes the model's key schedule -/
theorem new_from_slice_5_eq (key : BitVec 40) :
    cast5_new_from_slice_5 key = c5Tuple (keySchedule true ((key ++ 0#88) : BitVec 128)) := by
  rw [new_from_slice_5_eq_P, g5_eq, g6_eq, g7_eq, g8_eq]
  have h := ksP_model true ((key ++ 0#88) : BitVec 128)
  rw [← word_5_0 key, ← word_5_1 key, ← word_5_2 key, ← word_5_3 key] at h
  exact h

/-! ### 10-byte keys -/

/-- (1) the regenerated function is `ksP` at the regenerated tables -/
theorem new_from_slice_10_eq_P (key : BitVec 80) :
    cast5_new_from_slice_10 key = ksP g5 g6 g7 g8 ((key.extractLsb' 72 8) ++ (key.extractLsb' 64 8) ++ (key.extractLsb' 56 8) ++ (key.extractLsb' 48 8)) ((key.extractLsb' 40 8) ++ (key.extractLsb' 32 8) ++ (key.extractLsb' 24 8) ++ (key.extractLsb' 16 8)) ((key.extractLsb' 8 8) ++ (key.extractLsb' 0 8) ++ 0x0#8 ++ 0x0#8) 0x0#32 0x1#1 := by
  c5_kernel_rfl

theorem word_10_0 (key : BitVec 80) : ((key.extractLsb' 72 8) ++ (key.extractLsb' 64 8) ++ (key.extractLsb' 56 8) ++ (key.extractLsb' 48 8)) = (((key ++ 0#48) : BitVec 128)).extractLsb' 96 32 := by
  bv_decide
theorem word_10_1 (key : BitVec 80) : ((key.extractLsb' 40 8) ++ (key.extractLsb' 32 8) ++ (key.extractLsb' 24 8) ++ (key.extractLsb' 16 8)) = (((key ++ 0#48) : BitVec 128)).extractLsb' 64 32 := by
  bv_decide
theorem word_10_2 (key : BitVec 80) : ((key.extractLsb' 8 8) ++ (key.extractLsb' 0 8) ++ 0x0#8 ++ 0x0#8) = (((key ++ 0#48) : BitVec 128)).extractLsb' 32 32 := by
  bv_decide
theorem word_10_3 (key : BitVec 80) : 0x0#32 = (((key ++ 0#48) : BitVec 128)).extractLsb' 0 32 := by
  bv_decide

/-- `Cast5::new_from_slice` on a 10-byte key, as regenerated from the Rust source, computes the model's key schedule -/
theorem new_from_slice_10_eq (key : BitVec 80) :
    cast5_new_from_slice_10 key = c5Tuple (keySchedule true ((key ++ 0#48) : BitVec 128)) := by
  rw [new_from_slice_10_eq_P, g5_eq, g6_eq, g7_eq, g8_eq]
  have h := ksP_model true ((key ++ 0#48) : BitVec 128)
  rw [← word_10_0 key, ← word_10_1 key, ← word_10_2 key, ← word_10_3 key] at h
  exact h

/-! ### 11-byte keys -/

/-- (1) the regenerated function is `ksP` at the regenerated tables -/
theorem new_from_slice_11_eq_P (key : BitVec 88) :
    cast5_new_from_slice_11 key = ksP g5 g6 g7 g8 ((key.extractLsb' 80 8) ++ (key.extractLsb' 72 8) ++ (key.extractLsb' 64 8) ++ (key.extractLsb' 56 8)) ((key.extractLsb' 48 8) ++ (key.extractLsb' 40 8) ++ (key.extractLsb' 32 8) ++ (key.extractLsb' 24 8)) ((key.extractLsb' 16 8) ++ (key.extractLsb' 8 8) ++ (key.extractLsb' 0 8) ++ 0x0#8) 0x0#32 0x0#1 := by
  c5_kernel_rfl

theorem word_11_0 (key : BitVec 88) : ((key.extractLsb' 80 8) ++ (key.extractLsb' 72 8) ++ (key.extractLsb' 64 8) ++ (key.extractLsb' 56 8)) = (((key ++ 0#40) : BitVec 128)).extractLsb' 96 32 := by
  bv_decide
theorem word_11_1 (key : BitVec 88) : ((key.extractLsb' 48 8) ++ (key.extractLsb' 40 8) ++ (key.extractLsb' 32 8) ++ (key.extractLsb' 24 8)) = (((key ++ 0#40) : BitVec 128)).extractLsb' 64 32 := by
  bv_decide
theorem word_11_2 (key : BitVec 88) : ((key.extractLsb' 16 8) ++ (key.extractLsb' 8 8) ++ (key.extractLsb' 0 8) ++ 0x0#8) = (((key ++ 0#40) : BitVec 128)).extractLsb' 32 32 := by
  bv_decide
theorem word_11_3 (key : BitVec 88) : 0x0#32 = (((key ++ 0#40) : BitVec 128)).extractLsb' 0 32 := by
  bv_decide

/-- `Cast5::new_from_slice` on a 11-byte key, as regenerated from the Rust source, computes the model's key schedule -/
theorem new_from_slice_11_eq (key : BitVec 88) :
    cast5_new_from_slice_11 key = c5Tuple (keySchedule false ((key ++ 0#40) : BitVec 128)) := by
  rw [new_from_slice_11_eq_P, g5_eq, g6_eq, g7_eq, g8_eq]
  have h := ksP_model false ((key ++ 0#40) : BitVec 128)
  rw [← word_11_0 key, ← word_11_1 key, ← word_11_2 key, ← word_11_3 key] at h
  exact h

/-! ### 16-byte keys -/

/-- (1) the regenerated function is `ksP` at the regenerated tables -/
theorem new_from_slice_16_eq_P (key : BitVec 128) :
    cast5_new_from_slice_16 key = ksP g5 g6 g7 g8 ((key.extractLsb' 120 8) ++ (key.extractLsb' 112 8) ++ (key.extractLsb' 104 8) ++ (key.extractLsb' 96 8)) ((key.extractLsb' 88 8) ++ (key.extractLsb' 80 8) ++ (key.extractLsb' 72 8) ++ (key.extractLsb' 64 8)) ((key.extractLsb' 56 8) ++ (key.extractLsb' 48 8) ++ (key.extractLsb' 40 8) ++ (key.extractLsb' 32 8)) ((key.extractLsb' 24 8) ++ (key.extractLsb' 16 8) ++ (key.extractLsb' 8 8) ++ (key.extractLsb' 0 8)) 0x0#1 := by
  c5_kernel_rfl

theorem word_16_0 (key : BitVec 128) : ((key.extractLsb' 120 8) ++ (key.extractLsb' 112 8) ++ (key.extractLsb' 104 8) ++ (key.extractLsb' 96 8)) = ((key : BitVec 128)).extractLsb' 96 32 := by
  bv_decide
theorem word_16_1 (key : BitVec 128) : ((key.extractLsb' 88 8) ++ (key.extractLsb' 80 8) ++ (key.extractLsb' 72 8) ++ (key.extractLsb' 64 8)) = ((key : BitVec 128)).extractLsb' 64 32 := by
  bv_decide
theorem word_16_2 (key : BitVec 128) : ((key.extractLsb' 56 8) ++ (key.extractLsb' 48 8) ++ (key.extractLsb' 40 8) ++ (key.extractLsb' 32 8)) = ((key : BitVec 128)).extractLsb' 32 32 := by
  bv_decide
theorem word_16_3 (key : BitVec 128) : ((key.extractLsb' 24 8) ++ (key.extractLsb' 16 8) ++ (key.extractLsb' 8 8) ++ (key.extractLsb' 0 8)) = ((key : BitVec 128)).extractLsb' 0 32 := by
  bv_decide

/-- `Cast5::new_from_slice` on a 16-byte key, as regenerated from the Rust source, computes the model's key schedule -/
theorem new_from_slice_16_eq (key : BitVec 128) :
    cast5_new_from_slice_16 key = c5Tuple (keySchedule false (key : BitVec 128)) := by
  rw [new_from_slice_16_eq_P, g5_eq, g6_eq, g7_eq, g8_eq]
  have h := ksP_model false (key : BitVec 128)
  rw [← word_16_0 key, ← word_16_1 key, ← word_16_2 key, ← word_16_3 key] at h
  exact h

end BC.GenKeys.Cast5
