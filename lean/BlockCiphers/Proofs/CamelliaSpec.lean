import BlockCiphers.Proofs.Basic
import BlockCiphers.Impl.Camellia
import BlockCiphers.Spec.Camellia
/-
C06 for the `camellia` crate: the model of the Rust code (`Impl/Camellia.lean`) computes RFC 3713
(`Spec/Camellia.lean`) for every key of the three sizes and every block, both directions.
-/
namespace BC.Camellia
open BC.Spec.Camellia (F FL FLINV hi64 lo64 join rotHi rotLo computeKA computeKB Subkeys subkeys128
  subkeys256 MASK8 MASK32 MASK64 sbox1 sbox2 sbox3 sbox4)

/-! ### S-boxes: the four tables of consts.rs are SBOX1 and its three RFC-defined derivatives -/

theorem SBOX1_eq_spec : SBOX1 = Spec.Camellia.SBOX1 := by decide +kernel

theorem sb1_fin : ∀ i : Fin 256, sb1 (BitVec.ofFin i) = sbox1 (BitVec.ofFin i) := by decide +kernel
/-- `SBOXES[1][x] = SBOX1[x] <<< 1` -/
theorem sb2_fin : ∀ i : Fin 256, sb2 (BitVec.ofFin i) = sbox2 (BitVec.ofFin i) := by decide +kernel
/-- `SBOXES[2][x] = SBOX1[x] <<< 7` -/
theorem sb3_fin : ∀ i : Fin 256, sb3 (BitVec.ofFin i) = sbox3 (BitVec.ofFin i) := by decide +kernel
/-- `SBOXES[3][x] = SBOX1[x <<< 1]` -/
theorem sb4_fin : ∀ i : Fin 256, sb4 (BitVec.ofFin i) = sbox4 (BitVec.ofFin i) := by decide +kernel

theorem sb1_eq (x : BitVec 8) : sb1 x = sbox1 x := sb1_fin x.toFin
theorem sb2_eq (x : BitVec 8) : sb2 x = sbox2 x := sb2_fin x.toFin
theorem sb3_eq (x : BitVec 8) : sb3 x = sbox3 x := sb3_fin x.toFin
theorem sb4_eq (x : BitVec 8) : sb4 x = sbox4 x := sb4_fin x.toFin

/-! ### F: the multiply-and-xor gather of utils.rs `f` is the P-function applied to the S-box outputs -/

/-- C20: none of the eight products of `f` overflows a `u64` (dev-profile `*` does not panic) -/
theorem f_mul_no_overflow (t : BitVec 8) :
    0x0101010001000001 * t.toNat < 2 ^ 64 ∧ 0x0001010101010000 * t.toNat < 2 ^ 64 ∧
    0x0100010100010100 * t.toNat < 2 ^ 64 ∧ 0x0101000100000101 * t.toNat < 2 ^ 64 ∧
    0x0001010100010101 * t.toNat < 2 ^ 64 ∧ 0x0100010101000101 * t.toNat < 2 ^ 64 ∧
    0x0101000101010001 * t.toNat < 2 ^ 64 ∧ 0x0101010001010100 * t.toNat < 2 ^ 64 := by
  have := t.isLt; omega

theorem gather (t1 t2 t3 t4 t5 t6 t7 t8 : BitVec 8) :
    0x0101010001000001#64 * t1.setWidth 64 ^^^ 0x0001010101010000#64 * t2.setWidth 64 ^^^
    0x0100010100010100#64 * t3.setWidth 64 ^^^ 0x0101000100000101#64 * t4.setWidth 64 ^^^
    0x0001010100010101#64 * t5.setWidth 64 ^^^ 0x0100010101000101#64 * t6.setWidth 64 ^^^
    0x0101000101010001#64 * t7.setWidth 64 ^^^ 0x0101010001010100#64 * t8.setWidth 64 =
    ((t1 ^^^ t3 ^^^ t4 ^^^ t6 ^^^ t7 ^^^ t8).setWidth 64 <<< 56) |||
    ((t1 ^^^ t2 ^^^ t4 ^^^ t5 ^^^ t7 ^^^ t8).setWidth 64 <<< 48) |||
    ((t1 ^^^ t2 ^^^ t3 ^^^ t5 ^^^ t6 ^^^ t8).setWidth 64 <<< 40) |||
    ((t2 ^^^ t3 ^^^ t4 ^^^ t5 ^^^ t6 ^^^ t7).setWidth 64 <<< 32) |||
    ((t1 ^^^ t2 ^^^ t6 ^^^ t7 ^^^ t8).setWidth 64 <<< 24) |||
    ((t2 ^^^ t3 ^^^ t5 ^^^ t7 ^^^ t8).setWidth 64 <<< 16) |||
    ((t3 ^^^ t4 ^^^ t5 ^^^ t6 ^^^ t8).setWidth 64 <<< 8) |||
    (t1 ^^^ t4 ^^^ t5 ^^^ t6 ^^^ t7).setWidth 64 := by
  bv_decide (config := { timeout := 600 })

/- `(x >>> s &&& 0xff).setWidth 8` is rewritten by `byte8` to `(x >>> s).extractLsb' 0 8`, which is
   definitionally `x.extractLsb' s 8` (closed by `exact` below). -/
theorem byte1 (x : BitVec 64) : (x >>> 56).setWidth 8 = x.extractLsb' 56 8 := by bv_decide (config := { timeout := 600 })
theorem byte8 (x : BitVec 64) : (x &&& 0xff#64).setWidth 8 = x.extractLsb' 0 8 := by bv_decide (config := { timeout := 600 })

/-- utils.rs `f` = RFC 3713 F -/
theorem f_eq_F (x k : BitVec 64) : f x k = F x k := by
  simp only [f, F, MASK8, byte1, byte8,
    sb1_eq, sb2_eq, sb3_eq, sb4_eq]
  exact gather _ _ _ _ _ _ _ _

theorem fl_eq_FL (x k : BitVec 64) : fl x k = FL x k := rfl
theorem flinv_eq_FLINV (x k : BitVec 64) : flinv x k = FLINV x k := rfl

/-! ### `(u64, u64)` pairs are the RFC's 128-bit quantities -/

def toU128 (p : Pair) : BitVec 128 := join p.fst p.snd

theorem hi64_join (a b : BitVec 64) : hi64 (join a b) = a := by
  simp only [hi64, join]; bv_decide (config := { timeout := 600 })
theorem lo64_join (a b : BitVec 64) : lo64 (join a b) = b := by
  simp only [lo64, join, MASK64]; bv_decide (config := { timeout := 600 })
theorem hi64_xor (x y : BitVec 128) : hi64 (x ^^^ y) = hi64 x ^^^ hi64 y := by
  simp only [hi64]; bv_decide (config := { timeout := 600 })
theorem lo64_xor (x y : BitVec 128) : lo64 (x ^^^ y) = lo64 x ^^^ lo64 y := by
  simp only [lo64, MASK64]; bv_decide (config := { timeout := 600 })
theorem join_hi_lo (x : BitVec 128) : join (hi64 x) (lo64 x) = x := by
  simp only [hi64, lo64, join, MASK64]; bv_decide (config := { timeout := 600 })
theorem hi64_eq (x : BitVec 128) : hi64 x = x.extractLsb' 64 64 := by
  simp only [hi64]; bv_decide (config := { timeout := 600 })
theorem lo64_eq (x : BitVec 128) : lo64 x = x.extractLsb' 0 64 := by
  simp only [lo64, MASK64]; bv_decide (config := { timeout := 600 })
theorem join_eq_append (a b : BitVec 64) : join a b = a ++ b := by
  simp only [join]; bv_decide (config := { timeout := 600 })

theorem SIGMA0_eq : SIGMA0 = Spec.Camellia.Sigma1 := rfl
theorem SIGMA1_eq : SIGMA1 = Spec.Camellia.Sigma2 := rfl
theorem SIGMA2_eq : SIGMA2 = Spec.Camellia.Sigma3 := rfl
theorem SIGMA3_eq : SIGMA3 = Spec.Camellia.Sigma4 := rfl
theorem SIGMA4_eq : SIGMA4 = Spec.Camellia.Sigma5 := rfl
theorem SIGMA5_eq : SIGMA5 = Spec.Camellia.Sigma6 := rfl

/-- utils.rs `set_ka` computes KA -/
theorem setKa_spec (kl kr : Pair) : toU128 (setKa kl kr) = computeKA (toU128 kl) (toU128 kr) := by
  simp only [toU128, setKa, computeKA, hi64_xor, lo64_xor, hi64_join, lo64_join, f_eq_F,
    SIGMA0_eq, SIGMA1_eq, SIGMA2_eq, SIGMA3_eq]

/-- utils.rs `set_kb` computes KB -/
theorem setKb_spec (ka kr : Pair) : toU128 (setKb ka kr) = computeKB (toU128 ka) (toU128 kr) := by
  simp only [toU128, setKb, computeKB, hi64_xor, lo64_xor, hi64_join, lo64_join, f_eq_F,
    SIGMA4_eq, SIGMA5_eq]

/-! ### `rotate_left_high` / `rotate_left_low` are the halves of the 128-bit rotation, for the seven
amounts used; for 77, 94, 111 the *callers* exchange high and low (`rotate_left_low(kl, 77)` is the
high half of `KL <<< 77`). -/

theorem fst_rot0 (p : Pair) : p.fst = rotHi (toU128 p) 0 := by
  cases p; simp only [toU128, rotHi, join, hi64]; bv_decide (config := { timeout := 600 })
theorem snd_rot0 (p : Pair) : p.snd = rotLo (toU128 p) 0 := by
  cases p; simp only [toU128, rotLo, join, lo64, MASK64]; bv_decide (config := { timeout := 600 })

theorem high15 (p : Pair) : rotateLeftHigh p 15 = rotHi (toU128 p) 15 := by
  cases p; simp only [rotateLeftHigh, toU128, rotHi, join, hi64, ge_iff_le, Nat.reduceLeDiff, ↓reduceIte, Nat.reduceSub]; bv_decide (config := { timeout := 600 })
theorem low15 (p : Pair) : rotateLeftLow p 15 = rotLo (toU128 p) 15 := by
  cases p; simp only [rotateLeftLow, toU128, rotLo, join, lo64, MASK64, ge_iff_le, Nat.reduceLeDiff, ↓reduceIte, Nat.reduceSub]; bv_decide (config := { timeout := 600 })
theorem high30 (p : Pair) : rotateLeftHigh p 30 = rotHi (toU128 p) 30 := by
  cases p; simp only [rotateLeftHigh, toU128, rotHi, join, hi64, ge_iff_le, Nat.reduceLeDiff, ↓reduceIte, Nat.reduceSub]; bv_decide (config := { timeout := 600 })
theorem low30 (p : Pair) : rotateLeftLow p 30 = rotLo (toU128 p) 30 := by
  cases p; simp only [rotateLeftLow, toU128, rotLo, join, lo64, MASK64, ge_iff_le, Nat.reduceLeDiff, ↓reduceIte, Nat.reduceSub]; bv_decide (config := { timeout := 600 })
theorem high45 (p : Pair) : rotateLeftHigh p 45 = rotHi (toU128 p) 45 := by
  cases p; simp only [rotateLeftHigh, toU128, rotHi, join, hi64, ge_iff_le, Nat.reduceLeDiff, ↓reduceIte, Nat.reduceSub]; bv_decide (config := { timeout := 600 })
theorem low45 (p : Pair) : rotateLeftLow p 45 = rotLo (toU128 p) 45 := by
  cases p; simp only [rotateLeftLow, toU128, rotLo, join, lo64, MASK64, ge_iff_le, Nat.reduceLeDiff, ↓reduceIte, Nat.reduceSub]; bv_decide (config := { timeout := 600 })
theorem high60 (p : Pair) : rotateLeftHigh p 60 = rotHi (toU128 p) 60 := by
  cases p; simp only [rotateLeftHigh, toU128, rotHi, join, hi64, ge_iff_le, Nat.reduceLeDiff, ↓reduceIte, Nat.reduceSub]; bv_decide (config := { timeout := 600 })
theorem low60 (p : Pair) : rotateLeftLow p 60 = rotLo (toU128 p) 60 := by
  cases p; simp only [rotateLeftLow, toU128, rotLo, join, lo64, MASK64, ge_iff_le, Nat.reduceLeDiff, ↓reduceIte, Nat.reduceSub]; bv_decide (config := { timeout := 600 })
theorem low77 (p : Pair) : rotateLeftLow p 77 = rotHi (toU128 p) 77 := by
  cases p; simp only [rotateLeftLow, toU128, rotHi, join, hi64, ge_iff_le, Nat.reduceLeDiff, ↓reduceIte, Nat.reduceSub]; bv_decide (config := { timeout := 600 })
theorem high77 (p : Pair) : rotateLeftHigh p 77 = rotLo (toU128 p) 77 := by
  cases p; simp only [rotateLeftHigh, toU128, rotLo, join, lo64, MASK64, ge_iff_le, Nat.reduceLeDiff, ↓reduceIte, Nat.reduceSub]; bv_decide (config := { timeout := 600 })
theorem low94 (p : Pair) : rotateLeftLow p 94 = rotHi (toU128 p) 94 := by
  cases p; simp only [rotateLeftLow, toU128, rotHi, join, hi64, ge_iff_le, Nat.reduceLeDiff, ↓reduceIte, Nat.reduceSub]; bv_decide (config := { timeout := 600 })
theorem high94 (p : Pair) : rotateLeftHigh p 94 = rotLo (toU128 p) 94 := by
  cases p; simp only [rotateLeftHigh, toU128, rotLo, join, lo64, MASK64, ge_iff_le, Nat.reduceLeDiff, ↓reduceIte, Nat.reduceSub]; bv_decide (config := { timeout := 600 })
theorem low111 (p : Pair) : rotateLeftLow p 111 = rotHi (toU128 p) 111 := by
  cases p; simp only [rotateLeftLow, toU128, rotHi, join, hi64, ge_iff_le, Nat.reduceLeDiff, ↓reduceIte, Nat.reduceSub]; bv_decide (config := { timeout := 600 })
theorem high111 (p : Pair) : rotateLeftHigh p 111 = rotLo (toU128 p) 111 := by
  cases p; simp only [rotateLeftHigh, toU128, rotLo, join, lo64, MASK64, ge_iff_le, Nat.reduceLeDiff, ↓reduceIte, Nat.reduceSub]; bv_decide (config := { timeout := 600 })

/-! ### subkey arrays: positions in `[u64; RK]` ↔ kw / k / ke of the RFC -/

/-- reading of a 26-entry subkey array in RFC names -/
def toSpec26 (k : Nat → BitVec 64) : Subkeys where
  kw1 := k 0
  kw2 := k 1
  k := [k 2, k 3, k 4, k 5, k 6, k 7, k 10, k 11, k 12, k 13, k 14, k 15, k 18, k 19, k 20, k 21, k 22, k 23]
  ke := [k 8, k 9, k 16, k 17]
  kw3 := k 24
  kw4 := k 25

/-- reading of a 34-entry subkey array in RFC names -/
def toSpec34 (k : Nat → BitVec 64) : Subkeys where
  kw1 := k 0
  kw2 := k 1
  k := [k 2, k 3, k 4, k 5, k 6, k 7, k 10, k 11, k 12, k 13, k 14, k 15, k 18, k 19, k 20, k 21, k 22, k 23,
        k 26, k 27, k 28, k 29, k 30, k 31]
  ke := [k 8, k 9, k 16, k 17, k 24, k 25]
  kw3 := k 32
  kw4 := k 33

theorem genSubkeys26_spec (kl ka : Pair) :
    toSpec26 (key (genSubkeys26 kl ka)) = subkeys128 (toU128 kl) (toU128 ka) := by
  simp only [toSpec26, subkeys128, key, genSubkeys26, ← fst_rot0, ← snd_rot0, ← high15, ← low15,
    ← high30, ← low30, ← high45, ← low45, ← high60, ← low60, ← high77, ← low77, ← high94, ← low94,
    ← high111, ← low111]
  rfl

theorem getSubkeys34_spec (kl kr ka kb : Pair) :
    toSpec34 (key (getSubkeys34 kl kr ka kb)) = subkeys256 (toU128 kl) (toU128 kr) (toU128 ka) (toU128 kb) := by
  simp only [toSpec34, subkeys256, key, getSubkeys34, ← fst_rot0, ← snd_rot0, ← high15, ← low15,
    ← high30, ← low30, ← high45, ← low45, ← high60, ← low60, ← high77, ← low77, ← high94, ← low94,
    ← high111, ← low111]
  rfl

/-! ### the block functions -/

theorem encIdx26 : encIdx 26 = [2, 4, 6, 8, 10, 12, 14, 16, 18, 20, 22] := by decide
theorem decIdx26 : decIdx 26 = [23, 21, 19, 17, 15, 13, 11, 9, 7, 5, 3] := by decide
theorem encIdx34 : encIdx 34 = [2, 4, 6, 8, 10, 12, 14, 16, 18, 20, 22, 24, 26, 28, 30] := by decide
theorem decIdx34 : decIdx 34 = [31, 29, 27, 25, 23, 21, 19, 17, 15, 13, 11, 9, 7, 5, 3] := by decide

theorem encryptWith26_spec (k : Nat → BitVec 64) (b : BitVec 128) :
    encryptWith k 26 b = Spec.Camellia.encryptWith (toSpec26 k) b := by
  simp only [encryptWith, encIdx26, List.foldl_cons, List.foldl_nil, encStep, Nat.reduceMod,
    Nat.reduceAdd, Nat.reduceSub, Nat.reduceEqDiff, ↓reduceIte,
    Spec.Camellia.encryptWith, toSpec26, Spec.Camellia.body, Spec.Camellia.rounds, List.take, List.drop,
    f_eq_F, fl_eq_FL, flinv_eq_FLINV, hi64_eq, lo64_eq, join_eq_append]

theorem decryptWith26_spec (k : Nat → BitVec 64) (b : BitVec 128) :
    decryptWith k 26 b = Spec.Camellia.decryptWith (toSpec26 k) b := by
  simp only [decryptWith, decIdx26, List.foldl_cons, List.foldl_nil, decStep, Nat.reduceMod,
    Nat.reduceAdd, Nat.reduceSub, Nat.reduceEqDiff, ↓reduceIte,
    Spec.Camellia.decryptWith, Spec.Camellia.swapKeys, List.reverse_cons, List.reverse_nil, List.nil_append,
    List.cons_append,
    Spec.Camellia.encryptWith, toSpec26, Spec.Camellia.body, Spec.Camellia.rounds, List.take, List.drop,
    f_eq_F, fl_eq_FL, flinv_eq_FLINV, hi64_eq, lo64_eq, join_eq_append]

theorem encryptWith34_spec (k : Nat → BitVec 64) (b : BitVec 128) :
    encryptWith k 34 b = Spec.Camellia.encryptWith (toSpec34 k) b := by
  simp only [encryptWith, encIdx34, List.foldl_cons, List.foldl_nil, encStep, Nat.reduceMod,
    Nat.reduceAdd, Nat.reduceSub, Nat.reduceEqDiff, ↓reduceIte,
    Spec.Camellia.encryptWith, toSpec34, Spec.Camellia.body, Spec.Camellia.rounds, List.take, List.drop,
    f_eq_F, fl_eq_FL, flinv_eq_FLINV, hi64_eq, lo64_eq, join_eq_append]

theorem decryptWith34_spec (k : Nat → BitVec 64) (b : BitVec 128) :
    decryptWith k 34 b = Spec.Camellia.decryptWith (toSpec34 k) b := by
  simp only [decryptWith, decIdx34, List.foldl_cons, List.foldl_nil, decStep, Nat.reduceMod,
    Nat.reduceAdd, Nat.reduceSub, Nat.reduceEqDiff, ↓reduceIte,
    Spec.Camellia.decryptWith, Spec.Camellia.swapKeys, List.reverse_cons, List.reverse_nil, List.nil_append,
    List.cons_append,
    Spec.Camellia.encryptWith, toSpec34, Spec.Camellia.body, Spec.Camellia.rounds, List.take, List.drop,
    f_eq_F, fl_eq_FL, flinv_eq_FLINV, hi64_eq, lo64_eq, join_eq_append]

/-! ### key set-up of the three types -/

theorem join_zero : join 0#64 0#64 = 0#128 := by simp only [join]; bv_decide (config := { timeout := 600 })

theorem new128_spec (K : BitVec 128) : toSpec26 (key (new128 K)) = Spec.Camellia.keys128 K := by
  simp only [new128, Spec.Camellia.keys128, genSubkeys26_spec, setKa_spec]
  simp only [toU128, ← hi64_eq, ← lo64_eq, join_hi_lo, join_zero]

theorem kl192 (K : BitVec 192) :
    join (K.extractLsb' 128 64) (K.extractLsb' 64 64) = (K >>> 64).setWidth 128 := by
  simp only [join]; bv_decide (config := { timeout := 600 })
theorem kr192 (K : BitVec 192) :
    join (K.extractLsb' 0 64) (~~~K.extractLsb' 0 64) =
      (((K &&& 0xffffffffffffffff#192).setWidth 64).setWidth 128 <<< 64) |||
        (~~~(K &&& 0xffffffffffffffff#192).setWidth 64).setWidth 128 := by
  simp only [join]; bv_decide (config := { timeout := 600 })

theorem new192_spec (K : BitVec 192) : toSpec34 (key (new192 K)) = Spec.Camellia.keys192 K := by
  simp only [new192, Spec.Camellia.keys192, getSubkeys34_spec, setKa_spec, setKb_spec]
  simp only [toU128, kl192, kr192]

theorem kl256 (K : BitVec 256) :
    join (K.extractLsb' 192 64) (K.extractLsb' 128 64) = (K >>> 128).setWidth 128 := by
  simp only [join]; bv_decide (config := { timeout := 600 })
theorem kr256 (K : BitVec 256) :
    join (K.extractLsb' 64 64) (K.extractLsb' 0 64) =
      (K &&& 0xffffffffffffffffffffffffffffffff#256).setWidth 128 := by
  simp only [join]; bv_decide (config := { timeout := 600 })

theorem new256_spec (K : BitVec 256) : toSpec34 (key (new256 K)) = Spec.Camellia.keys256 K := by
  simp only [new256, Spec.Camellia.keys256, getSubkeys34_spec, setKa_spec, setKb_spec]
  simp only [toU128, kl256, kr256]

/-! ### Impl = Spec -/

theorem encrypt128_eq_spec (K b : BitVec 128) : encrypt128 K b = Spec.Camellia.encrypt128 K b := by
  rw [encrypt128, encryptBlock, encryptWith26_spec, new128_spec]; rfl
theorem decrypt128_eq_spec (K b : BitVec 128) : decrypt128 K b = Spec.Camellia.decrypt128 K b := by
  rw [decrypt128, decryptBlock, decryptWith26_spec, new128_spec]; rfl
theorem encrypt192_eq_spec (K : BitVec 192) (b : BitVec 128) : encrypt192 K b = Spec.Camellia.encrypt192 K b := by
  rw [encrypt192, encryptBlock, encryptWith34_spec, new192_spec]; rfl
theorem decrypt192_eq_spec (K : BitVec 192) (b : BitVec 128) : decrypt192 K b = Spec.Camellia.decrypt192 K b := by
  rw [decrypt192, decryptBlock, decryptWith34_spec, new192_spec]; rfl
theorem encrypt256_eq_spec (K : BitVec 256) (b : BitVec 128) : encrypt256 K b = Spec.Camellia.encrypt256 K b := by
  rw [encrypt256, encryptBlock, encryptWith34_spec, new256_spec]; rfl
theorem decrypt256_eq_spec (K : BitVec 256) (b : BitVec 128) : decrypt256 K b = Spec.Camellia.decrypt256 K b := by
  rw [decrypt256, decryptBlock, decryptWith34_spec, new256_spec]; rfl

end BC.Camellia
