import BlockCiphers.Proofs.KuznyechikSboxA
import BlockCiphers.Proofs.KuznyechikSboxB
/-
Kuznyechik S-box tables: `P_INV` (computed by the model of the const block of consts.rs) inverts `P` (copied from
consts.rs) in both orders, `P` is the π of GOST R 34.12-2015 and `P_INV` is π⁻¹ — all 256 entries, by the kernel.
-/
namespace BC.Kuznyechik
open BC.Spec.Kuznyechik

/-- `P_INV[P[x]] = x` for every byte -/
theorem P_INV_P (x : BitVec 8) : lut P_INV (lut P x) = x := P_INV_P_fin x.toFin
/-- `P[P_INV[x]] = x` for every byte -/
theorem P_P_INV (x : BitVec 8) : lut P (lut P_INV x) = x := P_P_INV_fin x.toFin
/-- the table of consts.rs is π of the standard -/
theorem P_eq_pi (x : BitVec 8) : lut P x = pi x := P_eq_pi_fin x.toFin
/-- the computed inverse table is π⁻¹ of the standard -/
theorem P_INV_eq_piInv (x : BitVec 8) : lut P_INV x = piInv x := P_INV_eq_piInv_fin x.toFin

theorem piInv_pi (x : BitVec 8) : piInv (pi x) = x := by rw [← P_eq_pi, ← P_INV_eq_piInv, P_INV_P]
theorem pi_piInv (x : BitVec 8) : pi (piInv x) = x := by rw [← P_INV_eq_piInv, ← P_eq_pi, P_P_INV]

end BC.Kuznyechik
