import BlockCiphers.Proofs.AesFs64Bytes
import BlockCiphers.Proofs.AesFs64Hazmat
import BlockCiphers.Proofs.AesFs64RoundTrip
import BlockCiphers.Proofs.AesFs64Lanes
import BlockCiphers.Proofs.AesFs32Bytes
import BlockCiphers.Proofs.AesFs32Hazmat
import BlockCiphers.Proofs.AesFs32RoundTrip
import BlockCiphers.Proofs.AesFs32Lanes
/-!
Headline theorems for the AES software backends (`soft.rs` + `soft/fixslice64.rs`, `soft/fixslice32.rs`,
each normal and `cfg(aes_compact)`), collected from the `AesFs64*` / `AesFs32*` modules.

* C01  `soft_roundtrip_N`: `decrypt_block ∘ encrypt_block = id` and back, all keys (indeed all round-key arrays),
       four backends; batch versions are `AesFs64.aesN_decrypt[_compact]_aesN_encrypt[_compact]` etc.
* C02  `soft_conforms_N`: the four backends compute `BC.Spec.Aes.encrypt/decrypt` (FIPS-197 with computed S-box) for
       every key of 16/24/32 bytes and every block; batch = `Batch.map` of it (C04).
* C03  `soft_backends_agree_N`: the four software backends agree with each other.
* C04  `AesFs64.aesN_encrypt_lane_indep`, `…_lane0`, `…_uniform` (and `AesFs32.…`).
* C17  `AesFs64.hazmat_cipher_round` … (and `AesFs32.…`).
-/
namespace BC.AesSoft
open BC BC.Spec.Aes

/-- C02: every software backend computes FIPS-197 AES-128 on single blocks -/
theorem soft_conforms_128 (kb : Bytes) (h : kb.length = 16) (x : BitVec 128) :
    (AesFs64.single (AesFs64.aes128_encrypt (AesFs64.rkFn (AesFs64.aes128_key_schedule (packBE 16 kb)))) x = Spec.Aes.encrypt kb x ∧ AesFs64.single (AesFs64.aes128_decrypt (AesFs64.rkFn (AesFs64.aes128_key_schedule (packBE 16 kb)))) x = Spec.Aes.decrypt kb x) ∧
    (AesFs64.single (AesFs64.aes128_encrypt_compact (AesFs64.rkFn (AesFs64.aes128_key_schedule_compact (packBE 16 kb)))) x = Spec.Aes.encrypt kb x ∧ AesFs64.single (AesFs64.aes128_decrypt_compact (AesFs64.rkFn (AesFs64.aes128_key_schedule_compact (packBE 16 kb)))) x = Spec.Aes.decrypt kb x) ∧
    (AesFs32.single (AesFs32.aes128_encrypt (AesFs32.rkFn (AesFs32.aes128_key_schedule (packBE 16 kb)))) x = Spec.Aes.encrypt kb x ∧ AesFs32.single (AesFs32.aes128_decrypt (AesFs32.rkFn (AesFs32.aes128_key_schedule (packBE 16 kb)))) x = Spec.Aes.decrypt kb x) ∧
    (AesFs32.single (AesFs32.aes128_encrypt_compact (AesFs32.rkFn (AesFs32.aes128_key_schedule_compact (packBE 16 kb)))) x = Spec.Aes.encrypt kb x ∧ AesFs32.single (AesFs32.aes128_decrypt_compact (AesFs32.rkFn (AesFs32.aes128_key_schedule_compact (packBE 16 kb)))) x = Spec.Aes.decrypt kb x) := by
  exact ⟨⟨(AesFs64.aes128_eq_spec kb h).1 x, (AesFs64.aes128_eq_spec kb h).2.1 x⟩,
    ⟨(AesFs64.aes128_compact_eq_spec kb h).1 x, (AesFs64.aes128_compact_eq_spec kb h).2.1 x⟩,
    ⟨(AesFs32.aes128_eq_spec kb h).1 x, (AesFs32.aes128_eq_spec kb h).2.1 x⟩,
    ⟨(AesFs32.aes128_compact_eq_spec kb h).1 x, (AesFs32.aes128_compact_eq_spec kb h).2.1 x⟩⟩

/-- C03: the software backends agree (fixslice64 normal is the reference) -/
theorem soft_backends_agree_128 (kb : Bytes) (h : kb.length = 16) (x : BitVec 128) :
    AesFs64.single (AesFs64.aes128_encrypt_compact (AesFs64.rkFn (AesFs64.aes128_key_schedule_compact (packBE 16 kb)))) x = AesFs64.single (AesFs64.aes128_encrypt (AesFs64.rkFn (AesFs64.aes128_key_schedule (packBE 16 kb)))) x ∧ AesFs64.single (AesFs64.aes128_decrypt_compact (AesFs64.rkFn (AesFs64.aes128_key_schedule_compact (packBE 16 kb)))) x = AesFs64.single (AesFs64.aes128_decrypt (AesFs64.rkFn (AesFs64.aes128_key_schedule (packBE 16 kb)))) x ∧
    AesFs32.single (AesFs32.aes128_encrypt (AesFs32.rkFn (AesFs32.aes128_key_schedule (packBE 16 kb)))) x = AesFs64.single (AesFs64.aes128_encrypt (AesFs64.rkFn (AesFs64.aes128_key_schedule (packBE 16 kb)))) x ∧ AesFs32.single (AesFs32.aes128_decrypt (AesFs32.rkFn (AesFs32.aes128_key_schedule (packBE 16 kb)))) x = AesFs64.single (AesFs64.aes128_decrypt (AesFs64.rkFn (AesFs64.aes128_key_schedule (packBE 16 kb)))) x ∧
    AesFs32.single (AesFs32.aes128_encrypt_compact (AesFs32.rkFn (AesFs32.aes128_key_schedule_compact (packBE 16 kb)))) x = AesFs64.single (AesFs64.aes128_encrypt (AesFs64.rkFn (AesFs64.aes128_key_schedule (packBE 16 kb)))) x ∧ AesFs32.single (AesFs32.aes128_decrypt_compact (AesFs32.rkFn (AesFs32.aes128_key_schedule_compact (packBE 16 kb)))) x = AesFs64.single (AesFs64.aes128_decrypt (AesFs64.rkFn (AesFs64.aes128_key_schedule (packBE 16 kb)))) x := by
  obtain ⟨⟨a1, a2⟩, ⟨b1, b2⟩, ⟨c1, c2⟩, ⟨d1, d2⟩⟩ := soft_conforms_128 kb h x
  exact ⟨by rw [b1, a1], by rw [b2, a2], by rw [c1, a1], by rw [c2, a2], by rw [d1, a1], by rw [d2, a2]⟩

/-- C01: single-block round trip for arbitrary round-key arrays (hence all keys), all four backends -/
theorem soft_roundtrip_128 (rk : Nat → AesFs64.St) (rk' : Nat → AesFs32.St) (x : BitVec 128) :
    (AesFs64.single (AesFs64.aes128_decrypt rk) (AesFs64.single (AesFs64.aes128_encrypt rk) x) = x ∧ AesFs64.single (AesFs64.aes128_encrypt rk) (AesFs64.single (AesFs64.aes128_decrypt rk) x) = x) ∧
    (AesFs64.single (AesFs64.aes128_decrypt_compact rk) (AesFs64.single (AesFs64.aes128_encrypt_compact rk) x) = x ∧ AesFs64.single (AesFs64.aes128_encrypt_compact rk) (AesFs64.single (AesFs64.aes128_decrypt_compact rk) x) = x) ∧
    (AesFs32.single (AesFs32.aes128_decrypt rk') (AesFs32.single (AesFs32.aes128_encrypt rk') x) = x ∧ AesFs32.single (AesFs32.aes128_encrypt rk') (AesFs32.single (AesFs32.aes128_decrypt rk') x) = x) ∧
    (AesFs32.single (AesFs32.aes128_decrypt_compact rk') (AesFs32.single (AesFs32.aes128_encrypt_compact rk') x) = x ∧ AesFs32.single (AesFs32.aes128_encrypt_compact rk') (AesFs32.single (AesFs32.aes128_decrypt_compact rk') x) = x) :=
  ⟨⟨AesFs64.single_aes128_decrypt_aes128_encrypt rk x, AesFs64.single_aes128_encrypt_aes128_decrypt rk x⟩,
   ⟨AesFs64.single_aes128_decrypt_compact_aes128_encrypt_compact rk x, AesFs64.single_aes128_encrypt_compact_aes128_decrypt_compact rk x⟩,
   ⟨AesFs32.single_aes128_decrypt_aes128_encrypt rk' x, AesFs32.single_aes128_encrypt_aes128_decrypt rk' x⟩,
   ⟨AesFs32.single_aes128_decrypt_compact_aes128_encrypt_compact rk' x, AesFs32.single_aes128_encrypt_compact_aes128_decrypt_compact rk' x⟩⟩

/-- C02: every software backend computes FIPS-197 AES-192 on single blocks -/
theorem soft_conforms_192 (kb : Bytes) (h : kb.length = 24) (x : BitVec 128) :
    (AesFs64.single (AesFs64.aes192_encrypt (AesFs64.rkFn (AesFs64.aes192_key_schedule (packBE 24 kb)))) x = Spec.Aes.encrypt kb x ∧ AesFs64.single (AesFs64.aes192_decrypt (AesFs64.rkFn (AesFs64.aes192_key_schedule (packBE 24 kb)))) x = Spec.Aes.decrypt kb x) ∧
    (AesFs64.single (AesFs64.aes192_encrypt_compact (AesFs64.rkFn (AesFs64.aes192_key_schedule_compact (packBE 24 kb)))) x = Spec.Aes.encrypt kb x ∧ AesFs64.single (AesFs64.aes192_decrypt_compact (AesFs64.rkFn (AesFs64.aes192_key_schedule_compact (packBE 24 kb)))) x = Spec.Aes.decrypt kb x) ∧
    (AesFs32.single (AesFs32.aes192_encrypt (AesFs32.rkFn (AesFs32.aes192_key_schedule (packBE 24 kb)))) x = Spec.Aes.encrypt kb x ∧ AesFs32.single (AesFs32.aes192_decrypt (AesFs32.rkFn (AesFs32.aes192_key_schedule (packBE 24 kb)))) x = Spec.Aes.decrypt kb x) ∧
    (AesFs32.single (AesFs32.aes192_encrypt_compact (AesFs32.rkFn (AesFs32.aes192_key_schedule_compact (packBE 24 kb)))) x = Spec.Aes.encrypt kb x ∧ AesFs32.single (AesFs32.aes192_decrypt_compact (AesFs32.rkFn (AesFs32.aes192_key_schedule_compact (packBE 24 kb)))) x = Spec.Aes.decrypt kb x) := by
  exact ⟨⟨(AesFs64.aes192_eq_spec kb h).1 x, (AesFs64.aes192_eq_spec kb h).2.1 x⟩,
    ⟨(AesFs64.aes192_compact_eq_spec kb h).1 x, (AesFs64.aes192_compact_eq_spec kb h).2.1 x⟩,
    ⟨(AesFs32.aes192_eq_spec kb h).1 x, (AesFs32.aes192_eq_spec kb h).2.1 x⟩,
    ⟨(AesFs32.aes192_compact_eq_spec kb h).1 x, (AesFs32.aes192_compact_eq_spec kb h).2.1 x⟩⟩

/-- C03: the software backends agree (fixslice64 normal is the reference) -/
theorem soft_backends_agree_192 (kb : Bytes) (h : kb.length = 24) (x : BitVec 128) :
    AesFs64.single (AesFs64.aes192_encrypt_compact (AesFs64.rkFn (AesFs64.aes192_key_schedule_compact (packBE 24 kb)))) x = AesFs64.single (AesFs64.aes192_encrypt (AesFs64.rkFn (AesFs64.aes192_key_schedule (packBE 24 kb)))) x ∧ AesFs64.single (AesFs64.aes192_decrypt_compact (AesFs64.rkFn (AesFs64.aes192_key_schedule_compact (packBE 24 kb)))) x = AesFs64.single (AesFs64.aes192_decrypt (AesFs64.rkFn (AesFs64.aes192_key_schedule (packBE 24 kb)))) x ∧
    AesFs32.single (AesFs32.aes192_encrypt (AesFs32.rkFn (AesFs32.aes192_key_schedule (packBE 24 kb)))) x = AesFs64.single (AesFs64.aes192_encrypt (AesFs64.rkFn (AesFs64.aes192_key_schedule (packBE 24 kb)))) x ∧ AesFs32.single (AesFs32.aes192_decrypt (AesFs32.rkFn (AesFs32.aes192_key_schedule (packBE 24 kb)))) x = AesFs64.single (AesFs64.aes192_decrypt (AesFs64.rkFn (AesFs64.aes192_key_schedule (packBE 24 kb)))) x ∧
    AesFs32.single (AesFs32.aes192_encrypt_compact (AesFs32.rkFn (AesFs32.aes192_key_schedule_compact (packBE 24 kb)))) x = AesFs64.single (AesFs64.aes192_encrypt (AesFs64.rkFn (AesFs64.aes192_key_schedule (packBE 24 kb)))) x ∧ AesFs32.single (AesFs32.aes192_decrypt_compact (AesFs32.rkFn (AesFs32.aes192_key_schedule_compact (packBE 24 kb)))) x = AesFs64.single (AesFs64.aes192_decrypt (AesFs64.rkFn (AesFs64.aes192_key_schedule (packBE 24 kb)))) x := by
  obtain ⟨⟨a1, a2⟩, ⟨b1, b2⟩, ⟨c1, c2⟩, ⟨d1, d2⟩⟩ := soft_conforms_192 kb h x
  exact ⟨by rw [b1, a1], by rw [b2, a2], by rw [c1, a1], by rw [c2, a2], by rw [d1, a1], by rw [d2, a2]⟩

/-- C01: single-block round trip for arbitrary round-key arrays (hence all keys), all four backends -/
theorem soft_roundtrip_192 (rk : Nat → AesFs64.St) (rk' : Nat → AesFs32.St) (x : BitVec 128) :
    (AesFs64.single (AesFs64.aes192_decrypt rk) (AesFs64.single (AesFs64.aes192_encrypt rk) x) = x ∧ AesFs64.single (AesFs64.aes192_encrypt rk) (AesFs64.single (AesFs64.aes192_decrypt rk) x) = x) ∧
    (AesFs64.single (AesFs64.aes192_decrypt_compact rk) (AesFs64.single (AesFs64.aes192_encrypt_compact rk) x) = x ∧ AesFs64.single (AesFs64.aes192_encrypt_compact rk) (AesFs64.single (AesFs64.aes192_decrypt_compact rk) x) = x) ∧
    (AesFs32.single (AesFs32.aes192_decrypt rk') (AesFs32.single (AesFs32.aes192_encrypt rk') x) = x ∧ AesFs32.single (AesFs32.aes192_encrypt rk') (AesFs32.single (AesFs32.aes192_decrypt rk') x) = x) ∧
    (AesFs32.single (AesFs32.aes192_decrypt_compact rk') (AesFs32.single (AesFs32.aes192_encrypt_compact rk') x) = x ∧ AesFs32.single (AesFs32.aes192_encrypt_compact rk') (AesFs32.single (AesFs32.aes192_decrypt_compact rk') x) = x) :=
  ⟨⟨AesFs64.single_aes192_decrypt_aes192_encrypt rk x, AesFs64.single_aes192_encrypt_aes192_decrypt rk x⟩,
   ⟨AesFs64.single_aes192_decrypt_compact_aes192_encrypt_compact rk x, AesFs64.single_aes192_encrypt_compact_aes192_decrypt_compact rk x⟩,
   ⟨AesFs32.single_aes192_decrypt_aes192_encrypt rk' x, AesFs32.single_aes192_encrypt_aes192_decrypt rk' x⟩,
   ⟨AesFs32.single_aes192_decrypt_compact_aes192_encrypt_compact rk' x, AesFs32.single_aes192_encrypt_compact_aes192_decrypt_compact rk' x⟩⟩

/-- C02: every software backend computes FIPS-197 AES-256 on single blocks -/
theorem soft_conforms_256 (kb : Bytes) (h : kb.length = 32) (x : BitVec 128) :
    (AesFs64.single (AesFs64.aes256_encrypt (AesFs64.rkFn (AesFs64.aes256_key_schedule (packBE 32 kb)))) x = Spec.Aes.encrypt kb x ∧ AesFs64.single (AesFs64.aes256_decrypt (AesFs64.rkFn (AesFs64.aes256_key_schedule (packBE 32 kb)))) x = Spec.Aes.decrypt kb x) ∧
    (AesFs64.single (AesFs64.aes256_encrypt_compact (AesFs64.rkFn (AesFs64.aes256_key_schedule_compact (packBE 32 kb)))) x = Spec.Aes.encrypt kb x ∧ AesFs64.single (AesFs64.aes256_decrypt_compact (AesFs64.rkFn (AesFs64.aes256_key_schedule_compact (packBE 32 kb)))) x = Spec.Aes.decrypt kb x) ∧
    (AesFs32.single (AesFs32.aes256_encrypt (AesFs32.rkFn (AesFs32.aes256_key_schedule (packBE 32 kb)))) x = Spec.Aes.encrypt kb x ∧ AesFs32.single (AesFs32.aes256_decrypt (AesFs32.rkFn (AesFs32.aes256_key_schedule (packBE 32 kb)))) x = Spec.Aes.decrypt kb x) ∧
    (AesFs32.single (AesFs32.aes256_encrypt_compact (AesFs32.rkFn (AesFs32.aes256_key_schedule_compact (packBE 32 kb)))) x = Spec.Aes.encrypt kb x ∧ AesFs32.single (AesFs32.aes256_decrypt_compact (AesFs32.rkFn (AesFs32.aes256_key_schedule_compact (packBE 32 kb)))) x = Spec.Aes.decrypt kb x) := by
  exact ⟨⟨(AesFs64.aes256_eq_spec kb h).1 x, (AesFs64.aes256_eq_spec kb h).2.1 x⟩,
    ⟨(AesFs64.aes256_compact_eq_spec kb h).1 x, (AesFs64.aes256_compact_eq_spec kb h).2.1 x⟩,
    ⟨(AesFs32.aes256_eq_spec kb h).1 x, (AesFs32.aes256_eq_spec kb h).2.1 x⟩,
    ⟨(AesFs32.aes256_compact_eq_spec kb h).1 x, (AesFs32.aes256_compact_eq_spec kb h).2.1 x⟩⟩

/-- C03: the software backends agree (fixslice64 normal is the reference) -/
theorem soft_backends_agree_256 (kb : Bytes) (h : kb.length = 32) (x : BitVec 128) :
    AesFs64.single (AesFs64.aes256_encrypt_compact (AesFs64.rkFn (AesFs64.aes256_key_schedule_compact (packBE 32 kb)))) x = AesFs64.single (AesFs64.aes256_encrypt (AesFs64.rkFn (AesFs64.aes256_key_schedule (packBE 32 kb)))) x ∧ AesFs64.single (AesFs64.aes256_decrypt_compact (AesFs64.rkFn (AesFs64.aes256_key_schedule_compact (packBE 32 kb)))) x = AesFs64.single (AesFs64.aes256_decrypt (AesFs64.rkFn (AesFs64.aes256_key_schedule (packBE 32 kb)))) x ∧
    AesFs32.single (AesFs32.aes256_encrypt (AesFs32.rkFn (AesFs32.aes256_key_schedule (packBE 32 kb)))) x = AesFs64.single (AesFs64.aes256_encrypt (AesFs64.rkFn (AesFs64.aes256_key_schedule (packBE 32 kb)))) x ∧ AesFs32.single (AesFs32.aes256_decrypt (AesFs32.rkFn (AesFs32.aes256_key_schedule (packBE 32 kb)))) x = AesFs64.single (AesFs64.aes256_decrypt (AesFs64.rkFn (AesFs64.aes256_key_schedule (packBE 32 kb)))) x ∧
    AesFs32.single (AesFs32.aes256_encrypt_compact (AesFs32.rkFn (AesFs32.aes256_key_schedule_compact (packBE 32 kb)))) x = AesFs64.single (AesFs64.aes256_encrypt (AesFs64.rkFn (AesFs64.aes256_key_schedule (packBE 32 kb)))) x ∧ AesFs32.single (AesFs32.aes256_decrypt_compact (AesFs32.rkFn (AesFs32.aes256_key_schedule_compact (packBE 32 kb)))) x = AesFs64.single (AesFs64.aes256_decrypt (AesFs64.rkFn (AesFs64.aes256_key_schedule (packBE 32 kb)))) x := by
  obtain ⟨⟨a1, a2⟩, ⟨b1, b2⟩, ⟨c1, c2⟩, ⟨d1, d2⟩⟩ := soft_conforms_256 kb h x
  exact ⟨by rw [b1, a1], by rw [b2, a2], by rw [c1, a1], by rw [c2, a2], by rw [d1, a1], by rw [d2, a2]⟩

/-- C01: single-block round trip for arbitrary round-key arrays (hence all keys), all four backends -/
theorem soft_roundtrip_256 (rk : Nat → AesFs64.St) (rk' : Nat → AesFs32.St) (x : BitVec 128) :
    (AesFs64.single (AesFs64.aes256_decrypt rk) (AesFs64.single (AesFs64.aes256_encrypt rk) x) = x ∧ AesFs64.single (AesFs64.aes256_encrypt rk) (AesFs64.single (AesFs64.aes256_decrypt rk) x) = x) ∧
    (AesFs64.single (AesFs64.aes256_decrypt_compact rk) (AesFs64.single (AesFs64.aes256_encrypt_compact rk) x) = x ∧ AesFs64.single (AesFs64.aes256_encrypt_compact rk) (AesFs64.single (AesFs64.aes256_decrypt_compact rk) x) = x) ∧
    (AesFs32.single (AesFs32.aes256_decrypt rk') (AesFs32.single (AesFs32.aes256_encrypt rk') x) = x ∧ AesFs32.single (AesFs32.aes256_encrypt rk') (AesFs32.single (AesFs32.aes256_decrypt rk') x) = x) ∧
    (AesFs32.single (AesFs32.aes256_decrypt_compact rk') (AesFs32.single (AesFs32.aes256_encrypt_compact rk') x) = x ∧ AesFs32.single (AesFs32.aes256_encrypt_compact rk') (AesFs32.single (AesFs32.aes256_decrypt_compact rk') x) = x) :=
  ⟨⟨AesFs64.single_aes256_decrypt_aes256_encrypt rk x, AesFs64.single_aes256_encrypt_aes256_decrypt rk x⟩,
   ⟨AesFs64.single_aes256_decrypt_compact_aes256_encrypt_compact rk x, AesFs64.single_aes256_encrypt_compact_aes256_decrypt_compact rk x⟩,
   ⟨AesFs32.single_aes256_decrypt_aes256_encrypt rk' x, AesFs32.single_aes256_encrypt_aes256_decrypt rk' x⟩,
   ⟨AesFs32.single_aes256_decrypt_compact_aes256_encrypt_compact rk' x, AesFs32.single_aes256_encrypt_compact_aes256_decrypt_compact rk' x⟩⟩

end BC.AesSoft
