import BlockCiphers.Gen.Cipher_Blowfish
import BlockCiphers.Proofs.GenCipherBlowfish
import BlockCiphers.Proofs.Blowfish
import BlockCiphers.Proofs.BlowfishSpec
/-!
Code-level theorems for Blowfish: statements mention ONLY the regenerated code (`BC.Gen.Fn.blowfish_*` of
`Gen/Cipher_Blowfish.lean`) and the specification `BC.Blowfish.Spec` (Schneier 1993 / Provos–Mazières 1999).  The key setup
(`expand_key`: 521 chained encryptions rewriting the state) is not regenerated, so the theorems are stated for an ARBITRARY
instance state: the 18 words of `self.p` and the S-boxes `self.s` as one `Array (BitVec 32)` in memory order (every state
a key of any length can produce is an instance).  Composition of
  (1) `BC.Blowfish.decrypt_encrypt`, `encrypt_decrypt`, `decrypt_encrypt_lr`, `encrypt_decrypt_lr`, `encryptBlock_LE`,
      `decryptBlock_LE` (Proofs/Blowfish.lean; Thm C01, C09), `encrypt_eq_spec`, `decrypt_eq_spec`, `bc_encrypt_eq_spec`
      (Proofs/BlowfishSpec.lean; Thm C09, C14),
  (2) the ties of `Proofs/GenCipherBlowfish.lean`.
`mkSt s p0 … p17` only packs the arguments into the record the Spec functions take.
-/
set_option maxRecDepth 100000
namespace BC.Code.Blowfish
open BC BC.Gen.Fn BC.Blowfish BC.GenCipher.Blowfish

/-- `Blowfish<BE>`: `decrypt_block ∘ encrypt_block = id` on the regenerated code, every state, every block -/
theorem be_dec_enc (s : Array (BitVec 32)) (p0 p1 p2 p3 p4 p5 p6 p7 p8 p9 p10 p11 p12 p13 p14 p15 p16 p17 : BitVec 32) (b : BitVec 64) :
    blowfish_be_decrypt_block s p0 p1 p2 p3 p4 p5 p6 p7 p8 p9 p10 p11 p12 p13 p14 p15 p16 p17 (blowfish_be_encrypt_block s p0 p1 p2 p3 p4 p5 p6 p7 p8 p9 p10 p11 p12 p13 p14 p15 p16 p17 b) = b := by
  rw [blowfish_be_encrypt_block_eq, blowfish_be_decrypt_block_eq]
  exact BC.Blowfish.decrypt_encrypt .BE _ b

theorem be_enc_dec (s : Array (BitVec 32)) (p0 p1 p2 p3 p4 p5 p6 p7 p8 p9 p10 p11 p12 p13 p14 p15 p16 p17 : BitVec 32) (b : BitVec 64) :
    blowfish_be_encrypt_block s p0 p1 p2 p3 p4 p5 p6 p7 p8 p9 p10 p11 p12 p13 p14 p15 p16 p17 (blowfish_be_decrypt_block s p0 p1 p2 p3 p4 p5 p6 p7 p8 p9 p10 p11 p12 p13 p14 p15 p16 p17 b) = b := by
  rw [blowfish_be_decrypt_block_eq, blowfish_be_encrypt_block_eq]
  exact BC.Blowfish.encrypt_decrypt .BE _ b

/-- `Blowfish<LE>`: `decrypt_block ∘ encrypt_block = id` on the regenerated code, every state, every block -/
theorem le_dec_enc (s : Array (BitVec 32)) (p0 p1 p2 p3 p4 p5 p6 p7 p8 p9 p10 p11 p12 p13 p14 p15 p16 p17 : BitVec 32) (b : BitVec 64) :
    blowfish_le_decrypt_block s p0 p1 p2 p3 p4 p5 p6 p7 p8 p9 p10 p11 p12 p13 p14 p15 p16 p17 (blowfish_le_encrypt_block s p0 p1 p2 p3 p4 p5 p6 p7 p8 p9 p10 p11 p12 p13 p14 p15 p16 p17 b) = b := by
  rw [blowfish_le_encrypt_block_eq, blowfish_le_decrypt_block_eq]
  exact BC.Blowfish.decrypt_encrypt .LE _ b

theorem le_enc_dec (s : Array (BitVec 32)) (p0 p1 p2 p3 p4 p5 p6 p7 p8 p9 p10 p11 p12 p13 p14 p15 p16 p17 : BitVec 32) (b : BitVec 64) :
    blowfish_le_encrypt_block s p0 p1 p2 p3 p4 p5 p6 p7 p8 p9 p10 p11 p12 p13 p14 p15 p16 p17 (blowfish_le_decrypt_block s p0 p1 p2 p3 p4 p5 p6 p7 p8 p9 p10 p11 p12 p13 p14 p15 p16 p17 b) = b := by
  rw [blowfish_le_decrypt_block_eq, blowfish_le_encrypt_block_eq]
  exact BC.Blowfish.encrypt_decrypt .LE _ b

/-- the inherent `decrypt ∘ encrypt = id` on `[u32; 2]` -/
theorem lr_dec_enc (s : Array (BitVec 32)) (p0 p1 p2 p3 p4 p5 p6 p7 p8 p9 p10 p11 p12 p13 p14 p15 p16 p17 : BitVec 32) (l r : BitVec 32) :
    blowfish_decrypt s p0 p1 p2 p3 p4 p5 p6 p7 p8 p9 p10 p11 p12 p13 p14 p15 p16 p17 (blowfish_encrypt s p0 p1 p2 p3 p4 p5 p6 p7 p8 p9 p10 p11 p12 p13 p14 p15 p16 p17 l r).1 (blowfish_encrypt s p0 p1 p2 p3 p4 p5 p6 p7 p8 p9 p10 p11 p12 p13 p14 p15 p16 p17 l r).2 = (l, r) := by
  rw [blowfish_encrypt_eq, blowfish_decrypt_eq]
  show ((decrypt _ (encrypt _ _)).l, (decrypt _ (encrypt _ _)).r) = _
  rw [BC.Blowfish.decrypt_encrypt_lr]

theorem lr_enc_dec (s : Array (BitVec 32)) (p0 p1 p2 p3 p4 p5 p6 p7 p8 p9 p10 p11 p12 p13 p14 p15 p16 p17 : BitVec 32) (l r : BitVec 32) :
    blowfish_encrypt s p0 p1 p2 p3 p4 p5 p6 p7 p8 p9 p10 p11 p12 p13 p14 p15 p16 p17 (blowfish_decrypt s p0 p1 p2 p3 p4 p5 p6 p7 p8 p9 p10 p11 p12 p13 p14 p15 p16 p17 l r).1 (blowfish_decrypt s p0 p1 p2 p3 p4 p5 p6 p7 p8 p9 p10 p11 p12 p13 p14 p15 p16 p17 l r).2 = (l, r) := by
  rw [blowfish_decrypt_eq, blowfish_encrypt_eq]
  show ((encrypt _ (decrypt _ _)).l, (encrypt _ (decrypt _ _)).r) = _
  rw [BC.Blowfish.encrypt_decrypt_lr]

/-- the regenerated `encrypt` is Blowfish encryption as published (16 rounds, final whitening), for every state -/
theorem encrypt_eq_spec (s : Array (BitVec 32)) (p0 p1 p2 p3 p4 p5 p6 p7 p8 p9 p10 p11 p12 p13 p14 p15 p16 p17 : BitVec 32) (l r : BitVec 32) :
    blowfish_encrypt s p0 p1 p2 p3 p4 p5 p6 p7 p8 p9 p10 p11 p12 p13 p14 p15 p16 p17 l r =
      ((Spec.encrypt (mkSt s p0 p1 p2 p3 p4 p5 p6 p7 p8 p9 p10 p11 p12 p13 p14 p15 p16 p17) { l := l, r := r }).l, (Spec.encrypt (mkSt s p0 p1 p2 p3 p4 p5 p6 p7 p8 p9 p10 p11 p12 p13 p14 p15 p16 p17) { l := l, r := r }).r) := by
  rw [blowfish_encrypt_eq, BC.Blowfish.encrypt_eq_spec]

theorem decrypt_eq_spec (s : Array (BitVec 32)) (p0 p1 p2 p3 p4 p5 p6 p7 p8 p9 p10 p11 p12 p13 p14 p15 p16 p17 : BitVec 32) (l r : BitVec 32) :
    blowfish_decrypt s p0 p1 p2 p3 p4 p5 p6 p7 p8 p9 p10 p11 p12 p13 p14 p15 p16 p17 l r =
      ((Spec.decrypt (mkSt s p0 p1 p2 p3 p4 p5 p6 p7 p8 p9 p10 p11 p12 p13 p14 p15 p16 p17) { l := l, r := r }).l, (Spec.decrypt (mkSt s p0 p1 p2 p3 p4 p5 p6 p7 p8 p9 p10 p11 p12 p13 p14 p15 p16 p17) { l := l, r := r }).r) := by
  rw [blowfish_decrypt_eq, BC.Blowfish.decrypt_eq_spec]

/-- C14: the regenerated `bc_encrypt` (bcrypt feature) is Blowfish encryption as published -/
theorem bc_encrypt_eq_spec (s : Array (BitVec 32)) (p0 p1 p2 p3 p4 p5 p6 p7 p8 p9 p10 p11 p12 p13 p14 p15 p16 p17 : BitVec 32) (l r : BitVec 32) :
    blowfish_bc_encrypt s p0 p1 p2 p3 p4 p5 p6 p7 p8 p9 p10 p11 p12 p13 p14 p15 p16 p17 l r =
      ((Spec.encrypt (mkSt s p0 p1 p2 p3 p4 p5 p6 p7 p8 p9 p10 p11 p12 p13 p14 p15 p16 p17) { l := l, r := r }).l, (Spec.encrypt (mkSt s p0 p1 p2 p3 p4 p5 p6 p7 p8 p9 p10 p11 p12 p13 p14 p15 p16 p17) { l := l, r := r }).r) := by
  rw [blowfish_bc_encrypt_eq, BC.Blowfish.bc_encrypt_eq_spec]

/-- the regenerated round function is Schneier's `F` -/
theorem round_function_eq_F (s : Array (BitVec 32)) (p0 p1 p2 p3 p4 p5 p6 p7 p8 p9 p10 p11 p12 p13 p14 p15 p16 p17 : BitVec 32) (x : BitVec 32) :
    blowfish_round_function s p0 p1 p2 p3 p4 p5 p6 p7 p8 p9 p10 p11 p12 p13 p14 p15 p16 p17 x = Spec.F (mkSt s p0 p1 p2 p3 p4 p5 p6 p7 p8 p9 p10 p11 p12 p13 p14 p15 p16 p17) x := by
  rw [blowfish_round_function_eq, BC.Blowfish.round_function_eq_F]

/-- `Blowfish<LE>` is `Blowfish<BE>` with the bytes of each half of the block reversed, on the regenerated code -/
theorem le_encrypt_block_eq_be (s : Array (BitVec 32)) (p0 p1 p2 p3 p4 p5 p6 p7 p8 p9 p10 p11 p12 p13 p14 p15 p16 p17 : BitVec 32) (b : BitVec 64) :
    blowfish_le_encrypt_block s p0 p1 p2 p3 p4 p5 p6 p7 p8 p9 p10 p11 p12 p13 p14 p15 p16 p17 b = bswapHalves (blowfish_be_encrypt_block s p0 p1 p2 p3 p4 p5 p6 p7 p8 p9 p10 p11 p12 p13 p14 p15 p16 p17 (bswapHalves b)) := by
  rw [blowfish_le_encrypt_block_eq, blowfish_be_encrypt_block_eq]
  exact BC.Blowfish.encryptBlock_LE _ b

theorem le_decrypt_block_eq_be (s : Array (BitVec 32)) (p0 p1 p2 p3 p4 p5 p6 p7 p8 p9 p10 p11 p12 p13 p14 p15 p16 p17 : BitVec 32) (b : BitVec 64) :
    blowfish_le_decrypt_block s p0 p1 p2 p3 p4 p5 p6 p7 p8 p9 p10 p11 p12 p13 p14 p15 p16 p17 b = bswapHalves (blowfish_be_decrypt_block s p0 p1 p2 p3 p4 p5 p6 p7 p8 p9 p10 p11 p12 p13 p14 p15 p16 p17 (bswapHalves b)) := by
  rw [blowfish_le_decrypt_block_eq, blowfish_be_decrypt_block_eq]
  exact BC.Blowfish.decryptBlock_LE _ b

end BC.Code.Blowfish
