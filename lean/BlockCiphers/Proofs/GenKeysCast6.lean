import BlockCiphers.Gen.Keys_Cast6
import BlockCiphers.Impl.Cast6
import BlockCiphers.Proofs.GenTables
import Std.Tactic.BVDecide
/-
Tie of the regenerated constructors `Cast6::new_from_slice` (key lengths 16, 20, 24, 28, 32 bytes;
`Gen/Keys_Cast6.lean`) to the key schedule `BC.Cast6.keySchedule` of `Impl/Cast6.lean`, for ALL keys:
the 48 masking words followed by the 48 rotation bytes (`c6Tuple`).

Structure (no bit-blasting; `bv_decide` only for the 32-bit byte-packing glue `pad<n>_<i>`):
 * `s1_at … s4_at` : a regenerated table look-up `tblAt cast6_Sk idx 32` is the model's `sb Sk x` (all 256 entries by
   `decide +kernel`, index bound from the shift / mask);
 * `tm_<s>`, `tr_<s>` : the slices `TM[16*i..][..8]`, … of the model as literal lists;
 * `fc1 … fc4` : `f1!/f2!/f3!` on the all-constant prefix of a zero-padded short key (the translator folds these);
 * `new_from_slice_<n>_eq` : unfold the model's 12 × 2 `forward_octave` calls and the regenerated text; both sides
   become the same term (closed by reflexivity after the operators are put in function form, see the comment there).
-/
namespace BC.GenKeys.Cast6
open BC.Gen.Fn BC.Cast6
set_option maxRecDepth 100000
set_option linter.unusedSimpArgs false

/-- equality through an opaque reflexive relation: keeps `simp` from comparing the two (large, shared) sides
with `isDefEq` before they are in the same normal form -/
theorem byP {α : Type} {a b : α} (h : ∀ P : α → α → Prop, (∀ x, P x x) → P a b) : a = b := h Eq (fun _ => rfl)

theorem s1_entry : ∀ n : Fin 256, BC.Gen.tblAt BC.Gen.cast6_S1 n.val 32 = S1.getD n.val 0#32 := by decide +kernel
theorem s2_entry : ∀ n : Fin 256, BC.Gen.tblAt BC.Gen.cast6_S2 n.val 32 = S2.getD n.val 0#32 := by decide +kernel
theorem s3_entry : ∀ n : Fin 256, BC.Gen.tblAt BC.Gen.cast6_S3 n.val 32 = S3.getD n.val 0#32 := by decide +kernel
theorem s4_entry : ∀ n : Fin 256, BC.Gen.tblAt BC.Gen.cast6_S4 n.val 32 = S4.getD n.val 0#32 := by decide +kernel

theorem idx_toNat (x : BitVec 32) : (x.setWidth 64).toNat = x.toNat := by
  rw [BitVec.toNat_setWidth]; exact Nat.mod_eq_of_lt (by omega)
theorem shr24_lt (i : BitVec 32) : (i >>> 24).toNat < 256 := by
  rw [BitVec.toNat_ushiftRight, Nat.shiftRight_eq_div_pow]; omega
theorem mask_lt (y : BitVec 32) : (y &&& 0xff#32).toNat < 256 := by
  rw [BitVec.toNat_and]; exact Nat.lt_succ_of_le Nat.and_le_right

/-- `S1[(i >> 24) as usize]` -/
theorem s1_at (i : BitVec 32) : BC.Gen.tblAt BC.Gen.cast6_S1 ((i >>> 24).setWidth 64).toNat 32 = sb S1 (i >>> 24) := by
  rw [idx_toNat]; exact s1_entry ⟨_, shr24_lt i⟩
/-- `S2[((i >> 16) & 0xff) as usize]` etc. -/
theorem s2_at (y : BitVec 32) : BC.Gen.tblAt BC.Gen.cast6_S2 ((y &&& 0xff#32).setWidth 64).toNat 32 = sb S2 (y &&& 0xff#32) := by
  rw [idx_toNat]; exact s2_entry ⟨_, mask_lt y⟩
theorem s3_at (y : BitVec 32) : BC.Gen.tblAt BC.Gen.cast6_S3 ((y &&& 0xff#32).setWidth 64).toNat 32 = sb S3 (y &&& 0xff#32) := by
  rw [idx_toNat]; exact s3_entry ⟨_, mask_lt y⟩
theorem s4_at (y : BitVec 32) : BC.Gen.tblAt BC.Gen.cast6_S4 ((y &&& 0xff#32).setWidth 64).toNat 32 = sb S4 (y &&& 0xff#32) := by
  rw [idx_toNat]; exact s4_entry ⟨_, mask_lt y⟩

/-! the slices `TM[16*i..][..8]`, `TM[16*i+8..][..8]`, `TR[16*(i%2)..][..8]`, `TR[16*(i%2)+8..][..8]` -/
theorem tm_0 : slice8 TM 0 = [0x5a827999#32, 0xc95c653a#32, 0x383650db#32, 0xa7103c7c#32, 0x15ea281d#32, 0x84c413be#32, 0xf39dff5f#32, 0x6277eb00#32] := by decide +kernel
theorem tm_8 : slice8 TM 8 = [0xd151d6a1#32, 0x402bc242#32, 0xaf05ade3#32, 0x1ddf9984#32, 0x8cb98525#32, 0xfb9370c6#32, 0x6a6d5c67#32, 0xd9474808#32] := by decide +kernel
theorem tm_16 : slice8 TM 16 = [0x482133a9#32, 0xb6fb1f4a#32, 0x25d50aeb#32, 0x94aef68c#32, 0x388e22d#32, 0x7262cdce#32, 0xe13cb96f#32, 0x5016a510#32] := by decide +kernel
theorem tm_24 : slice8 TM 24 = [0xbef090b1#32, 0x2dca7c52#32, 0x9ca467f3#32, 0xb7e5394#32, 0x7a583f35#32, 0xe9322ad6#32, 0x580c1677#32, 0xc6e60218#32] := by decide +kernel
theorem tm_32 : slice8 TM 32 = [0x35bfedb9#32, 0xa499d95a#32, 0x1373c4fb#32, 0x824db09c#32, 0xf1279c3d#32, 0x600187de#32, 0xcedb737f#32, 0x3db55f20#32] := by decide +kernel
theorem tm_40 : slice8 TM 40 = [0xac8f4ac1#32, 0x1b693662#32, 0x8a432203#32, 0xf91d0da4#32, 0x67f6f945#32, 0xd6d0e4e6#32, 0x45aad087#32, 0xb484bc28#32] := by decide +kernel
theorem tm_48 : slice8 TM 48 = [0x235ea7c9#32, 0x9238936a#32, 0x1127f0b#32, 0x6fec6aac#32, 0xdec6564d#32, 0x4da041ee#32, 0xbc7a2d8f#32, 0x2b541930#32] := by decide +kernel
theorem tm_56 : slice8 TM 56 = [0x9a2e04d1#32, 0x907f072#32, 0x77e1dc13#32, 0xe6bbc7b4#32, 0x5595b355#32, 0xc46f9ef6#32, 0x33498a97#32, 0xa2237638#32] := by decide +kernel
theorem tm_64 : slice8 TM 64 = [0x10fd61d9#32, 0x7fd74d7a#32, 0xeeb1391b#32, 0x5d8b24bc#32, 0xcc65105d#32, 0x3b3efbfe#32, 0xaa18e79f#32, 0x18f2d340#32] := by decide +kernel
theorem tm_72 : slice8 TM 72 = [0x87ccbee1#32, 0xf6a6aa82#32, 0x65809623#32, 0xd45a81c4#32, 0x43346d65#32, 0xb20e5906#32, 0x20e844a7#32, 0x8fc23048#32] := by decide +kernel
theorem tm_80 : slice8 TM 80 = [0xfe9c1be9#32, 0x6d76078a#32, 0xdc4ff32b#32, 0x4b29decc#32, 0xba03ca6d#32, 0x28ddb60e#32, 0x97b7a1af#32, 0x6918d50#32] := by decide +kernel
theorem tm_88 : slice8 TM 88 = [0x756b78f1#32, 0xe4456492#32, 0x531f5033#32, 0xc1f93bd4#32, 0x30d32775#32, 0x9fad1316#32, 0xe86feb7#32, 0x7d60ea58#32] := by decide +kernel
theorem tm_96 : slice8 TM 96 = [0xec3ad5f9#32, 0x5b14c19a#32, 0xc9eead3b#32, 0x38c898dc#32, 0xa7a2847d#32, 0x167c701e#32, 0x85565bbf#32, 0xf4304760#32] := by decide +kernel
theorem tm_104 : slice8 TM 104 = [0x630a3301#32, 0xd1e41ea2#32, 0x40be0a43#32, 0xaf97f5e4#32, 0x1e71e185#32, 0x8d4bcd26#32, 0xfc25b8c7#32, 0x6affa468#32] := by decide +kernel
theorem tm_112 : slice8 TM 112 = [0xd9d99009#32, 0x48b37baa#32, 0xb78d674b#32, 0x266752ec#32, 0x95413e8d#32, 0x41b2a2e#32, 0x72f515cf#32, 0xe1cf0170#32] := by decide +kernel
theorem tm_120 : slice8 TM 120 = [0x50a8ed11#32, 0xbf82d8b2#32, 0x2e5cc453#32, 0x9d36aff4#32, 0xc109b95#32, 0x7aea8736#32, 0xe9c472d7#32, 0x589e5e78#32] := by decide +kernel
theorem tm_128 : slice8 TM 128 = [0xc7784a19#32, 0x365235ba#32, 0xa52c215b#32, 0x14060cfc#32, 0x82dff89d#32, 0xf1b9e43e#32, 0x6093cfdf#32, 0xcf6dbb80#32] := by decide +kernel
theorem tm_136 : slice8 TM 136 = [0x3e47a721#32, 0xad2192c2#32, 0x1bfb7e63#32, 0x8ad56a04#32, 0xf9af55a5#32, 0x68894146#32, 0xd7632ce7#32, 0x463d1888#32] := by decide +kernel
theorem tm_144 : slice8 TM 144 = [0xb5170429#32, 0x23f0efca#32, 0x92cadb6b#32, 0x1a4c70c#32, 0x707eb2ad#32, 0xdf589e4e#32, 0x4e3289ef#32, 0xbd0c7590#32] := by decide +kernel
theorem tm_152 : slice8 TM 152 = [0x2be66131#32, 0x9ac04cd2#32, 0x99a3873#32, 0x78742414#32, 0xe74e0fb5#32, 0x5627fb56#32, 0xc501e6f7#32, 0x33dbd298#32] := by decide +kernel
theorem tm_160 : slice8 TM 160 = [0xa2b5be39#32, 0x118fa9da#32, 0x8069957b#32, 0xef43811c#32, 0x5e1d6cbd#32, 0xccf7585e#32, 0x3bd143ff#32, 0xaaab2fa0#32] := by decide +kernel
theorem tm_168 : slice8 TM 168 = [0x19851b41#32, 0x885f06e2#32, 0xf738f283#32, 0x6612de24#32, 0xd4ecc9c5#32, 0x43c6b566#32, 0xb2a0a107#32, 0x217a8ca8#32] := by decide +kernel
theorem tm_176 : slice8 TM 176 = [0x90547849#32, 0xff2e63ea#32, 0x6e084f8b#32, 0xdce23b2c#32, 0x4bbc26cd#32, 0xba96126e#32, 0x296ffe0f#32, 0x9849e9b0#32] := by decide +kernel
theorem tm_184 : slice8 TM 184 = [0x723d551#32, 0x75fdc0f2#32, 0xe4d7ac93#32, 0x53b19834#32, 0xc28b83d5#32, 0x31656f76#32, 0xa03f5b17#32, 0xf1946b8#32] := by decide +kernel
theorem tr_0 : slice8 TR 0 = [0x13#8, 0x4#8, 0x15#8, 0x6#8, 0x17#8, 0x8#8, 0x19#8, 0xa#8] := by decide +kernel
theorem tr_8 : slice8 TR 8 = [0x1b#8, 0xc#8, 0x1d#8, 0xe#8, 0x1f#8, 0x10#8, 0x1#8, 0x12#8] := by decide +kernel
theorem tr_16 : slice8 TR 16 = [0x3#8, 0x14#8, 0x5#8, 0x16#8, 0x7#8, 0x18#8, 0x9#8, 0x1a#8] := by decide +kernel
theorem tr_24 : slice8 TR 24 = [0xb#8, 0x1c#8, 0xd#8, 0x1e#8, 0xf#8, 0x0#8, 0x11#8, 0x2#8] := by decide +kernel
theorem range12 : List.range 12 = [0,1,2,3,4,5,6,7,8,9,10,11] := by decide +kernel
theorem replKm : List.replicate 12 Km.zero = [Km.zero,Km.zero,Km.zero,Km.zero,Km.zero,Km.zero,Km.zero,Km.zero,Km.zero,Km.zero,Km.zero,Km.zero] := by decide +kernel
theorem replKr : List.replicate 12 Kr.zero = [Kr.zero,Kr.zero,Kr.zero,Kr.zero,Kr.zero,Kr.zero,Kr.zero,Kr.zero,Kr.zero,Kr.zero,Kr.zero,Kr.zero] := by decide +kernel

/-! values of `f1!/f2!/f3!` on the constant part of a zero-padded short key (the translator folds these) -/
theorem fc1 : f1 0x0#32 0x5a827999#32 0x13#8 = 0x2de265b1#32 := by decide +kernel
theorem fc2 : f2 0x2de265b1#32 0xc95c653a#32 0x4#8 = 0x7b235834#32 := by decide +kernel
theorem fc3 : f3 0x7b235834#32 0x383650db#32 0x15#8 = 0xaecf5626#32 := by decide +kernel
theorem fc4 : f1 0xaecf5626#32 0xa7103c7c#32 0x6#8 = 0xd0a9f64f#32 := by decide +kernel

/-- the fields `masking: [[u32; 4]; 12]`, `rotate: [[u8; 4]; 12]` flattened -/
def c6Tuple (c : Cast6) :=
  ((c.km 0).m0, (c.km 0).m1, (c.km 0).m2, (c.km 0).m3, (c.km 1).m0, (c.km 1).m1, (c.km 1).m2, (c.km 1).m3, (c.km 2).m0, (c.km 2).m1, (c.km 2).m2, (c.km 2).m3, (c.km 3).m0, (c.km 3).m1, (c.km 3).m2, (c.km 3).m3, (c.km 4).m0, (c.km 4).m1, (c.km 4).m2, (c.km 4).m3, (c.km 5).m0, (c.km 5).m1, (c.km 5).m2, (c.km 5).m3, (c.km 6).m0, (c.km 6).m1, (c.km 6).m2, (c.km 6).m3, (c.km 7).m0, (c.km 7).m1, (c.km 7).m2, (c.km 7).m3, (c.km 8).m0, (c.km 8).m1, (c.km 8).m2, (c.km 8).m3, (c.km 9).m0, (c.km 9).m1, (c.km 9).m2, (c.km 9).m3, (c.km 10).m0, (c.km 10).m1, (c.km 10).m2, (c.km 10).m3, (c.km 11).m0, (c.km 11).m1, (c.km 11).m2, (c.km 11).m3, (c.kr 0).r0, (c.kr 0).r1, (c.kr 0).r2, (c.kr 0).r3, (c.kr 1).r0, (c.kr 1).r1, (c.kr 1).r2, (c.kr 1).r3, (c.kr 2).r0, (c.kr 2).r1, (c.kr 2).r2, (c.kr 2).r3, (c.kr 3).r0, (c.kr 3).r1, (c.kr 3).r2, (c.kr 3).r3, (c.kr 4).r0, (c.kr 4).r1, (c.kr 4).r2, (c.kr 4).r3, (c.kr 5).r0, (c.kr 5).r1, (c.kr 5).r2, (c.kr 5).r3, (c.kr 6).r0, (c.kr 6).r1, (c.kr 6).r2, (c.kr 6).r3, (c.kr 7).r0, (c.kr 7).r1, (c.kr 7).r2, (c.kr 7).r3, (c.kr 8).r0, (c.kr 8).r1, (c.kr 8).r2, (c.kr 8).r3, (c.kr 9).r0, (c.kr 9).r1, (c.kr 9).r2, (c.kr 9).r3, (c.kr 10).r0, (c.kr 10).r1, (c.kr 10).r2, (c.kr 10).r3, (c.kr 11).r0, (c.kr 11).r1, (c.kr 11).r2, (c.kr 11).r3)

/-! ### key length 16 -/
theorem range16 : List.range 16 = [0,1,2,3,4,5,6,7,8,9,10,11,12,13,14,15] := by decide +kernel
theorem repl16 : List.replicate 16 (0#8) = [0#8,0#8,0#8,0#8,0#8,0#8,0#8,0#8,0#8,0#8,0#8,0#8,0#8,0#8,0#8,0#8] := by decide +kernel
theorem pad16_0 (key : BitVec 128) : beWord (padKey (unpackBE 16 key)) 0 = ((key.extractLsb' 120 8) ++ (key.extractLsb' 112 8) ++ (key.extractLsb' 104 8) ++ (key.extractLsb' 96 8)) := by
  simp only [beWord, padKey, unpackBE, range16, repl16, List.map, List.length, Nat.reduceMul, Nat.reduceAdd, Nat.reduceSub,
    List.cons_append, List.nil_append, List.set_cons_succ, List.set_cons_zero, List.getD_cons_succ, List.getD_cons_zero]
  bv_decide
theorem pad16_1 (key : BitVec 128) : beWord (padKey (unpackBE 16 key)) 1 = ((key.extractLsb' 88 8) ++ (key.extractLsb' 80 8) ++ (key.extractLsb' 72 8) ++ (key.extractLsb' 64 8)) := by
  simp only [beWord, padKey, unpackBE, range16, repl16, List.map, List.length, Nat.reduceMul, Nat.reduceAdd, Nat.reduceSub,
    List.cons_append, List.nil_append, List.set_cons_succ, List.set_cons_zero, List.getD_cons_succ, List.getD_cons_zero]
  bv_decide
theorem pad16_2 (key : BitVec 128) : beWord (padKey (unpackBE 16 key)) 2 = ((key.extractLsb' 56 8) ++ (key.extractLsb' 48 8) ++ (key.extractLsb' 40 8) ++ (key.extractLsb' 32 8)) := by
  simp only [beWord, padKey, unpackBE, range16, repl16, List.map, List.length, Nat.reduceMul, Nat.reduceAdd, Nat.reduceSub,
    List.cons_append, List.nil_append, List.set_cons_succ, List.set_cons_zero, List.getD_cons_succ, List.getD_cons_zero]
  bv_decide
theorem pad16_3 (key : BitVec 128) : beWord (padKey (unpackBE 16 key)) 3 = ((key.extractLsb' 24 8) ++ (key.extractLsb' 16 8) ++ (key.extractLsb' 8 8) ++ (key.extractLsb' 0 8)) := by
  simp only [beWord, padKey, unpackBE, range16, repl16, List.map, List.length, Nat.reduceMul, Nat.reduceAdd, Nat.reduceSub,
    List.cons_append, List.nil_append, List.set_cons_succ, List.set_cons_zero, List.getD_cons_succ, List.getD_cons_zero]
  bv_decide
theorem pad16_4 (key : BitVec 128) : beWord (padKey (unpackBE 16 key)) 4 = 0x0#32 := by
  simp only [beWord, padKey, unpackBE, range16, repl16, List.map, List.length, Nat.reduceMul, Nat.reduceAdd, Nat.reduceSub,
    List.cons_append, List.nil_append, List.set_cons_succ, List.set_cons_zero, List.getD_cons_succ, List.getD_cons_zero]
  bv_decide
theorem pad16_5 (key : BitVec 128) : beWord (padKey (unpackBE 16 key)) 5 = 0x0#32 := by
  simp only [beWord, padKey, unpackBE, range16, repl16, List.map, List.length, Nat.reduceMul, Nat.reduceAdd, Nat.reduceSub,
    List.cons_append, List.nil_append, List.set_cons_succ, List.set_cons_zero, List.getD_cons_succ, List.getD_cons_zero]
  bv_decide
theorem pad16_6 (key : BitVec 128) : beWord (padKey (unpackBE 16 key)) 6 = 0x0#32 := by
  simp only [beWord, padKey, unpackBE, range16, repl16, List.map, List.length, Nat.reduceMul, Nat.reduceAdd, Nat.reduceSub,
    List.cons_append, List.nil_append, List.set_cons_succ, List.set_cons_zero, List.getD_cons_succ, List.getD_cons_zero]
  bv_decide
theorem pad16_7 (key : BitVec 128) : beWord (padKey (unpackBE 16 key)) 7 = 0x0#32 := by
  simp only [beWord, padKey, unpackBE, range16, repl16, List.map, List.length, Nat.reduceMul, Nat.reduceAdd, Nat.reduceSub,
    List.cons_append, List.nil_append, List.set_cons_succ, List.set_cons_zero, List.getD_cons_succ, List.getD_cons_zero]
  bv_decide

theorem new_from_slice_16_eq (key : BitVec 128) :
    cast6_new_from_slice_16 key = c6Tuple (keySchedule (unpackBE 16 key)) := by
  apply byP
  intro P hP
  -- model side: unfold the schedule down to `f1!/f2!/f3!` calls; regenerated side: unfold, table look-ups -> `sb`
  simp only [cast6_new_from_slice_16, s1_at, s2_at, s3_at, s4_at,
    c6Tuple, keySchedule, keyScheduleKappa, kappaOfBytes, pad16_0, pad16_1, pad16_2, pad16_3, pad16_4, pad16_5, pad16_6, pad16_7,
    range12, replKm, replKr, List.foldl, ksStep, forwardOctave, Cast6.km, Cast6.kr,
    Nat.reduceMul, Nat.reduceAdd, Nat.reduceMod, tm_0, tm_8, tm_16, tm_24, tm_32, tm_40, tm_48, tm_56, tm_64, tm_72, tm_80, tm_88, tm_96, tm_104, tm_112, tm_120, tm_128, tm_136, tm_144, tm_152, tm_160, tm_168, tm_176, tm_184, tr_0, tr_8, tr_16, tr_24,
    List.cons_append, List.nil_append, List.set_cons_succ, List.set_cons_zero, List.getD_cons_succ, List.getD_cons_zero, fc1, fc2, fc3, fc4, BitVec.zero_xor]
  simp only [f1, f2, f3, BitVec.reduceToNat]
  -- both sides are now the same term up to the implicit width `8+8+8+8` vs `32` in the instance arguments of the
  -- operators (the key words are byte concatenations); the function forms carry the width as a plain argument
  simp only [← BitVec.xor_eq, ← BitVec.add_eq, ← BitVec.sub_eq, ← BitVec.and_eq, ← BitVec.ushiftRight_eq]
  exact hP _


/-! ### key length 20 -/
theorem range20 : List.range 20 = [0,1,2,3,4,5,6,7,8,9,10,11,12,13,14,15,16,17,18,19] := by decide +kernel
theorem repl12 : List.replicate 12 (0#8) = [0#8,0#8,0#8,0#8,0#8,0#8,0#8,0#8,0#8,0#8,0#8,0#8] := by decide +kernel
theorem pad20_0 (key : BitVec 160) : beWord (padKey (unpackBE 20 key)) 0 = ((key.extractLsb' 152 8) ++ (key.extractLsb' 144 8) ++ (key.extractLsb' 136 8) ++ (key.extractLsb' 128 8)) := by
  simp only [beWord, padKey, unpackBE, range20, repl12, List.map, List.length, Nat.reduceMul, Nat.reduceAdd, Nat.reduceSub,
    List.cons_append, List.nil_append, List.set_cons_succ, List.set_cons_zero, List.getD_cons_succ, List.getD_cons_zero]
  bv_decide
theorem pad20_1 (key : BitVec 160) : beWord (padKey (unpackBE 20 key)) 1 = ((key.extractLsb' 120 8) ++ (key.extractLsb' 112 8) ++ (key.extractLsb' 104 8) ++ (key.extractLsb' 96 8)) := by
  simp only [beWord, padKey, unpackBE, range20, repl12, List.map, List.length, Nat.reduceMul, Nat.reduceAdd, Nat.reduceSub,
    List.cons_append, List.nil_append, List.set_cons_succ, List.set_cons_zero, List.getD_cons_succ, List.getD_cons_zero]
  bv_decide
theorem pad20_2 (key : BitVec 160) : beWord (padKey (unpackBE 20 key)) 2 = ((key.extractLsb' 88 8) ++ (key.extractLsb' 80 8) ++ (key.extractLsb' 72 8) ++ (key.extractLsb' 64 8)) := by
  simp only [beWord, padKey, unpackBE, range20, repl12, List.map, List.length, Nat.reduceMul, Nat.reduceAdd, Nat.reduceSub,
    List.cons_append, List.nil_append, List.set_cons_succ, List.set_cons_zero, List.getD_cons_succ, List.getD_cons_zero]
  bv_decide
theorem pad20_3 (key : BitVec 160) : beWord (padKey (unpackBE 20 key)) 3 = ((key.extractLsb' 56 8) ++ (key.extractLsb' 48 8) ++ (key.extractLsb' 40 8) ++ (key.extractLsb' 32 8)) := by
  simp only [beWord, padKey, unpackBE, range20, repl12, List.map, List.length, Nat.reduceMul, Nat.reduceAdd, Nat.reduceSub,
    List.cons_append, List.nil_append, List.set_cons_succ, List.set_cons_zero, List.getD_cons_succ, List.getD_cons_zero]
  bv_decide
theorem pad20_4 (key : BitVec 160) : beWord (padKey (unpackBE 20 key)) 4 = ((key.extractLsb' 24 8) ++ (key.extractLsb' 16 8) ++ (key.extractLsb' 8 8) ++ (key.extractLsb' 0 8)) := by
  simp only [beWord, padKey, unpackBE, range20, repl12, List.map, List.length, Nat.reduceMul, Nat.reduceAdd, Nat.reduceSub,
    List.cons_append, List.nil_append, List.set_cons_succ, List.set_cons_zero, List.getD_cons_succ, List.getD_cons_zero]
  bv_decide
theorem pad20_5 (key : BitVec 160) : beWord (padKey (unpackBE 20 key)) 5 = 0x0#32 := by
  simp only [beWord, padKey, unpackBE, range20, repl12, List.map, List.length, Nat.reduceMul, Nat.reduceAdd, Nat.reduceSub,
    List.cons_append, List.nil_append, List.set_cons_succ, List.set_cons_zero, List.getD_cons_succ, List.getD_cons_zero]
  bv_decide
theorem pad20_6 (key : BitVec 160) : beWord (padKey (unpackBE 20 key)) 6 = 0x0#32 := by
  simp only [beWord, padKey, unpackBE, range20, repl12, List.map, List.length, Nat.reduceMul, Nat.reduceAdd, Nat.reduceSub,
    List.cons_append, List.nil_append, List.set_cons_succ, List.set_cons_zero, List.getD_cons_succ, List.getD_cons_zero]
  bv_decide
theorem pad20_7 (key : BitVec 160) : beWord (padKey (unpackBE 20 key)) 7 = 0x0#32 := by
  simp only [beWord, padKey, unpackBE, range20, repl12, List.map, List.length, Nat.reduceMul, Nat.reduceAdd, Nat.reduceSub,
    List.cons_append, List.nil_append, List.set_cons_succ, List.set_cons_zero, List.getD_cons_succ, List.getD_cons_zero]
  bv_decide

theorem new_from_slice_20_eq (key : BitVec 160) :
    cast6_new_from_slice_20 key = c6Tuple (keySchedule (unpackBE 20 key)) := by
  apply byP
  intro P hP
  -- model side: unfold the schedule down to `f1!/f2!/f3!` calls; regenerated side: unfold, table look-ups -> `sb`
  simp only [cast6_new_from_slice_20, s1_at, s2_at, s3_at, s4_at,
    c6Tuple, keySchedule, keyScheduleKappa, kappaOfBytes, pad20_0, pad20_1, pad20_2, pad20_3, pad20_4, pad20_5, pad20_6, pad20_7,
    range12, replKm, replKr, List.foldl, ksStep, forwardOctave, Cast6.km, Cast6.kr,
    Nat.reduceMul, Nat.reduceAdd, Nat.reduceMod, tm_0, tm_8, tm_16, tm_24, tm_32, tm_40, tm_48, tm_56, tm_64, tm_72, tm_80, tm_88, tm_96, tm_104, tm_112, tm_120, tm_128, tm_136, tm_144, tm_152, tm_160, tm_168, tm_176, tm_184, tr_0, tr_8, tr_16, tr_24,
    List.cons_append, List.nil_append, List.set_cons_succ, List.set_cons_zero, List.getD_cons_succ, List.getD_cons_zero, fc1, fc2, fc3, fc4, BitVec.zero_xor]
  simp only [f1, f2, f3, BitVec.reduceToNat]
  -- both sides are now the same term up to the implicit width `8+8+8+8` vs `32` in the instance arguments of the
  -- operators (the key words are byte concatenations); the function forms carry the width as a plain argument
  simp only [← BitVec.xor_eq, ← BitVec.add_eq, ← BitVec.sub_eq, ← BitVec.and_eq, ← BitVec.ushiftRight_eq]
  exact hP _


/-! ### key length 24 -/
theorem range24 : List.range 24 = [0,1,2,3,4,5,6,7,8,9,10,11,12,13,14,15,16,17,18,19,20,21,22,23] := by decide +kernel
theorem repl8 : List.replicate 8 (0#8) = [0#8,0#8,0#8,0#8,0#8,0#8,0#8,0#8] := by decide +kernel
theorem pad24_0 (key : BitVec 192) : beWord (padKey (unpackBE 24 key)) 0 = ((key.extractLsb' 184 8) ++ (key.extractLsb' 176 8) ++ (key.extractLsb' 168 8) ++ (key.extractLsb' 160 8)) := by
  simp only [beWord, padKey, unpackBE, range24, repl8, List.map, List.length, Nat.reduceMul, Nat.reduceAdd, Nat.reduceSub,
    List.cons_append, List.nil_append, List.set_cons_succ, List.set_cons_zero, List.getD_cons_succ, List.getD_cons_zero]
  bv_decide
theorem pad24_1 (key : BitVec 192) : beWord (padKey (unpackBE 24 key)) 1 = ((key.extractLsb' 152 8) ++ (key.extractLsb' 144 8) ++ (key.extractLsb' 136 8) ++ (key.extractLsb' 128 8)) := by
  simp only [beWord, padKey, unpackBE, range24, repl8, List.map, List.length, Nat.reduceMul, Nat.reduceAdd, Nat.reduceSub,
    List.cons_append, List.nil_append, List.set_cons_succ, List.set_cons_zero, List.getD_cons_succ, List.getD_cons_zero]
  bv_decide
theorem pad24_2 (key : BitVec 192) : beWord (padKey (unpackBE 24 key)) 2 = ((key.extractLsb' 120 8) ++ (key.extractLsb' 112 8) ++ (key.extractLsb' 104 8) ++ (key.extractLsb' 96 8)) := by
  simp only [beWord, padKey, unpackBE, range24, repl8, List.map, List.length, Nat.reduceMul, Nat.reduceAdd, Nat.reduceSub,
    List.cons_append, List.nil_append, List.set_cons_succ, List.set_cons_zero, List.getD_cons_succ, List.getD_cons_zero]
  bv_decide
theorem pad24_3 (key : BitVec 192) : beWord (padKey (unpackBE 24 key)) 3 = ((key.extractLsb' 88 8) ++ (key.extractLsb' 80 8) ++ (key.extractLsb' 72 8) ++ (key.extractLsb' 64 8)) := by
  simp only [beWord, padKey, unpackBE, range24, repl8, List.map, List.length, Nat.reduceMul, Nat.reduceAdd, Nat.reduceSub,
    List.cons_append, List.nil_append, List.set_cons_succ, List.set_cons_zero, List.getD_cons_succ, List.getD_cons_zero]
  bv_decide
theorem pad24_4 (key : BitVec 192) : beWord (padKey (unpackBE 24 key)) 4 = ((key.extractLsb' 56 8) ++ (key.extractLsb' 48 8) ++ (key.extractLsb' 40 8) ++ (key.extractLsb' 32 8)) := by
  simp only [beWord, padKey, unpackBE, range24, repl8, List.map, List.length, Nat.reduceMul, Nat.reduceAdd, Nat.reduceSub,
    List.cons_append, List.nil_append, List.set_cons_succ, List.set_cons_zero, List.getD_cons_succ, List.getD_cons_zero]
  bv_decide
theorem pad24_5 (key : BitVec 192) : beWord (padKey (unpackBE 24 key)) 5 = ((key.extractLsb' 24 8) ++ (key.extractLsb' 16 8) ++ (key.extractLsb' 8 8) ++ (key.extractLsb' 0 8)) := by
  simp only [beWord, padKey, unpackBE, range24, repl8, List.map, List.length, Nat.reduceMul, Nat.reduceAdd, Nat.reduceSub,
    List.cons_append, List.nil_append, List.set_cons_succ, List.set_cons_zero, List.getD_cons_succ, List.getD_cons_zero]
  bv_decide
theorem pad24_6 (key : BitVec 192) : beWord (padKey (unpackBE 24 key)) 6 = 0x0#32 := by
  simp only [beWord, padKey, unpackBE, range24, repl8, List.map, List.length, Nat.reduceMul, Nat.reduceAdd, Nat.reduceSub,
    List.cons_append, List.nil_append, List.set_cons_succ, List.set_cons_zero, List.getD_cons_succ, List.getD_cons_zero]
  bv_decide
theorem pad24_7 (key : BitVec 192) : beWord (padKey (unpackBE 24 key)) 7 = 0x0#32 := by
  simp only [beWord, padKey, unpackBE, range24, repl8, List.map, List.length, Nat.reduceMul, Nat.reduceAdd, Nat.reduceSub,
    List.cons_append, List.nil_append, List.set_cons_succ, List.set_cons_zero, List.getD_cons_succ, List.getD_cons_zero]
  bv_decide

theorem new_from_slice_24_eq (key : BitVec 192) :
    cast6_new_from_slice_24 key = c6Tuple (keySchedule (unpackBE 24 key)) := by
  apply byP
  intro P hP
  -- model side: unfold the schedule down to `f1!/f2!/f3!` calls; regenerated side: unfold, table look-ups -> `sb`
  simp only [cast6_new_from_slice_24, s1_at, s2_at, s3_at, s4_at,
    c6Tuple, keySchedule, keyScheduleKappa, kappaOfBytes, pad24_0, pad24_1, pad24_2, pad24_3, pad24_4, pad24_5, pad24_6, pad24_7,
    range12, replKm, replKr, List.foldl, ksStep, forwardOctave, Cast6.km, Cast6.kr,
    Nat.reduceMul, Nat.reduceAdd, Nat.reduceMod, tm_0, tm_8, tm_16, tm_24, tm_32, tm_40, tm_48, tm_56, tm_64, tm_72, tm_80, tm_88, tm_96, tm_104, tm_112, tm_120, tm_128, tm_136, tm_144, tm_152, tm_160, tm_168, tm_176, tm_184, tr_0, tr_8, tr_16, tr_24,
    List.cons_append, List.nil_append, List.set_cons_succ, List.set_cons_zero, List.getD_cons_succ, List.getD_cons_zero, fc1, fc2, fc3, fc4, BitVec.zero_xor]
  simp only [f1, f2, f3, BitVec.reduceToNat]
  -- both sides are now the same term up to the implicit width `8+8+8+8` vs `32` in the instance arguments of the
  -- operators (the key words are byte concatenations); the function forms carry the width as a plain argument
  simp only [← BitVec.xor_eq, ← BitVec.add_eq, ← BitVec.sub_eq, ← BitVec.and_eq, ← BitVec.ushiftRight_eq]
  exact hP _


/-! ### key length 28 -/
theorem range28 : List.range 28 = [0,1,2,3,4,5,6,7,8,9,10,11,12,13,14,15,16,17,18,19,20,21,22,23,24,25,26,27] := by decide +kernel
theorem repl4 : List.replicate 4 (0#8) = [0#8,0#8,0#8,0#8] := by decide +kernel
theorem pad28_0 (key : BitVec 224) : beWord (padKey (unpackBE 28 key)) 0 = ((key.extractLsb' 216 8) ++ (key.extractLsb' 208 8) ++ (key.extractLsb' 200 8) ++ (key.extractLsb' 192 8)) := by
  simp only [beWord, padKey, unpackBE, range28, repl4, List.map, List.length, Nat.reduceMul, Nat.reduceAdd, Nat.reduceSub,
    List.cons_append, List.nil_append, List.set_cons_succ, List.set_cons_zero, List.getD_cons_succ, List.getD_cons_zero]
  bv_decide
theorem pad28_1 (key : BitVec 224) : beWord (padKey (unpackBE 28 key)) 1 = ((key.extractLsb' 184 8) ++ (key.extractLsb' 176 8) ++ (key.extractLsb' 168 8) ++ (key.extractLsb' 160 8)) := by
  simp only [beWord, padKey, unpackBE, range28, repl4, List.map, List.length, Nat.reduceMul, Nat.reduceAdd, Nat.reduceSub,
    List.cons_append, List.nil_append, List.set_cons_succ, List.set_cons_zero, List.getD_cons_succ, List.getD_cons_zero]
  bv_decide
theorem pad28_2 (key : BitVec 224) : beWord (padKey (unpackBE 28 key)) 2 = ((key.extractLsb' 152 8) ++ (key.extractLsb' 144 8) ++ (key.extractLsb' 136 8) ++ (key.extractLsb' 128 8)) := by
  simp only [beWord, padKey, unpackBE, range28, repl4, List.map, List.length, Nat.reduceMul, Nat.reduceAdd, Nat.reduceSub,
    List.cons_append, List.nil_append, List.set_cons_succ, List.set_cons_zero, List.getD_cons_succ, List.getD_cons_zero]
  bv_decide
theorem pad28_3 (key : BitVec 224) : beWord (padKey (unpackBE 28 key)) 3 = ((key.extractLsb' 120 8) ++ (key.extractLsb' 112 8) ++ (key.extractLsb' 104 8) ++ (key.extractLsb' 96 8)) := by
  simp only [beWord, padKey, unpackBE, range28, repl4, List.map, List.length, Nat.reduceMul, Nat.reduceAdd, Nat.reduceSub,
    List.cons_append, List.nil_append, List.set_cons_succ, List.set_cons_zero, List.getD_cons_succ, List.getD_cons_zero]
  bv_decide
theorem pad28_4 (key : BitVec 224) : beWord (padKey (unpackBE 28 key)) 4 = ((key.extractLsb' 88 8) ++ (key.extractLsb' 80 8) ++ (key.extractLsb' 72 8) ++ (key.extractLsb' 64 8)) := by
  simp only [beWord, padKey, unpackBE, range28, repl4, List.map, List.length, Nat.reduceMul, Nat.reduceAdd, Nat.reduceSub,
    List.cons_append, List.nil_append, List.set_cons_succ, List.set_cons_zero, List.getD_cons_succ, List.getD_cons_zero]
  bv_decide
theorem pad28_5 (key : BitVec 224) : beWord (padKey (unpackBE 28 key)) 5 = ((key.extractLsb' 56 8) ++ (key.extractLsb' 48 8) ++ (key.extractLsb' 40 8) ++ (key.extractLsb' 32 8)) := by
  simp only [beWord, padKey, unpackBE, range28, repl4, List.map, List.length, Nat.reduceMul, Nat.reduceAdd, Nat.reduceSub,
    List.cons_append, List.nil_append, List.set_cons_succ, List.set_cons_zero, List.getD_cons_succ, List.getD_cons_zero]
  bv_decide
theorem pad28_6 (key : BitVec 224) : beWord (padKey (unpackBE 28 key)) 6 = ((key.extractLsb' 24 8) ++ (key.extractLsb' 16 8) ++ (key.extractLsb' 8 8) ++ (key.extractLsb' 0 8)) := by
  simp only [beWord, padKey, unpackBE, range28, repl4, List.map, List.length, Nat.reduceMul, Nat.reduceAdd, Nat.reduceSub,
    List.cons_append, List.nil_append, List.set_cons_succ, List.set_cons_zero, List.getD_cons_succ, List.getD_cons_zero]
  bv_decide
theorem pad28_7 (key : BitVec 224) : beWord (padKey (unpackBE 28 key)) 7 = 0x0#32 := by
  simp only [beWord, padKey, unpackBE, range28, repl4, List.map, List.length, Nat.reduceMul, Nat.reduceAdd, Nat.reduceSub,
    List.cons_append, List.nil_append, List.set_cons_succ, List.set_cons_zero, List.getD_cons_succ, List.getD_cons_zero]
  bv_decide

theorem new_from_slice_28_eq (key : BitVec 224) :
    cast6_new_from_slice_28 key = c6Tuple (keySchedule (unpackBE 28 key)) := by
  apply byP
  intro P hP
  -- model side: unfold the schedule down to `f1!/f2!/f3!` calls; regenerated side: unfold, table look-ups -> `sb`
  simp only [cast6_new_from_slice_28, s1_at, s2_at, s3_at, s4_at,
    c6Tuple, keySchedule, keyScheduleKappa, kappaOfBytes, pad28_0, pad28_1, pad28_2, pad28_3, pad28_4, pad28_5, pad28_6, pad28_7,
    range12, replKm, replKr, List.foldl, ksStep, forwardOctave, Cast6.km, Cast6.kr,
    Nat.reduceMul, Nat.reduceAdd, Nat.reduceMod, tm_0, tm_8, tm_16, tm_24, tm_32, tm_40, tm_48, tm_56, tm_64, tm_72, tm_80, tm_88, tm_96, tm_104, tm_112, tm_120, tm_128, tm_136, tm_144, tm_152, tm_160, tm_168, tm_176, tm_184, tr_0, tr_8, tr_16, tr_24,
    List.cons_append, List.nil_append, List.set_cons_succ, List.set_cons_zero, List.getD_cons_succ, List.getD_cons_zero, fc1, fc2, fc3, fc4, BitVec.zero_xor]
  simp only [f1, f2, f3, BitVec.reduceToNat]
  -- both sides are now the same term up to the implicit width `8+8+8+8` vs `32` in the instance arguments of the
  -- operators (the key words are byte concatenations); the function forms carry the width as a plain argument
  simp only [← BitVec.xor_eq, ← BitVec.add_eq, ← BitVec.sub_eq, ← BitVec.and_eq, ← BitVec.ushiftRight_eq]
  exact hP _


/-! ### key length 32 -/
theorem range32 : List.range 32 = [0,1,2,3,4,5,6,7,8,9,10,11,12,13,14,15,16,17,18,19,20,21,22,23,24,25,26,27,28,29,30,31] := by decide +kernel
theorem pad32_0 (key : BitVec 256) : beWord (padKey (unpackBE 32 key)) 0 = ((key.extractLsb' 248 8) ++ (key.extractLsb' 240 8) ++ (key.extractLsb' 232 8) ++ (key.extractLsb' 224 8)) := by
  simp only [beWord, padKey, unpackBE, range32, List.map, List.length, Nat.reduceMul, Nat.reduceAdd, Nat.reduceSub,
    List.cons_append, List.nil_append, List.set_cons_succ, List.set_cons_zero, List.getD_cons_succ, List.getD_cons_zero]
  bv_decide
theorem pad32_1 (key : BitVec 256) : beWord (padKey (unpackBE 32 key)) 1 = ((key.extractLsb' 216 8) ++ (key.extractLsb' 208 8) ++ (key.extractLsb' 200 8) ++ (key.extractLsb' 192 8)) := by
  simp only [beWord, padKey, unpackBE, range32, List.map, List.length, Nat.reduceMul, Nat.reduceAdd, Nat.reduceSub,
    List.cons_append, List.nil_append, List.set_cons_succ, List.set_cons_zero, List.getD_cons_succ, List.getD_cons_zero]
  bv_decide
theorem pad32_2 (key : BitVec 256) : beWord (padKey (unpackBE 32 key)) 2 = ((key.extractLsb' 184 8) ++ (key.extractLsb' 176 8) ++ (key.extractLsb' 168 8) ++ (key.extractLsb' 160 8)) := by
  simp only [beWord, padKey, unpackBE, range32, List.map, List.length, Nat.reduceMul, Nat.reduceAdd, Nat.reduceSub,
    List.cons_append, List.nil_append, List.set_cons_succ, List.set_cons_zero, List.getD_cons_succ, List.getD_cons_zero]
  bv_decide
theorem pad32_3 (key : BitVec 256) : beWord (padKey (unpackBE 32 key)) 3 = ((key.extractLsb' 152 8) ++ (key.extractLsb' 144 8) ++ (key.extractLsb' 136 8) ++ (key.extractLsb' 128 8)) := by
  simp only [beWord, padKey, unpackBE, range32, List.map, List.length, Nat.reduceMul, Nat.reduceAdd, Nat.reduceSub,
    List.cons_append, List.nil_append, List.set_cons_succ, List.set_cons_zero, List.getD_cons_succ, List.getD_cons_zero]
  bv_decide
theorem pad32_4 (key : BitVec 256) : beWord (padKey (unpackBE 32 key)) 4 = ((key.extractLsb' 120 8) ++ (key.extractLsb' 112 8) ++ (key.extractLsb' 104 8) ++ (key.extractLsb' 96 8)) := by
  simp only [beWord, padKey, unpackBE, range32, List.map, List.length, Nat.reduceMul, Nat.reduceAdd, Nat.reduceSub,
    List.cons_append, List.nil_append, List.set_cons_succ, List.set_cons_zero, List.getD_cons_succ, List.getD_cons_zero]
  bv_decide
theorem pad32_5 (key : BitVec 256) : beWord (padKey (unpackBE 32 key)) 5 = ((key.extractLsb' 88 8) ++ (key.extractLsb' 80 8) ++ (key.extractLsb' 72 8) ++ (key.extractLsb' 64 8)) := by
  simp only [beWord, padKey, unpackBE, range32, List.map, List.length, Nat.reduceMul, Nat.reduceAdd, Nat.reduceSub,
    List.cons_append, List.nil_append, List.set_cons_succ, List.set_cons_zero, List.getD_cons_succ, List.getD_cons_zero]
  bv_decide
theorem pad32_6 (key : BitVec 256) : beWord (padKey (unpackBE 32 key)) 6 = ((key.extractLsb' 56 8) ++ (key.extractLsb' 48 8) ++ (key.extractLsb' 40 8) ++ (key.extractLsb' 32 8)) := by
  simp only [beWord, padKey, unpackBE, range32, List.map, List.length, Nat.reduceMul, Nat.reduceAdd, Nat.reduceSub,
    List.cons_append, List.nil_append, List.set_cons_succ, List.set_cons_zero, List.getD_cons_succ, List.getD_cons_zero]
  bv_decide
theorem pad32_7 (key : BitVec 256) : beWord (padKey (unpackBE 32 key)) 7 = ((key.extractLsb' 24 8) ++ (key.extractLsb' 16 8) ++ (key.extractLsb' 8 8) ++ (key.extractLsb' 0 8)) := by
  simp only [beWord, padKey, unpackBE, range32, List.map, List.length, Nat.reduceMul, Nat.reduceAdd, Nat.reduceSub,
    List.cons_append, List.nil_append, List.set_cons_succ, List.set_cons_zero, List.getD_cons_succ, List.getD_cons_zero]
  bv_decide

theorem new_from_slice_32_eq (key : BitVec 256) :
    cast6_new_from_slice_32 key = c6Tuple (keySchedule (unpackBE 32 key)) := by
  apply byP
  intro P hP
  -- model side: unfold the schedule down to `f1!/f2!/f3!` calls; regenerated side: unfold, table look-ups -> `sb`
  simp only [cast6_new_from_slice_32, s1_at, s2_at, s3_at, s4_at,
    c6Tuple, keySchedule, keyScheduleKappa, kappaOfBytes, pad32_0, pad32_1, pad32_2, pad32_3, pad32_4, pad32_5, pad32_6, pad32_7,
    range12, replKm, replKr, List.foldl, ksStep, forwardOctave, Cast6.km, Cast6.kr,
    Nat.reduceMul, Nat.reduceAdd, Nat.reduceMod, tm_0, tm_8, tm_16, tm_24, tm_32, tm_40, tm_48, tm_56, tm_64, tm_72, tm_80, tm_88, tm_96, tm_104, tm_112, tm_120, tm_128, tm_136, tm_144, tm_152, tm_160, tm_168, tm_176, tm_184, tr_0, tr_8, tr_16, tr_24,
    List.cons_append, List.nil_append, List.set_cons_succ, List.set_cons_zero, List.getD_cons_succ, List.getD_cons_zero, fc1, fc2, fc3, fc4, BitVec.zero_xor]
  simp only [f1, f2, f3, BitVec.reduceToNat]
  -- both sides are now the same term up to the implicit width `8+8+8+8` vs `32` in the instance arguments of the
  -- operators (the key words are byte concatenations); the function forms carry the width as a plain argument
  simp only [← BitVec.xor_eq, ← BitVec.add_eq, ← BitVec.sub_eq, ← BitVec.and_eq, ← BitVec.ushiftRight_eq]
  exact hP _


end BC.GenKeys.Cast6
