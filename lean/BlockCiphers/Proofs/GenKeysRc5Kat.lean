import BlockCiphers.Gen.Keys_Rc5
import BlockCiphers.Impl.Rc5
/-
Concrete-input checks (NOT a tie for all keys) of the regenerated RC5 key expansion (`Gen/Keys_Rc5.lean`: `RC5::new`,
`key_into_words`, `initialize_expanded_key_table`) against the model `BC.Rc5.substituteKey`, `keyIntoWords`, `initTable` of
`Impl/Rc5.lean`: `initialize_expanded_key_table` has no input, so its check IS the tie; for `new` / `key_into_words` two
keys per instance (kernel evaluation of both sides, `decide +kernel`).  The tie of `new` for all keys is open (see the report).
-/
namespace BC.GenKeys.Rc5Kat
open BC BC.Rc5 BC.Gen.Fn
set_option maxRecDepth 1000000

def rc5_32_12_16_tbl (t : BitVec 32 × BitVec 32 × BitVec 32 × BitVec 32 × BitVec 32 × BitVec 32 × BitVec 32 × BitVec 32 × BitVec 32 × BitVec 32 × BitVec 32 × BitVec 32 × BitVec 32 × BitVec 32 × BitVec 32 × BitVec 32 × BitVec 32 × BitVec 32 × BitVec 32 × BitVec 32 × BitVec 32 × BitVec 32 × BitVec 32 × BitVec 32 × BitVec 32 × BitVec 32) : Array (BitVec 32) :=
  match t with
  | (x0, x1, x2, x3, x4, x5, x6, x7, x8, x9, x10, x11, x12, x13, x14, x15, x16, x17, x18, x19, x20, x21, x22, x23, x24, x25) => #[x0, x1, x2, x3, x4, x5, x6, x7, x8, x9, x10, x11, x12, x13, x14, x15, x16, x17, x18, x19, x20, x21, x22, x23, x24, x25]
def rc5_32_12_16_kw (t : BitVec 32 × BitVec 32 × BitVec 32 × BitVec 32) : Array (BitVec 32) :=
  match t with
  | (x0, x1, x2, x3) => #[x0, x1, x2, x3]
/-- `rc5_32_12_16_initialize_expanded_key_table` (regenerated, no input) is the model's `initTable` -/
theorem rc5_32_12_16_initialize_expanded_key_table_eq :
    rc5_32_12_16_tbl rc5_32_12_16_initialize_expanded_key_table = initTable 32 12 := by decide +kernel
theorem rc5_32_12_16_new_0 : rc5_32_12_16_tbl (rc5_32_12_16_new 0x102030405060708090a0b0c0d0e0f#128) = substituteKey 32 12 16 (unpackBE 16 0x102030405060708090a0b0c0d0e0f#128) := by decide +kernel
theorem rc5_32_12_16_substitute_key_0 : rc5_32_12_16_tbl (rc5_32_12_16_substitute_key 0x102030405060708090a0b0c0d0e0f#128) = substituteKey 32 12 16 (unpackBE 16 0x102030405060708090a0b0c0d0e0f#128) := by decide +kernel
theorem rc5_32_12_16_key_into_words_0 : rc5_32_12_16_kw (rc5_32_12_16_key_into_words 0x102030405060708090a0b0c0d0e0f#128) = keyIntoWords 32 16 (unpackBE 16 0x102030405060708090a0b0c0d0e0f#128) := by decide +kernel
theorem rc5_32_12_16_new_1 : rc5_32_12_16_tbl (rc5_32_12_16_new 0xcd2b5157410e4dee4af2b34f430a0734#128) = substituteKey 32 12 16 (unpackBE 16 0xcd2b5157410e4dee4af2b34f430a0734#128) := by decide +kernel
theorem rc5_32_12_16_substitute_key_1 : rc5_32_12_16_tbl (rc5_32_12_16_substitute_key 0xcd2b5157410e4dee4af2b34f430a0734#128) = substituteKey 32 12 16 (unpackBE 16 0xcd2b5157410e4dee4af2b34f430a0734#128) := by decide +kernel
theorem rc5_32_12_16_key_into_words_1 : rc5_32_12_16_kw (rc5_32_12_16_key_into_words 0xcd2b5157410e4dee4af2b34f430a0734#128) = keyIntoWords 32 16 (unpackBE 16 0xcd2b5157410e4dee4af2b34f430a0734#128) := by decide +kernel

def rc5_16_16_8_tbl (t : BitVec 16 × BitVec 16 × BitVec 16 × BitVec 16 × BitVec 16 × BitVec 16 × BitVec 16 × BitVec 16 × BitVec 16 × BitVec 16 × BitVec 16 × BitVec 16 × BitVec 16 × BitVec 16 × BitVec 16 × BitVec 16 × BitVec 16 × BitVec 16 × BitVec 16 × BitVec 16 × BitVec 16 × BitVec 16 × BitVec 16 × BitVec 16 × BitVec 16 × BitVec 16 × BitVec 16 × BitVec 16 × BitVec 16 × BitVec 16 × BitVec 16 × BitVec 16 × BitVec 16 × BitVec 16) : Array (BitVec 16) :=
  match t with
  | (x0, x1, x2, x3, x4, x5, x6, x7, x8, x9, x10, x11, x12, x13, x14, x15, x16, x17, x18, x19, x20, x21, x22, x23, x24, x25, x26, x27, x28, x29, x30, x31, x32, x33) => #[x0, x1, x2, x3, x4, x5, x6, x7, x8, x9, x10, x11, x12, x13, x14, x15, x16, x17, x18, x19, x20, x21, x22, x23, x24, x25, x26, x27, x28, x29, x30, x31, x32, x33]
def rc5_16_16_8_kw (t : BitVec 16 × BitVec 16 × BitVec 16 × BitVec 16) : Array (BitVec 16) :=
  match t with
  | (x0, x1, x2, x3) => #[x0, x1, x2, x3]
/-- `rc5_16_16_8_initialize_expanded_key_table` (regenerated, no input) is the model's `initTable` -/
theorem rc5_16_16_8_initialize_expanded_key_table_eq :
    rc5_16_16_8_tbl rc5_16_16_8_initialize_expanded_key_table = initTable 16 16 := by decide +kernel
theorem rc5_16_16_8_new_0 : rc5_16_16_8_tbl (rc5_16_16_8_new 0x1020304050607#64) = substituteKey 16 16 8 (unpackBE 8 0x1020304050607#64) := by decide +kernel
theorem rc5_16_16_8_substitute_key_0 : rc5_16_16_8_tbl (rc5_16_16_8_substitute_key 0x1020304050607#64) = substituteKey 16 16 8 (unpackBE 8 0x1020304050607#64) := by decide +kernel
theorem rc5_16_16_8_key_into_words_0 : rc5_16_16_8_kw (rc5_16_16_8_key_into_words 0x1020304050607#64) = keyIntoWords 16 8 (unpackBE 8 0x1020304050607#64) := by decide +kernel
theorem rc5_16_16_8_new_1 : rc5_16_16_8_tbl (rc5_16_16_8_new 0x47de636c0e806c95#64) = substituteKey 16 16 8 (unpackBE 8 0x47de636c0e806c95#64) := by decide +kernel
theorem rc5_16_16_8_substitute_key_1 : rc5_16_16_8_tbl (rc5_16_16_8_substitute_key 0x47de636c0e806c95#64) = substituteKey 16 16 8 (unpackBE 8 0x47de636c0e806c95#64) := by decide +kernel
theorem rc5_16_16_8_key_into_words_1 : rc5_16_16_8_kw (rc5_16_16_8_key_into_words 0x47de636c0e806c95#64) = keyIntoWords 16 8 (unpackBE 8 0x47de636c0e806c95#64) := by decide +kernel

def rc5_64_24_24_tbl (t : BitVec 64 × BitVec 64 × BitVec 64 × BitVec 64 × BitVec 64 × BitVec 64 × BitVec 64 × BitVec 64 × BitVec 64 × BitVec 64 × BitVec 64 × BitVec 64 × BitVec 64 × BitVec 64 × BitVec 64 × BitVec 64 × BitVec 64 × BitVec 64 × BitVec 64 × BitVec 64 × BitVec 64 × BitVec 64 × BitVec 64 × BitVec 64 × BitVec 64 × BitVec 64 × BitVec 64 × BitVec 64 × BitVec 64 × BitVec 64 × BitVec 64 × BitVec 64 × BitVec 64 × BitVec 64 × BitVec 64 × BitVec 64 × BitVec 64 × BitVec 64 × BitVec 64 × BitVec 64 × BitVec 64 × BitVec 64 × BitVec 64 × BitVec 64 × BitVec 64 × BitVec 64 × BitVec 64 × BitVec 64 × BitVec 64 × BitVec 64) : Array (BitVec 64) :=
  match t with
  | (x0, x1, x2, x3, x4, x5, x6, x7, x8, x9, x10, x11, x12, x13, x14, x15, x16, x17, x18, x19, x20, x21, x22, x23, x24, x25, x26, x27, x28, x29, x30, x31, x32, x33, x34, x35, x36, x37, x38, x39, x40, x41, x42, x43, x44, x45, x46, x47, x48, x49) => #[x0, x1, x2, x3, x4, x5, x6, x7, x8, x9, x10, x11, x12, x13, x14, x15, x16, x17, x18, x19, x20, x21, x22, x23, x24, x25, x26, x27, x28, x29, x30, x31, x32, x33, x34, x35, x36, x37, x38, x39, x40, x41, x42, x43, x44, x45, x46, x47, x48, x49]
def rc5_64_24_24_kw (t : BitVec 64 × BitVec 64 × BitVec 64) : Array (BitVec 64) :=
  match t with
  | (x0, x1, x2) => #[x0, x1, x2]
/-- `rc5_64_24_24_initialize_expanded_key_table` (regenerated, no input) is the model's `initTable` -/
theorem rc5_64_24_24_initialize_expanded_key_table_eq :
    rc5_64_24_24_tbl rc5_64_24_24_initialize_expanded_key_table = initTable 64 24 := by decide +kernel
theorem rc5_64_24_24_new_0 : rc5_64_24_24_tbl (rc5_64_24_24_new 0x102030405060708090a0b0c0d0e0f1011121314151617#192) = substituteKey 64 24 24 (unpackBE 24 0x102030405060708090a0b0c0d0e0f1011121314151617#192) := by decide +kernel
theorem rc5_64_24_24_substitute_key_0 : rc5_64_24_24_tbl (rc5_64_24_24_substitute_key 0x102030405060708090a0b0c0d0e0f1011121314151617#192) = substituteKey 64 24 24 (unpackBE 24 0x102030405060708090a0b0c0d0e0f1011121314151617#192) := by decide +kernel
theorem rc5_64_24_24_key_into_words_0 : rc5_64_24_24_kw (rc5_64_24_24_key_into_words 0x102030405060708090a0b0c0d0e0f1011121314151617#192) = keyIntoWords 64 24 (unpackBE 24 0x102030405060708090a0b0c0d0e0f1011121314151617#192) := by decide +kernel
theorem rc5_64_24_24_new_1 : rc5_64_24_24_tbl (rc5_64_24_24_new 0x7ba684d6431fb5ead7424d09e15d024c5848f23d1fa6f736#192) = substituteKey 64 24 24 (unpackBE 24 0x7ba684d6431fb5ead7424d09e15d024c5848f23d1fa6f736#192) := by decide +kernel
theorem rc5_64_24_24_substitute_key_1 : rc5_64_24_24_tbl (rc5_64_24_24_substitute_key 0x7ba684d6431fb5ead7424d09e15d024c5848f23d1fa6f736#192) = substituteKey 64 24 24 (unpackBE 24 0x7ba684d6431fb5ead7424d09e15d024c5848f23d1fa6f736#192) := by decide +kernel
theorem rc5_64_24_24_key_into_words_1 : rc5_64_24_24_kw (rc5_64_24_24_key_into_words 0x7ba684d6431fb5ead7424d09e15d024c5848f23d1fa6f736#192) = keyIntoWords 64 24 (unpackBE 24 0x7ba684d6431fb5ead7424d09e15d024c5848f23d1fa6f736#192) := by decide +kernel

def rc5_8_12_4_tbl (t : BitVec 8 × BitVec 8 × BitVec 8 × BitVec 8 × BitVec 8 × BitVec 8 × BitVec 8 × BitVec 8 × BitVec 8 × BitVec 8 × BitVec 8 × BitVec 8 × BitVec 8 × BitVec 8 × BitVec 8 × BitVec 8 × BitVec 8 × BitVec 8 × BitVec 8 × BitVec 8 × BitVec 8 × BitVec 8 × BitVec 8 × BitVec 8 × BitVec 8 × BitVec 8) : Array (BitVec 8) :=
  match t with
  | (x0, x1, x2, x3, x4, x5, x6, x7, x8, x9, x10, x11, x12, x13, x14, x15, x16, x17, x18, x19, x20, x21, x22, x23, x24, x25) => #[x0, x1, x2, x3, x4, x5, x6, x7, x8, x9, x10, x11, x12, x13, x14, x15, x16, x17, x18, x19, x20, x21, x22, x23, x24, x25]
def rc5_8_12_4_kw (t : BitVec 8 × BitVec 8 × BitVec 8 × BitVec 8) : Array (BitVec 8) :=
  match t with
  | (x0, x1, x2, x3) => #[x0, x1, x2, x3]
/-- `rc5_8_12_4_initialize_expanded_key_table` (regenerated, no input) is the model's `initTable` -/
theorem rc5_8_12_4_initialize_expanded_key_table_eq :
    rc5_8_12_4_tbl rc5_8_12_4_initialize_expanded_key_table = initTable 8 12 := by decide +kernel
theorem rc5_8_12_4_new_0 : rc5_8_12_4_tbl (rc5_8_12_4_new 0x10203#32) = substituteKey 8 12 4 (unpackBE 4 0x10203#32) := by decide +kernel
theorem rc5_8_12_4_substitute_key_0 : rc5_8_12_4_tbl (rc5_8_12_4_substitute_key 0x10203#32) = substituteKey 8 12 4 (unpackBE 4 0x10203#32) := by decide +kernel
theorem rc5_8_12_4_key_into_words_0 : rc5_8_12_4_kw (rc5_8_12_4_key_into_words 0x10203#32) = keyIntoWords 8 4 (unpackBE 4 0x10203#32) := by decide +kernel
theorem rc5_8_12_4_new_1 : rc5_8_12_4_tbl (rc5_8_12_4_new 0x1d7f618d#32) = substituteKey 8 12 4 (unpackBE 4 0x1d7f618d#32) := by decide +kernel
theorem rc5_8_12_4_substitute_key_1 : rc5_8_12_4_tbl (rc5_8_12_4_substitute_key 0x1d7f618d#32) = substituteKey 8 12 4 (unpackBE 4 0x1d7f618d#32) := by decide +kernel
theorem rc5_8_12_4_key_into_words_1 : rc5_8_12_4_kw (rc5_8_12_4_key_into_words 0x1d7f618d#32) = keyIntoWords 8 4 (unpackBE 4 0x1d7f618d#32) := by decide +kernel

end BC.GenKeys.Rc5Kat
