import BlockCiphers.Gen.Cipher_Xtea
import BlockCiphers.Impl.Xtea
import Std.Tactic.BVDecide
/-!
Tie theorems: the regenerated `Xtea::encrypt_block` / `decrypt_block` (`BC.Gen.Fn.xtea_*`, produced by the
translator from the current Rust text) ARE the hand-written model functions `BC.Xtea.encrypt` / `decrypt`,
for all key words and all blocks.
-/
set_option maxRecDepth 100000
namespace BC.GenCipher.Xtea
open BC BC.Xtea BC.Gen.Fn

theorem encrypt_block_eq (k : Key) (b : BitVec 64) :
    xtea_encrypt_block k.k0 k.k1 k.k2 k.k3 b = encrypt k b := by
  simp only [xtea_encrypt_block, encrypt, encWords, store, load, iter, encCycle, Key.get, mixf, DELTA, bswap32]
  bv_decide (config := { timeout := 300 })

theorem decrypt_block_eq (k : Key) (b : BitVec 64) :
    xtea_decrypt_block k.k0 k.k1 k.k2 k.k3 b = decrypt k b := by
  simp only [xtea_decrypt_block, decrypt, decWords, store, load, iter, decCycle, Key.get, mixf, DELTA, ROUNDS,
    bswap32]
  bv_decide (config := { timeout := 300 })

/-- the same with the four key words as explicit arguments -/
theorem encrypt_block_eq' (k0 k1 k2 k3 : BitVec 32) (b : BitVec 64) :
    xtea_encrypt_block k0 k1 k2 k3 b = encrypt ⟨k0, k1, k2, k3⟩ b := encrypt_block_eq ⟨k0, k1, k2, k3⟩ b

theorem decrypt_block_eq' (k0 k1 k2 k3 : BitVec 32) (b : BitVec 64) :
    xtea_decrypt_block k0 k1 k2 k3 b = decrypt ⟨k0, k1, k2, k3⟩ b := decrypt_block_eq ⟨k0, k1, k2, k3⟩ b

end BC.GenCipher.Xtea
