import BlockCiphers.Prelude.Bytes
/-
Twofish in the terms of the Twofish paper (Schneier, Kelsey, Whiting, Wagner, Hall, Ferguson:
"Twofish: A 128-Bit Block Cipher", 1998), section 4:

 4.1  whitening, 16 rounds with the word swap, C_i = R_{16,(i+2) mod 4} ⊕ K_{i+4}
 4.2  F:  T0 = g(R0), T1 = g(ROL(R1,8)), F0 = T0 + T1 + K_{2r+8}, F1 = T0 + 2 T1 + K_{2r+9}
 4.3  g = h(X, S); MDS matrix over GF(2^8) ≅ GF(2)[x]/(x^8+x^6+x^5+x^3+1)
 4.4  key schedule: M_i, Me, Mo, RS matrix over GF(2)[x]/(x^8+x^6+x^3+x^2+1), S = (S_{k-1},…,S_0),
      h (k = 2,3,4), K_{2i} = A_i + B_i, K_{2i+1} = ROL(A_i + 2 B_i, 9), ρ = 2^24+2^16+2^8+1
 4.4.4 q0, q1 from the 4-bit permutations t0..t3 (ROR4, 8a mod 16)

Nothing here refers to the Rust code or to `Impl/Twofish.lean`.
-/
namespace BC.Spec.Twofish

/-! ### GF(2^8) -/

/-- carry-less product of two polynomials of degree < 8 -/
def clmul (a b : BitVec 8) : BitVec 16 :=
  (List.range 8).foldl (fun acc i => if b.getLsbD i = true then acc ^^^ (a.setWidth 16 <<< i) else acc) 0#16

/-- remainder of a polynomial of degree < 16 modulo `poly` (degree 8; bit 8 set) -/
def polyMod (poly : BitVec 16) (c : BitVec 16) : BitVec 8 :=
  ([14, 13, 12, 11, 10, 9, 8].foldl (fun c i => if c.getLsbD i = true then c ^^^ (poly <<< (i - 8)) else c) c).setWidth 8

/-- multiplication in GF(2)[x]/(poly) -/
def gfMul (poly : BitVec 16) (a b : BitVec 8) : BitVec 8 := polyMod poly (clmul a b)

/-- v(x) = x^8 + x^6 + x^5 + x^3 + 1 (MDS field) -/
def vPoly : BitVec 16 := 0x169#16
/-- w(x) = x^8 + x^6 + x^3 + x^2 + 1 (RS field) -/
def wPoly : BitVec 16 := 0x14d#16

/-- matrix × column vector over GF(2)[x]/(poly) -/
def matVec (poly : BitVec 16) (M : List (List (BitVec 8))) (v : List (BitVec 8)) : List (BitVec 8) :=
  M.map (fun row => (List.zipWith (gfMul poly) row v).foldl (· ^^^ ·) 0#8)

def MDS : List (List (BitVec 8)) := [
  [0x01, 0xEF, 0x5B, 0x5B],
  [0x5B, 0xEF, 0xEF, 0x01],
  [0xEF, 0x5B, 0x01, 0xEF],
  [0xEF, 0x01, 0xEF, 0x5B]]

def RS : List (List (BitVec 8)) := [
  [0x01, 0xA4, 0x55, 0x87, 0x5A, 0x58, 0xDB, 0x9E],
  [0xA4, 0x56, 0x82, 0xF3, 0x1E, 0xC6, 0x68, 0xE5],
  [0x02, 0xA1, 0xFC, 0xC1, 0x47, 0xAE, 0x3D, 0x19],
  [0xA4, 0x55, 0x87, 0x5A, 0x58, 0xDB, 0x9E, 0x03]]

/-! ### words and bytes (little-endian convention of section 4) -/

/-- `X = Σ x_j 2^{8j}` -/
def word (x0 x1 x2 x3 : BitVec 8) : BitVec 32 :=
  x0.setWidth 32 + x1.setWidth 32 * 0x100#32 + x2.setWidth 32 * 0x10000#32 + x3.setWidth 32 * 0x1000000#32

def wordOfList (l : List (BitVec 8)) : BitVec 32 :=
  word (l.getD 0 0#8) (l.getD 1 0#8) (l.getD 2 0#8) (l.getD 3 0#8)

/-- `x_j = ⌊X / 2^{8j}⌋ mod 2^8` -/
def byte (X : BitVec 32) (j : Nat) : BitVec 8 := (X / BitVec.ofNat 32 (2 ^ (8 * j))).setWidth 8

/-! ### the permutations q0, q1 (section 4.4.4) -/

def t_q0 : List (List (BitVec 4)) := [
  [0x8, 0x1, 0x7, 0xD, 0x6, 0xF, 0x3, 0x2, 0x0, 0xB, 0x5, 0x9, 0xE, 0xC, 0xA, 0x4],
  [0xE, 0xC, 0xB, 0x8, 0x1, 0x2, 0x3, 0x5, 0xF, 0x4, 0xA, 0x6, 0x7, 0x0, 0x9, 0xD],
  [0xB, 0xA, 0x5, 0xE, 0x6, 0xD, 0x9, 0x0, 0xC, 0x8, 0xF, 0x3, 0x2, 0x4, 0x7, 0x1],
  [0xD, 0x7, 0xF, 0x4, 0x1, 0x2, 0x6, 0xE, 0x9, 0xB, 0x3, 0x0, 0x8, 0x5, 0xC, 0xA]]

def t_q1 : List (List (BitVec 4)) := [
  [0x2, 0x8, 0xB, 0xD, 0xF, 0x7, 0x6, 0xE, 0x3, 0x1, 0x9, 0x4, 0x0, 0xA, 0xC, 0x5],
  [0x1, 0xE, 0x2, 0xB, 0x4, 0xC, 0x3, 0x7, 0x6, 0xD, 0xA, 0x5, 0xF, 0x9, 0x0, 0x8],
  [0x4, 0xC, 0x7, 0x5, 0x1, 0x6, 0x9, 0xA, 0x0, 0xE, 0xD, 0x8, 0x2, 0xB, 0x3, 0xF],
  [0xB, 0x9, 0x5, 0x1, 0xC, 0x3, 0xD, 0xE, 0x6, 0x4, 0x7, 0xF, 0x2, 0x0, 0x8, 0xA]]

def tab (t : List (List (BitVec 4))) (i : Nat) (a : BitVec 4) : BitVec 4 := (t.getD i []).getD a.toNat 0#4

/-- the construction of q from t0..t3 -/
def qOf (t : List (List (BitVec 4))) (x : BitVec 8) : BitVec 8 :=
  let a0 : BitVec 4 := (x >>> 4).setWidth 4      -- ⌊x/16⌋
  let b0 : BitVec 4 := x.setWidth 4              -- x mod 16
  let a1 := a0 ^^^ b0
  let b1 := a0 ^^^ b0.rotateRight 1 ^^^ (8#4 * a0)   -- a0 ⊕ ROR4(b0,1) ⊕ 8 a0 mod 16
  let a2 := tab t 0 a1
  let b2 := tab t 1 b1
  let a3 := a2 ^^^ b2
  let b3 := a2 ^^^ b2.rotateRight 1 ^^^ (8#4 * a2)
  let a4 := tab t 2 a3
  let b4 := tab t 3 b3
  b4 ++ a4                                        -- 16 b4 + a4

def q0 : BitVec 8 → BitVec 8 := qOf t_q0
def q1 : BitVec 8 → BitVec 8 := qOf t_q1

/-! ### h, g (sections 4.3, 4.4.1, 4.4.2) -/

/-- `Z = Σ z_i 2^{8i}`, `z = MDS · y` -/
def mds (y0 y1 y2 y3 : BitVec 8) : BitVec 32 := wordOfList (matVec vPoly MDS [y0, y1, y2, y3])

/-- `h(X, L)` with `L = (L_0, …, L_{k-1})`, `k = L.length ∈ {2,3,4}` -/
def h (X : BitVec 32) (L : List (BitVec 32)) : BitVec 32 :=
  let k := L.length
  let l := fun (i j : Nat) => byte (L.getD i 0#32) j
  let y0 := byte X 0
  let y1 := byte X 1
  let y2 := byte X 2
  let y3 := byte X 3
  -- k = 4
  let y0 := if k = 4 then q1 y0 ^^^ l 3 0 else y0
  let y1 := if k = 4 then q0 y1 ^^^ l 3 1 else y1
  let y2 := if k = 4 then q0 y2 ^^^ l 3 2 else y2
  let y3 := if k = 4 then q1 y3 ^^^ l 3 3 else y3
  -- k ≥ 3
  let y0 := if k ≥ 3 then q1 y0 ^^^ l 2 0 else y0
  let y1 := if k ≥ 3 then q1 y1 ^^^ l 2 1 else y1
  let y2 := if k ≥ 3 then q0 y2 ^^^ l 2 2 else y2
  let y3 := if k ≥ 3 then q0 y3 ^^^ l 2 3 else y3
  -- all cases
  let y0 := q1 (q0 (q0 y0 ^^^ l 1 0) ^^^ l 0 0)
  let y1 := q0 (q0 (q1 y1 ^^^ l 1 1) ^^^ l 0 1)
  let y2 := q1 (q1 (q0 y2 ^^^ l 1 2) ^^^ l 0 2)
  let y3 := q0 (q1 (q1 y3 ^^^ l 1 3) ^^^ l 0 3)
  mds y0 y1 y2 y3

/-! ### key schedule (section 4.4); the key is `m_0 … m_{8k-1}` -/

/-- `m_i` -/
def mByte (m : Array (BitVec 8)) (i : Nat) : BitVec 8 := m.getD i 0#8

/-- `M_i = Σ_j m_{4i+j} 2^{8j}` -/
def Mword (m : Array (BitVec 8)) (i : Nat) : BitVec 32 :=
  word (mByte m (4 * i)) (mByte m (4 * i + 1)) (mByte m (4 * i + 2)) (mByte m (4 * i + 3))

/-- `Me = (M_0, M_2, …, M_{2k-2})` -/
def Me (m : Array (BitVec 8)) (k : Nat) : List (BitVec 32) := (List.range k).map (fun i => Mword m (2 * i))
/-- `Mo = (M_1, M_3, …, M_{2k-1})` -/
def Mo (m : Array (BitVec 8)) (k : Nat) : List (BitVec 32) := (List.range k).map (fun i => Mword m (2 * i + 1))

/-- `S_i = Σ_j s_{i,j} 2^{8j}` with `(s_{i,j})_j = RS · (m_{8i}, …, m_{8i+7})` -/
def Sword (m : Array (BitVec 8)) (i : Nat) : BitVec 32 :=
  wordOfList (matVec wPoly RS ((List.range 8).map (fun j => mByte m (8 * i + j))))

/-- `S = (S_{k-1}, S_{k-2}, …, S_0)` -/
def Svec (m : Array (BitVec 8)) (k : Nat) : List (BitVec 32) := ((List.range k).map (Sword m)).reverse

/-- `g(X) = h(X, S)` -/
def g (m : Array (BitVec 8)) (k : Nat) (X : BitVec 32) : BitVec 32 := h X (Svec m k)

def rho : BitVec 32 := BitVec.ofNat 32 (2 ^ 24 + 2 ^ 16 + 2 ^ 8 + 1)

def A (m : Array (BitVec 8)) (k i : Nat) : BitVec 32 := h (BitVec.ofNat 32 (2 * i) * rho) (Me m k)
def B (m : Array (BitVec 8)) (k i : Nat) : BitVec 32 := (h (BitVec.ofNat 32 (2 * i + 1) * rho) (Mo m k)).rotateLeft 8

/-- the expanded key words `K_j`, `j = 0 … 39` -/
def K (m : Array (BitVec 8)) (k : Nat) (j : Nat) : BitVec 32 :=
  let i := j / 2
  if j % 2 = 0 then A m k i + B m k i
  else (A m k i + 2#32 * B m k i).rotateLeft 9

/-! ### the cipher (sections 4.1, 4.2) -/

structure R where
  r0 : BitVec 32
  r1 : BitVec 32
  r2 : BitVec 32
  r3 : BitVec 32

/-- one round `r` (with the swap) for a given `g` and expanded key `K` -/
def round (g : BitVec 32 → BitVec 32) (K : Nat → BitVec 32) (s : R) (r : Nat) : R :=
  let T0 := g s.r0
  let T1 := g (s.r1.rotateLeft 8)
  let F0 := T0 + T1 + K (2 * r + 8)
  let F1 := T0 + 2#32 * T1 + K (2 * r + 9)
  { r0 := (s.r2 ^^^ F0).rotateRight 1, r1 := s.r3.rotateLeft 1 ^^^ F1, r2 := s.r0, r3 := s.r1 }

/-- `P_i = Σ_j p_{4i+j} 2^{8j}` for a block given as `p_0 … p_15` (byte 0 most significant in the `BitVec 128`) -/
def pWord (p : BitVec 128) (i : Nat) : BitVec 32 :=
  word (byteAt p 16 (4 * i)) (byteAt p 16 (4 * i + 1)) (byteAt p 16 (4 * i + 2)) (byteAt p 16 (4 * i + 3))

/-- the block `c_0 … c_15` with `c_i = ⌊C_{⌊i/4⌋} / 2^{8 (i mod 4)}⌋ mod 2^8` -/
def cBlock (C0 C1 C2 C3 : BitVec 32) : BitVec 128 :=
  byte C0 0 ++ byte C0 1 ++ byte C0 2 ++ byte C0 3 ++ byte C1 0 ++ byte C1 1 ++ byte C1 2 ++ byte C1 3 ++
  byte C2 0 ++ byte C2 1 ++ byte C2 2 ++ byte C2 3 ++ byte C3 0 ++ byte C3 1 ++ byte C3 2 ++ byte C3 3

def encryptWith (g : BitVec 32 → BitVec 32) (K : Nat → BitVec 32) (p : BitVec 128) : BitVec 128 :=
  let s : R := { r0 := pWord p 0 ^^^ K 0, r1 := pWord p 1 ^^^ K 1, r2 := pWord p 2 ^^^ K 2, r3 := pWord p 3 ^^^ K 3 }
  let s := (List.range 16).foldl (round g K) s
  -- C_i = R_{16,(i+2) mod 4} ⊕ K_{i+4}
  cBlock (s.r2 ^^^ K 4) (s.r3 ^^^ K 5) (s.r0 ^^^ K 6) (s.r1 ^^^ K 7)

/-- Twofish encryption with key `m` of `N = 64 k` bits, `k = m.size / 8` -/
def encrypt (m : Array (BitVec 8)) (p : BitVec 128) : BitVec 128 :=
  let k := m.size / 8
  encryptWith (g m k) (K m k) p

end BC.Spec.Twofish
