import BlockCiphers.Prelude.Bytes
/-
FIPS-197 (AES) written in the standard's own terms.  Nothing here is copied from /repo.

State convention: the 16-byte input block `in[0..15]` is a `BitVec 128` whose most significant byte
is `in[0]`; FIPS-197 §3.4 places `in[r + 4c]` at row `r`, column `c`, so byte index `i` of the block
is row `i % 4`, column `i / 4`.

The S-box is *computed* (multiplicative inverse in GF(2^8) mod x^8+x^4+x^3+x+1, then the affine
map), not tabulated; `sboxTable` is only a cache for execution, proved equal in `Proofs/AesSpec`.
-/
namespace BC.Spec.Aes

/-- multiplication by x in GF(2^8) modulo 0x11B (FIPS-197 §4.2.1 `xtime`) -/
def xtime (a : BitVec 8) : BitVec 8 :=
  (a <<< 1) ^^^ (if a.getLsbD 7 then 0x1B#8 else 0#8)

/-- GF(2^8) multiplication (shift-and-add over the 8 bits of `b`) -/
def gmul (a b : BitVec 8) : BitVec 8 :=
  let step (acc_p : BitVec 8 × BitVec 8) (i : Nat) : BitVec 8 × BitVec 8 :=
    let (acc, p) := acc_p
    ((if b.getLsbD i then acc ^^^ p else acc), xtime p)
  ((List.range 8).foldl step (0#8, a)).1

/-- `a^254`, the multiplicative inverse for `a ≠ 0` and `0` for `a = 0` (FIPS-197 §5.1.1) -/
def ginv (a : BitVec 8) : BitVec 8 :=
  let a2 := gmul a a
  let a4 := gmul a2 a2
  let a8 := gmul a4 a4
  let a16 := gmul a8 a8
  let a32 := gmul a16 a16
  let a64 := gmul a32 a32
  let a128 := gmul a64 a64
  gmul a128 (gmul a64 (gmul a32 (gmul a16 (gmul a8 (gmul a4 a2)))))

/-- the affine transformation of §5.1.1: b'_i = b_i ⊕ b_{i+4} ⊕ b_{i+5} ⊕ b_{i+6} ⊕ b_{i+7} ⊕ c_i, c = 0x63 -/
def affine (b : BitVec 8) : BitVec 8 :=
  b ^^^ b.rotateLeft 1 ^^^ b.rotateLeft 2 ^^^ b.rotateLeft 3 ^^^ b.rotateLeft 4 ^^^ 0x63#8

def sbox (a : BitVec 8) : BitVec 8 := affine (ginv a)

/-- inverse affine map: b'_i = b_{i+2} ⊕ b_{i+5} ⊕ b_{i+7} ⊕ d_i, d = 0x05 -/
def invAffine (b : BitVec 8) : BitVec 8 :=
  b.rotateLeft 1 ^^^ b.rotateLeft 3 ^^^ b.rotateLeft 6 ^^^ 0x05#8

def invSbox (a : BitVec 8) : BitVec 8 := ginv (invAffine a)

def sboxTable : Array (BitVec 8) := Array.ofFn (n := 256) (fun i => sbox (BitVec.ofNat 8 i.val))
def invSboxTable : Array (BitVec 8) := Array.ofFn (n := 256) (fun i => invSbox (BitVec.ofNat 8 i.val))

def sboxT (a : BitVec 8) : BitVec 8 := sboxTable.getD a.toNat 0#8
def invSboxT (a : BitVec 8) : BitVec 8 := invSboxTable.getD a.toNat 0#8

/-- byte `i` (0..15) of a state -/
def getB (s : BitVec 128) (i : Nat) : BitVec 8 := (s >>> (8 * (15 - i))).setWidth 8

/-- build a state from a byte function -/
def ofFn (f : Nat → BitVec 8) : BitVec 128 :=
  (List.range 16).foldl (fun acc i => (acc <<< 8) ||| (f i).setWidth 128) 0#128

def subBytes (s : BitVec 128) : BitVec 128 := ofFn (fun i => sboxT (getB s i))
def invSubBytes (s : BitVec 128) : BitVec 128 := ofFn (fun i => invSboxT (getB s i))

/-- §5.1.2: row r is rotated left by r: s'[r,c] = s[r,(c+r) mod 4] -/
def shiftRows (s : BitVec 128) : BitVec 128 :=
  ofFn (fun i => let r := i % 4; let c := i / 4; getB s (r + 4 * ((c + r) % 4)))

def invShiftRows (s : BitVec 128) : BitVec 128 :=
  ofFn (fun i => let r := i % 4; let c := i / 4; getB s (r + 4 * ((c + 4 - r) % 4)))

/-- §5.1.3: each column multiplied by {03}x^3+{01}x^2+{01}x+{02} -/
def mixColumns (s : BitVec 128) : BitVec 128 :=
  ofFn (fun i =>
    let r := i % 4; let c := i / 4
    let a (k : Nat) := getB s ((r + k) % 4 + 4 * c)
    gmul 0x02#8 (a 0) ^^^ gmul 0x03#8 (a 1) ^^^ a 2 ^^^ a 3)

/-- §5.3.3: {0b}x^3+{0d}x^2+{09}x+{0e} -/
def invMixColumns (s : BitVec 128) : BitVec 128 :=
  ofFn (fun i =>
    let r := i % 4; let c := i / 4
    let a (k : Nat) := getB s ((r + k) % 4 + 4 * c)
    gmul 0x0e#8 (a 0) ^^^ gmul 0x0b#8 (a 1) ^^^ gmul 0x0d#8 (a 2) ^^^ gmul 0x09#8 (a 3))

def addRoundKey (s k : BitVec 128) : BitVec 128 := s ^^^ k

/-! ### Key expansion (§5.2).  Words are big-endian: w = [a0,a1,a2,a3] has a0 in the top byte. -/

def subWord (w : BitVec 32) : BitVec 32 :=
  sboxT (w.extractLsb' 24 8) ++ sboxT (w.extractLsb' 16 8) ++ sboxT (w.extractLsb' 8 8) ++ sboxT (w.extractLsb' 0 8)

def rotWord (w : BitVec 32) : BitVec 32 := w.rotateLeft 8

/-- Rcon[i] = [x^{i-1},0,0,0], i ≥ 1 -/
def rcon (i : Nat) : BitVec 32 :=
  ((BC.iter xtime (i - 1) 0x01#8).setWidth 32) <<< 24

/-- expanded key as a list of `4*(Nr+1)` words, built left to right; `key` holds `Nk` words -/
def keyExpansion (nk nr : Nat) (key : List (BitVec 32)) : Array (BitVec 32) :=
  (List.range (4 * (nr + 1) - nk)).foldl (fun (w : Array (BitVec 32)) j =>
    let i := j + nk
    let temp := w.getD (i - 1) 0
    let temp :=
      if i % nk = 0 then subWord (rotWord temp) ^^^ rcon (i / nk)
      else if nk > 6 ∧ i % nk = 4 then subWord temp
      else temp
    w.push (w.getD (i - nk) 0 ^^^ temp)) key.toArray

/-- round key `r` = words 4r..4r+3 -/
def roundKey (w : Array (BitVec 32)) (r : Nat) : BitVec 128 :=
  w.getD (4 * r) 0 ++ w.getD (4 * r + 1) 0 ++ w.getD (4 * r + 2) 0 ++ w.getD (4 * r + 3) 0

/-- §5.1 Cipher -/
def cipher (nr : Nat) (w : Array (BitVec 32)) (inp : BitVec 128) : BitVec 128 :=
  let s := addRoundKey inp (roundKey w 0)
  let s := (List.range (nr - 1)).foldl (fun s r =>
    addRoundKey (mixColumns (shiftRows (subBytes s))) (roundKey w (r + 1))) s
  addRoundKey (shiftRows (subBytes s)) (roundKey w nr)

/-- §5.3 InvCipher -/
def invCipher (nr : Nat) (w : Array (BitVec 32)) (inp : BitVec 128) : BitVec 128 :=
  let s := addRoundKey inp (roundKey w nr)
  let s := (List.range (nr - 1)).foldl (fun s r =>
    invMixColumns (addRoundKey (invSubBytes (invShiftRows s)) (roundKey w (nr - 1 - r)))) s
  addRoundKey (invSubBytes (invShiftRows s)) (roundKey w 0)

/-- key bytes (16/24/32) to `Nk` big-endian words -/
def keyWords (key : Bytes) : List (BitVec 32) := wordsBE 32 key

def nrOf (nk : Nat) : Nat := nk + 6

def encrypt (key : Bytes) (b : BitVec 128) : BitVec 128 :=
  let nk := key.length / 4
  cipher (nrOf nk) (keyExpansion nk (nrOf nk) (keyWords key)) b

def decrypt (key : Bytes) (b : BitVec 128) : BitVec 128 :=
  let nk := key.length / 4
  invCipher (nrOf nk) (keyExpansion nk (nrOf nk) (keyWords key)) b

end BC.Spec.Aes
