import BlockCiphers.Prelude.Bytes
/-
SM4 in the terms of GB/T 32907-2016 (= GM/T 0002-2012): 32-bit words, big-endian; the non-linear
transformation τ (four parallel S-boxes), the linear transformations L and L′, the composite T and T′,
the round function F, 32 rounds with the reverse transformation R, the key expansion with the system
parameter FK and the fixed parameter CK (`ck_{i,j} = (4i + j) · 7 mod 256`); decryption = the same
algorithm with the round keys in reverse order.

The S-box has no generating formula in the standard: `Sbox` is a frozen table (§6.2 of GB/T 32907),
checked (i) by the standard's example evaluated in the kernel (Proofs/Sm4Spec.lean), (ii) by the algebraic
description of Liu et al. ("Analysis of the SMS4 block cipher", ACISP 2007):
`S(x) = A·(A·x + C)⁻¹ + C` over GF(2⁸) mod x⁸+x⁷+x⁶+x⁵+x⁴+x²+1 (`Sbox_algebraic`).
-/
namespace BC.Spec.Sm4

/-- the S-box table of the standard (row = high nibble, column = low nibble) -/
def Sbox : Array (BitVec 8) := #[
  0xd6#8, 0x90#8, 0xe9#8, 0xfe#8, 0xcc#8, 0xe1#8, 0x3d#8, 0xb7#8, 0x16#8, 0xb6#8, 0x14#8, 0xc2#8, 0x28#8, 0xfb#8, 0x2c#8, 0x05#8,
  0x2b#8, 0x67#8, 0x9a#8, 0x76#8, 0x2a#8, 0xbe#8, 0x04#8, 0xc3#8, 0xaa#8, 0x44#8, 0x13#8, 0x26#8, 0x49#8, 0x86#8, 0x06#8, 0x99#8,
  0x9c#8, 0x42#8, 0x50#8, 0xf4#8, 0x91#8, 0xef#8, 0x98#8, 0x7a#8, 0x33#8, 0x54#8, 0x0b#8, 0x43#8, 0xed#8, 0xcf#8, 0xac#8, 0x62#8,
  0xe4#8, 0xb3#8, 0x1c#8, 0xa9#8, 0xc9#8, 0x08#8, 0xe8#8, 0x95#8, 0x80#8, 0xdf#8, 0x94#8, 0xfa#8, 0x75#8, 0x8f#8, 0x3f#8, 0xa6#8,
  0x47#8, 0x07#8, 0xa7#8, 0xfc#8, 0xf3#8, 0x73#8, 0x17#8, 0xba#8, 0x83#8, 0x59#8, 0x3c#8, 0x19#8, 0xe6#8, 0x85#8, 0x4f#8, 0xa8#8,
  0x68#8, 0x6b#8, 0x81#8, 0xb2#8, 0x71#8, 0x64#8, 0xda#8, 0x8b#8, 0xf8#8, 0xeb#8, 0x0f#8, 0x4b#8, 0x70#8, 0x56#8, 0x9d#8, 0x35#8,
  0x1e#8, 0x24#8, 0x0e#8, 0x5e#8, 0x63#8, 0x58#8, 0xd1#8, 0xa2#8, 0x25#8, 0x22#8, 0x7c#8, 0x3b#8, 0x01#8, 0x21#8, 0x78#8, 0x87#8,
  0xd4#8, 0x00#8, 0x46#8, 0x57#8, 0x9f#8, 0xd3#8, 0x27#8, 0x52#8, 0x4c#8, 0x36#8, 0x02#8, 0xe7#8, 0xa0#8, 0xc4#8, 0xc8#8, 0x9e#8,
  0xea#8, 0xbf#8, 0x8a#8, 0xd2#8, 0x40#8, 0xc7#8, 0x38#8, 0xb5#8, 0xa3#8, 0xf7#8, 0xf2#8, 0xce#8, 0xf9#8, 0x61#8, 0x15#8, 0xa1#8,
  0xe0#8, 0xae#8, 0x5d#8, 0xa4#8, 0x9b#8, 0x34#8, 0x1a#8, 0x55#8, 0xad#8, 0x93#8, 0x32#8, 0x30#8, 0xf5#8, 0x8c#8, 0xb1#8, 0xe3#8,
  0x1d#8, 0xf6#8, 0xe2#8, 0x2e#8, 0x82#8, 0x66#8, 0xca#8, 0x60#8, 0xc0#8, 0x29#8, 0x23#8, 0xab#8, 0x0d#8, 0x53#8, 0x4e#8, 0x6f#8,
  0xd5#8, 0xdb#8, 0x37#8, 0x45#8, 0xde#8, 0xfd#8, 0x8e#8, 0x2f#8, 0x03#8, 0xff#8, 0x6a#8, 0x72#8, 0x6d#8, 0x6c#8, 0x5b#8, 0x51#8,
  0x8d#8, 0x1b#8, 0xaf#8, 0x92#8, 0xbb#8, 0xdd#8, 0xbc#8, 0x7f#8, 0x11#8, 0xd9#8, 0x5c#8, 0x41#8, 0x1f#8, 0x10#8, 0x5a#8, 0xd8#8,
  0x0a#8, 0xc1#8, 0x31#8, 0x88#8, 0xa5#8, 0xcd#8, 0x7b#8, 0xbd#8, 0x2d#8, 0x74#8, 0xd0#8, 0x12#8, 0xb8#8, 0xe5#8, 0xb4#8, 0xb0#8,
  0x89#8, 0x69#8, 0x97#8, 0x4a#8, 0x0c#8, 0x96#8, 0x77#8, 0x7e#8, 0x65#8, 0xb9#8, 0xf1#8, 0x09#8, 0xc5#8, 0x6e#8, 0xc6#8, 0x84#8,
  0x18#8, 0xf0#8, 0x7d#8, 0xec#8, 0x3a#8, 0xdc#8, 0x4d#8, 0x20#8, 0x79#8, 0xee#8, 0x5f#8, 0x3e#8, 0xd7#8, 0xcb#8, 0x39#8, 0x48#8]

def sbox (b : BitVec 8) : BitVec 8 := Sbox.getD b.toNat 0

/-- τ: `A = (a0, a1, a2, a3) ↦ (Sbox(a0), Sbox(a1), Sbox(a2), Sbox(a3))` -/
def τ (A : BitVec 32) : BitVec 32 :=
  sbox (A.extractLsb' 24 8) ++ sbox (A.extractLsb' 16 8) ++ sbox (A.extractLsb' 8 8) ++ sbox (A.extractLsb' 0 8)

/-- L: `C = B ⊕ (B <<< 2) ⊕ (B <<< 10) ⊕ (B <<< 18) ⊕ (B <<< 24)` -/
def L (B : BitVec 32) : BitVec 32 :=
  B ^^^ B.rotateLeft 2 ^^^ B.rotateLeft 10 ^^^ B.rotateLeft 18 ^^^ B.rotateLeft 24

/-- L′: `B ⊕ (B <<< 13) ⊕ (B <<< 23)` -/
def L' (B : BitVec 32) : BitVec 32 := B ^^^ B.rotateLeft 13 ^^^ B.rotateLeft 23

def T (x : BitVec 32) : BitVec 32 := L (τ x)
def T' (x : BitVec 32) : BitVec 32 := L' (τ x)

/-- system parameter FK -/
def FK : Nat → BitVec 32
  | 0 => 0xA3B1BAC6#32 | 1 => 0x56AA3350#32 | 2 => 0x677D9197#32 | _ => 0xB27022DC#32

/-- `ck_{i,j} = (4i + j) × 7 (mod 256)` -/
def ck (i j : Nat) : BitVec 8 := BitVec.ofNat 8 ((4 * i + j) * 7 % 256)

/-- fixed parameter `CK_i = (ck_{i,0}, ck_{i,1}, ck_{i,2}, ck_{i,3})` -/
def CK (i : Nat) : BitVec 32 := ck i 0 ++ ck i 1 ++ ck i 2 ++ ck i 3

/-- four consecutive words `(X_i, X_{i+1}, X_{i+2}, X_{i+3})` of the sequence -/
structure Q where
  w0 : BitVec 32
  w1 : BitVec 32
  w2 : BitVec 32
  w3 : BitVec 32

/-- round function `F(X0, X1, X2, X3, rk) = X0 ⊕ T(X1 ⊕ X2 ⊕ X3 ⊕ rk)` -/
def F (q : Q) (rk : BitVec 32) : BitVec 32 := q.w0 ^^^ T (q.w1 ^^^ q.w2 ^^^ q.w3 ^^^ rk)

/-- `X_{i+4} = F(X_i, X_{i+1}, X_{i+2}, X_{i+3}, rk_i)`: slide the window -/
def round (q : Q) (rk : BitVec 32) : Q := { w0 := q.w1, w1 := q.w2, w2 := q.w3, w3 := F q rk }

def split (X : BitVec 128) : Q :=
  { w0 := X.extractLsb' 96 32, w1 := X.extractLsb' 64 32, w2 := X.extractLsb' 32 32, w3 := X.extractLsb' 0 32 }

/-- reverse transformation `R(A0, A1, A2, A3) = (A3, A2, A1, A0)` -/
def R (q : Q) : BitVec 128 := q.w3 ++ q.w2 ++ q.w1 ++ q.w0

/-- the algorithm for a list of round keys: `(Y0, Y1, Y2, Y3) = R(X32, X33, X34, X35)` -/
def crypt (rks : List (BitVec 32)) (X : BitVec 128) : BitVec 128 := R (rks.foldl round (split X))

/-- key expansion: `K_{i+4} = K_i ⊕ T′(K_{i+1} ⊕ K_{i+2} ⊕ K_{i+3} ⊕ CK_i)` -/
def kround (i : Nat) (q : Q) : Q :=
  { w0 := q.w1, w1 := q.w2, w2 := q.w3, w3 := q.w0 ^^^ T' (q.w1 ^^^ q.w2 ^^^ q.w3 ^^^ CK i) }

/-- `(K_i, K_{i+1}, K_{i+2}, K_{i+3})`; `(K0, K1, K2, K3) = (MK0 ⊕ FK0, …, MK3 ⊕ FK3)` -/
def K (MK : BitVec 128) : Nat → Q
  | 0 =>
    let m := split MK
    { w0 := m.w0 ^^^ FK 0, w1 := m.w1 ^^^ FK 1, w2 := m.w2 ^^^ FK 2, w3 := m.w3 ^^^ FK 3 }
  | i + 1 => kround i (K MK i)

/-- `rk_i = K_{i+4}` -/
def rk (MK : BitVec 128) (i : Nat) : BitVec 32 := (K MK (i + 1)).w3

def roundKeys (MK : BitVec 128) : List (BitVec 32) := (List.range 32).map (rk MK)

/-- encryption -/
def encrypt (MK X : BitVec 128) : BitVec 128 := crypt (roundKeys MK) X

/-- decryption: same structure, round keys in reverse order -/
def decrypt (MK Y : BitVec 128) : BitVec 128 := crypt (roundKeys MK).reverse Y

/-! ### algebraic description of the S-box (cross-check of the frozen table) -/

/-- multiplication in GF(2⁸) modulo `x⁸+x⁷+x⁶+x⁵+x⁴+x²+1` (0x1F5) -/
def gmul (a b : BitVec 8) : BitVec 8 :=
  (List.range 8).foldr (fun i acc =>
    let acc2 := (acc <<< 1) ^^^ (if acc.msb then 0xF5#8 else 0#8)
    if b.getLsbD i then acc2 ^^^ a else acc2) 0#8

/-- `x ↦ x^254` (the inverse, with `0 ↦ 0`) -/
def ginv (x : BitVec 8) : BitVec 8 :=
  let x2 := gmul x x; let x4 := gmul x2 x2; let x8 := gmul x4 x4; let x16 := gmul x8 x8
  let x32 := gmul x16 x16; let x64 := gmul x32 x32; let x128 := gmul x64 x64
  gmul x128 (gmul x64 (gmul x32 (gmul x16 (gmul x8 (gmul x4 x2)))))

def parity8 (x : BitVec 8) : Bool :=
  (List.range 8).foldl (fun p i => p != x.getLsbD i) false

/-- the affine map `x ↦ A·x + C`, `A` the circulant matrix with first row 0xA7, `C = 0xD3` -/
def affine (x : BitVec 8) : BitVec 8 :=
  (BitVec.ofBoolListLE ((List.range 8).map (fun i => parity8 ((0xA7#8).rotateLeft i &&& x)))).setWidth 8 ^^^ 0xD3#8

def sboxAlgebraic (x : BitVec 8) : BitVec 8 := affine (ginv (affine x))

end BC.Spec.Sm4
