import BlockCiphers.Impl.Cast5
/-
CAST-128 encryption / decryption in the terms of RFC 2144 §2.1–2.2, §2.5 (the looped description):

  (L0, R0) = the two halves of the plaintext;  for i = 1..n:  L_i = R_{i-1},  R_i = L_{i-1} ⊕ f(R_{i-1}, Km_i, Kr_i);
  ciphertext = (R_n, L_n);  f is of type 1 in rounds 1,4,7,10,13,16, type 2 in rounds 2,5,8,11,14, type 3 in
  rounds 3,6,9,12,15;  n = 12 for key sizes up to and including 80 bits, n = 16 above;  decryption is the same
  algorithm with the round keys used in reverse order;  keys shorter than 128 bits are padded with zero
  bytes in the rightmost positions.

The S-boxes S1..S4 and the subkeys Km_i = `masking[i-1]`, Kr_i = `rotate[i-1]` (5 bits) are those of the
model; the key schedule of §2.4 is the statement-by-statement text of `schedule.rs` (`Impl.key_schedule`),
checked end to end by the Appendix B.1 vectors (`Proofs/Cast5Kat.lean`).
-/
namespace BC.Cast5.Spec
open BC.Cast5

/-- byte `k` of the 32-bit `I` counted from the most significant: `Ia Ib Ic Id` = 0 1 2 3 -/
def Ibyte (I : BitVec 32) (k : Nat) : Nat := (I.extractLsb' (8 * (3 - k)) 8).toNat

/-- §2.2: the three round function types -/
def f (type : Nat) (d km : BitVec 32) (kr : BitVec 8) : BitVec 32 :=
  let s1 := fun (I : BitVec 32) => Consts.S1[Ibyte I 0]!
  let s2 := fun (I : BitVec 32) => Consts.S2[Ibyte I 1]!
  let s3 := fun (I : BitVec 32) => Consts.S3[Ibyte I 2]!
  let s4 := fun (I : BitVec 32) => Consts.S4[Ibyte I 3]!
  if type = 1 then
    let I := (km + d).rotateLeft kr.toNat
    ((s1 I ^^^ s2 I) - s3 I) + s4 I
  else if type = 2 then
    let I := (km ^^^ d).rotateLeft kr.toNat
    ((s1 I - s2 I) + s3 I) ^^^ s4 I
  else
    let I := (km - d).rotateLeft kr.toNat
    ((s1 I + s2 I) ^^^ s3 I) - s4 I

/-- type of the round function in round `i` (1-based): 1,2,3,1,2,3,… -/
def ftype (i : Nat) : Nat := (i - 1) % 3 + 1

/-- §2.5: number of rounds for a key of `bits` bits -/
def rounds (bits : Nat) : Nat := if bits ≤ 80 then 12 else 16

/-- round `i` (1-based) -/
def round (ks : Keys) (x : LR) (i : Nat) : LR :=
  { l := x.r, r := x.l ^^^ f (ftype i) x.r ks.masking[i - 1]! ks.rotate[i - 1]! }

def encrypt (ks : Keys) (n : Nat) (b : BitVec 64) : BitVec 64 :=
  let y := (List.range' 1 n).foldl (round ks) { l := b.extractLsb' 32 32, r := b.extractLsb' 0 32 }
  y.r ++ y.l

def decrypt (ks : Keys) (n : Nat) (b : BitVec 64) : BitVec 64 :=
  let y := (List.range' 1 n).reverse.foldl (round ks) { l := b.extractLsb' 32 32, r := b.extractLsb' 0 32 }
  y.r ++ y.l

end BC.Cast5.Spec
