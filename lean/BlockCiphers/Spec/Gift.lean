import BlockCiphers.Prelude.Bytes
/-
GIFT-128 as specified in Banik, Pandey, Peyrin, Sasaki, Sim, Todo, "GIFT: A Small Present", CHES 2017
(eprint 2017/622), section 2, in its bit-permutation description (NOT the bitsliced / fixsliced form):

* state `S = b127 … b0` (`b0` least significant), 32 nibbles `w31 … w0`, `w_i = b_{4i+3} … b_{4i}`;
* SubCells: the 4-bit S-box `GS` on every nibble;
* PermBits: `b_{P128(i)} ← b_i`, `P128(i) = 4⌊i/16⌋ + 32((3⌊(i mod 16)/4⌋ + (i mod 4)) mod 4) + (i mod 4)`;
* AddRoundKey: `RK = U ‖ V` (32 bits each), `b_{4i+2} ^= u_i`, `b_{4i+1} ^= v_i`;
  round constant: `b127 ^= 1`, `b23,b19,b15,b11,b7,b3 ^= c5,c4,c3,c2,c1,c0`;
* key state `K = k7 ‖ … ‖ k0` (16-bit words), `U = k5 ‖ k4`, `V = k1 ‖ k0`,
  update `k7‖k6‖…‖k0 ← (k1 ⋙ 2) ‖ (k0 ⋙ 12) ‖ k7 ‖ … ‖ k2`;
* constants: 6-bit LFSR `(c5,…,c0) ← (c4,c3,c2,c1,c0, c5⊕c4⊕1)`, initialised to 0, updated before use;
* 40 rounds.
A 16-byte block / key is the `BitVec 128` whose hex reading is the byte string (byte 0 most significant) — the
convention of the test vectors of the paper, which are the ones in /repo/gift/tests/mod.rs.
-/
namespace BC.Spec.Gift

/-- `GS` (Table 1 of the paper) -/
def GS : Array (BitVec 4) := #[0x1, 0xa, 0x4, 0xc, 0x6, 0xf, 0x3, 0x9, 0x2, 0xd, 0xb, 0x7, 0x5, 0x0, 0x8, 0xe]
/-- the inverse S-box -/
def GSInv : Array (BitVec 4) := #[0xd, 0x0, 0x8, 0x6, 0x2, 0xc, 0x4, 0xb, 0xe, 0x7, 0x1, 0xa, 0x3, 0x9, 0xf, 0x5]

theorem GS_size : GS.size = 16 := by decide
theorem GSInv_size : GSInv.size = 16 := by decide

def gs (x : BitVec 4) : BitVec 4 := GS.getD x.toNat 0
def gsInv (x : BitVec 4) : BitVec 4 := GSInv.getD x.toNat 0

/-- the bit permutation of GIFT-128 -/
def P128 (i : Nat) : Nat := 4 * (i / 16) + 32 * ((3 * ((i % 16) / 4) + (i % 4)) % 4) + (i % 4)

/-- `f 0 ||| f 1 ||| … ||| f (n-1)` -/
def orRange (n : Nat) (f : Nat → BitVec 128) : BitVec 128 :=
  match n with
  | 0 => 0#128
  | n + 1 => orRange n f ||| f n

/-- nibble `i` -/
def nib (x : BitVec 128) (i : Nat) : BitVec 4 := (x >>> (4 * i)).setWidth 4
/-- bit `i` as a 128-bit word with value 0 or 1 -/
def bit (x : BitVec 128) (i : Nat) : BitVec 128 := (x >>> i) &&& 1#128

def subCells (x : BitVec 128) : BitVec 128 :=
  orRange 32 (fun i => (gs (nib x i)).setWidth 128 <<< (4 * i))

def invSubCells (x : BitVec 128) : BitVec 128 :=
  orRange 32 (fun i => (gsInv (nib x i)).setWidth 128 <<< (4 * i))

/-- `b_{P128(i)} ← b_i` -/
def permBits (x : BitVec 128) : BitVec 128 := orRange 128 (fun i => bit x i <<< P128 i)

/-- `b_i ← b_{P128(i)}` -/
def invPermBits (x : BitVec 128) : BitVec 128 := orRange 128 (fun i => bit x (P128 i) <<< i)

/-- bit `i` of a 32-bit half of the round key, as a 128-bit word with value 0 or 1 -/
def kbit (k : BitVec 32) (i : Nat) : BitVec 128 := (k >>> i).setWidth 128 &&& 1#128

/-- the 128-bit word XORed by AddRoundKey: `u_i` at `4i+2`, `v_i` at `4i+1` -/
def roundKeyWord (u v : BitVec 32) : BitVec 128 :=
  orRange 32 (fun i => (kbit u i <<< (4 * i + 2)) ||| (kbit v i <<< (4 * i + 1)))

/-- the 128-bit word XORed by the constant addition -/
def constWord (c : BitVec 6) : BitVec 128 :=
  (1#128 <<< 127) |||
  (((c >>> 5).setWidth 128 &&& 1#128) <<< 23) ||| (((c >>> 4).setWidth 128 &&& 1#128) <<< 19) |||
  (((c >>> 3).setWidth 128 &&& 1#128) <<< 15) ||| (((c >>> 2).setWidth 128 &&& 1#128) <<< 11) |||
  (((c >>> 1).setWidth 128 &&& 1#128) <<< 7) ||| ((c.setWidth 128 &&& 1#128) <<< 3)

/-- `U = k5 ‖ k4` -/
def keyU (k : BitVec 128) : BitVec 32 := k.extractLsb' 64 32
/-- `V = k1 ‖ k0` -/
def keyV (k : BitVec 128) : BitVec 32 := k.extractLsb' 0 32

/-- `k7‖k6‖…‖k0 ← (k1 ⋙ 2) ‖ (k0 ⋙ 12) ‖ k7 ‖ … ‖ k2` -/
def keyUpdate (k : BitVec 128) : BitVec 128 :=
  let k0 : BitVec 16 := k.extractLsb' 0 16
  let k1 : BitVec 16 := k.extractLsb' 16 16
  (k >>> 32) ||| ((k0.rotateRight 12).setWidth 128 <<< 96) ||| ((k1.rotateRight 2).setWidth 128 <<< 112)

/-- `(c5,…,c0) ← (c4,…,c0, c5 ⊕ c4 ⊕ 1)` -/
def lfsr (c : BitVec 6) : BitVec 6 := (c <<< 1) ||| (((c >>> 5) ^^^ (c >>> 4) ^^^ 1#6) &&& 1#6)

/-- one round on the cipher state with the round key halves and the (already updated) constant -/
def round (x : BitVec 128) (u v : BitVec 32) (c : BitVec 6) : BitVec 128 :=
  permBits (subCells x) ^^^ roundKeyWord u v ^^^ constWord c

def invRound (x : BitVec 128) (u v : BitVec 32) (c : BitVec 6) : BitVec 128 :=
  invSubCells (invPermBits (x ^^^ roundKeyWord u v ^^^ constWord c))

/-- cipher state, key state, LFSR state -/
structure St where
  s : BitVec 128
  k : BitVec 128
  c : BitVec 6
deriving DecidableEq, Repr

def step (t : St) : St :=
  let c := lfsr t.c
  { s := round t.s (keyU t.k) (keyV t.k) c, k := keyUpdate t.k, c := c }

def encrypt (key b : BitVec 128) : BitVec 128 := (BC.iter step 40 ⟨b, key, 0#6⟩).s

/-- key state before round `r` (0-based) and the constant used in round `r` -/
def keyAt (key : BitVec 128) (r : Nat) : BitVec 128 := BC.iter keyUpdate r key
def constAt (r : Nat) : BitVec 6 := BC.iter lfsr (r + 1) 0#6

/-- decryption: the rounds undone from the last to the first -/
def decrypt (key b : BitVec 128) : BitVec 128 :=
  (List.range 40).foldl (fun x i =>
    let r := 39 - i
    invRound x (keyU (keyAt key r)) (keyV (keyAt key r)) (constAt r)) b

end BC.Spec.Gift
