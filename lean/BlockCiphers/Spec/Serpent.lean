import BlockCiphers.Prelude.Bytes
/-
Serpent as specified in R. Anderson, E. Biham, L. Knudsen, "Serpent: A Proposal for the Advanced Encryption
Standard" (AES submission), in its *bitslice mode* (section 3 "An efficient implementation"; the bitslice
description needs no initial / final permutation), written in the standard's own terms:

* the eight S-boxes S0..S7 and their inverses as 4-bit tables (Appendix A.5), applied lane by lane: lane `j`
  takes bit `j` of `X0` (least significant bit of the nibble), `X1`, `X2`, `X3` (most significant);
* the linear transformation LT (here `Lin`; `LT` is a core Lean name) and its inverse;
* key padding: a key shorter than 256 bits is extended by one `1` bit, then `0` bits (section 4);
* prekeys `w_i = (w_{i-8} ⊕ w_{i-5} ⊕ w_{i-3} ⊕ w_{i-1} ⊕ φ ⊕ i) <<< 11`, `φ = 0x9e3779b9`;
* subkeys `{k_{4i}, …, k_{4i+3}} = S_{(3-i) mod 8}(w_{4i}, …, w_{4i+3})`, `i = 0..32`;
* `B_{i+1} = LT(S_i(B_i ⊕ K_i))` for `i = 0..30`, `B_32 = S_31(B_31 ⊕ K_31) ⊕ K_32`, `S_i = S_{i mod 8}`.

Byte conventions (those of the NESSIE test vectors bundled with the crate, `/repo/serpent/tests/data`): the
16 block bytes are the words `X0, X1, X2, X3` in this order, each little-endian; the key bytes are the words
`w_{-8}, …, w_{-1}` likewise; bit `b` of key byte `i` is key bit `8i + b`, so for a key of `n < 32` BYTES the
padding is the byte `0x01` followed by zero bytes.
-/
namespace BC.Spec.Serpent

/-! ### S-boxes (Appendix A.5 of the submission) -/

def S0 : List (BitVec 4) := [3, 8, 15, 1, 10, 6, 5, 11, 14, 13, 4, 2, 7, 0, 9, 12]
def S1 : List (BitVec 4) := [15, 12, 2, 7, 9, 0, 5, 10, 1, 11, 14, 8, 6, 13, 3, 4]
def S2 : List (BitVec 4) := [8, 6, 7, 9, 3, 12, 10, 15, 13, 1, 14, 4, 0, 11, 5, 2]
def S3 : List (BitVec 4) := [0, 15, 11, 8, 12, 9, 6, 3, 13, 1, 2, 4, 10, 7, 5, 14]
def S4 : List (BitVec 4) := [1, 15, 8, 3, 12, 0, 11, 6, 2, 5, 4, 10, 9, 14, 7, 13]
def S5 : List (BitVec 4) := [15, 5, 2, 11, 4, 10, 9, 12, 0, 3, 14, 8, 13, 6, 7, 1]
def S6 : List (BitVec 4) := [7, 2, 12, 5, 8, 4, 6, 11, 14, 9, 1, 15, 13, 3, 10, 0]
def S7 : List (BitVec 4) := [1, 13, 15, 0, 14, 8, 2, 11, 7, 4, 12, 10, 9, 3, 5, 6]

def SInv0 : List (BitVec 4) := [13, 3, 11, 0, 10, 6, 5, 12, 1, 14, 4, 7, 15, 9, 8, 2]
def SInv1 : List (BitVec 4) := [5, 8, 2, 14, 15, 6, 12, 3, 11, 4, 7, 9, 1, 13, 10, 0]
def SInv2 : List (BitVec 4) := [12, 9, 15, 4, 11, 14, 1, 2, 0, 3, 6, 13, 5, 8, 10, 7]
def SInv3 : List (BitVec 4) := [0, 9, 10, 7, 11, 14, 6, 13, 3, 5, 12, 2, 4, 8, 15, 1]
def SInv4 : List (BitVec 4) := [5, 0, 8, 3, 10, 9, 7, 14, 2, 12, 11, 6, 4, 15, 13, 1]
def SInv5 : List (BitVec 4) := [8, 15, 2, 9, 4, 1, 13, 14, 11, 6, 5, 3, 7, 12, 10, 0]
def SInv6 : List (BitVec 4) := [15, 10, 1, 13, 5, 3, 6, 0, 4, 9, 14, 7, 2, 12, 8, 11]
def SInv7 : List (BitVec 4) := [3, 0, 6, 13, 9, 14, 15, 8, 5, 12, 11, 7, 10, 1, 4, 2]

/-- `S_i`, `i` taken mod 8 -/
def S (i : Nat) : List (BitVec 4) := [S0, S1, S2, S3, S4, S5, S6, S7].getD (i % 8) []
def SInv (i : Nat) : List (BitVec 4) := [SInv0, SInv1, SInv2, SInv3, SInv4, SInv5, SInv6, SInv7].getD (i % 8) []

/-! ### bitslice application of a 4-bit table -/

/-- the four 32-bit words of the bitslice representation -/
structure X where
  x0 : BitVec 32
  x1 : BitVec 32
  x2 : BitVec 32
  x3 : BitVec 32
  deriving DecidableEq, Repr

def X.zero : X := ⟨0#32, 0#32, 0#32, 0#32⟩

def X.xor (a b : X) : X := ⟨a.x0 ^^^ b.x0, a.x1 ^^^ b.x1, a.x2 ^^^ b.x2, a.x3 ^^^ b.x3⟩

/-- the word with bit `j` equal to `b` and all other bits zero -/
def bitAt (b : Bool) (j : Nat) : BitVec 32 := if b then 1#32 <<< j else 0#32

/-- the word whose bit `j` is `f j` for `j < n` (used with `n = 32`) -/
def gather (f : Nat → Bool) : Nat → BitVec 32
  | 0 => 0#32
  | n + 1 => gather f n ||| bitAt (f n) n

/-- input nibble of lane `j`: `X0` supplies the least significant bit -/
def nibble (x : X) (j : Nat) : Nat :=
  (x.x0.getLsbD j).toNat + 2 * (x.x1.getLsbD j).toNat + 4 * (x.x2.getLsbD j).toNat +
    8 * (x.x3.getLsbD j).toNat

/-- a 4-bit table applied to the 32 lanes -/
def sliceS (t : List (BitVec 4)) (x : X) : X :=
  ⟨gather (fun j => (t.getD (nibble x j) 0#4).getLsbD 0) 32,
   gather (fun j => (t.getD (nibble x j) 0#4).getLsbD 1) 32,
   gather (fun j => (t.getD (nibble x j) 0#4).getLsbD 2) 32,
   gather (fun j => (t.getD (nibble x j) 0#4).getLsbD 3) 32⟩

/-! ### linear transformation -/

def Lin (x : X) : X :=
  let x0 := x.x0.rotateLeft 13
  let x2 := x.x2.rotateLeft 3
  let x1 := x.x1 ^^^ x0 ^^^ x2
  let x3 := x.x3 ^^^ x2 ^^^ (x0 <<< 3)
  let x1 := x1.rotateLeft 1
  let x3 := x3.rotateLeft 7
  let x0 := x0 ^^^ x1 ^^^ x3
  let x2 := x2 ^^^ x3 ^^^ (x1 <<< 7)
  let x0 := x0.rotateLeft 5
  let x2 := x2.rotateLeft 22
  ⟨x0, x1, x2, x3⟩

def LinInv (x : X) : X :=
  let x2 := x.x2.rotateRight 22
  let x0 := x.x0.rotateRight 5
  let x2 := x2 ^^^ x.x3 ^^^ (x.x1 <<< 7)
  let x0 := x0 ^^^ x.x1 ^^^ x.x3
  let x3 := x.x3.rotateRight 7
  let x1 := x.x1.rotateRight 1
  let x3 := x3 ^^^ x2 ^^^ (x0 <<< 3)
  let x1 := x1 ^^^ x0 ^^^ x2
  let x2 := x2.rotateRight 3
  let x0 := x0.rotateRight 13
  ⟨x0, x1, x2, x3⟩

/-! ### key schedule -/

def phi : BitVec 32 := 0x9e3779b9#32

/-- key padding for a key of `n ≤ 32` bytes: one `1` bit (the least significant bit of the next byte), then
zeros, up to 256 bits; a 256-bit key is used as it is -/
def padKey (key : Bytes) : Bytes := (key ++ 0x01#8 :: List.replicate 32 0x00#8).take 32

/-- little-endian word: `b0` is the least significant byte -/
def le32 (b0 b1 b2 b3 : BitVec 8) : BitVec 32 := b3 ++ b2 ++ b1 ++ b0

def leWordAt (bs : Bytes) (i : Nat) : BitVec 32 :=
  le32 (bs.getD (4 * i) 0#8) (bs.getD (4 * i + 1) 0#8) (bs.getD (4 * i + 2) 0#8) (bs.getD (4 * i + 3) 0#8)

/-- the window `w_{i-8}, …, w_{i-1}` -/
structure Win where
  m8 : BitVec 32
  m7 : BitVec 32
  m6 : BitVec 32
  m5 : BitVec 32
  m4 : BitVec 32
  m3 : BitVec 32
  m2 : BitVec 32
  m1 : BitVec 32

/-- `w_i` from the window -/
def nextW (w : Win) (i : Nat) : BitVec 32 :=
  (w.m8 ^^^ w.m5 ^^^ w.m3 ^^^ w.m1 ^^^ phi ^^^ BitVec.ofNat 32 i).rotateLeft 11

/-- `w_i, w_{i+1}, …, w_{i+n-1}` -/
def prekeysFrom : Nat → Nat → Win → List (BitVec 32)
  | 0, _, _ => []
  | n + 1, i, w =>
    let x := nextW w i
    x :: prekeysFrom n (i + 1) ⟨w.m7, w.m6, w.m5, w.m4, w.m3, w.m2, w.m1, x⟩

/-- `w_0, …, w_131` of a 256-bit (padded) key given as 32 bytes -/
def prekeys (k : Bytes) : List (BitVec 32) :=
  prekeysFrom 132 0 ⟨leWordAt k 0, leWordAt k 1, leWordAt k 2, leWordAt k 3,
                      leWordAt k 4, leWordAt k 5, leWordAt k 6, leWordAt k 7⟩

/-- index of the S-box producing subkey `K_i`: `(3 - i) mod 8` (S3, S2, S1, S0, S7, …, S4, S3) -/
def keySbox (i : Nat) : Nat := (3 + 40 - i) % 8

/-- `K_i = S_{(3-i) mod 8}(w_{4i}, w_{4i+1}, w_{4i+2}, w_{4i+3})` -/
def subkey (w : List (BitVec 32)) (i : Nat) : X :=
  sliceS (S (keySbox i)) ⟨w.getD (4 * i) 0#32, w.getD (4 * i + 1) 0#32, w.getD (4 * i + 2) 0#32,
                          w.getD (4 * i + 3) 0#32⟩

/-- `K_0, …, K_32` of a user key of 16..32 bytes -/
def subkeys (key : Bytes) : List X :=
  let w := prekeys (padKey key)
  (List.range 33).map (subkey w)

/-! ### the cipher -/

def K (ks : List X) (i : Nat) : X := ks.getD i X.zero

/-- round `i` (0..31) -/
def round (ks : List X) (b : X) (i : Nat) : X :=
  if i < 31 then Lin (sliceS (S i) (b.xor (K ks i)))
  else (sliceS (S i) (b.xor (K ks i))).xor (K ks 32)

/-- inverse of round `i` -/
def roundInv (ks : List X) (b : X) (i : Nat) : X :=
  if i < 31 then (sliceS (SInv i) (LinInv b)).xor (K ks i)
  else (sliceS (SInv i) (b.xor (K ks 32))).xor (K ks i)

def encryptX (ks : List X) (b : X) : X := (List.range 32).foldl (round ks) b

/-- inverse S-boxes, inverse linear transformation, subkeys in reverse order -/
def decryptX (ks : List X) (b : X) : X := (List.range 32).foldl (fun b j => roundInv ks b (31 - j)) b

/-- block bytes → `X0..X3` (little-endian words, `X0` first) -/
def xOfBlock (b : BitVec 128) : X :=
  ⟨le32 (byteAt b 16 0) (byteAt b 16 1) (byteAt b 16 2) (byteAt b 16 3),
   le32 (byteAt b 16 4) (byteAt b 16 5) (byteAt b 16 6) (byteAt b 16 7),
   le32 (byteAt b 16 8) (byteAt b 16 9) (byteAt b 16 10) (byteAt b 16 11),
   le32 (byteAt b 16 12) (byteAt b 16 13) (byteAt b 16 14) (byteAt b 16 15)⟩

/-- byte `k` (0 = least significant) of a word -/
def byteLE (x : BitVec 32) (k : Nat) : BitVec 8 := (x >>> (8 * k)).setWidth 8

def blockOfX (x : X) : BitVec 128 :=
  byteLE x.x0 0 ++ byteLE x.x0 1 ++ byteLE x.x0 2 ++ byteLE x.x0 3 ++
  byteLE x.x1 0 ++ byteLE x.x1 1 ++ byteLE x.x1 2 ++ byteLE x.x1 3 ++
  byteLE x.x2 0 ++ byteLE x.x2 1 ++ byteLE x.x2 2 ++ byteLE x.x2 3 ++
  byteLE x.x3 0 ++ byteLE x.x3 1 ++ byteLE x.x3 2 ++ byteLE x.x3 3

/-- Serpent encryption of a block under a user key of 16..32 bytes -/
def encrypt (key : Bytes) (blk : BitVec 128) : BitVec 128 := blockOfX (encryptX (subkeys key) (xOfBlock blk))

def decrypt (key : Bytes) (blk : BitVec 128) : BitVec 128 := blockOfX (decryptX (subkeys key) (xOfBlock blk))

end BC.Spec.Serpent
