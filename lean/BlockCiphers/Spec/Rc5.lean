import BlockCiphers.Prelude.WordBytes
/-
RC5-w/r/b as described in R. L. Rivest, "The RC5 Encryption Algorithm" (FSE 1994; revised 1997), in its
own terms.  Parameters: word size `w` (bits), rounds `r` (0..255), key length `b` bytes (0..255).
`u = w/8` bytes per word, `t = 2(r+1)` table words, `c = max(1, ⌈b/u⌉)` key words.

* §3   two's-complement `+`/`-` mod 2^w, `⊕`, and `x <<< y`: "cyclic rotation of x to the left by the
       amount given by the least significant lg(w) bits of y" (= `y mod w`).
* §4.3 magic constants  `P_w = Odd((e − 2)·2^w)`, `Q_w = Odd((φ − 1)·2^w)`, `Odd(x)` = the odd integer
       nearest to `x`.  Stated here with integers only (`IsP`, `IsQ`); the key expansion is parameterised
       by the two constants.
* §4.3 key → `L[0..c-1]`: "u consecutive key bytes of K fill up each successive word in L, low-order byte
       to high-order byte", unfilled positions zero:  `L[j] = Σ_k K[u·j + k]·2^(8k)`.
* §4.3 `S[0] = P_w; for i = 1 to t−1: S[i] = S[i−1] + Q_w`.
* §4.3 mixing: `i = j = 0; A = B = 0; do 3·max(t,c) times:
          A = S[i] = (S[i] + A + B) <<< 3;  B = L[j] = (L[j] + A + B) <<< (A + B);
          i = (i+1) mod t;  j = (j+1) mod c`.
* §4.1 encryption: `A = A + S[0]; B = B + S[1]; for i = 1 to r: A = ((A⊕B) <<< B) + S[2i];
          B = ((B⊕A) <<< A) + S[2i+1]`;  §4.2 decryption is the inverse, from `i = r` down to 1.
* §4.1 input block: two words A, B, "little-endian": first byte = low-order byte of A.
-/
namespace BC.Spec.Rc5

/-! ### the magic constants -/

def fact : Nat → Nat
  | 0 => 1
  | n + 1 => (n + 1) * fact n

/-- `eNum N = Σ_{k=2}^{N} N!/k!` (an integer), i.e. `eNum N / N! = Σ_{k=2}^{N} 1/k!`.  Since
`0 < Σ_{k>N} 1/k! < 1/(N·N!)`,  for every `N ≥ 1`:   `eNum N / N!  <  e − 2  <  (eNum N + 1) / N!`. -/
def eNum : Nat → Nat
  | 0 => 0
  | 1 => 0
  | n + 2 => (n + 2) * eNum (n + 1) + 1

/-- `p = Odd((e − 2)·2^w)`: `p` is odd and `p − 1 < (e−2)·2^w < p + 1`, the latter witnessed by a partial
sum of the series of `e`:  `(p−1) ≤ 2^w·eNum N / N!`  and  `2^w·(eNum N + 1)/N! ≤ p + 1`. -/
def IsP (w p : Nat) : Prop :=
  p % 2 = 1 ∧ ∃ N, 1 ≤ N ∧ (p - 1) * fact N ≤ 2 ^ w * eNum N ∧ 2 ^ w * (eNum N + 1) ≤ (p + 1) * fact N

/-- `q = Odd((φ − 1)·2^w)`, `φ − 1 = (√5 − 1)/2`: `q` is odd and `q − 1 < (√5−1)/2·2^w < q + 1`, i.e.
`2(q−1) + 2^w < √5·2^w < 2(q+1) + 2^w`, squared. -/
def IsQ (w q : Nat) : Prop :=
  q % 2 = 1 ∧ (2 * (q - 1) + 2 ^ w) ^ 2 < 5 * 4 ^ w ∧ 5 * 4 ^ w < (2 * (q + 1) + 2 ^ w) ^ 2

/-! ### the algorithm -/

/-- `u` -/
def u (w : Nat) : Nat := w / 8
/-- `t = 2(r+1)` -/
def t (r : Nat) : Nat := 2 * (r + 1)
/-- `c = max(1, ⌈b/u⌉)` -/
def c (w b : Nat) : Nat := max 1 ((b + u w - 1) / u w)

/-- `x <<< y` -/
def rol {w : Nat} (x y : BitVec w) : BitVec w := x.rotateLeft (y.toNat % w)
/-- `x >>> y` -/
def ror {w : Nat} (x y : BitVec w) : BitVec w := x.rotateRight (y.toNat % w)

/-- `L[j] = Σ_k K[u·j + k]·2^(8k)` (bytes beyond the end of the key are absent = 0) -/
def Lword (w : Nat) (K : Bytes) (j : Nat) : BitVec w :=
  BitVec.ofNat w (bytesToNatLE (slice K (u w * j) (u w * (j + 1))))

def L0 (w b : Nat) (K : Bytes) : List (BitVec w) := (List.range (c w b)).map (Lword w K)

/-- `n` entries `a, a+Q, a+2Q, …` : each is the previous one plus `Q` -/
def arith {w : Nat} (Q : BitVec w) : Nat → BitVec w → List (BitVec w)
  | 0, _ => []
  | n + 1, a => a :: arith Q n (a + Q)

/-- `S[0] = P; S[i] = S[i-1] + Q` -/
def S0 {w : Nat} (r : Nat) (P Q : BitVec w) : List (BitVec w) := arith Q (t r) P

structure Mix (w : Nat) where
  S : List (BitVec w)
  L : List (BitVec w)
  i : Nat
  j : Nat
  A : BitVec w
  B : BitVec w

def mixStep {w : Nat} (t c : Nat) (m : Mix w) : Mix w :=
  let A := (m.S.getD m.i 0 + m.A + m.B).rotateLeft 3
  let B := rol (m.L.getD m.j 0 + A + m.B) (A + m.B)
  { S := m.S.set m.i A, L := m.L.set m.j B, i := (m.i + 1) % t, j := (m.j + 1) % c, A := A, B := B }

/-- the expanded key table `S[0..t-1]` -/
def expand {w : Nat} (r b : Nat) (P Q : BitVec w) (K : Bytes) : List (BitVec w) :=
  (iter (mixStep (t r) (c w b)) (3 * max (t r) (c w b))
    { S := S0 r P Q, L := L0 w b K, i := 0, j := 0, A := 0, B := 0 }).S

structure AB (w : Nat) where
  A : BitVec w
  B : BitVec w

def encRound {w : Nat} (S : List (BitVec w)) (i : Nat) (s : AB w) : AB w :=
  let A := rol (s.A ^^^ s.B) s.B + S.getD (2 * i) 0
  let B := rol (s.B ^^^ A) A + S.getD (2 * i + 1) 0
  { A := A, B := B }

def decRound {w : Nat} (S : List (BitVec w)) (i : Nat) (s : AB w) : AB w :=
  let B := ror (s.B - S.getD (2 * i + 1) 0) s.A ^^^ s.A
  let A := ror (s.A - S.getD (2 * i) 0) B ^^^ B
  { A := A, B := B }

/-- `for i = 1 to r` -/
def encRounds {w : Nat} (S : List (BitVec w)) : Nat → AB w → AB w
  | 0, s => s
  | n + 1, s => encRound S (n + 1) (encRounds S n s)

/-- `for i = r downto 1` -/
def decRounds {w : Nat} (S : List (BitVec w)) : Nat → AB w → AB w
  | 0, s => s
  | n + 1, s => decRounds S n (decRound S (n + 1) s)

def encrypt {w : Nat} (S : List (BitVec w)) (r : Nat) (s : AB w) : AB w :=
  encRounds S r { A := s.A + S.getD 0 0, B := s.B + S.getD 1 0 }

def decrypt {w : Nat} (S : List (BitVec w)) (r : Nat) (s : AB w) : AB w :=
  let s' := decRounds S r s
  { A := s'.A - S.getD 0 0, B := s'.B - S.getD 1 0 }

/-- a `2u`-byte block as two little-endian words -/
def toAB (w : Nat) (blk : Bytes) : AB w :=
  { A := BitVec.ofNat w (bytesToNatLE (blk.take (u w))), B := BitVec.ofNat w (bytesToNatLE (blk.drop (u w))) }

def ofAB {w : Nat} (s : AB w) : Bytes := toLEn (u w) s.A.toNat ++ toLEn (u w) s.B.toNat

def encryptBytes {w : Nat} (S : List (BitVec w)) (r : Nat) (blk : Bytes) : Bytes :=
  ofAB (encrypt S r (toAB w blk))

def decryptBytes {w : Nat} (S : List (BitVec w)) (r : Nat) (blk : Bytes) : Bytes :=
  ofAB (decrypt S r (toAB w blk))

end BC.Spec.Rc5
