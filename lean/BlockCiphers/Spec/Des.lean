import BlockCiphers.Prelude.Bytes
/-
FIPS PUB 46-3 (DES) and NIST SP 800-67 (TDEA) in their own terms.

Bits are numbered as in the standard: bit 1 is the most significant (left-most) bit.  Every table below is
written from the standard (FIPS 46-3, pp. 10-21), NOT from the Rust crate: IP, IP⁻¹, E, P, PC-1, PC-2 as lists of
1-based source-bit numbers, S1..S8 as four rows of sixteen columns, the left-shift schedule.
`Proofs/DesSpec*.lean` prove that the bit tricks of /repo/des/src/utils.rs compute exactly these tables.
-/
namespace BC.Spec.Des

/-- bit `i` (1-based, counted from the most significant bit) of a `w`-bit block -/
def bit {w : Nat} (x : BitVec w) (i : Nat) : Bool := x.getMsbD (i - 1)

/-- generic table-driven bit selection: bit `j` of the `n`-bit result is bit `table[j]` of `x`
(both 1-based, MSB first); `n` must be `table.length` -/
def permute {w : Nat} (table : List Nat) (n : Nat) (x : BitVec w) : BitVec n :=
  table.foldl (fun acc t => (acc <<< 1) ||| (BitVec.ofBool (bit x t)).setWidth n) 0

/-- initial permutation IP -/
def IP : List Nat := [
  58, 50, 42, 34, 26, 18, 10, 2,
  60, 52, 44, 36, 28, 20, 12, 4,
  62, 54, 46, 38, 30, 22, 14, 6,
  64, 56, 48, 40, 32, 24, 16, 8,
  57, 49, 41, 33, 25, 17,  9, 1,
  59, 51, 43, 35, 27, 19, 11, 3,
  61, 53, 45, 37, 29, 21, 13, 5,
  63, 55, 47, 39, 31, 23, 15, 7]

/-- final permutation IP⁻¹ -/
def FP : List Nat := [
  40, 8, 48, 16, 56, 24, 64, 32,
  39, 7, 47, 15, 55, 23, 63, 31,
  38, 6, 46, 14, 54, 22, 62, 30,
  37, 5, 45, 13, 53, 21, 61, 29,
  36, 4, 44, 12, 52, 20, 60, 28,
  35, 3, 43, 11, 51, 19, 59, 27,
  34, 2, 42, 10, 50, 18, 58, 26,
  33, 1, 41,  9, 49, 17, 57, 25]

/-- E bit-selection table (32 → 48) -/
def E : List Nat := [
  32,  1,  2,  3,  4,  5,
   4,  5,  6,  7,  8,  9,
   8,  9, 10, 11, 12, 13,
  12, 13, 14, 15, 16, 17,
  16, 17, 18, 19, 20, 21,
  20, 21, 22, 23, 24, 25,
  24, 25, 26, 27, 28, 29,
  28, 29, 30, 31, 32,  1]

/-- permutation P (32 → 32) -/
def P : List Nat := [
  16,  7, 20, 21,
  29, 12, 28, 17,
   1, 15, 23, 26,
   5, 18, 31, 10,
   2,  8, 24, 14,
  32, 27,  3,  9,
  19, 13, 30,  6,
  22, 11,  4, 25]

/-- permuted choice 1 (64 → 56; bits 8,16,…,64 are the parity bits and do not occur) -/
def PC1 : List Nat := [
  57, 49, 41, 33, 25, 17,  9,
   1, 58, 50, 42, 34, 26, 18,
  10,  2, 59, 51, 43, 35, 27,
  19, 11,  3, 60, 52, 44, 36,
  63, 55, 47, 39, 31, 23, 15,
   7, 62, 54, 46, 38, 30, 22,
  14,  6, 61, 53, 45, 37, 29,
  21, 13,  5, 28, 20, 12,  4]

/-- permuted choice 2 (56 → 48) -/
def PC2 : List Nat := [
  14, 17, 11, 24,  1,  5,
   3, 28, 15,  6, 21, 10,
  23, 19, 12,  4, 26,  8,
  16,  7, 27, 20, 13,  2,
  41, 52, 31, 37, 47, 55,
  30, 40, 51, 45, 33, 48,
  44, 49, 39, 56, 34, 53,
  46, 42, 50, 36, 29, 32]

/-- number of left shifts per iteration -/
def SHIFTS : List Nat := [1, 1, 2, 2, 2, 2, 2, 2, 1, 2, 2, 2, 2, 2, 2, 1]

/-- S1..S8: four rows (0..3) of sixteen columns (0..15) each, row after row -/
def STAB : Array (Array Nat) := #[
  #[14,  4, 13,  1,  2, 15, 11,  8,  3, 10,  6, 12,  5,  9,  0,  7,
     0, 15,  7,  4, 14,  2, 13,  1, 10,  6, 12, 11,  9,  5,  3,  8,
     4,  1, 14,  8, 13,  6,  2, 11, 15, 12,  9,  7,  3, 10,  5,  0,
    15, 12,  8,  2,  4,  9,  1,  7,  5, 11,  3, 14, 10,  0,  6, 13],
  #[15,  1,  8, 14,  6, 11,  3,  4,  9,  7,  2, 13, 12,  0,  5, 10,
     3, 13,  4,  7, 15,  2,  8, 14, 12,  0,  1, 10,  6,  9, 11,  5,
     0, 14,  7, 11, 10,  4, 13,  1,  5,  8, 12,  6,  9,  3,  2, 15,
    13,  8, 10,  1,  3, 15,  4,  2, 11,  6,  7, 12,  0,  5, 14,  9],
  #[10,  0,  9, 14,  6,  3, 15,  5,  1, 13, 12,  7, 11,  4,  2,  8,
    13,  7,  0,  9,  3,  4,  6, 10,  2,  8,  5, 14, 12, 11, 15,  1,
    13,  6,  4,  9,  8, 15,  3,  0, 11,  1,  2, 12,  5, 10, 14,  7,
     1, 10, 13,  0,  6,  9,  8,  7,  4, 15, 14,  3, 11,  5,  2, 12],
  #[ 7, 13, 14,  3,  0,  6,  9, 10,  1,  2,  8,  5, 11, 12,  4, 15,
    13,  8, 11,  5,  6, 15,  0,  3,  4,  7,  2, 12,  1, 10, 14,  9,
    10,  6,  9,  0, 12, 11,  7, 13, 15,  1,  3, 14,  5,  2,  8,  4,
     3, 15,  0,  6, 10,  1, 13,  8,  9,  4,  5, 11, 12,  7,  2, 14],
  #[ 2, 12,  4,  1,  7, 10, 11,  6,  8,  5,  3, 15, 13,  0, 14,  9,
    14, 11,  2, 12,  4,  7, 13,  1,  5,  0, 15, 10,  3,  9,  8,  6,
     4,  2,  1, 11, 10, 13,  7,  8, 15,  9, 12,  5,  6,  3,  0, 14,
    11,  8, 12,  7,  1, 14,  2, 13,  6, 15,  0,  9, 10,  4,  5,  3],
  #[12,  1, 10, 15,  9,  2,  6,  8,  0, 13,  3,  4, 14,  7,  5, 11,
    10, 15,  4,  2,  7, 12,  9,  5,  6,  1, 13, 14,  0, 11,  3,  8,
     9, 14, 15,  5,  2,  8, 12,  3,  7,  0,  4, 10,  1, 13, 11,  6,
     4,  3,  2, 12,  9,  5, 15, 10, 11, 14,  1,  7,  6,  0,  8, 13],
  #[ 4, 11,  2, 14, 15,  0,  8, 13,  3, 12,  9,  7,  5, 10,  6,  1,
    13,  0, 11,  7,  4,  9,  1, 10, 14,  3,  5, 12,  2, 15,  8,  6,
     1,  4, 11, 13, 12,  3,  7, 14, 10, 15,  6,  8,  0,  5,  9,  2,
     6, 11, 13,  8,  1,  4, 10,  7,  9,  5,  0, 15, 14,  2,  3, 12],
  #[13,  2,  8,  4,  6, 15, 11,  1, 10,  9,  3, 14,  5,  0, 12,  7,
     1, 15, 13,  8, 10,  3,  7,  4, 12,  5,  6, 11,  0, 14,  9,  2,
     7, 11,  4,  1,  9, 12, 14,  2,  0,  6, 10, 13, 15,  3,  5,  8,
     2,  1, 14,  7,  4, 10,  8, 13, 15, 12,  9,  0,  3,  5,  6, 11]]

/-- `S (i+1)` of the standard applied to a 6-bit block `b1 b2 b3 b4 b5 b6`: row = `b1 b6`, column = `b2 b3 b4 b5` -/
def S (i : Nat) (b : BitVec 6) : BitVec 4 :=
  let row := 2 * (bit b 1).toNat + (bit b 6).toNat
  let col := 8 * (bit b 2).toNat + 4 * (bit b 3).toNat + 2 * (bit b 4).toNat + (bit b 5).toNat
  BitVec.ofNat 4 ((STAB.getD i #[]).getD (16 * row + col) 0)

/-- the eight S-boxes side by side: B1..B8 (6 bits each) ↦ S1(B1) … S8(B8) (4 bits each) -/
def sboxes (x : BitVec 48) : BitVec 32 :=
  S 0 (x.extractLsb' 42 6) ++ S 1 (x.extractLsb' 36 6) ++ S 2 (x.extractLsb' 30 6) ++
  S 3 (x.extractLsb' 24 6) ++ S 4 (x.extractLsb' 18 6) ++ S 5 (x.extractLsb' 12 6) ++
  S 6 (x.extractLsb' 6 6) ++ S 7 (x.extractLsb' 0 6)

/-- the cipher function f(R, K) = P(S(E(R) ⊕ K)) -/
def f (r : BitVec 32) (k : BitVec 48) : BitVec 32 :=
  permute P 32 (sboxes (permute E 48 r ^^^ k))

/-- C_n D_n from C_{n-1} D_{n-1}, and K_n = PC-2(C_n D_n), for the remaining shift amounts -/
def schedule (c d : BitVec 28) : List Nat → List (BitVec 48)
  | [] => []
  | s :: ss =>
    let c := c.rotateLeft s
    let d := d.rotateLeft s
    permute PC2 48 (c ++ d) :: schedule c d ss

/-- K_1 … K_16 -/
def roundKeys (key : BitVec 64) : List (BitVec 48) :=
  let cd : BitVec 56 := permute PC1 56 key
  schedule (cd.extractLsb' 28 28) (cd.extractLsb' 0 28) SHIFTS

/-- L_n R_n -/
structure LR where
  l : BitVec 32
  r : BitVec 32

/-- L_n = R_{n-1},  R_n = L_{n-1} ⊕ f(R_{n-1}, K_n) -/
def iteration (s : LR) (k : BitVec 48) : LR := { l := s.r, r := s.l ^^^ f s.r k }

/-- the enciphering computation with an arbitrary key sequence: IP, the iterations, pre-output R16 L16, IP⁻¹ -/
def cipher (ks : List (BitVec 48)) (block : BitVec 64) : BitVec 64 :=
  let x : BitVec 64 := permute IP 64 block
  let s := ks.foldl iteration { l := x.extractLsb' 32 32, r := x.extractLsb' 0 32 }
  permute FP 64 (s.r ++ s.l)

/-- DES encryption -/
def des (key block : BitVec 64) : BitVec 64 := cipher (roundKeys key) block

/-- DES decryption: the same algorithm with K_16 … K_1 -/
def desInv (key block : BitVec 64) : BitVec 64 := cipher (roundKeys key).reverse block

/-! SP 800-67 TDEA: encryption `E_K3(D_K2(E_K1(x)))`, decryption `D_K1(E_K2(D_K3(y)))`;
keying option 2 is `K3 = K1`.  The EEE variants (not in SP 800-67; ANSI X9.52 terminology) chain three
encryptions. -/

def tdeaEnc (k1 k2 k3 b : BitVec 64) : BitVec 64 := des k3 (desInv k2 (des k1 b))
def tdeaDec (k1 k2 k3 b : BitVec 64) : BitVec 64 := desInv k1 (des k2 (desInv k3 b))
def eeeEnc (k1 k2 k3 b : BitVec 64) : BitVec 64 := des k3 (des k2 (des k1 b))
def eeeDec (k1 k2 k3 b : BitVec 64) : BitVec 64 := desInv k1 (desInv k2 (desInv k3 b))

/-- a key "ignoring parity": the 56 key bits (bits 1-7 of every byte) -/
def stripParity (k : BitVec 64) : BitVec 56 :=
  k.extractLsb' 57 7 ++ k.extractLsb' 49 7 ++ k.extractLsb' 41 7 ++ k.extractLsb' 33 7 ++
  k.extractLsb' 25 7 ++ k.extractLsb' 17 7 ++ k.extractLsb' 9 7 ++ k.extractLsb' 1 7

end BC.Spec.Des
