import BlockCiphers.Impl.Blowfish
/-
Blowfish and eksblowfish in the terms of the publications.

* B. Schneier, "Description of a New Variable-Length Key, 64-Bit Block Cipher (Blowfish)", FSE 1993:
  16 rounds `xL ^= P_i; xR ^= F(xL); swap`, undo the last swap, `xR ^= P_17; xL ^= P_18`;
  `F(x) = ((S1[a] + S2[b]) ⊕ S3[c]) + S4[d]` for the four bytes `a b c d` of `x` (a = most significant);
  key expansion: P ⊕= the key bits cycled, then the all-zero block is encrypted over and over, each
  output replacing the next two entries of P1..P18, S1[0..255], …, S4[0..255] (521 encryptions).
* N. Provos, D. Mazières, "A Future-Adaptable Password Scheme", USENIX 1999, §3 `ExpandKey(state, salt, key)`:
  the same, but before every encryption the running block is XORed with the next 64 bits of the salt,
  the salt being cycled (for the 128-bit salt of bcrypt: first half, second half, first half, …).
  Plain Blowfish key expansion is `ExpandKey(state, 0, key)`.

The state type is the one of the model (`p` = P1..P18 at indices 0..17, `s` = S1‖S2‖S3‖S4, i.e. the 1024
S-box words in the order in which key expansion replaces them).  Byte strings are cycled byte-wise and
read as big-endian 32-bit words (for lengths that are multiples of 4 this is "cycled as 32-bit words").
-/
namespace BC.Blowfish.Spec
open BC.Blowfish

/-- byte `g` of the infinite periodic repetition of `buf` -/
def cycByte (buf : Array (BitVec 8)) (g : Nat) : BitVec 8 := buf[g % buf.size]!

/-- 32-bit big-endian word number `j` of the cyclic repetition of `buf` -/
def cycWord (buf : Array (BitVec 8)) (j : Nat) : BitVec 32 :=
  ((cycByte buf (4 * j)).setWidth 32 <<< 24) ||| ((cycByte buf (4 * j + 1)).setWidth 32 <<< 16) |||
  ((cycByte buf (4 * j + 2)).setWidth 32 <<< 8) ||| (cycByte buf (4 * j + 3)).setWidth 32

/-- S-box `k` (0-based), entry `x` -/
def sbox (st : State) (k : Nat) (x : BitVec 8) : BitVec 32 := st.s[256 * k + x.toNat]!

/-- Schneier's `F` -/
def F (st : State) (x : BitVec 32) : BitVec 32 :=
  ((sbox st 0 (x.extractLsb' 24 8) + sbox st 1 (x.extractLsb' 16 8)) ^^^ sbox st 2 (x.extractLsb' 8 8))
    + sbox st 3 (x.extractLsb' 0 8)

/-- one round including the swap: `xL ^= P_i; xR ^= F(xL); swap xL xR` -/
def round (st : State) (x : LR) (i : Nat) : LR :=
  let xl := x.l ^^^ st.p[i]!
  { l := x.r ^^^ F st xl, r := xl }

/-- encryption: 16 rounds, undo the last swap, final whitening -/
def encrypt (st : State) (x : LR) : LR :=
  let y := (List.range 16).foldl (round st) x
  { l := y.r ^^^ st.p[17]!, r := y.l ^^^ st.p[16]! }

/-- decryption = encryption with P used in reverse order -/
def roundD (st : State) (x : LR) (i : Nat) : LR :=
  let xl := x.l ^^^ st.p[17 - i]!
  { l := x.r ^^^ F st xl, r := xl }

def decrypt (st : State) (x : LR) : LR :=
  let y := (List.range 16).foldl (roundD st) x
  { l := y.r ^^^ st.p[0]!, r := y.l ^^^ st.p[1]! }

/-- replace the `n`-th pair of the sequence P1..P18, S1[0..255], …, S4[0..255] -/
def setPair (st : State) (n : Nat) (x : LR) : State :=
  if n < 9 then { st with p := (st.p.set! (2 * n) x.l).set! (2 * n + 1) x.r }
  else { st with s := (st.s.set! (2 * (n - 9)) x.l).set! (2 * (n - 9) + 1) x.r }

/-- `P_i ⊕= ` the `i`-th 32 bits of the cycled key -/
def xorKey (p : Array (BitVec 32)) (key : Array (BitVec 8)) : Array (BitVec 32) :=
  (List.range 18).foldl (fun p i => p.set! i (p[i]! ^^^ cycWord key i)) p

structure ES where
  st : State
  blk : LR

/-- step `n` of ExpandKey: XOR in the next 64 salt bits, encrypt with the current state, replace pair `n` -/
def ekStep (salt : Array (BitVec 8)) (a : ES) (n : Nat) : ES :=
  let blk := encrypt a.st { l := a.blk.l ^^^ cycWord salt (2 * n), r := a.blk.r ^^^ cycWord salt (2 * n + 1) }
  { st := setPair a.st n blk, blk := blk }

/-- Provos–Mazières `ExpandKey(state, salt, key)` -/
def expandKey (st : State) (salt key : Array (BitVec 8)) : State :=
  let st := { st with p := xorKey st.p key }
  ((List.range 521).foldl (ekStep salt) { st := st, blk := { l := 0#32, r := 0#32 } }).st

/-- Schneier's key expansion = `ExpandKey(state, 0, key)` (16 zero bytes; any all-zero salt does) -/
def blowfishExpand (st : State) (key : Array (BitVec 8)) : State :=
  expandKey st (Array.replicate 16 0#8) key

/-- the Blowfish key schedule for `key` (4..56 bytes in the crate; the algorithm itself only needs ≥ 1) -/
def keySchedule (key : Array (BitVec 8)) : State := blowfishExpand init_state key

end BC.Blowfish.Spec
