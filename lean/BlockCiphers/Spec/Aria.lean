import BlockCiphers.Prelude.Bytes
/-
ARIA as specified in RFC 5794 ("A Description of the ARIA Encryption Algorithm"), in the RFC's terms:
a 128-bit string is x0 || x1 || … || x15; substitution layers SL1 / SL2 (§2.4.2) from S-boxes SB1, SB2
and their inverses SB3 = SB1⁻¹, SB4 = SB2⁻¹; diffusion layer A (§2.4.3, the sixteen byte equations);
round functions FO / FE (§2.4.1); key schedule with CK1..CK3 chosen by key size, W0..W3, ek1..ek17
(§2.2); encryption with 12 / 14 / 16 rounds (§2.3.1) and decryption = the same process with
dk1 = ek(n+1), dk(i) = A(ek(n+2-i)), dk(n+1) = ek1 (§2.3.2).

SB1 and SB2 are frozen spec tables (RFC 5794 §2.4.2).  SB3 and SB4 are *computed* here as the inverse
permutations (the RFC states SB3 = SB1⁻¹, SB4 = SB2⁻¹), not copied.
-/
namespace BC.Spec.Aria

/-- RFC 5794 §2.4.2, S-box SB1 -/
def SB1 : Array (BitVec 8) := #[
  0x63#8, 0x7c#8, 0x77#8, 0x7b#8, 0xf2#8, 0x6b#8, 0x6f#8, 0xc5#8, 0x30#8, 0x01#8, 0x67#8, 0x2b#8, 0xfe#8, 0xd7#8, 0xab#8, 0x76#8,
  0xca#8, 0x82#8, 0xc9#8, 0x7d#8, 0xfa#8, 0x59#8, 0x47#8, 0xf0#8, 0xad#8, 0xd4#8, 0xa2#8, 0xaf#8, 0x9c#8, 0xa4#8, 0x72#8, 0xc0#8,
  0xb7#8, 0xfd#8, 0x93#8, 0x26#8, 0x36#8, 0x3f#8, 0xf7#8, 0xcc#8, 0x34#8, 0xa5#8, 0xe5#8, 0xf1#8, 0x71#8, 0xd8#8, 0x31#8, 0x15#8,
  0x04#8, 0xc7#8, 0x23#8, 0xc3#8, 0x18#8, 0x96#8, 0x05#8, 0x9a#8, 0x07#8, 0x12#8, 0x80#8, 0xe2#8, 0xeb#8, 0x27#8, 0xb2#8, 0x75#8,
  0x09#8, 0x83#8, 0x2c#8, 0x1a#8, 0x1b#8, 0x6e#8, 0x5a#8, 0xa0#8, 0x52#8, 0x3b#8, 0xd6#8, 0xb3#8, 0x29#8, 0xe3#8, 0x2f#8, 0x84#8,
  0x53#8, 0xd1#8, 0x00#8, 0xed#8, 0x20#8, 0xfc#8, 0xb1#8, 0x5b#8, 0x6a#8, 0xcb#8, 0xbe#8, 0x39#8, 0x4a#8, 0x4c#8, 0x58#8, 0xcf#8,
  0xd0#8, 0xef#8, 0xaa#8, 0xfb#8, 0x43#8, 0x4d#8, 0x33#8, 0x85#8, 0x45#8, 0xf9#8, 0x02#8, 0x7f#8, 0x50#8, 0x3c#8, 0x9f#8, 0xa8#8,
  0x51#8, 0xa3#8, 0x40#8, 0x8f#8, 0x92#8, 0x9d#8, 0x38#8, 0xf5#8, 0xbc#8, 0xb6#8, 0xda#8, 0x21#8, 0x10#8, 0xff#8, 0xf3#8, 0xd2#8,
  0xcd#8, 0x0c#8, 0x13#8, 0xec#8, 0x5f#8, 0x97#8, 0x44#8, 0x17#8, 0xc4#8, 0xa7#8, 0x7e#8, 0x3d#8, 0x64#8, 0x5d#8, 0x19#8, 0x73#8,
  0x60#8, 0x81#8, 0x4f#8, 0xdc#8, 0x22#8, 0x2a#8, 0x90#8, 0x88#8, 0x46#8, 0xee#8, 0xb8#8, 0x14#8, 0xde#8, 0x5e#8, 0x0b#8, 0xdb#8,
  0xe0#8, 0x32#8, 0x3a#8, 0x0a#8, 0x49#8, 0x06#8, 0x24#8, 0x5c#8, 0xc2#8, 0xd3#8, 0xac#8, 0x62#8, 0x91#8, 0x95#8, 0xe4#8, 0x79#8,
  0xe7#8, 0xc8#8, 0x37#8, 0x6d#8, 0x8d#8, 0xd5#8, 0x4e#8, 0xa9#8, 0x6c#8, 0x56#8, 0xf4#8, 0xea#8, 0x65#8, 0x7a#8, 0xae#8, 0x08#8,
  0xba#8, 0x78#8, 0x25#8, 0x2e#8, 0x1c#8, 0xa6#8, 0xb4#8, 0xc6#8, 0xe8#8, 0xdd#8, 0x74#8, 0x1f#8, 0x4b#8, 0xbd#8, 0x8b#8, 0x8a#8,
  0x70#8, 0x3e#8, 0xb5#8, 0x66#8, 0x48#8, 0x03#8, 0xf6#8, 0x0e#8, 0x61#8, 0x35#8, 0x57#8, 0xb9#8, 0x86#8, 0xc1#8, 0x1d#8, 0x9e#8,
  0xe1#8, 0xf8#8, 0x98#8, 0x11#8, 0x69#8, 0xd9#8, 0x8e#8, 0x94#8, 0x9b#8, 0x1e#8, 0x87#8, 0xe9#8, 0xce#8, 0x55#8, 0x28#8, 0xdf#8,
  0x8c#8, 0xa1#8, 0x89#8, 0x0d#8, 0xbf#8, 0xe6#8, 0x42#8, 0x68#8, 0x41#8, 0x99#8, 0x2d#8, 0x0f#8, 0xb0#8, 0x54#8, 0xbb#8, 0x16#8]

/-- RFC 5794 §2.4.2, S-box SB2 -/
def SB2 : Array (BitVec 8) := #[
  0xe2#8, 0x4e#8, 0x54#8, 0xfc#8, 0x94#8, 0xc2#8, 0x4a#8, 0xcc#8, 0x62#8, 0x0d#8, 0x6a#8, 0x46#8, 0x3c#8, 0x4d#8, 0x8b#8, 0xd1#8,
  0x5e#8, 0xfa#8, 0x64#8, 0xcb#8, 0xb4#8, 0x97#8, 0xbe#8, 0x2b#8, 0xbc#8, 0x77#8, 0x2e#8, 0x03#8, 0xd3#8, 0x19#8, 0x59#8, 0xc1#8,
  0x1d#8, 0x06#8, 0x41#8, 0x6b#8, 0x55#8, 0xf0#8, 0x99#8, 0x69#8, 0xea#8, 0x9c#8, 0x18#8, 0xae#8, 0x63#8, 0xdf#8, 0xe7#8, 0xbb#8,
  0x00#8, 0x73#8, 0x66#8, 0xfb#8, 0x96#8, 0x4c#8, 0x85#8, 0xe4#8, 0x3a#8, 0x09#8, 0x45#8, 0xaa#8, 0x0f#8, 0xee#8, 0x10#8, 0xeb#8,
  0x2d#8, 0x7f#8, 0xf4#8, 0x29#8, 0xac#8, 0xcf#8, 0xad#8, 0x91#8, 0x8d#8, 0x78#8, 0xc8#8, 0x95#8, 0xf9#8, 0x2f#8, 0xce#8, 0xcd#8,
  0x08#8, 0x7a#8, 0x88#8, 0x38#8, 0x5c#8, 0x83#8, 0x2a#8, 0x28#8, 0x47#8, 0xdb#8, 0xb8#8, 0xc7#8, 0x93#8, 0xa4#8, 0x12#8, 0x53#8,
  0xff#8, 0x87#8, 0x0e#8, 0x31#8, 0x36#8, 0x21#8, 0x58#8, 0x48#8, 0x01#8, 0x8e#8, 0x37#8, 0x74#8, 0x32#8, 0xca#8, 0xe9#8, 0xb1#8,
  0xb7#8, 0xab#8, 0x0c#8, 0xd7#8, 0xc4#8, 0x56#8, 0x42#8, 0x26#8, 0x07#8, 0x98#8, 0x60#8, 0xd9#8, 0xb6#8, 0xb9#8, 0x11#8, 0x40#8,
  0xec#8, 0x20#8, 0x8c#8, 0xbd#8, 0xa0#8, 0xc9#8, 0x84#8, 0x04#8, 0x49#8, 0x23#8, 0xf1#8, 0x4f#8, 0x50#8, 0x1f#8, 0x13#8, 0xdc#8,
  0xd8#8, 0xc0#8, 0x9e#8, 0x57#8, 0xe3#8, 0xc3#8, 0x7b#8, 0x65#8, 0x3b#8, 0x02#8, 0x8f#8, 0x3e#8, 0xe8#8, 0x25#8, 0x92#8, 0xe5#8,
  0x15#8, 0xdd#8, 0xfd#8, 0x17#8, 0xa9#8, 0xbf#8, 0xd4#8, 0x9a#8, 0x7e#8, 0xc5#8, 0x39#8, 0x67#8, 0xfe#8, 0x76#8, 0x9d#8, 0x43#8,
  0xa7#8, 0xe1#8, 0xd0#8, 0xf5#8, 0x68#8, 0xf2#8, 0x1b#8, 0x34#8, 0x70#8, 0x05#8, 0xa3#8, 0x8a#8, 0xd5#8, 0x79#8, 0x86#8, 0xa8#8,
  0x30#8, 0xc6#8, 0x51#8, 0x4b#8, 0x1e#8, 0xa6#8, 0x27#8, 0xf6#8, 0x35#8, 0xd2#8, 0x6e#8, 0x24#8, 0x16#8, 0x82#8, 0x5f#8, 0xda#8,
  0xe6#8, 0x75#8, 0xa2#8, 0xef#8, 0x2c#8, 0xb2#8, 0x1c#8, 0x9f#8, 0x5d#8, 0x6f#8, 0x80#8, 0x0a#8, 0x72#8, 0x44#8, 0x9b#8, 0x6c#8,
  0x90#8, 0x0b#8, 0x5b#8, 0x33#8, 0x7d#8, 0x5a#8, 0x52#8, 0xf3#8, 0x61#8, 0xa1#8, 0xf7#8, 0xb0#8, 0xd6#8, 0x3f#8, 0x7c#8, 0x6d#8,
  0xed#8, 0x14#8, 0xe0#8, 0xa5#8, 0x3d#8, 0x22#8, 0xb3#8, 0xf8#8, 0x89#8, 0xde#8, 0x71#8, 0x1a#8, 0xaf#8, 0xba#8, 0xb5#8, 0x81#8]

theorem SB1_size : SB1.size = 256 := by decide +kernel
theorem SB2_size : SB2.size = 256 := by decide +kernel

def sb1 (x : BitVec 8) : BitVec 8 := SB1[x.toNat]'(by rw [SB1_size]; exact x.isLt)
def sb2 (x : BitVec 8) : BitVec 8 := SB2[x.toNat]'(by rw [SB2_size]; exact x.isLt)

/-- inverse of a byte function by search: the first `x` with `f x = y` (0 if none) -/
def invOf (f : BitVec 8 → BitVec 8) (y : BitVec 8) : BitVec 8 :=
  match (List.range 256).find? (fun n => f (BitVec.ofNat 8 n) == y) with
  | some n => BitVec.ofNat 8 n
  | none => 0#8

/-- SB3 = SB1⁻¹ -/
def sb3 (y : BitVec 8) : BitVec 8 := invOf sb1 y
/-- SB4 = SB2⁻¹ -/
def sb4 (y : BitVec 8) : BitVec 8 := invOf sb2 y

/-- byte `x_i` of `x = x0 || … || x15` -/
def byteOf (x : BitVec 128) (i : Nat) : BitVec 8 := (x >>> (8 * (15 - i))).setWidth 8

/-- `y0 || y1 || …` -/
def concat (ys : List (BitVec 8)) : BitVec 128 :=
  ys.foldl (fun acc y => (acc <<< 8) ||| y.setWidth 128) 0#128

/-- §2.4.2 substitution layer type 1: SB1, SB2, SB3, SB4 repeated -/
def SL1 (x : BitVec 128) : BitVec 128 :=
  concat [sb1 (byteOf x 0), sb2 (byteOf x 1), sb3 (byteOf x 2), sb4 (byteOf x 3),
          sb1 (byteOf x 4), sb2 (byteOf x 5), sb3 (byteOf x 6), sb4 (byteOf x 7),
          sb1 (byteOf x 8), sb2 (byteOf x 9), sb3 (byteOf x 10), sb4 (byteOf x 11),
          sb1 (byteOf x 12), sb2 (byteOf x 13), sb3 (byteOf x 14), sb4 (byteOf x 15)]

/-- §2.4.2 substitution layer type 2: SB3, SB4, SB1, SB2 repeated -/
def SL2 (x : BitVec 128) : BitVec 128 :=
  concat [sb3 (byteOf x 0), sb4 (byteOf x 1), sb1 (byteOf x 2), sb2 (byteOf x 3),
          sb3 (byteOf x 4), sb4 (byteOf x 5), sb1 (byteOf x 6), sb2 (byteOf x 7),
          sb3 (byteOf x 8), sb4 (byteOf x 9), sb1 (byteOf x 10), sb2 (byteOf x 11),
          sb3 (byteOf x 12), sb4 (byteOf x 13), sb1 (byteOf x 14), sb2 (byteOf x 15)]

/-- §2.4.3 diffusion layer A (the 16×16 binary matrix, written as the RFC's sixteen equations) -/
def A (x : BitVec 128) : BitVec 128 :=
  let x0 := byteOf x 0
  let x1 := byteOf x 1
  let x2 := byteOf x 2
  let x3 := byteOf x 3
  let x4 := byteOf x 4
  let x5 := byteOf x 5
  let x6 := byteOf x 6
  let x7 := byteOf x 7
  let x8 := byteOf x 8
  let x9 := byteOf x 9
  let x10 := byteOf x 10
  let x11 := byteOf x 11
  let x12 := byteOf x 12
  let x13 := byteOf x 13
  let x14 := byteOf x 14
  let x15 := byteOf x 15
  concat [
    x3 ^^^ x4 ^^^ x6 ^^^ x8 ^^^ x9 ^^^ x13 ^^^ x14,
    x2 ^^^ x5 ^^^ x7 ^^^ x8 ^^^ x9 ^^^ x12 ^^^ x15,
    x1 ^^^ x4 ^^^ x6 ^^^ x10 ^^^ x11 ^^^ x12 ^^^ x15,
    x0 ^^^ x5 ^^^ x7 ^^^ x10 ^^^ x11 ^^^ x13 ^^^ x14,
    x0 ^^^ x2 ^^^ x5 ^^^ x8 ^^^ x11 ^^^ x14 ^^^ x15,
    x1 ^^^ x3 ^^^ x4 ^^^ x9 ^^^ x10 ^^^ x14 ^^^ x15,
    x0 ^^^ x2 ^^^ x7 ^^^ x9 ^^^ x10 ^^^ x12 ^^^ x13,
    x1 ^^^ x3 ^^^ x6 ^^^ x8 ^^^ x11 ^^^ x12 ^^^ x13,
    x0 ^^^ x1 ^^^ x4 ^^^ x7 ^^^ x10 ^^^ x13 ^^^ x15,
    x0 ^^^ x1 ^^^ x5 ^^^ x6 ^^^ x11 ^^^ x12 ^^^ x14,
    x2 ^^^ x3 ^^^ x5 ^^^ x6 ^^^ x8 ^^^ x13 ^^^ x15,
    x2 ^^^ x3 ^^^ x4 ^^^ x7 ^^^ x9 ^^^ x12 ^^^ x14,
    x1 ^^^ x2 ^^^ x6 ^^^ x7 ^^^ x9 ^^^ x11 ^^^ x12,
    x0 ^^^ x3 ^^^ x6 ^^^ x7 ^^^ x8 ^^^ x10 ^^^ x13,
    x0 ^^^ x3 ^^^ x4 ^^^ x5 ^^^ x9 ^^^ x11 ^^^ x14,
    x1 ^^^ x2 ^^^ x4 ^^^ x5 ^^^ x8 ^^^ x10 ^^^ x15]

/-- §2.4.1 round function FO (odd rounds) -/
def FO (D RK : BitVec 128) : BitVec 128 := A (SL1 (D ^^^ RK))
/-- §2.4.1 round function FE (even rounds) -/
def FE (D RK : BitVec 128) : BitVec 128 := A (SL2 (D ^^^ RK))

/-! ### §2.2 key schedule -/

def C1 : BitVec 128 := 0x517cc1b727220a94fe13abe8fa9a6ee0#128
def C2 : BitVec 128 := 0x6db14acc9e21c820ff28b1d5ef5de2b0#128
def C3 : BitVec 128 := 0xdb92371d2126e9700324977504e8c90e#128

structure W where
  W0 : BitVec 128
  W1 : BitVec 128
  W2 : BitVec 128
  W3 : BitVec 128

/-- §2.2.1 initialization: W0 = KL; W1 = FO(W0, CK1) ^ KR; W2 = FE(W1, CK2) ^ W0; W3 = FO(W2, CK3) ^ W1 -/
def initW (KL KR CK1 CK2 CK3 : BitVec 128) : W :=
  let W0 := KL
  let W1 := FO W0 CK1 ^^^ KR
  let W2 := FE W1 CK2 ^^^ W0
  let W3 := FO W2 CK3 ^^^ W1
  { W0 := W0, W1 := W1, W2 := W2, W3 := W3 }

/-- §2.2.2 round key generation: ek1 .. ek17 -/
def ekAll (w : W) : List (BitVec 128) := [
  w.W0 ^^^ w.W1.rotateRight 19, w.W1 ^^^ w.W2.rotateRight 19, w.W2 ^^^ w.W3.rotateRight 19,
  w.W0.rotateRight 19 ^^^ w.W3,
  w.W0 ^^^ w.W1.rotateRight 31, w.W1 ^^^ w.W2.rotateRight 31, w.W2 ^^^ w.W3.rotateRight 31,
  w.W0.rotateRight 31 ^^^ w.W3,
  w.W0 ^^^ w.W1.rotateLeft 61, w.W1 ^^^ w.W2.rotateLeft 61, w.W2 ^^^ w.W3.rotateLeft 61,
  w.W0.rotateLeft 61 ^^^ w.W3,
  w.W0 ^^^ w.W1.rotateLeft 31, w.W1 ^^^ w.W2.rotateLeft 31, w.W2 ^^^ w.W3.rotateLeft 31,
  w.W0.rotateLeft 31 ^^^ w.W3,
  w.W0 ^^^ w.W1.rotateLeft 19]

/-- ek1 .. ek(n+1) for `n` rounds -/
def ek (n : Nat) (w : W) : List (BitVec 128) := (ekAll w).take (n + 1)

/-- apply `f` to all but the first and the last element -/
def mapInner {α : Type} (f : α → α) : List α → List α
  | [] => []
  | x :: rest => x :: go rest
where go : List α → List α
  | [] => []
  | [x] => [x]
  | x :: y :: rest => f x :: go (y :: rest)

/-- §2.3.2: dk1 = ek(n+1), dk2 = A(ek(n)), …, dk(n) = A(ek2), dk(n+1) = ek1 -/
def dk (n : Nat) (w : W) : List (BitVec 128) := mapInner A (ek n w).reverse

/-! ### §2.3 the cipher -/

/-- rounds 1 .. n-1: FO for odd rounds, FE for even rounds (`odd` = the next round is odd) -/
def middle : Bool → BitVec 128 → List (BitVec 128) → BitVec 128
  | _, p, [] => p
  | true, p, k :: rest => middle false (FO p k) rest
  | false, p, k :: rest => middle true (FE p k) rest

/-- P1 = FO(P, k1); P2 = FE(P1, k2); …; P(n-1) = FO(P(n-2), k(n-1)); C = SL2(P(n-1) ^ k(n)) ^ k(n+1) -/
def crypt (n : Nat) (ks : List (BitVec 128)) (P : BitVec 128) : BitVec 128 :=
  let p := middle true P (ks.take (n - 1))
  match ks.drop (n - 1) with
  | [kn, kn1] => SL2 (p ^^^ kn) ^^^ kn1
  | _ => 0#128

/-- 128-bit key: KL = K, KR = 0, CK = (C1, C2, C3), 12 rounds -/
def w128 (K : BitVec 128) : W := initW K 0#128 C1 C2 C3
/-- 192-bit key: KL || KR = K || 0^64, CK = (C2, C3, C1), 14 rounds -/
def w192 (K : BitVec 192) : W :=
  let KK : BitVec 256 := K.setWidth 256 <<< 64
  initW ((KK >>> 128).setWidth 128) (KK.setWidth 128) C2 C3 C1
/-- 256-bit key: KL || KR = K, CK = (C3, C1, C2), 16 rounds -/
def w256 (K : BitVec 256) : W :=
  initW ((K >>> 128).setWidth 128) (K.setWidth 128) C3 C1 C2

def encrypt128 (K : BitVec 128) (P : BitVec 128) : BitVec 128 := crypt 12 (ek 12 (w128 K)) P
def decrypt128 (K : BitVec 128) (C : BitVec 128) : BitVec 128 := crypt 12 (dk 12 (w128 K)) C
def encrypt192 (K : BitVec 192) (P : BitVec 128) : BitVec 128 := crypt 14 (ek 14 (w192 K)) P
def decrypt192 (K : BitVec 192) (C : BitVec 128) : BitVec 128 := crypt 14 (dk 14 (w192 K)) C
def encrypt256 (K : BitVec 256) (P : BitVec 128) : BitVec 128 := crypt 16 (ek 16 (w256 K)) P
def decrypt256 (K : BitVec 256) (C : BitVec 128) : BitVec 128 := crypt 16 (dk 16 (w256 K)) C

/-! ### algebraic description of the S-boxes (ARIA specification v1.0, not needed by RFC 5794):
SB1(x) = AES S-box = Aff(x⁻¹);  SB2(x) = B · x^247 ⊕ 0xe2 over GF(2^8) = GF(2)[X]/(X^8+X^4+X^3+X+1). -/

/-- multiplication in GF(2^8) modulo 0x11b -/
def gmul (a b : BitVec 8) : BitVec 8 :=
  ((List.range 8).foldl (fun (s : BitVec 8 × BitVec 8 × BitVec 8) _ =>
    let (r, a, b) := s
    let r := if b &&& 1#8 = 1#8 then r ^^^ a else r
    let a := if a &&& 0x80#8 = 0x80#8 then (a <<< 1) ^^^ 0x1b#8 else a <<< 1
    (r, a, b >>> 1)) (0#8, a, b)).1

/-- square-and-multiply, least significant exponent bit first (`fuel` = number of exponent bits) -/
def gpowAux : Nat → BitVec 8 → Nat → BitVec 8 → BitVec 8
  | 0, _, _, acc => acc
  | fuel + 1, a, n, acc => gpowAux fuel (gmul a a) (n / 2) (if n % 2 = 1 then gmul acc a else acc)

/-- `a ^ n` in GF(2^8) for `n < 256` -/
def gpow (a : BitVec 8) (n : Nat) : BitVec 8 := gpowAux 8 a n 1#8

/-- AES affine map -/
def aesAffine (b : BitVec 8) : BitVec 8 :=
  b ^^^ b.rotateLeft 1 ^^^ b.rotateLeft 2 ^^^ b.rotateLeft 3 ^^^ b.rotateLeft 4 ^^^ 0x63#8

/-- the matrix B of SB2, as its eight columns (image of bit j) -/
def sb2Cols : List (BitVec 8) := [0xac#8, 0xc5#8, 0x12#8, 0xcf#8, 0x5b#8, 0x5f#8, 0x85#8, 0xee#8]

def matB (v : BitVec 8) : BitVec 8 :=
  ((List.range 8).zip sb2Cols).foldl (fun r p => if v.getLsbD p.1 then r ^^^ p.2 else r) 0#8

end BC.Spec.Aria
