import BlockCiphers.Prelude.Bytes
/-
GOST R 34.12-2015 "Magma" (64-bit block) and, more generally, the 32-round network of GOST 28147-89 over
an arbitrary set of eight 4-bit substitution tables `π_0 … π_7`, in the terms of GOST R 34.12-2015 §5:

  t : V32 → V32,  t(a) = t(a7‖…‖a0) = π7(a7)‖…‖π0(a0)              (a0 = least significant nibble)
  g[k](a)  = (t(a ⊞ k)) ⋘ 11
  G[k](a1, a0)  = (a0, g[k](a0) ⊕ a1)
  G*[k](a1, a0) = (g[k](a0) ⊕ a1) ‖ a0
  K_1 … K_8 = the eight 32-bit words of the key (most significant first), K_{i+8} = K_{i+16} = K_i,
  K_{i+24} = K_{9-i}
  E(a) = G*[K32] G[K31] … G[K1](a1, a0),   D(a) = G*[K1] G[K2] … G[K32](a1, a0)

Words and blocks are big-endian bit strings (the convention of GOST R 34.12-2015; this is the "big-endian
words" reading of GOST 28147-89 used by the crate).
-/
namespace BC.Spec.Magma

/-- eight substitutions of 4-bit values, `π[i]` acts on nibble `i` (nibble 0 = least significant) -/
abbrev Pi := Vector (Vector (BitVec 4) 16) 8

/-- `π_i(x)` -/
def sub (π : Pi) (i : Fin 8) (x : BitVec 4) : BitVec 4 := π[i][x.toFin]

/-- `t(a)` -/
def t (π : Pi) (a : BitVec 32) : BitVec 32 :=
  sub π 7 (a.extractLsb' 28 4) ++ sub π 6 (a.extractLsb' 24 4) ++ sub π 5 (a.extractLsb' 20 4) ++
  sub π 4 (a.extractLsb' 16 4) ++ sub π 3 (a.extractLsb' 12 4) ++ sub π 2 (a.extractLsb' 8 4) ++
  sub π 1 (a.extractLsb' 4 4) ++ sub π 0 (a.extractLsb' 0 4)

/-- `g[k](a) = (t(a ⊞ k)) ⋘ 11` -/
def g (π : Pi) (k a : BitVec 32) : BitVec 32 := (t π (a + k)).rotateLeft 11

/-- the pair `(a1, a0)` -/
structure Pair where
  a1 : BitVec 32
  a0 : BitVec 32

/-- `G[k](a1, a0) = (a0, g[k](a0) ⊕ a1)` -/
def G (π : Pi) (k : BitVec 32) (p : Pair) : Pair := { a1 := p.a0, a0 := g π k p.a0 ^^^ p.a1 }

/-- `G*[k](a1, a0) = (g[k](a0) ⊕ a1) ‖ a0` -/
def Gstar (π : Pi) (k : BitVec 32) (p : Pair) : BitVec 64 := (g π k p.a0 ^^^ p.a1) ++ p.a0

def split (a : BitVec 64) : Pair := { a1 := a.extractLsb' 32 32, a0 := a.extractLsb' 0 32 }

/-- `K_i`, `i = 1 … 8`: `K = k255 … k0`, `K_1 = k255 … k224`, …, `K_8 = k31 … k0` -/
def keyWord (K : BitVec 256) (i : Nat) : BitVec 32 := K.extractLsb' (32 * (8 - i)) 32

/-- iteration key `K_j`, `j = 1 … 32` -/
def K (key : BitVec 256) (j : Nat) : BitVec 32 :=
  if j ≤ 24 then keyWord key ((j - 1) % 8 + 1) else keyWord key (33 - j)

/-- `K_1, …, K_32` -/
def iterKeys (key : BitVec 256) : List (BitVec 32) := (List.range 32).map (fun j => K key (j + 1))

/-- `G*[k_n] G[k_{n-1}] … G[k_1]` for a list `[k_1, …, k_n]` of 32 keys -/
def run (π : Pi) (ks : List (BitVec 32)) (a : BitVec 64) : BitVec 64 :=
  Gstar π (ks.getD 31 0) ((ks.take 31).foldl (fun p k => G π k p) (split a))

/-- encryption `E_{K1,…,K32}` -/
def E (π : Pi) (key : BitVec 256) (a : BitVec 64) : BitVec 64 := run π (iterKeys key) a

/-- decryption `D_{K1,…,K32}` -/
def D (π : Pi) (key : BitVec 256) (a : BitVec 64) : BitVec 64 := run π (iterKeys key).reverse a

/-- the substitution `π` of GOST R 34.12-2015 §5.1.1 (id-tc26-gost-28147-param-Z) -/
def piTc26 : Pi := #v[
  #v[12, 4, 6, 2, 10, 5, 11, 9, 14, 8, 13, 7, 0, 3, 15, 1],
  #v[6, 8, 2, 3, 9, 10, 5, 12, 1, 14, 4, 7, 11, 13, 0, 15],
  #v[11, 3, 5, 8, 2, 15, 10, 13, 14, 1, 7, 4, 12, 9, 6, 0],
  #v[12, 8, 2, 1, 13, 4, 15, 6, 7, 0, 10, 5, 3, 14, 9, 11],
  #v[7, 15, 5, 10, 8, 1, 6, 13, 0, 9, 3, 14, 11, 4, 2, 12],
  #v[5, 13, 15, 6, 9, 2, 12, 10, 11, 7, 8, 1, 4, 3, 14, 0],
  #v[8, 14, 2, 5, 6, 9, 1, 12, 15, 4, 11, 0, 13, 10, 3, 7],
  #v[1, 7, 14, 13, 0, 5, 8, 3, 4, 15, 10, 6, 9, 12, 11, 2]]

/-- GOST R 34.12-2015 Magma -/
def magmaE (key : BitVec 256) (a : BitVec 64) : BitVec 64 := E piTc26 key a
def magmaD (key : BitVec 256) (a : BitVec 64) : BitVec 64 := D piTc26 key a

end BC.Spec.Magma
