import BlockCiphers.Prelude.Bytes
/-
Threefish as specified in "The Skein Hash Function Family", version 1.3 (1 Oct 2010), section 3.3
(Ferguson, Lucks, Schneier, Whiting, Bellare, Kohno, Callas, Walker) — in the paper's own terms:

* `ToBytes`/`BytesToWords`: little-endian (section 3.1), here through the natural-number value;
* `N_w` ∈ {4, 8, 16} words, `N_r` = 72, 72, 80 rounds;
* key schedule (3.3.2): `k_{N_w} = C240 ⊕ k_0 ⊕ … ⊕ k_{N_w−1}`, `t_2 = t_0 ⊕ t_1`,
  `k_{s,i} = k_{(s+i) mod (N_w+1)}`                         for i = 0 … N_w−4,
           `… + t_{s mod 3}`                                 for i = N_w−3,
           `… + t_{(s+1) mod 3}`                             for i = N_w−2,
           `… + s`                                           for i = N_w−1;
* rounds: `e_{d,i} = v_{d,i} + k_{d/4,i}` if `d mod 4 = 0`, else `v_{d,i}`;
  `(f_{d,2j}, f_{d,2j+1}) = MIX_{d,j}(e_{d,2j}, e_{d,2j+1})`;  `v_{d+1,i} = f_{d,π(i)}`   (π: Table 3);
  ciphertext `c_i = v_{N_r,i} + k_{N_r/4,i}`;
* `MIX_{d,j}(x0,x1)`: `y0 = x0 + x1 mod 2^64`, `y1 = (x1 <<< R_{d mod 8, j}) ⊕ y0`             (R: Table 4).

Note the direction of π: the paper *reads* `f` at `π(i)` to produce word `i`; the Rust crate *writes*
`f_k` to position `P[k]`.  So the crate's tables are the inverse permutations (theorems
`perm256_inverse` … in Proofs/Threefish.lean); for N_w = 4 the permutation is an involution.
-/
namespace BC.Spec.Threefish

/-- the key schedule parity constant `C240` -/
def C240 : BitVec 64 := 0x1BD11BDAA9FC1A22#64

/-- Table 3: values of the word permutation π(i) -/
def PI4 : Array Nat := #[0, 3, 2, 1]
def PI8 : Array Nat := #[2, 1, 4, 7, 6, 5, 0, 3]
def PI16 : Array Nat := #[0, 9, 2, 13, 6, 11, 4, 15, 10, 7, 12, 3, 14, 5, 8, 1]

/-- Table 4: rotation constants R_{d mod 8, j} (version 1.3 of the paper) -/
def ROT4 : Array (Array Nat) := #[
  #[14, 16], #[52, 57], #[23, 40], #[5, 37], #[25, 33], #[46, 12], #[58, 22], #[32, 32]]
def ROT8 : Array (Array Nat) := #[
  #[46, 36, 19, 37], #[33, 27, 14, 42], #[17, 49, 36, 39], #[44, 9, 54, 56],
  #[39, 30, 34, 24], #[13, 50, 10, 17], #[25, 29, 39, 43], #[8, 35, 56, 22]]
def ROT16 : Array (Array Nat) := #[
  #[24, 13, 8, 47, 8, 17, 22, 37], #[38, 19, 10, 55, 49, 18, 23, 52], #[33, 4, 51, 13, 34, 41, 59, 17],
  #[5, 20, 48, 41, 47, 28, 16, 25], #[41, 9, 37, 31, 12, 47, 44, 30], #[16, 34, 56, 51, 4, 53, 42, 41],
  #[31, 44, 47, 46, 19, 42, 44, 25], #[9, 48, 35, 52, 23, 31, 37, 20]]

structure Variant where
  nw : Nat
  nr : Nat
  rot : Array (Array Nat)
  pi : Array Nat

def threefish256 : Variant := { nw := 4, nr := 72, rot := ROT4, pi := PI4 }
def threefish512 : Variant := { nw := 8, nr := 72, rot := ROT8, pi := PI8 }
def threefish1024 : Variant := { nw := 16, nr := 80, rot := ROT16, pi := PI16 }

/-- `R_{d mod 8, j}` -/
def Variant.R (v : Variant) (d j : Nat) : Nat := (v.rot.getD (d % 8) #[]).getD j 0
/-- `π(i)` -/
def Variant.π (v : Variant) (i : Nat) : Nat := v.pi.getD i 0

/-- `BytesToWords`: word `i` is `Σ_j b_{8i+j}·256^j` -/
def bytesToWords (n : Nat) (bs : Bytes) : Vector (BitVec 64) n :=
  Vector.ofFn (fun i : Fin n => BitVec.ofNat 64 (bytesToNatLE ((bs.drop (8 * i.val)).take 8)))

/-- `WordsToBytes`: byte `k` is `⌊w_{k/8} / 256^{k mod 8}⌋ mod 256` -/
def wordsToBytes {n : Nat} (ws : Vector (BitVec 64) n) : Bytes :=
  (List.range (8 * n)).map (fun k => BitVec.ofNat 8 ((ws.getD (k / 8) 0#64).toNat / 256 ^ (k % 8) % 256))

/-- `k_i` for `i = 0 … N_w` -/
def keyWord {n : Nat} (K : Vector (BitVec 64) n) (i : Nat) : BitVec 64 :=
  if i < n then K.getD i 0#64 else K.toList.foldl (· ^^^ ·) C240

/-- `t_i` for `i = 0, 1, 2` -/
def tweakWord (t0 t1 : BitVec 64) (i : Nat) : BitVec 64 :=
  match i with
  | 0 => t0
  | 1 => t1
  | _ => t0 ^^^ t1

/-- subkey word `k_{s,i}` -/
def subkey {n : Nat} (K : Vector (BitVec 64) n) (t0 t1 : BitVec 64) (s i : Nat) : BitVec 64 :=
  let k := keyWord K ((s + i) % (n + 1))
  if i + 4 ≤ n then k
  else if i + 3 = n then k + tweakWord t0 t1 (s % 3)
  else if i + 2 = n then k + tweakWord t0 t1 ((s + 1) % 3)
  else k + BitVec.ofNat 64 s

/-- `MIX_{d,j}` -/
def MIX (r : Nat) (x0 x1 : BitVec 64) : BitVec 64 × BitVec 64 :=
  let y0 := x0 + x1
  (y0, x1.rotateLeft r ^^^ y0)

/-- one round `d`: `v_d ↦ v_{d+1}` -/
def round (v : Variant) (K : Vector (BitVec 64) v.nw) (t0 t1 : BitVec 64) (d : Nat)
    (x : Vector (BitVec 64) v.nw) : Vector (BitVec 64) v.nw :=
  let e : Nat → BitVec 64 := fun i =>
    if d % 4 = 0 then x.getD i 0#64 + subkey K t0 t1 (d / 4) i else x.getD i 0#64
  let f : Nat → BitVec 64 := fun i =>
    let j := i / 2
    let y := MIX (v.R d j) (e (2 * j)) (e (2 * j + 1))
    if i % 2 = 0 then y.1 else y.2
  Vector.ofFn (fun i : Fin v.nw => f (v.π i.val))

/-- Threefish on words: `N_r` rounds and the final subkey -/
def encryptWords (v : Variant) (K : Vector (BitVec 64) v.nw) (t0 t1 : BitVec 64)
    (p : Vector (BitVec 64) v.nw) : Vector (BitVec 64) v.nw :=
  let x := (List.range v.nr).foldl (fun x d => round v K t0 t1 d x) p
  Vector.ofFn (fun i : Fin v.nw => x.getD i.val 0#64 + subkey K t0 t1 (v.nr / 4) i.val)

/-- `TF(K, T, P)` on byte strings: `K`, `P` of `8·N_w` bytes, `T` of 16 bytes -/
def encrypt (v : Variant) (K T P : Bytes) : Bytes :=
  let t := bytesToWords 2 T
  wordsToBytes (encryptWords v (bytesToWords v.nw K) (t.getD 0 0#64) (t.getD 1 0#64) (bytesToWords v.nw P))

end BC.Spec.Threefish
