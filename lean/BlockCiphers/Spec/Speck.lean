import BlockCiphers.Prelude.WordBytes
import BlockCiphers.Impl.Speck
/-
Speck as in Beaulieu, Shors, Smith, Treatman-Clark, Weeks, Wingers, "The Simon and Speck Families of
Lightweight Block Ciphers" (2013), §4, in its own terms: words are `BitVec n` (no carrier type, no masks),
`S^j` = left rotation by `j`, `S^{-j}` = right rotation.

* Table 4.1 (parameters): block 2n, key mn, rotation amounts (α, β) = (7, 2) for n = 16, (8, 3) otherwise,
  rounds T.
* round:  `R_k(x, y) = ((S^{-α} x + y) ⊕ k,  S^β y ⊕ (S^{-α} x + y) ⊕ k)`,
  inverse `R_k^{-1}(x, y) = (S^α ((x ⊕ k) − S^{-β}(x ⊕ y)),  S^{-β}(x ⊕ y))`.
* key schedule: key `K = (l_{m-2}, …, l_0, k_0)`;
  `l_{i+m-1} = (k_i + S^{-α} l_i) ⊕ i`,  `k_{i+1} = S^β k_i ⊕ l_{i+m-1}`; round keys `k_0 … k_{T-1}`.
* byte conventions of Appendix C's vectors as used by the crate: key bytes = the words `l_{m-2} … l_0 k_0`
  each big-endian; block bytes = `x ‖ y` big-endian.
-/
namespace BC.Spec.Speck

/-- one row of Table 4.1 -/
structure Variant where
  blockBits : Nat
  keyBits : Nat
  n : Nat
  m : Nat
  alpha : Nat
  beta : Nat
  T : Nat
  deriving DecidableEq, Repr

/-- Table 4.1 of the paper ("Speck parameters"), restricted to the ten (block, key) sizes -/
def table : List Variant :=
  [ ⟨32, 64, 16, 4, 7, 2, 22⟩,
    ⟨48, 72, 24, 3, 8, 3, 22⟩,
    ⟨48, 96, 24, 4, 8, 3, 23⟩,
    ⟨64, 96, 32, 3, 8, 3, 26⟩,
    ⟨64, 128, 32, 4, 8, 3, 27⟩,
    ⟨96, 96, 48, 2, 8, 3, 28⟩,
    ⟨96, 144, 48, 3, 8, 3, 29⟩,
    ⟨128, 128, 64, 2, 8, 3, 32⟩,
    ⟨128, 192, 64, 3, 8, 3, 33⟩,
    ⟨128, 256, 64, 4, 8, 3, 34⟩ ]

/-- what a macro invocation claims to be -/
def ofParams (p : BC.Speck.Params) : Variant :=
  ⟨8 * p.blockBytes, 8 * p.keyBytes, p.n, p.m, p.alpha, p.beta, p.rounds⟩

/-- well-formedness of a macro invocation: the mask is `2^n − 1`, the word fits the carrier and has whole
bytes, the rotation amounts are in `(0, n)`, the byte sizes are `2n/8` and `mn/8`, the type name is
`Speck<2n>_<mn>` -/
def WF (p : BC.Speck.Params) : Prop :=
  p.mask = 2 ^ p.n - 1 ∧ p.n ≤ p.cw ∧ p.n % 8 = 0 ∧ 0 < p.n ∧
  0 < p.alpha ∧ p.alpha < p.n ∧ 0 < p.beta ∧ p.beta < p.n ∧
  p.blockBytes = 2 * (p.n / 8) ∧ p.keyBytes = p.m * (p.n / 8) ∧ 2 ≤ p.m ∧ 1 ≤ p.rounds ∧
  p.rounds < 2 ^ p.n ∧
  p.name = "Speck" ++ toString (2 * p.n) ++ "_" ++ toString (p.m * p.n)

instance (p : BC.Speck.Params) : Decidable (WF p) := by unfold WF; infer_instance

/-! ### the cipher on `n`-bit words -/

structure XY (n : Nat) where
  x : BitVec n
  y : BitVec n

/-- `R_k` -/
def round {n : Nat} (alpha beta : Nat) (k : BitVec n) (s : XY n) : XY n :=
  let x := (s.x.rotateRight alpha + s.y) ^^^ k
  let y := s.y.rotateLeft beta ^^^ x
  { x := x, y := y }

/-- `R_k^{-1}` -/
def invRound {n : Nat} (alpha beta : Nat) (k : BitVec n) (s : XY n) : XY n :=
  let y := (s.x ^^^ s.y).rotateRight beta
  let x := ((s.x ^^^ k) - y).rotateLeft alpha
  { x := x, y := y }

/-- rounds with `k_0, …, k_{i-1}` -/
def encRounds {n : Nat} (alpha beta : Nat) (rk : Nat → BitVec n) : Nat → XY n → XY n
  | 0, s => s
  | i + 1, s => round alpha beta (rk i) (encRounds alpha beta rk i s)

/-- inverse rounds with `k_{i-1}, …, k_0` -/
def decRounds {n : Nat} (alpha beta : Nat) (rk : Nat → BitVec n) : Nat → XY n → XY n
  | 0, s => s
  | i + 1, s => decRounds alpha beta rk i (invRound alpha beta (rk i) s)

/-- the key schedule as a sliding window: current `k_i` and the window `[l_i, …, l_{i+m-2}]`;
emits `cnt` round keys starting with `k_i` -/
def expandFrom {n : Nat} (alpha beta : Nat) : Nat → Nat → BitVec n → List (BitVec n) → List (BitVec n)
  | 0, _, _, _ => []
  | cnt + 1, i, k, ls =>
    k :: match ls with
      | [] => []
      | l :: rest =>
        let l' := (k + l.rotateRight alpha) ^^^ BitVec.ofNat n i
        let k' := k.rotateLeft beta ^^^ l'
        expandFrom alpha beta cnt (i + 1) k' (rest ++ [l'])

/-- key words from key bytes: `K = (l_{m-2}, …, l_0, k_0)`, each word big-endian in `n/8` bytes -/
def keyWord (n : Nat) (key : Bytes) (j : Nat) : BitVec n :=
  BitVec.ofNat n (bytesToNat (slice key (j * (n / 8)) ((j + 1) * (n / 8))))

/-- round keys `k_0 … k_{T-1}` of a key given as bytes -/
def roundKeys (n m alpha beta T : Nat) (key : Bytes) : List (BitVec n) :=
  expandFrom alpha beta T 0 (keyWord n key (m - 1))
    ((List.range (m - 1)).map (fun i => keyWord n key (m - 2 - i)))

def load (n : Nat) (b : Bytes) : XY n :=
  { x := BitVec.ofNat n (bytesToNat (slice b 0 (n / 8))),
    y := BitVec.ofNat n (bytesToNat (slice b (n / 8) (2 * (n / 8)))) }

def store {n : Nat} (s : XY n) : Bytes := toBEn (n / 8) s.x.toNat ++ toBEn (n / 8) s.y.toNat

def encryptBytes (n alpha beta T : Nat) (rk : Nat → BitVec n) (b : Bytes) : Bytes :=
  store (encRounds alpha beta rk T (load n b))

def decryptBytes (n alpha beta T : Nat) (rk : Nat → BitVec n) (b : Bytes) : Bytes :=
  store (decRounds alpha beta rk T (load n b))

end BC.Spec.Speck
