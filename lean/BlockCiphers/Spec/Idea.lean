import BlockCiphers.Prelude.Bytes
/-
IDEA in the terms of Lai–Massey ("A Proposal for a New Block Encryption Standard", 1990 / Lai's thesis) and
Schneier, Applied Cryptography, 2nd ed., §13.9:

* three group operations on 16-bit sub-blocks: XOR, addition modulo 2^16, multiplication modulo 2^16 + 1 where
  the all-zero sub-block stands for 2^16;
* 52 sub-keys Z_1 … Z_52: the 128-bit key is split into eight 16-bit sub-keys, then rotated left by 25 bits and
  split again, and so on;
* eight rounds (14 steps each), the two middle sub-blocks being swapped after every round except the last,
  followed by the output transformation with Z_49 … Z_52;
* decryption = the same algorithm with the sub-keys of Schneier's Table 13.4 (multiplicative inverses modulo
  2^16 + 1, additive inverses modulo 2^16).

Sub-keys are indexed from 0 here: `Z i` is the standard's Z_{i+1}.  Nothing here refers to the Rust code.
-/
namespace BC.Spec.Idea

/-- the integer represented by a sub-block for the multiplication: `0` stands for `2^16` -/
def toRes (a : BitVec 16) : Nat := if a = 0#16 then 2 ^ 16 else a.toNat

/-- back to a sub-block: `2^16` is written as the all-zero sub-block -/
def ofRes (n : Nat) : BitVec 16 := BitVec.ofNat 16 n

/-- multiplication modulo 2^16 + 1 -/
def mulMod (a b : BitVec 16) : BitVec 16 := ofRes ((toRes a * toRes b) % (2 ^ 16 + 1))

/-- addition modulo 2^16 -/
def addMod (a b : BitVec 16) : BitVec 16 := a + b

/-- sub-key `Z_{i+1}`: the `i mod 8`-th 16-bit piece (from the left) of the key rotated left by `25 ⌊i/8⌋` bits -/
def Z (key : BitVec 128) (i : Nat) : BitVec 16 :=
  (key.rotateLeft (25 * (i / 8))).extractLsb' (16 * (7 - i % 8)) 16

structure Blk where
  x1 : BitVec 16
  x2 : BitVec 16
  x3 : BitVec 16
  x4 : BitVec 16

/-- the 14 steps of a round with sub-keys `Z_1 … Z_6` of the round; the result is in the natural order of the
four lines (before the swap) -/
def steps (z1 z2 z3 z4 z5 z6 : BitVec 16) (x : Blk) : Blk :=
  let s1 := mulMod x.x1 z1
  let s2 := addMod x.x2 z2
  let s3 := addMod x.x3 z3
  let s4 := mulMod x.x4 z4
  let s5 := s1 ^^^ s3
  let s6 := s2 ^^^ s4
  let s7 := mulMod s5 z5
  let s8 := addMod s6 s7
  let s9 := mulMod s8 z6
  let s10 := addMod s7 s9
  let s11 := s1 ^^^ s9
  let s12 := s3 ^^^ s9
  let s13 := s2 ^^^ s10
  let s14 := s4 ^^^ s10
  { x1 := s11, x2 := s13, x3 := s12, x4 := s14 }

/-- swap of the two middle sub-blocks -/
def swap (x : Blk) : Blk := { x1 := x.x1, x2 := x.x3, x3 := x.x2, x4 := x.x4 }

/-- round `r = 0 … 7` with the sub-key sequence `K` -/
def roundSteps (K : Nat → BitVec 16) (r : Nat) (x : Blk) : Blk :=
  steps (K (6 * r)) (K (6 * r + 1)) (K (6 * r + 2)) (K (6 * r + 3)) (K (6 * r + 4)) (K (6 * r + 5)) x

/-- output transformation -/
def output (K : Nat → BitVec 16) (x : Blk) : Blk :=
  { x1 := mulMod x.x1 (K 48), x2 := addMod x.x2 (K 49), x3 := addMod x.x3 (K 50), x4 := mulMod x.x4 (K 51) }

def split (b : BitVec 64) : Blk :=
  { x1 := b.extractLsb' 48 16, x2 := b.extractLsb' 32 16, x3 := b.extractLsb' 16 16, x4 := b.extractLsb' 0 16 }

def join (x : Blk) : BitVec 64 := x.x1 ++ x.x2 ++ x.x3 ++ x.x4

/-- the IDEA data path with 52 sub-keys `K`: rounds 1–7 with swap, round 8 without, output transformation -/
def cryptWith (K : Nat → BitVec 16) (b : BitVec 64) : BitVec 64 :=
  let x := (List.range 7).foldl (fun x r => swap (roundSteps K r x)) (split b)
  join (output K (roundSteps K 7 x))

def encrypt (key : BitVec 128) (b : BitVec 64) : BitVec 64 := cryptWith (Z key) b

/-! ### decryption sub-keys (Schneier, Table 13.4) -/

inductive Kind
  | inv   -- multiplicative inverse modulo 2^16 + 1
  | neg   -- additive inverse modulo 2^16
  | same
  deriving DecidableEq, Repr

/-- decryption sub-key `j` (0-based) is `kind` of encryption sub-key `Z_n` (1-based, as printed in the table) -/
def dkTable : List (Kind × Nat) := [
  (.inv, 49), (.neg, 50), (.neg, 51), (.inv, 52), (.same, 47), (.same, 48),
  (.inv, 43), (.neg, 45), (.neg, 44), (.inv, 46), (.same, 41), (.same, 42),
  (.inv, 37), (.neg, 39), (.neg, 38), (.inv, 40), (.same, 35), (.same, 36),
  (.inv, 31), (.neg, 33), (.neg, 32), (.inv, 34), (.same, 29), (.same, 30),
  (.inv, 25), (.neg, 27), (.neg, 26), (.inv, 28), (.same, 23), (.same, 24),
  (.inv, 19), (.neg, 21), (.neg, 20), (.inv, 22), (.same, 17), (.same, 18),
  (.inv, 13), (.neg, 15), (.neg, 14), (.inv, 16), (.same, 11), (.same, 12),
  (.inv, 7), (.neg, 9), (.neg, 8), (.inv, 10), (.same, 5), (.same, 6),
  (.inv, 1), (.neg, 2), (.neg, 3), (.inv, 4)]

/-- `d` is the `kind` of `z` -/
def Rel (kind : Kind) (d z : BitVec 16) : Prop :=
  match kind with
  | .inv => mulMod d z = 1#16
  | .neg => addMod d z = 0#16
  | .same => d = z

/-- `DK` is the decryption key schedule belonging to the encryption sub-keys `EK` -/
def IsDecKeys (EK DK : Nat → BitVec 16) : Prop :=
  ∀ j, j < 52 → Rel (dkTable.getD j (.same, 0)).1 (DK j) (EK ((dkTable.getD j (.same, 0)).2 - 1))

end BC.Spec.Idea
